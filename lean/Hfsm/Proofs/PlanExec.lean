/-
Helper lemmas for property C06 (plan execution): bit-mask arithmetic of the status masks, the closed
form of the task walk of `FullControlT::updatePlan` (`World.runTasks`), the effect of one
`updatePlan`, and the region step of `deepUpdatePlans`.
-/
import Hfsm.Model.Machine

namespace Hfsm
variable {U : Type}

open World

/-! ### bit masks -/

/-- Subtracting a mask `a` that is contained in `s` clears exactly the bits of `a`. -/
theorem testBit_sub_of_subset : (j s a : Nat) → (∀ k, a.testBit k = true → s.testBit k = true) →
    (s - a).testBit j = (s.testBit j && !a.testBit j)
  | 0, s, a, h => by
    have hle : a ≤ s := Nat.le_of_testBit h
    have h0 := h 0
    simp only [Nat.testBit_zero, decide_eq_true_eq] at h0 ⊢
    by_cases ha : a % 2 = 1
    · have := h0 ha
      have e1 : (s - a) % 2 = 0 := by omega
      simp [e1, ha, this]
    · have e1 : (s - a) % 2 = s % 2 := by omega
      have ha' : ¬ (a % 2 = 1) := ha
      simp [e1, ha']
  | j+1, s, a, h => by
    have hle : a ≤ s := Nat.le_of_testBit h
    have h0 := h 0
    simp only [Nat.testBit_zero, decide_eq_true_eq] at h0
    have hdiv : (s - a) / 2 = s / 2 - a / 2 := by omega
    rw [Nat.testBit_add_one, Nat.testBit_add_one, Nat.testBit_add_one, hdiv]
    apply testBit_sub_of_subset j
    intro k hk
    rw [Nat.testBit_div_two] at hk ⊢
    exact h _ hk

theorem bit_setBit (m i j : Nat) : bit (setBit m i) j = (bit m j || decide (i = j)) := by
  simp [bit, setBit, Nat.testBit_or, Nat.one_shiftLeft, Nat.testBit_two_pow]

theorem bit_clearBit (m i j : Nat) : bit (clearBit m i) j = (bit m j && !decide (i = j)) := by
  unfold bit clearBit
  by_cases h : m.testBit i = true
  · rw [if_pos h, Nat.one_shiftLeft, testBit_sub_of_subset]
    · simp [Nat.testBit_two_pow]
    · intro k hk
      rw [Nat.testBit_two_pow] at hk
      have : i = k := by simpa using hk
      subst this; exact h
  · rw [if_neg h]
    by_cases e : i = j
    · subst e; simp [h]
    · simp [e]

/-- `tasksSuccesses &= successesToClear` as the model writes it. -/
theorem bit_sub_and (s c j : Nat) : bit (s - (s &&& c)) j = (bit s j && !bit c j) := by
  unfold bit
  rw [testBit_sub_of_subset]
  · simp only [Nat.testBit_and]
    cases s.testBit j <;> simp
  · intro k hk
    simp only [Nat.testBit_and, Bool.and_eq_true] at hk
    exact hk.1

/-! ### picking list elements by position -/

/-- The elements of a list at the positions `i` with `f i`, in order. -/
def pickIdx {α : Type} (f : Nat → Bool) : List α → List α
  | [] => []
  | a :: l => (if f 0 then [a] else []) ++ pickIdx (fun i => f (i+1)) l

/-- `Interleave l r p`: `p` is a merge of `l` and `r` — every element of `p` goes to exactly one of the
two sides, and both sides keep the order they had in `p`. -/
inductive Interleave {α : Type} : List α → List α → List α → Prop
  | nil : Interleave [] [] []
  | left  {a l r p} : Interleave l r p → Interleave (a :: l) r (a :: p)
  | right {a l r p} : Interleave l r p → Interleave l (a :: r) (a :: p)

theorem pickIdx_interleave {α : Type} : (p : List α) → (f : Nat → Bool) →
    Interleave (pickIdx (fun i => !f i) p) (pickIdx f p) p
  | [], _ => .nil
  | a :: l, f => by
    have ih := pickIdx_interleave l (fun i => f (i+1))
    unfold pickIdx
    cases h : f 0
    · simpa using Interleave.left ih
    · simpa using Interleave.right ih

theorem pickIdx_false {α : Type} : (p : List α) → pickIdx (fun _ => false) p = []
  | [] => rfl
  | _ :: l => by simp [pickIdx, pickIdx_false l]

theorem pickIdx_true {α : Type} : (p : List α) → pickIdx (fun _ => true) p = p
  | [] => rfl
  | _ :: l => by simp [pickIdx, pickIdx_true l]

theorem pickIdx_congr {α : Type} : (p : List α) → (f g : Nat → Bool) → (∀ i, i < p.length → f i = g i) →
    pickIdx f p = pickIdx g p
  | [], _, _, _ => rfl
  | a :: l, f, g, h => by
    have h0 := h 0 (by simp)
    have ih := pickIdx_congr l (fun i => f (i+1)) (fun i => g (i+1)) (fun i hi => h (i+1) (by simpa using hi))
    simp [pickIdx, h0, ih]

theorem mem_pickIdx {α : Type} : (p : List α) → (f : Nat → Bool) → (a : α) →
    (a ∈ pickIdx f p ↔ ∃ i, p[i]? = some a ∧ f i = true)
  | [], _, _ => by simp [pickIdx]
  | b :: l, f, a => by
    have ih := mem_pickIdx l (fun i => f (i+1)) a
    simp only [pickIdx, List.mem_append, ih]
    constructor
    · rintro (h | ⟨i, hi, hf⟩)
      · cases hf : f 0
        · simp [hf] at h
        · simp [hf] at h; exact ⟨0, by simp [h], hf⟩
      · exact ⟨i+1, by simpa using hi, hf⟩
    · rintro ⟨i, hi, hf⟩
      cases i with
      | zero => left; simp at hi; simp [hf, hi]
      | succ i => right; exact ⟨i, by simpa using hi, hf⟩

/-! ### the task walk -/

/-- The transition the plan executor issues for a task: always a `change` (F12). -/
def Task.issued (head : Nat) (t : Task) : Transition :=
  { origin := some head, dest := t.dest, kind := .change, payload := t.payload }

/-- The transition the task was created for. -/
def Task.intended (head : Nat) (t : Task) : Transition :=
  { origin := some head, dest := t.dest, kind := t.kind, payload := t.payload }

/-- Closed form of "the walk executes the task at position `i` of plan `p`", for the active-state mask
`act` and the success mask `succ` at the start of the walk:
every task up to and including `i` has an active origin (the walk stops at the first inactive one),
the origin of task `i` is marked succeeded, and no earlier task with the same origin is cyclic
(an executed cyclic task clears its origin's mark at once; such an earlier task would have been executed). -/
def execAt (act succ : Nat) (p : List Task) (i : Nat) : Bool :=
  match p[i]? with
  | none => false
  | some t => (p.take (i+1)).all (fun u => bit act u.origin) && bit succ t.origin &&
              (p.take i).all (fun u => !(u.origin == t.origin && u.cyclic))

/-- The tasks the walk executes, in order. -/
def executed (act succ : Nat) (p : List Task) : List Task := pickIdx (execAt act succ p) p
/-- The tasks the walk leaves in the plan, in order. -/
def kept (act succ : Nat) (p : List Task) : List Task := pickIdx (fun i => !execAt act succ p i) p

theorem execAt_zero (act succ : Nat) (t : Task) (rest : List Task) :
    execAt act succ (t :: rest) 0 = (bit act t.origin && bit succ t.origin) := by
  simp [execAt]

theorem execAt_inactive (act succ : Nat) (t : Task) (rest : List Task) (h : bit act t.origin = false) (i : Nat) :
    execAt act succ (t :: rest) i = false := by
  unfold execAt
  cases (t :: rest)[i]? with
  | none => rfl
  | some u => simp [List.take_succ_cons, h]

/-- Passing an active first task: the rest of the walk is the walk over the rest of the plan with the
success mask as the first task left it. -/
theorem execAt_succ (act succ : Nat) (t : Task) (rest : List Task) (h : bit act t.origin = true) (i : Nat) :
    execAt act succ (t :: rest) (i+1) =
      execAt act (if bit succ t.origin && t.cyclic then clearBit succ t.origin else succ) rest i := by
  unfold execAt
  simp only [List.getElem?_cons_succ, List.take_succ_cons, List.all_cons, h, Bool.true_and]
  cases rest[i]? with
  | none => rfl
  | some u =>
    simp only
    have key : (bit succ u.origin && !(t.origin == u.origin && t.cyclic)) =
        bit (if bit succ t.origin && t.cyclic then clearBit succ t.origin else succ) u.origin := by
      cases hc : t.cyclic
      · simp
      · by_cases e : t.origin = u.origin
        · cases hs : bit succ t.origin
          · simp [e ▸ hs, e]
          · simp [bit_clearBit, e]
        · cases hs : bit succ t.origin
          · simp [e]
          · simp [bit_clearBit, e]
    rw [← key]
    cases bit succ u.origin <;> cases (t.origin == u.origin && t.cyclic) <;> simp

namespace World

/-- What executing one task does to the world: `Origin origin{*this, STATE_ID}; changeTo/changeWith`. -/
def execTask (w : World U) (head : Nat) (t : Task) : World U :=
  let saved := w.origin
  let w := ({ w with origin := some head }).ctlRequest .change t.dest t.payload
  { w with origin := saved }

/-- `dest` lies outside the region the control currently points to. -/
def outside (w : World U) (dest : Nat) : Bool :=
  decide (dest < w.regionStateId) || decide (w.regionStateId + w.regionSize ≤ dest)

theorem execTask_eq (w : World U) (head : Nat) (t : Task) :
    w.execTask head t =
      { w with
        requests := if w.requests.length < w.cfg.queueCap then w.requests ++ [t.issued head] else w.requests
        taskStatus := { w.taskStatus with outer := w.taskStatus.outer || w.outside t.dest }
        trace := if w.cfg.logging then .log (.transition (some head) .change t.dest) :: w.trace else w.trace } := by
  unfold execTask ctlRequest logRec emit outside Task.issued
  by_cases h1 : w.requests.length < w.cfg.queueCap <;>
  by_cases h2 : t.dest < w.regionStateId <;>
  by_cases h2' : w.regionStateId + w.regionSize ≤ t.dest <;>
  by_cases h3 : w.cfg.logging = true <;>
  simp [h1, h2, h2', h3]

end World

/-- Success mask after the walk: every executed cyclic task clears its origin's mark at once. -/
def succAfter (succ : Nat) (ex : List Task) : Nat :=
  ex.foldl (fun s t => if t.cyclic then clearBit s t.origin else s) succ

/-- The marks to clear at the end of the walk: origins of the executed non-cyclic tasks. -/
def clrAfter (clr : Nat) (ex : List Task) : Nat :=
  ex.foldl (fun c t => if t.cyclic then c else setBit c t.origin) clr

/-- The world after executing the tasks `ex` on behalf of `head`. -/
def World.execAll (w : World U) (head : Nat) (ex : List Task) : World U :=
  { w with
    requests := w.requests ++ (ex.map (Task.issued head)).take (w.cfg.queueCap - w.requests.length)
    succ := succAfter w.succ ex
    taskStatus := { w.taskStatus with outer := w.taskStatus.outer || ex.any (fun t => w.outside t.dest) }
    trace := (if w.cfg.logging then (ex.map fun t => Event.log (.transition (some head) .change t.dest)).reverse else [])
             ++ w.trace }

theorem World.execAll_nil (w : World U) (head : Nat) : w.execAll head [] = w := by
  simp [World.execAll, succAfter]


theorem runTasks_cons (head : Nat) (t : Task) (rest : List Task) (w : World U) (clr : Nat) :
    World.runTasks head (t :: rest) w clr =
      if !w.isActiveSnap t.origin then (t :: rest, w, clr) else
      if bit w.succ t.origin then
        World.runTasks head rest
          (if t.cyclic then { w.execTask head t with succ := clearBit (w.execTask head t).succ t.origin } else w.execTask head t)
          (if t.cyclic then clr else setBit clr t.origin)
      else (t :: (World.runTasks head rest w clr).1, (World.runTasks head rest w clr).2.1, (World.runTasks head rest w clr).2.2) := by
  rw [World.runTasks]
  by_cases h1 : w.isActiveSnap t.origin = true
  · by_cases h2 : bit w.succ t.origin = true
    · cases t.cyclic <;> simp [h1, h2, World.execTask]
    · simp [h1, h2]
  · simp [h1]

theorem kept_cons_inactive (act succ : Nat) (t : Task) (rest : List Task) (h : bit act t.origin = false) :
    kept act succ (t :: rest) = t :: rest ∧ executed act succ (t :: rest) = [] := by
  unfold kept executed
  constructor
  · rw [pickIdx_congr _ _ (fun _ => true) (fun i _ => by simp [execAt_inactive act succ t rest h i])]
    exact pickIdx_true _
  · rw [pickIdx_congr _ _ (fun _ => false) (fun i _ => execAt_inactive act succ t rest h i)]
    exact pickIdx_false _

theorem kept_cons_exec (act succ : Nat) (t : Task) (rest : List Task) (h : bit act t.origin = true)
    (hs : bit succ t.origin = true) :
    kept act succ (t :: rest) = kept act (if t.cyclic then clearBit succ t.origin else succ) rest ∧
    executed act succ (t :: rest) = t :: executed act (if t.cyclic then clearBit succ t.origin else succ) rest := by
  unfold kept executed
  simp only [pickIdx, execAt_zero, h, hs, execAt_succ act succ t rest h]
  simp

theorem kept_cons_skip (act succ : Nat) (t : Task) (rest : List Task) (h : bit act t.origin = true)
    (hs : bit succ t.origin = false) :
    kept act succ (t :: rest) = t :: kept act succ rest ∧
    executed act succ (t :: rest) = executed act succ rest := by
  unfold kept executed
  simp only [pickIdx, execAt_zero, h, hs, execAt_succ act succ t rest h]
  simp

theorem World.execAll_cons (w : World U) (head : Nat) (t : Task) (ex : List Task) :
    w.execAll head (t :: ex) =
      World.execAll (if t.cyclic then { w.execTask head t with succ := clearBit (w.execTask head t).succ t.origin }
                     else w.execTask head t) head ex := by
  rw [World.execTask_eq]
  unfold World.execAll
  by_cases hq : w.requests.length < w.cfg.queueCap <;> cases hc : t.cyclic <;> cases hl : w.cfg.logging <;>
    simp [hq, hc, hl, succAfter, World.outside, Bool.or_assoc]
  all_goals first
    | (obtain ⟨k, hk⟩ : ∃ k, w.cfg.queueCap - w.requests.length = k + 1 := ⟨w.cfg.queueCap - w.requests.length - 1, by omega⟩
       have hk' : w.cfg.queueCap - (w.requests.length + 1) = k := by omega
       rw [hk, hk']; rfl)
    | (have h0 : w.cfg.queueCap - w.requests.length = 0 := by omega
       rw [h0]; rfl)


/-- **Closed form of the task walk.** -/
theorem runTasks_eq (head : Nat) : (p : List Task) → (w : World U) → (clr : Nat) →
    World.runTasks head p w clr =
      (kept w.activeSnap w.succ p, w.execAll head (executed w.activeSnap w.succ p),
       clrAfter clr (executed w.activeSnap w.succ p))
  | [], w, clr => by simp [World.runTasks, kept, executed, pickIdx, World.execAll_nil, clrAfter]
  | t :: rest, w, clr => by
    rw [runTasks_cons]
    by_cases h1 : bit w.activeSnap t.origin = true
    · by_cases h2 : bit w.succ t.origin = true
      · obtain ⟨e1, e2⟩ := kept_cons_exec w.activeSnap w.succ t rest h1 h2
        have hs : (w.execTask head t).succ = w.succ := by rw [World.execTask_eq]
        have ha : (w.execTask head t).activeSnap = w.activeSnap := by rw [World.execTask_eq]
        simp only [World.isActiveSnap, h1, h2, Bool.not_true, Bool.false_eq_true, if_false, if_true]
        rw [runTasks_eq head rest, e1, e2, World.execAll_cons]
        cases hc : t.cyclic <;> simp [hs, ha, clrAfter, hc]
      · have h2' : bit w.succ t.origin = false := by simpa using h2
        obtain ⟨e1, e2⟩ := kept_cons_skip w.activeSnap w.succ t rest h1 h2'
        simp only [World.isActiveSnap, h1, h2', Bool.not_true, Bool.false_eq_true, if_false]
        rw [runTasks_eq head rest, e1, e2]
    · have h1' : bit w.activeSnap t.origin = false := by simpa using h1
      obtain ⟨e1, e2⟩ := kept_cons_inactive w.activeSnap w.succ t rest h1'
      simp [World.isActiveSnap, h1', e1, e2, World.execAll_nil, clrAfter]

/-! ### consequences of the closed form -/

theorem kept_executed_interleave (act succ : Nat) (p : List Task) :
    Interleave (kept act succ p) (executed act succ p) p :=
  pickIdx_interleave p (execAt act succ p)

theorem execAt_iff (act succ : Nat) (p : List Task) (i : Nat) :
    execAt act succ p i = true ↔
      ∃ t, p[i]? = some t ∧
        (∀ j u, j ≤ i → p[j]? = some u → bit act u.origin = true) ∧
        bit succ t.origin = true ∧
        (∀ j u, j < i → p[j]? = some u → u.origin = t.origin → u.cyclic = false) := by
  unfold execAt
  cases hi : p[i]? with
  | none => simp
  | some t =>
    simp only [Bool.and_eq_true, List.all_eq_true, Option.some.injEq, exists_eq_left']
    constructor
    · rintro ⟨⟨h1, h2⟩, h3⟩
      refine ⟨?_, h2, ?_⟩
      · intro j u hj hu
        apply h1
        rw [List.mem_take_iff_getElem]
        have hlt : j < p.length := by
          rcases Nat.lt_or_ge j p.length with h | h
          · exact h
          · rw [List.getElem?_eq_none h] at hu; cases hu
        refine ⟨j, by omega, ?_⟩
        rw [List.getElem?_eq_getElem hlt] at hu
        exact Option.some.inj hu
      · intro j u hj hu ho
        have hlt : j < p.length := by
          rcases Nat.lt_or_ge j p.length with h | h
          · exact h
          · rw [List.getElem?_eq_none h] at hu; cases hu
        have := h3 u (by
          rw [List.mem_take_iff_getElem]
          refine ⟨j, by omega, ?_⟩
          rw [List.getElem?_eq_getElem hlt] at hu
          exact Option.some.inj hu)
        cases hc : u.cyclic
        · rfl
        · simp [ho, hc] at this
    · rintro ⟨h1, h2, h3⟩
      refine ⟨⟨?_, h2⟩, ?_⟩
      · intro u hu
        rw [List.mem_take_iff_getElem] at hu
        obtain ⟨j, hj, e⟩ := hu
        have hj' : j < p.length := by omega
        exact h1 j u (by omega) (by rw [List.getElem?_eq_getElem hj', e])
      · intro u hu
        rw [List.mem_take_iff_getElem] at hu
        obtain ⟨j, hj, e⟩ := hu
        have hj' : j < p.length := by omega
        have hu' : p[j]? = some u := by rw [List.getElem?_eq_getElem hj', e]
        by_cases ho : u.origin = t.origin
        · simp [h3 j u (by omega) hu' ho]
        · simp [ho]

/-- Safety: an executed task has an active origin that is marked succeeded. -/
theorem executed_sound (act succ : Nat) (p : List Task) (t : Task) (h : t ∈ executed act succ p) :
    bit act t.origin = true ∧ bit succ t.origin = true := by
  unfold executed at h
  rw [mem_pickIdx] at h
  obtain ⟨i, hi, hf⟩ := h
  rw [execAt_iff] at hf
  obtain ⟨t', ht', h1, h2, _⟩ := hf
  rw [hi] at ht'; cases ht'
  exact ⟨h1 i t (Nat.le_refl _) hi, h2⟩

theorem bit_succAfter (j : Nat) : (ex : List Task) → (s : Nat) →
    bit (succAfter s ex) j = (bit s j && !ex.any (fun t => t.cyclic && decide (t.origin = j)))
  | [], s => by simp [succAfter]
  | t :: ex, s => by
    have ih := bit_succAfter j ex (if t.cyclic then clearBit s t.origin else s)
    unfold succAfter at ih ⊢
    rw [List.foldl_cons, ih]
    cases hc : t.cyclic <;> simp [bit_clearBit, Bool.and_assoc, hc]

theorem bit_clrAfter (j : Nat) : (ex : List Task) → (c : Nat) →
    bit (clrAfter c ex) j = (bit c j || ex.any (fun t => !t.cyclic && decide (t.origin = j)))
  | [], c => by simp [clrAfter]
  | t :: ex, c => by
    have ih := bit_clrAfter j ex (if t.cyclic then c else setBit c t.origin)
    unfold clrAfter at ih ⊢
    rw [List.foldl_cons, ih]
    cases hc : t.cyclic <;> simp [bit_setBit, Bool.or_assoc, hc]

/-- The success marks left by the task branch of `updatePlan`: the mark of a state survives iff no
executed task had it as origin. -/
theorem bit_succ_final (s : Nat) (ex : List Task) (j : Nat) :
    bit (succAfter s ex - (succAfter s ex &&& clrAfter 0 ex)) j =
      (bit s j && !ex.any (fun t => decide (t.origin = j))) := by
  rw [bit_sub_and, bit_succAfter, bit_clrAfter]
  have h0 : bit 0 j = false := by simp [bit]
  rw [h0]
  induction ex with
  | nil => simp
  | cons t ex ih =>
    simp only [List.any_cons] at ih ⊢
    cases hc : t.cyclic <;> cases ho : decide (t.origin = j) <;> cases hb : bit s j <;> simp_all


/-! ### the `_taskStatus` register under a callback's actions -/

/-- Effect of one callback action on the `result` half of the `_taskStatus` register of a full control
(`n` = `STATE_COUNT`): `succeed`/`fail` of a valid non-root state overwrite it, nothing else touches it. -/
def Action.onResult (n : Nat) (r : TResult) : Action U → TResult
  | .succeed s => if 0 < s && s < n then .success else r
  | .fail s => if 0 < s && s < n then .failure else r
  | _ => r

/-- Effect of one callback action on the `outerTransition` half of the register, for a control whose
current region spans the state ids `[lo, lo+size)`: any request but `schedule` that leaves the region sets it. -/
def Action.onOuter (lo size : Nat) (o : Bool) : Action U → Bool
  | .request k d _ => o || (k != .schedule && (decide (d < lo) || decide (lo + size ≤ d)))
  | _ => o

namespace World

theorem fail'_cfg (w : World U) (s : String) : (w.fail' s).cfg = w.cfg := by
  unfold fail'; cases w.err <;> rfl
theorem fail'_taskStatus (w : World U) (s : String) : (w.fail' s).taskStatus = w.taskStatus := by
  unfold fail'; cases w.err <;> rfl
theorem fail'_region (w : World U) (s : String) :
    (w.fail' s).regionStateId = w.regionStateId ∧ (w.fail' s).regionSize = w.regionSize ∧ (w.fail' s).regionId = w.regionId := by
  unfold fail'; cases w.err <;> simp
theorem logRec_cfg (w : World U) (r : LogRec U) : (w.logRec r).cfg = w.cfg := by
  unfold logRec emit; split <;> rfl
theorem logRec_taskStatus (w : World U) (r : LogRec U) : (w.logRec r).taskStatus = w.taskStatus := by
  unfold logRec emit; split <;> rfl
theorem logRec_region (w : World U) (r : LogRec U) :
    (w.logRec r).regionStateId = w.regionStateId ∧ (w.logRec r).regionSize = w.regionSize ∧ (w.logRec r).regionId = w.regionId := by
  unfold logRec emit; split <;> simp

theorem act_cfg (c : CtlClass) (w : World U) (a : Action U) : (act c w a).cfg = w.cfg := by
  cases a <;> simp only [act] <;> (try split) <;>
    simp [fail'_cfg, logRec_cfg, ctlRequest, ctlSucceed, ctlFail, planAppend, planClear, setPlan] <;>
    (repeat' split) <;> simp [logRec_cfg]

theorem act_region (c : CtlClass) (w : World U) (a : Action U) :
    (act c w a).regionStateId = w.regionStateId ∧ (act c w a).regionSize = w.regionSize ∧ (act c w a).regionId = w.regionId := by
  cases a <;> simp only [act] <;> (try split) <;>
    simp [fail'_region, logRec_region, ctlRequest, ctlSucceed, ctlFail, planAppend, planClear, setPlan] <;>
    (repeat' split) <;> simp [logRec_region]

theorem act_result (c : CtlClass) (w : World U) (a : Action U) :
    (act c w a).taskStatus.result =
      if c.isFull then a.onResult w.cfg.stateCount w.taskStatus.result else w.taskStatus.result := by
  cases a <;> simp only [act, Action.onResult] <;> (try split) <;>
    simp_all [fail'_taskStatus, logRec_taskStatus, ctlRequest, ctlSucceed, ctlFail, planAppend, planClear, setPlan] <;>
    (repeat' split) <;> simp_all [logRec_taskStatus]

theorem act_outer (c : CtlClass) (w : World U) (a : Action U) :
    (act c w a).taskStatus.outer =
      if c.isFull then a.onOuter w.regionStateId w.regionSize w.taskStatus.outer else w.taskStatus.outer := by
  cases a <;> simp only [act, Action.onOuter] <;> (try split) <;>
    simp_all [fail'_taskStatus, logRec_taskStatus, ctlRequest, ctlSucceed, ctlFail, planAppend, planClear, setPlan] <;>
    (repeat' split) <;> simp_all [logRec_taskStatus]
  all_goals (intro hk hd; rename_i h; have := h hk; omega)

end World

namespace World

/-- The register after a whole decision, as folds over its actions. -/
theorem foldl_act_cfg (c : CtlClass) : (d : Decision U) → (w : World U) → (d.foldl (act c) w).cfg = w.cfg
  | [], _ => rfl
  | a :: d, w => by rw [List.foldl_cons, foldl_act_cfg c d, act_cfg]

theorem foldl_act_region (c : CtlClass) : (d : Decision U) → (w : World U) →
    (d.foldl (act c) w).regionStateId = w.regionStateId ∧ (d.foldl (act c) w).regionSize = w.regionSize ∧
    (d.foldl (act c) w).regionId = w.regionId
  | [], _ => ⟨rfl, rfl, rfl⟩
  | a :: d, w => by
    rw [List.foldl_cons]
    obtain ⟨h1, h2, h3⟩ := foldl_act_region c d (act c w a)
    obtain ⟨g1, g2, g3⟩ := act_region c w a
    exact ⟨h1.trans g1, h2.trans g2, h3.trans g3⟩

theorem foldl_act_result (c : CtlClass) (hc : c.isFull = true) : (d : Decision U) → (w : World U) →
    (d.foldl (act c) w).taskStatus.result = d.foldl (Action.onResult w.cfg.stateCount) w.taskStatus.result
  | [], _ => rfl
  | a :: d, w => by
    rw [List.foldl_cons, List.foldl_cons, foldl_act_result c hc d, act_cfg, act_result, if_pos hc]

theorem foldl_act_outer (c : CtlClass) (hc : c.isFull = true) : (d : Decision U) → (w : World U) →
    (d.foldl (act c) w).taskStatus.outer = d.foldl (Action.onOuter w.regionStateId w.regionSize) w.taskStatus.outer
  | [], _ => rfl
  | a :: d, w => by
    obtain ⟨g1, g2, _⟩ := act_region c w a
    rw [List.foldl_cons, List.foldl_cons, foldl_act_outer c hc d, g1, g2, act_outer, if_pos hc]

/-- One callback of a full control seen from the register: the status afterwards is the status before,
pushed through the decision's actions. -/
def regAfter (n lo size : Nat) (d : Decision U) (s : TaskStatus) : TaskStatus :=
  { result := d.foldl (Action.onResult n) s.result, outer := d.foldl (Action.onOuter lo size) s.outer }

theorem invoke_taskStatus (w : World U) (sid : Nat) (m : Method) (slot : Nat) (d : Decision U) (rest : List (Decision U))
    (hd : w.ds = d :: rest) (hm : m.cls.isFull = true) :
    (w.invoke sid m slot).1.taskStatus = regAfter w.cfg.stateCount w.regionStateId w.regionSize d w.taskStatus := by
  unfold invoke
  rw [hd]
  simp only [emit]
  have h1 := foldl_act_result m.cls hm d { w with ds := rest }
  have h2 := foldl_act_outer m.cls hm d { w with ds := rest }
  unfold regAfter
  cases hts : (List.foldl (act m.cls) { w with ds := rest } d).taskStatus with
  | mk r o =>
    rw [hts] at h1 h2
    simp only at h1 h2
    simp [h1, h2]

/-- A plan callback (`planSucceeded` / `planFailed`) of a headed region: exactly one user handler runs
(the state's own: injected bases have no plan handlers), preceded by its method log record. -/
theorem stateMethod_plan (w : World U) (sid inj : Nat) (m : Method) (hm : m = .planSucceeded ∨ m = .planFailed) :
    w.stateMethod sid inj true m =
      { (({ w.logRec (.method sid m) with origin := some sid }).invoke sid m inj).1 with origin := w.origin } := by
  have hl : (w.logRec (.method sid m)).origin = w.origin := by unfold logRec emit; split <;> rfl
  rcases hm with rfl | rfl <;> simp [stateMethod, slotOrder, invokeSlots, hl]

/-- A headless region's anonymous head has no handler: nothing runs. -/
theorem stateMethod_headless (w : World U) (sid inj : Nat) (m : Method) :
    w.stateMethod sid inj false m = if w.cfg.verbose then w.logRec (.method sid m) else w := by
  simp [stateMethod]

end World

namespace World

/-! ### `FullControlT::updatePlan`, branch by branch -/

/-- The world in which the head's `planSucceeded` / `planFailed` handler starts: the register holds the
plan's result and the plan-status record has been logged. -/
def planVerdict (w : World U) (success : Bool) : World U :=
  ({ w with taskStatus := { w.taskStatus with result := if success then .success else .failure } }).logRec
    (.planStatus w.regionStateId success)

theorem updatePlan_failure (w : World U) (head inj : Nat) (headed : Bool) (s : TaskStatus) (hs : s.result = .failure) :
    w.updatePlan head inj headed s =
      (((w.planVerdict false).stateMethod head inj headed .planFailed),
       { result := ((w.planVerdict false).stateMethod head inj headed .planFailed).taskStatus.result }) := by
  simp [updatePlan, hs, planVerdict]

theorem updatePlan_success_done (w : World U) (head inj : Nat) (headed : Bool) (s : TaskStatus)
    (hs : s.result = .success) (hp : w.planOf w.regionId = []) :
    w.updatePlan head inj headed s =
      (((w.planVerdict true).stateMethod head inj headed .planSucceeded),
       { result := ((w.planVerdict true).stateMethod head inj headed .planSucceeded).taskStatus.result }) := by
  simp [updatePlan, hs, hp, planVerdict]

/-- The task branch: the plan is walked, the executed tasks leave it, their origins' success marks are
cleared, and the region reports nothing upwards. -/
theorem updatePlan_success_tasks (w : World U) (head inj : Nat) (headed : Bool) (s : TaskStatus)
    (hs : s.result = .success) (hp : w.planOf w.regionId ≠ []) :
    w.updatePlan head inj headed s =
      (let p := w.planOf w.regionId
       let ex := executed w.activeSnap w.succ p
       { w.execAll head ex with
         plans := w.plans.set w.regionId (kept w.activeSnap w.succ p)
         succ := succAfter w.succ ex - (succAfter w.succ ex &&& clrAfter 0 ex) }, {}) := by
  have hne : (w.planOf w.regionId).isEmpty = false := by
    cases h : w.planOf w.regionId with
    | nil => exact absurd h hp
    | cons _ _ => rfl
  simp only [updatePlan, hs, hne, Bool.not_false, if_true, runTasks_eq]
  simp [setPlan, execAll]

theorem updatePlan_none (w : World U) (head inj : Nat) (headed : Bool) (s : TaskStatus) (hs : s.result = .none) :
    w.updatePlan head inj headed s = (w, {}) := by
  simp [updatePlan, hs]

/-! ### the region step of `C_/O_::deepUpdatePlans` -/

/-- What `C_/O_::deepUpdatePlans` does once the head's status `hs` and the status `sub` returned by the
sub-states are known (`w` is the world after the sub-states' own plan updates). -/
def regionPlans (w : World U) (id rid inj : Nat) (h : Bool) (size : Nat) (hs sub : TaskStatus) : World U × TaskStatus :=
  let ss := (getStatus w.subStatus rid).or sub
  if hs.toBool then (w, hs) else
  if ss.outer then (w, { result := .none, outer := true }) else
  let (w, sv) := w.pushRegion rid id size
  let (w, res) := if ss.toBool && bit w.planExists rid then w.updatePlan id inj h ss else (w, ss)
  (w.popRegion sv, res)

end World

/-- The sub-state part of a region's `deepUpdatePlans`. -/
def Node.subPlans : Node → World U → World U × TaskStatus
  | .leaf .., w => (w, {})
  | .compo _ _ _ _ _ a _ _ _ s, w => match a with
    | some ai => s.updatePlansAt ai w
    | none => (w, {})
  | .ortho _ _ _ _ s, w => s.updatePlansAll w

/-- `(head id, region id, injected bases, headed, region size)` of a region node that can be updated
(a composite region must be active). -/
def Node.regionInfo : Node → Option (Nat × Nat × Nat × Bool × Nat)
  | .leaf .. => none
  | .compo id rid inj h _ a _ _ _ s => if a.isSome then some (id, rid, inj, h, 1 + s.size) else none
  | .ortho id rid inj h s => some (id, rid, inj, h, 1 + s.size)

/-- `deepUpdatePlans` of a region = sub-states first, then the region step. -/
theorem Node.updatePlans_region (n : Node) (w : World U) (id rid inj : Nat) (h : Bool) (size : Nat)
    (hi : n.regionInfo = some (id, rid, inj, h, size)) :
    n.updatePlans w =
      (n.subPlans w).1.regionPlans id rid inj h size
        ((getStatus w.headStatus rid).or (w.stateTaskStatus id)) (n.subPlans w).2 := by
  cases n with
  | leaf => simp [Node.regionInfo] at hi
  | compo id' rid' inj' h' st a r q m s =>
    cases a with
    | none => simp [Node.regionInfo] at hi
    | some ai =>
      simp only [Node.regionInfo, Option.isSome_some, if_true, Option.some.injEq, Prod.mk.injEq] at hi
      obtain ⟨rfl, rfl, rfl, rfl, rfl⟩ := hi
      simp only [Node.updatePlans, Node.subPlans, World.regionPlans]
      rfl
  | ortho id' rid' inj' h' s =>
    simp only [Node.regionInfo, Option.some.injEq, Prod.mk.injEq] at hi
    obtain ⟨rfl, rfl, rfl, rfl, rfl⟩ := hi
    simp only [Node.updatePlans, Node.subPlans, World.regionPlans]
    rfl

theorem Node.updatePlans_leaf (id inj : Nat) (w : World U) :
    (Node.leaf id inj).updatePlans w = (w, w.stateTaskStatus id) := by
  simp [Node.updatePlans]


namespace World

/-! ### the region step, case by case -/

theorem regionPlans_head (w : World U) (id rid inj : Nat) (h : Bool) (size : Nat) (hs sub : TaskStatus)
    (hh : hs.toBool = true) : w.regionPlans id rid inj h size hs sub = (w, hs) := by
  simp [regionPlans, hh]

theorem regionPlans_outer (w : World U) (id rid inj : Nat) (h : Bool) (size : Nat) (hs sub : TaskStatus)
    (hh : hs.toBool = false) (ho : ((getStatus w.subStatus rid).or sub).outer = true) :
    w.regionPlans id rid inj h size hs sub = (w, { result := .none, outer := true }) := by
  simp [regionPlans, hh, ho]

theorem regionPlans_pass (w : World U) (id rid inj : Nat) (h : Bool) (size : Nat) (hs sub : TaskStatus)
    (hh : hs.toBool = false) (ho : ((getStatus w.subStatus rid).or sub).outer = false)
    (hp : (((getStatus w.subStatus rid).or sub).toBool && bit w.planExists rid) = false) :
    w.regionPlans id rid inj h size hs sub =
      ({ w with taskStatus := {} }, (getStatus w.subStatus rid).or sub) := by
  simp only [regionPlans, hh, ho, pushRegion]
  simp [hp, popRegion]

theorem regionPlans_plan (w : World U) (id rid inj : Nat) (h : Bool) (size : Nat) (hs sub : TaskStatus)
    (hh : hs.toBool = false) (ho : ((getStatus w.subStatus rid).or sub).outer = false)
    (hp : (((getStatus w.subStatus rid).or sub).toBool && bit w.planExists rid) = true) :
    w.regionPlans id rid inj h size hs sub =
      ((({ w with regionId := rid, regionStateId := id, regionSize := size }).updatePlan id inj h
          ((getStatus w.subStatus rid).or sub)).1.popRegion (w.regionId, w.regionStateId, w.regionSize),
       (({ w with regionId := rid, regionStateId := id, regionSize := size }).updatePlan id inj h
          ((getStatus w.subStatus rid).or sub)).2) := by
  simp only [regionPlans, hh, ho, pushRegion]
  simp [hp]

/-! ### frame: the configuration never changes -/

theorem invoke_cfg (w : World U) (sid : Nat) (m : Method) (slot : Nat) : (w.invoke sid m slot).1.cfg = w.cfg := by
  unfold invoke
  cases h : w.ds with
  | nil => simp [fail'_cfg]
  | cons d rest => simp [emit, foldl_act_cfg]

theorem invokeSlots_cfg (sid : Nat) (m : Method) : (l : List Nat) → (w : World U) → (w.invokeSlots sid m l).cfg = w.cfg
  | [], _ => rfl
  | s :: l, w => by rw [invokeSlots, invokeSlots_cfg sid m l, invoke_cfg]

theorem stateMethod_cfg (w : World U) (sid inj : Nat) (h : Bool) (m : Method) : (w.stateMethod sid inj h m).cfg = w.cfg := by
  unfold stateMethod
  cases h <;> simp only [Bool.false_eq_true, if_false, if_true, Bool.false_or, Bool.true_or]
  · split <;> simp [logRec_cfg]
  · simp [invokeSlots_cfg, logRec_cfg]

theorem runState_cfg (w : World U) (sid inj : Nat) (h : Bool) (m : Method) : (w.runState sid inj h m).1.cfg = w.cfg := by
  simp [runState, stateMethod_cfg]

theorem orHead_cfg (w : World U) (r : Nat) (s : TaskStatus) : (w.orHead r s).cfg = w.cfg := by
  unfold orHead; split <;> rfl
theorem orSub_cfg (w : World U) (r : Nat) (s : TaskStatus) : (w.orSub r s).cfg = w.cfg := by
  unfold orSub; split <;> rfl

end World

mutual
theorem Node.tick_cfg (ph : Method) : (n : Node) → (w : World U) → (n.tick ph w).1.cfg = w.cfg
  | .leaf id inj, w => by simp [Node.tick, runState_cfg]
  | .compo id rid inj h st a r q m s, w => by
    cases a with
    | none => simp [Node.tick, fail'_cfg]
    | some ai =>
      simp only [Node.tick, pushRegion]
      by_cases hp : ph = .postUpdate
      · simp only [hp, if_true, popRegion]
        rw [orHead_cfg, runState_cfg, orSub_cfg, Subs.tickAt_cfg]
      · simp only [hp, if_false, popRegion]
        rw [orSub_cfg, Subs.tickAt_cfg, orHead_cfg, runState_cfg]
  | .ortho id rid inj h s, w => by
    simp only [Node.tick, pushRegion]
    by_cases hp : ph = .postUpdate
    · simp only [hp, if_true, popRegion]
      rw [orHead_cfg, runState_cfg, orSub_cfg, Subs.tickAll_cfg]
    · simp only [hp, if_false, popRegion]
      rw [orSub_cfg, Subs.tickAll_cfg, orHead_cfg, runState_cfg]
theorem Subs.tickAt_cfg (ph : Method) : (s : Subs) → (i : Nat) → (w : World U) → (s.tickAt ph i w).1.cfg = w.cfg
  | .nil, _, w => by simp [Subs.tickAt, fail'_cfg]
  | .cons _ n _, 0, w => by simp only [Subs.tickAt]; exact Node.tick_cfg ph n w
  | .cons _ _ r, i+1, w => by simp only [Subs.tickAt]; exact Subs.tickAt_cfg ph r i w
theorem Subs.tickAll_cfg (ph : Method) : (s : Subs) → (w : World U) → (s.tickAll ph w).1.cfg = w.cfg
  | .nil, w => by simp [Subs.tickAll]
  | .cons _ n r, w => by
    simp only [Subs.tickAll]
    rw [Subs.tickAll_cfg ph r, Node.tick_cfg ph n]
end


theorem ite_fst_cfg {c : Prop} [Decidable c] (a b : World U × TaskStatus) (x : Config)
    (ha : a.1.cfg = x) (hb : b.1.cfg = x) : (if c then a else b).1.cfg = x := by
  split <;> assumption

mutual
theorem Node.react_cfg (ph : Method) (hf post : Bool) : (n : Node) → (w : World U) → (n.react ph hf post w).1.cfg = w.cfg
  | .leaf id inj, w => by simp [Node.react, runState_cfg]
  | .compo id rid inj h st a r q m s, w => by
    cases a with
    | none => simp [Node.react, fail'_cfg]
    | some ai =>
      simp only [Node.react, pushRegion]
      refine ite_fst_cfg _ _ _ rfl (ite_fst_cfg _ _ _ (ite_fst_cfg _ _ _ ?_ ?_) (ite_fst_cfg _ _ _ ?_ ?_))
      · simp only [popRegion]; rw [orHead_cfg, runState_cfg]
      · simp only [popRegion]; rw [orSub_cfg, Subs.reactAt_cfg, orHead_cfg, runState_cfg]
      · simp only [popRegion]; rw [orSub_cfg, Subs.reactAt_cfg]
      · simp only [popRegion]; rw [orHead_cfg, runState_cfg, orSub_cfg, Subs.reactAt_cfg]
  | .ortho id rid inj h s, w => by
    simp only [Node.react, pushRegion]
    refine ite_fst_cfg _ _ _ rfl (ite_fst_cfg _ _ _ (ite_fst_cfg _ _ _ ?_ ?_) (ite_fst_cfg _ _ _ ?_ ?_))
    · simp only [popRegion]; rw [orHead_cfg, runState_cfg]
    · simp only [popRegion]; rw [orSub_cfg, Subs.reactAll_cfg, orHead_cfg, runState_cfg]
    · simp only [popRegion]; rw [orSub_cfg, Subs.reactAll_cfg]
    · simp only [popRegion]; rw [orHead_cfg, runState_cfg, orSub_cfg, Subs.reactAll_cfg]
theorem Subs.reactAt_cfg (ph : Method) (hf post : Bool) : (s : Subs) → (i : Nat) → (w : World U) →
    (s.reactAt ph hf post i w).1.cfg = w.cfg
  | .nil, _, w => by simp [Subs.reactAt, fail'_cfg]
  | .cons _ n _, 0, w => by simp only [Subs.reactAt]; exact Node.react_cfg ph hf post n w
  | .cons _ _ r, i+1, w => by simp only [Subs.reactAt]; exact Subs.reactAt_cfg ph hf post r i w
theorem Subs.reactAll_cfg (ph : Method) (hf post : Bool) : (s : Subs) → (w : World U) →
    (s.reactAll ph hf post w).1.cfg = w.cfg
  | .nil, w => by simp [Subs.reactAll]
  | .cons _ n r, w => by
    simp only [Subs.reactAll]
    refine ite_fst_cfg _ _ _ (Node.react_cfg ph hf post n w) ?_
    rw [Subs.reactAll_cfg ph hf post r, Node.react_cfg ph hf post n]
end

namespace World

/-- No success / failure mark and no accumulated region status anywhere. -/
def NoStatus (w : World U) : Prop :=
  w.succ = 0 ∧ w.fail = 0 ∧ (∀ r, getStatus w.headStatus r = {}) ∧ (∀ r, getStatus w.subStatus r = {})

theorem getStatus_replicate (n r : Nat) : getStatus (List.replicate n {}) r = {} := by
  unfold getStatus
  rw [List.getD_eq_getElem?_getD, List.getElem?_replicate]
  split <;> rfl

theorem clearStatuses_noStatus (w : World U) : w.clearStatuses.NoStatus :=
  ⟨rfl, rfl, fun r => getStatus_replicate _ r, fun r => getStatus_replicate _ r⟩

end World

namespace Mach

/-- The world at the end of the passes of `R_::update` (pre-update, update, post-update, plan update,
`clearStatuses`), just before the queued requests are processed. -/
def updatePasses (m : Mach U) : World U :=
  let w := (m.w.freshControl).snapshot m.root true false
  let w := (m.root.tick .preUpdate w).1
  let w := (m.root.tick .update w).1
  let w := (m.root.tick .postUpdate w).1
  if w.cfg.plans then (m.root.updatePlans w).1.clearStatuses else w

/-- The same for `R_::react`. -/
def reactPasses (m : Mach U) : World U :=
  let td := m.w.cfg.topDown
  let w := (m.w.freshControl).snapshot m.root true false
  let w := (m.root.react .preReact td false w).1
  let w := (m.root.react .react td false { w with consumed := false }).1
  let w := (m.root.react .postReact (!td) true { w with consumed := false }).1
  if w.cfg.plans then (m.root.updatePlans w).1.clearStatuses else w

theorem update_eq [UtilArith U] (m : Mach U) : m.update = ({ m with w := m.updatePasses }).processRequest := rfl
theorem react_eq [UtilArith U] (m : Mach U) : m.react = ({ m with w := m.reactPasses }).processRequest := rfl

theorem updatePasses_noStatus (m : Mach U) (hp : m.w.cfg.plans = true) : m.updatePasses.NoStatus := by
  unfold updatePasses
  simp only [Node.tick_cfg]
  have : ((m.w.freshControl).snapshot m.root true false).cfg = m.w.cfg := rfl
  rw [this, if_pos hp]
  exact clearStatuses_noStatus _

theorem reactPasses_noStatus (m : Mach U) (hp : m.w.cfg.plans = true) : m.reactPasses.NoStatus := by
  unfold reactPasses
  simp only [Node.react_cfg]
  have : ((m.w.freshControl).snapshot m.root true false).cfg = m.w.cfg := rfl
  rw [this, if_pos hp]
  exact clearStatuses_noStatus _

/-- With nothing queued, `processRequest` runs no callback and leaves the plan data alone. -/
theorem processRequest_quiet [UtilArith U] (m : Mach U) (hq : m.w.requests = []) (hn : m.w.NoStatus) :
    m.processRequest.w.NoStatus := by
  unfold processRequest
  have : (m.w.clearTargets).requests = [] := by unfold clearTargets; split <;> simp [hq]
  simp only [this, List.isEmpty_nil, if_true]
  unfold clearTargets NoStatus at *
  split <;> exact hn

end Mach

namespace World

/-! ### marks across an exit pass -/

/-- Every mark of `w'` is a mark of `w`. -/
def MarksLe (w' w : World U) : Prop :=
  (∀ j, bit w'.succ j = true → bit w.succ j = true) ∧ (∀ j, bit w'.fail j = true → bit w.fail j = true)

theorem MarksLe.refl (w : World U) : MarksLe w w := ⟨fun _ h => h, fun _ h => h⟩
theorem MarksLe.trans {a b c : World U} (h1 : MarksLe a b) (h2 : MarksLe b c) : MarksLe a c :=
  ⟨fun j h => h2.1 j (h1.1 j h), fun j h => h2.2 j (h1.2 j h)⟩
theorem MarksLe.of_eq {a b : World U} (hs : a.succ = b.succ) (hf : a.fail = b.fail) : MarksLe a b :=
  ⟨fun _ h => hs ▸ h, fun _ h => hf ▸ h⟩

theorem bit_clearRange (m lo n j : Nat) : bit (clearRange m lo n) j = true → bit m j = true := by
  unfold clearRange
  rw [bit_sub_and]
  intro h
  simp only [Bool.and_eq_true] at h
  exact h.1

theorem fail'_marks (w : World U) (s : String) : MarksLe (w.fail' s) w := by
  unfold fail'; cases w.err <;> exact MarksLe.refl _

theorem logRec_marks (w : World U) (r : LogRec U) : MarksLe (w.logRec r) w := by
  unfold logRec emit; split <;> exact MarksLe.refl _

/-- A `PlanControl` (enter / reenter / exit callbacks) offers no `succeed` / `fail`: marks can only go. -/
theorem act_plan_marks (w : World U) (a : Action U) : MarksLe (act .plan w a) w := by
  cases a <;> simp only [act, CtlClass.isFull, Bool.false_eq_true, if_false, reduceCtorEq] <;>
    try exact fail'_marks _ _
  · split
    · unfold planAppend setPlan; split <;> exact MarksLe.refl _
    · exact fail'_marks _ _
  · split
    · exact ⟨fun j h => bit_clearRange _ _ _ j h, fun j h => bit_clearRange _ _ _ j h⟩
    · exact fail'_marks _ _
  all_goals exact MarksLe.refl _

theorem foldl_act_plan_marks : (d : Decision U) → (w : World U) → MarksLe (d.foldl (act .plan) w) w
  | [], w => MarksLe.refl w
  | a :: d, w => (foldl_act_plan_marks d _).trans (act_plan_marks w a)

theorem invoke_plan_marks (w : World U) (sid : Nat) (m : Method) (slot : Nat) (hm : m.cls = .plan) :
    MarksLe (w.invoke sid m slot).1 w := by
  unfold invoke
  cases h : w.ds with
  | nil => exact fail'_marks _ _
  | cons d rest =>
    simp only [emit, hm]
    exact (MarksLe.of_eq rfl rfl).trans ((foldl_act_plan_marks d _).trans (MarksLe.of_eq rfl rfl))

theorem invokeSlots_plan_marks (sid : Nat) (m : Method) (hm : m.cls = .plan) : (l : List Nat) → (w : World U) →
    MarksLe (w.invokeSlots sid m l) w
  | [], w => MarksLe.refl w
  | s :: l, w => by
    rw [invokeSlots]
    exact (invokeSlots_plan_marks sid m hm l _).trans (invoke_plan_marks w sid m s hm)

theorem stateMethod_plan_marks (w : World U) (sid inj : Nat) (h : Bool) (m : Method) (hm : m.cls = .plan) :
    MarksLe (w.stateMethod sid inj h m) w := by
  unfold stateMethod
  cases h
  · simp only [Bool.false_or, Bool.false_eq_true, if_false]
    split
    · exact logRec_marks _ _
    · exact MarksLe.refl _
  · simp only [Bool.true_or, if_true]
    exact (MarksLe.of_eq rfl rfl).trans
      ((invokeSlots_plan_marks sid m hm _ _).trans ((MarksLe.of_eq rfl rfl).trans (logRec_marks _ _)))

theorem exitState_marks (w : World U) (sid inj : Nat) (h : Bool) : MarksLe (w.exitState sid inj h) w := by
  have h0 := stateMethod_plan_marks w sid inj h .exit rfl
  simp only [exitState]
  split
  · refine MarksLe.trans ⟨fun j hj => ?_, fun j hj => ?_⟩ h0
    · simp only [bit_clearBit, Bool.and_eq_true] at hj; exact hj.1
    · simp only [bit_clearBit, Bool.and_eq_true] at hj; exact hj.1
  · exact h0

theorem exitState_cfg (w : World U) (sid inj : Nat) (h : Bool) : (w.exitState sid inj h).cfg = w.cfg := by
  simp only [exitState]
  split <;> simp [stateMethod_cfg]

/-- `S_::deepExit` of a user state: its own marks are gone afterwards. -/
theorem exitState_clears (w : World U) (sid inj : Nat) (hp : w.cfg.plans = true) :
    bit (w.exitState sid inj true).succ sid = false ∧ bit (w.exitState sid inj true).fail sid = false := by
  unfold exitState
  simp [stateMethod_cfg, hp, bit_clearBit]

end World

mutual
/-- Ids of the user states (not anonymous heads) of the active configuration below a node. -/
def Node.activeHeaded : Node → List Nat
  | .leaf id _ => [id]
  | .compo id _ _ h _ a _ _ _ s => match a with
    | some ai => s.activeHeadedAt ai ++ (if h then [id] else [])
    | none => []
  | .ortho id _ _ h s => s.activeHeadedAll ++ (if h then [id] else [])
def Subs.activeHeadedAt : Subs → Nat → List Nat
  | .nil, _ => []
  | .cons _ n _, 0 => n.activeHeaded
  | .cons _ _ r, i+1 => r.activeHeadedAt i
def Subs.activeHeadedAll : Subs → List Nat
  | .nil => []
  | .cons _ n r => n.activeHeaded ++ r.activeHeadedAll
end

mutual
theorem Node.exit_marks : (n : Node) → (w : World U) → MarksLe (n.exit w).2 w ∧ (n.exit w).2.cfg = w.cfg
  | .leaf id inj, w => by simp only [Node.exit]; exact ⟨exitState_marks _ _ _ _, exitState_cfg _ _ _ _⟩
  | .compo id rid inj h st a r q m s, w => by
    cases a with
    | none => simp only [Node.exit]; exact ⟨fail'_marks _ _, fail'_cfg _ _⟩
    | some ai =>
      simp only [Node.exit]
      obtain ⟨h1, h2⟩ := Subs.exitAt_marks s ai w
      exact ⟨(exitState_marks _ _ _ _).trans h1, by rw [exitState_cfg, h2]⟩
  | .ortho id rid inj h s, w => by
    simp only [Node.exit]
    obtain ⟨h1, h2⟩ := Subs.exitAll_marks s w
    exact ⟨(exitState_marks _ _ _ _).trans h1, by rw [exitState_cfg, h2]⟩
theorem Subs.exitAt_marks : (s : Subs) → (i : Nat) → (w : World U) → MarksLe (s.exitAt i w).2 w ∧ (s.exitAt i w).2.cfg = w.cfg
  | .nil, _, w => by simp only [Subs.exitAt]; exact ⟨fail'_marks _ _, fail'_cfg _ _⟩
  | .cons _ n _, 0, w => by simp only [Subs.exitAt]; exact Node.exit_marks n w
  | .cons _ _ r, i+1, w => by simp only [Subs.exitAt]; exact Subs.exitAt_marks r i w
theorem Subs.exitAll_marks : (s : Subs) → (w : World U) → MarksLe (s.exitAll w).2 w ∧ (s.exitAll w).2.cfg = w.cfg
  | .nil, w => by unfold Subs.exitAll; exact ⟨MarksLe.refl _, rfl⟩
  | .cons _ n r, w => by
    simp only [Subs.exitAll]
    obtain ⟨h1, h2⟩ := Node.exit_marks n w
    obtain ⟨h3, h4⟩ := Subs.exitAll_marks r (n.exit w).2
    exact ⟨h3.trans h1, h4.trans h2⟩
end

/-- a cleared bit stays cleared under `MarksLe` -/
theorem World.MarksLe.keeps {a b : World U} (h : MarksLe a b) (j : Nat)
    (hb : bit b.succ j = false ∧ bit b.fail j = false) : bit a.succ j = false ∧ bit a.fail j = false := by
  constructor
  · cases hs : bit a.succ j
    · rfl
    · rw [h.1 j hs] at hb; exact absurd hb.1 (by simp)
  · cases hs : bit a.fail j
    · rfl
    · rw [h.2 j hs] at hb; exact absurd hb.2 (by simp)

mutual
/-- After `deepExit` of a sub-tree no user state of it carries a mark. -/
theorem Node.exit_clears : (n : Node) → (w : World U) → w.cfg.plans = true → ∀ j ∈ n.activeHeaded,
    bit (n.exit w).2.succ j = false ∧ bit (n.exit w).2.fail j = false
  | .leaf id inj, w, hp, j, hj => by
    simp only [Node.activeHeaded, List.mem_singleton] at hj
    subst hj
    simp only [Node.exit]
    exact exitState_clears w j inj hp
  | .compo id rid inj h st a r q m s, w, hp, j, hj => by
    cases a with
    | none => simp [Node.activeHeaded] at hj
    | some ai =>
      simp only [Node.exit]
      simp only [Node.activeHeaded, List.mem_append] at hj
      rcases hj with hj | hj
      · exact (exitState_marks _ _ _ _).keeps j (Subs.exitAt_clears s ai w hp j hj)
      · cases h
        · simp at hj
        · simp only [if_true, List.mem_singleton] at hj
          subst hj
          exact exitState_clears _ j inj (by rw [(Subs.exitAt_marks s ai w).2]; exact hp)
  | .ortho id rid inj h s, w, hp, j, hj => by
    simp only [Node.exit]
    simp only [Node.activeHeaded, List.mem_append] at hj
    rcases hj with hj | hj
    · exact (exitState_marks _ _ _ _).keeps j (Subs.exitAll_clears s w hp j hj)
    · cases h
      · simp at hj
      · simp only [if_true, List.mem_singleton] at hj
        subst hj
        exact exitState_clears _ j inj (by rw [(Subs.exitAll_marks s w).2]; exact hp)
theorem Subs.exitAt_clears : (s : Subs) → (i : Nat) → (w : World U) → w.cfg.plans = true → ∀ j ∈ s.activeHeadedAt i,
    bit (s.exitAt i w).2.succ j = false ∧ bit (s.exitAt i w).2.fail j = false
  | .nil, _, w, _, j, hj => by simp [Subs.activeHeadedAt] at hj
  | .cons _ n _, 0, w, hp, j, hj => by simp only [Subs.exitAt]; exact Node.exit_clears n w hp j hj
  | .cons _ _ r, i+1, w, hp, j, hj => by simp only [Subs.exitAt]; exact Subs.exitAt_clears r i w hp j hj
theorem Subs.exitAll_clears : (s : Subs) → (w : World U) → w.cfg.plans = true → ∀ j ∈ s.activeHeadedAll,
    bit (s.exitAll w).2.succ j = false ∧ bit (s.exitAll w).2.fail j = false
  | .nil, w, _, j, hj => by simp [Subs.activeHeadedAll] at hj
  | .cons _ n r, w, hp, j, hj => by
    simp only [Subs.exitAll]
    simp only [Subs.activeHeadedAll, List.mem_append] at hj
    rcases hj with hj | hj
    · exact (Subs.exitAll_marks r _).1.keeps j (Node.exit_clears n w hp j hj)
    · exact Subs.exitAll_clears r _ (by rw [(Node.exit_marks n w).2]; exact hp) j hj
end


namespace World

theorem fail'_ds (w : World U) (s : String) : (w.fail' s).ds = w.ds := by
  unfold fail'; cases w.err <;> rfl
theorem logRec_ds (w : World U) (r : LogRec U) : (w.logRec r).ds = w.ds := by
  unfold logRec emit; split <;> rfl

theorem act_ds (c : CtlClass) (w : World U) (a : Action U) : (act c w a).ds = w.ds := by
  cases a <;> simp only [act] <;> (try split) <;>
    simp [fail'_ds, logRec_ds, ctlRequest, ctlSucceed, ctlFail, planAppend, planClear, setPlan] <;>
    (repeat' split) <;> simp [logRec_ds]

theorem foldl_act_ds (c : CtlClass) : (d : Decision U) → (w : World U) → (d.foldl (act c) w).ds = w.ds
  | [], _ => rfl
  | a :: d, w => by rw [List.foldl_cons, foldl_act_ds c d, act_ds]

/-- One callback consumes exactly one decision and leaves its `cb` event on top of the trace. -/
theorem invoke_ds_trace (w : World U) (sid : Nat) (m : Method) (slot : Nat) (d : Decision U) (rest : List (Decision U))
    (hd : w.ds = d :: rest) :
    (w.invoke sid m slot).1.ds = rest ∧
    (w.invoke sid m slot).1.trace.head? =
      some (.cb sid m slot w.obs (if m.cls = .guard then w.pending else [])
              (if m.cls = .guard ∨ m.cls = .plan then w.current else [])) := by
  unfold invoke
  rw [hd]
  simp only [emit, foldl_act_ds, List.head?_cons, decide_eq_true_eq, Bool.or_eq_true, true_and]

/-- With no injected bases every method of a user state is a single handler invocation. -/
theorem stateMethod_inj0 (w : World U) (sid : Nat) (m : Method) :
    w.stateMethod sid 0 true m =
      { (({ w.logRec (.method sid m) with origin := some sid }).invoke sid m 0).1 with origin := w.origin } := by
  have hl : (w.logRec (.method sid m)).origin = w.origin := by unfold logRec emit; split <;> rfl
  cases m <;> simp [stateMethod, slotOrder, invokeSlots, hl]

end World

namespace World

theorem logRec_obs (w : World U) (r : LogRec U) : (w.logRec r).obs = w.obs := by
  unfold logRec emit; split <;> rfl

/-- The method a plan verdict is delivered with. -/
def verdictMethod (success : Bool) : Method := if success then .planSucceeded else .planFailed

/-- **The plan callback of a headed region.**  Exactly one user handler runs (one decision consumed, its
`cb` event on top of the trace); it starts with the register holding the verdict, and the status handed to
the enclosing region is the register's result *after* the handler — `succeed()` / `fail()` inside it decide. -/
theorem planCallback_headed (w : World U) (sid inj : Nat) (success : Bool) (d : Decision U) (rest : List (Decision U))
    (hd : w.ds = d :: rest) :
    ((w.planVerdict success).stateMethod sid inj true (verdictMethod success)).taskStatus.result =
        d.foldl (Action.onResult w.cfg.stateCount) (if success then .success else .failure) ∧
    ((w.planVerdict success).stateMethod sid inj true (verdictMethod success)).ds = rest ∧
    ((w.planVerdict success).stateMethod sid inj true (verdictMethod success)).trace.head? =
        some (.cb sid (verdictMethod success) inj w.obs [] []) := by
  have hm : verdictMethod success = .planSucceeded ∨ verdictMethod success = .planFailed := by
    cases success <;> simp [verdictMethod]
  have hfull : (verdictMethod success).cls.isFull = true := by cases success <;> rfl
  rw [stateMethod_plan _ _ _ _ hm]
  let w3 : World U := { (w.planVerdict success).logRec (.method sid (verdictMethod success)) with origin := some sid }
  have hds : w3.ds = d :: rest := by
    show ((w.planVerdict success).logRec _).ds = _
    rw [logRec_ds]; unfold planVerdict; rw [logRec_ds]; exact hd
  have hcfg : w3.cfg = w.cfg := by
    show ((w.planVerdict success).logRec _).cfg = _
    rw [logRec_cfg]; unfold planVerdict; rw [logRec_cfg]
  have hobs : w3.obs = w.obs := by
    show ((w.planVerdict success).logRec _).obs = _
    rw [logRec_obs]; unfold planVerdict; rw [logRec_obs]
  have hts : w3.taskStatus.result = (if success then .success else .failure) := by
    show ((w.planVerdict success).logRec _).taskStatus.result = _
    rw [logRec_taskStatus]; unfold planVerdict; rw [logRec_taskStatus]
  have h1 := invoke_taskStatus w3 sid (verdictMethod success) inj d rest hds hfull
  obtain ⟨h2, h3⟩ := invoke_ds_trace w3 sid (verdictMethod success) inj d rest hds
  refine ⟨?_, h2, ?_⟩
  · show (w3.invoke sid (verdictMethod success) inj).1.taskStatus.result = _
    rw [h1, regAfter, hts, hcfg]
  · show (w3.invoke sid (verdictMethod success) inj).1.trace.head? = _
    rw [h3, hobs]
    cases success <;> simp [verdictMethod, Method.cls]

/-- **The plan verdict of a headless region.**  The anonymous head has no handler: no decision is consumed,
no mark is set; only the plan-status record (and, under verbose logging, a method record) is logged and the
verdict itself is what the enclosing region gets. -/
theorem planCallback_headless (w : World U) (sid inj : Nat) (success : Bool) :
    ((w.planVerdict success).stateMethod sid inj false (verdictMethod success)).taskStatus.result =
        (if success then .success else .failure) ∧
    ((w.planVerdict success).stateMethod sid inj false (verdictMethod success)).ds = w.ds ∧
    ((w.planVerdict success).stateMethod sid inj false (verdictMethod success)).succ = w.succ ∧
    ((w.planVerdict success).stateMethod sid inj false (verdictMethod success)).fail = w.fail := by
  rw [stateMethod_headless]
  have hs : ∀ (w : World U) r, (w.logRec r).succ = w.succ := by intro w r; unfold logRec emit; split <;> rfl
  have hf : ∀ (w : World U) r, (w.logRec r).fail = w.fail := by intro w r; unfold logRec emit; split <;> rfl
  split <;> simp [planVerdict, logRec_taskStatus, logRec_ds, hs, hf]

end World

namespace World

/-- What the library's *default* `planSucceeded` / `planFailed` (`A_::planSucceeded` = `control.succeed()`,
`A_::planFailed` = `control.fail()`, structure/ancestors_2.inl) does when it is the handler that runs: it marks
the head itself, which is how the verdict reaches a plan of the enclosing region.  (The harness states
override both handlers; this is the scripted decision that re-creates the default.) -/
theorem planCallback_default (w : World U) (sid inj : Nat) (success : Bool) (rest : List (Decision U))
    (hd : w.ds = [if success then .succeed sid else .fail sid] :: rest) (hv : 0 < sid ∧ sid < w.cfg.stateCount) :
    ((w.planVerdict success).stateMethod sid inj true (verdictMethod success)).succ =
        (if success then setBit w.succ sid else w.succ) ∧
    ((w.planVerdict success).stateMethod sid inj true (verdictMethod success)).fail =
        (if success then w.fail else setBit w.fail sid) := by
  have hm : verdictMethod success = .planSucceeded ∨ verdictMethod success = .planFailed := by
    cases success <;> simp [verdictMethod]
  have hs : ∀ (w : World U) r, (w.logRec r).succ = w.succ := by intro w r; unfold logRec emit; split <;> rfl
  have hf : ∀ (w : World U) r, (w.logRec r).fail = w.fail := by intro w r; unfold logRec emit; split <;> rfl
  rw [stateMethod_plan _ _ _ _ hm]
  have hds : ({ (w.planVerdict success).logRec (.method sid (verdictMethod success)) with origin := some sid } : World U).ds
      = [if success then .succeed sid else .fail sid] :: rest := by
    show ((w.planVerdict success).logRec _).ds = _
    rw [logRec_ds]; unfold planVerdict; rw [logRec_ds]; exact hd
  unfold invoke
  rw [hds]
  cases success
  · simp [verdictMethod, Method.cls, act, CtlClass.isFull, ctlFail, emit, hs, hf, logRec_cfg, planVerdict, hv.1, hv.2]
  · simp [verdictMethod, Method.cls, act, CtlClass.isFull, ctlSucceed, emit, hs, hf, logRec_cfg, planVerdict, hv.1, hv.2]

end World

/-- **What a leaf reports.**  The status a (bases-free) leaf state returns from an update / react pass is the
`_taskStatus` register *as it found it*, pushed through its own handler's actions — not a status of its own:
whatever earlier handlers of the same region scope (the head before it, orthogonal siblings before it, an
enclosing head) left in the register is reported again. -/
theorem Node.tick_leaf_status (ph : Method) (hf : ph.cls.isFull = true) (w : World U) (id : Nat)
    (d : Decision U) (rest : List (Decision U)) (hd : w.ds = d :: rest) :
    (Node.tick ph (.leaf id 0) w).2 = regAfter w.cfg.stateCount w.regionStateId w.regionSize d w.taskStatus ∧
    (Node.tick ph (.leaf id 0) w).1.taskStatus = (Node.tick ph (.leaf id 0) w).2 := by
  simp only [Node.tick, runState, if_true, and_true]
  rw [stateMethod_inj0]
  have hds : ({ w.logRec (.method id ph) with origin := some id } : World U).ds = d :: rest := by
    show (w.logRec _).ds = _
    rw [logRec_ds]; exact hd
  have h := invoke_taskStatus ({ w.logRec (.method id ph) with origin := some id }) id ph 0 d rest hds hf
  show (({ w.logRec (.method id ph) with origin := some id } : World U).invoke id ph 0).1.taskStatus = _
  rw [h]
  have h1 : (w.logRec (.method id ph)).cfg = w.cfg := logRec_cfg _ _
  have h2 := logRec_region w (.method id ph)
  have h3 : (w.logRec (.method id ph)).taskStatus = w.taskStatus := logRec_taskStatus _ _
  show regAfter (w.logRec _).cfg.stateCount (w.logRec _).regionStateId (w.logRec _).regionSize d (w.logRec _).taskStatus = _
  rw [h1, h2.1, h2.2.1, h3]

/-- The register is cleared only where a region scope ends: after the pass over a region node it is empty,
and entering a region scope does not clear it. -/
theorem Node.tick_region_register (ph : Method) (n : Node) (w : World U) (info : Nat × Nat × Nat × Bool × Nat)
    (hi : n.regionInfo = some info) : (n.tick ph w).1.taskStatus = {} := by
  cases n with
  | leaf => simp [Node.regionInfo] at hi
  | compo id rid inj h st a r q m s =>
    cases a with
    | none => simp [Node.regionInfo] at hi
    | some ai =>
      simp only [Node.tick]
      split <;> rfl
  | ortho id rid inj h s =>
    simp only [Node.tick]
    split <;> rfl

end Hfsm
