/-
`World.Ext w w'`: what every traversal of the tree does to the world, whatever the user callbacks
decide — the first recorded contract violation is kept (`err` is sticky), the registry snapshot of the
current pass (`obs`, `activeSnap`) and the configuration are untouched, and the trace only grows by
logger records and by callback events carrying the snapshot of the current pass.

One lemma `… _ext` per function of Model/Callback, Forward, Commit, Dispatch.
-/
import Lean.Elab.Tactic
import Hfsm.Model.Machine

set_option linter.unusedSectionVars false

namespace Hfsm
variable {U : Type}

namespace World

/-- An event the traversals may append while the snapshot of the pass is `o`. -/
def NewEvent (o : Option Obs) (e : Event U) : Prop :=
  (∃ r, e = .log r) ∨ (∃ sid m slot p c, e = .cb sid m slot o p c)

structure Ext (w w' : World U) : Prop where
  err : w'.err = none → w.err = none
  obs : w'.obs = w.obs
  cfg : w'.cfg = w.cfg
  snap : w'.activeSnap = w.activeSnap
  trace : ∀ e ∈ w'.trace, e ∈ w.trace ∨ NewEvent w.obs e

theorem Ext.refl (w : World U) : Ext w w :=
  ⟨id, rfl, rfl, rfl, fun _ h => Or.inl h⟩

theorem Ext.trans {a b c : World U} (h1 : Ext a b) (h2 : Ext b c) : Ext a c :=
  ⟨fun h => h1.err (h2.err h), h2.obs.trans h1.obs, h2.cfg.trans h1.cfg, h2.snap.trans h1.snap,
   fun e he => match h2.trace e he with
     | .inl h => h1.trace e h
     | .inr h => .inr (h1.obs ▸ h)⟩

/-- A record update that leaves `err`, `obs`, `cfg`, `activeSnap` and `trace` alone. -/
theorem Ext.transR {a b c : World U} (h2 : Ext b c) (h1 : Ext a b) : Ext a c := Ext.trans h1 h2

theorem Ext.of_eq {w w' : World U} (h1 : w'.err = w.err) (h2 : w'.obs = w.obs) (h3 : w'.cfg = w.cfg)
    (h4 : w'.activeSnap = w.activeSnap) (h5 : w'.trace = w.trace) : Ext w w' :=
  ⟨fun h => by rw [← h1]; exact h, h2, h3, h4, fun e he => Or.inl (h5 ▸ he)⟩

theorem fail'_errX (w : World U) (msg : String) : (w.fail' msg).err ≠ none := by
  unfold fail'; split <;> simp_all

theorem fail'_ext (w : World U) (msg : String) : Ext w (w.fail' msg) := by
  refine ⟨fun h => absurd h (fail'_errX w msg), ?_, ?_, ?_, fun e he => Or.inl ?_⟩
  · unfold fail'; split <;> rfl
  · unfold fail'; split <;> rfl
  · unfold fail'; split <;> rfl
  · unfold fail' at he; split at he <;> exact he

theorem emit_ext (w : World U) (e : Event U) (h : NewEvent w.obs e) : Ext w (w.emit e) :=
  ⟨id, rfl, rfl, rfl, fun e' he' => by
    simp only [emit, List.mem_cons] at he'
    rcases he' with rfl | h'
    · exact .inr h
    · exact .inl h'⟩

theorem logRec_ext (w : World U) (r : LogRec U) : Ext w (w.logRec r) := by
  unfold logRec; split
  · exact emit_ext w _ (.inl ⟨r, rfl⟩)
  · exact Ext.refl w

theorem ctlRequest_ext (w : World U) (k : Kind) (d : Nat) (p : Option Nat) : Ext w (w.ctlRequest k d p) := by
  unfold ctlRequest
  refine Ext.trans ?_ (logRec_ext _ _)
  repeat' split
  all_goals first | exact Ext.refl w | exact Ext.of_eq rfl rfl rfl rfl rfl

theorem ctlSucceed_ext (w : World U) (s : Nat) : Ext w (w.ctlSucceed s) := by
  unfold ctlSucceed; split
  · exact Ext.transR (logRec_ext _ _) (Ext.of_eq rfl rfl rfl rfl rfl)
  · exact Ext.refl w

theorem ctlFail_ext (w : World U) (s : Nat) : Ext w (w.ctlFail s) := by
  unfold ctlFail; split
  · exact Ext.transR (logRec_ext _ _) (Ext.of_eq rfl rfl rfl rfl rfl)
  · exact Ext.refl w

theorem setPlan_ext (w : World U) (r : Nat) (p : List Task) : Ext w (w.setPlan r p) :=
  Ext.of_eq rfl rfl rfl rfl rfl

theorem planAppend_ext (w : World U) (r : Nat) (t : Task) : Ext w (w.planAppend r t) := by
  unfold planAppend; split
  · exact Ext.of_eq rfl rfl rfl rfl rfl
  · exact Ext.refl w

theorem planClear_ext (w : World U) (r h s : Nat) : Ext w (w.planClear r h s) :=
  Ext.of_eq rfl rfl rfl rfl rfl

theorem act_ext (c : CtlClass) (w : World U) (a : Action U) : Ext w (act c w a) := by
  cases a <;> simp only [act] <;>
    first
    | exact Ext.refl w
    | (split <;> first
        | exact ctlRequest_ext ..
        | exact ctlSucceed_ext ..
        | exact ctlFail_ext ..
        | exact fail'_ext ..
        | exact planAppend_ext ..
        | exact planClear_ext ..
        | exact Ext.of_eq rfl rfl rfl rfl rfl
        | exact Ext.transR (logRec_ext _ _) (Ext.of_eq rfl rfl rfl rfl rfl))

theorem foldl_act_ext (c : CtlClass) : (d : Decision U) → (w : World U) → Ext w (d.foldl (act c) w)
  | [], w => Ext.refl w
  | a :: d, w => Ext.trans (act_ext c w a) (foldl_act_ext c d _)

theorem invoke_ext (w : World U) (sid : Nat) (m : Method) (slot : Nat) : Ext w (w.invoke sid m slot).1 := by
  unfold invoke; split
  · exact fail'_ext ..
  · next d rest hds =>
    have h1 : Ext w { w with ds := rest } := Ext.of_eq rfl rfl rfl rfl rfl
    have h2 := foldl_act_ext m.cls d { w with ds := rest }
    have h12 := Ext.trans h1 h2
    refine Ext.trans h12 (emit_ext _ _ ?_)
    rw [NewEvent, h12.obs]
    exact .inr ⟨_, _, _, _, _, rfl⟩

theorem invokeSlots_ext (sid : Nat) (m : Method) : (l : List Nat) → (w : World U) → Ext w (w.invokeSlots sid m l)
  | [], w => Ext.refl w
  | s :: rest, w => by
    unfold invokeSlots
    exact Ext.trans (invoke_ext w sid m s) (invokeSlots_ext sid m rest _)

theorem stateMethod_ext (w : World U) (sid inj : Nat) (h : Bool) (m : Method) : Ext w (w.stateMethod sid inj h m) := by
  have aux : ∀ w0 : World U, Ext w w0 →
      Ext w (if h = true then
        { (({ w0 with origin := some sid } : World U).invokeSlots sid m (slotOrder inj m)) with origin := w0.origin }
        else w0) := by
    intro w0 hw
    split
    · exact Ext.trans hw (Ext.trans (b := { w0 with origin := some sid }) (Ext.of_eq rfl rfl rfl rfl rfl)
        (Ext.trans (invokeSlots_ext sid m _ _) (Ext.of_eq rfl rfl rfl rfl rfl)))
    · exact hw
  unfold stateMethod
  exact aux _ (by split; exact logRec_ext ..; exact Ext.refl w)

theorem pin_ext (w : World U) (sid : Nat) (i : Option Nat) : Ext w (w.pin sid i) := by
  unfold pin; split
  · exact Ext.refl w
  · split
    · exact Ext.of_eq rfl rfl rfl rfl rfl
    · exact Ext.refl w

theorem pushRegion_ext (w : World U) (a b c : Nat) : Ext w (w.pushRegion a b c).1 :=
  Ext.of_eq rfl rfl rfl rfl rfl

theorem popRegion_ext (w : World U) (sv : Nat × Nat × Nat) : Ext w (w.popRegion sv) :=
  Ext.of_eq rfl rfl rfl rfl rfl

theorem guardState_ext (w : World U) (sid inj : Nat) (h : Bool) (m : Method) : Ext w (w.guardState sid inj h m).1 :=
  stateMethod_ext ..

theorem exitState_ext (w : World U) (sid inj : Nat) (h : Bool) : Ext w (w.exitState sid inj h) := by
  simp only [exitState]
  split
  · exact Ext.trans (stateMethod_ext ..) (Ext.of_eq rfl rfl rfl rfl rfl)
  · exact stateMethod_ext ..

theorem runState_ext (w : World U) (sid inj : Nat) (h : Bool) (m : Method) : Ext w (w.runState sid inj h m).1 :=
  stateMethod_ext ..

theorem orHead_ext (w : World U) (r : Nat) (s : TaskStatus) : Ext w (w.orHead r s) := by
  unfold orHead; split
  · exact Ext.of_eq rfl rfl rfl rfl rfl
  · exact Ext.refl w

theorem orSub_ext (w : World U) (r : Nat) (s : TaskStatus) : Ext w (w.orSub r s) := by
  unfold orSub; split
  · exact Ext.of_eq rfl rfl rfl rfl rfl
  · exact Ext.refl w

end World

/-! ### a small backward-chaining tactic for `Ext` goals

`ext_step` looks at the right-hand side `X` of a goal `Ext w X`:
* `X` syntactically `w`: reflexivity;
* `X` a local variable bound by a hypothesis `f … = (…, X, …)` (left by `split`): replace it by the
  corresponding projection of `f …`;
* `X` an `if`: both branches;
* `X = f … w'` (possibly under pair projections): apply the lemma called `f_ext` (a global theorem or a
  recursion hypothesis of the enclosing `mutual` block) and continue with `w'`.
`ext_tac` repeats it. -/

namespace World

theorem Ext.subst_pair {α : Type} {x : α × World U} {a : α} {w w' : World U} (h : x = (a, w'))
    (e : Ext w x.2) : Ext w w' := by subst h; exact e
theorem Ext.subst_triple {α β : Type} {x : α × World U × β} {a : α} {b : β} {w w' : World U}
    (h : x = (a, w', b)) (e : Ext w x.2.1) : Ext w w' := by subst h; exact e
theorem Ext.subst_fst {α : Type} {x : World U × α} {a : α} {w w' : World U} (h : x = (w', a))
    (e : Ext w x.1) : Ext w w' := by subst h; exact e

theorem Ext.ite_fst {c : Prop} {inst : Decidable c} {α : Type} {w : World U} {x y : World U × α}
    (hx : Ext w x.1) (hy : Ext w y.1) : Ext w (@ite _ c inst x y).1 := by split <;> assumption
theorem Ext.ite_snd {c : Prop} {inst : Decidable c} {α : Type} {w : World U} {x y : α × World U}
    (hx : Ext w x.2) (hy : Ext w y.2) : Ext w (@ite _ c inst x y).2 := by split <;> assumption
theorem Ext.ite_snd_fst {c : Prop} {inst : Decidable c} {α β : Type} {w : World U} {x y : α × World U × β}
    (hx : Ext w x.2.1) (hy : Ext w y.2.1) : Ext w (@ite _ c inst x y).2.1 := by split <;> assumption
theorem Ext.ite {c : Prop} {inst : Decidable c} {w x y : World U}
    (hx : Ext w x) (hy : Ext w y) : Ext w (@ite _ c inst x y) := by split <;> assumption

end World

open Lean Elab Tactic Meta in
/-- strip pair projections and metadata -/
partial def stripProj (e : Expr) : Expr :=
  match e.consumeMData with
  | .proj _ _ b => stripProj b
  | e' =>
    if e'.isAppOfArity ``Prod.fst 3 || e'.isAppOfArity ``Prod.snd 3 then stripProj e'.appArg! else e'

open Lean Elab Tactic Meta in
elab "ext_step" : tactic => withMainContext do
  let g ← getMainGoal
  let t := (← instantiateMVars (← g.getType)).consumeMData
  unless t.isAppOf ``Hfsm.World.Ext && t.getAppNumArgs == 3 do throwError "not an `Ext` goal"
  let rhs := t.appArg!.consumeMData
  let lhs := t.appFn!.appArg!.consumeMData
  if rhs == lhs || (!lhs.hasExprMVar && (← withReducible (isDefEq rhs lhs))) then
    evalTactic (← `(tactic| exact World.Ext.refl _))
  else if rhs.isFVar then
    evalTactic (← `(tactic| first
      | assumption
      | with_reducible refine World.Ext.subst_fst (by assumption) ?_
      | with_reducible refine World.Ext.subst_triple (by assumption) ?_
      | with_reducible refine World.Ext.subst_pair (by assumption) ?_))
  else
    let core := stripProj rhs
    if core.isAppOf ``ite then
      evalTactic (← `(tactic| first
        | with_reducible refine World.Ext.ite ?_ ?_
        | with_reducible refine World.Ext.ite_fst ?_ ?_
        | with_reducible refine World.Ext.ite_snd ?_ ?_
        | with_reducible refine World.Ext.ite_snd_fst ?_ ?_))
    else
      match core.getAppFn.constName? with
      | some fn =>
        let lem := mkIdent (fn.appendAfter "_ext")
        evalTactic (← `(tactic| first
          | with_reducible refine World.Ext.transR ($lem ..) ?_
          | dsimp only))
      | none => evalTactic (← `(tactic| dsimp only))

macro "ext_tac" : tactic => `(tactic| repeat' ext_step)

/-- unfold the control structure of a model function: case-split every `if`/`match`, name the
components of every returned tuple -/
macro "unroll" : tactic => `(tactic| repeat' first | split | dsimp only)

namespace World
variable [UtilArith U]

theorem headUtility_ext (w : World U) (sid inj : Nat) (h : Bool) : Ext w (w.headUtility sid inj h).1 := by
  simp only [headUtility]
  repeat' split
  all_goals ext_tac

theorem headUtilityWrap_ext (w : World U) (sid inj : Nat) (h : Bool) : Ext w (w.headUtilityWrap sid inj h).1 := by
  simp only [headUtilityWrap]
  repeat' split
  all_goals ext_tac

theorem headRank_ext (w : World U) (sid inj : Nat) (h : Bool) : Ext w (w.headRank sid inj h).1 := by
  simp only [headRank]
  repeat' split
  all_goals ext_tac

theorem headSelect_ext (w : World U) (sid inj : Nat) (h : Bool) : Ext w (w.headSelect sid inj h).1 := by
  simp only [headSelect]
  repeat' split
  all_goals ext_tac

theorem resolveRandom_ext (w : World U) (hid : Nat) (us : List U) (sum : U) (rks : List Int) (top : Int) :
    Ext w (w.resolveRandom hid us sum rks top).1 := by
  simp only [resolveRandom]
  split
  · ext_tac
  · split
    · exact Ext.transR (logRec_ext _ _) (Ext.of_eq rfl rfl rfl rfl rfl)
    · exact Ext.transR (fail'_ext _ _) (Ext.of_eq rfl rfl rfl rfl rfl)

end World


variable [UtilArith U]

/-! ### `reportChange` -/

mutual
theorem Node.reportChange_ext : (n : Node) → (w : World U) → World.Ext w (n.reportChange w).2.1
  | .leaf id inj, w => by unfold Node.reportChange; unroll; all_goals ext_tac
  | .compo id rid inj h st a r q m s, w => by
      have ih1 := @Subs.reportChangeAt_ext s
      have ih2 := @Subs.reportChangeAll_ext s
      have ih3 := @Subs.reportChangeTop_ext s
      have ih4 := @Subs.reportRankAll_ext s
      unfold Node.reportChange; unroll; all_goals ext_tac
  | .ortho id rid inj h s, w => by
      have ih2 := @Subs.reportChangeAll_ext s
      unfold Node.reportChange; unroll; all_goals ext_tac
theorem Subs.reportChangeAt_ext : (s : Subs) → (i : Nat) → (w : World U) → World.Ext w (s.reportChangeAt i w).2.1
  | .nil, _, w => by unfold Subs.reportChangeAt; unroll; all_goals ext_tac
  | .cons b n r, 0, w => by
      have ih1 := @Node.reportChange_ext n
      unfold Subs.reportChangeAt; unroll; all_goals ext_tac
  | .cons b n r, i+1, w => by
      have ih1 := @Subs.reportChangeAt_ext r
      unfold Subs.reportChangeAt; unroll; all_goals ext_tac
theorem Subs.reportChangeAll_ext : (s : Subs) → (w : World U) → World.Ext w (s.reportChangeAll w).2.1
  | .nil, w => by unfold Subs.reportChangeAll; unroll; all_goals ext_tac
  | .cons b n r, w => by
      have ih1 := @Node.reportChange_ext n
      have ih2 := @Subs.reportChangeAll_ext r
      unfold Subs.reportChangeAll; unroll; all_goals ext_tac
theorem Subs.reportChangeTop_ext : (s : Subs) → (rks : List Int) → (top : Int) → (w : World U) →
    World.Ext w (s.reportChangeTop rks top w).2.1
  | .nil, _, _, w => by unfold Subs.reportChangeTop; unroll; all_goals ext_tac
  | .cons b n r, rks, top, w => by
      have ih1 := @Node.reportChange_ext n
      have ih2 := @Subs.reportChangeTop_ext r
      unfold Subs.reportChangeTop; unroll; all_goals ext_tac
theorem Subs.reportRankAll_ext : (s : Subs) → (w : World U) → World.Ext w (s.reportRankAll w).1
  | .nil, w => by unfold Subs.reportRankAll; unroll; all_goals ext_tac
  | .cons b n r, w => by
      have ih1 := @Subs.reportRankAll_ext r
      cases n <;> (unfold Subs.reportRankAll; unroll; all_goals ext_tac)
end


/-! ### `reportUtilize` -/

mutual
theorem Node.reportUtilize_ext : (n : Node) → (w : World U) → World.Ext w (Node.reportUtilize n w).2.1
  | .leaf id inj, w => by unfold Node.reportUtilize; unroll; all_goals ext_tac
  | .compo id rid inj h st a r q m s, w => by
      have ih1 := Subs.reportUtilizeAll_ext s
      unfold Node.reportUtilize; unroll; all_goals ext_tac
  | .ortho id rid inj h s, w => by
      have ih1 := Subs.reportUtilizeAll_ext s
      unfold Node.reportUtilize; unroll; all_goals ext_tac
theorem Subs.reportUtilizeAll_ext : (s : Subs) → (w : World U) → World.Ext w (Subs.reportUtilizeAll s w).2.1
  | .nil, w => by unfold Subs.reportUtilizeAll; unroll; all_goals ext_tac
  | .cons b n r, w => by
      have ih1 := Node.reportUtilize_ext n
      have ih2 := Subs.reportUtilizeAll_ext r
      unfold Subs.reportUtilizeAll; unroll; all_goals ext_tac
end


/-! ### `reportRandomize` -/

mutual
theorem Node.reportRandomize_ext : (n : Node) → (w : World U) → World.Ext w (Node.reportRandomize n w).2.1
  | .leaf id inj, w => by unfold Node.reportRandomize; unroll; all_goals ext_tac
  | .compo id rid inj h st a r q m s, w => by
      have ih1 := Subs.reportRandomizeAll_ext s
      have ih2 := Subs.reportRandomizeTop_ext s
      unfold Node.reportRandomize; unroll; all_goals ext_tac
  | .ortho id rid inj h s, w => by
      have ih1 := Subs.reportRandomizeAll_ext s
      have ih2 := Subs.reportRandomizeTop_ext s
      unfold Node.reportRandomize; unroll; all_goals ext_tac
theorem Subs.reportRandomizeAll_ext : (s : Subs) → (w : World U) → World.Ext w (Subs.reportRandomizeAll s w).2.1
  | .nil, w => by unfold Subs.reportRandomizeAll; unroll; all_goals ext_tac
  | .cons b n r, w => by
      have ih1 := Node.reportRandomize_ext n
      have ih2 := Subs.reportRandomizeAll_ext r
      unfold Subs.reportRandomizeAll; unroll; all_goals ext_tac
theorem Subs.reportRandomizeTop_ext : (s : Subs) → (rks : List Int) → (top : Int) → (w : World U) → World.Ext w (Subs.reportRandomizeTop s rks top w).2.1
  | .nil, rks, top, w => by unfold Subs.reportRandomizeTop; unroll; all_goals ext_tac
  | .cons b n r, rks, top, w => by
      have ih1 := Node.reportRandomize_ext n
      have ih2 := Subs.reportRandomizeTop_ext r
      unfold Subs.reportRandomizeTop; unroll; all_goals ext_tac
end


/-! ### `request` -/

mutual
theorem Node.request_ext : (n : Node) → (rq : Req) → (w : World U) → World.Ext w (Node.request n rq w).2
  | .leaf id inj, rq, w => by unfold Node.request; unroll; all_goals ext_tac
  | .compo id rid inj h st a r q m s, rq, w => by
      have ih1 := Subs.requestAt_ext s
      have ih2 := Subs.requestAll_ext s
      unfold Node.request; unroll; all_goals ext_tac
  | .ortho id rid inj h s, rq, w => by
      have ih1 := Subs.requestAt_ext s
      have ih2 := Subs.requestAll_ext s
      unfold Node.request; unroll; all_goals ext_tac
theorem Subs.requestAt_ext : (s : Subs) → (i : Nat) → (rq : Req) → (w : World U) → World.Ext w (Subs.requestAt s i rq w).2
  | .nil, _, rq, w => by unfold Subs.requestAt; unroll; all_goals ext_tac
  | .cons b n r, 0, rq, w => by
      have ih1 := Node.request_ext n
      unfold Subs.requestAt; unroll; all_goals ext_tac
  | .cons b n r, i+1, rq, w => by
      have ih1 := Subs.requestAt_ext r
      unfold Subs.requestAt; unroll; all_goals ext_tac
theorem Subs.requestAll_ext : (s : Subs) → (rq : Req) → (w : World U) → World.Ext w (Subs.requestAll s rq w).2
  | .nil, rq, w => by unfold Subs.requestAll; unroll; all_goals ext_tac
  | .cons b n r, rq, w => by
      have ih1 := Node.request_ext n
      have ih2 := Subs.requestAll_ext r
      unfold Subs.requestAll; unroll; all_goals ext_tac
end


/-! ### `fwdRequest` -/

mutual
theorem Node.fwdRequest_ext : (n : Node) → (rq : Req) → (w : World U) → World.Ext w (Node.fwdRequest n rq w).2
  | .leaf id inj, rq, w => by unfold Node.fwdRequest; unroll; all_goals ext_tac
  | .compo id rid inj h st a r q m s, rq, w => by
      have ih1 := Subs.fwdRequestAt_ext s
      have ih2 := Subs.fwdRequestAll_ext s
      unfold Node.fwdRequest; unroll; all_goals ext_tac
  | .ortho id rid inj h s, rq, w => by
      have ih1 := Subs.fwdRequestAt_ext s
      have ih2 := Subs.fwdRequestAll_ext s
      unfold Node.fwdRequest; unroll; all_goals ext_tac
theorem Subs.fwdRequestAt_ext : (s : Subs) → (i : Nat) → (rq : Req) → (w : World U) → World.Ext w (Subs.fwdRequestAt s i rq w).2
  | .nil, _, rq, w => by unfold Subs.fwdRequestAt; unroll; all_goals ext_tac
  | .cons b n r, 0, rq, w => by
      have ih1 := Node.fwdRequest_ext n
      unfold Subs.fwdRequestAt; unroll; all_goals ext_tac
  | .cons b n r, i+1, rq, w => by
      have ih1 := Subs.fwdRequestAt_ext r
      unfold Subs.fwdRequestAt; unroll; all_goals ext_tac
theorem Subs.fwdRequestAll_ext : (s : Subs) → (rq : Req) → (w : World U) → World.Ext w (Subs.fwdRequestAll s rq w).2
  | .nil, rq, w => by unfold Subs.fwdRequestAll; unroll; all_goals ext_tac
  | .cons b n r, rq, w => by
      have ih1 := Node.fwdRequest_ext n
      have ih2 := Subs.fwdRequestAll_ext r
      unfold Subs.fwdRequestAll; unroll; all_goals ext_tac
end


/-! ### `fwdActive` -/

mutual
theorem Node.fwdActive_ext : (n : Node) → (rq : Req) → (w : World U) → World.Ext w (Node.fwdActive n rq w).2
  | .leaf id inj, rq, w => by unfold Node.fwdActive; unroll; all_goals ext_tac
  | .compo id rid inj h st a r q m s, rq, w => by
      have ih1 := Subs.fwdActiveAt_ext s
      have ih2 := Subs.fwdActiveBits_ext s
      unfold Node.fwdActive; unroll; all_goals ext_tac
  | .ortho id rid inj h s, rq, w => by
      have ih1 := Subs.fwdActiveAt_ext s
      have ih2 := Subs.fwdActiveBits_ext s
      unfold Node.fwdActive; unroll; all_goals ext_tac
theorem Subs.fwdActiveAt_ext : (s : Subs) → (i : Nat) → (rq : Req) → (w : World U) → World.Ext w (Subs.fwdActiveAt s i rq w).2
  | .nil, _, rq, w => by unfold Subs.fwdActiveAt; unroll; all_goals ext_tac
  | .cons b n r, 0, rq, w => by
      have ih1 := Node.fwdActive_ext n
      unfold Subs.fwdActiveAt; unroll; all_goals ext_tac
  | .cons b n r, i+1, rq, w => by
      have ih1 := Subs.fwdActiveAt_ext r
      unfold Subs.fwdActiveAt; unroll; all_goals ext_tac
theorem Subs.fwdActiveBits_ext : (s : Subs) → (rq : Req) → (w : World U) → World.Ext w (Subs.fwdActiveBits s rq w).2
  | .nil, rq, w => by unfold Subs.fwdActiveBits; unroll; all_goals ext_tac
  | .cons b n r, rq, w => by
      have ih1 := Node.fwdActive_ext n
      have ih2 := Subs.fwdActiveBits_ext r
      unfold Subs.fwdActiveBits; unroll; all_goals ext_tac
end


end Hfsm
