/-
Reachable instances, and what C01's invariant (`Mach.Inv`, Proofs/MachOps.lean) says about every one of them.

The property files C04 … C14 state their theorems per step / per traversal for arbitrary trees under
well-formedness hypotheses of Proofs/Wf.lean "that C01 establishes".  This file states that
composition once: `ReachableOf shape cfg m` — `m` is an instance of the machine declared by `shape`,
constructed with configuration `cfg`, after some history of API calls — and, for every such `m` with
`m.w.err = none`, each well-formedness predicate that C01 proves of it.  The sections
"end-to-end (composition with C01)" at the end of Props/C04 … C14 instantiate the per-step theorems
with these.

TWO OPERATION LANGUAGES.  `Mach.step / Mach.run` (Proofs/MachOps.lean, the language `Mach.run_inv` is
about) feeds fresh decision / generator streams with every call and records a call made in the wrong
activation state (`enter` on an activated instance, `update` on one that is not, …: the library's
`HFSM2_ASSERT(isActive())`) as a contract violation.  `Api.step / Api.run` (Proofs/Api.lean, used by
C10/C11/C15/C16) carries the streams given at construction and does NOT check the activation state — for
such a call it just runs the model's function, about which C01 proves nothing.  Hence:
  * `ReachableOf` is the closure of `Mach.create` under `Mach.feed` and `Mach.step` (normal form:
    `reachableOf_iff`);
  * an `Api.run` from `Api.boot` is reachable PROVIDED every call respects the activation state
    (`Api.Legal`, `Api.reachable_run`); in that case `Api.step` is `Mach.step` with the streams left
    alone (`Api.step_eq_machStep`).  Conversely every `Mach.step` is an `Api.step` of the re-fed instance
    or a recorded violation (`Mach.step_cases`).
  For an `Api.run` with an illegal call nothing is claimed (GAP 1 below; `Api.illegal_enter_unflagged`).

WHAT HOLDS OF EVERY REACHABLE `m` WITH `m.w.err = none` (section 3)
    same structure as the declaration   `sameShape`, `sameShape'` (the `cleared` form of C08)
    ids are the pre-order numbering     `idsFrom`, `idsBelow`, `size_eq`
    `Act ∨ Clean`, `ResumableOK`        `act_or_clean`, `resumableOK`
    activated (`machineActive = true`): `Act`, `COK`                     `act`, `cok`
    not activated:                      `Clean`                          `clean`
    C01's `WF` on the registry queries  `wf`
    every recorded observation is good  `good`
  and of every reachable `m`, `err` or not: the configuration is the one given at construction
  (`cfg_eq`, `stateCount`, …).

WHAT DOES NOT HOLD OF EVERY REACHABLE STATE, OR IS NOT PROVED
  GAP 1  `Api.run` with a call in the wrong activation state: `Api.step` does not flag it (the traversals
         flag SOME such calls on their own — `update` of an inactive composite root sets `err` — but not
         e.g. `enter` on an activated instance: `Api.illegal_enter_unflagged`), and C01's invariant is not
         proved to survive it.  Everything here needs `Api.Legal`.
  GAP 2  `NoMarks` (hence `Settled` / `Idle`, `Mach.ActiveOK` / `InactiveOK` of C08) is FALSE of some
         reachable states, and exactly ONE call can make it so: a `replayEnter` of a non-empty history that
         answers `false` leaves the marks of its initial resolution on an instance that stays inactive
         (`Props.C01.stale_marks_witness`; `Mach.step_noMarks_or_stale`: every other call, made on an instance
         without marks, leaves none).  Such marks then survive every call that does not touch the registry and
         a `load` into the still inactive instance (`Props.C01.stale_marks_survive_loadEnter`: `loadEnter` does
         not clear requests first), and are gone after `enter / exit / reset`, a `load` into an ACTIVATED
         instance (`R_::load` starts with `clearRequests()`), a `replayTransitions` or `replayEnter` that
         answers `true`, or an `update / react / immediate…` that processes a request.
         `NoMarks` is proved for `QuietOf` (section 4): every reachable history in which each `replayEnter` that
         answered `false` on a non-empty history is later followed by one of the washing calls of the previous
         sentence except the last kind.  In particular it HOLDS after `load` (all four activation combinations:
         `Mach.load_noMarks`, `Mach.load_active_noMarks` — neither `R_::load` nor `RV_::loadEnter` ends with
         `clearRequests()`, the commit / enter pass consumes every mark `deepLoadRequested` laid down,
         Proofs/LoadMarks.lean) and after `replayTransitions` (both answers: `Mach.replayTransitions_noMarks`).
  GAP 3  `COK` of an instance that is NOT activated is not part of `Mach.Inv` (`DormInv` keeps `Clean` and
         `ResumableOK` only).  It follows from `NoMarks` on `QuietOf` histories; after a `replayEnter`
         that answered `false` it is true (the tree is `DRes`) but not recorded by the invariant.
  GAP 4  `Res` is not a property of states between calls at all (it says "every region to be entered
         carries a valid request"; `clearMarks` ends every call).  Theorems with a `Res` hypothesis are
         about the middle of a call.
  GAP 5  `OK` (every region has a sub-state), `WidthOK` (≤ 256 sub-states) are properties of the
         DECLARATION: they hold of a reachable tree iff they hold of `shape.toNode 0 0`
         (`ok_iff`, `widthOK_iff`) and stay as hypotheses on the shape.
-/
import Hfsm.Props.C01
import Hfsm.Proofs.Bounds
import Hfsm.Proofs.PlanExec
import Hfsm.Proofs.Ids
import Hfsm.Proofs.Pins
import Hfsm.Proofs.SerialTree
import Hfsm.Proofs.DemoMach

set_option linter.unusedSimpArgs false
set_option linter.unusedVariables false
set_option linter.unusedSectionVars false

namespace Hfsm
variable {U : Type} [UtilArith U]

/-! ## 1. reachable instances -/

/-- `m` is an instance of the machine declared by `shape`, constructed with configuration `cfg`, after
some history: `Mach.create`, then any number of API calls (`Mach.step`: each with the decisions its
callbacks take and the numbers the generator yields) and stream replacements (`Mach.feed`). -/
inductive ReachableOf (shape : Shape) (cfg : Config) : Mach U → Prop
  | create : ReachableOf shape cfg (Mach.create shape cfg)
  | feed {m : Mach U} (ds : List (Decision U)) (rng : List U) :
      ReachableOf shape cfg m → ReachableOf shape cfg (m.feed ds rng)
  | step {m : Mach U} (s : ApiStep U) : ReachableOf shape cfg m → ReachableOf shape cfg (m.step s)

/-- `m` is a state of some instance of some machine. -/
def Reachable (m : Mach U) : Prop := ∃ shape cfg, ReachableOf shape cfg m

namespace Mach

theorem feed_feed (m : Mach U) (a c : List (Decision U)) (b d : List U) : (m.feed a b).feed c d = m.feed c d := rfl
theorem feed_self (m : Mach U) : m.feed m.w.ds m.w.rng = m := rfl
/-- a call installs its own streams: what was fed before is irrelevant -/
theorem step_feed (m : Mach U) (a : List (Decision U)) (b : List U) (s : ApiStep U) :
    (m.feed a b).step s = m.step s := rfl

theorem run_nil (m : Mach U) : m.run [] = m := rfl
theorem run_cons (m : Mach U) (s : ApiStep U) (rest : List (ApiStep U)) : m.run (s :: rest) = (m.step s).run rest := rfl
theorem run_snoc (m : Mach U) (steps : List (ApiStep U)) (s : ApiStep U) :
    m.run (steps ++ [s]) = (m.run steps).step s := by
  simp [run, List.foldl_append]

end Mach

namespace ReachableOf
variable {shape : Shape} {cfg : Config} {m : Mach U}

theorem run (h : ReachableOf shape cfg m) : (steps : List (ApiStep U)) → ReachableOf shape cfg (m.run steps) := by
  intro steps
  induction steps generalizing m with
  | nil => exact h
  | cons s rest ih => exact ih (h.step s)

/-- every `Mach.run` from `Mach.create` (the runs C01 is stated for) is reachable -/
theorem of_run (shape : Shape) (cfg : Config) (steps : List (ApiStep U)) :
    ReachableOf shape cfg ((Mach.create shape cfg : Mach U).run steps) :=
  ReachableOf.create.run steps

theorem reachable (h : ReachableOf shape cfg m) : Reachable m := ⟨shape, cfg, h⟩

end ReachableOf

/-- Normal form: the reachable instances are exactly the `Mach.run`s from `Mach.create`, with any streams
installed afterwards. -/
theorem reachableOf_iff {shape : Shape} {cfg : Config} {m : Mach U} :
    ReachableOf shape cfg m ↔
      ∃ (steps : List (ApiStep U)) (ds : List (Decision U)) (rng : List U),
        m = ((Mach.create shape cfg : Mach U).run steps).feed ds rng := by
  constructor
  · intro h
    induction h with
    | create => exact ⟨[], _, _, (Mach.feed_self _).symm⟩
    | feed ds rng _ ih =>
      obtain ⟨steps, a, b, rfl⟩ := ih
      exact ⟨steps, ds, rng, rfl⟩
    | step s _ ih =>
      obtain ⟨steps, a, b, rfl⟩ := ih
      refine ⟨steps ++ [s], (((Mach.create shape cfg : Mach U).run steps).step s).w.ds,
        (((Mach.create shape cfg : Mach U).run steps).step s).w.rng, ?_⟩
      rw [Mach.step_feed, Mach.run_snoc]
      rfl
  · rintro ⟨steps, ds, rng, rfl⟩
    exact (ReachableOf.of_run shape cfg steps).feed ds rng

theorem Reachable.step {m : Mach U} (h : Reachable m) (s : ApiStep U) : Reachable (m.step s) := by
  obtain ⟨shape, cfg, h⟩ := h
  exact ⟨shape, cfg, h.step s⟩

theorem Reachable.run {m : Mach U} (h : Reachable m) (steps : List (ApiStep U)) : Reachable (m.run steps) := by
  obtain ⟨shape, cfg, h⟩ := h
  exact ⟨shape, cfg, h.run steps⟩

/-! ## 2. the `Api.run` language -/

/-- `Mach.step` with the three components of the call spelled out -/
theorem Mach.step_mk (m : Mach U) (ds : List (Decision U)) (rng : List U) (op : Op U) :
    m.step ⟨ds, rng, op⟩ =
      (let m := m.feed ds rng
       let act := m.root.machineActive
       match op with
       | .enter => if act then m.violate "enter() on an activated instance" else m.initialEnter
       | .exit => if act then m.finalExit else m.violate "exit() on an instance that is not activated"
       | .update => if act then m.update else m.violate "update() on an instance that is not activated"
       | .react => if act then m.react else m.violate "react() on an instance that is not activated"
       | .query => if act then m.query else m.violate "query() on an instance that is not activated"
       | .reset => if act then m.reset else m.violate "reset() on an instance that is not activated"
       | .request k d p => m.request k d p
       | .immediate k d p =>
          if act then m.immediate k d p else m.violate "immediate transition on an instance that is not activated"
       | .setTask sid b => m.setTask sid b
       | .planAppend rid t => m.planAppend rid t
       | .planClear rid => m.planClear rid
       | .load bits => m.load bits
       | .replayTransitions ts =>
          if act then (m.replayTransitions ts).1
          else m.violate "replayTransitions() on an instance that is not activated"
       | .replayEnter ts =>
          if act then m.violate "replayEnter() on an activated instance" else (m.replayEnter ts).1) := rfl

namespace Api

/-- the same call in the operation language of Proofs/MachOps.lean -/
def Op.toOp : Api.Op → Hfsm.Op U
  | .enter => .enter
  | .exit => .exit
  | .update => .update
  | .react => .react
  | .query => .query
  | .reset => .reset
  | .request k d p => .request k d p
  | .immediate k d p => .immediate k d p
  | .setTask s ok => .setTask s ok
  | .planAppend r t => .planAppend r t
  | .planClear r => .planClear r
  | .load b => .load b
  | .replay ts => .replayTransitions ts
  | .replayEnter ts => .replayEnter ts

/-- The activation-state precondition of a call (`act` = `isActive()` of the instance): what root_0.inl /
root_1.inl assert, and what `Mach.step` records as a contract violation. -/
def Op.legal (act : Bool) : Api.Op → Bool
  | .enter => !act
  | .replayEnter _ => !act
  | .exit => act
  | .update => act
  | .react => act
  | .query => act
  | .reset => act
  | .immediate .. => act
  | .replay _ => act
  | .request .. => true
  | .setTask .. => true
  | .planAppend .. => true
  | .planClear .. => true
  | .load _ => true

/-- every call of the sequence is made in an activation state that allows it -/
def Legal : Mach U → List Api.Op → Prop
  | _, [] => True
  | m, o :: os => o.legal m.root.machineActive = true ∧ Legal (step m o) os

/-- `Legal` as a computation -/
def legalB : Mach U → List Api.Op → Bool
  | _, [] => true
  | m, o :: os => o.legal m.root.machineActive && legalB (step m o) os

theorem legal_iff : (ops : List Api.Op) → (m : Mach U) → (Legal m ops ↔ legalB m ops = true)
  | [], _ => by simp [Legal, legalB]
  | o :: os, m => by simp [Legal, legalB, legal_iff os (step m o)]

/-- A legal `Api.step` IS the `Mach.step` that leaves the streams alone. -/
theorem step_eq_machStep (m : Mach U) (o : Api.Op) (h : o.legal m.root.machineActive = true) :
    step m o = m.step ⟨m.w.ds, m.w.rng, o.toOp⟩ := by
  rw [Mach.step_mk]
  have hf : m.feed m.w.ds m.w.rng = m := rfl
  rw [hf]
  cases o <;> simp only [Op.legal, Bool.not_eq_true'] at h <;> simp only [step, Op.toOp, h] <;> rfl

end Api

/-- Conversely: a `Mach.step` is a recorded violation, or the `Api.step` of the same call on the re-fed
instance, made in an activation state that allows it. -/
theorem Mach.step_cases (m : Mach U) (s : ApiStep U) :
    (∃ msg, m.step s = (m.feed s.ds s.rng).violate msg) ∨
    (∃ o : Api.Op, o.toOp = s.op ∧ o.legal (m.feed s.ds s.rng).root.machineActive = true ∧
      m.step s = Api.step (m.feed s.ds s.rng) o) := by
  obtain ⟨ds, rng, op⟩ := s
  rw [Mach.step_mk]
  cases op with
  | exit =>
    dsimp only
    cases hact : (m.feed ds rng).root.machineActive
    · exact .inl ⟨_, rfl⟩
    · exact .inr ⟨.exit, rfl, rfl, rfl⟩
  | update =>
    dsimp only
    cases hact : (m.feed ds rng).root.machineActive
    · exact .inl ⟨_, rfl⟩
    · exact .inr ⟨.update, rfl, rfl, rfl⟩
  | react =>
    dsimp only
    cases hact : (m.feed ds rng).root.machineActive
    · exact .inl ⟨_, rfl⟩
    · exact .inr ⟨.react, rfl, rfl, rfl⟩
  | query =>
    dsimp only
    cases hact : (m.feed ds rng).root.machineActive
    · exact .inl ⟨_, rfl⟩
    · exact .inr ⟨.query, rfl, rfl, rfl⟩
  | reset =>
    dsimp only
    cases hact : (m.feed ds rng).root.machineActive
    · exact .inl ⟨_, rfl⟩
    · exact .inr ⟨.reset, rfl, rfl, rfl⟩
  | immediate k d p =>
    dsimp only
    cases hact : (m.feed ds rng).root.machineActive
    · exact .inl ⟨_, rfl⟩
    · exact .inr ⟨.immediate k d p, rfl, rfl, rfl⟩
  | replayTransitions ts =>
    dsimp only
    cases hact : (m.feed ds rng).root.machineActive
    · exact .inl ⟨_, rfl⟩
    · exact .inr ⟨.replay ts, rfl, rfl, rfl⟩
  | enter =>
    dsimp only
    cases hact : (m.feed ds rng).root.machineActive
    · exact .inr ⟨.enter, rfl, rfl, rfl⟩
    · exact .inl ⟨_, rfl⟩
  | replayEnter ts =>
    dsimp only
    cases hact : (m.feed ds rng).root.machineActive
    · exact .inr ⟨.replayEnter ts, rfl, rfl, rfl⟩
    · exact .inl ⟨_, rfl⟩
  | request k d p => exact .inr ⟨.request k d p, rfl, rfl, rfl⟩
  | setTask sid b => exact .inr ⟨.setTask sid b, rfl, rfl, rfl⟩
  | planAppend rid t => exact .inr ⟨.planAppend rid t, rfl, rfl, rfl⟩
  | planClear rid => exact .inr ⟨.planClear rid, rfl, rfl, rfl⟩
  | load bits => exact .inr ⟨.load bits, rfl, rfl, rfl⟩

theorem Mach.create_machineActive (shape : Shape) (cfg : Config) :
    (Mach.create shape cfg : Mach U).root.machineActive = false :=
  Node.machineActive_of_clean (Node.toNode_idle shape 0 0).1

namespace Api

/-- construction: `Mach.create`, the streams, and — for an automatic instance — the first activation -/
theorem boot_eq (shape : Shape) (cfg : Config) (ds : List (Decision U)) (rng : List U) :
    (boot shape cfg ds rng : Mach U) =
      if cfg.manual then (Mach.create shape cfg : Mach U).feed ds rng
      else (Mach.create shape cfg : Mach U).step ⟨ds, rng, .enter⟩ := by
  have hm : ((Mach.create shape cfg : Mach U).feed ds rng).root.machineActive = false :=
    Mach.create_machineActive (U := U) shape cfg
  unfold boot
  split
  · rfl
  · simp only [Mach.step, hm, if_false, Bool.false_eq_true]
    rfl

theorem reachable_boot (shape : Shape) (cfg : Config) (ds : List (Decision U)) (rng : List U) :
    ReachableOf shape cfg (boot shape cfg ds rng : Mach U) := by
  rw [boot_eq]
  split
  · exact ReachableOf.create.feed ds rng
  · exact ReachableOf.create.step _

theorem reachable_run_of {shape : Shape} {cfg : Config} : (ops : List Api.Op) → (m : Mach U) →
    ReachableOf shape cfg m → Legal m ops → ReachableOf shape cfg (run m ops)
  | [], _, h, _ => h
  | o :: os, m, h, hl => by
      rw [run_cons]
      refine reachable_run_of os _ ?_ hl.2
      rw [step_eq_machStep m o hl.1]
      exact h.step _

/-- **Every `Api.run` from `Api.boot` whose calls respect the activation state is reachable.** -/
theorem reachable_run (shape : Shape) (cfg : Config) (ds : List (Decision U)) (rng : List U) (ops : List Api.Op)
    (hl : Legal (boot shape cfg ds rng : Mach U) ops) :
    ReachableOf shape cfg (run (boot shape cfg ds rng : Mach U) ops) :=
  reachable_run_of ops _ (reachable_boot shape cfg ds rng) hl

end Api

/-! ## 3. what C01's invariant gives for every reachable instance -/

namespace Mach

theorem create_cfg (shape : Shape) (cfg : Config) :
    (create shape cfg : Mach U).w.cfg =
      { cfg with stateCount := shape.stateCount, regionCount := shape.regionCount } := by
  have h1 : ∀ w : World U, w.clearTargets.cfg = w.cfg := by
    intro w; unfold World.clearTargets; split <;> rfl
  exact (h1 (({ cfg := { cfg with stateCount := shape.stateCount, regionCount := shape.regionCount } } :
    World U).clearPlanData)).trans rfl

theorem create_ds (shape : Shape) (cfg : Config) : (create shape cfg : Mach U).w.ds = [] := by
  have h1 : ∀ w : World U, w.clearTargets.ds = w.ds := by
    intro w; unfold World.clearTargets; split <;> rfl
  exact (h1 (({ cfg := { cfg with stateCount := shape.stateCount, regionCount := shape.regionCount } } :
    World U).clearPlanData)).trans rfl

theorem step_cfg (m : Mach U) (s : ApiStep U) : (m.step s).w.cfg = m.w.cfg := by
  rcases step_cases m s with ⟨msg, e⟩ | ⟨o, _, _, e⟩
  · rw [e]; exact (safeRel.fail' (m.feed s.ds s.rng).w msg).1
  · rw [e]; exact (safeRel.step (m.feed s.ds s.rng) o).1

end Mach

namespace ReachableOf
variable {shape : Shape} {cfg : Config} {m : Mach U}

/-- the configuration of an instance never changes -/
theorem cfg_eq (h : ReachableOf shape cfg m) :
    m.w.cfg = { cfg with stateCount := shape.stateCount, regionCount := shape.regionCount } := by
  induction h with
  | create => exact Mach.create_cfg shape cfg
  | feed ds rng _ ih => exact ih
  | step s _ ih => rw [Mach.step_cfg]; exact ih

theorem stateCount (h : ReachableOf shape cfg m) : m.w.cfg.stateCount = shape.stateCount := by rw [h.cfg_eq]
theorem cfg_plans (h : ReachableOf shape cfg m) : m.w.cfg.plans = cfg.plans := by rw [h.cfg_eq]
theorem cfg_history (h : ReachableOf shape cfg m) : m.w.cfg.history = cfg.history := by rw [h.cfg_eq]
theorem cfg_manual (h : ReachableOf shape cfg m) : m.w.cfg.manual = cfg.manual := by rw [h.cfg_eq]
theorem cfg_queueCap (h : ReachableOf shape cfg m) : m.w.cfg.queueCap = cfg.queueCap := by rw [h.cfg_eq]
theorem cfg_topDown (h : ReachableOf shape cfg m) : m.w.cfg.topDown = cfg.topDown := by rw [h.cfg_eq]
theorem cfg_substitutionLimit (h : ReachableOf shape cfg m) :
    m.w.cfg.substitutionLimit = cfg.substitutionLimit := by rw [h.cfg_eq]

/-- **C01's invariant holds of every reachable instance that met no contract violation.** -/
theorem inv (h : ReachableOf shape cfg m) : m.w.err = none → Mach.Inv (shape.toNode 0 0) m := by
  induction h with
  | create => intro _; exact Mach.create_inv shape cfg
  | feed ds rng _ ih => intro he; exact Mach.feed_inv ds rng (ih he)
  | step s _ ih => intro he; exact Mach.step_inv s (ih (Mach.step_errLe _ s he)) he

section
variable (h : ReachableOf shape cfg m) (he : m.w.err = none)
include h he

/-- same structure as the declaration (`view false false false` form of Proofs/MachInv.lean) -/
theorem sameShape : m.root.SameShape (shape.toNode 0 0) := (h.inv he).shape

/-- the same in the `cleared` form used by C08 (`Node.sameShape`, Proofs/SerialTree.lean) -/
theorem sameShape' : m.root.sameShape (Mach.create shape cfg : Mach U).root := by
  have := h.sameShape he
  unfold Node.SameShape at this
  unfold Node.sameShape
  rw [Node.cleared_eq_view, Node.cleared_eq_view]
  exact this

/-- ids are the pre-order numbering from 0 -/
theorem idsFrom : m.root.IdsFrom 0 := Props.C01.idsFrom_of_sameShape shape (h.sameShape he)

theorem size_eq : m.root.size = shape.stateCount := by
  have := h.sameShape he
  unfold Node.SameShape at this
  rw [Node.size_congr this, Shape.toNode_size_eq]

theorem act_or_clean : m.root.Act ∨ m.root.Clean := (h.inv he).act_or_clean

theorem resumableOK : m.root.ResumableOK := by
  cases hm : m.root.machineActive
  · exact ((h.inv he).dorm hm).dorm.rok
  · exact ((h.inv he).live hm).live.rok

/-- activated: the active configuration is well formed … -/
theorem act (hm : m.root.machineActive = true) : m.root.Act := ((h.inv he).live hm).live.act
/-- … and committable -/
theorem cok (hm : m.root.machineActive = true) : m.root.COK := ((h.inv he).live hm).live.cok
theorem live (hm : m.root.machineActive = true) : m.root.Live := ((h.inv he).live hm).live
/-- not activated: nothing is active -/
theorem clean (hm : m.root.machineActive = false) : m.root.Clean := ((h.inv he).dorm hm).dorm.clean

/-- the recorded observations (what every callback so far was shown) come from well-formed trees -/
theorem good : m.w.Good (shape.toNode 0 0) := (h.inv he).good

/-- **C01** for reachable instances: the configuration the registry reports is well formed -/
theorem wf : Props.C01.WF m.root := Props.C01.WF_of_inv (h.inv he)

/-- `OK` is a property of the declaration -/
theorem ok_iff : m.root.OK ↔ (shape.toNode 0 0).OK := (h.sameShape he).ok

end
end ReachableOf

/-! ### the same for `Reachable` (structure and configuration existentially quantified) -/

namespace Reachable
variable {m : Mach U}

theorem wf (h : Reachable m) (he : m.w.err = none) : Props.C01.WF m.root := by
  obtain ⟨_, _, h⟩ := h; exact h.wf he
theorem idsFrom (h : Reachable m) (he : m.w.err = none) : m.root.IdsFrom 0 := by
  obtain ⟨_, _, h⟩ := h; exact h.idsFrom he
theorem act_or_clean (h : Reachable m) (he : m.w.err = none) : m.root.Act ∨ m.root.Clean := by
  obtain ⟨_, _, h⟩ := h; exact h.act_or_clean he
theorem resumableOK (h : Reachable m) (he : m.w.err = none) : m.root.ResumableOK := by
  obtain ⟨_, _, h⟩ := h; exact h.resumableOK he
theorem act (h : Reachable m) (he : m.w.err = none) (hm : m.root.machineActive = true) : m.root.Act := by
  obtain ⟨_, _, h⟩ := h; exact h.act he hm
theorem cok (h : Reachable m) (he : m.w.err = none) (hm : m.root.machineActive = true) : m.root.COK := by
  obtain ⟨_, _, h⟩ := h; exact h.cok he hm
theorem clean (h : Reachable m) (he : m.w.err = none) (hm : m.root.machineActive = false) : m.root.Clean := by
  obtain ⟨_, _, h⟩ := h; exact h.clean he hm

end Reachable

/-- every `Api.run` from `Api.boot` whose calls respect the activation state is a reachable state -/
theorem Api.reachable (shape : Shape) (cfg : Config) (ds : List (Decision U)) (rng : List U) (ops : List Api.Op)
    (hl : Api.Legal (Api.boot shape cfg ds rng : Mach U) ops) :
    Reachable (Api.run (Api.boot shape cfg ds rng : Mach U) ops) :=
  (Api.reachable_run shape cfg ds rng ops hl).reachable

/-! ### declaration-level predicates are invariant under `cleared` (GAP 5) -/

mutual
theorem Node.widthOK_cleared : (n : Node) → (n.cleared.WidthOK ↔ n.WidthOK)
  | .leaf .. => Iff.rfl
  | .compo _ _ _ _ _ _ _ _ _ s => by
      simp only [Node.cleared, Node.WidthOK, Subs.widthOK_cleared s, Subs.len_cleared s]
  | .ortho _ _ _ _ s => by simp only [Node.cleared, Node.WidthOK, Subs.widthOK_cleared s]
theorem Subs.widthOK_cleared : (s : Subs) → (s.cleared.WidthOKAll ↔ s.WidthOKAll)
  | .nil => Iff.rfl
  | .cons _ n r => by simp only [Subs.cleared, Subs.WidthOKAll, Node.widthOK_cleared n, Subs.widthOK_cleared r]
end

theorem Node.widthOK_congr {a b : Node} (h : a.sameShape b) : a.WidthOK ↔ b.WidthOK := by
  unfold Node.sameShape at h
  rw [← Node.widthOK_cleared a, ← Node.widthOK_cleared b, h]

theorem ReachableOf.widthOK_iff {shape : Shape} {cfg : Config} {m : Mach U} (h : ReachableOf shape cfg m)
    (he : m.w.err = none) : m.root.WidthOK ↔ (shape.toNode 0 0).WidthOK :=
  Node.widthOK_congr (h.sameShape' he)

/-! ### `IdsBelow` (the numbering hypothesis of C09) from `IdsFrom` -/

mutual
theorem Node.idsBelow_mono {N N' : Nat} (hN : N ≤ N') : (n : Node) → n.IdsBelow N → n.IdsBelow N'
  | .leaf .., h => by simp only [Node.IdsBelow] at h ⊢; omega
  | .compo _ _ _ _ _ _ _ _ _ s, h => by
      simp only [Node.IdsBelow] at h ⊢; exact ⟨by omega, Subs.idsBelowAll_mono hN s h.2⟩
  | .ortho _ _ _ _ s, h => by
      simp only [Node.IdsBelow] at h ⊢; exact ⟨by omega, Subs.idsBelowAll_mono hN s h.2⟩
theorem Subs.idsBelowAll_mono {N N' : Nat} (hN : N ≤ N') : (s : Subs) → s.IdsBelowAll N → s.IdsBelowAll N'
  | .nil, _ => trivial
  | .cons _ n r, h => by
      simp only [Subs.IdsBelowAll] at h ⊢
      exact ⟨Node.idsBelow_mono hN n h.1, Subs.idsBelowAll_mono hN r h.2⟩
end

mutual
theorem Node.idsBelow_of_idsFrom : (n : Node) → (k : Nat) → n.IdsFrom k → n.IdsBelow (k + n.size)
  | .leaf .., k, h => by
      simp only [Node.IdsFrom] at h; simp only [Node.IdsBelow, Node.size]; omega
  | .compo _ _ _ _ _ _ _ _ _ s, k, h => by
      simp only [Node.IdsFrom] at h
      simp only [Node.IdsBelow, Node.size]
      refine ⟨by omega, ?_⟩
      have := Subs.idsBelowAll_of_idsFrom s (k+1) h.2
      exact Subs.idsBelowAll_mono (by omega) s this
  | .ortho _ _ _ _ s, k, h => by
      simp only [Node.IdsFrom] at h
      simp only [Node.IdsBelow, Node.size]
      refine ⟨by omega, ?_⟩
      have := Subs.idsBelowAll_of_idsFrom s (k+1) h.2
      exact Subs.idsBelowAll_mono (by omega) s this
theorem Subs.idsBelowAll_of_idsFrom : (s : Subs) → (k : Nat) → s.IdsFrom k → s.IdsBelowAll (k + s.size)
  | .nil, _, _ => trivial
  | .cons _ n r, k, h => by
      simp only [Subs.IdsFrom] at h
      simp only [Subs.IdsBelowAll, Subs.size]
      refine ⟨Node.idsBelow_mono (by omega) n (Node.idsBelow_of_idsFrom n k h.1), ?_⟩
      have := Subs.idsBelowAll_of_idsFrom r (k + n.size) h.2
      exact Subs.idsBelowAll_mono (by omega) r this
end

/-- every state id of a reachable instance is below `STATE_COUNT` -/
theorem ReachableOf.idsBelow {shape : Shape} {cfg : Config} {m : Mach U} (h : ReachableOf shape cfg m)
    (he : m.w.err = none) : m.root.IdsBelow m.w.cfg.stateCount := by
  have := Node.idsBelow_of_idsFrom m.root 0 (h.idsFrom he)
  rw [h.stateCount, ← h.size_eq he]
  simpa using this

/-! ## 4. where no request marks remain (GAP 2) -/

/-- `enter`, `exit`, `reset` end with `registry.clearRequests()` on a freshly resolved / cleared registry:
they leave no mark whatever they started from. -/
def Op.washes : Op U → Bool
  | .enter | .exit | .reset => true
  | _ => false

theorem Op.marksSafe_false {o : Op U} (h : o.marksSafe = false) : ∃ ts, o = .replayEnter ts ∧ ts ≠ [] := by
  cases o with
  | replayEnter ts => exact ⟨ts, rfl, by rintro rfl; simp [Op.marksSafe] at h⟩
  | _ => simp [Op.marksSafe] at h

namespace Mach

theorem step_washes_noMarks {base : Node} {m : Mach U} (s : ApiStep U) (hi0 : Inv base m)
    (hop : s.op.washes = true) (he : (m.step s).w.err = none) : (m.step s).root.NoMarks := by
  have hi := feed_inv s.ds s.rng hi0
  revert he
  unfold step
  dsimp only
  generalize m.feed s.ds s.rng = m1 at hi
  cases hs : s.op with
  | enter =>
    dsimp only; split
    · intro h; exact absurd h (violate_err _ _)
    · next hm => intro he; exact (initialEnter_inv (hi.dorm (by simpa using hm)) he).2
  | exit =>
    dsimp only; split
    · intro _; exact (finalExit_inv hi.shape hi.good hi.act_or_clean).2
    · intro h; exact absurd h (violate_err _ _)
  | reset =>
    dsimp only; split
    · intro he; exact (reset_inv hi.shape hi.good hi.act_or_clean trivial he).2
    · intro h; exact absurd h (violate_err _ _)
  | update => rw [hs] at hop; cases hop
  | react => rw [hs] at hop; cases hop
  | query => rw [hs] at hop; cases hop
  | request k d p => rw [hs] at hop; cases hop
  | immediate k d p => rw [hs] at hop; cases hop
  | setTask sid b => rw [hs] at hop; cases hop
  | planAppend rid t => rw [hs] at hop; cases hop
  | planClear rid => rw [hs] at hop; cases hop
  | load bits => rw [hs] at hop; cases hop
  | replayTransitions ts => rw [hs] at hop; cases hop
  | replayEnter ts => rw [hs] at hop; cases hop

/-- a `replayEnter` that answered `true` activated the instance and cleared the marks -/
theorem step_replayEnter_noMarks {base : Node} {m : Mach U} (s : ApiStep U) (ts : List Transition) (hi0 : Inv base m)
    (hop : s.op = .replayEnter ts) (hans : ((m.feed s.ds s.rng).replayEnter ts).2 = true)
    (he : (m.step s).w.err = none) : (m.step s).root.NoMarks := by
  have hi := feed_inv s.ds s.rng hi0
  revert he
  unfold step
  dsimp only
  generalize m.feed s.ds s.rng = m1 at hi hans
  rw [hop]
  dsimp only; split
  · intro h; exact absurd h (violate_err _ _)
  · next hm =>
    intro he
    exact ((replayEnter_inv ts (hi.dorm (by simpa using hm)) he).1 hans).2

/-- a `replayTransitions` that answered `true` ended with `clearRequests()` -/
theorem step_replayTransitions_noMarks {base : Node} {m : Mach U} (s : ApiStep U) (ts : List Transition)
    (hi0 : Inv base m) (hop : s.op = .replayTransitions ts)
    (hans : ((m.feed s.ds s.rng).replayTransitions ts).2 = true)
    (he : (m.step s).w.err = none) : (m.step s).root.NoMarks := by
  have hi := feed_inv s.ds s.rng hi0
  revert he
  unfold step
  dsimp only
  generalize m.feed s.ds s.rng = m1 at hi hans
  rw [hop]
  dsimp only; split
  · next hm => intro he; exact (replayTransitions_noMarks ts (hi.live hm) he).1 hans
  · intro h; exact absurd h (violate_err _ _)

/-- a `load` into an ACTIVATED instance leaves no mark whatever it started from (`R_::load` clears the
requests before reading; the image of an inactive instance makes it `finalExit`) -/
theorem step_load_active_noMarks {base : Node} {m : Mach U} (s : ApiStep U) (bits : List Bool) (hi0 : Inv base m)
    (hop : s.op = .load bits) (hm : m.root.machineActive = true)
    (he : (m.step s).w.err = none) : (m.step s).root.NoMarks := by
  have hi := feed_inv s.ds s.rng hi0
  have hm1 : (m.feed s.ds s.rng).root.machineActive = true := hm
  revert he
  unfold step
  dsimp only
  generalize m.feed s.ds s.rng = m1 at hi hm1
  rw [hop]
  dsimp only
  intro he; exact load_active_noMarks bits hi hm1 he

/-- **The only call that can leave a request mark behind** on an instance that carried none is a
`replayEnter` of a non-empty history that answers `false`. -/
theorem step_noMarks_or_stale {base : Node} {m : Mach U} (s : ApiStep U) (hi0 : Inv base m) (hn : m.root.NoMarks)
    (he : (m.step s).w.err = none) :
    (m.step s).root.NoMarks ∨
      ∃ ts, s.op = .replayEnter ts ∧ ts ≠ [] ∧ ((m.feed s.ds s.rng).replayEnter ts).2 = false := by
  cases hsafe : s.op.marksSafe
  · obtain ⟨ts, hop, hne⟩ := Op.marksSafe_false hsafe
    cases hans : ((m.feed s.ds s.rng).replayEnter ts).2
    · exact .inr ⟨ts, hop, hne, hans⟩
    · exact .inl (step_replayEnter_noMarks s ts hi0 hop hans he)
  · exact .inl (step_noMarks s hi0 hn hsafe he)

theorem load_eq_step (m : Mach U) (bits : List Bool) : m.load bits = m.step ⟨m.w.ds, m.w.rng, .load bits⟩ := rfl

end Mach

/-- Reachable by a history after which no request mark is left (`QuietOf.noMarks`).  Every call is
  * `marksSafe` — ANY call but a `replayEnter` of a non-empty history — made on a quiet instance, or
  * made on ANY reachable instance and one of: `enter / exit / reset` (`wash`), a `replayEnter` that answered
    `true` (`entered`), a `replayTransitions` that answered `true` (`replayed`), a `load` into an activated
    instance (`loaded`).
So the reachable histories that are NOT quiet are those with a `replayEnter` of a non-empty history that
answered `false` and no washing call after it. -/
inductive QuietOf (shape : Shape) (cfg : Config) : Mach U → Prop
  | create : QuietOf shape cfg (Mach.create shape cfg)
  | feed {m : Mach U} (ds : List (Decision U)) (rng : List U) : QuietOf shape cfg m → QuietOf shape cfg (m.feed ds rng)
  | safe {m : Mach U} (s : ApiStep U) : QuietOf shape cfg m → s.op.marksSafe = true → QuietOf shape cfg (m.step s)
  | wash {m : Mach U} (s : ApiStep U) : ReachableOf shape cfg m → s.op.washes = true → QuietOf shape cfg (m.step s)
  | entered {m : Mach U} (s : ApiStep U) (ts : List Transition) : ReachableOf shape cfg m →
      s.op = .replayEnter ts → ((m.feed s.ds s.rng).replayEnter ts).2 = true → QuietOf shape cfg (m.step s)
  | replayed {m : Mach U} (s : ApiStep U) (ts : List Transition) : ReachableOf shape cfg m →
      s.op = .replayTransitions ts → ((m.feed s.ds s.rng).replayTransitions ts).2 = true →
      QuietOf shape cfg (m.step s)
  | loaded {m : Mach U} (s : ApiStep U) (bits : List Bool) : ReachableOf shape cfg m →
      s.op = .load bits → m.root.machineActive = true → QuietOf shape cfg (m.step s)

namespace QuietOf
variable {shape : Shape} {cfg : Config} {m : Mach U}

theorem reachable (h : QuietOf shape cfg m) : ReachableOf shape cfg m := by
  induction h with
  | create => exact .create
  | feed ds rng _ ih => exact ih.feed ds rng
  | safe s _ _ ih => exact ih.step s
  | wash s hr _ => exact hr.step s
  | entered s ts hr _ _ => exact hr.step s
  | replayed s ts hr _ _ => exact hr.step s
  | loaded s bits hr _ _ => exact hr.step s

/-- a run of `marksSafe` calls (anything but `replayEnter` of a non-empty history) -/
theorem run (h : QuietOf shape cfg m) : (steps : List (ApiStep U)) →
    (∀ s ∈ steps, s.op.marksSafe = true) → QuietOf shape cfg (m.run steps) := by
  intro steps
  induction steps generalizing m with
  | nil => intro _; exact h
  | cons s rest ih =>
    intro hall
    exact ih (h.safe s (hall s List.mem_cons_self)) (fun x hx => hall x (List.mem_cons_of_mem _ hx))

theorem of_run (shape : Shape) (cfg : Config) (steps : List (ApiStep U))
    (hall : ∀ s ∈ steps, s.op.marksSafe = true) :
    QuietOf shape cfg ((Mach.create shape cfg : Mach U).run steps) :=
  QuietOf.create.run steps hall

/-- `load` of ANY buffer into a quiet instance: the loaded instance is quiet … -/
theorem load (h : QuietOf shape cfg m) (bits : List Bool) : QuietOf shape cfg (m.load bits) :=
  Mach.load_eq_step m bits ▸ h.safe ⟨m.w.ds, m.w.rng, .load bits⟩ rfl

/-- … and so is the result of a `load` into ANY reachable instance that is activated -/
theorem load_active (h : ReachableOf shape cfg m) (hm : m.root.machineActive = true) (bits : List Bool) :
    QuietOf shape cfg (m.load bits) :=
  Mach.load_eq_step m bits ▸ QuietOf.loaded ⟨m.w.ds, m.w.rng, .load bits⟩ bits h rfl hm

/-- **no request mark is left** -/
theorem noMarks (h : QuietOf shape cfg m) : m.w.err = none → m.root.NoMarks := by
  induction h with
  | create => intro _; exact (Node.toNode_idle shape 0 0).2.1
  | feed ds rng _ ih => exact ih
  | safe s hq hop ih =>
    intro he
    have he0 := Mach.step_errLe _ s he
    exact Mach.step_noMarks s (hq.reachable.inv he0) (ih he0) hop he
  | wash s hr hop =>
    intro he
    exact Mach.step_washes_noMarks s (hr.inv (Mach.step_errLe _ s he)) hop he
  | entered s ts hr hop hans =>
    intro he
    exact Mach.step_replayEnter_noMarks s ts (hr.inv (Mach.step_errLe _ s he)) hop hans he
  | replayed s ts hr hop hans =>
    intro he
    exact Mach.step_replayTransitions_noMarks s ts (hr.inv (Mach.step_errLe _ s he)) hop hans he
  | loaded s bits hr hop hm =>
    intro he
    exact Mach.step_load_active_noMarks s bits (hr.inv (Mach.step_errLe _ s he)) hop hm he

/-- between calls, activated: `Settled` of Proofs/Wf.lean (`OK` is a property of the declaration) -/
theorem settled (h : QuietOf shape cfg m) (he : m.w.err = none) (hm : m.root.machineActive = true)
    (hok : (shape.toNode 0 0).OK) : m.root.Settled :=
  ⟨(h.reachable.ok_iff he).mpr hok, h.reachable.act he hm, h.noMarks he, h.reachable.resumableOK he⟩

/-- between calls, not activated: `Idle` of Proofs/Wf.lean -/
theorem idle (h : QuietOf shape cfg m) (he : m.w.err = none) (hm : m.root.machineActive = false)
    (hok : (shape.toNode 0 0).OK) : m.root.Idle :=
  ⟨(h.reachable.ok_iff he).mpr hok, h.reachable.clean he hm, h.noMarks he, h.reachable.resumableOK he⟩

/-- `COK` in every activation state (GAP 3 closed on quiet histories) -/
theorem cok (h : QuietOf shape cfg m) (he : m.w.err = none) : m.root.COK :=
  Node.NoMarks_imp_COK m.root (h.noMarks he)

/-- one more call on a quiet instance: quiet again unless it is a `replayEnter` of a non-empty history that
answers `false` -/
theorem step_or_stale (h : QuietOf shape cfg m) (s : ApiStep U) :
    QuietOf shape cfg (m.step s) ∨
      ∃ ts, s.op = .replayEnter ts ∧ ts ≠ [] ∧ ((m.feed s.ds s.rng).replayEnter ts).2 = false := by
  cases hsafe : s.op.marksSafe
  · obtain ⟨ts, hop, hne⟩ := Op.marksSafe_false hsafe
    cases hans : ((m.feed s.ds s.rng).replayEnter ts).2
    · exact .inr ⟨ts, hop, hne, hans⟩
    · exact .inl (QuietOf.entered s ts h.reachable hop hans)
  · exact .inl (h.safe s hsafe)

end QuietOf

namespace Api

/-- the calls of an `Api.run` after which no mark can be left over: all but a `replayEnter` of a non-empty history -/
def Op.marksSafe : Api.Op → Bool
  | .replayEnter ts => ts.isEmpty
  | _ => true

theorem toOp_marksSafe (o : Api.Op) : (o.toOp : Hfsm.Op U).marksSafe = o.marksSafe := by
  cases o <;> rfl

theorem quiet_boot (shape : Shape) (cfg : Config) (ds : List (Decision U)) (rng : List U) :
    QuietOf shape cfg (boot shape cfg ds rng : Mach U) := by
  rw [boot_eq]
  split
  · exact QuietOf.create.feed ds rng
  · exact QuietOf.create.safe _ rfl

/-- every `replayEnter` of the sequence that is given a non-empty history answers `true` -/
def NoStaleReplay : Mach U → List Api.Op → Prop
  | _, [] => True
  | m, o :: os =>
    (match o with
     | .replayEnter ts => ts.isEmpty = true ∨ (m.replayEnter ts).2 = true
     | _ => True) ∧ NoStaleReplay (step m o) os

theorem noStaleReplay_of_marksSafe : (ops : List Api.Op) → (m : Mach U) →
    (∀ o ∈ ops, o.marksSafe = true) → NoStaleReplay m ops
  | [], _, _ => trivial
  | o :: os, m, hs => by
      refine ⟨?_, noStaleReplay_of_marksSafe os _ (fun x hx => hs x (List.mem_cons_of_mem _ hx))⟩
      have := hs o List.mem_cons_self
      cases o <;> first | trivial | exact .inl this

theorem quiet_run_of' {shape : Shape} {cfg : Config} : (ops : List Api.Op) → (m : Mach U) →
    QuietOf shape cfg m → Legal m ops → NoStaleReplay m ops → QuietOf shape cfg (run m ops)
  | [], _, h, _, _ => h
  | o :: os, m, h, hl, hs => by
      rw [run_cons]
      refine quiet_run_of' os _ ?_ hl.2 hs.2
      rw [step_eq_machStep m o hl.1]
      cases hsafe : o.marksSafe
      · cases o with
        | replayEnter ts =>
          rcases hs.1 with he | ha
          · exact absurd (show Op.marksSafe (.replayEnter ts) = true from he) (by rw [hsafe]; simp)
          · exact QuietOf.entered _ ts h.reachable rfl ha
        | _ => simp [Op.marksSafe] at hsafe
      · exact h.safe _ (by rw [toOp_marksSafe]; exact hsafe)

theorem quiet_run_of {shape : Shape} {cfg : Config} (ops : List Api.Op) (m : Mach U)
    (h : QuietOf shape cfg m) (hl : Legal m ops) (hs : ∀ o ∈ ops, o.marksSafe = true) :
    QuietOf shape cfg (run m ops) :=
  quiet_run_of' ops m h hl (noStaleReplay_of_marksSafe ops m hs)

/-- **Every legal `Api.run` from `Api.boot` in which no `replayEnter` of a non-empty history answers `false`
is quiet** — `load`, `replayTransitions` (either answer) and successful `replayEnter`s included. -/
theorem quiet_run' (shape : Shape) (cfg : Config) (ds : List (Decision U)) (rng : List U) (ops : List Api.Op)
    (hl : Legal (boot shape cfg ds rng : Mach U) ops) (hs : NoStaleReplay (boot shape cfg ds rng : Mach U) ops) :
    QuietOf shape cfg (run (boot shape cfg ds rng : Mach U) ops) :=
  quiet_run_of' ops _ (quiet_boot shape cfg ds rng) hl hs

/-- a legal `Api.run` without `replayEnter` of a non-empty history (`load`s and `replayTransitions` allowed) -/
theorem quiet_run (shape : Shape) (cfg : Config) (ds : List (Decision U)) (rng : List U) (ops : List Api.Op)
    (hl : Legal (boot shape cfg ds rng : Mach U) ops) (hs : ∀ o ∈ ops, o.marksSafe = true) :
    QuietOf shape cfg (run (boot shape cfg ds rng : Mach U) ops) :=
  quiet_run_of ops _ (quiet_boot shape cfg ds rng) hl hs

end Api

/-! ## 5. where an API call hands over to `processRequest` (for C04 / C09 / C14) -/

/-- The instance at the moment `update()`, `react()` or an immediate transition starts processing the
queue: the passes (resp. the queueing of the request) are done, `processRequest` is next. -/
def Mach.atProcess (m : Mach U) : Api.Op → Option (Mach U)
  | .update => some { m with w := m.updatePasses }
  | .react => some { m with w := m.reactPasses }
  | .immediate k d p => some (m.request k d p)
  | _ => none

theorem Mach.atProcess_step {m m' : Mach U} {o : Api.Op} (h : m.atProcess o = some m') :
    Api.step m o = m'.processRequest := by
  cases o <;> simp [Mach.atProcess] at h <;> subst h <;> rfl

theorem Mach.atProcess_root {m m' : Mach U} {o : Api.Op} (h : m.atProcess o = some m') : m'.root = m.root := by
  cases o <;> simp [Mach.atProcess] at h <;> subst h <;> rfl

theorem Mach.atProcess_cfg {m m' : Mach U} {o : Api.Op} (h : m.atProcess o = some m') : m'.w.cfg = m.w.cfg := by
  have e := Mach.atProcess_step h
  have h1 : (Api.step m o).w.cfg = m.w.cfg := (safeRel.step m o).1
  have h2 : m'.processRequest.w.cfg = m'.w.cfg := (safeRel.mach_processRequest m').1
  rw [← h2, ← e, h1]

/-- queue and task pool of a reachable instance respect their capacities (C11) -/
theorem ReachableOf.bounded {shape : Shape} {cfg : Config} {m : Mach U} (h : ReachableOf shape cfg m) : m.Bounded := by
  induction h with
  | create => exact bounded_create shape cfg
  | feed ds rng _ ih => exact ih
  | @step m s _ ih =>
    rcases Mach.step_cases m s with ⟨msg, e⟩ | ⟨o, _, _, e⟩
    · rw [e]; exact SafeRel.bounded (m := m.feed s.ds s.rng) (safeRel.fail' (m.feed s.ds s.rng).w msg) ih
    · rw [e]; exact (safeRel.step (m.feed s.ds s.rng) o).bounded ih

theorem ReachableOf.cfg_historyCap {shape : Shape} {cfg : Config} {m : Mach U} (h : ReachableOf shape cfg m) :
    m.w.cfg.historyCap = cfg.historyCap := by rw [h.cfg_eq]; rfl

/-- … and so does the instance `processRequest` takes over from `update()`, `react()`, an immediate transition -/
theorem Mach.atProcess_bounded {m m' : Mach U} {o : Api.Op} (h : m.atProcess o = some m') (hb : m.Bounded) :
    m'.Bounded := by
  have hR := safeRel (U := U)
  have hu : SafeRel m.w m.updatePasses := by
    simp only [Mach.updatePasses]
    wr hR [hR.tick _ _ _, hR.updatePlans _ _]
  have hr : SafeRel m.w m.reactPasses := by
    simp only [Mach.reactPasses]
    wr hR [hR.react _ _ _ _ _, hR.updatePlans _ _]
  cases o <;> simp [Mach.atProcess] at h <;> subst h
  · exact SafeRel.bounded (m' := { m with w := m.updatePasses }) hu hb
  · exact SafeRel.bounded (m' := { m with w := m.reactPasses }) hr hb
  · exact (hR.mach_request m _ _ _).bounded hb

/-- **The history of a processing step fits `previousTransitions`:** at most `SUBSTITUTION_LIMIT` rounds are
approved, each with at most `COMPO_COUNT` requests (`rounds_current_le`). -/
theorem Mach.approvedOf_stepLog_length_le (m : Mach U) (hq : m.w.requests.length ≤ m.w.cfg.queueCap) :
    (approvedOf m.stepLog).length ≤ m.w.cfg.historyCap := by
  have hcur : m.stepLoop.2 = approvedOf m.stepLog := by
    obtain ⟨_, ht, hl, hc⟩ := rounds_run false m.stepStart.w.cfg.substitutionLimit m.stepStart m.stepStart.root []
      (stepStart_sized m)
    unfold stepLoop stepLog; rw [hc]; rfl
  have hreq : m.stepStart.w.requests = m.w.requests := by
    unfold stepStart World.freshControl; exact World.clearTargets_requests _
  have := rounds_current_le false m.stepStart.w.cfg.substitutionLimit m.stepStart m.stepStart.root []
    (by rw [hreq, stepStart_cfg]; exact hq)
  rw [stepStart_cfg] at this
  rw [← hcur]
  unfold Config.historyCap stepLoop
  rw [stepStart_cfg, Nat.mul_comm]
  simpa using this

/-! ## 6. a concrete non-trivial reachable instance -/

/-- the program of Proofs/DemoMach.lean respects the activation state … -/
theorem Demo.prog_legal : Api.Legal Demo.mach Demo.prog := by
  exact (Api.legal_iff _ _).mpr (by decide +kernel)

/-- … so the instance it leaves behind is reachable (and quiet: no `load`, no replay) -/
theorem Demo.reachable : ReachableOf Demo.shape Demo.cfg (Api.run Demo.mach Demo.prog) :=
  Api.reachable_run Demo.shape Demo.cfg Demo.ds [] Demo.prog Demo.prog_legal

theorem Demo.quiet : QuietOf Demo.shape Demo.cfg (Api.run Demo.mach Demo.prog) :=
  Api.quiet_run Demo.shape Demo.cfg Demo.ds [] Demo.prog Demo.prog_legal (by decide)

theorem Demo.err_none : (Api.run Demo.mach Demo.prog).w.err = none := by decide +kernel

theorem Demo.active : (Api.run Demo.mach Demo.prog).root.machineActive = true := by decide +kernel

example : Reachable (Api.run Demo.mach Demo.prog) := Demo.reachable.reachable

/-- it is not the initial configuration: state 1 is active again after a round trip through state 2 -/
example : (List.range 3).map (Api.run Demo.mach Demo.prog).root.isActive = [true, true, false] ∧
    (List.range 3).map (Api.run Demo.mach [.update]).root.isActive = [true, false, true] := by decide +kernel

example : Props.C01.WF (Api.run Demo.mach Demo.prog).root := Demo.reachable.wf Demo.err_none
/-- (closed terms: generalize before using a theorem about a recursive predicate, or `whnf` evaluates the run) -/
theorem Demo.noMarks : (Api.run Demo.mach Demo.prog).root.NoMarks := by
  generalize hm : Api.run Demo.mach Demo.prog = m
  have hq : QuietOf Demo.shape Demo.cfg m := hm ▸ Demo.quiet
  have he : m.w.err = none := hm ▸ Demo.err_none
  exact hq.noMarks he

/-- the hypotheses of every `…_reachable` corollary of Props/C04 … C14 are satisfiable together: an activated,
quiet, reachable instance without contract violation that has been through a transition -/
theorem Demo.witness : ∃ m : Mach Demo.DU, QuietOf Demo.shape Demo.cfg m ∧ ReachableOf Demo.shape Demo.cfg m ∧
    m.w.err = none ∧ m.root.machineActive = true :=
  ⟨_, Demo.quiet, Demo.reachable, Demo.err_none, Demo.active⟩

/-! ### GAP 1 is real -/

/-- the demonstration machine with callbacks that never do anything -/
def Demo.idle : Mach Demo.DU := Api.boot Demo.shape Demo.cfg (List.replicate 60 []) []

/-- `enter()` on an ACTIVATED instance (`HFSM2_ASSERT(!isActive())` in the library, a recorded violation in
`Mach.step`) is not flagged by `Api.step`: after `immediateChangeTo(2); enter()` the model reports no contract
violation, state 2 has stopped being active without any `exit` callback and states 0, 1 were entered a second
time.  (C01's `WF` happens to hold of the result; properties about callback sequences do not.)  So theorems
about `Api.run` can be composed with C01 only under `Api.Legal`. -/
theorem Api.illegal_enter_unflagged :
    Api.legalB Demo.idle [.immediate .change 2 none, .enter] = false ∧
    (Api.run Demo.idle [.immediate .change 2 none, .enter]).w.err = none ∧
    (List.range 3).map (Api.run Demo.idle [.immediate .change 2 none]).root.isActive = [true, false, true] ∧
    (List.range 3).map (Api.run Demo.idle [.immediate .change 2 none, .enter]).root.isActive = [true, true, false] ∧
    ((Api.run Demo.idle [.immediate .change 2 none, .enter]).w.trace.filterMap fun e => match e with
      | .cb sid .exit _ _ _ _ => some sid
      | _ => none) = [1] := by decide +kernel

end Hfsm
