/-
Machine-level consequences of Proofs/Dispatch.lean: the passes of `Mach.update`, `Mach.react`,
`Mach.query` as worlds (`Mach.tickPasses`, `Mach.reactPhases`), what `query` may touch
(`World.persist`), and quiet updates.
-/
import Hfsm.Proofs.Dispatch
import Hfsm.Proofs.Grows

namespace Hfsm
variable {U : Type}

/-! ### plain pre-order / post-order enumerations -/

mutual
/-- Pre-order enumeration of the active sub-tree: head, then the active sub-state of a composite
region / every sub-state of an orthogonal region in declaration order. -/
def Node.activePre : Node → List St
  | .leaf id inj => [(id, inj, true)]
  | .compo id _ inj h _ a _ _ _ s =>
    match a with
    | some i => (id, inj, h) :: s.activePreAt i
    | none => []
  | .ortho id _ inj h s => (id, inj, h) :: s.activePreAll
def Subs.activePreAt : Subs → Nat → List St
  | .nil, _ => []
  | .cons _ n _, 0 => n.activePre
  | .cons _ _ r, i+1 => r.activePreAt i
def Subs.activePreAll : Subs → List St
  | .nil => []
  | .cons _ n r => n.activePre ++ r.activePreAll
end

mutual
/-- Post-order enumeration of the active sub-tree: sub-states (in declaration order) before their head. -/
def Node.activePost : Node → List St
  | .leaf id inj => [(id, inj, true)]
  | .compo id _ inj h _ a _ _ _ s =>
    match a with
    | some i => s.activePostAt i ++ [(id, inj, h)]
    | none => []
  | .ortho id _ inj h s => s.activePostAll ++ [(id, inj, h)]
def Subs.activePostAt : Subs → Nat → List St
  | .nil, _ => []
  | .cons _ n _, 0 => n.activePost
  | .cons _ _ r, i+1 => r.activePostAt i
def Subs.activePostAll : Subs → List St
  | .nil => []
  | .cons _ n r => n.activePost ++ r.activePostAll
end

mutual
theorem Node.activeList_true : (n : Node) → n.activeList true = n.activePre
  | .leaf .. => rfl
  | .compo _ _ _ _ _ a _ _ _ s => by
    cases a with
    | none => rfl
    | some i => simp [Node.activeList, Node.activePre, Subs.activeListAt_true s i]
  | .ortho _ _ _ _ s => by simp [Node.activeList, Node.activePre, Subs.activeListAll_true s]
theorem Subs.activeListAt_true : (s : Subs) → (i : Nat) → s.activeListAt true i = s.activePreAt i
  | .nil, _ => rfl
  | .cons _ n _, 0 => by simp [Subs.activeListAt, Subs.activePreAt, Node.activeList_true n]
  | .cons _ _ r, i+1 => by simp [Subs.activeListAt, Subs.activePreAt, Subs.activeListAt_true r i]
theorem Subs.activeListAll_true : (s : Subs) → s.activeListAll true = s.activePreAll
  | .nil => rfl
  | .cons _ n r => by simp [Subs.activeListAll, Subs.activePreAll, Node.activeList_true n, Subs.activeListAll_true r]
end

mutual
theorem Node.activeList_false : (n : Node) → n.activeList false = n.activePost
  | .leaf .. => rfl
  | .compo _ _ _ _ _ a _ _ _ s => by
    cases a with
    | none => rfl
    | some i => simp [Node.activeList, Node.activePost, Subs.activeListAt_false s i]
  | .ortho _ _ _ _ s => by simp [Node.activeList, Node.activePost, Subs.activeListAll_false s]
theorem Subs.activeListAt_false : (s : Subs) → (i : Nat) → s.activeListAt false i = s.activePostAt i
  | .nil, _ => rfl
  | .cons _ n _, 0 => by simp [Subs.activeListAt, Subs.activePostAt, Node.activeList_false n]
  | .cons _ _ r, i+1 => by simp [Subs.activeListAt, Subs.activePostAt, Subs.activeListAt_false r i]
theorem Subs.activeListAll_false : (s : Subs) → s.activeListAll false = s.activePostAll
  | .nil => rfl
  | .cons _ n r => by simp [Subs.activeListAll, Subs.activePostAll, Node.activeList_false n, Subs.activeListAll_false r]
end

/-! ### the passes of the instance operations -/

/-- The world a pass of the instance API starts from: fresh control registers, registry snapshot. -/
def Mach.passStart (m : Mach U) : World U := (m.w.freshControl).snapshot m.root true false

/-- The world after the three passes of `R_::update` (before plans and transitions are processed). -/
def Mach.tickPasses (m : Mach U) : World U :=
  (m.root.tick .postUpdate (m.root.tick .update (m.root.tick .preUpdate m.passStart).1).1).1

/-- The world after the three passes of `R_::react`. -/
def Mach.reactPhases (m : Mach U) : World U :=
  let td := m.w.cfg.topDown
  let w1 := (m.root.react .preReact td false m.passStart).1
  let w2 := (m.root.react .react td false { w1 with consumed := false }).1
  (m.root.react .postReact (!td) true { w2 with consumed := false }).1

/-- What `update` and `react` do after their passes: plan update, then `processRequest`. -/
def Mach.finishStep [UtilArith U] (m : Mach U) (w : World U) : Mach U :=
  let w := if w.cfg.plans then (m.root.updatePlans w).1.clearStatuses else w
  ({ m with w := w }).processRequest

theorem Mach.update_eq_finish [UtilArith U] (m : Mach U) : m.update = m.finishStep m.tickPasses := rfl
theorem Mach.react_eq_finish [UtilArith U] (m : Mach U) : m.react = m.finishStep m.reactPhases := rfl
theorem Mach.query_eq_pass [UtilArith U] (m : Mach U) :
    m.query = { m with w := m.root.query m.w.cfg.topDown m.passStart } := rfl

@[simp] theorem Mach.passStart_key (m : Mach U) : m.passStart.key = ⟨m.w.ds, false, m.w.cbSeq⟩ := rfl

/-- everything after the passes only appends callbacks -/
theorem Mach.finishStep_grows [UtilArith U] (m : Mach U) (w : World U) :
    World.GrowsBy (fun _ => True) w (m.finishStep w).w := by
  unfold Mach.finishStep
  dsimp only
  apply Mach.g_processRequest (fun _ => trivial)
  split
  · exact World.g_clearStatuses (Node.g_updatePlans (fun _ => trivial) _ _ (World.GrowsBy.refl _))
  · exact World.GrowsBy.refl _

/-! ### the three passes, as callback sequences -/

/-- What the three passes of `react` deliver: each phase is a fresh `reactSpec` (it starts
unconsumed) on the decisions the earlier phases left. -/
def reactSpec3 (td : Bool) (root : Node) (ds : List (Decision U)) : List CbItem :=
  let r1 := reactSpec .preReact (root.activeList td) ds
  let ds1 := ds.drop r1.length
  let r2 := reactSpec .react (root.activeList td) ds1
  let ds2 := ds1.drop r2.length
  r1 ++ r2 ++ reactSpec .postReact (root.activeList (!td)) ds2

theorem Mach.tickPasses_key (m : Mach U) (hA : m.root.Act) :
    m.tickPasses.cbSeq = m.w.cbSeq ++
      (expand .preUpdate m.root.activePre ++ expand .update m.root.activePre ++
        expand .postUpdate m.root.activePost).take m.w.ds.length ∧
    m.tickPasses.ds = m.w.ds.drop
      (expand .preUpdate m.root.activePre ++ expand .update m.root.activePre ++
        expand .postUpdate m.root.activePost).length := by
  have h : m.tickPasses.key = _ := Node.tick_key .postUpdate m.root _ hA
  rw [Node.tick_key .update m.root _ hA, Node.tick_key .preUpdate m.root _ hA] at h
  simp only [DKey.all_eq, Mach.passStart_key, bne_self_eq_false,
    show (Method.update != Method.postUpdate) = true from rfl,
    show (Method.preUpdate != Method.postUpdate) = true from rfl,
    Node.activeList_true, Node.activeList_false] at h
  constructor
  · have := congrArg DKey.seq h
    simp only [World.key_seq] at this
    rw [this]
    simp [List.take_append, List.length_drop, Nat.sub_sub]
  · have := congrArg DKey.ds h
    simp only [World.key_ds] at this
    rw [this]
    simp [List.drop_drop, Nat.add_comm, Nat.add_left_comm]

theorem Mach.reactPhases_key (m : Mach U) (hA : m.root.Act) :
    m.reactPhases.cbSeq = m.w.cbSeq ++ reactSpec3 m.w.cfg.topDown m.root m.w.ds := by
  unfold Mach.reactPhases reactSpec3
  dsimp only
  have h1 := Node.react_key .preReact m.w.cfg.topDown false m.root m.passStart hA rfl
  rw [DKey.untilConsumed_eq _ _ _ rfl] at h1
  have h2 := Node.react_key .react m.w.cfg.topDown false m.root
    { (m.root.react .preReact m.w.cfg.topDown false m.passStart).1 with consumed := false } hA rfl
  rw [DKey.untilConsumed_eq _ _ _ rfl] at h2
  have h3 := Node.react_key .postReact (!m.w.cfg.topDown) true m.root
    { (m.root.react .react m.w.cfg.topDown false
        { (m.root.react .preReact m.w.cfg.topDown false m.passStart).1 with consumed := false }).1
      with consumed := false } hA rfl
  rw [DKey.untilConsumed_eq _ _ _ rfl] at h3
  have e1s : (m.root.react .preReact m.w.cfg.topDown false m.passStart).1.cbSeq = _ := congrArg DKey.seq h1
  have e1d : (m.root.react .preReact m.w.cfg.topDown false m.passStart).1.ds = _ := congrArg DKey.ds h1
  have e2s := congrArg DKey.seq h2
  have e2d := congrArg DKey.ds h2
  have e3s := congrArg DKey.seq h3
  simp only [World.key_seq, World.key_ds, Mach.passStart_key] at e1s e1d e2s e2d e3s
  change World.cbSeq (m.root.react .react m.w.cfg.topDown false _).1 =
    World.cbSeq (m.root.react .preReact m.w.cfg.topDown false m.passStart).1 ++ _ at e2s
  change World.ds (m.root.react .react m.w.cfg.topDown false _).1 =
    List.drop _ (World.ds (m.root.react .preReact m.w.cfg.topDown false m.passStart).1) at e2d
  rw [e3s]
  change World.cbSeq (m.root.react .react m.w.cfg.topDown false _).1 ++
    reactSpec .postReact _ (World.ds (m.root.react .react m.w.cfg.topDown false _).1) = _
  rw [e2s, e2d, e1s, e1d]
  simp [List.append_assoc]

/-! ### what a query may touch -/

/-- A world without its decision stream, consume flag, trace and error mark. -/
def World.persist (w : World U) : World U := { w with ds := [], consumed := false, trace := [], err := none }

namespace World

theorem persist_fail' (w : World U) (msg : String) : (w.fail' msg).persist = w.persist := by
  unfold World.fail'; split <;> rfl

theorem persist_logRec (w : World U) (r : LogRec U) : (w.logRec r).persist = w.persist := by
  unfold World.logRec; split <;> rfl

theorem persist_act_query (w : World U) (a : Action U) : (act .query w a).persist = w.persist := by
  cases a <;> simp [act, CtlClass.isFull, persist_fail'] <;> rfl

theorem persist_foldl_act_query : (d : Decision U) → (w : World U) →
    (d.foldl (act .query) w).persist = w.persist
  | [], _ => rfl
  | a :: d, w => by rw [List.foldl_cons, persist_foldl_act_query d, persist_act_query]

theorem persist_invoke_query (w : World U) (sid slot : Nat) :
    (w.invoke sid .query slot).1.persist = w.persist := by
  unfold World.invoke
  split
  · exact persist_fail' ..
  · rename_i d rest _
    show (World.emit (List.foldl (act CtlClass.query) { w with ds := rest } d) _).persist = _
    have h := persist_foldl_act_query d { w with ds := rest }
    exact h

theorem persist_invokeSlots_query (sid : Nat) : (l : List Nat) → (w : World U) →
    (w.invokeSlots sid .query l).persist = w.persist
  | [], _ => rfl
  | s :: rest, w => by rw [World.invokeSlots, persist_invokeSlots_query sid rest, persist_invoke_query]

theorem persist_stateMethod_query (w : World U) (sid inj : Nat) (h : Bool) :
    (w.stateMethod sid inj h .query).persist = w.persist := by
  unfold World.stateMethod
  dsimp only
  split
  · have h1 := persist_invokeSlots_query sid (slotOrder inj .query)
      { (if (h || w.cfg.verbose) = true then w.logRec (.method sid .query) else w) with origin := some sid }
    have h2 : (if (h || w.cfg.verbose) = true then w.logRec (.method sid .query) else w).persist = w.persist := by
      split
      · exact persist_logRec ..
      · rfl
    rw [← h2]
    exact congrArg (fun x : World U => { x with origin := (if (h || w.cfg.verbose) = true then w.logRec (.method sid .query) else w).origin }) h1
  · split
    · exact persist_logRec ..
    · rfl

end World

mutual
theorem Node.query_persist (hf : Bool) : (n : Node) → (w : World U) → (n.query hf w).persist = w.persist
  | .leaf id inj, w => by simp only [Node.query]; exact World.persist_stateMethod_query ..
  | .compo id rid inj h st a r q m s, w => by
    simp only [Node.query]
    repeat' split
    all_goals first
      | rfl
      | exact World.persist_fail' ..
      | exact World.persist_stateMethod_query ..
      | exact Subs.queryAt_persist ..
      | (rw [Subs.queryAt_persist]; first | rfl | exact World.persist_stateMethod_query ..)
      | (rw [World.persist_stateMethod_query]; first | rfl | exact Subs.queryAt_persist ..)
  | .ortho id rid inj h s, w => by
    simp only [Node.query]
    repeat' split
    all_goals first
      | rfl
      | exact World.persist_stateMethod_query ..
      | exact Subs.queryAll_persist ..
      | (rw [Subs.queryAll_persist]; first | rfl | exact World.persist_stateMethod_query ..)
      | (rw [World.persist_stateMethod_query]; first | rfl | exact Subs.queryAll_persist ..)
theorem Subs.queryAt_persist (hf : Bool) : (s : Subs) → (i : Nat) → (w : World U) →
    (s.queryAt hf i w).persist = w.persist
  | .nil, _, w => by simp only [Subs.queryAt]; exact World.persist_fail' ..
  | .cons _ n _, 0, w => by simp only [Subs.queryAt]; exact Node.query_persist hf n w
  | .cons _ _ r, i+1, w => by simp only [Subs.queryAt]; exact Subs.queryAt_persist hf r i w
theorem Subs.queryAll_persist (hf : Bool) : (s : Subs) → (w : World U) →
    (s.queryAll hf w).persist = w.persist
  | .nil, w => rfl
  | .cons _ n r, w => by
    simp only [Subs.queryAll]
    split
    · exact Node.query_persist hf n w
    · rw [Subs.queryAll_persist hf r, Node.query_persist hf n w]
end

end Hfsm
