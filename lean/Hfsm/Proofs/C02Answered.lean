/-
C02 — one request of any kind, end to end: `Mach.processRequest` yields `Node.spec` instantiated with
the answers the request consumes.

`Mach.answers m t` is the list of `(region, prong)` choices that the lone request `t` makes, computed
by the pure stream functions of C12 from the decision and generator streams of `m.w`
(`Node.specCh`, Proofs/C02PathChoices.lean; the operational form `Mach.answersOp` walks the tree marked
by `Node.mark` — Proofs/C02Choices.lean — and `Mach.C02.answers_eq_op` identifies the two on a settled
tree).  `Mach.C02.processRequest_answered`: for every oracle that agrees with that list, the step
yields `m.root.spec ans t.kind p`.  `Mach.ansOf m t` is the oracle read off the list;
`Mach.C02.agrees_ansOf`: it agrees with the list when the ids are numbered in pre-order and the model
met no contract violation; `Mach.C02.atGuards_err_of_processRequest`: `err = none` after the step implies
`err = none` when the guards ran.
-/
import Hfsm.Proofs.C02ChoicesFacts
import Hfsm.Proofs.C02PathChoices
import Hfsm.Proofs.C02Mach
import Hfsm.Proofs.MachInv

set_option linter.unusedSimpArgs false
set_option linter.unusedVariables false
set_option linter.unusedSectionVars false

namespace Hfsm
variable {U : Type} [UtilArith U]

/-- the decision and generator streams of a world, as the pure stream functions of C12 read them -/
def World.sig (w : World U) : Sig U := ⟨w.ds, w.rng, 0⟩

theorem World.corr_sig (w : World U) : Corr w w.sig := ⟨rfl, rfl⟩

omit [UtilArith U] in
theorem C02.World.sig_clearTargets (w : World U) : w.clearTargets.sig = w.sig := by
  unfold World.clearTargets; split <;> rfl

/-- The answers one request `t` consumes on the tree `root` with streams `σ`: a request to the root
resolves the whole tree (`deepRequest`), any other one marks the path (`requestImmediate`) and walks
the marks (`deepForwardActive`). -/
def Node.answersTo (root : Node) (t : Transition) (σ : Sig U) : Choices :=
  if t.dest = 0 then root.requestCh t.kind σ
  else match root.pathTo t.dest with
    | some p => (root.mark p).1.fwdActiveCh t.kind σ
    | none => []

/-- the same for the lone queued request `t` of a machine, from the streams at the start of the step
(operational form: mentions `Node.mark`) -/
def Mach.answersOp (m : Mach U) (t : Transition) : Choices := m.root.answersTo t m.w.sig

/-- The answers the lone queued request `t` consumes, from the decision and generator streams at the
start of the step — declaratively (`Node.specCh`, Proofs/C02PathChoices.lean: the recursion of
`Node.spec`, `Node.requestCh` and the stream functions of C12; no operational pass). -/
def Mach.answers (m : Mach U) (t : Transition) : Choices :=
  match m.root.pathTo t.dest with
  | some p => m.root.specCh p t.kind m.w.sig
  | none => []

/-- The oracle of `Node.spec` for the lone request `t`: the prong each consulted region's resolution
chooses, as a function of the decision and generator streams at the start of the step. -/
def Mach.ansOf (m : Mach U) (t : Transition) : Nat → Nat := (m.answers t).toAns

/-! ### registry lemmas about the real forward pass -/

theorem C02.Subs.marksDiffer_markBits_fwd : (s : Subs) → (i : Nat) → (p : List Nat) → (rq : Req) → (w : World U) →
    s.NoMarksAll → s.ValidAt i p →
    (((s.markAt i p).1.setBit i).fwdActiveBits rq w).1.marksDiffer s = true
  | .nil, _, _, _, _, _, hv => by simp only [Subs.ValidAt] at hv
  | .cons b n r, 0, p, rq, w, hs, _ => by
    simp only [Subs.NoMarksAll] at hs
    obtain ⟨hb, -, -⟩ := hs
    subst hb
    simp [Subs.markAt, Subs.setBit, Subs.fwdActiveBits, Subs.marksDiffer]
  | .cons b n r, i+1, p, rq, w, hs, hv => by
    simp only [Subs.NoMarksAll] at hs
    obtain ⟨hb, -, hr⟩ := hs
    subst hb
    simp only [Subs.ValidAt] at hv
    simp [Subs.markAt, Subs.setBit, Subs.fwdActiveBits, Subs.marksDiffer,
      C02.Subs.marksDiffer_markBits_fwd r i p rq w hr hv]

/-- a request to a state below the root always leaves marks (the real forward pass) -/
theorem C02.Node.marksDiffer_mark_fwd (n : Node) (i : Nat) (rest : List Nat) (rq : Req) (w : World U)
    (hn : n.NoMarks) (hv : n.ValidPath (i :: rest)) :
    ((n.mark (i :: rest)).1.fwdActive rq w).1.marksDiffer n = true := by
  cases n with
  | leaf id inj => simp only [Node.ValidPath] at hv
  | ortho id rid inj h s =>
    simp only [Node.NoMarks] at hn
    simp only [Node.ValidPath] at hv
    have := C02.Subs.marksDiffer_markBits_fwd s i rest rq w hn hv
    simp only [Node.mark]
    generalize s.markAt i rest = res at this
    obtain ⟨s', ph⟩ := res
    simpa only [Node.fwdActive, Node.marksDiffer] using this
  | compo id rid inj h st a r q m s =>
    simp only [Node.NoMarks] at hn
    obtain ⟨hq, hm, -⟩ := hn
    subst hq; subst hm
    simp only [Node.mark]
    generalize s.markAt i rest = res
    obtain ⟨s', ph⟩ := res
    cases ph
    · cases a <;> simp [Node.fwdActive, Node.marksDiffer]
    · dsimp only
      split <;> cases a <;> simp [Node.fwdActive, Node.marksDiffer]
    · cases a <;> simp [Node.fwdActive, Node.marksDiffer]

mutual
/-- equal up to marks and equal marks: equal -/
theorem C02.Node.eq_of_marksSame : (x n : Node) → x.clearMarks = n.clearMarks → x.marksDiffer n = false → x = n
  | .leaf id inj, n, hc, _ => by
    cases n <;> simp only [Node.clearMarks, reduceCtorEq] at hc
    simp only [Node.leaf.injEq] at hc ⊢; exact hc
  | .compo id rid inj h st a r q m s, n, hc, hd => by
    cases n with
    | leaf => simp only [Node.clearMarks, reduceCtorEq] at hc
    | ortho => simp only [Node.clearMarks, reduceCtorEq] at hc
    | compo id' rid' inj' h' st' a' r' q' m' s' =>
      simp only [Node.clearMarks, Node.compo.injEq, true_and] at hc
      obtain ⟨rfl, rfl, rfl, rfl, rfl, rfl, rfl, hs⟩ := hc
      simp only [Node.marksDiffer, Bool.or_eq_false_iff, bne_eq_false_iff_eq] at hd
      obtain ⟨⟨rfl, rfl⟩, hs'⟩ := hd
      rw [C02.Subs.eq_of_marksSame s s' hs hs']
  | .ortho id rid inj h s, n, hc, hd => by
    cases n with
    | leaf => simp only [Node.clearMarks, reduceCtorEq] at hc
    | compo => simp only [Node.clearMarks, reduceCtorEq] at hc
    | ortho id' rid' inj' h' s' =>
      simp only [Node.clearMarks, Node.ortho.injEq] at hc
      obtain ⟨rfl, rfl, rfl, rfl, hs⟩ := hc
      simp only [Node.marksDiffer] at hd
      rw [C02.Subs.eq_of_marksSame s s' hs hd]
theorem C02.Subs.eq_of_marksSame : (x s : Subs) → x.clearMarks = s.clearMarks → x.marksDiffer s = false → x = s
  | .nil, s, hc, _ => by
    cases s with
    | nil => rfl
    | cons => simp only [Subs.clearMarks, reduceCtorEq] at hc
  | .cons b n r, s, hc, hd => by
    cases s with
    | nil => simp only [Subs.clearMarks, reduceCtorEq] at hc
    | cons b' n' r' =>
      simp only [Subs.clearMarks, Subs.cons.injEq, true_and] at hc
      simp only [Subs.marksDiffer, Bool.or_eq_false_iff, bne_eq_false_iff_eq] at hd
      obtain ⟨⟨rfl, hn⟩, hr⟩ := hd
      rw [C02.Node.eq_of_marksSame n n' hc.1 hn, C02.Subs.eq_of_marksSame r r' hc.2 hr]
end

namespace Mach

/-- `applyRequest` of one request of any kind other than `schedule`: the tree is `Sim` the pure tree
for every oracle that agrees with the answers the request consumes. -/
theorem C02.applyRequest_sim (ans : Nat → Nat) (m : Mach U) (t : Transition) (idx : Nat)
    (hk : t.kind ≠ .schedule) (ha : Agrees ans (m.answersOp t)) :
    (m.applyRequest t idx).root.Sim
      (if t.dest = 0 then m.root.requestR ans t.kind
       else match m.root.pathTo t.dest with
        | none => m.root
        | some p => (m.root.mark p).1.fwdActiveR ans t.kind) := by
  unfold answersOp Node.answersTo at ha
  unfold applyRequest
  split
  · rename_i h; exact absurd h hk
  · split
    · rename_i h0
      simp only [h0, ↓reduceIte] at ha
      simp only
      exact Node.request_sim ans m.root ⟨t.kind, some idx⟩ _ m.w.sig ⟨rfl, rfl⟩ ha
    · rename_i h0
      simp only [h0, ↓reduceIte] at ha
      split
      · rename_i hp
        simp only [hp]
        exact C02.Node.sim_refl _
      · rename_i p hp
        simp only [hp] at ha ⊢
        exact Node.fwdActive_sim ans (m.root.mark p).1 ⟨t.kind, some idx⟩ _ m.w.sig ⟨rfl, rfl⟩ ha

/-- the tree the guards of the single round see -/
theorem C02.atGuards_sim (ans : Nat → Nat) (m : Mach U) (t : Transition) (p : List Nat)
    (hq : m.w.requests = [t]) (hk : t.kind ≠ .schedule) (hd : t.dest < m.w.cfg.stateCount)
    (hp : m.root.pathTo t.dest = some p) (ha : Agrees ans (m.answersOp t)) :
    m.atGuards.root.Sim
      (if t.dest = 0 then m.root.requestR ans t.kind else (m.root.mark p).1.fwdActiveR ans t.kind) := by
  have h1 : m.atGuards.root =
      (Mach.applyAll { m with w := m.w.clearTargets.freshControl } [t] 0).root := by
    unfold Mach.atGuards; rw [hq]
  have hd' : t.dest < (m.w.clearTargets.freshControl).cfg.stateCount := by
    have : (m.w.clearTargets.freshControl).cfg = m.w.cfg := C02.World.clearTargets_cfg _
    rw [this]; exact hd
  have ha' : Agrees ans (Mach.answersOp { m with w := m.w.clearTargets.freshControl } t) := by
    have : (m.w.clearTargets.freshControl).sig = m.w.sig := C02.World.sig_clearTargets m.w
    unfold Mach.answersOp at ha ⊢
    simp only [this]; exact ha
  have := C02.applyRequest_sim ans { m with w := m.w.clearTargets.freshControl } t 0 hk ha'
  rw [h1, Mach.C02.applyAll_single _ _ hd']
  simpa only [hp] using this

/-- One approved request of ANY kind (other than `schedule`): the step yields the specified
configuration for every oracle that agrees with the answers the request consumes. -/
theorem C02.processRequest_answered_op (ans : Nat → Nat) (m : Mach U) (t : Transition) (p : List Nat)
    (hS : m.root.Settled) (hid : m.root.id = 0)
    (hq : m.w.requests = [t]) (hk : t.kind ≠ .schedule) (hd : t.dest < m.w.cfg.stateCount)
    (hp : m.root.pathTo t.dest = some p) (hl : 0 < m.w.cfg.substitutionLimit)
    (ha : Agrees ans (m.answersOp t)) (hu : m.Unvetoed)
    (hE : p = [] ∨ m.root.hasCompo p = true) :
    m.processRequest.root = m.root.spec ans t.kind p := by
  obtain ⟨-, hAct, hNM, -⟩ := hS
  have hne : m.w.requests ≠ [] := by rw [hq]; exact List.cons_ne_nil _ _
  have hv := Hfsm.C02.Node.pathTo_valid m.root t.dest p hp
  have hsim := C02.atGuards_sim ans m t p hq hk hd hp ha
  -- equal up to marks
  have hcl : m.atGuards.root.clearMarks = m.root.clearMarks := by
    rw [Hfsm.C02.Node.sim_clearMarks _ _ hsim]
    split
    · exact Hfsm.C02.Node.clearMarks_requestR ans t.kind m.root
    · rw [Hfsm.C02.Node.clearMarks_fwdActiveR, Hfsm.C02.Node.clearMarks_mark]
  -- whether or not the marks differ, the step is the commit pass on the marks, cleared
  have key : m.processRequest.root = m.atGuards.root.commitR.clearMarks := by
    cases hdf : m.atGuards.root.marksDiffer m.root with
    | true => exact Mach.C02.processRequest_root_differ m hne hl hdf hu
    | false =>
      have he : m.atGuards.root = m.root := Hfsm.C02.Node.eq_of_marksSame _ _ hcl hdf
      rw [Mach.C02.processRequest_root_same m hne hl hdf, he, Hfsm.C02.Node.commitR_id m.root hAct hNM]
  rw [key, Hfsm.C02.Node.sim_commitR _ _ hsim]
  cases p with
  | nil =>
    have hd0 : t.dest = 0 := by rw [← hid]; exact ((Hfsm.C02.Node.pathTo_nil_iff m.root t.dest).1 hp).symm
    simp only [hd0, ↓reduceIte]
    rw [Hfsm.C02.Node.spec_nil, ← Hfsm.C02.Node.reenter_request ans t.kind m.root hAct hNM,
      Hfsm.C02.Node.commit_request ans t.kind _ hNM]
  | cons i rest =>
    have hc : m.root.hasCompo (i :: rest) = true := by
      rcases hE with hE | hE
      · cases hE
      · exact hE
    have hd0 : t.dest ≠ 0 := by
      intro e
      have := (Hfsm.C02.Node.pathTo_nil_iff m.root t.dest).2 (by rw [hid, e])
      rw [hp] at this
      cases this
    simp only [hd0, ↓reduceIte]
    exact Hfsm.C02.Node.commit_mark ans t.kind m.root _ hAct hNM hv hc


/-! ### the oracle read off the streams -/

end Mach

theorem C02.Node.size_clearMarks (n : Node) : n.clearMarks.size = n.size := by
  rw [C02.Node.clearMarks_eq_view, Node.view_size]

mutual
theorem C02.Node.idsFrom_clearMarks : (n : Node) → (k : Nat) → (n.clearMarks.IdsFrom k ↔ n.IdsFrom k)
  | .leaf .., _ => Iff.rfl
  | .compo id rid inj h st a r q m s, k => by
    simp only [Node.clearMarks, Node.IdsFrom, C02.Subs.idsFrom_clearMarks s]
  | .ortho id rid inj h s, k => by
    simp only [Node.clearMarks, Node.IdsFrom, C02.Subs.idsFrom_clearMarks s]
theorem C02.Subs.idsFrom_clearMarks : (s : Subs) → (k : Nat) → (s.clearMarks.IdsFrom k ↔ s.IdsFrom k)
  | .nil, _ => Iff.rfl
  | .cons b n r, k => by
    simp only [Subs.clearMarks, Subs.IdsFrom, C02.Node.size_clearMarks n, C02.Node.idsFrom_clearMarks n,
      C02.Subs.idsFrom_clearMarks r]
end

theorem C02.Node.idsFrom_of_clearMarks_eq {x n : Node} (h : x.clearMarks = n.clearMarks) (k : Nat)
    (hi : n.IdsFrom k) : x.IdsFrom k := by
  rw [← C02.Node.idsFrom_clearMarks, h, C02.Node.idsFrom_clearMarks]; exact hi

theorem C02.Node.size_of_clearMarks_eq {x n : Node} (h : x.clearMarks = n.clearMarks) : x.size = n.size := by
  rw [← C02.Node.size_clearMarks x, h, C02.Node.size_clearMarks]

/-- on a numbered tree each region is listed at most once -/
theorem Node.answersTo_within (root : Node) (t : Transition) (σ : Sig U) (hI : root.IdsFrom 0) :
    (root.answersTo t σ).Within 0 (0 + root.size) := by
  unfold Node.answersTo
  split
  · exact Node.requestCh_within root t.kind σ 0 hI
  · split
    · rename_i p hp
      have hc := C02.Node.clearMarks_mark root p
      rw [← C02.Node.size_of_clearMarks_eq hc]
      exact Node.fwdActiveCh_within _ t.kind σ 0 (C02.Node.idsFrom_of_clearMarks_eq hc 0 hI)
    · exact within_nil _ _

namespace Mach

/-- the world in which the guards of the first round run has met no contract violation: then no
resolution of the request failed -/
theorem C02.answers_noFail_op (m : Mach U) (t : Transition) (hq : m.w.requests = [t]) (hk : t.kind ≠ .schedule)
    (hd : t.dest < m.w.cfg.stateCount) (he : m.atGuards.w.err = none) : NoFail (m.answersOp t) := by
  have hd' : t.dest < (m.w.clearTargets.freshControl).cfg.stateCount := by
    have : (m.w.clearTargets.freshControl).cfg = m.w.cfg := C02.World.clearTargets_cfg _
    rw [this]; exact hd
  have h1 : m.atGuards.w.err =
      (Mach.applyRequest { m with w := m.w.clearTargets.freshControl } t 0).w.err := by
    unfold Mach.atGuards; rw [hq]; dsimp only; rw [Mach.C02.applyAll_single _ t hd']
  rw [h1] at he
  have hσ : (m.w.clearTargets.freshControl).sig = m.w.sig := Hfsm.C02.World.sig_clearTargets m.w
  unfold Mach.answersOp Node.answersTo
  rw [← hσ]
  generalize m.w.clearTargets.freshControl = w0 at he ⊢
  unfold applyRequest at he
  split at he
  · rename_i hk'; exact absurd hk' hk
  · split at he
    · rename_i h0
      simp only [h0, ↓reduceIte]
      exact Node.request_noFail m.root ⟨t.kind, some 0⟩ (w0.snapshot m.root true false) w0.sig ⟨rfl, rfl⟩ he
    · rename_i h0
      simp only [h0, ↓reduceIte]
      split at he
      · rename_i hp; simp only [hp]; exact noFail_nil
      · rename_i p hp
        simp only [hp]
        exact Node.fwdActive_noFail (m.root.mark p).1 ⟨t.kind, some 0⟩ (w0.snapshot m.root true false) w0.sig ⟨rfl, rfl⟩ he


/-- the first violation is kept from the first round on -/
theorem C02.rounds_errLe_first (fuel : Nat) (m : Mach U) (backup : Node) (cur : List Transition)
    (hq : m.w.requests ≠ []) :
    World.ErrLe (m.applyAll m.w.requests 0).w (rounds false (fuel+1) m backup cur).1.w := by
  unfold rounds
  simp only [C02.isEmpty_false_of_ne hq, Bool.false_eq_true, ↓reduceIte]
  generalize m.applyAll m.w.requests 0 = m1
  split
  · have h2 := approvedByGuards_errLe ({ m1 with w := { m1.w with requests := [] } }) cur m.w.requests
    generalize ({ m1 with w := { m1.w with requests := [] } } : Mach U).approvedByGuards cur m.w.requests = res at h2 ⊢
    obtain ⟨m3, ok⟩ := res
    dsimp only at h2 ⊢
    split
    · exact World.ErrLe.trans h2 (rounds_errLe false fuel _ _ _)
    · refine World.ErrLe.trans h2 (World.ErrLe.trans ?_ (rounds_errLe false fuel _ _ _))
      intro h; simpa using h
  · exact World.ErrLe.trans (fun h => h) (rounds_errLe false fuel _ _ _)

/-- no contract violation after the step: none when the guards of the first round ran -/
theorem C02.atGuards_err_of_processRequest (m : Mach U) (hq : m.w.requests ≠ [])
    (hl : 0 < m.w.cfg.substitutionLimit) (he : m.processRequest.w.err = none) : m.atGuards.w.err = none := by
  have hne := C02.isEmpty_false_of_ne hq
  obtain ⟨fuel, hf⟩ : ∃ f, m.w.cfg.substitutionLimit = f + 1 := ⟨_, (Nat.succ_pred_eq_of_pos hl).symm⟩
  have hq0 : (m.w.clearTargets.freshControl).requests = m.w.requests := C02.World.clearTargets_requests _
  have hc0 : (m.w.clearTargets.freshControl).cfg = m.w.cfg := C02.World.clearTargets_cfg _
  have h1 : (rounds false (fuel + 1) { m with w := m.w.clearTargets.freshControl } m.root []).1.w.err = none := by
    revert he
    unfold processRequest
    simp only [C02.World.clearTargets_requests, hne, Bool.false_eq_true, ↓reduceIte, hc0, hf]
    split
    · intro h; simpa only [updateActivity] using h
    · intro h
      simp only [updateActivity] at h
      have := (Node.commit_ext _ _).err h
      simpa using this
  have h2 := C02.rounds_errLe_first fuel { m with w := m.w.clearTargets.freshControl } m.root []
    (by rw [hq0]; exact hq) h1
  unfold atGuards
  simpa only [hq0] using h2

/-- On a tree numbered in pre-order, if the step met no contract violation, the oracle read off the
streams agrees with every answer the request consumed. -/
theorem C02.agrees_ansOf_op (m : Mach U) (t : Transition) (hI : m.root.IdsFrom 0)
    (hq : m.w.requests = [t]) (hk : t.kind ≠ .schedule) (hd : t.dest < m.w.cfg.stateCount)
    (he : m.atGuards.w.err = none) : Agrees (m.answersOp t).toAns (m.answersOp t) :=
  agrees_toAns _ 0 _ (Node.answersTo_within m.root t m.w.sig hI) (C02.answers_noFail_op m t hq hk hd he)


end Mach

/-! ### answer-free requests consume no answers -/

mutual
theorem Node.requestCh_answerFree : (n : Node) → (k : Kind) → (σ : Sig U) → AnswerFree k n → n.requestCh k σ = []
  | .leaf .., _, _, _ => by simp only [Node.requestCh]
  | .ortho id rid inj h s, k, σ, hf => by
    simp only [Node.requestCh]; exact Subs.requestChAll_answerFree s k σ hf.ortho
  | .compo id rid inj h st a r q m s, k, σ, hf => by
    obtain ⟨hs, hk⟩ := hf.compo
    rcases hk with hk | hk
    · simp only [Node.requestCh, hk]; exact Subs.requestChAt_answerFree s 0 k σ hs
    · simp only [Node.requestCh, hk]; exact Subs.requestChAt_answerFree s _ k σ hs
theorem Subs.requestChAt_answerFree : (s : Subs) → (i : Nat) → (k : Kind) → (σ : Sig U) → AnswerFreeS k s →
    s.requestChAt i k σ = []
  | .nil, _, _, _, _ => by simp only [Subs.requestChAt]
  | .cons b n r, 0, k, σ, hf => by simp only [Subs.requestChAt]; exact Node.requestCh_answerFree n k σ hf.cons.1
  | .cons b n r, i+1, k, σ, hf => by simp only [Subs.requestChAt]; exact Subs.requestChAt_answerFree r i k σ hf.cons.2
theorem Subs.requestChAll_answerFree : (s : Subs) → (k : Kind) → (σ : Sig U) → AnswerFreeS k s →
    s.requestChAll k σ = []
  | .nil, _, _, _ => by simp only [Subs.requestChAll]
  | .cons b n r, k, σ, hf => by
    simp only [Subs.requestChAll, Node.requestCh_answerFree n k σ hf.cons.1,
      Subs.requestChAll_answerFree r k _ hf.cons.2, List.append_nil]
end

mutual
theorem Node.fwdRequestCh_answerFree : (n : Node) → (k : Kind) → (σ : Sig U) → AnswerFree k n →
    n.fwdRequestCh k σ = []
  | .leaf .., _, _, _ => by simp only [Node.fwdRequestCh]
  | .compo id rid inj h st a r (some qi) m s, k, σ, hf => by
    simp only [Node.fwdRequestCh]; exact Subs.fwdRequestChAt_answerFree s qi k σ hf.compo.1
  | .compo id rid inj h st a r none m s, k, σ, hf => by
    simp only [Node.fwdRequestCh]; exact Node.requestCh_answerFree _ k σ hf
  | .ortho id rid inj h s, k, σ, hf => by
    simp only [Node.fwdRequestCh]
    split
    · exact Subs.fwdRequestChAll_answerFree s k σ hf.ortho
    · exact Node.requestCh_answerFree _ k σ hf
theorem Subs.fwdRequestChAt_answerFree : (s : Subs) → (i : Nat) → (k : Kind) → (σ : Sig U) → AnswerFreeS k s →
    s.fwdRequestChAt i k σ = []
  | .nil, _, _, _, _ => by simp only [Subs.fwdRequestChAt]
  | .cons b n r, 0, k, σ, hf => by
    simp only [Subs.fwdRequestChAt]; exact Node.fwdRequestCh_answerFree n k σ hf.cons.1
  | .cons b n r, i+1, k, σ, hf => by
    simp only [Subs.fwdRequestChAt]; exact Subs.fwdRequestChAt_answerFree r i k σ hf.cons.2
theorem Subs.fwdRequestChAll_answerFree : (s : Subs) → (k : Kind) → (σ : Sig U) → AnswerFreeS k s →
    s.fwdRequestChAll k σ = []
  | .nil, _, _, _ => by simp only [Subs.fwdRequestChAll]
  | .cons b n r, k, σ, hf => by
    simp only [Subs.fwdRequestChAll, Node.fwdRequestCh_answerFree n k σ hf.cons.1,
      Subs.fwdRequestChAll_answerFree r k _ hf.cons.2, List.append_nil]
end

mutual
theorem Node.fwdActiveCh_answerFree : (n : Node) → (k : Kind) → (σ : Sig U) → AnswerFree k n →
    n.fwdActiveCh k σ = []
  | .leaf .., _, _, _ => by simp only [Node.fwdActiveCh]
  | .compo id rid inj h st a r (some qi) m s, k, σ, hf => by
    simp only [Node.fwdActiveCh]; exact Subs.fwdRequestChAt_answerFree s qi k σ hf.compo.1
  | .compo id rid inj h st (some ai) r none m s, k, σ, hf => by
    simp only [Node.fwdActiveCh]; exact Subs.fwdActiveChAt_answerFree s ai k σ hf.compo.1
  | .compo id rid inj h st none r none m s, k, σ, hf => by simp only [Node.fwdActiveCh]
  | .ortho id rid inj h s, k, σ, hf => by
    simp only [Node.fwdActiveCh]; exact Subs.fwdActiveChBits_answerFree s k σ hf.ortho
theorem Subs.fwdActiveChAt_answerFree : (s : Subs) → (i : Nat) → (k : Kind) → (σ : Sig U) → AnswerFreeS k s →
    s.fwdActiveChAt i k σ = []
  | .nil, _, _, _, _ => by simp only [Subs.fwdActiveChAt]
  | .cons b n r, 0, k, σ, hf => by
    simp only [Subs.fwdActiveChAt]; exact Node.fwdActiveCh_answerFree n k σ hf.cons.1
  | .cons b n r, i+1, k, σ, hf => by
    simp only [Subs.fwdActiveChAt]; exact Subs.fwdActiveChAt_answerFree r i k σ hf.cons.2
theorem Subs.fwdActiveChBits_answerFree : (s : Subs) → (k : Kind) → (σ : Sig U) → AnswerFreeS k s →
    s.fwdActiveChBits k σ = []
  | .nil, _, _, _ => by simp only [Subs.fwdActiveChBits]
  | .cons b n r, k, σ, hf => by
    simp only [Subs.fwdActiveChBits]
    split
    · simp only [Node.fwdActiveCh_answerFree n k σ hf.cons.1, Subs.fwdActiveChBits_answerFree r k _ hf.cons.2,
        List.append_nil]
    · exact Subs.fwdActiveChBits_answerFree r k σ hf.cons.2
end

/-- an answer-free request consumes no answer: every oracle agrees -/
theorem Node.answersTo_answerFree (root : Node) (t : Transition) (σ : Sig U) (hf : AnswerFree t.kind root) :
    root.answersTo t σ = [] := by
  unfold Node.answersTo
  split
  · exact Node.requestCh_answerFree root t.kind σ hf
  · split
    · rename_i p hp; exact Node.fwdActiveCh_answerFree _ t.kind σ (hf.mark p)
    · rfl

namespace Mach

/-- On a settled tree the declarative list is the list of the operational passes. -/
theorem C02.answers_eq_op (m : Mach U) (t : Transition) (p : List Nat)
    (hAct : m.root.Act) (hNM : m.root.NoMarks) (hid : m.root.id = 0)
    (hp : m.root.pathTo t.dest = some p) (hE : p = [] ∨ m.root.hasCompo p = true) :
    m.answers t = m.answersOp t := by
  have hv := Hfsm.C02.Node.pathTo_valid m.root t.dest p hp
  unfold Mach.answers Mach.answersOp Node.answersTo
  simp only [hp]
  cases p with
  | nil =>
    have hd0 : t.dest = 0 := by rw [← hid]; exact ((Hfsm.C02.Node.pathTo_nil_iff m.root t.dest).1 hp).symm
    simp only [hd0, ↓reduceIte, Hfsm.C02.Node.specCh_nil]
  | cons i rest =>
    have hc : m.root.hasCompo (i :: rest) = true := by
      rcases hE with hE | hE
      · cases hE
      · exact hE
    have hd0 : t.dest ≠ 0 := by
      intro e
      have := (Hfsm.C02.Node.pathTo_nil_iff m.root t.dest).2 (by rw [hid, e])
      rw [hp] at this
      cases this
    simp only [hd0, ↓reduceIte]
    exact (Hfsm.C02.Node.fwdActiveCh_mark t.kind m.root (i :: rest) m.w.sig hAct hNM hv hc).symm

/-- One approved request of ANY kind (other than `schedule`): the step yields the specified
configuration for every oracle that agrees with the answers the request consumes. -/
theorem C02.processRequest_answered (ans : Nat → Nat) (m : Mach U) (t : Transition) (p : List Nat)
    (hS : m.root.Settled) (hid : m.root.id = 0)
    (hq : m.w.requests = [t]) (hk : t.kind ≠ .schedule) (hd : t.dest < m.w.cfg.stateCount)
    (hp : m.root.pathTo t.dest = some p) (hl : 0 < m.w.cfg.substitutionLimit)
    (ha : Agrees ans (m.answers t)) (hu : m.Unvetoed)
    (hE : p = [] ∨ m.root.hasCompo p = true) :
    m.processRequest.root = m.root.spec ans t.kind p := by
  rw [C02.answers_eq_op m t p hS.2.1 hS.2.2.1 hid hp hE] at ha
  exact C02.processRequest_answered_op ans m t p hS hid hq hk hd hp hl ha hu hE

theorem C02.answers_noFail (m : Mach U) (t : Transition) (p : List Nat)
    (hS : m.root.Settled) (hid : m.root.id = 0) (hq : m.w.requests = [t]) (hk : t.kind ≠ .schedule)
    (hd : t.dest < m.w.cfg.stateCount) (hp : m.root.pathTo t.dest = some p)
    (hE : p = [] ∨ m.root.hasCompo p = true) (he : m.atGuards.w.err = none) : NoFail (m.answers t) := by
  rw [C02.answers_eq_op m t p hS.2.1 hS.2.2.1 hid hp hE]
  exact C02.answers_noFail_op m t hq hk hd he

theorem C02.answers_within (m : Mach U) (t : Transition) (p : List Nat)
    (hS : m.root.Settled) (hI : m.root.IdsFrom 0) (hp : m.root.pathTo t.dest = some p)
    (hE : p = [] ∨ m.root.hasCompo p = true) : (m.answers t).Within 0 (0 + m.root.size) := by
  rw [C02.answers_eq_op m t p hS.2.1 hS.2.2.1 (Node.IdsFrom.id_eq hI) hp hE]
  exact Node.answersTo_within m.root t m.w.sig hI

theorem C02.agrees_ansOf (m : Mach U) (t : Transition) (p : List Nat)
    (hS : m.root.Settled) (hI : m.root.IdsFrom 0)
    (hq : m.w.requests = [t]) (hk : t.kind ≠ .schedule) (hd : t.dest < m.w.cfg.stateCount)
    (hp : m.root.pathTo t.dest = some p) (hE : p = [] ∨ m.root.hasCompo p = true)
    (he : m.atGuards.w.err = none) : Agrees (m.ansOf t) (m.answers t) :=
  agrees_toAns _ 0 _ (C02.answers_within m t p hS hI hp hE)
    (C02.answers_noFail m t p hS (Node.IdsFrom.id_eq hI) hq hk hd hp hE he)

theorem C02.answers_answerFree (m : Mach U) (t : Transition) (p : List Nat)
    (hS : m.root.Settled) (hid : m.root.id = 0) (hp : m.root.pathTo t.dest = some p)
    (hE : p = [] ∨ m.root.hasCompo p = true) (hf : AnswerFree t.kind m.root) : m.answers t = [] := by
  rw [C02.answers_eq_op m t p hS.2.1 hS.2.2.1 hid hp hE]
  exact Node.answersTo_answerFree m.root t m.w.sig hf


/-- whatever the kind (other than `schedule`) and whatever user code answers, applying a request only
writes request marks -/
theorem C02.applyRequest_clearMarks (m : Mach U) (t : Transition) (idx : Nat) (hk : t.kind ≠ .schedule) :
    (m.applyRequest t idx).root.clearMarks = m.root.clearMarks := by
  unfold applyRequest
  split
  · rename_i h; exact absurd h hk
  · split
    · simp only
      exact Hfsm.C02.Node.clearMarks_request m.root _ _
    · split
      · rfl
      · rename_i p hp
        simp only
        rw [Hfsm.C02.Node.clearMarks_fwdActive, Hfsm.C02.Node.clearMarks_mark]

theorem C02.atGuards_clearMarks (m : Mach U) (t : Transition) (hq : m.w.requests = [t]) (hk : t.kind ≠ .schedule)
    (hd : t.dest < m.w.cfg.stateCount) : m.atGuards.root.clearMarks = m.root.clearMarks := by
  have h1 : m.atGuards.root =
      (Mach.applyAll { m with w := m.w.clearTargets.freshControl } [t] 0).root := by
    unfold Mach.atGuards; rw [hq]
  have hd' : t.dest < (m.w.clearTargets.freshControl).cfg.stateCount := by
    have : (m.w.clearTargets.freshControl).cfg = m.w.cfg := C02.World.clearTargets_cfg _
    rw [this]; exact hd
  rw [h1, Mach.C02.applyAll_single _ _ hd']
  exact C02.applyRequest_clearMarks { m with w := m.w.clearTargets.freshControl } t 0 hk

end Mach
end Hfsm
