/-
The public API of an instance as a data type, so that properties can quantify over *operation
sequences*: `Api.step` dispatches to the operations of Model/Machine.lean, `Api.run` folds it.
User callbacks and the generator are not part of an operation: they are the streams `w.ds` / `w.rng`
carried by the instance, universally quantified in every theorem.
-/
import Hfsm.Proofs.WorldRelMach

namespace Hfsm.Api
variable {U : Type} [UtilArith U]

/-- One call of the instance API (`save` is absent: it is a pure function of the instance). -/
inductive Op
  | enter | exit | update | react | query | reset
  | request (k : Kind) (dest : Nat) (payload : Option Nat)
  | immediate (k : Kind) (dest : Nat) (payload : Option Nat)
  | setTask (sid : Nat) (ok : Bool)
  | planAppend (rid : Nat) (t : Task)
  | planClear (rid : Nat)
  | load (bits : List Bool)
  | replay (ts : List Transition)
  | replayEnter (ts : List Transition)
  deriving Repr

def step (m : Mach U) : Op → Mach U
  | .enter => m.initialEnter
  | .exit => m.finalExit
  | .update => m.update
  | .react => m.react
  | .query => m.query
  | .reset => m.reset
  | .request k d p => m.request k d p
  | .immediate k d p => m.immediate k d p
  | .setTask s ok => m.setTask s ok
  | .planAppend r t => m.planAppend r t
  | .planClear r => m.planClear r
  | .load b => m.load b
  | .replay ts => (m.replayTransitions ts).1
  | .replayEnter ts => (m.replayEnter ts).1

def run (m : Mach U) (ops : List Op) : Mach U := ops.foldl step m

/-- Construction: an automatic instance is activated by its constructor. `ds`/`rng` are everything the
user callbacks will decide and everything the generator will yield during the instance's life. -/
def boot (shape : Shape) (cfg : Config) (ds : List (Decision U)) (rng : List U) : Mach U :=
  let m : Mach U := Mach.create shape cfg
  let m := { m with w := { m.w with ds := ds, rng := rng } }
  if cfg.manual then m else m.initialEnter

theorem run_nil (m : Mach U) : run m [] = m := rfl
theorem run_cons (m : Mach U) (o : Op) (os : List Op) : run m (o :: os) = run (step m o) os := rfl
theorem run_append (m : Mach U) (a b : List Op) : run m (a ++ b) = run (run m a) b := by
  simp [run, List.foldl_append]

end Hfsm.Api

namespace Hfsm.WRel
variable {U : Type} [UtilArith U] {R : World U → World U → Prop} (hR : WRel R)
include hR

theorem step (m : Mach U) (o : Api.Op) : R m.w (Api.step m o).w := by
  cases o <;> simp only [Api.step]
  · exact hR.mach_initialEnter _
  · exact hR.mach_finalExit _
  · exact hR.mach_update _
  · exact hR.mach_react _
  · exact hR.mach_query _
  · exact hR.mach_reset _
  · exact hR.mach_request ..
  · exact hR.mach_immediate ..
  · exact hR.mach_setTask ..
  · exact hR.mach_planAppend ..
  · exact hR.mach_planClear ..
  · exact hR.mach_load ..
  · exact hR.mach_replayTransitions ..
  · exact hR.mach_replayEnter ..

theorem run (ops : List Api.Op) : (m : Mach U) → R m.w (Api.run m ops).w := by
  induction ops with
  | nil => intro m; exact hR.refl _
  | cons o os ih => intro m; exact hR.trans (hR.step m o) (ih _)

end Hfsm.WRel
