/-
Iteration, the abstraction function, `clearTasks` and the remove-while-iterating loop.
-/
import Hfsm.Proofs.PlanSim

namespace Hfsm.Model

variable {cap nreg : Nat} {pd : PlanData} {pg : PG}

/-! ### Abstraction -/

/-- Contents of slot `i` according to the ghost state (default item for a dead slot). -/
def taskAt (pg : PG) (i : Nat) : Item := (pg.g.live i).getD Item.dflt

/-- The tasks of region `r`, by ghost state, position by position. -/
def absL (pg : PG) (r : Nat) : List Item := (pg.L r).map (taskAt pg)

theorem filterMap_eq_map {α β : Type} {f : α → Option β} {g : α → β} :
    ∀ {l : List α}, (∀ i ∈ l, f i = some (g i)) → l.filterMap f = l.map g
  | [], _ => rfl
  | a :: t, h => by
    rw [List.filterMap_cons, h a List.mem_cons_self, List.map_cons,
      filterMap_eq_map (fun i hi => h i (List.mem_cons_of_mem _ hi))]

theorem length_le_sumLen (L : Nat → List Nat) : ∀ {n r : Nat}, r < n → (L r).length ≤ sumLen n L
  | n + 1, r, h => by
    simp only [sumLen]
    by_cases e : r = n
    · subst e; omega
    · have := length_le_sumLen L (n := n) (r := r) (by omega); omega

theorem PlanRep.length_le (h : PlanRep cap nreg pd pg) {r : Nat} (hr : r < nreg) :
    (pg.L r).length ≤ cap := by
  have := length_le_sumLen pg.L hr
  have := h.total
  have := h.pool.count_le
  omega

/-- Following `taskBounds[r].first` through `taskLinks[·].next` visits exactly the ghost list. -/
theorem chain_eq (h : PlanRep cap nreg pd pg) {r : Nat} (hr : r < nreg) : pd.chain r = pg.L r := by
  simp only [PlanData.chain, h.bnd r hr, h.cap_eq]
  exact walk_DL h.cap_eq h.pool.capLe (cap + 1) (h.dl r) (fun j hj => h.mem_lt hj)
    (by have := h.length_le hr; omega)

/-- The abstraction function computed on the concrete storage equals the ghost view. -/
theorem abs_eq (h : PlanRep cap nreg pd pg) {r : Nat} (hr : r < nreg) : pd.abs r = absL pg r := by
  simp only [PlanData.abs, chain_eq h hr, absL]
  apply filterMap_eq_map
  intro i hi
  obtain ⟨x, hx⟩ := h.live r i hi
  simp only [Pool.get, h.pool.cont i x hx, taskAt, hx, Option.getD_some]

/-! ### Iterators -/

/-- The iterator stands at position `k` of list `l` (`k = l.length`: past the end). -/
def IterAt (l : List Nat) (it : PlanIter) (k : Nat) : Prop :=
  it.curr = l[k]?.getD INVALID ∧ it.next = l[k + 1]?.getD INVALID

theorem nextOf_at (h : PlanRep cap nreg pd pg) (r k : Nat) :
    PlanIter.nextOf pd ((pg.L r)[k]?.getD INVALID) = some ((pg.L r)[k + 1]?.getD INVALID) := by
  have hcapI := h.pool.capLe
  by_cases hk : k < (pg.L r).length
  · have hlt : (pg.L r)[k] < cap := h.mem_lt (List.getElem_mem hk)
    have := DL.get (h.dl r) k hk
    simp only [List.getElem?_eq_getElem hk, Option.getD_some, PlanIter.nextOf, h.cap_eq, hlt,
      if_true, this, Option.map_some]
  · have h1 : (pg.L r)[k]? = none := List.getElem?_eq_none (by omega)
    have h2 : (pg.L r)[k + 1]? = none := List.getElem?_eq_none (by omega)
    have : ¬ INVALID < cap := by omega
    simp [h1, h2, PlanIter.nextOf, h.cap_eq, this]

/-- `begin()` stands at position 0. -/
theorem begin_at (h : PlanRep cap nreg pd pg) {r : Nat} (hr : r < nreg) :
    ∃ it, PlanIter.begin pd r = some it ∧ IterAt (pg.L r) it 0 := by
  have hn := nextOf_at h r 0
  have hb := h.bnd r hr
  have e : (pg.L r).head?.getD INVALID = (pg.L r)[0]?.getD INVALID := by
    rw [List.head?_eq_getElem?]
  refine ⟨⟨(pg.L r)[0]?.getD INVALID, (pg.L r)[0 + 1]?.getD INVALID⟩, ?_, rfl, rfl⟩
  simp only [PlanIter.begin, hb, e, hn, Option.map_some]

/-- `operator bool` of an iterator at position `k`: true exactly while `k` is inside the list. -/
theorem valid_iff (h : PlanRep cap nreg pd pg) {r : Nat} {it : PlanIter} {k : Nat}
    (hit : IterAt (pg.L r) it k) : it.valid pd = true ↔ k < (pg.L r).length := by
  have hcapI := h.pool.capLe
  simp only [PlanIter.valid, decide_eq_true_eq, h.cap_eq, hit.1]
  by_cases hk : k < (pg.L r).length
  · have hlt : (pg.L r)[k] < cap := h.mem_lt (List.getElem_mem hk)
    simp [hlt, hk]
  · have h1 : (pg.L r)[k]? = none := List.getElem?_eq_none (by omega)
    simp [hk]; omega

/-- `*it` at position `k` is the `k`-th task. -/
theorem deref_at (h : PlanRep cap nreg pd pg) {r : Nat} {it : PlanIter} {k : Nat}
    (hit : IterAt (pg.L r) it k) (hk : k < (pg.L r).length) :
    it.deref pd = some (taskAt pg (pg.L r)[k]) := by
  obtain ⟨x, hx⟩ := h.live r _ (List.getElem_mem hk)
  simp only [PlanIter.deref, hit.1, List.getElem?_eq_getElem hk, Option.getD_some, Pool.get,
    h.pool.cont _ x hx, taskAt, hx]

/-- `++it` when the saved `_next` is the slot at position `k` (or `INVALID` past the end). -/
theorem advance_to (h : PlanRep cap nreg pd pg) {r : Nat} {it : PlanIter} {k : Nat}
    (hnext : it.next = (pg.L r)[k]?.getD INVALID) :
    ∃ it', it.advance pd = some it' ∧ IterAt (pg.L r) it' k := by
  refine ⟨⟨(pg.L r)[k]?.getD INVALID, (pg.L r)[k + 1]?.getD INVALID⟩, ?_, rfl, rfl⟩
  simp only [PlanIter.advance, hnext, nextOf_at h r k, Option.map_some]

/-- `++it` moves from position `k` to `k + 1`. -/
theorem advance_at (h : PlanRep cap nreg pd pg) {r : Nat} {it : PlanIter} {k : Nat}
    (hit : IterAt (pg.L r) it k) :
    ∃ it', it.advance pd = some it' ∧ IterAt (pg.L r) it' (k + 1) :=
  advance_to h hit.2

theorem split_at (l : List Nat) {k : Nat} (hk : k < l.length) :
    l = l.take k ++ l[k] :: l.drop (k + 1) := by
  rw [← List.drop_eq_getElem_cons hk, List.take_append_drop]

/-- `it.remove()` at position `k < length`: defined, removes exactly the `k`-th element of region
`r`'s list, and a following `++it` stands at position `k` of the new list (the element that
followed the removed one). -/
theorem iter_remove_at (h : PlanRep cap nreg pd pg) {r : Nat} (hr : r < nreg) {it : PlanIter}
    {k : Nat} (hit : IterAt (pg.L r) it k) (hk : k < (pg.L r).length) :
    ∃ pd', it.remove pd r = some pd' ∧
      PlanRep cap nreg pd'
        { g := pg.g.remove (pg.L r)[k], L := updL pg.L r ((pg.L r).eraseIdx k) } ∧
      ∃ it', it.advance pd' = some it' ∧ IterAt ((pg.L r).eraseIdx k) it' k := by
  have hsplit := split_at (pg.L r) hk
  obtain ⟨pd', hrem, hrep⟩ := plan_remove_sim h hr hsplit
  rw [← List.eraseIdx_eq_take_drop_succ] at hrep
  refine ⟨pd', ?_, hrep, ?_⟩
  · simp only [PlanIter.remove, hit.1, List.getElem?_eq_getElem hk, Option.getD_some]
    exact hrem
  · have hnext : it.next = ((pg.L r).eraseIdx k)[k]?.getD INVALID := by
      rw [hit.2, List.getElem?_eraseIdx]; simp
    have := advance_to (r := r) hrep (it := it) (k := k) (by simpa using hnext)
    simpa using this

/-! ### clearTasks -/

theorem PlanRep.set_bounds_same (h : PlanRep cap nreg pd pg) {r : Nat} {v : Bounds}
    (hv : pd.bounds[r]? = some v) :
    PlanRep cap nreg { pd with bounds := pd.bounds.setIfInBounds r v } pg :=
  { h with
    bsize := by simp [h.bsize]
    bnd := by
      intro r' hr'
      show (pd.bounds.setIfInBounds r v)[r']? = _
      rw [Array.getElem?_setIfInBounds]
      by_cases e : r = r'
      · subst e
        have := lt_of_getElem?_some hv
        simp only [this, if_true]
        rw [← hv]; exact h.bnd r hr'
      · simp only [e, if_false]; exact h.bnd r' hr' }

/-- The loop of `clearTasks()`: removes the whole list, front to back. -/
theorem clearLoop_sim {r : Nat} (hr : r < nreg) :
    ∀ (l : List Nat) (fuel : Nat) (pd : PlanData) (pg : PG), PlanRep cap nreg pd pg → pg.L r = l →
      l.length < fuel →
      ∃ pd' pg', PlanData.clearLoop fuel pd r (l.head?.getD INVALID) = some pd' ∧
        PlanRep cap nreg pd' pg' ∧ (∀ r', pg'.L r' = updL pg.L r [] r') ∧
        (∀ j, j ∉ l → pg'.g.live j = pg.g.live j) ∧ (∀ j, j ∈ l → pg'.g.live j = none)
  | [], fuel + 1, pd, pg, h, hL, _ => by
    refine ⟨pd, pg, by simp [PlanData.clearLoop], h, ?_, fun _ _ => rfl, by simp⟩
    intro r'
    by_cases e : r' = r
    · subst e; simp [hL]
    · rw [updL_ne _ _ e]
  | a :: t, fuel + 1, pd, pg, h, hL, hf => by
    have hcapI := h.pool.capLe
    have ha : a < cap := h.mem_lt (r := r) (by rw [hL]; simp)
    have haI : a ≠ INVALID := by omega
    have hdl := h.dl r
    rw [hL] at hdl
    obtain ⟨pd1, hrem, hrep1⟩ := plan_remove_sim h hr (pre := []) (by simpa using hL)
    simp only [List.nil_append] at hrep1
    have hnd := h.nodup r
    rw [hL] at hnd
    have hnd' := List.nodup_cons.mp hnd
    obtain ⟨pd', pg', hloop, hrep', hLs, hl1, hl2⟩ :=
      clearLoop_sim hr t fuel pd1 _ hrep1 (by simp) (by simp at hf; omega)
    refine ⟨pd', pg', ?_, hrep', ?_, ?_, ?_⟩
    · simp only [List.head?_cons, Option.getD_some, PlanData.clearLoop, ne_eq, haI,
        not_false_eq_true, if_true, hdl.1, hrem]
      exact hloop
    · intro r'
      rw [hLs r']
      by_cases e : r' = r
      · subst e; simp
      · simp [updL_ne _ _ e]
    · intro j hj
      have hja : j ≠ a := fun e => hj (by simp [e])
      have hjt : j ∉ t := fun hm => hj (List.mem_cons_of_mem _ hm)
      rw [hl1 j hjt]
      exact Live.set_ne _ _ hja
    · intro j hj
      cases hj with
      | head => rw [hl1 a hnd'.1]; simp [G.remove]
      | tail _ hm => exact hl2 j hm

/-- `clearTasks()` (= storage effect of `Plan::clear()`): defined; empties exactly region `r`'s
list; frees exactly its slots; every other slot keeps its contents. -/
theorem clearTasks_sim (h : PlanRep cap nreg pd pg) {r : Nat} (hr : r < nreg) :
    ∃ pd' pg', pd.clearTasks r = some pd' ∧ PlanRep cap nreg pd' pg' ∧
      (∀ r', pg'.L r' = updL pg.L r [] r') ∧
      (∀ j, j ∉ pg.L r → pg'.g.live j = pg.g.live j) ∧ (∀ j, j ∈ pg.L r → pg'.g.live j = none) := by
  have hcapI := h.pool.capLe
  have hb := h.bnd r hr
  have hiff := head?_getD_lt (l := pg.L r) (cap := cap) (d := INVALID)
    (fun j hj => h.mem_lt hj) hcapI
  by_cases hL : pg.L r = []
  · have hnot : ¬ (pg.L r).head?.getD INVALID < cap := fun hh => (hiff.mp hh) hL
    refine ⟨pd, pg, ?_, h, ?_, fun _ _ => rfl, by simp [hL]⟩
    · simp only [PlanData.clearTasks, hb, h.cap_eq, hnot, if_false]
    · intro r'
      by_cases e : r' = r
      · subst e; simp [hL]
      · rw [updL_ne _ _ e]
  · have hlt := hiff.mpr hL
    obtain ⟨pd', pg', hloop, hrep', hLs, hl1, hl2⟩ :=
      clearLoop_sim hr (pg.L r) (cap + 1) pd pg h rfl (by have := h.length_le hr; omega)
    have hb' := hrep'.bnd r hr
    have hLr : pg'.L r = [] := by rw [hLs r]; simp
    rw [hLr] at hb'
    refine ⟨_, pg', ?_, hrep'.set_bounds_same (v := Bounds.dflt) (by simpa [Bounds.dflt] using hb'), hLs, hl1, hl2⟩
    simp only [PlanData.clearTasks, hb, h.cap_eq, hlt, if_true, hloop]

/-! ### The remove-while-iterating loop -/

/-- What is left of a list when the elements at (absolute) positions listed in `rm` are dropped;
the first element of the list has position `k`. -/
def keepFrom {α : Type} (k : Nat) (rm : List Nat) : List α → List α
  | [] => []
  | x :: xs => if k ∈ rm then keepFrom (k + 1) rm xs else x :: keepFrom (k + 1) rm xs

theorem keepFrom_subset {α : Type} {rm : List Nat} :
    ∀ {l : List α} {k : Nat} {j : α}, j ∈ keepFrom k rm l → j ∈ l
  | x :: xs, k, j, h => by
    simp only [keepFrom] at h
    split at h
    · exact List.mem_cons_of_mem _ (keepFrom_subset h)
    · cases h with
      | head => exact List.mem_cons_self
      | tail _ hm => exact List.mem_cons_of_mem _ (keepFrom_subset hm)

theorem keepFrom_map {α β : Type} (f : α → β) (rm : List Nat) :
    ∀ (l : List α) (k : Nat), (keepFrom k rm l).map f = keepFrom k rm (l.map f)
  | [], _ => rfl
  | x :: xs, k => by
    simp only [keepFrom, List.map_cons]
    split <;> simp [keepFrom_map f rm xs (k + 1)]

theorem keepFrom_nil_rm {α : Type} : ∀ (l : List α) (k : Nat), keepFrom k [] l = l
  | [], _ => rfl
  | x :: xs, k => by simp [keepFrom, keepFrom_nil_rm xs (k + 1)]

theorem iterLoop_sim {r : Nat} (hr : r < nreg) (rm : List Nat) :
    ∀ (rest kept : List Nat) (fuel k : Nat) (pd : PlanData) (pg : PG) (it : PlanIter),
      PlanRep cap nreg pd pg → pg.L r = kept ++ rest → IterAt (pg.L r) it kept.length →
      rest.length < fuel →
      ∃ pd' pg', PlanData.iterLoop fuel pd r it k rm = some (pd', rest.map (taskAt pg)) ∧
        PlanRep cap nreg pd' pg' ∧ pg'.L r = kept ++ keepFrom k rm rest ∧
        (∀ r', r' ≠ r → pg'.L r' = pg.L r') ∧
        (∀ j, j ∉ rest → pg'.g.live j = pg.g.live j) ∧
        (∀ j, j ∈ keepFrom k rm rest → pg'.g.live j = pg.g.live j)
  | [], kept, fuel + 1, k, pd, pg, it, h, hL, hit, _ => by
    have hv : it.valid pd = false := by
      have := valid_iff h hit
      rw [hL] at this
      simp only [List.append_nil, Nat.lt_irrefl, iff_false] at this
      simpa using this
    exact ⟨pd, pg, by simp [PlanData.iterLoop, hv], h, by simpa [keepFrom] using hL,
      fun _ _ => rfl, fun _ _ => rfl, fun _ _ => rfl⟩
  | a :: rest', kept, fuel + 1, k, pd, pg, it, h, hL, hit, hf => by
    have hklen : kept.length < (pg.L r).length := by rw [hL]; simp
    have hv : it.valid pd = true := (valid_iff h hit).mpr hklen
    have hget : (pg.L r)[kept.length] = a := by simp [hL]
    have hderef := deref_at h hit hklen
    rw [hget] at hderef
    have hnd := h.nodup r
    rw [hL] at hnd
    have hnd' := List.nodup_append.mp hnd
    have hnd'' := List.nodup_cons.mp hnd'.2.1
    by_cases hk : k ∈ rm
    · -- remove here
      obtain ⟨pd1, hrem, hrep1, it', hadv, hit'⟩ := iter_remove_at h hr hit hklen
      have hL1 : (pg.L r).eraseIdx kept.length = kept ++ rest' := by
        rw [hL, List.eraseIdx_append_of_length_le (Nat.le_refl _)]; simp
      rw [hget, hL1] at hrep1
      rw [hL1] at hit'
      obtain ⟨pd', pg', hloop, hrep', hLr, hLo, hl1, hl2⟩ :=
        iterLoop_sim hr rm rest' kept fuel (k + 1) pd1 _ it' hrep1 (by simp)
          (by simpa using hit') (by simp at hf; omega)
      refine ⟨pd', pg', ?_, hrep', ?_, ?_, ?_, ?_⟩
      · simp only [PlanData.iterLoop, hv, if_true, hderef, hk, hrem, hadv, hloop, Option.map_some,
          List.map_cons]
        have hmap : List.map (taskAt { g := pg.g.remove a, L := updL pg.L r (kept ++ rest') }) rest'
            = List.map (taskAt pg) rest' := by
          apply List.map_congr_left
          intro j hj
          have hja : j ≠ a := fun e => hnd''.1 (e ▸ hj)
          simp only [taskAt, G.remove, Live.set_ne _ _ hja]
        rw [hmap]
      · simpa [keepFrom, hk] using hLr
      · intro r' e
        rw [hLo r' e]; exact updL_ne _ _ e
      · intro j hj
        have hja : j ≠ a := fun e => hj (by simp [e])
        rw [hl1 j (fun hm => hj (List.mem_cons_of_mem _ hm))]
        exact Live.set_ne _ _ hja
      · intro j hj
        simp only [keepFrom, hk, if_true] at hj
        have hja : j ≠ a := fun e => hnd''.1 (e ▸ keepFrom_subset hj)
        rw [hl2 j hj]
        exact Live.set_ne _ _ hja
    · -- keep, move on
      obtain ⟨it', hadv, hit'⟩ := advance_at h hit
      obtain ⟨pd', pg', hloop, hrep', hLr, hLo, hl1, hl2⟩ :=
        iterLoop_sim hr rm rest' (kept ++ [a]) fuel (k + 1) pd pg it' h (by simp [hL])
          (by simpa using hit') (by simp at hf; omega)
      refine ⟨pd', pg', ?_, hrep', ?_, hLo, ?_, ?_⟩
      · simp only [PlanData.iterLoop, hv, if_true, hderef, hk, if_false, hadv, hloop,
          Option.map_some, List.map_cons]
      · simpa [keepFrom, hk] using hLr
      · intro j hj
        exact hl1 j (fun hm => hj (List.mem_cons_of_mem _ hm))
      · intro j hj
        simp only [keepFrom, hk, if_false] at hj
        cases hj with
        | head => exact hl1 a hnd''.1
        | tail _ hm => exact hl2 j hm

/-- A whole remove-while-iterating pass over region `r`: visits every task of the region exactly
once in order (also the ones it removes), leaves exactly the tasks at positions not in `rm`, does
not touch other regions, and no surviving task (of any region) changes its contents. -/
theorem iterate_sim (h : PlanRep cap nreg pd pg) {r : Nat} (hr : r < nreg) (rm : List Nat) :
    ∃ pd' pg', pd.iterate r rm = some (pd', absL pg r) ∧ PlanRep cap nreg pd' pg' ∧
      absL pg' r = keepFrom 0 rm (absL pg r) ∧
      (∀ r', r' ≠ r → pg'.L r' = pg.L r' ∧ absL pg' r' = absL pg r') := by
  obtain ⟨it, hb, hit⟩ := begin_at h hr
  obtain ⟨pd', pg', hloop, hrep', hLr, hLo, hl1, hl2⟩ :=
    iterLoop_sim hr rm (pg.L r) [] (cap + 1) 0 pd pg it h (by simp) (by simpa using hit)
      (by have := h.length_le hr; omega)
  refine ⟨pd', pg', ?_, hrep', ?_, ?_⟩
  · simp only [PlanData.iterate, hb, h.cap_eq, hloop, absL]
  · simp only [absL, hLr, List.nil_append, ← keepFrom_map]
    apply List.map_congr_left
    intro j hj
    simp only [taskAt, hl2 j hj]
  · intro r' e
    refine ⟨hLo r' e, ?_⟩
    simp only [absL, hLo r' e]
    apply List.map_congr_left
    intro j hj
    have : j ∉ pg.L r := fun hm => h.disj r' r j e hj hm
    simp only [taskAt, hl1 j this]

end Hfsm.Model
