/-
Helper lemmas for property C20: `uniform(uint32_t)` / `uniform(uint64_t)` as exact rationals, and the
value of the bit patterns the driver predicts for their results.  Core Lean only (`Rat` is core).
-/
import Hfsm.Model.Rng

namespace Hfsm.Proofs.Rng

open Hfsm.Model.Rng Hfsm.Generated

/-! ## The integer handed to `reinterpret<float/double>` -/

theorem uniformArg32_toNat (x : BitVec 32) :
    (uniformArg32 x).toNat = 127 * 2 ^ 23 + x.toNat / 2 ^ 9 := by
  have hx : x.toNat < 2 ^ 32 := x.isLt
  have hm : x.toNat >>> 9 < 2 ^ 23 := by
    rw [Nat.shiftRight_eq_div_pow]; omega
  simp only [uniformArg32, Rng.uni32Exp, Rng.uni32ExpShift, Rng.uni32Shift, BitVec.toNat_or,
    BitVec.toNat_ushiftRight, BitVec.toNat_shiftLeft, BitVec.toNat_ofNat]
  have : (127 % 2 ^ 32) <<< 23 % 2 ^ 32 = 127 <<< 23 := by decide
  rw [this, ← Nat.shiftLeft_add_eq_or_of_lt hm, Nat.shiftRight_eq_div_pow, Nat.shiftLeft_eq]

theorem uniformArg64_toNat (x : BitVec 64) :
    (uniformArg64 x).toNat = 1023 * 2 ^ 52 + x.toNat / 2 ^ 12 := by
  have hx : x.toNat < 2 ^ 64 := x.isLt
  have hm : x.toNat >>> 12 < 2 ^ 52 := by
    rw [Nat.shiftRight_eq_div_pow]; omega
  simp only [uniformArg64, Rng.uni64Exp, Rng.uni64ExpShift, Rng.uni64Shift, BitVec.toNat_or,
    BitVec.toNat_ushiftRight, BitVec.toNat_shiftLeft, BitVec.toNat_ofNat]
  have : (1023 % 2 ^ 64) <<< 52 % 2 ^ 64 = 1023 <<< 52 := by decide
  rw [this, ← Nat.shiftLeft_add_eq_or_of_lt hm, Nat.shiftRight_eq_div_pow, Nat.shiftLeft_eq]

/-- The float built by `uniform(uint32_t)` has exponent field 127 (so it lies in [1,2)) and mantissa
field `x >> 9`: its real value is `1 + (x >> 9) / 2^23`. -/
theorem f32Value_uniformArg (x : BitVec 32) :
    f32Value (uniformArg32 x) = 1 + ((x >>> 9).toNat : Rat) / 2 ^ 23 := by
  have hx : x.toNat < 2 ^ 32 := x.isLt
  have h := uniformArg32_toNat x
  have he : ((uniformArg32 x) >>> 23).toNat % 256 = 127 := by
    rw [BitVec.toNat_ushiftRight, h, Nat.shiftRight_eq_div_pow]; omega
  have hf : (uniformArg32 x).toNat % 2 ^ 23 = (x >>> 9).toNat := by
    rw [h, BitVec.toNat_ushiftRight, Nat.shiftRight_eq_div_pow]; omega
  simp only [f32Value, ieeeValue, he, hf]
  simp

theorem f64Value_uniformArg (x : BitVec 64) :
    f64Value (uniformArg64 x) = 1 + ((x >>> 12).toNat : Rat) / 2 ^ 52 := by
  have hx : x.toNat < 2 ^ 64 := x.isLt
  have h := uniformArg64_toNat x
  have he : ((uniformArg64 x) >>> 52).toNat % 2048 = 1023 := by
    rw [BitVec.toNat_ushiftRight, h, Nat.shiftRight_eq_div_pow]; omega
  have hf : (uniformArg64 x).toNat % 2 ^ 52 = (x >>> 12).toNat := by
    rw [h, BitVec.toNat_ushiftRight, Nat.shiftRight_eq_div_pow]; omega
  simp only [f64Value, ieeeValue, he, hf]
  simp

/-! ## Range of `m / 2^k` -/

theorem frac_range (m k : Nat) (h : m < 2 ^ k) : 0 ≤ (m : Rat) / 2 ^ k ∧ (m : Rat) / 2 ^ k < 1 := by
  have hpos : (0 : Rat) < 2 ^ k := Rat.pow_pos (by decide)
  constructor
  · rw [Rat.div_def]
    exact Rat.mul_nonneg Rat.natCast_nonneg (Rat.le_of_lt (Rat.inv_pos.mpr hpos))
  · rw [Rat.div_lt_iff hpos, Rat.one_mul]
    have : ((2 ^ k : Nat) : Rat) = (2 : Rat) ^ k := by simp
    rw [← this]
    exact Rat.natCast_lt_natCast.mpr h

theorem ushiftRight_lt32 (x : BitVec 32) : (x >>> 9).toNat < 2 ^ 23 := by
  have hx : x.toNat < 2 ^ 32 := x.isLt
  rw [BitVec.toNat_ushiftRight, Nat.shiftRight_eq_div_pow]; omega

theorem ushiftRight_lt64 (x : BitVec 64) : (x >>> 12).toNat < 2 ^ 52 := by
  have hx : x.toNat < 2 ^ 64 := x.isLt
  rw [BitVec.toNat_ushiftRight, Nat.shiftRight_eq_div_pow]; omega

/-! ## Value of the predicted result bit pattern (`fracBits`) -/

theorem alg (A B K r : Rat) (hK : K ≠ 0) (hAB : A * B = K) :
    A / K * (1 + r * B / K) = (A + r) / K := by
  grind

theorem zpow_diff (h k : Nat) :
    (2 : Rat) ^ ((h : Int) - (k : Int)) = (2 : Rat) ^ h / (2 : Rat) ^ k := by
  have h2 : (2 : Rat) ≠ 0 := by decide
  rw [Int.sub_eq_add_neg, Rat.zpow_add h2, Rat.zpow_neg, Rat.zpow_natCast, Rat.zpow_natCast,
    Rat.div_def]

theorem log2_facts (mbits m : Nat) (hm0 : m ≠ 0) (hm : m < 2 ^ mbits) :
    m.log2 < mbits ∧ 2 ^ m.log2 ≤ m ∧ m - 2 ^ m.log2 < 2 ^ m.log2 := by
  have h1 := Nat.log2_self_le hm0
  have h2 := @Nat.lt_log2_self m
  refine ⟨(Nat.log2_lt hm0).mpr hm, h1, ?_⟩
  rw [Nat.pow_succ] at h2
  omega

/-- The normal number with biased exponent `bias - mbits + ⌊log2 m⌋` and mantissa field
`(m - 2^⌊log2 m⌋)·2^(mbits - ⌊log2 m⌋)` is exactly `m / 2^mbits`. -/
theorem ieee_frac_value (mbits bias m : Nat) (hb : mbits ≤ bias) (hm0 : m ≠ 0) (hm : m < 2 ^ mbits) :
    (2 : Rat) ^ (((bias - mbits + m.log2 : Nat) : Int) - (bias : Int)) *
        (1 + (((m - 2 ^ m.log2) * 2 ^ (mbits - m.log2) : Nat) : Rat) / (2 : Rat) ^ mbits)
      = (m : Rat) / 2 ^ mbits := by
  obtain ⟨hlt, hle, _⟩ := log2_facts mbits m hm0 hm
  generalize m.log2 = h at *
  have hexp : (((bias - mbits + h : Nat) : Int) - (bias : Int)) = (h : Int) - (mbits : Int) := by omega
  have hK : (2 : Rat) ^ mbits ≠ 0 := Rat.ne_of_gt (Rat.pow_pos (by decide))
  have hAB : (2 : Rat) ^ h * 2 ^ (mbits - h) = 2 ^ mbits := by
    have hn : 2 ^ h * 2 ^ (mbits - h) = 2 ^ mbits := by
      rw [← Nat.pow_add]; congr 1; omega
    have := congrArg (Nat.cast : Nat → Rat) hn
    simpa using this
  have hmr : (m : Rat) = 2 ^ h + ((m - 2 ^ h : Nat) : Rat) := by
    have : m = 2 ^ h + (m - 2 ^ h) := by omega
    conv => lhs; rw [this]
    simp
  rw [hexp, zpow_diff, hmr]
  have := alg ((2 : Rat) ^ h) (2 ^ (mbits - h)) (2 ^ mbits) ((m - 2 ^ h : Nat) : Rat) hK hAB
  simpa using this

/-- Shape of `fracBits` for `m ≠ 0`: exponent field and mantissa field do not overlap. -/
theorem fracBits_eq (mbits bias m : Nat) (hm0 : m ≠ 0) (hm : m < 2 ^ mbits) :
    fracBits mbits bias m
      = (bias - mbits + m.log2) * 2 ^ mbits + (m - 2 ^ m.log2) * 2 ^ (mbits - m.log2) ∧
    (m - 2 ^ m.log2) * 2 ^ (mbits - m.log2) < 2 ^ mbits := by
  obtain ⟨hlt, hle, hr⟩ := log2_facts mbits m hm0 hm
  have hf : (m - 2 ^ m.log2) * 2 ^ (mbits - m.log2) < 2 ^ mbits := by
    have hn : 2 ^ m.log2 * 2 ^ (mbits - m.log2) = 2 ^ mbits := by
      rw [← Nat.pow_add]; congr 1; omega
    rw [← hn]
    exact Nat.mul_lt_mul_of_lt_of_le hr (Nat.le_refl _) (Nat.pow_pos (by decide))
  refine ⟨?_, hf⟩
  simp only [fracBits, hm0, if_false]
  rw [Nat.shiftLeft_eq (m - 2 ^ m.log2), ← Nat.shiftLeft_add_eq_or_of_lt hf, Nat.shiftLeft_eq]

/-- The bit pattern the driver predicts for `uniform(uint32_t)` denotes exactly `(x >> 9) / 2^23`. -/
theorem f32Value_uniformBits (x : BitVec 32) :
    f32Value (uniformBits32 x) = ((x >>> 9).toNat : Rat) / 2 ^ 23 := by
  have hm := ushiftRight_lt32 x
  simp only [uniformBits32, Rng.uni32Shift]
  generalize (x >>> 9).toNat = m at *
  by_cases hm0 : m = 0
  · subst hm0
    simp [fracBits, f32Value, ieeeValue, Rat.div_def, Rat.zero_mul]
  · obtain ⟨hbits, hf⟩ := fracBits_eq 23 127 m hm0 hm
    obtain ⟨hlt, _, _⟩ := log2_facts 23 m hm0 hm
    have hval := ieee_frac_value 23 127 m (by decide) hm0 hm
    generalize (m - 2 ^ m.log2) * 2 ^ (23 - m.log2) = F at *
    generalize m.log2 = h at *
    have hsmall : fracBits 23 127 m < 2 ^ 32 := by omega
    have he : ((BitVec.ofNat 32 (fracBits 23 127 m)) >>> 23).toNat % 256 = 127 - 23 + h := by
      rw [BitVec.toNat_ushiftRight, BitVec.toNat_ofNat, Nat.mod_eq_of_lt hsmall,
        Nat.shiftRight_eq_div_pow, hbits]
      omega
    have hfld : (BitVec.ofNat 32 (fracBits 23 127 m)).toNat % 2 ^ 23 = F := by
      rw [BitVec.toNat_ofNat, Nat.mod_eq_of_lt hsmall, hbits]
      omega
    have hne : 127 - 23 + h ≠ 0 := by omega
    simp only [f32Value, ieeeValue, he, hfld, hne, if_false]
    exact hval

/-- The bit pattern the driver predicts for `uniform(uint64_t)` denotes exactly `(x >> 12) / 2^52`. -/
theorem f64Value_uniformBits (x : BitVec 64) :
    f64Value (uniformBits64 x) = ((x >>> 12).toNat : Rat) / 2 ^ 52 := by
  have hm := ushiftRight_lt64 x
  simp only [uniformBits64, Rng.uni64Shift]
  generalize (x >>> 12).toNat = m at *
  by_cases hm0 : m = 0
  · subst hm0
    have e0 : ((BitVec.ofNat 64 (fracBits 52 1023 0)) >>> 52).toNat % 2048 = 0 := by decide
    have f0 : (BitVec.ofNat 64 (fracBits 52 1023 0)).toNat % 2 ^ 52 = 0 := by decide
    simp only [f64Value, ieeeValue, e0, f0, if_true, Rat.div_def]
    simp only [Rat.natCast_ofNat, Rat.zero_mul]
  · obtain ⟨hbits, hf⟩ := fracBits_eq 52 1023 m hm0 hm
    obtain ⟨hlt, _, _⟩ := log2_facts 52 m hm0 hm
    have hval := ieee_frac_value 52 1023 m (by decide) hm0 hm
    generalize (m - 2 ^ m.log2) * 2 ^ (52 - m.log2) = F at *
    generalize m.log2 = h at *
    have hsmall : fracBits 52 1023 m < 2 ^ 64 := by omega
    have he : ((BitVec.ofNat 64 (fracBits 52 1023 m)) >>> 52).toNat % 2048 = 1023 - 52 + h := by
      rw [BitVec.toNat_ushiftRight, BitVec.toNat_ofNat, Nat.mod_eq_of_lt hsmall,
        Nat.shiftRight_eq_div_pow, hbits]
      omega
    have hfld : (BitVec.ofNat 64 (fracBits 52 1023 m)).toNat % 2 ^ 52 = F := by
      rw [BitVec.toNat_ofNat, Nat.mod_eq_of_lt hsmall, hbits]
      omega
    have hne : 1023 - 52 + h ≠ 0 := by omega
    simp only [f64Value, ieeeValue, he, hfld, hne, if_false]
    exact hval

end Hfsm.Proofs.Rng
