/-
C02 — from `Mach.processRequest` down to the registry passes.
-/
import Hfsm.Proofs.C02Path

namespace Hfsm
variable {U : Type}

theorem C02.World.clearTargets_requests (w : World U) : w.clearTargets.requests = w.requests := by
  unfold World.clearTargets; split <;> rfl
theorem C02.World.clearTargets_cfg (w : World U) : w.clearTargets.cfg = w.cfg := by
  unfold World.clearTargets; split <;> rfl

/-! ### paths produced by `pathTo` -/

mutual
theorem C02.Node.pathTo_valid : (n : Node) → (d : Nat) → (p : List Nat) → n.pathTo d = some p → n.ValidPath p
  | .leaf id inj, d, p, h => by
    simp only [Node.pathTo] at h
    split at h
    · cases h; simp only [Node.ValidPath]
    · cases h
  | .compo id rid inj hd st a r q m s, d, p, h => by
    simp only [Node.pathTo] at h
    split at h
    · cases h; simp only [Node.ValidPath]
    · obtain ⟨j, rest, hp, hv⟩ := C02.Subs.pathIn_valid s d 0 p h
      subst hp
      simpa only [Node.ValidPath, Nat.zero_add] using hv
  | .ortho id rid inj hd s, d, p, h => by
    simp only [Node.pathTo] at h
    split at h
    · cases h; simp only [Node.ValidPath]
    · obtain ⟨j, rest, hp, hv⟩ := C02.Subs.pathIn_valid s d 0 p h
      subst hp
      simpa only [Node.ValidPath, Nat.zero_add] using hv
theorem C02.Subs.pathIn_valid : (s : Subs) → (d i0 : Nat) → (p : List Nat) → s.pathIn d i0 = some p →
    ∃ j rest, p = (i0 + j) :: rest ∧ s.ValidAt j rest
  | .nil, _, _, _, h => by simp only [Subs.pathIn] at h; cases h
  | .cons b n r, d, i0, p, h => by
    simp only [Subs.pathIn] at h
    cases hn : n.pathTo d with
    | some q =>
      rw [hn] at h
      cases h
      exact ⟨0, q, rfl, by simpa only [Subs.ValidAt] using C02.Node.pathTo_valid n d q hn⟩
    | none =>
      rw [hn] at h
      obtain ⟨j, rest, hp, hv⟩ := C02.Subs.pathIn_valid r d (i0+1) p h
      exact ⟨j+1, rest, by rw [hp]; congr 1; omega, by simpa only [Subs.ValidAt] using hv⟩
end

theorem C02.Subs.pathIn_ne_nil : (s : Subs) → (d i0 : Nat) → s.pathIn d i0 ≠ some []
  | s, d, i0, h => by
    obtain ⟨j, rest, hp, -⟩ := C02.Subs.pathIn_valid s d i0 [] h
    cases hp

/-- the empty path is the path of the node's own id -/
theorem C02.Node.pathTo_nil_iff (n : Node) (d : Nat) : n.pathTo d = some [] ↔ n.id = d := by
  cases n with
  | leaf id inj =>
    simp only [Node.pathTo, Node.id]
    constructor
    · intro h; split at h; assumption; cases h
    · intro h; simp only [h, ↓reduceIte]
  | compo id rid inj hd st a r q m s =>
    simp only [Node.pathTo, Node.id]
    constructor
    · intro h; split at h; assumption; exact absurd h (C02.Subs.pathIn_ne_nil s d 0)
    · intro h; simp only [h, ↓reduceIte]
  | ortho id rid inj hd s =>
    simp only [Node.pathTo, Node.id]
    constructor
    · intro h; split at h; assumption; exact absurd h (C02.Subs.pathIn_ne_nil s d 0)
    · intro h; simp only [h, ↓reduceIte]

/-! ### `mark` keeps the declared strategies -/

theorem C02.Subs.plainAll_setBit : (s : Subs) → (i : Nat) → (s.setBit i).plainAll = s.plainAll
  | .nil, _ => by simp only [Subs.setBit]
  | .cons b n r, 0 => by simp only [Subs.setBit, Subs.plainAll]
  | .cons b n r, i+1 => by simp only [Subs.setBit, Subs.plainAll, C02.Subs.plainAll_setBit r i]

mutual
theorem C02.Node.plain_mark : (n : Node) → (p : List Nat) → (n.mark p).1.plain = n.plain
  | .leaf .., [] => by simp only [Node.mark]
  | .compo .., [] => by simp only [Node.mark]
  | .ortho .., [] => by simp only [Node.mark]
  | .leaf .., _ :: _ => by simp only [Node.mark]
  | .compo id rid inj h st a r q m s, i :: rest => by
    have ih := C02.Subs.plainAll_markAt s i rest
    simp only [Node.mark]
    generalize s.markAt i rest = res at ih
    obtain ⟨s', ph⟩ := res
    simp only at ih
    cases ph
    · simp only [Node.plain, ih]
    · dsimp only
      split <;> simp only [Node.plain, ih]
    · simp only [Node.plain, ih]
  | .ortho id rid inj h s, i :: rest => by
    have ih := C02.Subs.plainAll_markAt s i rest
    simp only [Node.mark]
    generalize s.markAt i rest = res at ih
    obtain ⟨s', ph⟩ := res
    simp only at ih
    simp only [Node.plain, C02.Subs.plainAll_setBit, ih]
theorem C02.Subs.plainAll_markAt : (s : Subs) → (i : Nat) → (p : List Nat) →
    (s.markAt i p).1.plainAll = s.plainAll
  | .nil, _, _ => by simp only [Subs.markAt]
  | .cons b n r, 0, p => by
    have ih := C02.Node.plain_mark n p
    simp only [Subs.markAt]
    generalize n.mark p = res at ih
    obtain ⟨n', ph⟩ := res
    simp only at ih
    simp only [Subs.plainAll, ih]
  | .cons b n r, i+1, p => by
    have ih := C02.Subs.plainAll_markAt r i p
    simp only [Subs.markAt]
    generalize r.markAt i p = res at ih
    obtain ⟨r', ph⟩ := res
    simp only at ih
    simp only [Subs.plainAll, ih]
end

theorem AnswerFree.mark {k : Kind} {n : Node} (p : List Nat) (h : AnswerFree k n) :
    AnswerFree k (n.mark p).1 := by
  unfold AnswerFree at *
  rw [C02.Node.plain_mark]
  exact h

/-! ### a request to a state below the root always leaves marks -/

section
variable (ans : Nat → Nat) (k : Kind)

theorem C02.Subs.marksDiffer_markBits : (s : Subs) → (i : Nat) → (p : List Nat) → s.NoMarksAll →
    s.ValidAt i p →
    (((s.markAt i p).1.setBit i).fwdActiveBitsR ans k).marksDiffer s = true
  | .nil, _, _, _, hv => by simp only [Subs.ValidAt] at hv
  | .cons b n r, 0, p, hs, _ => by
    simp only [Subs.NoMarksAll] at hs
    obtain ⟨hb, -, -⟩ := hs
    subst hb
    simp only [Subs.markAt, Subs.setBit, Subs.fwdActiveBitsR, ↓reduceIte, Subs.marksDiffer]
    rfl
  | .cons b n r, i+1, p, hs, hv => by
    simp only [Subs.NoMarksAll] at hs
    obtain ⟨hb, -, hr⟩ := hs
    subst hb
    simp only [Subs.ValidAt] at hv
    simp only [Subs.markAt, Subs.setBit, Subs.fwdActiveBitsR, Bool.false_eq_true, ↓reduceIte,
      Subs.marksDiffer, C02.Subs.marksDiffer_markBits r i p hr hv, Bool.or_true]

theorem C02.Node.marksDiffer_mark (n : Node) (i : Nat) (rest : List Nat) (hn : n.NoMarks)
    (hv : n.ValidPath (i :: rest)) :
    ((n.mark (i :: rest)).1.fwdActiveR ans k).marksDiffer n = true := by
  cases n with
  | leaf id inj => simp only [Node.ValidPath] at hv
  | ortho id rid inj h s =>
    simp only [Node.NoMarks] at hn
    simp only [Node.ValidPath] at hv
    have := C02.Subs.marksDiffer_markBits ans k s i rest hn hv
    simp only [Node.mark]
    generalize s.markAt i rest = res at this
    obtain ⟨s', ph⟩ := res
    simpa only [Node.fwdActiveR, Node.marksDiffer] using this
  | compo id rid inj h st a r q m s =>
    simp only [Node.NoMarks] at hn
    obtain ⟨hq, hm, -⟩ := hn
    subst hq; subst hm
    simp only [Node.mark]
    generalize s.markAt i rest = res
    obtain ⟨s', ph⟩ := res
    cases ph
    · cases a <;> simp [Node.fwdActiveR, Node.marksDiffer]
    · dsimp only
      split <;> cases a <;> simp [Node.fwdActiveR, Node.marksDiffer]
    · cases a <;> simp [Node.fwdActiveR, Node.marksDiffer]

mutual
theorem C02.Node.requestR_same : (n : Node) → n.NoMarks → (n.requestR ans k).marksDiffer n = false →
    n.requestR ans k = n
  | .leaf .., _, _ => by simp only [Node.requestR]
  | .compo id rid inj h st a r q m s, hn, hd => by
    simp only [Node.NoMarks] at hn
    obtain ⟨hq, -, -⟩ := hn
    subst hq
    simp [Node.requestR, Node.marksDiffer] at hd
  | .ortho id rid inj h s, hn, hd => by
    simp only [Node.NoMarks] at hn
    simp only [Node.requestR, Node.marksDiffer] at hd
    simp only [Node.requestR, C02.Subs.requestAllR_same s hn hd]
theorem C02.Subs.requestAllR_same : (s : Subs) → s.NoMarksAll → (s.requestAllR ans k).marksDiffer s = false →
    s.requestAllR ans k = s
  | .nil, _, _ => by simp only [Subs.requestAllR]
  | .cons b n r, hs, hd => by
    simp only [Subs.NoMarksAll] at hs
    simp only [Subs.requestAllR, Subs.marksDiffer, Bool.or_eq_false_iff] at hd
    simp only [Subs.requestAllR, C02.Node.requestR_same n hs.2.1 hd.1.2, C02.Subs.requestAllR_same r hs.2.2 hd.2]
end

end

variable [UtilArith U]

namespace Mach

/-- The machine at the point where the guards of the first round run: every queued request applied
(`requestImmediate` + forward pass), queue emptied. -/
def atGuards (m : Mach U) : Mach U :=
  let m0 : Mach U := { m with w := m.w.clearTargets.freshControl }
  let m1 := m0.applyAll m.w.requests 0
  { m1 with w := { m1.w with requests := [] } }

/-- The guards of the first round approve, and their callbacks queue nothing further. -/
def Unvetoed (m : Mach U) : Prop :=
  (m.atGuards.approvedByGuards [] m.w.requests).2 = true ∧
  (m.atGuards.approvedByGuards [] m.w.requests).1.w.requests = []

theorem C02.applyRequest_root (ans : Nat → Nat) (m : Mach U) (t : Transition) (idx : Nat)
    (hk : t.kind ≠ .schedule) (hf : AnswerFree t.kind m.root) :
    (m.applyRequest t idx).root =
      if t.dest = 0 then m.root.requestR ans t.kind
      else match m.root.pathTo t.dest with
        | none => m.root
        | some p => (m.root.mark p).1.fwdActiveR ans t.kind := by
  unfold applyRequest
  split
  · rename_i h; exact absurd h hk
  · split
    · simp only
      exact C02.Node.request_root ans m.root ⟨t.kind, some idx⟩ _ hf
    · split
      · rename_i hp
        simp only [hp]
      · rename_i p hp
        simp only [hp]
        exact C02.Node.fwdActive_root ans (m.root.mark p).1 ⟨t.kind, some idx⟩ _ (hf.mark p)

theorem C02.applyAll_single (m : Mach U) (t : Transition) (h : t.dest < m.w.cfg.stateCount) :
    m.applyAll [t] 0 = m.applyRequest t 0 := by
  simp only [applyAll, h, ↓reduceIte]

theorem C02.rounds_nil (init : Bool) (fuel : Nat) (m : Mach U) (b : Node) (cur : List Transition)
    (h : m.w.requests = []) : rounds init fuel m b cur = (m, cur) := by
  cases fuel with
  | zero => simp only [rounds]
  | succ f => simp only [rounds, h, List.isEmpty_nil, ↓reduceIte]

omit [UtilArith U] in
theorem C02.approvedByGuards_root (m : Mach U) (c p : List Transition) :
    (m.approvedByGuards c p).1.root = m.root := by
  rfl

omit [UtilArith U] in
theorem C02.isEmpty_false_of_ne {α : Type} {l : List α} (h : l ≠ []) : l.isEmpty = false := by
  cases l with
  | nil => exact absurd rfl h
  | cons _ _ => rfl

theorem C02.rounds_first_differ (m0 : Mach U) (fuel : Nat) (hq : m0.w.requests ≠ [])
    (hd : (m0.applyAll m0.w.requests 0).root.marksDiffer m0.root = true)
    (hok : (Mach.approvedByGuards { (m0.applyAll m0.w.requests 0) with
              w := { (m0.applyAll m0.w.requests 0).w with requests := [] } } [] m0.w.requests).2 = true)
    (hnr : (Mach.approvedByGuards { (m0.applyAll m0.w.requests 0) with
              w := { (m0.applyAll m0.w.requests 0).w with requests := [] } } [] m0.w.requests).1.w.requests = []) :
    rounds false (fuel+1) m0 m0.root [] =
      ((Mach.approvedByGuards { (m0.applyAll m0.w.requests 0) with
              w := { (m0.applyAll m0.w.requests 0).w with requests := [] } } [] m0.w.requests).1,
       m0.w.requests) := by
  simp only [rounds, C02.isEmpty_false_of_ne hq, Bool.false_eq_true, ↓reduceIte, hd, hok, List.nil_append]
  rw [C02.rounds_nil _ _ _ _ _ hnr]

theorem C02.rounds_first_same (m0 : Mach U) (fuel : Nat) (hq : m0.w.requests ≠ [])
    (hd : (m0.applyAll m0.w.requests 0).root.marksDiffer m0.root = false) :
    rounds false (fuel+1) m0 m0.root [] =
      ({ (m0.applyAll m0.w.requests 0) with
              w := { (m0.applyAll m0.w.requests 0).w with requests := [] } }, []) := by
  simp only [rounds, C02.isEmpty_false_of_ne hq, Bool.false_eq_true, ↓reduceIte, hd]
  rw [C02.rounds_nil _ _ _ _ _ rfl]

theorem C02.processRequest_root (m : Mach U) (hne : m.w.requests.isEmpty = false) :
    m.processRequest.root =
      (if (rounds false m.w.clearTargets.freshControl.cfg.substitutionLimit
            { m with w := m.w.clearTargets.freshControl } m.root []).2.isEmpty
       then (rounds false m.w.clearTargets.freshControl.cfg.substitutionLimit
            { m with w := m.w.clearTargets.freshControl } m.root []).1.root
       else (rounds false m.w.clearTargets.freshControl.cfg.substitutionLimit
            { m with w := m.w.clearTargets.freshControl } m.root []).1.root.commitR).clearMarks := by
  unfold processRequest
  simp only [C02.World.clearTargets_requests, hne, Bool.false_eq_true, ↓reduceIte]
  split
  · simp only [updateActivity]
  · simp only [updateActivity, C02.Node.commit_root]

theorem C02.processRequest_root_differ (m : Mach U) (hq : m.w.requests ≠ [])
    (hl : 0 < m.w.cfg.substitutionLimit)
    (hd : m.atGuards.root.marksDiffer m.root = true) (hu : m.Unvetoed) :
    m.processRequest.root = m.atGuards.root.commitR.clearMarks := by
  obtain ⟨hu1, hu2⟩ := hu
  have hne := C02.isEmpty_false_of_ne hq
  obtain ⟨fuel, hf⟩ : ∃ f, m.w.cfg.substitutionLimit = f + 1 := ⟨_, (Nat.succ_pred_eq_of_pos hl).symm⟩
  have hq0 : (m.w.clearTargets.freshControl).requests = m.w.requests :=
    C02.World.clearTargets_requests _
  have hc0 : (m.w.clearTargets.freshControl).cfg = m.w.cfg := C02.World.clearTargets_cfg _
  have hr := C02.rounds_first_differ { m with w := m.w.clearTargets.freshControl } fuel
    (by rw [hq0]; exact hq) (by rw [hq0]; exact hd) (by rw [hq0]; exact hu1) (by rw [hq0]; exact hu2)
  rw [C02.processRequest_root m hne, hc0, hf]
  simp only at hr
  rw [hr]
  simp only [hq0, hne, Bool.false_eq_true, ↓reduceIte, C02.approvedByGuards_root]
  rfl

theorem C02.processRequest_root_same (m : Mach U) (hq : m.w.requests ≠ [])
    (hl : 0 < m.w.cfg.substitutionLimit)
    (hd : m.atGuards.root.marksDiffer m.root = false) :
    m.processRequest.root = m.atGuards.root.clearMarks := by
  have hne := C02.isEmpty_false_of_ne hq
  obtain ⟨fuel, hf⟩ : ∃ f, m.w.cfg.substitutionLimit = f + 1 := ⟨_, (Nat.succ_pred_eq_of_pos hl).symm⟩
  have hq0 : (m.w.clearTargets.freshControl).requests = m.w.requests :=
    C02.World.clearTargets_requests _
  have hc0 : (m.w.clearTargets.freshControl).cfg = m.w.cfg := C02.World.clearTargets_cfg _
  have hr := C02.rounds_first_same { m with w := m.w.clearTargets.freshControl } fuel
    (by rw [hq0]; exact hq) (by rw [hq0]; exact hd)
  rw [C02.processRequest_root m hne, hc0, hf]
  simp only at hr
  rw [hr]
  simp only [hq0, List.isEmpty_nil, ↓reduceIte]
  rfl

end Mach
end Hfsm
