/-
Nesting of lifecycles: a state is entered while its ancestors are entered and exited before them.

`track2 kp kc` runs two objects through `lifeStep` at once and additionally fails when `kc` is
entered while `kp` is not, or `kp` is exited while `kc` still is.  `Node.ancKey n kp c` says: `kp` is a
handler object of a state of the tree `n` and `c` is the id of a strict descendant of that state.
-/
import Hfsm.Proofs.LifecycleMach

namespace Hfsm
variable {U : Type}

/-- two objects at once: (`kp` entered, `kc` entered); on top of `lifeStep`, `enter` of `kc` needs `kp`
entered and `exit` of `kp` needs `kc` not entered -/
def track2 (kp kc : Key) : Option (Bool × Bool) → List CbItem → Option (Bool × Bool)
  | st, [] => st
  | none, _ :: _ => none
  | some (p, c), it :: rest =>
    if it.key = kc then
      match lifeStep it.2.1 c with
      | none => none
      | some c' => if it.2.1 = .enter ∧ p = false then none else track2 kp kc (some (p, c')) rest
    else if it.key = kp then
      match lifeStep it.2.1 p with
      | none => none
      | some p' => if it.2.1 = .exit ∧ c = true then none else track2 kp kc (some (p', c)) rest
    else track2 kp kc (some (p, c)) rest

theorem track2_none (kp kc : Key) : (l : List CbItem) → track2 kp kc none l = none
  | [] => rfl
  | _ :: _ => rfl

theorem track2_append (kp kc : Key) : (st : Option (Bool × Bool)) → (l1 l2 : List CbItem) →
    track2 kp kc st (l1 ++ l2) = track2 kp kc (track2 kp kc st l1) l2
  | _, [], _ => rfl
  | none, _ :: _, l2 => by simp [track2, track2_none]
  | some (p, c), it :: l1, l2 => by
    simp only [List.cons_append, track2]
    split
    · split
      · simp [track2_none]
      · split
        · simp [track2_none]
        · exact track2_append kp kc _ l1 l2
    · split
      · split
        · simp [track2_none]
        · split
          · simp [track2_none]
          · exact track2_append kp kc _ l1 l2
      · exact track2_append kp kc _ l1 l2

/-- neither object occurs -/
theorem track2_absent (kp kc : Key) : (st : Option (Bool × Bool)) → (l : List CbItem) →
    (∀ it ∈ l, it.key ≠ kp ∧ it.key ≠ kc) → track2 kp kc st l = st
  | _, [], _ => rfl
  | none, _ :: _, _ => rfl
  | some (p, c), it :: l, h => by
    simp only [track2]
    rw [if_neg (h it (by simp)).2, if_neg (h it (by simp)).1]
    exact track2_absent kp kc _ l (fun it' h' => h it' (List.mem_cons_of_mem _ h'))

/-- only `kp` occurs, `kc` is closed: the pair tracker is the single tracker of `kp` -/
theorem track2_only_p (kp kc : Key) : (p : Bool) → (l : List CbItem) → (∀ it ∈ l, it.key ≠ kc) →
    track2 kp kc (some (p, false)) l = (track kp (some p) l).map (fun p' => (p', false))
  | _, [], _ => rfl
  | p, it :: l, h => by
    simp only [track2, track]
    rw [if_neg (h it (by simp))]
    split
    · cases hs : lifeStep it.2.1 p with
      | none => simp [track_none]
      | some p' =>
        simp only [Bool.false_eq_true, and_false, if_false]
        exact track2_only_p kp kc p' l (fun it' h' => h it' (List.mem_cons_of_mem _ h'))
    · exact track2_only_p kp kc p l (fun it' h' => h it' (List.mem_cons_of_mem _ h'))

/-- only `kc` occurs, `kp` is open: the pair tracker is the single tracker of `kc` -/
theorem track2_only_c (kp kc : Key) (hne : kp ≠ kc) : (c : Bool) → (l : List CbItem) → (∀ it ∈ l, it.key ≠ kp) →
    track2 kp kc (some (true, c)) l = (track kc (some c) l).map (fun c' => (true, c'))
  | _, [], _ => rfl
  | c, it :: l, h => by
    simp only [track2, track]
    split
    · cases hs : lifeStep it.2.1 c with
      | none => simp [track_none]
      | some c' =>
        simp only [Bool.true_eq_false, and_false, if_false]
        exact track2_only_c kp kc hne c' l (fun it' h' => h it' (List.mem_cons_of_mem _ h'))
    · rw [if_neg (h it (by simp))]
      exact track2_only_c kp kc hne c l (fun it' h' => h it' (List.mem_cons_of_mem _ h'))

/-! ### ancestors -/

mutual
/-- `kp` is a handler object of a state of this tree and `c` the id of a strict descendant of it -/
def Node.ancKey : Node → Key → Nat → Bool
  | .leaf .., _, _ => false
  | .compo id _ inj h _ _ _ _ _ s, kp, c =>
    (hasKey [(id, inj, h)] kp && decide (id < c) && decide (c < id + 1 + s.size)) || s.ancKeyIn kp c
  | .ortho id _ inj h s, kp, c =>
    (hasKey [(id, inj, h)] kp && decide (id < c) && decide (c < id + 1 + s.size)) || s.ancKeyIn kp c
def Subs.ancKeyIn : Subs → Key → Nat → Bool
  | .nil, _, _ => false
  | .cons _ n r, kp, c => n.ancKey kp c || r.ancKeyIn kp c
end

mutual
theorem Node.ancKey_range : (n : Node) → (k : Nat) → n.IdsFrom k → (kp : Key) → (c : Nat) →
    n.ancKey kp c = true → k ≤ kp.1 ∧ kp.1 < c ∧ c < k + n.size
  | .leaf .., _, _, _, _, h => by simp [Node.ancKey] at h
  | .compo id rid inj hh st a r q m s, k, hI, kp, c, h => by
    simp only [Node.IdsFrom] at hI
    obtain ⟨hid, hI⟩ := hI
    subst hid
    simp only [Node.ancKey, Bool.or_eq_true, Bool.and_eq_true, decide_eq_true_eq] at h
    simp only [Node.size]
    rcases h with ⟨⟨h1, h2⟩, h3⟩ | h
    · have := hasKey_head_id id inj hh kp h1; omega
    · have := Subs.ancKeyIn_range s (id+1) hI kp c h; omega
  | .ortho id rid inj hh s, k, hI, kp, c, h => by
    simp only [Node.IdsFrom] at hI
    obtain ⟨hid, hI⟩ := hI
    subst hid
    simp only [Node.ancKey, Bool.or_eq_true, Bool.and_eq_true, decide_eq_true_eq] at h
    simp only [Node.size]
    rcases h with ⟨⟨h1, h2⟩, h3⟩ | h
    · have := hasKey_head_id id inj hh kp h1; omega
    · have := Subs.ancKeyIn_range s (id+1) hI kp c h; omega
theorem Subs.ancKeyIn_range : (s : Subs) → (k : Nat) → s.IdsFrom k → (kp : Key) → (c : Nat) →
    s.ancKeyIn kp c = true → k ≤ kp.1 ∧ kp.1 < c ∧ c < k + s.size
  | .nil, _, _, _, _, h => by simp [Subs.ancKeyIn] at h
  | .cons _ n r, k, hI, kp, c, h => by
    simp only [Subs.IdsFrom] at hI
    simp only [Subs.ancKeyIn, Bool.or_eq_true] at h
    simp only [Subs.size]
    rcases h with h | h
    · have := Node.ancKey_range n k hI.1 kp c h; omega
    · have := Subs.ancKeyIn_range r (k + n.size) hI.2 kp c h; omega
end

/-! ### absence by id range -/

theorem expand_absent {lo hi : Nat} {l : List St} (h : IdRange lo hi l) (m : Method) (x : Key)
    (hx : x.1 < lo ∨ hi ≤ x.1) : ∀ it ∈ expand m l, it.key ≠ x := by
  intro it hit hk
  simp only [expand, List.mem_flatMap] at hit
  obtain ⟨s, hs, hit⟩ := hit
  have e1 := stateItems_key m s it hit
  have := h s hs
  have e2 : it.1 = x.1 := congrArg Prod.fst hk
  omega

theorem script_absent {lo hi : Nat} {l : Script} (h : ScriptIdRange lo hi l) (x : Key)
    (hx : x.1 < lo ∨ hi ≤ x.1) : ∀ it ∈ scriptItems l, it.key ≠ x := by
  intro it hit hk
  simp only [scriptItems, List.mem_flatMap] at hit
  obtain ⟨p, hp, hit⟩ := hit
  have e1 := stateItems_key p.2 p.1 it hit
  have := h p hp
  have e2 : it.1 = x.1 := congrArg Prod.fst hk
  omega

theorem stateItems_absent (m : Method) (s : St) (x : Key) (hx : x.1 ≠ s.1) : ∀ it ∈ stateItems m s, it.key ≠ x := by
  intro it hit hk
  have e1 := stateItems_key m s it hit
  have e2 : it.1 = x.1 := congrArg Prod.fst hk
  exact hx (by rw [← e2, e1])

theorem hasKey_single_ne (s : St) (x : Key) (hx : x.1 ≠ s.1) : hasKey [s] x = false := by
  cases hk : hasKey [s] x with
  | false => rfl
  | true =>
    obtain ⟨id, inj, h⟩ := s
    exact absurd (hasKey_head_id id inj h x hk) hx

/-- an ancestor that is entered and not touched by a script cannot be violated by it: the pair tracker
is the single tracker of the descendant -/
theorem track2_under_open {lo hi : Nat} {sc : Script} (h : ScriptIdRange lo hi sc) (kp kc : Key) (hne : kp ≠ kc)
    (hx : kp.1 < lo ∨ hi ≤ kp.1) (c : Bool) :
    track2 kp kc (some (true, c)) (scriptItems sc) = (track kc (some c) (scriptItems sc)).map (fun c' => (true, c')) :=
  track2_only_c kp kc hne c _ (script_absent h kp hx)

/-! ### enter: ancestors first -/

theorem enter_at_head (id inj : Nat) (h : Bool) (L : List St) (hi : Nat) (rL : IdRange (id+1) hi L)
    (nL : (L.map (·.1)).Nodup) (kp kc : Key) (hk : hasKey [(id, inj, h)] kp = true) (hc : id < kc.1) :
    track2 kp kc (some (false, false)) (expand .enter ((id, inj, h) :: L)) =
      some (hasKey ((id, inj, h) :: L) kp, hasKey ((id, inj, h) :: L) kc) := by
  have hp := hasKey_head_id id inj h kp hk
  have hne : kp ≠ kc := fun e => by rw [e] at hp; omega
  rw [expand_cons, track2_append,
    track2_only_p kp kc false _ (stateItems_absent .enter _ kc (by simp only; omega)),
    track_stateItems kp .enter rfl, hk]
  simp only [if_true, lifeStep, Bool.false_eq_true, if_false, Option.map_some]
  rw [track2_only_c kp kc hne false _ (expand_absent rL .enter kp (Or.inl (by omega))),
    track_expand kc .enter rfl L nL, hasKey_cons _ L kp, hasKey_cons _ L kc, hk,
    hasKey_single_ne _ kc (by simp only; omega)]
  cases hasKey L kc <;> simp [lifeStep]

theorem enter_below_head (id inj : Nat) (h : Bool) (L : List St) (kp kc : Key) (hp : id < kp.1) (hc : id < kc.1)
    (ih : track2 kp kc (some (false, false)) (expand .enter L) = some (hasKey L kp, hasKey L kc)) :
    track2 kp kc (some (false, false)) (expand .enter ((id, inj, h) :: L)) =
      some (hasKey ((id, inj, h) :: L) kp, hasKey ((id, inj, h) :: L) kc) := by
  rw [expand_cons, track2_append, track2_absent kp kc _ _ (fun it hit =>
      ⟨stateItems_absent .enter _ kp (by simp only; omega) it hit,
       stateItems_absent .enter _ kc (by simp only; omega) it hit⟩),
    ih, hasKey_cons _ L kp, hasKey_cons _ L kc,
    hasKey_single_ne _ kp (by simp only; omega), hasKey_single_ne _ kc (by simp only; omega)]
  simp

mutual
theorem Node.enter_nested : (n : Node) → (k : Nat) → n.Res → n.IdsFrom k → (kp kc : Key) →
    n.ancKey kp kc.1 = true →
    track2 kp kc (some (false, false)) (expand .enter n.reqPre) = some (hasKey n.reqPre kp, hasKey n.reqPre kc)
  | .leaf .., _, _, _, _, _, h => by simp [Node.ancKey] at h
  | .compo id rid inj hh st a r q m s, k, hR, hI, kp, kc, h => by
    cases q with
    | none => simp [Node.Res] at hR
    | some qi =>
      simp only [Node.Res] at hR
      simp only [Node.IdsFrom] at hI
      obtain ⟨hid, hI⟩ := hI
      subst hid
      simp only [Node.ancKey, Bool.or_eq_true, Bool.and_eq_true, decide_eq_true_eq] at h
      simp only [Node.reqPre]
      rcases h with ⟨⟨h1, h2⟩, _⟩ | h
      · exact enter_at_head id inj hh _ _ (Subs.reqPreAt_inRange s qi (id+1) hI)
          (Subs.reqPreAt_nodup s qi (id+1) hI) kp kc h1 h2
      · have rg := Subs.ancKeyIn_range s (id+1) hI kp kc.1 h
        exact enter_below_head id inj hh _ kp kc (by omega) (by omega)
          (Subs.enterAt_nested s qi (id+1) hR hI kp kc h)
  | .ortho id rid inj hh s, k, hR, hI, kp, kc, h => by
    simp only [Node.Res] at hR
    simp only [Node.IdsFrom] at hI
    obtain ⟨hid, hI⟩ := hI
    subst hid
    simp only [Node.ancKey, Bool.or_eq_true, Bool.and_eq_true, decide_eq_true_eq] at h
    simp only [Node.reqPre]
    rcases h with ⟨⟨h1, h2⟩, _⟩ | h
    · exact enter_at_head id inj hh _ _ (Subs.reqPreAll_range s (id+1) hI)
        (Subs.reqPreAll_nodup s (id+1) hI) kp kc h1 h2
    · have rg := Subs.ancKeyIn_range s (id+1) hI kp kc.1 h
      exact enter_below_head id inj hh _ kp kc (by omega) (by omega)
        (Subs.enterAll_nested s (id+1) hR hI kp kc h)
theorem Subs.enterAt_nested : (s : Subs) → (i k : Nat) → s.ResAt i → s.IdsFrom k → (kp kc : Key) →
    s.ancKeyIn kp kc.1 = true →
    track2 kp kc (some (false, false)) (expand .enter (s.reqPreAt i)) =
      some (hasKey (s.reqPreAt i) kp, hasKey (s.reqPreAt i) kc)
  | .nil, _, _, hR, _, _, _, _ => by simp [Subs.ResAt] at hR
  | .cons _ n r, 0, k, hR, hI, kp, kc, h => by
    simp only [Subs.ResAt] at hR
    simp only [Subs.IdsFrom] at hI
    simp only [Subs.reqPreAt]
    cases hn : n.ancKey kp kc.1 with
    | true => exact Node.enter_nested n k hR hI.1 kp kc hn
    | false =>
      simp only [Subs.ancKeyIn, hn, Bool.false_or] at h
      have rg := Subs.ancKeyIn_range r (k + n.size) hI.2 kp kc.1 h
      have rn := Node.reqPre_range n k hI.1
      rw [track2_absent kp kc _ _ (fun it hit =>
          ⟨expand_absent rn .enter kp (Or.inr (by omega)) it hit, expand_absent rn .enter kc (Or.inr (by omega)) it hit⟩),
        hasKey_of_outside rn kp (Or.inr (by omega)), hasKey_of_outside rn kc (Or.inr (by omega))]
  | .cons _ n r, i+1, k, hR, hI, kp, kc, h => by
    simp only [Subs.ResAt] at hR
    simp only [Subs.IdsFrom] at hI
    simp only [Subs.reqPreAt]
    cases hn : n.ancKey kp kc.1 with
    | true =>
      have rg := Node.ancKey_range n k hI.1 kp kc.1 hn
      have rr := Subs.reqPreAt_inRange r i (k + n.size) hI.2
      rw [track2_absent kp kc _ _ (fun it hit =>
          ⟨expand_absent rr .enter kp (Or.inl (by omega)) it hit, expand_absent rr .enter kc (Or.inl (by omega)) it hit⟩),
        hasKey_of_outside rr kp (Or.inl (by omega)), hasKey_of_outside rr kc (Or.inl (by omega))]
    | false =>
      simp only [Subs.ancKeyIn, hn, Bool.false_or] at h
      exact Subs.enterAt_nested r i (k + n.size) hR hI.2 kp kc h
theorem Subs.enterAll_nested : (s : Subs) → (k : Nat) → s.ResAll → s.IdsFrom k → (kp kc : Key) →
    s.ancKeyIn kp kc.1 = true →
    track2 kp kc (some (false, false)) (expand .enter s.reqPreAll) =
      some (hasKey s.reqPreAll kp, hasKey s.reqPreAll kc)
  | .nil, _, _, _, _, _, h => by simp [Subs.ancKeyIn] at h
  | .cons _ n r, k, hR, hI, kp, kc, h => by
    simp only [Subs.ResAll] at hR
    simp only [Subs.IdsFrom] at hI
    simp only [Subs.reqPreAll, expand_append, track2_append, hasKey_append]
    have rn := Node.reqPre_range n k hI.1
    have rr := Subs.reqPreAll_range r (k + n.size) hI.2
    cases hn : n.ancKey kp kc.1 with
    | true =>
      have rg := Node.ancKey_range n k hI.1 kp kc.1 hn
      rw [Node.enter_nested n k hR.1 hI.1 kp kc hn, track2_absent kp kc _ _ (fun it hit =>
          ⟨expand_absent rr .enter kp (Or.inl (by omega)) it hit, expand_absent rr .enter kc (Or.inl (by omega)) it hit⟩),
        hasKey_of_outside rr kp (Or.inl (by omega)), hasKey_of_outside rr kc (Or.inl (by omega))]
      simp
    | false =>
      simp only [Subs.ancKeyIn, hn, Bool.false_or] at h
      have rg := Subs.ancKeyIn_range r (k + n.size) hI.2 kp kc.1 h
      rw [track2_absent kp kc _ _ (fun it hit =>
          ⟨expand_absent rn .enter kp (Or.inr (by omega)) it hit, expand_absent rn .enter kc (Or.inr (by omega)) it hit⟩),
        hasKey_of_outside rn kp (Or.inr (by omega)), hasKey_of_outside rn kc (Or.inr (by omega)),
        Subs.enterAll_nested r (k + n.size) hR.2 hI.2 kp kc h]
      simp
end

/-! ### exit: descendants first -/

theorem exit_at_head (id inj : Nat) (h : Bool) (Lpre Lpost : List St) (hi : Nat) (hperm : Lpost.Perm Lpre)
    (rL : IdRange (id+1) hi Lpre) (nL : (Lpost.map (·.1)).Nodup) (kp kc : Key)
    (hk : hasKey [(id, inj, h)] kp = true) (hc : id < kc.1) :
    track2 kp kc (some (hasKey ((id, inj, h) :: Lpre) kp, hasKey ((id, inj, h) :: Lpre) kc))
      (expand .exit (Lpost ++ [(id, inj, h)])) = some (false, false) := by
  have hp := hasKey_head_id id inj h kp hk
  have hne : kp ≠ kc := fun e => by rw [e] at hp; omega
  have rP : IdRange (id+1) hi Lpost := fun x hx => rL x (hperm.mem_iff.1 hx)
  rw [hasKey_cons _ Lpre kp, hasKey_cons _ Lpre kc, hk, hasKey_single_ne _ kc (by simp only; omega),
    Bool.true_or, Bool.false_or, expand_append, track2_append,
    track2_only_c kp kc hne _ _ (expand_absent rP .exit kp (Or.inl (by omega))),
    track_expand kc .exit rfl Lpost nL, hasKey_perm hperm kc]
  have e1 : (if hasKey Lpre kc = true then lifeStep Method.exit (hasKey Lpre kc) else some (hasKey Lpre kc)) = some false := by
    cases hasKey Lpre kc <;> simp [lifeStep]
  rw [e1]
  simp only [Option.map_some]
  rw [show expand Method.exit [(id, inj, h)] = stateItems .exit (id, inj, h) by simp [expand],
    track2_only_p kp kc true _ (stateItems_absent .exit _ kc (by simp only; omega)),
    track_stateItems kp .exit rfl, hk]
  simp [lifeStep]

theorem exit_below_head (id inj : Nat) (h : Bool) (Lpre Lpost : List St) (kp kc : Key)
    (hp : id < kp.1) (hc : id < kc.1)
    (ih : track2 kp kc (some (hasKey Lpre kp, hasKey Lpre kc)) (expand .exit Lpost) = some (false, false)) :
    track2 kp kc (some (hasKey ((id, inj, h) :: Lpre) kp, hasKey ((id, inj, h) :: Lpre) kc))
      (expand .exit (Lpost ++ [(id, inj, h)])) = some (false, false) := by
  rw [hasKey_cons _ Lpre kp, hasKey_cons _ Lpre kc, hasKey_single_ne _ kp (by simp only; omega),
    hasKey_single_ne _ kc (by simp only; omega), Bool.false_or, Bool.false_or, expand_append, track2_append, ih,
    show expand Method.exit [(id, inj, h)] = stateItems .exit (id, inj, h) by simp [expand]]
  exact track2_absent kp kc _ _ (fun it hit =>
      ⟨stateItems_absent .exit _ kp (by simp only; omega) it hit,
       stateItems_absent .exit _ kc (by simp only; omega) it hit⟩)

mutual
theorem Node.exit_nested : (n : Node) → (k : Nat) → n.Act → n.IdsFrom k → (kp kc : Key) →
    n.ancKey kp kc.1 = true →
    track2 kp kc (some (hasKey n.activePre kp, hasKey n.activePre kc)) (expand .exit n.activePost) =
      some (false, false)
  | .leaf .., _, _, _, _, _, h => by simp [Node.ancKey] at h
  | .compo id rid inj hh st a r q m s, k, hA, hI, kp, kc, h => by
    cases a with
    | none => simp [Node.Act] at hA
    | some ai =>
      simp only [Node.Act] at hA
      simp only [Node.IdsFrom] at hI
      obtain ⟨hid, hI⟩ := hI
      subst hid
      simp only [Node.ancKey, Bool.or_eq_true, Bool.and_eq_true, decide_eq_true_eq] at h
      simp only [Node.activePre, Node.activePost]
      rcases h with ⟨⟨h1, h2⟩, _⟩ | h
      · exact exit_at_head id inj hh _ _ _ (Subs.activePostAt_perm s ai) (Subs.activePreAt_inRange s ai (id+1) hI)
          (((Subs.activePostAt_perm s ai).map _).nodup_iff.2 (Subs.activePreAt_nodup s ai (id+1) hI)) kp kc h1 h2
      · have rg := Subs.ancKeyIn_range s (id+1) hI kp kc.1 h
        exact exit_below_head id inj hh _ _ kp kc (by omega) (by omega)
          (Subs.exitAt_nested s ai (id+1) hA hI kp kc h)
  | .ortho id rid inj hh s, k, hA, hI, kp, kc, h => by
    simp only [Node.Act] at hA
    simp only [Node.IdsFrom] at hI
    obtain ⟨hid, hI⟩ := hI
    subst hid
    simp only [Node.ancKey, Bool.or_eq_true, Bool.and_eq_true, decide_eq_true_eq] at h
    simp only [Node.activePre, Node.activePost]
    rcases h with ⟨⟨h1, h2⟩, _⟩ | h
    · exact exit_at_head id inj hh _ _ _ (Subs.activePostAll_perm s) (Subs.activePreAll_range s (id+1) hI)
        (((Subs.activePostAll_perm s).map _).nodup_iff.2 (Subs.activePreAll_nodup s (id+1) hI)) kp kc h1 h2
    · have rg := Subs.ancKeyIn_range s (id+1) hI kp kc.1 h
      exact exit_below_head id inj hh _ _ kp kc (by omega) (by omega)
        (Subs.exitAll_nested s (id+1) hA hI kp kc h)
theorem Subs.exitAt_nested : (s : Subs) → (i k : Nat) → s.ActAt i → s.IdsFrom k → (kp kc : Key) →
    s.ancKeyIn kp kc.1 = true →
    track2 kp kc (some (hasKey (s.activePreAt i) kp, hasKey (s.activePreAt i) kc))
      (expand .exit (s.activePostAt i)) = some (false, false)
  | .nil, _, _, hA, _, _, _, _ => by simp [Subs.ActAt] at hA
  | .cons _ n r, 0, k, hA, hI, kp, kc, h => by
    simp only [Subs.ActAt] at hA
    simp only [Subs.IdsFrom] at hI
    simp only [Subs.activePreAt, Subs.activePostAt]
    cases hn : n.ancKey kp kc.1 with
    | true => exact Node.exit_nested n k hA.1 hI.1 kp kc hn
    | false =>
      simp only [Subs.ancKeyIn, hn, Bool.false_or] at h
      have rg := Subs.ancKeyIn_range r (k + n.size) hI.2 kp kc.1 h
      have rn := Node.activePre_range n k hI.1
      have rp : IdRange k (k + n.size) n.activePost := fun x hx => rn x ((Node.activePost_perm n).mem_iff.1 hx)
      rw [hasKey_of_outside rn kp (Or.inr (by omega)), hasKey_of_outside rn kc (Or.inr (by omega))]
      exact track2_absent kp kc _ _ (fun it hit =>
          ⟨expand_absent rp .exit kp (Or.inr (by omega)) it hit, expand_absent rp .exit kc (Or.inr (by omega)) it hit⟩)
  | .cons _ n r, i+1, k, hA, hI, kp, kc, h => by
    simp only [Subs.ActAt] at hA
    simp only [Subs.IdsFrom] at hI
    simp only [Subs.activePreAt, Subs.activePostAt]
    cases hn : n.ancKey kp kc.1 with
    | true =>
      have rg := Node.ancKey_range n k hI.1 kp kc.1 hn
      have rr := Subs.activePreAt_inRange r i (k + n.size) hI.2
      have rp := Subs.activePostAt_inRange r i (k + n.size) hI.2
      rw [hasKey_of_outside rr kp (Or.inl (by omega)), hasKey_of_outside rr kc (Or.inl (by omega))]
      exact track2_absent kp kc _ _ (fun it hit =>
          ⟨expand_absent rp .exit kp (Or.inl (by omega)) it hit, expand_absent rp .exit kc (Or.inl (by omega)) it hit⟩)
    | false =>
      simp only [Subs.ancKeyIn, hn, Bool.false_or] at h
      exact Subs.exitAt_nested r i (k + n.size) hA.2 hI.2 kp kc h
theorem Subs.exitAll_nested : (s : Subs) → (k : Nat) → s.ActAll → s.IdsFrom k → (kp kc : Key) →
    s.ancKeyIn kp kc.1 = true →
    track2 kp kc (some (hasKey s.activePreAll kp, hasKey s.activePreAll kc))
      (expand .exit s.activePostAll) = some (false, false)
  | .nil, _, _, _, _, _, h => by simp [Subs.ancKeyIn] at h
  | .cons _ n r, k, hA, hI, kp, kc, h => by
    simp only [Subs.ActAll] at hA
    simp only [Subs.IdsFrom] at hI
    simp only [Subs.activePreAll, Subs.activePostAll, expand_append, track2_append, hasKey_append]
    have rn := Node.activePre_range n k hI.1
    have rnp : IdRange k (k + n.size) n.activePost := fun x hx => rn x ((Node.activePost_perm n).mem_iff.1 hx)
    have rr := Subs.activePreAll_range r (k + n.size) hI.2
    have rrp : IdRange (k + n.size) (k + n.size + r.size) r.activePostAll :=
      fun x hx => rr x ((Subs.activePostAll_perm r).mem_iff.1 hx)
    cases hn : n.ancKey kp kc.1 with
    | true =>
      have rg := Node.ancKey_range n k hI.1 kp kc.1 hn
      rw [hasKey_of_outside rr kp (Or.inl (by omega)), hasKey_of_outside rr kc (Or.inl (by omega)),
        Bool.or_false, Bool.or_false, Node.exit_nested n k hA.1 hI.1 kp kc hn]
      exact track2_absent kp kc _ _ (fun it hit =>
          ⟨expand_absent rrp .exit kp (Or.inl (by omega)) it hit, expand_absent rrp .exit kc (Or.inl (by omega)) it hit⟩)
    | false =>
      simp only [Subs.ancKeyIn, hn, Bool.false_or] at h
      have rg := Subs.ancKeyIn_range r (k + n.size) hI.2 kp kc.1 h
      rw [hasKey_of_outside rn kp (Or.inr (by omega)), hasKey_of_outside rn kc (Or.inr (by omega)),
        Bool.false_or, Bool.false_or, track2_absent kp kc _ _ (fun it hit =>
          ⟨expand_absent rnp .exit kp (Or.inr (by omega)) it hit, expand_absent rnp .exit kc (Or.inr (by omega)) it hit⟩)]
      exact Subs.exitAll_nested r (k + n.size) hA.2 hI.2 kp kc h
end

/-! ### reenter and commit -/

/-- only `kp` occurs and it is not exited -/
theorem track2_only_p_noexit (kp kc : Key) : (p c : Bool) → (l : List CbItem) → (∀ it ∈ l, it.key ≠ kc) →
    (∀ it ∈ l, it.2.1 ≠ .exit) →
    track2 kp kc (some (p, c)) l = (track kp (some p) l).map (fun p' => (p', c))
  | _, _, [], _, _ => rfl
  | p, c, it :: l, h, hx => by
    simp only [track2, track]
    rw [if_neg (h it (by simp))]
    split
    · cases hs : lifeStep it.2.1 p with
      | none => simp [track_none]
      | some p' =>
        simp only [hx it (by simp), false_and, if_false]
        exact track2_only_p_noexit kp kc p' c l (fun it' h' => h it' (List.mem_cons_of_mem _ h'))
          (fun it' h' => hx it' (List.mem_cons_of_mem _ h'))
    · exact track2_only_p_noexit kp kc p c l (fun it' h' => h it' (List.mem_cons_of_mem _ h'))
        (fun it' h' => hx it' (List.mem_cons_of_mem _ h'))

/-- switch / restart in place, both objects below the head -/
theorem Subs.switch_nested (s : Subs) (ai qi k : Nat) (hA : s.ActAt ai) (hR : s.ResAt qi) (hI : s.IdsFrom k)
    (kp kc : Key) (h : s.ancKeyIn kp kc.1 = true) :
    track2 kp kc (some (hasKey (s.activePreAt ai) kp, hasKey (s.activePreAt ai) kc))
      (scriptItems ((s.activePostAt ai).map (fun x => (x, Method.exit)) ++
                    (s.reqPreAt qi).map (fun x => (x, Method.enter)))) =
      some (hasKey (s.reqPreAt qi) kp, hasKey (s.reqPreAt qi) kc) := by
  rw [scriptItems_append, scriptItems_map, scriptItems_map, track2_append,
    Subs.exitAt_nested s ai k hA hI kp kc h, Subs.enterAt_nested s qi k hR hI kp kc h]

/-- both objects below a head that does not move -/
theorem pair_below_head (id inj : Nat) (h : Bool) (L L' : List St) (kp kc : Key) (items : List CbItem)
    (hp : id < kp.1) (hc : id < kc.1)
    (ih : track2 kp kc (some (hasKey L kp, hasKey L kc)) items = some (hasKey L' kp, hasKey L' kc)) :
    track2 kp kc (some (hasKey ((id, inj, h) :: L) kp, hasKey ((id, inj, h) :: L) kc)) items =
      some (hasKey ((id, inj, h) :: L') kp, hasKey ((id, inj, h) :: L') kc) := by
  rw [hasKey_cons _ L kp, hasKey_cons _ L kc, hasKey_cons _ L' kp, hasKey_cons _ L' kc,
    hasKey_single_ne _ kp (by simp only; omega), hasKey_single_ne _ kc (by simp only; omega)]
  simpa using ih

/-- `kp` belongs to a head that stays entered and is not in the script -/
theorem pair_at_head (id inj : Nat) (h : Bool) (L L' : List St) (kp kc : Key) (sc : Script) (hi : Nat)
    (rs : ScriptIdRange (id+1) hi sc) (hk : hasKey [(id, inj, h)] kp = true) (hc : id < kc.1)
    (single : track kc (some (hasKey ((id, inj, h) :: L) kc)) (scriptItems sc) = some (hasKey ((id, inj, h) :: L') kc)) :
    track2 kp kc (some (hasKey ((id, inj, h) :: L) kp, hasKey ((id, inj, h) :: L) kc)) (scriptItems sc) =
      some (hasKey ((id, inj, h) :: L') kp, hasKey ((id, inj, h) :: L') kc) := by
  have hp := hasKey_head_id id inj h kp hk
  have hne : kp ≠ kc := fun e => by rw [e] at hp; omega
  rw [hasKey_cons _ L kp, hasKey_cons _ L' kp, hk, Bool.true_or, Bool.true_or,
    track2_under_open rs kp kc hne (Or.inl (by omega)), single]
  rfl

mutual
theorem Node.reenter_nested : (n : Node) → (k : Nat) → n.Act → n.Res → n.IdsFrom k → (kp kc : Key) →
    n.ancKey kp kc.1 = true →
    track2 kp kc (some (hasKey n.activePre kp, hasKey n.activePre kc)) (scriptItems n.reenterScript) =
      some (hasKey n.reenterActive kp, hasKey n.reenterActive kc)
  | .leaf .., _, _, _, _, _, _, h => by simp [Node.ancKey] at h
  | .compo id rid inj hh st a r q m s, k, hA, hR, hI, kp, kc, h => by
    have single := Node.reenter_track (.compo id rid inj hh st a r q m s) k hA hR hI kc
    cases a with
    | none => simp [Node.Act] at hA
    | some ai =>
      cases q with
      | none => simp [Node.Res] at hR
      | some qi =>
        simp only [Node.Act] at hA
        simp only [Node.Res] at hR
        simp only [Node.IdsFrom] at hI
        obtain ⟨hid, hI⟩ := hI
        subst hid
        simp only [Node.ancKey, Bool.or_eq_true, Bool.and_eq_true, decide_eq_true_eq] at h
        simp only [Node.activePre, Node.reenterScript, Node.reenterActive, scriptItems_cons, track_append,
          track_head_reenter] at single ⊢
        rw [track2_append]
        rcases h with ⟨⟨h1, h2⟩, _⟩ | h
        · -- `kp` is the head: reentered, then not in the script
          rw [track2_only_p_noexit kp kc _ _ _ (stateItems_absent .reenter _ kc (by simp only; omega))
              (fun it hit => by rw [stateItems_method _ _ it hit]; simp), track_head_reenter]
          simp only [Option.map_some]
          by_cases hq : ai = qi
          · subst hq
            simp only [if_true] at single ⊢
            exact pair_at_head id inj hh _ _ kp kc _ _ (Subs.reenterAt_inRange s ai (id+1) hI).1 h1 h2 single
          · simp only [hq, if_false] at single ⊢
            exact pair_at_head id inj hh _ _ kp kc _ _
              (((Subs.activePostAt_inRange s ai (id+1) hI).script .exit).append
                ((Subs.reqPreAt_inRange s qi (id+1) hI).script .enter)) h1 h2 single
        · have rg := Subs.ancKeyIn_range s (id+1) hI kp kc.1 h
          rw [track2_absent kp kc _ _ (fun it hit =>
            ⟨stateItems_absent .reenter _ kp (by simp only; omega) it hit,
             stateItems_absent .reenter _ kc (by simp only; omega) it hit⟩)]
          by_cases hq : ai = qi
          · subst hq
            simp only [if_true]
            exact pair_below_head id inj hh _ _ kp kc _ (by omega) (by omega)
              (Subs.reenterAt_nested s ai (id+1) hA hR hI kp kc h)
          · simp only [hq, if_false]
            exact pair_below_head id inj hh _ _ kp kc _ (by omega) (by omega)
              (Subs.switch_nested s ai qi (id+1) hA hR hI kp kc h)
  | .ortho id rid inj hh s, k, hA, hR, hI, kp, kc, h => by
    have single := Node.reenter_track (.ortho id rid inj hh s) k hA hR hI kc
    simp only [Node.Act] at hA
    simp only [Node.Res] at hR
    simp only [Node.IdsFrom] at hI
    obtain ⟨hid, hI⟩ := hI
    subst hid
    simp only [Node.ancKey, Bool.or_eq_true, Bool.and_eq_true, decide_eq_true_eq] at h
    simp only [Node.activePre, Node.reenterScript, Node.reenterActive, scriptItems_cons, track_append,
      track_head_reenter] at single ⊢
    rw [track2_append]
    rcases h with ⟨⟨h1, h2⟩, _⟩ | h
    · rw [track2_only_p_noexit kp kc _ _ _ (stateItems_absent .reenter _ kc (by simp only; omega))
          (fun it hit => by rw [stateItems_method _ _ it hit]; simp), track_head_reenter]
      simp only [Option.map_some]
      exact pair_at_head id inj hh _ _ kp kc _ _ (Subs.reenterAll_inRange s (id+1) hI).1 h1 h2 single
    · have rg := Subs.ancKeyIn_range s (id+1) hI kp kc.1 h
      rw [track2_absent kp kc _ _ (fun it hit =>
        ⟨stateItems_absent .reenter _ kp (by simp only; omega) it hit,
         stateItems_absent .reenter _ kc (by simp only; omega) it hit⟩)]
      exact pair_below_head id inj hh _ _ kp kc _ (by omega) (by omega)
        (Subs.reenterAll_nested s (id+1) hA hR hI kp kc h)
theorem Subs.reenterAt_nested : (s : Subs) → (i k : Nat) → s.ActAt i → s.ResAt i → s.IdsFrom k → (kp kc : Key) →
    s.ancKeyIn kp kc.1 = true →
    track2 kp kc (some (hasKey (s.activePreAt i) kp, hasKey (s.activePreAt i) kc))
      (scriptItems (s.reenterScriptAt i)) =
      some (hasKey (s.reenterActiveAt i) kp, hasKey (s.reenterActiveAt i) kc)
  | .nil, _, _, hA, _, _, _, _, _ => by simp [Subs.ActAt] at hA
  | .cons _ n r, 0, k, hA, hR, hI, kp, kc, h => by
    simp only [Subs.ActAt] at hA
    simp only [Subs.ResAt] at hR
    simp only [Subs.IdsFrom] at hI
    simp only [Subs.activePreAt, Subs.reenterScriptAt, Subs.reenterActiveAt]
    cases hn : n.ancKey kp kc.1 with
    | true => exact Node.reenter_nested n k hA.1 hR hI.1 kp kc hn
    | false =>
      simp only [Subs.ancKeyIn, hn, Bool.false_or] at h
      have rg := Subs.ancKeyIn_range r (k + n.size) hI.2 kp kc.1 h
      have rn := Node.activePre_range n k hI.1
      have rs := Node.reenter_inRange n k hI.1
      rw [hasKey_of_outside rn kp (Or.inr (by omega)), hasKey_of_outside rn kc (Or.inr (by omega)),
        hasKey_of_outside rs.2 kp (Or.inr (by omega)), hasKey_of_outside rs.2 kc (Or.inr (by omega))]
      exact track2_absent kp kc _ _ (fun it hit =>
          ⟨script_absent rs.1 kp (Or.inr (by omega)) it hit, script_absent rs.1 kc (Or.inr (by omega)) it hit⟩)
  | .cons _ n r, i+1, k, hA, hR, hI, kp, kc, h => by
    simp only [Subs.ActAt] at hA
    simp only [Subs.ResAt] at hR
    simp only [Subs.IdsFrom] at hI
    simp only [Subs.activePreAt, Subs.reenterScriptAt, Subs.reenterActiveAt]
    cases hn : n.ancKey kp kc.1 with
    | true =>
      have rg := Node.ancKey_range n k hI.1 kp kc.1 hn
      have rr := Subs.activePreAt_inRange r i (k + n.size) hI.2
      have rs := Subs.reenterAt_inRange r i (k + n.size) hI.2
      rw [hasKey_of_outside rr kp (Or.inl (by omega)), hasKey_of_outside rr kc (Or.inl (by omega)),
        hasKey_of_outside rs.2 kp (Or.inl (by omega)), hasKey_of_outside rs.2 kc (Or.inl (by omega))]
      exact track2_absent kp kc _ _ (fun it hit =>
          ⟨script_absent rs.1 kp (Or.inl (by omega)) it hit, script_absent rs.1 kc (Or.inl (by omega)) it hit⟩)
    | false =>
      simp only [Subs.ancKeyIn, hn, Bool.false_or] at h
      exact Subs.reenterAt_nested r i (k + n.size) hA.2 hR hI.2 kp kc h
theorem Subs.reenterAll_nested : (s : Subs) → (k : Nat) → s.ActAll → s.ResAll → s.IdsFrom k → (kp kc : Key) →
    s.ancKeyIn kp kc.1 = true →
    track2 kp kc (some (hasKey s.activePreAll kp, hasKey s.activePreAll kc))
      (scriptItems s.reenterScriptAll) =
      some (hasKey s.reenterActiveAll kp, hasKey s.reenterActiveAll kc)
  | .nil, _, _, _, _, _, _, h => by simp [Subs.ancKeyIn] at h
  | .cons _ n r, k, hA, hR, hI, kp, kc, h => by
    simp only [Subs.ActAll] at hA
    simp only [Subs.ResAll] at hR
    simp only [Subs.IdsFrom] at hI
    simp only [Subs.activePreAll, Subs.reenterScriptAll, Subs.reenterActiveAll, scriptItems_append,
      track2_append, hasKey_append]
    have rn := Node.activePre_range n k hI.1
    have rns := Node.reenter_inRange n k hI.1
    have rr := Subs.activePreAll_range r (k + n.size) hI.2
    have rrs := Subs.reenterAll_inRange r (k + n.size) hI.2
    cases hn : n.ancKey kp kc.1 with
    | true =>
      have rg := Node.ancKey_range n k hI.1 kp kc.1 hn
      rw [hasKey_of_outside rr kp (Or.inl (by omega)), hasKey_of_outside rr kc (Or.inl (by omega)),
        hasKey_of_outside rrs.2 kp (Or.inl (by omega)), hasKey_of_outside rrs.2 kc (Or.inl (by omega)),
        Bool.or_false, Bool.or_false, Bool.or_false, Bool.or_false,
        Node.reenter_nested n k hA.1 hR.1 hI.1 kp kc hn]
      exact track2_absent kp kc _ _ (fun it hit =>
          ⟨script_absent rrs.1 kp (Or.inl (by omega)) it hit, script_absent rrs.1 kc (Or.inl (by omega)) it hit⟩)
    | false =>
      simp only [Subs.ancKeyIn, hn, Bool.false_or] at h
      have rg := Subs.ancKeyIn_range r (k + n.size) hI.2 kp kc.1 h
      rw [hasKey_of_outside rn kp (Or.inr (by omega)), hasKey_of_outside rn kc (Or.inr (by omega)),
        hasKey_of_outside rns.2 kp (Or.inr (by omega)), hasKey_of_outside rns.2 kc (Or.inr (by omega)),
        Bool.false_or, Bool.false_or, Bool.false_or, Bool.false_or,
        track2_absent kp kc _ _ (fun it hit =>
          ⟨script_absent rns.1 kp (Or.inr (by omega)) it hit, script_absent rns.1 kc (Or.inr (by omega)) it hit⟩)]
      exact Subs.reenterAll_nested r (k + n.size) hA.2 hR.2 hI.2 kp kc h
end

mutual
theorem Node.commit_nested : (n : Node) → (k : Nat) → n.Act → n.COK → n.IdsFrom k → (kp kc : Key) →
    n.ancKey kp kc.1 = true →
    track2 kp kc (some (hasKey n.activePre kp, hasKey n.activePre kc)) (scriptItems n.commitScript) =
      some (hasKey n.commitActive kp, hasKey n.commitActive kc)
  | .leaf .., _, _, _, _, _, _, h => by simp [Node.ancKey] at h
  | .compo id rid inj hh st a r q m s, k, hA, hC, hI, kp, kc, h => by
    have single := Node.commit_track (.compo id rid inj hh st a r q m s) k hA hC hI kc
    cases a with
    | none => simp [Node.Act] at hA
    | some ai =>
      simp only [Node.Act] at hA
      simp only [Node.IdsFrom] at hI
      obtain ⟨hid, hI⟩ := hI
      subst hid
      simp only [Node.ancKey, Bool.or_eq_true, Bool.and_eq_true, decide_eq_true_eq] at h
      cases q with
      | none =>
        simp only [Node.COK] at hC
        simp only [Node.activePre, Node.commitScript, Node.commitActive] at single ⊢
        rcases h with ⟨⟨h1, h2⟩, _⟩ | h
        · exact pair_at_head id inj hh _ _ kp kc _ _ (Subs.commitAt_inRange s ai (id+1) hI).1 h1 h2 single
        · have rg := Subs.ancKeyIn_range s (id+1) hI kp kc.1 h
          exact pair_below_head id inj hh _ _ kp kc _ (by omega) (by omega)
            (Subs.commitAt_nested s ai (id+1) hA hC hI kp kc h)
      | some qi =>
        simp only [Node.COK] at hC
        simp only [Node.activePre, Node.commitScript, Node.commitActive] at single ⊢
        split
        · rename_i hq
          simp only [hq, if_true] at single
          rcases h with ⟨⟨h1, h2⟩, _⟩ | h
          · exact pair_at_head id inj hh _ _ kp kc _ _
              (((Subs.activePostAt_inRange s ai (id+1) hI).script .exit).append
                ((Subs.reqPreAt_inRange s qi (id+1) hI).script .enter)) h1 h2 single
          · have rg := Subs.ancKeyIn_range s (id+1) hI kp kc.1 h
            exact pair_below_head id inj hh _ _ kp kc _ (by omega) (by omega)
              (Subs.switch_nested s ai qi (id+1) hA hC hI kp kc h)
        · rename_i hq
          simp only [hq, if_false] at single
          have hq' : qi = ai := by
            by_cases e : qi = ai
            · exact e
            · exact absurd (Or.inl e) hq
          subst hq'
          rcases h with ⟨⟨h1, h2⟩, _⟩ | h
          · exact pair_at_head id inj hh _ _ kp kc _ _ (Subs.reenterAt_inRange s qi (id+1) hI).1 h1 h2 single
          · have rg := Subs.ancKeyIn_range s (id+1) hI kp kc.1 h
            exact pair_below_head id inj hh _ _ kp kc _ (by omega) (by omega)
              (Subs.reenterAt_nested s qi (id+1) hA hC hI kp kc h)
  | .ortho id rid inj hh s, k, hA, hC, hI, kp, kc, h => by
    have single := Node.commit_track (.ortho id rid inj hh s) k hA hC hI kc
    simp only [Node.Act] at hA
    simp only [Node.COK] at hC
    simp only [Node.IdsFrom] at hI
    obtain ⟨hid, hI⟩ := hI
    subst hid
    simp only [Node.ancKey, Bool.or_eq_true, Bool.and_eq_true, decide_eq_true_eq] at h
    simp only [Node.activePre, Node.commitScript, Node.commitActive] at single ⊢
    rcases h with ⟨⟨h1, h2⟩, _⟩ | h
    · exact pair_at_head id inj hh _ _ kp kc _ _ (Subs.commitAll_inRange s (id+1) hI).1 h1 h2 single
    · have rg := Subs.ancKeyIn_range s (id+1) hI kp kc.1 h
      exact pair_below_head id inj hh _ _ kp kc _ (by omega) (by omega)
        (Subs.commitAll_nested s (id+1) hA hC hI kp kc h)
theorem Subs.commitAt_nested : (s : Subs) → (i k : Nat) → s.ActAt i → s.COKAt i → s.IdsFrom k → (kp kc : Key) →
    s.ancKeyIn kp kc.1 = true →
    track2 kp kc (some (hasKey (s.activePreAt i) kp, hasKey (s.activePreAt i) kc))
      (scriptItems (s.commitScriptAt i)) =
      some (hasKey (s.commitActiveAt i) kp, hasKey (s.commitActiveAt i) kc)
  | .nil, _, _, hA, _, _, _, _, _ => by simp [Subs.ActAt] at hA
  | .cons _ n r, 0, k, hA, hC, hI, kp, kc, h => by
    simp only [Subs.ActAt] at hA
    simp only [Subs.COKAt] at hC
    simp only [Subs.IdsFrom] at hI
    simp only [Subs.activePreAt, Subs.commitScriptAt, Subs.commitActiveAt]
    cases hn : n.ancKey kp kc.1 with
    | true => exact Node.commit_nested n k hA.1 hC hI.1 kp kc hn
    | false =>
      simp only [Subs.ancKeyIn, hn, Bool.false_or] at h
      have rg := Subs.ancKeyIn_range r (k + n.size) hI.2 kp kc.1 h
      have rn := Node.activePre_range n k hI.1
      have rs := Node.commit_inRange n k hI.1
      rw [hasKey_of_outside rn kp (Or.inr (by omega)), hasKey_of_outside rn kc (Or.inr (by omega)),
        hasKey_of_outside rs.2 kp (Or.inr (by omega)), hasKey_of_outside rs.2 kc (Or.inr (by omega))]
      exact track2_absent kp kc _ _ (fun it hit =>
          ⟨script_absent rs.1 kp (Or.inr (by omega)) it hit, script_absent rs.1 kc (Or.inr (by omega)) it hit⟩)
  | .cons _ n r, i+1, k, hA, hC, hI, kp, kc, h => by
    simp only [Subs.ActAt] at hA
    simp only [Subs.COKAt] at hC
    simp only [Subs.IdsFrom] at hI
    simp only [Subs.activePreAt, Subs.commitScriptAt, Subs.commitActiveAt]
    cases hn : n.ancKey kp kc.1 with
    | true =>
      have rg := Node.ancKey_range n k hI.1 kp kc.1 hn
      have rr := Subs.activePreAt_inRange r i (k + n.size) hI.2
      have rs := Subs.commitAt_inRange r i (k + n.size) hI.2
      rw [hasKey_of_outside rr kp (Or.inl (by omega)), hasKey_of_outside rr kc (Or.inl (by omega)),
        hasKey_of_outside rs.2 kp (Or.inl (by omega)), hasKey_of_outside rs.2 kc (Or.inl (by omega))]
      exact track2_absent kp kc _ _ (fun it hit =>
          ⟨script_absent rs.1 kp (Or.inl (by omega)) it hit, script_absent rs.1 kc (Or.inl (by omega)) it hit⟩)
    | false =>
      simp only [Subs.ancKeyIn, hn, Bool.false_or] at h
      exact Subs.commitAt_nested r i (k + n.size) hA.2 hC hI.2 kp kc h
theorem Subs.commitAll_nested : (s : Subs) → (k : Nat) → s.ActAll → s.COKAll → s.IdsFrom k → (kp kc : Key) →
    s.ancKeyIn kp kc.1 = true →
    track2 kp kc (some (hasKey s.activePreAll kp, hasKey s.activePreAll kc))
      (scriptItems s.commitScriptAll) =
      some (hasKey s.commitActiveAll kp, hasKey s.commitActiveAll kc)
  | .nil, _, _, _, _, _, _, h => by simp [Subs.ancKeyIn] at h
  | .cons _ n r, k, hA, hC, hI, kp, kc, h => by
    simp only [Subs.ActAll] at hA
    simp only [Subs.COKAll] at hC
    simp only [Subs.IdsFrom] at hI
    simp only [Subs.activePreAll, Subs.commitScriptAll, Subs.commitActiveAll, scriptItems_append,
      track2_append, hasKey_append]
    have rn := Node.activePre_range n k hI.1
    have rns := Node.commit_inRange n k hI.1
    have rr := Subs.activePreAll_range r (k + n.size) hI.2
    have rrs := Subs.commitAll_inRange r (k + n.size) hI.2
    cases hn : n.ancKey kp kc.1 with
    | true =>
      have rg := Node.ancKey_range n k hI.1 kp kc.1 hn
      rw [hasKey_of_outside rr kp (Or.inl (by omega)), hasKey_of_outside rr kc (Or.inl (by omega)),
        hasKey_of_outside rrs.2 kp (Or.inl (by omega)), hasKey_of_outside rrs.2 kc (Or.inl (by omega)),
        Bool.or_false, Bool.or_false, Bool.or_false, Bool.or_false,
        Node.commit_nested n k hA.1 hC.1 hI.1 kp kc hn]
      exact track2_absent kp kc _ _ (fun it hit =>
          ⟨script_absent rrs.1 kp (Or.inl (by omega)) it hit, script_absent rrs.1 kc (Or.inl (by omega)) it hit⟩)
    | false =>
      simp only [Subs.ancKeyIn, hn, Bool.false_or] at h
      have rg := Subs.ancKeyIn_range r (k + n.size) hI.2 kp kc.1 h
      rw [hasKey_of_outside rn kp (Or.inr (by omega)), hasKey_of_outside rn kc (Or.inr (by omega)),
        hasKey_of_outside rns.2 kp (Or.inr (by omega)), hasKey_of_outside rns.2 kc (Or.inr (by omega)),
        Bool.false_or, Bool.false_or, Bool.false_or, Bool.false_or,
        track2_absent kp kc _ _ (fun it hit =>
          ⟨script_absent rns.1 kp (Or.inr (by omega)) it hit, script_absent rns.1 kc (Or.inr (by omega)) it hit⟩)]
      exact Subs.commitAll_nested r (k + n.size) hA.2 hC.2 hI.2 kp kc h
end

/-! ### the periodic callbacks and the guards cannot break nesting -/

/-- callbacks that neither enter nor exit leave the pair as it is, provided their objects are entered -/
theorem track2_stay (kp kc : Key) (p c : Bool) : (l : List CbItem) →
    (∀ it ∈ l, it.key = kp → lifeStep it.2.1 p = some p) → (∀ it ∈ l, it.key = kc → lifeStep it.2.1 c = some c) →
    (∀ it ∈ l, it.2.1 ≠ .enter ∧ it.2.1 ≠ .exit) →
    track2 kp kc (some (p, c)) l = some (p, c)
  | [], _, _, _ => rfl
  | it :: l, h1, h2, h3 => by
    have ih := track2_stay kp kc p c l (fun it' h' => h1 it' (List.mem_cons_of_mem _ h'))
      (fun it' h' => h2 it' (List.mem_cons_of_mem _ h')) (fun it' h' => h3 it' (List.mem_cons_of_mem _ h'))
    simp only [track2]
    split
    · rename_i hk
      rw [h2 it (by simp) hk]
      simp only [(h3 it (by simp)).1, false_and, if_false]
      exact ih
    · split
      · rename_i hk
        rw [h1 it (by simp) hk]
        simp only [(h3 it (by simp)).2, false_and, if_false]
        exact ih
      · exact ih

/-! ### world level -/

/-- The trace is a well nested lifecycle history for every (ancestor object, descendant object) pair
of the tree `n`, ending with exactly the objects of `opn` entered. -/
def NestOK (n : Node) (opn : Key → Bool) (seq : List CbItem) : Prop :=
  ∀ kp kc, n.ancKey kp kc.1 = true → track2 kp kc (some (false, false)) seq = some (opn kp, opn kc)

theorem Node.enter_nest (n : Node) (k : Nat) (w : World U) (hR : n.Res) (hI : n.IdsFrom k)
    (hOK : NestOK n (fun _ => false) w.cbSeq)
    (hds : (expand .enter n.reqPre).length ≤ w.ds.length) :
    NestOK n (hasKey (n.enter w).1.activePre) (n.enter w).2.cbSeq := by
  have h := Node.enter_key n w hR
  intro kp kc ha
  rw [World.cbSeq_of_all h.1 hds, h.2, track2_append, hOK kp kc ha]
  exact Node.enter_nested n k hR hI kp kc ha

theorem Node.exit_nest (n : Node) (k : Nat) (w : World U) (hA : n.Act) (hI : n.IdsFrom k)
    (hOK : NestOK n (hasKey n.activePre) w.cbSeq)
    (hds : (expand .exit n.activePost).length ≤ w.ds.length) :
    NestOK n (fun _ => false) (n.exit w).2.cbSeq := by
  intro kp kc ha
  rw [World.cbSeq_of_all (Node.exit_key n w hA) hds, track2_append, hOK kp kc ha]
  exact Node.exit_nested n k hA hI kp kc ha

theorem Node.reenter_nest (n : Node) (k : Nat) (w : World U) (hA : n.Act) (hR : n.Res) (hI : n.IdsFrom k)
    (hOK : NestOK n (hasKey n.activePre) w.cbSeq)
    (hds : (scriptItems n.reenterScript).length ≤ w.ds.length) :
    NestOK n (hasKey (n.reenter w).1.activePre) (n.reenter w).2.cbSeq := by
  have h := Node.reenter_key n w hA hR
  intro kp kc ha
  rw [World.cbSeq_of_run h.1 hds, h.2, track2_append, hOK kp kc ha]
  exact Node.reenter_nested n k hA hR hI kp kc ha

theorem Node.commit_nest (n : Node) (k : Nat) (w : World U) (hA : n.Act) (hC : n.COK) (hI : n.IdsFrom k)
    (hOK : NestOK n (hasKey n.activePre) w.cbSeq)
    (hds : (scriptItems n.commitScript).length ≤ w.ds.length) :
    NestOK n (hasKey (n.commit w).1.activePre) (n.commit w).2.cbSeq := by
  have h := Node.commit_key n w hA hC
  intro kp kc ha
  rw [World.cbSeq_of_run h.1 hds, h.2, track2_append, hOK kp kc ha]
  exact Node.commit_nested n k hA hC hI kp kc ha

/-- callbacks of a staying method delivered to entered states only keep the nesting record -/
theorem NestOK.stay_of_grows {n : Node} {l : List St} {m : Method} {w w' : World U}
    (hm : lifeStep m true = some true) (hne : m ≠ .enter ∧ m ≠ .exit)
    (hOK : NestOK n (hasKey l) w.cbSeq) (hg : World.GrowsBy (fun it => it ∈ expand m l) w w') :
    NestOK n (hasKey l) w'.cbSeq := by
  obtain ⟨added, e, p⟩ := hg
  intro kp kc ha
  rw [e, track2_append, hOK kp kc ha]
  apply track2_stay
  · intro it hit hk
    have h1 := hasKey_of_mem_expand m l it (p it hit)
    rw [← hk, h1, expand_method m l it (p it hit), hm]
  · intro it hit hk
    have h1 := hasKey_of_mem_expand m l it (p it hit)
    rw [← hk, h1, expand_method m l it (p it hit), hm]
  · intro it hit
    rw [expand_method m l it (p it hit)]
    exact hne

/-! ### callbacks that do not constrain lifecycles -/

/-- selection callbacks, entry guards, plan callbacks -/
def CbItem.free (it : CbItem) : Prop := ∀ b, lifeStep it.2.1 b = some b

theorem free_of_const (sid : Nat) (m : Method) (slot : Nat) (h : m.cls = .const) : CbItem.free (sid, m, slot) := by
  intro b
  cases m <;> simp [Method.cls] at h <;> rfl

theorem free_entryGuard (sid slot : Nat) : CbItem.free (sid, .entryGuard, slot) := fun _ => rfl

theorem CbItem.free_ne {it : CbItem} (h : it.free) : it.2.1 ≠ .enter ∧ it.2.1 ≠ .exit := by
  constructor
  · intro e; have := h true; rw [e] at this; simp [lifeStep] at this
  · intro e; have := h false; rw [e] at this; simp [lifeStep] at this

theorem LifeOK.free_of_grows {opn : Key → Bool} {w w' : World U} (hOK : LifeOK opn w.cbSeq)
    (hg : World.GrowsBy CbItem.free w w') : LifeOK opn w'.cbSeq := by
  obtain ⟨added, e, p⟩ := hg
  rw [e]
  exact hOK.stay added (fun it hit => p it hit _)

theorem NestOK.free_of_grows {n : Node} {opn : Key → Bool} {w w' : World U} (hOK : NestOK n opn w.cbSeq)
    (hg : World.GrowsBy CbItem.free w w') : NestOK n opn w'.cbSeq := by
  obtain ⟨added, e, p⟩ := hg
  intro kp kc ha
  rw [e, track2_append, hOK kp kc ha]
  exact track2_stay kp kc _ _ added (fun it hit _ => p it hit _) (fun it hit _ => p it hit _)
    (fun it hit => CbItem.free_ne (p it hit))

end Hfsm
