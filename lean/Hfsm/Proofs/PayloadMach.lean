/-
C14 at the level of the instance API: `Closed S` (Proofs/Payload.lean) is preserved by every operation
whose own inputs are in `S`.
-/
import Hfsm.Proofs.Process

set_option linter.unusedSectionVars false

namespace Hfsm
variable {U : Type} [UtilArith U]

theorem forall_mem_ite {α : Type} {P : α → Prop} {c : Prop} [Decidable c] {a b : List α}
    (ha : ∀ t ∈ a, P t) (hb : ∀ t ∈ b, P t) : ∀ t ∈ (if c then a else b), P t := by
  split <;> assumption

/-- `w'` holds the same transitions and inputs as `w`. -/
theorem Closed.of_fields {S : Transition → Prop} {w w' : World U} (c : Closed S w)
    (h1 : w'.requests = w.requests) (h2 : w'.pending = w.pending) (h3 : w'.current = w.current)
    (h4 : w'.previous = w.previous) (h5 : w'.ds = w.ds) (h6 : w'.plans = w.plans) : Closed S w' :=
  ⟨by rw [h1]; exact c.requests, by rw [h2]; exact c.pending, by rw [h3]; exact c.current,
   by rw [h4]; exact c.previous, by rw [h5]; exact c.ds, by rw [h6]; exact c.plans⟩

theorem Closed.clearTargets {S : Transition → Prop} {w : World U} (c : Closed S w) : Closed S w.clearTargets := by
  unfold World.clearTargets; split
  · exact c.of_fields rfl rfl rfl rfl rfl rfl
  · exact c

/-- a fresh control object shows no transition lists -/
theorem Closed.freshControl {S : Transition → Prop} {w : World U} (c : Closed S w) : Closed S w.freshControl :=
  ⟨c.requests, (fun _ h => nomatch h), (fun _ h => nomatch h), c.previous, c.ds, c.plans⟩

theorem Closed.snapshot {S : Transition → Prop} {w : World U} (c : Closed S w) (root : Node) (a b : Bool) :
    Closed S (w.snapshot root a b) := c.of_fields rfl rfl rfl rfl rfl rfl

namespace Mach

theorem applyRequest_closed {S : Transition → Prop} (m : Mach U) (t : Transition) (i : Nat) (c : Closed S m.w) :
    Closed S (m.applyRequest t i).w := by
  have c0 := c.snapshot m.root true false
  unfold applyRequest
  dsimp only
  split
  · split
    · exact c0
    · exact ((Steps.refl _).fail' (allow := allowFwd none) _).closed c0
  · split
    · exact (Node.request_steps m.root ⟨_, some i⟩ _ _ (Steps.refl _)).closed c0
    · split
      · exact ((Steps.refl _).fail' (allow := allowFwd none) _).closed c0
      · exact (Node.fwdActive_steps _ ⟨_, some i⟩ _ _ (Steps.refl _)).closed c0

theorem applyRequestNoPin_closed {S : Transition → Prop} (m : Mach U) (t : Transition) (c : Closed S m.w) :
    Closed S (m.applyRequestNoPin t).w := by
  have c0 := c.snapshot m.root true false
  unfold applyRequestNoPin
  dsimp only
  split
  · split
    · exact c0
    · exact ((Steps.refl _).fail' (allow := allowFwd none) _).closed c0
  · split
    · exact (Node.request_steps m.root ⟨_, none⟩ _ _ (Steps.refl _)).closed c0
    · split
      · exact ((Steps.refl _).fail' (allow := allowFwd none) _).closed c0
      · exact (Node.fwdActive_steps _ ⟨_, none⟩ _ _ (Steps.refl _)).closed c0

theorem applyAll_closed {S : Transition → Prop} : (ts : List Transition) → (m : Mach U) → (i : Nat) →
    Closed S m.w → Closed S (m.applyAll ts i).w
  | [], m, i, c => by simp only [applyAll]; exact c
  | t :: rest, m, i, c => by
    simp only [applyAll]
    apply applyAll_closed rest
    split
    · exact applyRequest_closed m t i c
    · exact c

theorem approvedByGuards_closed {S : Transition → Prop} (m : Mach U) (curr pend : List Transition)
    (c : Closed S m.w) (hc : ∀ t ∈ curr, S t) (hp : ∀ t ∈ pend, S t) : Closed S (m.approvedByGuards curr pend).1.w := by
  unfold approvedByGuards
  dsimp only
  have c0 : Closed S (({ m.w.freshControl with pending := pend, current := curr }).snapshot m.root true true) :=
    ⟨c.requests, hp, hc, c.previous, c.ds, c.plans⟩
  have c1 := (Node.fwdExitGuard_steps m.root _ _ (Steps.refl _)).closed c0
  split
  · exact (Node.fwdEntryGuard_steps m.root _ _ (Steps.refl _)).closed c1
  · exact c1

theorem approvedByEntryGuards_closed {S : Transition → Prop} (m : Mach U) (curr pend : List Transition)
    (c : Closed S m.w) (hc : ∀ t ∈ curr, S t) (hp : ∀ t ∈ pend, S t) :
    Closed S (m.approvedByEntryGuards curr pend).1.w := by
  unfold approvedByEntryGuards
  dsimp only
  have c0 : Closed S (({ m.w.freshControl with pending := pend, current := curr }).snapshot m.root true true) :=
    ⟨c.requests, hp, hc, c.previous, c.ds, c.plans⟩
  exact (Node.entryGuard_steps m.root _ _ (Steps.refl _)).closed c0

theorem roundStep_closed {S : Transition → Prop} (initial : Bool) (m : Mach U) (backup : Node)
    (current : List Transition) (c : Closed S m.w) (hc : ∀ t ∈ current, S t) :
    Closed S (roundStep initial m backup current).1.w ∧ ∀ t ∈ (roundStep initial m backup current).2.2.1, S t := by
  have ca := applyAll_closed m.w.requests m 0 c
  have c2 : Closed S ({ (m.applyAll m.w.requests 0).w with requests := [] }) :=
    ⟨(fun _ h => nomatch h), ca.pending, ca.current, ca.previous, ca.ds, ca.plans⟩
  unfold roundStep
  dsimp only
  by_cases hd : ((m.applyAll m.w.requests 0).root.marksDiffer backup) = true
  · simp only [hd, if_true]
    generalize hm2 : ({ (m.applyAll m.w.requests 0) with w := { (m.applyAll m.w.requests 0).w with requests := [] } } : Mach U) = m2
    have c2' : Closed S m2.w := by subst hm2; exact c2
    have cg : Closed S (if initial = true then m2.approvedByEntryGuards current m.w.requests
        else m2.approvedByGuards current m.w.requests).1.w := by
      split
      · exact approvedByEntryGuards_closed _ _ _ c2' hc c.requests
      · exact approvedByGuards_closed _ _ _ c2' hc c.requests
    generalize (if initial = true then m2.approvedByEntryGuards current m.w.requests
        else m2.approvedByGuards current m.w.requests) = r at cg
    obtain ⟨m3, ok⟩ := r
    dsimp only at cg ⊢
    cases ok with
    | true =>
      simp only [if_true]
      refine ⟨cg, ?_⟩
      intro t ht
      rcases List.mem_append.mp ht with h | h
      · exact hc t h
      · exact c.requests t h
    | false =>
      simp only [Bool.false_eq_true, if_false]
      refine ⟨?_, hc⟩
      split
      · exact cg
      · exact cg.clearTargets
  · simp only [hd]
    exact ⟨c2, hc⟩

theorem rounds_closed {S : Transition → Prop} (initial : Bool) : (fuel : Nat) → (m : Mach U) → (backup : Node) →
    (current : List Transition) → Closed S m.w → (∀ t ∈ current, S t) →
    Closed S (rounds initial fuel m backup current).1.w ∧ ∀ t ∈ (rounds initial fuel m backup current).2, S t
  | 0, m, backup, current, c, hc => by rw [rounds_zero]; exact ⟨c, hc⟩
  | fuel+1, m, backup, current, c, hc => by
    rw [rounds_succ]
    split
    · exact ⟨c, hc⟩
    · have h := roundStep_closed initial m backup current c hc
      exact rounds_closed initial fuel _ _ _ h.1 h.2

/-- Processing queued requests neither invents nor alters a transition. -/
theorem processRequest_closed {S : Transition → Prop} (m : Mach U) (c : Closed S m.w) :
    Closed S m.processRequest.w := by
  by_cases hne : m.w.requests.isEmpty = true
  · unfold processRequest
    have h1 : ({ m with w := m.w.clearTargets } : Mach U).w.requests.isEmpty = true := by
      show m.w.clearTargets.requests.isEmpty = true
      rw [World.clearTargets_requests]; exact hne
    rw [if_pos h1]
    have c1 := c.clearTargets
    refine ⟨c1.requests, c1.pending, c1.current, ?_, c1.ds, c1.plans⟩
    dsimp only
    split
    · exact fun _ h => nomatch h
    · exact c1.previous
  · have hne' : m.w.requests.isEmpty = false := by simpa using hne
    rw [processRequest_eq m hne']
    dsimp only
    have hl := rounds_closed (S := S) false m.stepStart.w.cfg.substitutionLimit m.stepStart m.stepStart.root []
      (by unfold stepStart; exact c.clearTargets.freshControl) (fun _ h => nomatch h)
    have c2 : Closed S (if m.stepLoop.2.isEmpty = true then m.stepLoop.1 else
        { m.stepLoop.1 with
          root := (m.stepLoop.1.root.commit (({ m.stepLoop.1.w.freshControl with current := m.stepLoop.2 }).snapshot m.stepLoop.1.root false false)).1,
          w := (m.stepLoop.1.root.commit (({ m.stepLoop.1.w.freshControl with current := m.stepLoop.2 }).snapshot m.stepLoop.1.root false false)).2 }).w := by
      split
      · exact hl.1
      · refine (Node.commit_steps _ _ _ (Steps.refl _)).closed ?_
        exact ⟨hl.1.requests, (fun _ h => nomatch h), hl.2, hl.1.previous, hl.1.ds, hl.1.plans⟩
    rw [updActivity_w]
    exact ⟨c2.requests, c2.pending, c2.current, forall_mem_ite hl.2 c2.previous, c2.ds, c2.plans⟩

/-- `changeTo(id)` … `scheduleWith(id, payload)` through the instance: the queue grows by exactly the
transition `⟨none, dest, kind, payload⟩`, or stays as it is when full. -/
theorem request_requests (m : Mach U) (k : Kind) (dst : Nat) (p : Option Nat) :
    (m.request k dst p).w.requests = m.w.requests ∨
    (m.request k dst p).w.requests = m.w.requests ++ [⟨none, dst, k, p⟩] := by
  unfold request
  dsimp only
  rw [World.logRec_requests]
  split
  · exact .inr rfl
  · exact .inl rfl

theorem request_closed {S : Transition → Prop} (m : Mach U) (k : Kind) (dst : Nat) (p : Option Nat)
    (c : Closed S m.w) (hs : S ⟨none, dst, k, p⟩) : Closed S (m.request k dst p).w := by
  unfold request
  dsimp only
  refine (World.logRec_logOnly _ _).closed ?_
  split
  · refine ⟨?_, c.pending, c.current, c.previous, c.ds, c.plans⟩
    intro t ht
    rcases List.mem_append.mp ht with h | h
    · exact c.requests t h
    · rw [List.mem_singleton.mp h]; exact hs
  · exact c

theorem immediate_closed {S : Transition → Prop} (m : Mach U) (k : Kind) (dst : Nat) (p : Option Nat)
    (c : Closed S m.w) (hs : S ⟨none, dst, k, p⟩) : Closed S (m.immediate k dst p).w :=
  processRequest_closed _ (request_closed m k dst p c hs)

theorem _root_.Hfsm.Closed.clearStatuses {S : Transition → Prop} {w : World U} (c : Closed S w) : Closed S w.clearStatuses :=
  c.of_fields rfl rfl rfl rfl rfl rfl

theorem update_closed {S : Transition → Prop} (m : Mach U) (c : Closed S m.w) : Closed S m.update.w := by
  unfold update
  dsimp only
  refine processRequest_closed _ ?_
  have c0 := (c.freshControl).snapshot m.root true false
  have c1 := (Node.tick_steps .preUpdate rfl m.root _ _ (Steps.refl _)).closed c0
  have c2 := (Node.tick_steps .update rfl m.root _ _ (Steps.refl _)).closed c1
  have c3 := (Node.tick_steps .postUpdate rfl m.root _ _ (Steps.refl _)).closed c2
  show Closed S (if _ then _ else _)
  split
  · exact ((Node.updatePlans_steps m.root _ _ (Steps.refl _)).closed c3).clearStatuses
  · exact c3

theorem react_closed {S : Transition → Prop} (m : Mach U) (c : Closed S m.w) : Closed S m.react.w := by
  unfold react
  dsimp only
  refine processRequest_closed _ ?_
  have c0 := (c.freshControl).snapshot m.root true false
  have c1 := (Node.react_steps .preReact rfl m.w.cfg.topDown false m.root _ _ (Steps.refl _)).closed c0
  have c1' : Closed S { (m.root.react .preReact m.w.cfg.topDown false ((m.w.freshControl).snapshot m.root true false)).1 with consumed := false } :=
    c1.of_fields rfl rfl rfl rfl rfl rfl
  have c2 := (Node.react_steps .react rfl m.w.cfg.topDown false m.root _ _ (Steps.refl _)).closed c1'
  have c2' : Closed S { (m.root.react .react m.w.cfg.topDown false { (m.root.react .preReact m.w.cfg.topDown false ((m.w.freshControl).snapshot m.root true false)).1 with consumed := false }).1 with consumed := false } :=
    c2.of_fields rfl rfl rfl rfl rfl rfl
  have c3 := (Node.react_steps .postReact rfl (!m.w.cfg.topDown) true m.root _ _ (Steps.refl _)).closed c2'
  show Closed S (if _ then _ else _)
  split
  · exact ((Node.updatePlans_steps m.root _ _ (Steps.refl _)).closed c3).clearStatuses
  · exact c3

theorem query_closed {S : Transition → Prop} (m : Mach U) (c : Closed S m.w) : Closed S m.query.w := by
  unfold query
  exact (Node.query_steps m.w.cfg.topDown m.root _ _ (Steps.refl _)).closed ((c.freshControl).snapshot m.root true false)

theorem initialEnter_closed {S : Transition → Prop} (m : Mach U) (c : Closed S m.w) : Closed S m.initialEnter.w := by
  unfold initialEnter
  dsimp only
  rw [updActivity_w]
  have c0 := (c.clearTargets.freshControl).snapshot m.root true false
  have c1 := (Node.request_steps m.root ⟨.change, none⟩ _ _ (Steps.refl _)).closed c0
  generalize m.root.request ⟨.change, none⟩ ((m.w.clearTargets.freshControl).snapshot m.root true false) = r at c1
  obtain ⟨root1, w1⟩ := r
  dsimp only at c1 ⊢
  have c2 := approvedByEntryGuards_closed { m with root := root1, w := w1 } [] [] c1 (fun _ h => nomatch h)
    (fun _ h => nomatch h)
  generalize Mach.approvedByEntryGuards { m with root := root1, w := w1 } [] [] = r2 at c2
  obtain ⟨m2, ok2⟩ := r2
  dsimp only at c2 ⊢
  have hl := rounds_closed (S := S) true m2.w.cfg.substitutionLimit m2 m2.root [] c2 (fun _ h => nomatch h)
  generalize rounds true m2.w.cfg.substitutionLimit m2 m2.root [] = r3 at hl
  obtain ⟨m3, cur3⟩ := r3
  dsimp only at hl ⊢
  refine (Node.enter_steps _ _ _ (Steps.refl _)).closed ?_
  refine Closed.snapshot ?_ _ _ _
  exact ⟨hl.1.requests, (fun _ h => nomatch h), hl.2, forall_mem_ite hl.2 hl.1.previous, hl.1.ds, hl.1.plans⟩

theorem _root_.Hfsm.Closed.clearPlanData {S : Transition → Prop} {w : World U} (c : Closed S w) : Closed S w.clearPlanData := by
  unfold World.clearPlanData
  refine Closed.clearStatuses ⟨c.requests, c.pending, c.current, c.previous, c.ds, ?_⟩
  intro pl hpl tk htk
  rw [List.eq_of_mem_replicate hpl] at htk
  cases htk

theorem finalExit_closedS {S : Transition → Prop} (m : Mach U) (c : Closed S m.w) : Closed S m.finalExit.w := by
  unfold finalExit
  dsimp only
  rw [updActivity_w]
  have c1 := (Node.exit_steps m.root _ _ (Steps.refl _)).closed ((c.freshControl).snapshot m.root false false)
  have c2 := c1.clearPlanData.clearTargets
  exact ⟨(fun _ h => nomatch h), c2.pending, c2.current, (fun _ h => nomatch h), c2.ds, c2.plans⟩

theorem reset_closed {S : Transition → Prop} (m : Mach U) (c : Closed S m.w) : Closed S m.reset.w := by
  unfold reset
  dsimp only
  rw [updActivity_w]
  have c1 := (Node.exit_steps m.root _ _ (Steps.refl _)).closed ((c.freshControl).snapshot m.root false false)
  generalize m.root.exit ((m.w.freshControl).snapshot m.root false false) = r at c1
  obtain ⟨root1, w1⟩ := r
  dsimp only at c1 ⊢
  have c2 := c1.clearTargets
  have c3 : Closed S ({ w1.clearTargets with previous := [] }) :=
    ⟨c2.requests, c2.pending, c2.current, (fun _ h => nomatch h), c2.ds, c2.plans⟩
  have c4 := (Node.request_steps root1.cleared ⟨.change, none⟩ _ _ (Steps.refl _)).closed
    (c3.snapshot root1.cleared true false)
  generalize root1.cleared.request ⟨.change, none⟩ (({ w1.clearTargets with previous := [] }).snapshot root1.cleared true false) = r2 at c4
  obtain ⟨root2, w2⟩ := r2
  dsimp only at c4 ⊢
  exact (Node.enter_steps root2 _ _ (Steps.refl _)).closed (c4.snapshot root2 false false)

theorem setTask_closed {S : Transition → Prop} (m : Mach U) (sid : Nat) (b : Bool) (c : Closed S m.w) :
    Closed S (m.setTask sid b).w := by
  unfold setTask
  split
  · dsimp only
    refine (World.logRec_logOnly _ _).closed ?_
    split <;> exact c.of_fields rfl rfl rfl rfl rfl rfl
  · exact c

/-- `plan(regionId).change(origin, dest)` … through the instance: the task's eventual request must be in `S`. -/
theorem planAppend_closed {S : Transition → Prop} (m : Mach U) (rid : Nat) (t : Task) (c : Closed S m.w)
    (ht : Task.Within S t) : Closed S (m.planAppend rid t).w := by
  unfold planAppend World.planAppend
  dsimp only
  split
  · refine ⟨c.requests, c.pending, c.current, c.previous, c.ds, ?_⟩
    intro pl hpl tk htk
    unfold World.setPlan at hpl
    dsimp only at hpl
    rcases List.mem_or_eq_of_mem_set hpl with h | h
    · exact c.plans pl h tk htk
    · subst h
      rcases List.mem_append.mp htk with h | h
      · obtain ⟨pl', hpl', h'⟩ := List.mem_getD_nil h
        exact c.plans pl' hpl' tk h'
      · rw [List.mem_singleton.mp h]; exact ht
  · exact c

theorem planClear_closed {S : Transition → Prop} (m : Mach U) (rid : Nat) (c : Closed S m.w) :
    Closed S (m.planClear rid).w := by
  unfold planClear
  split
  · exact (World.planClear_actsRel (d := []) m.w _ _ _).closed (fun _ _ _ h => nomatch h) (fun _ _ _ _ h => nomatch h) c
  · exact (World.fail'_logOnly _ _).closed c

theorem loadActive_closed {S : Transition → Prop} (m : Mach U) (st : List Bool) (c : Closed S m.w) :
    Closed S (m.loadActive st).w := by
  unfold loadActive
  split
  · exact (World.fail'_logOnly _ _).closed c
  · dsimp only
    rw [updActivity_w]
    refine (Node.commit_steps _ _ _ (Steps.refl _)).closed ?_
    have c1 := c.clearPlanData.clearTargets
    exact ⟨(fun _ h => nomatch h), (fun _ h => nomatch h), (fun _ h => nomatch h), (fun _ h => nomatch h), c1.ds, c1.plans⟩

theorem loadEnter_closed {S : Transition → Prop} (m : Mach U) (st : List Bool) (c : Closed S m.w) :
    Closed S (m.loadEnter st).w := by
  unfold loadEnter
  split
  · exact (World.fail'_logOnly _ _).closed c
  · dsimp only
    rw [updActivity_w]
    exact (Node.enter_steps _ _ _ (Steps.refl _)).closed ((c.freshControl).snapshot _ false false)

theorem load_closed {S : Transition → Prop} (m : Mach U) (st : List Bool) (c : Closed S m.w) :
    Closed S (m.load st).w := by
  unfold load
  split
  · exact (World.fail'_logOnly _ _).closed c
  · split
    · exact loadActive_closed m _ c
    · split
      · exact loadEnter_closed m _ c
      · exact (World.fail'_logOnly _ _).closed c
  · split
    · split
      · exact finalExit_closedS m c
      · exact c
    · exact (World.fail'_logOnly _ _).closed c

theorem applyRequests_closed {S : Transition → Prop} (m : Mach U) (ts : List Transition) (c : Closed S m.w) :
    Closed S (m.applyRequests ts).1.w :=
  applyRequests_inv (P := fun m' => Closed S m'.w) (fun m' t i h => applyRequest_closed m' t i h)
    (fun m' t h => applyRequestNoPin_closed m' t h) m ts c.freshControl

/-- Replaying a recorded history exposes exactly the recorded transitions. -/
theorem replayTransitions_closed {S : Transition → Prop} (m : Mach U) (ts : List Transition) (c : Closed S m.w)
    (hts : ∀ t ∈ ts, S t) : Closed S (m.replayTransitions ts).1.w := by
  unfold replayTransitions
  dsimp only
  have c1 : Closed S ({ m.w.clearTargets with previous := [] }) :=
    ⟨c.clearTargets.requests, c.clearTargets.pending, c.clearTargets.current, (fun _ h => nomatch h),
     c.clearTargets.ds, c.clearTargets.plans⟩
  split
  · exact c1
  · have c2 := applyRequests_closed { m with w := { m.w.clearTargets with previous := [] } } ts c1
    generalize Mach.applyRequests { m with w := { m.w.clearTargets with previous := [] } } ts = r at c2
    obtain ⟨m2, ch⟩ := r
    dsimp only at c2 ⊢
    split
    · dsimp only
      rw [updActivity_w]
      refine (Node.commit_steps _ _ _ (Steps.refl _)).closed ?_
      exact ⟨c2.requests, (fun _ h => nomatch h), (fun _ h => nomatch h), (fun t h => hts t (List.mem_of_mem_take h)), c2.ds, c2.plans⟩
    · exact c2

theorem replayEnter_closed {S : Transition → Prop} (m : Mach U) (ts : List Transition) (c : Closed S m.w)
    (hts : ∀ t ∈ ts, S t) : Closed S (m.replayEnter ts).1.w := by
  unfold replayEnter
  dsimp only
  split
  · exact c.clearTargets
  · have c0 := (Node.request_steps m.root ⟨.change, none⟩ _ _ (Steps.refl _)).closed
      ((c.clearTargets.freshControl).snapshot m.root true false)
    generalize m.root.request ⟨.change, none⟩ ((m.w.clearTargets.freshControl).snapshot m.root true false) = r0 at c0
    obtain ⟨root1, w1⟩ := r0
    dsimp only at c0 ⊢
    have c2 := applyRequests_closed { m with root := root1, w := w1 } ts c0
    generalize Mach.applyRequests { m with root := root1, w := w1 } ts = r at c2
    obtain ⟨m2, ch⟩ := r
    dsimp only at c2 ⊢
    split
    · dsimp only
      rw [updActivity_w]
      refine (Node.enter_steps _ _ _ (Steps.refl _)).closed ?_
      exact ⟨c2.requests, (fun _ h => nomatch h), (fun _ h => nomatch h), (fun t h => hts t (List.mem_of_mem_take h)), c2.ds, c2.plans⟩
    · exact c2

end Mach
end Hfsm
