/- `World.Ext` for the periodic passes (Model/Dispatch.lean). -/
import Hfsm.Proofs.WorldExtCommit

set_option linter.unusedSectionVars false

namespace Hfsm
variable {U : Type} [UtilArith U]

/-! ### `tick` -/

mutual
theorem Node.tick_ext (ph : Method) : (n : Node) → (w : World U) → World.Ext w (Node.tick ph n w).1
  | .leaf id inj, w => by unfold Node.tick; unroll; all_goals ext_tac
  | .compo id rid inj h st a r q m s, w => by
      have ih1 := Subs.tickAt_ext ph s
      have ih2 := Subs.tickAll_ext ph s
      unfold Node.tick; unroll; all_goals ext_tac
  | .ortho id rid inj h s, w => by
      have ih1 := Subs.tickAt_ext ph s
      have ih2 := Subs.tickAll_ext ph s
      unfold Node.tick; unroll; all_goals ext_tac
theorem Subs.tickAt_ext (ph : Method) : (s : Subs) → (i : Nat) → (w : World U) → World.Ext w (Subs.tickAt ph s i w).1
  | .nil, _, w => by unfold Subs.tickAt; unroll; all_goals ext_tac
  | .cons b n r, 0, w => by
      have ih1 := Node.tick_ext ph n
      unfold Subs.tickAt; unroll; all_goals ext_tac
  | .cons b n r, i+1, w => by
      have ih1 := Subs.tickAt_ext ph r
      unfold Subs.tickAt; unroll; all_goals ext_tac
theorem Subs.tickAll_ext (ph : Method) : (s : Subs) → (w : World U) → World.Ext w (Subs.tickAll ph s w).1
  | .nil, w => by unfold Subs.tickAll; unroll; all_goals ext_tac
  | .cons b n r, w => by
      have ih1 := Node.tick_ext ph n
      have ih2 := Subs.tickAll_ext ph r
      unfold Subs.tickAll; unroll; all_goals ext_tac
end


/-! ### `react` -/

mutual
theorem Node.react_ext (ph : Method) (hf : Bool) (post : Bool) : (n : Node) → (w : World U) → World.Ext w (Node.react ph hf post n w).1
  | .leaf id inj, w => by unfold Node.react; unroll; all_goals ext_tac
  | .compo id rid inj h st a r q m s, w => by
      have ih1 := Subs.reactAt_ext ph hf post s
      have ih2 := Subs.reactAll_ext ph hf post s
      unfold Node.react; unroll; all_goals ext_tac
  | .ortho id rid inj h s, w => by
      have ih1 := Subs.reactAt_ext ph hf post s
      have ih2 := Subs.reactAll_ext ph hf post s
      unfold Node.react; unroll; all_goals ext_tac
theorem Subs.reactAt_ext (ph : Method) (hf : Bool) (post : Bool) : (s : Subs) → (i : Nat) → (w : World U) → World.Ext w (Subs.reactAt ph hf post s i w).1
  | .nil, _, w => by unfold Subs.reactAt; unroll; all_goals ext_tac
  | .cons b n r, 0, w => by
      have ih1 := Node.react_ext ph hf post n
      unfold Subs.reactAt; unroll; all_goals ext_tac
  | .cons b n r, i+1, w => by
      have ih1 := Subs.reactAt_ext ph hf post r
      unfold Subs.reactAt; unroll; all_goals ext_tac
theorem Subs.reactAll_ext (ph : Method) (hf : Bool) (post : Bool) : (s : Subs) → (w : World U) → World.Ext w (Subs.reactAll ph hf post s w).1
  | .nil, w => by unfold Subs.reactAll; unroll; all_goals ext_tac
  | .cons b n r, w => by
      have ih1 := Node.react_ext ph hf post n
      have ih2 := Subs.reactAll_ext ph hf post r
      unfold Subs.reactAll; unroll; all_goals ext_tac
end


/-! ### `query` -/

mutual
theorem Node.query_ext (hf : Bool) : (n : Node) → (w : World U) → World.Ext w (Node.query hf n w)
  | .leaf id inj, w => by unfold Node.query; unroll; all_goals ext_tac
  | .compo id rid inj h st a r q m s, w => by
      have ih1 := Subs.queryAt_ext hf s
      have ih2 := Subs.queryAll_ext hf s
      unfold Node.query; unroll; all_goals ext_tac
  | .ortho id rid inj h s, w => by
      have ih1 := Subs.queryAt_ext hf s
      have ih2 := Subs.queryAll_ext hf s
      unfold Node.query; unroll; all_goals ext_tac
theorem Subs.queryAt_ext (hf : Bool) : (s : Subs) → (i : Nat) → (w : World U) → World.Ext w (Subs.queryAt hf s i w)
  | .nil, _, w => by unfold Subs.queryAt; unroll; all_goals ext_tac
  | .cons b n r, 0, w => by
      have ih1 := Node.query_ext hf n
      unfold Subs.queryAt; unroll; all_goals ext_tac
  | .cons b n r, i+1, w => by
      have ih1 := Subs.queryAt_ext hf r
      unfold Subs.queryAt; unroll; all_goals ext_tac
theorem Subs.queryAll_ext (hf : Bool) : (s : Subs) → (w : World U) → World.Ext w (Subs.queryAll hf s w)
  | .nil, w => by unfold Subs.queryAll; unroll; all_goals ext_tac
  | .cons b n r, w => by
      have ih1 := Node.query_ext hf n
      have ih2 := Subs.queryAll_ext hf r
      unfold Subs.queryAll; unroll; all_goals ext_tac
end


/-! ### plans -/

namespace World

theorem runTasks_ext (hid : Nat) : (l : List Task) → (w : World U) → (clr : Nat) → Ext w (runTasks hid l w clr).2.1
  | [], w, clr => by unfold runTasks; ext_tac
  | t :: rest, w, clr => by
    have ih := runTasks_ext hid rest
    have h1 : Ext w ({ w with origin := some hid } : World U) := Ext.of_eq rfl rfl rfl rfl rfl
    have h2 := ctlRequest_ext ({ w with origin := some hid } : World U) .change t.dest t.payload
    have h3 : Ext w { (({ w with origin := some hid } : World U).ctlRequest .change t.dest t.payload) with origin := w.origin } :=
      Ext.trans (Ext.trans h1 h2) (Ext.of_eq rfl rfl rfl rfl rfl)
    unfold runTasks
    unroll
    · exact Ext.refl w
    · refine Ext.transR (ih _ _) ?_
      exact Ext.trans h3 (Ext.of_eq rfl rfl rfl rfl rfl)
    · exact Ext.transR (ih _ _) h3
    · ext_tac

theorem updatePlan_ext (w : World U) (hid inj : Nat) (h : Bool) (s : TaskStatus) : Ext w (w.updatePlan hid inj h s).1 := by
  unfold updatePlan
  split
  · dsimp only
    refine Ext.transR (stateMethod_ext ..) ?_
    refine Ext.transR (logRec_ext ..) ?_
    exact Ext.of_eq rfl rfl rfl rfl rfl
  · dsimp only
    split
    · have h1 := runTasks_ext hid (w.planOf w.regionId) w 0
      generalize runTasks hid (w.planOf w.regionId) w 0 = res at h1
      obtain ⟨p', w', clr⟩ := res
      dsimp only at h1 ⊢
      refine Ext.trans h1 ?_
      exact Ext.transR (b := w'.setPlan w'.regionId p') (Ext.of_eq rfl rfl rfl rfl rfl) (setPlan_ext ..)
    · refine Ext.transR (stateMethod_ext ..) ?_
      refine Ext.transR (logRec_ext ..) ?_
      exact Ext.of_eq rfl rfl rfl rfl rfl
  · exact Ext.refl w

end World

mutual
theorem Node.updatePlans_ext : (n : Node) → (w : World U) → World.Ext w (Node.updatePlans n w).1
  | .leaf id inj, w => by unfold Node.updatePlans; unroll; all_goals ext_tac
  | .compo id rid inj h st a r q m s, w => by
      unfold Node.updatePlans; unroll; all_goals ext_tac
  | .ortho id rid inj h s, w => by
      unfold Node.updatePlans; unroll; all_goals ext_tac
theorem Subs.updatePlansAt_ext : (s : Subs) → (i : Nat) → (w : World U) → World.Ext w (Subs.updatePlansAt s i w).1
  | .nil, _, w => by unfold Subs.updatePlansAt; unroll; all_goals ext_tac
  | .cons b n r, 0, w => by unfold Subs.updatePlansAt; unroll; all_goals ext_tac
  | .cons b n r, i+1, w => by unfold Subs.updatePlansAt; unroll; all_goals ext_tac
theorem Subs.updatePlansAll_ext : (s : Subs) → (w : World U) → World.Ext w (Subs.updatePlansAll s w).1
  | .nil, w => by unfold Subs.updatePlansAll; unroll; all_goals ext_tac
  | .cons b n r, w => by unfold Subs.updatePlansAll; unroll; all_goals ext_tac
end

end Hfsm
