/-
Consequences of `LoopRun` (Proofs/Rounds.lean) that only talk about the list of events: the number of
guard phases, the absence of lifecycle events inside the loop.
-/
import Hfsm.Proofs.Process

set_option linter.unusedSectionVars false

namespace Hfsm
variable {U : Type}

/-- number of maximal runs of equal consecutive elements -/
def runs {α : Type} [DecidableEq α] : List α → Nat
  | [] => 0
  | [_] => 1
  | a :: b :: l => (if a = b then 0 else 1) + runs (b :: l)

theorem runs_pos {α : Type} [DecidableEq α] : (a : α) → (l : List α) → 1 ≤ runs (a :: l)
  | _, [] => by simp [runs]
  | a, b :: l => by
    have := runs_pos b l
    simp only [runs]; omega

theorem runs_cons_le {α : Type} [DecidableEq α] (a : α) : (l : List α) → runs (a :: l) ≤ 1 + runs l
  | [] => by simp [runs]
  | b :: l => by
    simp only [runs]
    have := runs_pos b l
    split <;> omega

theorem runs_append_le {α : Type} [DecidableEq α] : (a b : List α) → runs (a ++ b) ≤ runs a + runs b
  | [], b => by simp [runs]
  | [x], b => by
    simp only [List.singleton_append, runs]
    exact runs_cons_le x b
  | x :: y :: l, b => by
    simp only [List.cons_append, runs]
    have := runs_append_le (y :: l) b
    simp only [List.cons_append] at this
    omega

theorem runs_replicate_le {α : Type} [DecidableEq α] (x : α) : (k : Nat) → runs (List.replicate k x) ≤ 1
  | 0 => by simp [runs]
  | 1 => by simp [runs]
  | k+2 => by
    simp only [List.replicate_succ, runs, if_true]
    have := runs_replicate_le x (k+1)
    simp only [List.replicate_succ] at this
    omega

/-- the `pendingTransitions` a guard callback event shows -/
def Event.guardPend? : Event U → Option (List Transition)
  | .cb _ m _ _ pend _ => if m.cls = .guard then some pend else none
  | .log _ => none

/-- the `pendingTransitions` shown by the guard callbacks among `evs`, in trace order -/
def guardPends (evs : List (Event U)) : List (List Transition) := evs.filterMap Event.guardPend?

theorem guardPends_fwd (evs : List (Event U)) (h : ∀ e ∈ evs, FwdEv e) : guardPends evs = [] := by
  unfold guardPends
  rw [List.filterMap_eq_nil_iff]
  intro e he
  cases e with
  | log r => rfl
  | cb sid m slot obs p c =>
    have hc : m.cls = .const := (h _ he).1
    simp only [Event.guardPend?]
    rw [if_neg]
    intro hg; rw [hg] at hc; cases hc

theorem guardPends_guard (g : Method) (hg : g.cls = .guard) (pend curr : List Transition) :
    (evs : List (Event U)) → (∀ e ∈ evs, GuardEv g pend curr e) → ∃ k, guardPends evs = List.replicate k pend
  | [], _ => ⟨0, rfl⟩
  | e :: rest, h => by
    obtain ⟨k, hk⟩ := guardPends_guard g hg pend curr rest (fun e' h' => h e' (List.mem_cons_of_mem _ h'))
    cases e with
    | log r =>
      refine ⟨k, ?_⟩
      unfold guardPends at hk ⊢
      simp only [List.filterMap_cons, Event.guardPend?, hk]
    | cb sid m slot obs p c =>
      have he := h _ List.mem_cons_self
      have hm : m = g := he.1
      have hp : p = pend := he.2.1
      refine ⟨k+1, ?_⟩
      unfold guardPends at hk ⊢
      simp only [List.filterMap_cons, Event.guardPend?, hm, hg, if_true, hk, hp, List.replicate_succ]

theorem List.replicate_append_same {α : Type} (a b : Nat) (x : α) :
    List.replicate a x ++ List.replicate b x = List.replicate (a + b) x := by
  simp [List.replicate_append_replicate]

/-- (a) at the level of the trace: the guard callbacks of one run of the loop show at most `n` different
consecutive pending lists. -/
theorem LoopRun.guard_phases_le {n : Nat} {curr : List Transition} {evs : List (Event U)}
    {recs : List (List Transition × Mach.Outcome)} (h : LoopRun n curr evs recs) :
    runs (guardPends evs) ≤ n := by
  induction h with
  | done n curr => simp [guardPends, runs]
  | round pend o fwd exit entry rest recs hne hf hx he hu hr ih =>
    obtain ⟨k1, h1⟩ := guardPends_guard .exitGuard rfl pend _ exit hx
    obtain ⟨k2, h2⟩ := guardPends_guard .entryGuard rfl pend _ entry he
    have h3 := guardPends_fwd fwd hf
    have : guardPends (rest ++ (entry ++ exit ++ fwd)) = guardPends rest ++ List.replicate (k2 + k1) pend := by
      unfold guardPends at h1 h2 h3 ⊢
      simp only [List.filterMap_append, h1, h2, h3, List.append_nil, List.replicate_append_same]
    rw [this]
    have := runs_append_le (guardPends rest) (List.replicate (k2 + k1) pend)
    have := runs_replicate_le pend (k2 + k1)
    omega

/-- the number of rounds equals the length of the log -/
theorem LoopRun.recs_length_le {n : Nat} {curr : List Transition} {evs : List (Event U)}
    {recs : List (List Transition × Mach.Outcome)} (h : LoopRun n curr evs recs) : recs.length ≤ n := by
  induction h with
  | done n curr => exact Nat.zero_le _
  | round pend o fwd exit entry rest recs hne hf hx he hu hr ih => simp only [List.length_cons]; omega

/-- an event of the loop is never a lifecycle callback -/
def NotLife : Event U → Prop
  | .cb _ m _ _ _ _ => m.cls ≠ .plan
  | .log _ => True

theorem LoopRun.no_lifecycle {n : Nat} {curr : List Transition} {evs : List (Event U)}
    {recs : List (List Transition × Mach.Outcome)} (h : LoopRun n curr evs recs) : ∀ e ∈ evs, NotLife e := by
  induction h with
  | done n curr => exact fun _ h => nomatch h
  | round pend o fwd exit entry rest recs hne hf hx he hu hr ih =>
    intro e hmem
    rcases List.mem_append.mp hmem with h | h
    · exact ih e h
    · cases e with
      | log r => trivial
      | cb sid m slot obs p c =>
        show m.cls ≠ .plan
        rcases List.mem_append.mp h with h | h
        · rcases List.mem_append.mp h with h | h
          · have : m = .entryGuard := (he _ h).1
            rw [this]; decide
          · have : m = .exitGuard := (hx _ h).1
            rw [this]; decide
        · have : m.cls = .const := (hf _ h).1
          rw [this]; decide

end Hfsm
