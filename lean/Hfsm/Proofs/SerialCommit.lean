/-
What the commit pass (`deepChangeToRequested`) resp. `deepEnter` makes of a tree that carries the
request marks laid down by `loadRequested`: the saved configuration, region by region.

  reqFrom d s    `d` with `requested := s.active` on the regions active in `s`, nothing else changed
  mergeReq d s = (reqFrom d s).withResumableOf s

Resumable marks are handled last: `load` overwrites all of them with the loaded ones after the pass,
so the pass is analysed up to resumable marks (`noResumable` as a normal form).
-/
import Hfsm.Proofs.SerialTree
import Hfsm.Proofs.CommitTree

namespace Hfsm

mutual
def Node.reqFrom : Node → Node → Node
  | .compo id rid inj h sg a r _ m s, .compo _ _ _ _ _ a' _ _ _ s' =>
      .compo id rid inj h sg a r a' m (s.reqFromAt s' (a'.getD 0))
  | .ortho id rid inj h s, .ortho _ _ _ _ s' => .ortho id rid inj h (s.reqFromAll s')
  | n, _ => n
def Subs.reqFromAt : Subs → Subs → Nat → Subs
  | .cons b n r, .cons _ n' _, 0 => .cons b (n.reqFrom n') r
  | .cons b n r, .cons _ _ r', i+1 => .cons b n (r.reqFromAt r' i)
  | s, _, _ => s
def Subs.reqFromAll : Subs → Subs → Subs
  | .cons b n r, .cons _ n' r' => .cons b (n.reqFrom n') (r.reqFromAll r')
  | s, _ => s
end

mutual
theorem Node.mergeReq_eq : (d s : Node) → d.sameShape s → d.mergeReq s = (d.reqFrom s).withResumableOf s
  | .leaf .., .leaf .., _ => rfl
  | .leaf .., .compo .., h => by simp [Node.sameShape, Node.cleared] at h
  | .leaf .., .ortho .., h => by simp [Node.sameShape, Node.cleared] at h
  | .compo .., .leaf .., h => by simp [Node.sameShape, Node.cleared] at h
  | .compo .., .ortho .., h => by simp [Node.sameShape, Node.cleared] at h
  | .ortho .., .leaf .., h => by simp [Node.sameShape, Node.cleared] at h
  | .ortho .., .compo .., h => by simp [Node.sameShape, Node.cleared] at h
  | .compo _ _ _ _ _ _ _ _ _ ds, .compo _ _ _ _ _ a' _ _ _ ss, h => by
    obtain ⟨_, _, _, _, _, hss⟩ := Node.sameShape_compo h
    simp only [Node.mergeReq, Node.reqFrom, Node.withResumableOf]
    rw [Subs.mergeReqAt_eq ds ss (a'.getD 0) hss]
  | .ortho _ _ _ _ ds, .ortho _ _ _ _ ss, h => by
    obtain ⟨_, _, _, _, hss⟩ := Node.sameShape_ortho h
    simp only [Node.mergeReq, Node.reqFrom, Node.withResumableOf]
    rw [Subs.mergeReqAll_eq ds ss hss]
theorem Subs.mergeReqAt_eq : (d s : Subs) → (i : Nat) → d.sameShape s →
    d.mergeReqAt s i = (d.reqFromAt s i).withResumableOf s
  | .nil, .nil, _, _ => rfl
  | .nil, .cons .., _, h => by simp [Subs.sameShape, Subs.cleared] at h
  | .cons .., .nil, _, h => by simp [Subs.sameShape, Subs.cleared] at h
  | .cons b n r, .cons b' n' r', 0, h => by
    obtain ⟨hn, _⟩ := Subs.sameShape_cons h
    simp only [Subs.mergeReqAt, Subs.reqFromAt, Subs.withResumableOf]
    rw [Node.mergeReq_eq n n' hn]
  | .cons b n r, .cons b' n' r', i+1, h => by
    obtain ⟨_, hrr⟩ := Subs.sameShape_cons h
    simp only [Subs.mergeReqAt, Subs.reqFromAt, Subs.withResumableOf]
    rw [Subs.mergeReqAt_eq r r' i hrr]
theorem Subs.mergeReqAll_eq : (d s : Subs) → d.sameShape s →
    d.mergeReqAll s = (d.reqFromAll s).withResumableOf s
  | .nil, .nil, _ => rfl
  | .nil, .cons .., h => by simp [Subs.sameShape, Subs.cleared] at h
  | .cons .., .nil, h => by simp [Subs.sameShape, Subs.cleared] at h
  | .cons b n r, .cons b' n' r', h => by
    obtain ⟨hn, hrr⟩ := Subs.sameShape_cons h
    simp only [Subs.mergeReqAll, Subs.reqFromAll, Subs.withResumableOf]
    rw [Node.mergeReq_eq n n' hn, Subs.mergeReqAll_eq r r' hrr]
end

/-! ### `noResumable` as a normal form -/

mutual
theorem Node.noResumable_withResumableOf : (d s : Node) → (d.withResumableOf s).noResumable = d.noResumable
  | .leaf .., _ => rfl
  | .compo _ _ _ _ _ _ _ _ _ ds, .compo _ _ _ _ _ _ _ _ _ ss => by
    simp only [Node.withResumableOf, Node.noResumable]
    rw [Subs.noResumable_withResumableOf ds ss]
  | .compo .., .leaf .. => rfl
  | .compo .., .ortho .. => rfl
  | .ortho _ _ _ _ ds, .ortho _ _ _ _ ss => by
    simp only [Node.withResumableOf, Node.noResumable]
    rw [Subs.noResumable_withResumableOf ds ss]
  | .ortho .., .leaf .. => rfl
  | .ortho .., .compo .. => rfl
theorem Subs.noResumable_withResumableOf : (d s : Subs) → (d.withResumableOf s).noResumable = d.noResumable
  | .nil, _ => rfl
  | .cons _ _ _, .nil => rfl
  | .cons _ n r, .cons _ n' r' => by
    simp only [Subs.withResumableOf, Subs.noResumable]
    rw [Node.noResumable_withResumableOf n n', Subs.noResumable_withResumableOf r r']
end

mutual
theorem Node.noResumable_idem : (n : Node) → n.noResumable.noResumable = n.noResumable
  | .leaf .. => rfl
  | .compo _ _ _ _ _ _ _ _ _ s => by simp only [Node.noResumable]; rw [Subs.noResumable_idem s]
  | .ortho _ _ _ _ s => by simp only [Node.noResumable]; rw [Subs.noResumable_idem s]
theorem Subs.noResumable_idem : (s : Subs) → s.noResumable.noResumable = s.noResumable
  | .nil => rfl
  | .cons _ n r => by simp only [Subs.noResumable]; rw [Node.noResumable_idem n, Subs.noResumable_idem r]
end

-- a clean, unmarked tree is its static skeleton up to resumable marks
mutual
theorem Node.noResumable_of_clean : (n : Node) → n.Clean → n.NoMarks → n.noResumable = n.cleared
  | .leaf .., _, _ => rfl
  | .compo _ _ _ _ _ a _ q m s, hc, hm => by
    simp only [Node.Clean] at hc
    simp only [Node.NoMarks] at hm
    obtain ⟨rfl, hc⟩ := hc
    obtain ⟨rfl, rfl, hm⟩ := hm
    simp only [Node.noResumable, Node.cleared]
    rw [Subs.noResumable_of_clean s hc hm]
  | .ortho _ _ _ _ s, hc, hm => by
    simp only [Node.Clean] at hc
    simp only [Node.NoMarks] at hm
    simp only [Node.noResumable, Node.cleared]
    rw [Subs.noResumable_of_clean s hc hm]
theorem Subs.noResumable_of_clean : (s : Subs) → s.CleanAll → s.NoMarksAll → s.noResumable = s.cleared
  | .nil, _, _ => rfl
  | .cons b n r, hc, hm => by
    simp only [Subs.CleanAll] at hc
    simp only [Subs.NoMarksAll] at hm
    obtain ⟨rfl, hmn, hmr⟩ := hm
    simp only [Subs.noResumable, Subs.cleared]
    rw [Node.noResumable_of_clean n hc.1 hmn, Subs.noResumable_of_clean r hc.2 hmr]
end

theorem Node.noResumable_clean_eq {x y : Node} (hx : x.Clean) (hxm : x.NoMarks) (hy : y.Clean) (hym : y.NoMarks)
    (h : x.sameShape y) : x.noResumable = y.noResumable := by
  rw [Node.noResumable_of_clean x hx hxm, Node.noResumable_of_clean y hy hym]; exact h

theorem Subs.noResumable_clean_eq {x y : Subs} (hx : x.CleanAll) (hxm : x.NoMarksAll) (hy : y.CleanAll)
    (hym : y.NoMarksAll) (h : x.sameShape y) : x.noResumable = y.noResumable := by
  rw [Subs.noResumable_of_clean x hx hxm, Subs.noResumable_of_clean y hy hym]; exact h

/-! ### the passes do not look at resumable marks (except to write them) -/

mutual
theorem Node.exitT_nr : (n : Node) → n.exitT.noResumable = n.noResumable.exitT.noResumable
  | .leaf .. => rfl
  | .compo _ _ _ _ _ a _ _ _ s => by
    cases a with
    | none => simp only [Node.exitT, Node.noResumable]; rw [Subs.noResumable_idem]
    | some ai => simp only [Node.exitT, Node.noResumable]; rw [Subs.exitAtT_nr s ai]
  | .ortho _ _ _ _ s => by simp only [Node.exitT, Node.noResumable]; rw [Subs.exitAllT_nr s]
theorem Subs.exitAtT_nr : (s : Subs) → (i : Nat) → (s.exitAtT i).noResumable = (s.noResumable.exitAtT i).noResumable
  | .nil, _ => rfl
  | .cons _ n r, 0 => by
    simp only [Subs.exitAtT, Subs.noResumable]; rw [Node.exitT_nr n, Subs.noResumable_idem]
  | .cons _ n r, i+1 => by
    simp only [Subs.exitAtT, Subs.noResumable]; rw [Subs.exitAtT_nr r i, Node.noResumable_idem]
theorem Subs.exitAllT_nr : (s : Subs) → s.exitAllT.noResumable = s.noResumable.exitAllT.noResumable
  | .nil => rfl
  | .cons _ n r => by
    simp only [Subs.exitAllT, Subs.noResumable]; rw [Node.exitT_nr n, Subs.exitAllT_nr r]
end

mutual
theorem Node.enterT_nr : (n : Node) → n.enterT.noResumable = n.noResumable.enterT.noResumable
  | .leaf .. => rfl
  | .compo _ _ _ _ _ _ _ q _ s => by
    cases q with
    | none => simp only [Node.enterT, Node.noResumable]; rw [Subs.noResumable_idem]
    | some qi => simp only [Node.enterT, Node.noResumable]; rw [Subs.enterAtT_nr s qi]
  | .ortho _ _ _ _ s => by simp only [Node.enterT, Node.noResumable]; rw [Subs.enterAllT_nr s]
theorem Subs.enterAtT_nr : (s : Subs) → (i : Nat) → (s.enterAtT i).noResumable = (s.noResumable.enterAtT i).noResumable
  | .nil, _ => rfl
  | .cons _ n r, 0 => by
    simp only [Subs.enterAtT, Subs.noResumable]; rw [Node.enterT_nr n, Subs.noResumable_idem]
  | .cons _ n r, i+1 => by
    simp only [Subs.enterAtT, Subs.noResumable]; rw [Subs.enterAtT_nr r i, Node.noResumable_idem]
theorem Subs.enterAllT_nr : (s : Subs) → s.enterAllT.noResumable = s.noResumable.enterAllT.noResumable
  | .nil => rfl
  | .cons _ n r => by
    simp only [Subs.enterAllT, Subs.noResumable]; rw [Node.enterT_nr n, Subs.enterAllT_nr r]
end

theorem Subs.switchT_nr (s : Subs) (ai qi : Nat) :
    ((s.exitAtT ai).enterAtT qi).noResumable = ((s.noResumable.exitAtT ai).enterAtT qi).noResumable := by
  rw [Subs.enterAtT_nr, Subs.exitAtT_nr, ← Subs.enterAtT_nr]

mutual
theorem Node.reenterT_nr : (n : Node) → n.reenterT.noResumable = n.noResumable.reenterT.noResumable
  | .leaf .. => rfl
  | .compo _ _ _ _ _ a _ q _ s => by
    cases a with
    | none => simp only [Node.reenterT, Node.noResumable]; rw [Subs.noResumable_idem]
    | some ai =>
      cases q with
      | none => simp only [Node.reenterT, Node.noResumable]; rw [Subs.noResumable_idem]
      | some qi =>
        simp only [Node.reenterT, Node.noResumable]
        by_cases e : ai = qi
        · simp only [e, if_true, Node.noResumable]; rw [Subs.reenterAtT_nr s qi]
        · simp only [e, if_false, Node.noResumable]; rw [Subs.switchT_nr s ai qi]
  | .ortho _ _ _ _ s => by simp only [Node.reenterT, Node.noResumable]; rw [Subs.reenterAllT_nr s]
theorem Subs.reenterAtT_nr : (s : Subs) → (i : Nat) →
    (s.reenterAtT i).noResumable = (s.noResumable.reenterAtT i).noResumable
  | .nil, _ => rfl
  | .cons _ n r, 0 => by
    simp only [Subs.reenterAtT, Subs.noResumable]; rw [Node.reenterT_nr n, Subs.noResumable_idem]
  | .cons _ n r, i+1 => by
    simp only [Subs.reenterAtT, Subs.noResumable]; rw [Subs.reenterAtT_nr r i, Node.noResumable_idem]
theorem Subs.reenterAllT_nr : (s : Subs) → s.reenterAllT.noResumable = s.noResumable.reenterAllT.noResumable
  | .nil => rfl
  | .cons _ n r => by
    simp only [Subs.reenterAllT, Subs.noResumable]; rw [Node.reenterT_nr n, Subs.reenterAllT_nr r]
end

mutual
theorem Node.commitT_nr : (n : Node) → n.commitT.noResumable = n.noResumable.commitT.noResumable
  | .leaf .. => rfl
  | .compo _ _ _ _ _ a _ q m s => by
    cases a with
    | none => simp only [Node.commitT, Node.noResumable]; rw [Subs.noResumable_idem]
    | some ai =>
      cases q with
      | none => simp only [Node.commitT, Node.noResumable]; rw [Subs.commitAtT_nr s ai]
      | some qi =>
        simp only [Node.commitT, Node.noResumable]
        by_cases e : qi = ai
        · cases m with
          | true =>
            simp only [e, ne_eq, not_true_eq_false, if_false, if_true, Node.noResumable]
            rw [Subs.switchT_nr s ai ai]
          | false =>
            simp only [e, ne_eq, not_true_eq_false, if_false, Bool.false_eq_true, Node.noResumable]
            rw [Subs.reenterAtT_nr s ai]
        · simp only [e, ne_eq, not_false_eq_true, if_true, Node.noResumable]
          rw [Subs.switchT_nr s ai qi]
  | .ortho _ _ _ _ s => by simp only [Node.commitT, Node.noResumable]; rw [Subs.commitAllT_nr s]
theorem Subs.commitAtT_nr : (s : Subs) → (i : Nat) →
    (s.commitAtT i).noResumable = (s.noResumable.commitAtT i).noResumable
  | .nil, _ => rfl
  | .cons _ n r, 0 => by
    simp only [Subs.commitAtT, Subs.noResumable]; rw [Node.commitT_nr n, Subs.noResumable_idem]
  | .cons _ n r, i+1 => by
    simp only [Subs.commitAtT, Subs.noResumable]; rw [Subs.commitAtT_nr r i, Node.noResumable_idem]
theorem Subs.commitAllT_nr : (s : Subs) → s.commitAllT.noResumable = s.noResumable.commitAllT.noResumable
  | .nil => rfl
  | .cons _ n r => by
    simp only [Subs.commitAllT, Subs.noResumable]; rw [Node.commitT_nr n, Subs.commitAllT_nr r]
end

/-! ### exit of an active sub-tree leaves a clean one -/

mutual
theorem Node.exitT_cleared : (n : Node) → n.Act → n.NoMarks → n.exitT.noResumable = n.cleared
  | .leaf .., _, _ => rfl
  | .compo _ _ _ _ _ a _ q m s, ha, hm => by
    simp only [Node.NoMarks] at hm
    obtain ⟨rfl, rfl, hm⟩ := hm
    cases a with
    | none => simp [Node.Act] at ha
    | some ai =>
      simp only [Node.Act] at ha
      simp only [Node.exitT, Node.noResumable, Node.cleared]
      rw [Subs.exitAtT_cleared s ai ha hm]
  | .ortho _ _ _ _ s, ha, hm => by
    simp only [Node.Act] at ha
    simp only [Node.NoMarks] at hm
    simp only [Node.exitT, Node.noResumable, Node.cleared]
    rw [Subs.exitAllT_cleared s ha hm]
theorem Subs.exitAtT_cleared : (s : Subs) → (i : Nat) → s.ActAt i → s.NoMarksAll →
    (s.exitAtT i).noResumable = s.cleared
  | .nil, _, ha, _ => by simp [Subs.ActAt] at ha
  | .cons b n r, 0, ha, hm => by
    simp only [Subs.ActAt] at ha
    simp only [Subs.NoMarksAll] at hm
    obtain ⟨rfl, hmn, hmr⟩ := hm
    simp only [Subs.exitAtT, Subs.noResumable, Subs.cleared]
    rw [Node.exitT_cleared n ha.1 hmn, Subs.noResumable_of_clean r ha.2 hmr]
  | .cons b n r, i+1, ha, hm => by
    simp only [Subs.ActAt] at ha
    simp only [Subs.NoMarksAll] at hm
    obtain ⟨rfl, hmn, hmr⟩ := hm
    simp only [Subs.exitAtT, Subs.noResumable, Subs.cleared]
    rw [Subs.exitAtT_cleared r i ha.2 hmr, Node.noResumable_of_clean n ha.1 hmn]
theorem Subs.exitAllT_cleared : (s : Subs) → s.ActAll → s.NoMarksAll → s.exitAllT.noResumable = s.cleared
  | .nil, _, _ => rfl
  | .cons b n r, ha, hm => by
    simp only [Subs.ActAll] at ha
    simp only [Subs.NoMarksAll] at hm
    obtain ⟨rfl, hmn, hmr⟩ := hm
    simp only [Subs.exitAllT, Subs.noResumable, Subs.cleared]
    rw [Node.exitT_cleared n ha.1 hmn, Subs.exitAllT_cleared r ha.2 hmr]
end

theorem Subs.ActAt_zero_clean {b : Bool} {n : Node} {r : Subs} (h : (Subs.cons b n r).ActAt 0) :
    n.Act ∧ r.CleanAll := by simpa [Subs.ActAt] using h

/-! ### entering a clean tree along the loaded marks yields the saved configuration -/

mutual
theorem Node.enterT_reqFrom : (d s : Node) → d.sameShape s → d.Clean → d.NoMarks → s.Act → s.NoMarks →
    (d.reqFrom s).enterT.noResumable = s.noResumable
  | .leaf .., .leaf .., h, _, _, _, _ => by
    simp only [Node.sameShape, Node.cleared] at h
    simp only [Node.reqFrom, Node.enterT, Node.noResumable]; exact h
  | .leaf .., .compo .., h, _, _, _, _ => by simp [Node.sameShape, Node.cleared] at h
  | .leaf .., .ortho .., h, _, _, _, _ => by simp [Node.sameShape, Node.cleared] at h
  | .compo .., .leaf .., h, _, _, _, _ => by simp [Node.sameShape, Node.cleared] at h
  | .compo .., .ortho .., h, _, _, _, _ => by simp [Node.sameShape, Node.cleared] at h
  | .ortho .., .leaf .., h, _, _, _, _ => by simp [Node.sameShape, Node.cleared] at h
  | .ortho .., .compo .., h, _, _, _, _ => by simp [Node.sameShape, Node.cleared] at h
  | .compo id rid inj hd sg a r q m ds, .compo id' rid' inj' hd' sg' a' r' q' m' ss, h, hc, hm, ha, hm' => by
    obtain ⟨rfl, rfl, rfl, rfl, rfl, hss⟩ := Node.sameShape_compo h
    simp only [Node.Clean] at hc
    simp only [Node.NoMarks] at hm hm'
    obtain ⟨rfl, rfl, hmd⟩ := hm
    obtain ⟨rfl, rfl, hms⟩ := hm'
    cases a' with
    | none => simp [Node.Act] at ha
    | some si =>
      simp only [Node.Act] at ha
      simp only [Node.reqFrom, Node.enterT, Node.noResumable, Option.getD_some]
      rw [Subs.enterAtT_reqFrom ds ss si hss hc.2 hmd ha hms]
  | .ortho id rid inj hd ds, .ortho id' rid' inj' hd' ss, h, hc, hm, ha, hm' => by
    obtain ⟨rfl, rfl, rfl, rfl, hss⟩ := Node.sameShape_ortho h
    simp only [Node.Clean] at hc
    simp only [Node.NoMarks] at hm hm'
    simp only [Node.Act] at ha
    simp only [Node.reqFrom, Node.enterT, Node.noResumable]
    rw [Subs.enterAllT_reqFrom ds ss hss hc hm ha hm']
theorem Subs.enterAtT_reqFrom : (d s : Subs) → (i : Nat) → d.sameShape s → d.CleanAll → d.NoMarksAll →
    s.ActAt i → s.NoMarksAll → ((d.reqFromAt s i).enterAtT i).noResumable = s.noResumable
  | .nil, .nil, _, _, _, _, ha, _ => by simp [Subs.ActAt] at ha
  | .nil, .cons .., _, h, _, _, _, _ => by simp [Subs.sameShape, Subs.cleared] at h
  | .cons .., .nil, _, h, _, _, _, _ => by simp [Subs.sameShape, Subs.cleared] at h
  | .cons b n r, .cons b' n' r', 0, h, hc, hm, ha, hm' => by
    obtain ⟨hn, hrr⟩ := Subs.sameShape_cons h
    simp only [Subs.CleanAll] at hc
    simp only [Subs.NoMarksAll] at hm hm'
    simp only [Subs.ActAt] at ha
    obtain ⟨rfl, hmn, hmr⟩ := hm
    obtain ⟨rfl, hmn', hmr'⟩ := hm'
    simp only [Subs.reqFromAt, Subs.enterAtT, Subs.noResumable]
    rw [Node.enterT_reqFrom n n' hn hc.1 hmn ha.1 hmn', Subs.noResumable_clean_eq hc.2 hmr ha.2 hmr' hrr]
  | .cons b n r, .cons b' n' r', i+1, h, hc, hm, ha, hm' => by
    obtain ⟨hn, hrr⟩ := Subs.sameShape_cons h
    simp only [Subs.CleanAll] at hc
    simp only [Subs.NoMarksAll] at hm hm'
    simp only [Subs.ActAt] at ha
    obtain ⟨rfl, hmn, hmr⟩ := hm
    obtain ⟨rfl, hmn', hmr'⟩ := hm'
    simp only [Subs.reqFromAt, Subs.enterAtT, Subs.noResumable]
    rw [Subs.enterAtT_reqFrom r r' i hrr hc.2 hmr ha.2 hmr', Node.noResumable_clean_eq hc.1 hmn ha.1 hmn' hn]
theorem Subs.enterAllT_reqFrom : (d s : Subs) → d.sameShape s → d.CleanAll → d.NoMarksAll →
    s.ActAll → s.NoMarksAll → (d.reqFromAll s).enterAllT.noResumable = s.noResumable
  | .nil, .nil, _, _, _, _, _ => rfl
  | .nil, .cons .., h, _, _, _, _ => by simp [Subs.sameShape, Subs.cleared] at h
  | .cons .., .nil, h, _, _, _, _ => by simp [Subs.sameShape, Subs.cleared] at h
  | .cons b n r, .cons b' n' r', h, hc, hm, ha, hm' => by
    obtain ⟨hn, hrr⟩ := Subs.sameShape_cons h
    simp only [Subs.CleanAll] at hc
    simp only [Subs.NoMarksAll] at hm hm'
    simp only [Subs.ActAll] at ha
    obtain ⟨rfl, hmn, hmr⟩ := hm
    obtain ⟨rfl, hmn', hmr'⟩ := hm'
    simp only [Subs.reqFromAll, Subs.enterAllT, Subs.noResumable]
    rw [Node.enterT_reqFrom n n' hn hc.1 hmn ha.1 hmn', Subs.enterAllT_reqFrom r r' hrr hc.2 hmr ha.2 hmr']
end

/-! ### a region whose loaded prong differs from its active prong: exit the old, enter the new -/

theorem Subs.switchT_reqFrom : (d s : Subs) → (ai si : Nat) → ai ≠ si → d.sameShape s → d.ActAt ai →
    d.NoMarksAll → s.ActAt si → s.NoMarksAll →
    (((d.reqFromAt s si).exitAtT ai).enterAtT si).noResumable = s.noResumable
  | .nil, .nil, _, _, _, _, ha, _, _, _ => by simp [Subs.ActAt] at ha
  | .nil, .cons .., _, _, _, h, _, _, _, _ => by simp [Subs.sameShape, Subs.cleared] at h
  | .cons .., .nil, _, _, _, h, _, _, _, _ => by simp [Subs.sameShape, Subs.cleared] at h
  | .cons b n r, .cons b' n' r', 0, 0, hne, _, _, _, _, _ => absurd rfl hne
  | .cons b n r, .cons b' n' r', 0, sj+1, _, h, hd, hm, ha, hm' => by
    obtain ⟨hn, hrr⟩ := Subs.sameShape_cons h
    simp only [Subs.NoMarksAll] at hm hm'
    simp only [Subs.ActAt] at ha hd
    obtain ⟨rfl, hmn, hmr⟩ := hm
    obtain ⟨rfl, hmn', hmr'⟩ := hm'
    simp only [Subs.reqFromAt, Subs.exitAtT, Subs.enterAtT, Subs.noResumable]
    rw [Node.exitT_cleared n hd.1 hmn, Subs.enterAtT_reqFrom r r' sj hrr hd.2 hmr ha.2 hmr',
      Node.noResumable_of_clean n' ha.1 hmn']
    rw [hn]
  | .cons b n r, .cons b' n' r', aj+1, 0, _, h, hd, hm, ha, hm' => by
    obtain ⟨hn, hrr⟩ := Subs.sameShape_cons h
    simp only [Subs.NoMarksAll] at hm hm'
    simp only [Subs.ActAt] at ha hd
    obtain ⟨rfl, hmn, hmr⟩ := hm
    obtain ⟨rfl, hmn', hmr'⟩ := hm'
    simp only [Subs.reqFromAt, Subs.exitAtT, Subs.enterAtT, Subs.noResumable]
    rw [Node.enterT_reqFrom n n' hn hd.1 hmn ha.1 hmn', Subs.exitAtT_cleared r aj hd.2 hmr,
      Subs.noResumable_of_clean r' ha.2 hmr']
    rw [hrr]
  | .cons b n r, .cons b' n' r', aj+1, sj+1, hne, h, hd, hm, ha, hm' => by
    obtain ⟨hn, hrr⟩ := Subs.sameShape_cons h
    simp only [Subs.NoMarksAll] at hm hm'
    simp only [Subs.ActAt] at ha hd
    obtain ⟨rfl, hmn, hmr⟩ := hm
    obtain ⟨rfl, hmn', hmr'⟩ := hm'
    simp only [Subs.reqFromAt, Subs.exitAtT, Subs.enterAtT, Subs.noResumable]
    rw [Subs.switchT_reqFrom r r' aj sj (by omega) hrr hd.2 hmr ha.2 hmr',
      Node.noResumable_clean_eq hd.1 hmn ha.1 hmn' hn]

/-! ### a region whose loaded prong equals its active prong is re-entered in place -/

mutual
theorem Node.reenterT_reqFrom : (d s : Node) → d.sameShape s → d.Act → d.NoMarks → s.Act → s.NoMarks →
    (d.reqFrom s).reenterT.noResumable = s.noResumable
  | .leaf .., .leaf .., h, _, _, _, _ => by
    simp only [Node.sameShape, Node.cleared] at h
    simp only [Node.reqFrom, Node.reenterT, Node.noResumable]; exact h
  | .leaf .., .compo .., h, _, _, _, _ => by simp [Node.sameShape, Node.cleared] at h
  | .leaf .., .ortho .., h, _, _, _, _ => by simp [Node.sameShape, Node.cleared] at h
  | .compo .., .leaf .., h, _, _, _, _ => by simp [Node.sameShape, Node.cleared] at h
  | .compo .., .ortho .., h, _, _, _, _ => by simp [Node.sameShape, Node.cleared] at h
  | .ortho .., .leaf .., h, _, _, _, _ => by simp [Node.sameShape, Node.cleared] at h
  | .ortho .., .compo .., h, _, _, _, _ => by simp [Node.sameShape, Node.cleared] at h
  | .compo id rid inj hd sg a r q m ds, .compo id' rid' inj' hd' sg' a' r' q' m' ss, h, hda, hm, ha, hm' => by
    obtain ⟨rfl, rfl, rfl, rfl, rfl, hss⟩ := Node.sameShape_compo h
    simp only [Node.NoMarks] at hm hm'
    obtain ⟨rfl, rfl, hmd⟩ := hm
    obtain ⟨rfl, rfl, hms⟩ := hm'
    cases a' with
    | none => simp [Node.Act] at ha
    | some si =>
      cases a with
      | none => simp [Node.Act] at hda
      | some ai =>
        simp only [Node.Act] at ha hda
        simp only [Node.reqFrom, Node.reenterT, Option.getD_some]
        by_cases e : ai = si
        · subst e
          simp only [if_true, Node.noResumable]
          rw [Subs.reenterAtT_reqFrom ds ss ai hss hda hmd ha hms]
        · simp only [e, if_false, Node.noResumable]
          rw [Subs.switchT_reqFrom ds ss ai si e hss hda hmd ha hms]
  | .ortho id rid inj hd ds, .ortho id' rid' inj' hd' ss, h, hda, hm, ha, hm' => by
    obtain ⟨rfl, rfl, rfl, rfl, hss⟩ := Node.sameShape_ortho h
    simp only [Node.NoMarks] at hm hm'
    simp only [Node.Act] at ha hda
    simp only [Node.reqFrom, Node.reenterT, Node.noResumable]
    rw [Subs.reenterAllT_reqFrom ds ss hss hda hm ha hm']
theorem Subs.reenterAtT_reqFrom : (d s : Subs) → (i : Nat) → d.sameShape s → d.ActAt i → d.NoMarksAll →
    s.ActAt i → s.NoMarksAll → ((d.reqFromAt s i).reenterAtT i).noResumable = s.noResumable
  | .nil, .nil, _, _, _, _, ha, _ => by simp [Subs.ActAt] at ha
  | .nil, .cons .., _, h, _, _, _, _ => by simp [Subs.sameShape, Subs.cleared] at h
  | .cons .., .nil, _, h, _, _, _, _ => by simp [Subs.sameShape, Subs.cleared] at h
  | .cons b n r, .cons b' n' r', 0, h, hd, hm, ha, hm' => by
    obtain ⟨hn, hrr⟩ := Subs.sameShape_cons h
    simp only [Subs.NoMarksAll] at hm hm'
    simp only [Subs.ActAt] at ha hd
    obtain ⟨rfl, hmn, hmr⟩ := hm
    obtain ⟨rfl, hmn', hmr'⟩ := hm'
    simp only [Subs.reqFromAt, Subs.reenterAtT, Subs.noResumable]
    rw [Node.reenterT_reqFrom n n' hn hd.1 hmn ha.1 hmn', Subs.noResumable_clean_eq hd.2 hmr ha.2 hmr' hrr]
  | .cons b n r, .cons b' n' r', i+1, h, hd, hm, ha, hm' => by
    obtain ⟨hn, hrr⟩ := Subs.sameShape_cons h
    simp only [Subs.NoMarksAll] at hm hm'
    simp only [Subs.ActAt] at ha hd
    obtain ⟨rfl, hmn, hmr⟩ := hm
    obtain ⟨rfl, hmn', hmr'⟩ := hm'
    simp only [Subs.reqFromAt, Subs.reenterAtT, Subs.noResumable]
    rw [Subs.reenterAtT_reqFrom r r' i hrr hd.2 hmr ha.2 hmr', Node.noResumable_clean_eq hd.1 hmn ha.1 hmn' hn]
theorem Subs.reenterAllT_reqFrom : (d s : Subs) → d.sameShape s → d.ActAll → d.NoMarksAll →
    s.ActAll → s.NoMarksAll → (d.reqFromAll s).reenterAllT.noResumable = s.noResumable
  | .nil, .nil, _, _, _, _, _ => rfl
  | .nil, .cons .., h, _, _, _, _ => by simp [Subs.sameShape, Subs.cleared] at h
  | .cons .., .nil, h, _, _, _, _ => by simp [Subs.sameShape, Subs.cleared] at h
  | .cons b n r, .cons b' n' r', h, hd, hm, ha, hm' => by
    obtain ⟨hn, hrr⟩ := Subs.sameShape_cons h
    simp only [Subs.NoMarksAll] at hm hm'
    simp only [Subs.ActAll] at ha hd
    obtain ⟨rfl, hmn, hmr⟩ := hm
    obtain ⟨rfl, hmn', hmr'⟩ := hm'
    simp only [Subs.reqFromAll, Subs.reenterAllT, Subs.noResumable]
    rw [Node.reenterT_reqFrom n n' hn hd.1 hmn ha.1 hmn', Subs.reenterAllT_reqFrom r r' hrr hd.2 hmr ha.2 hmr']
end

/-! ### the commit pass on an active tree carrying the loaded marks -/

mutual
theorem Node.commitT_reqFrom : (d s : Node) → d.sameShape s → d.Act → d.NoMarks → s.Act → s.NoMarks →
    (d.reqFrom s).commitT.noResumable = s.noResumable
  | .leaf .., .leaf .., h, _, _, _, _ => by
    simp only [Node.sameShape, Node.cleared] at h
    simp only [Node.reqFrom, Node.commitT, Node.noResumable]; exact h
  | .leaf .., .compo .., h, _, _, _, _ => by simp [Node.sameShape, Node.cleared] at h
  | .leaf .., .ortho .., h, _, _, _, _ => by simp [Node.sameShape, Node.cleared] at h
  | .compo .., .leaf .., h, _, _, _, _ => by simp [Node.sameShape, Node.cleared] at h
  | .compo .., .ortho .., h, _, _, _, _ => by simp [Node.sameShape, Node.cleared] at h
  | .ortho .., .leaf .., h, _, _, _, _ => by simp [Node.sameShape, Node.cleared] at h
  | .ortho .., .compo .., h, _, _, _, _ => by simp [Node.sameShape, Node.cleared] at h
  | .compo id rid inj hd sg a r q m ds, .compo id' rid' inj' hd' sg' a' r' q' m' ss, h, hda, hm, ha, hm' => by
    obtain ⟨rfl, rfl, rfl, rfl, rfl, hss⟩ := Node.sameShape_compo h
    simp only [Node.NoMarks] at hm hm'
    obtain ⟨rfl, rfl, hmd⟩ := hm
    obtain ⟨rfl, rfl, hms⟩ := hm'
    cases a' with
    | none => simp [Node.Act] at ha
    | some si =>
      cases a with
      | none => simp [Node.Act] at hda
      | some ai =>
        simp only [Node.Act] at ha hda
        simp only [Node.reqFrom, Node.commitT, Option.getD_some]
        by_cases e : si = ai
        · subst e
          simp only [ne_eq, not_true_eq_false, if_false, Bool.false_eq_true, Node.noResumable]
          rw [Subs.reenterAtT_reqFrom ds ss si hss hda hmd ha hms]
        · simp only [ne_eq, e, not_false_eq_true, if_true, Node.noResumable]
          rw [Subs.switchT_reqFrom ds ss ai si (fun x => e x.symm) hss hda hmd ha hms]
  | .ortho id rid inj hd ds, .ortho id' rid' inj' hd' ss, h, hda, hm, ha, hm' => by
    obtain ⟨rfl, rfl, rfl, rfl, hss⟩ := Node.sameShape_ortho h
    simp only [Node.NoMarks] at hm hm'
    simp only [Node.Act] at ha hda
    simp only [Node.reqFrom, Node.commitT, Node.noResumable]
    rw [Subs.commitAllT_reqFrom ds ss hss hda hm ha hm']
theorem Subs.commitAllT_reqFrom : (d s : Subs) → d.sameShape s → d.ActAll → d.NoMarksAll →
    s.ActAll → s.NoMarksAll → (d.reqFromAll s).commitAllT.noResumable = s.noResumable
  | .nil, .nil, _, _, _, _, _ => rfl
  | .nil, .cons .., h, _, _, _, _ => by simp [Subs.sameShape, Subs.cleared] at h
  | .cons .., .nil, h, _, _, _, _ => by simp [Subs.sameShape, Subs.cleared] at h
  | .cons b n r, .cons b' n' r', h, hd, hm, ha, hm' => by
    obtain ⟨hn, hrr⟩ := Subs.sameShape_cons h
    simp only [Subs.NoMarksAll] at hm hm'
    simp only [Subs.ActAll] at ha hd
    obtain ⟨rfl, hmn, hmr⟩ := hm
    obtain ⟨rfl, hmn', hmr'⟩ := hm'
    simp only [Subs.reqFromAll, Subs.commitAllT, Subs.noResumable]
    rw [Node.commitT_reqFrom n n' hn hd.1 hmn ha.1 hmn', Subs.commitAllT_reqFrom r r' hrr hd.2 hmr ha.2 hmr']
end

end Hfsm
