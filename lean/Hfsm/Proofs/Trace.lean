/-
Callback sequences: what the world-level primitives of the model (Callback.lean, the region scope
of Commit.lean, the status accumulation of Dispatch.lean) do to

  * the decision stream `ds`,
  * the consume flag `consumed`,
  * the chronological sequence of callbacks recorded in the trace (`cbSeq`).

These three form the *dispatch key* of a world (`World.key`); every primitive acts on the key as a
small pure function (`DKey.invoke`, `DKey.slots`, `DKey.state`) that mentions neither the tree nor
any other field of the world.  Used by Proofs/Dispatch.lean (C05) and Proofs/Lifecycle.lean (C03).
-/
import Hfsm.Model.Machine
import Hfsm.Proofs.Wf

namespace Hfsm
variable {U : Type}

/-- What is kept of a callback event: (state id, method, base slot). -/
abbrev CbItem := Nat × Method × Nat

/-- A state as the passes see it: (state id, number of injected bases, has user code). -/
abbrev St := Nat × Nat × Bool

def Event.item : Event U → Option CbItem
  | .cb sid m slot _ _ _ => some (sid, m, slot)
  | .log _ => none

/-- The callbacks of a trace (stored newest first) in chronological order. -/
def cbsOf (t : List (Event U)) : List CbItem := (t.filterMap Event.item).reverse

/-- The callbacks a world has recorded so far, oldest first. -/
def World.cbSeq (w : World U) : List CbItem := cbsOf w.trace

theorem cbsOf_cons_cb (t : List (Event U)) (sid : Nat) (m : Method) (slot : Nat) (o : Option Obs)
    (p c : List Transition) : cbsOf (Event.cb sid m slot o p c :: t) = cbsOf t ++ [(sid, m, slot)] := by
  simp [cbsOf, Event.item]

theorem cbsOf_cons_log (t : List (Event U)) (r : LogRec U) : cbsOf (Event.log r :: t) = cbsOf t := by
  simp [cbsOf, List.filterMap_cons, Event.item]

/-! ### decisions that consume -/

def Action.isConsume : Action U → Bool
  | .consume => true
  | _ => false

/-- control classes offering `consumeEvent()` / `consumeQuery()` -/
def CtlClass.canConsume (c : CtlClass) : Bool := c = .event || c = .query

/-- the callback of method `m` that took decision `d` has consumed the event / query -/
def consumes (m : Method) (d : Decision U) : Bool := m.cls.canConsume && d.any Action.isConsume

/-! ### the dispatch key -/

structure DKey (U : Type) where
  ds : List (Decision U)
  consumed : Bool
  seq : List CbItem

def World.key (w : World U) : DKey U := ⟨w.ds, w.consumed, w.cbSeq⟩

@[simp] theorem World.key_ds (w : World U) : w.key.ds = w.ds := rfl
@[simp] theorem World.key_consumed (w : World U) : w.key.consumed = w.consumed := rfl
@[simp] theorem World.key_seq (w : World U) : w.key.seq = w.cbSeq := rfl

namespace DKey

/-- one callback: pops a decision (nothing happens on an exhausted stream) -/
def invoke (k : DKey U) (sid : Nat) (m : Method) (slot : Nat) : DKey U :=
  match k.ds with
  | [] => k
  | d :: rest => ⟨rest, k.consumed || consumes m d, k.seq ++ [(sid, m, slot)]⟩

def slots (k : DKey U) (sid : Nat) (m : Method) : List Nat → DKey U
  | [] => k
  | s :: rest => slots (k.invoke sid m s) sid m rest

/-- all handlers of one state for method `m`: injected bases and own handler in `slotOrder`;
an anonymous head has none -/
def state (k : DKey U) (s : St) (m : Method) : DKey U :=
  if s.2.2 then k.slots s.1 m (slotOrder s.2.1 m) else k

/-- raise the consume flag when `b` -/
def consume (k : DKey U) (b : Bool) : DKey U := { k with consumed := k.consumed || b }

@[simp] theorem consume_false (k : DKey U) : k.consume false = k := by simp [consume]

end DKey

/-! ### primitives leaving the key alone -/

namespace World

@[simp] theorem key_fail' (w : World U) (msg : String) : (w.fail' msg).key = w.key := by
  unfold World.fail'; split <;> rfl

@[simp] theorem key_logRec (w : World U) (r : LogRec U) : (w.logRec r).key = w.key := by
  unfold World.logRec; split
  · simp [World.key, World.emit, World.cbSeq, cbsOf_cons_log]
  · rfl

@[simp] theorem key_ctlRequest (w : World U) (k : Kind) (d : Nat) (p : Option Nat) :
    (w.ctlRequest k d p).key = w.key := by
  unfold World.ctlRequest
  simp only [key_logRec]
  split <;> split <;> rfl

@[simp] theorem key_ctlSucceed (w : World U) (s : Nat) : (w.ctlSucceed s).key = w.key := by
  unfold World.ctlSucceed
  split
  · simp only [key_logRec]; rfl
  · rfl

@[simp] theorem key_ctlFail (w : World U) (s : Nat) : (w.ctlFail s).key = w.key := by
  unfold World.ctlFail
  split
  · simp only [key_logRec]; rfl
  · rfl

@[simp] theorem key_setPlan (w : World U) (r : Nat) (p : List Task) : (w.setPlan r p).key = w.key := rfl

@[simp] theorem key_planAppend (w : World U) (r : Nat) (t : Task) : (w.planAppend r t).key = w.key := by
  unfold World.planAppend
  split <;> rfl

@[simp] theorem key_planClear (w : World U) (r h s : Nat) : (w.planClear r h s).key = w.key := rfl

@[simp] theorem key_pin (w : World U) (sid : Nat) (i : Option Nat) : (w.pin sid i).key = w.key := by
  unfold World.pin
  split
  · rfl
  · split <;> rfl

@[simp] theorem key_orHead (w : World U) (r : Nat) (s : TaskStatus) : (w.orHead r s).key = w.key := by
  unfold World.orHead; split <;> rfl

@[simp] theorem key_orSub (w : World U) (r : Nat) (s : TaskStatus) : (w.orSub r s).key = w.key := by
  unfold World.orSub; split <;> rfl

@[simp] theorem key_pushRegion (w : World U) (r h s : Nat) : (w.pushRegion r h s).1.key = w.key := rfl

@[simp] theorem key_popRegion (w : World U) (sv : Nat × Nat × Nat) : (w.popRegion sv).key = w.key := rfl

/-! ### one action, one callback, one state -/

theorem key_act (c : CtlClass) (w : World U) (a : Action U) :
    (act c w a).key = w.key.consume (c.canConsume && a.isConsume) := by
  cases a <;> simp only [act, Action.isConsume, Bool.and_false, Bool.and_true, DKey.consume_false]
  case request k d p => split <;> simp <;> rfl
  case succeed s => split <;> simp <;> rfl
  case fail s => split <;> simp <;> rfl
  case cancel => split <;> simp <;> rfl
  case consume =>
    unfold CtlClass.canConsume
    split
    · rename_i h; simp [World.key, World.cbSeq, DKey.consume, h]
    · rename_i h; simp at h; simp [h]
  case planAppend o d k p => split <;> simp <;> rfl
  case planClear => split <;> simp <;> rfl
  all_goals rfl

theorem key_foldl_act (c : CtlClass) : (d : Decision U) → (w : World U) →
    (d.foldl (act c) w).key = w.key.consume (c.canConsume && d.any Action.isConsume)
  | [], w => by simp
  | a :: d, w => by
    rw [List.foldl_cons, key_foldl_act c d, key_act]
    simp [DKey.consume, Bool.or_assoc, Bool.and_or_distrib_left]

theorem key_invoke (w : World U) (sid : Nat) (m : Method) (slot : Nat) :
    (w.invoke sid m slot).1.key = w.key.invoke sid m slot := by
  unfold World.invoke DKey.invoke
  cases hds : w.ds with
  | nil => simp [hds]
  | cons d rest =>
    simp only [key_ds, hds]
    simp only [World.key, World.emit, World.cbSeq, cbsOf_cons_cb]
    have h := key_foldl_act m.cls d { w with ds := rest }
    simp only [World.key, World.cbSeq, DKey.consume] at h
    injection h with h1 h2 h3
    simp [h1, h2, h3, consumes]

theorem key_invokeSlots (sid : Nat) (m : Method) : (l : List Nat) → (w : World U) →
    (w.invokeSlots sid m l).key = w.key.slots sid m l
  | [], w => rfl
  | s :: rest, w => by
    rw [World.invokeSlots, DKey.slots, key_invokeSlots sid m rest, key_invoke]

theorem key_stateMethod (w : World U) (sid inj : Nat) (h : Bool) (m : Method) :
    (w.stateMethod sid inj h m).key = w.key.state (sid, inj, h) m := by
  unfold World.stateMethod DKey.state
  cases h with
  | false =>
    simp only [Bool.false_or, Bool.false_eq_true, if_false]
    split <;> simp
  | true =>
    simp only [Bool.true_or, if_true]
    show (World.invokeSlots _ sid m (slotOrder inj m)).key = _
    rw [key_invokeSlots]
    congr 1
    simp [World.key, World.cbSeq]
    constructor
    · exact congrArg DKey.ds (key_logRec w _)
    · constructor
      · exact congrArg DKey.consumed (key_logRec w _)
      · exact congrArg DKey.seq (key_logRec w _)

@[simp] theorem key_runState (w : World U) (sid inj : Nat) (h : Bool) (m : Method) :
    (w.runState sid inj h m).1.key = w.key.state (sid, inj, h) m := by
  unfold World.runState; exact key_stateMethod ..

@[simp] theorem key_guardState (w : World U) (sid inj : Nat) (h : Bool) (m : Method) :
    (w.guardState sid inj h m).1.key = w.key.state (sid, inj, h) m := by
  unfold World.guardState; exact key_stateMethod ..

@[simp] theorem key_exitState (w : World U) (sid inj : Nat) (h : Bool) :
    (w.exitState sid inj h).key = w.key.state (sid, inj, h) .exit := by
  unfold World.exitState
  dsimp only
  split
  · exact key_stateMethod ..
  · exact key_stateMethod ..

end World
end Hfsm

/-! ### "the callback sequence only grows, and by callbacks satisfying `P`" -/

namespace Hfsm
variable {U : Type}

/-- `w'` has recorded the callbacks of `w` followed by callbacks that all satisfy `P`. -/
def World.GrowsBy (P : CbItem → Prop) (w w' : World U) : Prop :=
  ∃ l, w'.cbSeq = w.cbSeq ++ l ∧ ∀ x ∈ l, P x

namespace World.GrowsBy
variable {P : CbItem → Prop} {w w1 w2 : World U}

theorem refl (w : World U) : GrowsBy P w w := ⟨[], by simp, by simp⟩

theorem trans (h1 : GrowsBy P w w1) (h2 : GrowsBy P w1 w2) : GrowsBy P w w2 := by
  obtain ⟨l1, e1, p1⟩ := h1
  obtain ⟨l2, e2, p2⟩ := h2
  refine ⟨l1 ++ l2, by rw [e2, e1, List.append_assoc], ?_⟩
  intro x hx
  rcases List.mem_append.1 hx with h | h
  · exact p1 x h
  · exact p2 x h

theorem mono {Q : CbItem → Prop} (hPQ : ∀ x, P x → Q x) (h : GrowsBy P w w1) : GrowsBy Q w w1 := by
  obtain ⟨l, e, p⟩ := h
  exact ⟨l, e, fun x hx => hPQ x (p x hx)⟩

/-- a step that leaves the callback sequence alone -/
theorem of_seq (e : w2.cbSeq = w1.cbSeq) (h : GrowsBy P w w1) : GrowsBy P w w2 := by
  obtain ⟨l, e1, p⟩ := h
  exact ⟨l, by rw [e, e1], p⟩

theorem of_key (e : w2.key = w1.key) (h : GrowsBy P w w1) : GrowsBy P w w2 :=
  of_seq (congrArg DKey.seq e) h

theorem isPrefix (h : GrowsBy P w w1) : w.cbSeq <+: w1.cbSeq := by
  obtain ⟨l, e, _⟩ := h
  exact ⟨l, e.symm⟩

end World.GrowsBy

namespace World
variable {P : CbItem → Prop} {w w1 : World U}

theorem g_fail' (msg : String) (h : GrowsBy P w w1) : GrowsBy P w (w1.fail' msg) := h.of_key (key_fail' ..)
theorem g_logRec (r : LogRec U) (h : GrowsBy P w w1) : GrowsBy P w (w1.logRec r) := h.of_key (key_logRec ..)
theorem g_pin (sid : Nat) (i : Option Nat) (h : GrowsBy P w w1) : GrowsBy P w (w1.pin sid i) := h.of_key (key_pin ..)
theorem g_orHead (r : Nat) (s : TaskStatus) (h : GrowsBy P w w1) : GrowsBy P w (w1.orHead r s) := h.of_key (key_orHead ..)
theorem g_orSub (r : Nat) (s : TaskStatus) (h : GrowsBy P w w1) : GrowsBy P w (w1.orSub r s) := h.of_key (key_orSub ..)
theorem g_pushRegion (r hd s : Nat) (h : GrowsBy P w w1) : GrowsBy P w (w1.pushRegion r hd s).1 := h.of_key rfl
theorem g_popRegion (sv : Nat × Nat × Nat) (h : GrowsBy P w w1) : GrowsBy P w (w1.popRegion sv) := h.of_key rfl
theorem g_ctlRequest (k : Kind) (d : Nat) (p : Option Nat) (h : GrowsBy P w w1) :
    GrowsBy P w (w1.ctlRequest k d p) := h.of_key (key_ctlRequest ..)
theorem g_setPlan (r : Nat) (p : List Task) (h : GrowsBy P w w1) : GrowsBy P w (w1.setPlan r p) := h.of_key rfl

theorem g_invoke (sid : Nat) (m : Method) (slot : Nat) (hP : P (sid, m, slot)) (h : GrowsBy P w w1) :
    GrowsBy P w (w1.invoke sid m slot).1 := by
  refine h.trans ?_
  have e := congrArg DKey.seq (key_invoke w1 sid m slot)
  simp only [key_seq, DKey.invoke] at e
  cases hds : w1.ds with
  | nil => rw [key_ds, hds] at e; exact ⟨[], by simpa using e, by simp⟩
  | cons d rest =>
    rw [key_ds, hds] at e
    exact ⟨[(sid, m, slot)], e, by simpa using hP⟩

theorem DKey.slots_grows (sid : Nat) (m : Method) : (l : List Nat) → (k : DKey U) →
    ∃ l', (k.slots sid m l).seq = k.seq ++ l' ∧ ∀ x ∈ l', ∃ slot, x = (sid, m, slot)
  | [], k => ⟨[], by simp [DKey.slots], by simp⟩
  | s :: rest, k => by
    obtain ⟨l', e, p⟩ := DKey.slots_grows sid m rest (k.invoke sid m s)
    rw [DKey.slots, e]
    unfold DKey.invoke
    cases k.ds with
    | nil => exact ⟨l', rfl, p⟩
    | cons d ds =>
      refine ⟨(sid, m, s) :: l', by simp, ?_⟩
      intro x hx
      rcases List.mem_cons.1 hx with h | h
      · exact ⟨s, h⟩
      · exact p x h

theorem g_stateMethod (sid inj : Nat) (hd : Bool) (m : Method) (hP : ∀ slot, P (sid, m, slot))
    (h : GrowsBy P w w1) : GrowsBy P w (w1.stateMethod sid inj hd m) := by
  refine h.trans ?_
  have e := congrArg DKey.seq (key_stateMethod w1 sid inj hd m)
  simp only [key_seq, DKey.state] at e
  split at e
  · obtain ⟨l', e', p⟩ := DKey.slots_grows sid m (slotOrder inj m) w1.key
    refine ⟨l', by rw [e, e']; rfl, ?_⟩
    intro x hx
    obtain ⟨slot, rfl⟩ := p x hx
    exact hP slot
  · exact ⟨[], by simpa using e, by simp⟩

theorem g_runState (sid inj : Nat) (hd : Bool) (m : Method) (hP : ∀ slot, P (sid, m, slot))
    (h : GrowsBy P w w1) : GrowsBy P w (w1.runState sid inj hd m).1 := g_stateMethod sid inj hd m hP h

theorem g_guardState (sid inj : Nat) (hd : Bool) (m : Method) (hP : ∀ slot, P (sid, m, slot))
    (h : GrowsBy P w w1) : GrowsBy P w (w1.guardState sid inj hd m).1 := g_stateMethod sid inj hd m hP h

theorem g_exitState (sid inj : Nat) (hd : Bool) (hP : ∀ slot, P (sid, .exit, slot))
    (h : GrowsBy P w w1) : GrowsBy P w (w1.exitState sid inj hd) := by
  unfold World.exitState
  dsimp only
  split
  · exact (g_stateMethod sid inj hd .exit hP h).of_seq rfl
  · exact g_stateMethod sid inj hd .exit hP h

end World
end Hfsm
