/-
`World.recfg` commutes with every traversal of the model (see Proofs/Recfg.lean).
-/
import Hfsm.Proofs.Recfg

set_option linter.unusedVariables false
set_option linter.unusedSectionVars false
set_option linter.unusedSimpArgs false

namespace Hfsm
variable {U : Type} (r : Recfg)
open World

/-- push `recfg` outwards through the primitives and the given recursive calls -/
syntax "rcs " " [" Lean.Parser.Tactic.simpLemma,* "]" : tactic
macro_rules
  | `(tactic| rcs [$ts,*]) =>
    `(tactic| simp only [recfg_fail', recfg_stateMethod, recfg_pushRegion, recfg_popRegion,
        recfg_guardState, recfg_runState, recfg_orHead, recfg_orSub, recfg_pin, recfg_exitState,
        recfg_headUtility, recfg_headUtilityWrap, recfg_headRank, recfg_headSelect, recfg_resolveRandom, recfg_logRec,
        recfg_consumed, recfg_cancelled, recfg_taskStatus, recfg_cfgplans, recfg_planExists,
        recfg_headStatus, recfg_subStatus, recfg_stateTaskStatus, ↓reduceIte, Bool.false_eq_true, $ts,*])

/-- unfold one equation of traversal `f`, push `recfg` outwards, case-split the remaining
conditionals and push again -/
syntax "rc " ident " [" Lean.Parser.Tactic.simpLemma,* "]" : tactic
macro_rules
  | `(tactic| rc $f [$ts,*]) =>
    `(tactic| (rcs [$f:ident, $ts,*] <;> ((repeat' split) <;> (try simp only [*]) <;> (try rcs [$ts,*]) <;> (try simp_all))))

mutual
theorem Node.enter_recfg : (n : Node) → (w : World U) →
    n.enter (w.recfg r) = ((n.enter w).1, (n.enter w).2.recfg r)
  | .leaf id inj, w => by simp only [Node.enter, recfg_stateMethod]
  | .compo id rid inj h st a rs q m s, w => by
      cases q with
      | none => simp only [Node.enter, recfg_fail']
      | some qi =>
        simp only [Node.enter, recfg_pushRegion, recfg_stateMethod, Subs.enterAt_recfg s, recfg_popRegion]
  | .ortho id rid inj h s, w => by
      simp only [Node.enter, recfg_pushRegion, recfg_stateMethod, Subs.enterAll_recfg s, recfg_popRegion]
theorem Subs.enterAt_recfg : (s : Subs) → (i : Nat) → (w : World U) →
    s.enterAt i (w.recfg r) = ((s.enterAt i w).1, (s.enterAt i w).2.recfg r)
  | .nil, _, w => by simp only [Subs.enterAt, recfg_fail']
  | .cons b n rest, 0, w => by simp only [Subs.enterAt, Node.enter_recfg n]
  | .cons b n rest, i+1, w => by simp only [Subs.enterAt, Subs.enterAt_recfg rest]
theorem Subs.enterAll_recfg : (s : Subs) → (w : World U) →
    s.enterAll (w.recfg r) = ((s.enterAll w).1, (s.enterAll w).2.recfg r)
  | .nil, w => by simp only [Subs.enterAll]
  | .cons b n rest, w => by simp only [Subs.enterAll, Node.enter_recfg n, Subs.enterAll_recfg rest]
end

mutual
theorem Node.entryGuard_recfg : (n : Node) → (w : World U) →
    n.entryGuard (w.recfg r) = ((n.entryGuard w).1.recfg r, (n.entryGuard w).2)
  | .leaf .., w => by rc Node.entryGuard []
  | .compo _ _ _ _ _ _ _ q _ s, w => by cases q <;> rc Node.entryGuard [Subs.entryGuardAt_recfg s]
  | .ortho _ _ _ _ s, w => by rc Node.entryGuard [Subs.entryGuardAll_recfg s]
theorem Subs.entryGuardAt_recfg : (s : Subs) → (i : Nat) → (w : World U) →
    s.entryGuardAt i (w.recfg r) = ((s.entryGuardAt i w).1.recfg r, (s.entryGuardAt i w).2)
  | .nil, _, w => by rc Subs.entryGuardAt []
  | .cons _ n _, 0, w => by rc Subs.entryGuardAt [Node.entryGuard_recfg n]
  | .cons _ _ rest, i+1, w => by rc Subs.entryGuardAt [Subs.entryGuardAt_recfg rest]
theorem Subs.entryGuardAll_recfg : (s : Subs) → (w : World U) →
    s.entryGuardAll (w.recfg r) = ((s.entryGuardAll w).1.recfg r, (s.entryGuardAll w).2)
  | .nil, w => by rc Subs.entryGuardAll []
  | .cons _ n rest, w => by rc Subs.entryGuardAll [Node.entryGuard_recfg n, Subs.entryGuardAll_recfg rest]
end

mutual
theorem Node.fwdEntryGuard_recfg : (n : Node) → (w : World U) →
    n.fwdEntryGuard (w.recfg r) = ((n.fwdEntryGuard w).1.recfg r, (n.fwdEntryGuard w).2)
  | .leaf .., w => by rc Node.fwdEntryGuard []
  | .compo _ _ _ _ _ a _ q _ s, w => by
      cases q <;> cases a <;> rc Node.fwdEntryGuard [Subs.fwdEntryGuardAt_recfg s, Subs.entryGuardAt_recfg r s]
  | .ortho _ _ _ _ s, w => by rc Node.fwdEntryGuard [Subs.fwdEntryGuardBits_recfg s, Subs.fwdEntryGuardAll_recfg s]
theorem Subs.fwdEntryGuardAt_recfg : (s : Subs) → (i : Nat) → (w : World U) →
    s.fwdEntryGuardAt i (w.recfg r) = ((s.fwdEntryGuardAt i w).1.recfg r, (s.fwdEntryGuardAt i w).2)
  | .nil, _, w => by rc Subs.fwdEntryGuardAt []
  | .cons _ n _, 0, w => by rc Subs.fwdEntryGuardAt [Node.fwdEntryGuard_recfg n]
  | .cons _ _ rest, i+1, w => by rc Subs.fwdEntryGuardAt [Subs.fwdEntryGuardAt_recfg rest]
theorem Subs.fwdEntryGuardBits_recfg : (s : Subs) → (w : World U) →
    s.fwdEntryGuardBits (w.recfg r) = ((s.fwdEntryGuardBits w).1.recfg r, (s.fwdEntryGuardBits w).2)
  | .nil, w => by rc Subs.fwdEntryGuardBits []
  | .cons b n rest, w => by
      cases b <;> rc Subs.fwdEntryGuardBits [Node.fwdEntryGuard_recfg n, Subs.fwdEntryGuardBits_recfg rest]
theorem Subs.fwdEntryGuardAll_recfg : (s : Subs) → (w : World U) →
    s.fwdEntryGuardAll (w.recfg r) = ((s.fwdEntryGuardAll w).1.recfg r, (s.fwdEntryGuardAll w).2)
  | .nil, w => by rc Subs.fwdEntryGuardAll []
  | .cons _ n rest, w => by rc Subs.fwdEntryGuardAll [Node.fwdEntryGuard_recfg n, Subs.fwdEntryGuardAll_recfg rest]
end

mutual
theorem Node.exitGuard_recfg : (n : Node) → (w : World U) →
    n.exitGuard (w.recfg r) = ((n.exitGuard w).1.recfg r, (n.exitGuard w).2)
  | .leaf .., w => by rc Node.exitGuard []
  | .compo _ _ _ _ _ a _ _ _ s, w => by cases a <;> rc Node.exitGuard [Subs.exitGuardAt_recfg s]
  | .ortho _ _ _ _ s, w => by rc Node.exitGuard [Subs.exitGuardAll_recfg s]
theorem Subs.exitGuardAt_recfg : (s : Subs) → (i : Nat) → (w : World U) →
    s.exitGuardAt i (w.recfg r) = ((s.exitGuardAt i w).1.recfg r, (s.exitGuardAt i w).2)
  | .nil, _, w => by rc Subs.exitGuardAt []
  | .cons _ n _, 0, w => by rc Subs.exitGuardAt [Node.exitGuard_recfg n]
  | .cons _ _ rest, i+1, w => by rc Subs.exitGuardAt [Subs.exitGuardAt_recfg rest]
theorem Subs.exitGuardAll_recfg : (s : Subs) → (w : World U) →
    s.exitGuardAll (w.recfg r) = ((s.exitGuardAll w).1.recfg r, (s.exitGuardAll w).2)
  | .nil, w => by rc Subs.exitGuardAll []
  | .cons _ n rest, w => by rc Subs.exitGuardAll [Node.exitGuard_recfg n, Subs.exitGuardAll_recfg rest]
end

mutual
theorem Node.fwdExitGuard_recfg : (n : Node) → (w : World U) →
    n.fwdExitGuard (w.recfg r) = ((n.fwdExitGuard w).1.recfg r, (n.fwdExitGuard w).2)
  | .leaf .., w => by rc Node.fwdExitGuard []
  | .compo _ _ _ _ _ a _ q _ s, w => by
      cases q <;> cases a <;> rc Node.fwdExitGuard [Subs.fwdExitGuardAt_recfg s, Subs.exitGuardAt_recfg r s]
  | .ortho _ _ _ _ s, w => by rc Node.fwdExitGuard [Subs.fwdExitGuardBits_recfg s, Subs.fwdExitGuardAll_recfg s]
theorem Subs.fwdExitGuardAt_recfg : (s : Subs) → (i : Nat) → (w : World U) →
    s.fwdExitGuardAt i (w.recfg r) = ((s.fwdExitGuardAt i w).1.recfg r, (s.fwdExitGuardAt i w).2)
  | .nil, _, w => by rc Subs.fwdExitGuardAt []
  | .cons _ n _, 0, w => by rc Subs.fwdExitGuardAt [Node.fwdExitGuard_recfg n]
  | .cons _ _ rest, i+1, w => by rc Subs.fwdExitGuardAt [Subs.fwdExitGuardAt_recfg rest]
theorem Subs.fwdExitGuardBits_recfg : (s : Subs) → (w : World U) →
    s.fwdExitGuardBits (w.recfg r) = ((s.fwdExitGuardBits w).1.recfg r, (s.fwdExitGuardBits w).2)
  | .nil, w => by rc Subs.fwdExitGuardBits []
  | .cons b n rest, w => by
      cases b <;> rc Subs.fwdExitGuardBits [Node.fwdExitGuard_recfg n, Subs.fwdExitGuardBits_recfg rest]
theorem Subs.fwdExitGuardAll_recfg : (s : Subs) → (w : World U) →
    s.fwdExitGuardAll (w.recfg r) = ((s.fwdExitGuardAll w).1.recfg r, (s.fwdExitGuardAll w).2)
  | .nil, w => by rc Subs.fwdExitGuardAll []
  | .cons _ n rest, w => by rc Subs.fwdExitGuardAll [Node.fwdExitGuard_recfg n, Subs.fwdExitGuardAll_recfg rest]
end

mutual
theorem Node.exit_recfg : (n : Node) → (w : World U) →
    n.exit (w.recfg r) = ((n.exit w).1, (n.exit w).2.recfg r)
  | .leaf .., w => by rc Node.exit []
  | .compo _ _ _ _ _ a _ _ _ s, w => by cases a <;> rc Node.exit [Subs.exitAt_recfg s]
  | .ortho _ _ _ _ s, w => by rc Node.exit [Subs.exitAll_recfg s]
theorem Subs.exitAt_recfg : (s : Subs) → (i : Nat) → (w : World U) →
    s.exitAt i (w.recfg r) = ((s.exitAt i w).1, (s.exitAt i w).2.recfg r)
  | .nil, _, w => by rc Subs.exitAt []
  | .cons _ n _, 0, w => by rc Subs.exitAt [Node.exit_recfg n]
  | .cons _ _ rest, i+1, w => by rc Subs.exitAt [Subs.exitAt_recfg rest]
theorem Subs.exitAll_recfg : (s : Subs) → (w : World U) →
    s.exitAll (w.recfg r) = ((s.exitAll w).1, (s.exitAll w).2.recfg r)
  | .nil, w => by rc Subs.exitAll []
  | .cons _ n rest, w => by rc Subs.exitAll [Node.exit_recfg n, Subs.exitAll_recfg rest]
end

mutual
theorem Node.reenter_recfg : (n : Node) → (w : World U) →
    n.reenter (w.recfg r) = ((n.reenter w).1, (n.reenter w).2.recfg r)
  | .leaf .., w => by rc Node.reenter []
  | .compo _ _ _ _ _ a _ q _ s, w => by
      cases q <;> cases a <;> rc Node.reenter [Subs.reenterAt_recfg s, Subs.enterAt_recfg r, Subs.exitAt_recfg r s]
  | .ortho _ _ _ _ s, w => by rc Node.reenter [Subs.reenterAll_recfg s]
theorem Subs.reenterAt_recfg : (s : Subs) → (i : Nat) → (w : World U) →
    s.reenterAt i (w.recfg r) = ((s.reenterAt i w).1, (s.reenterAt i w).2.recfg r)
  | .nil, _, w => by rc Subs.reenterAt []
  | .cons _ n _, 0, w => by rc Subs.reenterAt [Node.reenter_recfg n]
  | .cons _ _ rest, i+1, w => by rc Subs.reenterAt [Subs.reenterAt_recfg rest]
theorem Subs.reenterAll_recfg : (s : Subs) → (w : World U) →
    s.reenterAll (w.recfg r) = ((s.reenterAll w).1, (s.reenterAll w).2.recfg r)
  | .nil, w => by rc Subs.reenterAll []
  | .cons _ n rest, w => by rc Subs.reenterAll [Node.reenter_recfg n, Subs.reenterAll_recfg rest]
end

mutual
theorem Node.commit_recfg : (n : Node) → (w : World U) →
    n.commit (w.recfg r) = ((n.commit w).1, (n.commit w).2.recfg r)
  | .leaf .., w => by rc Node.commit []
  | .compo _ _ _ _ _ a _ q _ s, w => by
      cases q <;> cases a <;>
        rc Node.commit [Subs.commitAt_recfg s, Subs.reenterAt_recfg r s, Subs.enterAt_recfg r, Subs.exitAt_recfg r s]
  | .ortho _ _ _ _ s, w => by rc Node.commit [Subs.commitAll_recfg s]
theorem Subs.commitAt_recfg : (s : Subs) → (i : Nat) → (w : World U) →
    s.commitAt i (w.recfg r) = ((s.commitAt i w).1, (s.commitAt i w).2.recfg r)
  | .nil, _, w => by rc Subs.commitAt []
  | .cons _ n _, 0, w => by rc Subs.commitAt [Node.commit_recfg n]
  | .cons _ _ rest, i+1, w => by rc Subs.commitAt [Subs.commitAt_recfg rest]
theorem Subs.commitAll_recfg : (s : Subs) → (w : World U) →
    s.commitAll (w.recfg r) = ((s.commitAll w).1, (s.commitAll w).2.recfg r)
  | .nil, w => by rc Subs.commitAll []
  | .cons _ n rest, w => by rc Subs.commitAll [Node.commit_recfg n, Subs.commitAll_recfg rest]
end

/-! ### Dispatch.lean -/

mutual
theorem Node.tick_recfg (ph : Method) : (n : Node) → (w : World U) →
    n.tick ph (w.recfg r) = ((n.tick ph w).1.recfg r, (n.tick ph w).2)
  | .leaf .., w => by rc Node.tick []
  | .compo _ _ _ _ _ a _ _ _ s, w => by cases a <;> rc Node.tick [Subs.tickAt_recfg ph s]
  | .ortho _ _ _ _ s, w => by rc Node.tick [Subs.tickAll_recfg ph s]
theorem Subs.tickAt_recfg (ph : Method) : (s : Subs) → (i : Nat) → (w : World U) →
    s.tickAt ph i (w.recfg r) = ((s.tickAt ph i w).1.recfg r, (s.tickAt ph i w).2)
  | .nil, _, w => by rc Subs.tickAt []
  | .cons _ n _, 0, w => by rc Subs.tickAt [Node.tick_recfg ph n]
  | .cons _ _ rest, i+1, w => by rc Subs.tickAt [Subs.tickAt_recfg ph rest]
theorem Subs.tickAll_recfg (ph : Method) : (s : Subs) → (w : World U) →
    s.tickAll ph (w.recfg r) = ((s.tickAll ph w).1.recfg r, (s.tickAll ph w).2)
  | .nil, w => by rc Subs.tickAll []
  | .cons _ n rest, w => by rc Subs.tickAll [Node.tick_recfg ph n, Subs.tickAll_recfg ph rest]
end

mutual
theorem Node.react_recfg (ph : Method) (hf po : Bool) : (n : Node) → (w : World U) →
    n.react ph hf po (w.recfg r) = ((n.react ph hf po w).1.recfg r, (n.react ph hf po w).2)
  | .leaf .., w => by rc Node.react []
  | .compo _ _ _ _ _ a _ _ _ s, w => by cases a <;> rc Node.react [Subs.reactAt_recfg ph hf po s]
  | .ortho _ _ _ _ s, w => by rc Node.react [Subs.reactAll_recfg ph hf po s]
theorem Subs.reactAt_recfg (ph : Method) (hf po : Bool) : (s : Subs) → (i : Nat) → (w : World U) →
    s.reactAt ph hf po i (w.recfg r) = ((s.reactAt ph hf po i w).1.recfg r, (s.reactAt ph hf po i w).2)
  | .nil, _, w => by rc Subs.reactAt []
  | .cons _ n _, 0, w => by rc Subs.reactAt [Node.react_recfg ph hf po n]
  | .cons _ _ rest, i+1, w => by rc Subs.reactAt [Subs.reactAt_recfg ph hf po rest]
theorem Subs.reactAll_recfg (ph : Method) (hf po : Bool) : (s : Subs) → (w : World U) →
    s.reactAll ph hf po (w.recfg r) = ((s.reactAll ph hf po w).1.recfg r, (s.reactAll ph hf po w).2)
  | .nil, w => by rc Subs.reactAll []
  | .cons _ n rest, w => by rc Subs.reactAll [Node.react_recfg ph hf po n, Subs.reactAll_recfg ph hf po rest]
end

mutual
theorem Node.query_recfg (hf : Bool) : (n : Node) → (w : World U) →
    n.query hf (w.recfg r) = (n.query hf w).recfg r
  | .leaf .., w => by rc Node.query []
  | .compo _ _ _ _ _ a _ _ _ s, w => by cases hf <;> cases a <;> rc Node.query [Subs.queryAt_recfg _ s]
  | .ortho _ _ _ _ s, w => by cases hf <;> rc Node.query [Subs.queryAll_recfg _ s]
theorem Subs.queryAt_recfg (hf : Bool) : (s : Subs) → (i : Nat) → (w : World U) →
    s.queryAt hf i (w.recfg r) = (s.queryAt hf i w).recfg r
  | .nil, _, w => by rc Subs.queryAt []
  | .cons _ n _, 0, w => by rc Subs.queryAt [Node.query_recfg hf n]
  | .cons _ _ rest, i+1, w => by rc Subs.queryAt [Subs.queryAt_recfg hf rest]
theorem Subs.queryAll_recfg (hf : Bool) : (s : Subs) → (w : World U) →
    s.queryAll hf (w.recfg r) = (s.queryAll hf w).recfg r
  | .nil, w => by rc Subs.queryAll []
  | .cons _ n rest, w => by rc Subs.queryAll [Node.query_recfg hf n, Subs.queryAll_recfg hf rest]
end

/-! ### plans -/

theorem World.recfg_runTasks [UtilArith U] (headId : Nat) : (p : List Task) → (w : World U) → (clr : Nat) →
    World.runTasks headId p (w.recfg r) clr =
      ((World.runTasks headId p w clr).1, (World.runTasks headId p w clr).2.1.recfg r,
       (World.runTasks headId p w clr).2.2)
  | [], w, clr => by simp only [World.runTasks]
  | t :: rest, w, clr => by
      by_cases h1 : w.isActiveSnap t.origin = true
      · by_cases h2 : World.bit w.succ t.origin = true
        · have hreq := recfg_ctlRequest r { w with origin := some headId } .change t.dest t.payload
          by_cases h3 : t.cyclic = true
          · have ih := World.recfg_runTasks headId rest
              { ({ ({ w with origin := some headId }).ctlRequest .change t.dest t.payload with origin := w.origin }) with
                succ := World.clearBit ({ ({ w with origin := some headId }).ctlRequest .change t.dest t.payload with origin := w.origin }).succ t.origin } clr
            simp only [World.runTasks, recfg_isActiveSnap, recfg_succ, h1, h2, h3, Bool.not_true, ↓reduceIte,
              Bool.false_eq_true, recfg_origin]
            rw [← ih]
            congr 1
            show _ = World.recfg r _
            rw [show ({ w.recfg r with origin := some headId } : World U) = World.recfg r { w with origin := some headId } from rfl,
              hreq]
          · have ih := World.recfg_runTasks headId rest
              { ({ w with origin := some headId }).ctlRequest .change t.dest t.payload with origin := w.origin }
              (World.setBit clr t.origin)
            simp only [World.runTasks, recfg_isActiveSnap, recfg_succ, h1, h2, h3, Bool.not_true, ↓reduceIte,
              Bool.false_eq_true, recfg_origin]
            rw [← ih]
            congr 1
            show _ = World.recfg r _
            rw [show ({ w.recfg r with origin := some headId } : World U) = World.recfg r { w with origin := some headId } from rfl,
              hreq]
        · have ih := World.recfg_runTasks headId rest w clr
          simp only [World.runTasks, recfg_isActiveSnap, recfg_succ, h1, h2, Bool.not_true, ↓reduceIte,
            Bool.false_eq_true, ih]
      · simp only [World.runTasks, recfg_isActiveSnap, h1, Bool.not_false, Bool.not_true, ↓reduceIte,
          Bool.false_eq_true]

theorem World.recfg_updatePlan [UtilArith U] (w : World U) (headId inj : Nat) (headed : Bool) (st : TaskStatus) :
    (w.recfg r).updatePlan headId inj headed st =
      ((w.updatePlan headId inj headed st).1.recfg r, (w.updatePlan headId inj headed st).2) := by
  cases hres : st.result with
  | failure =>
    simp only [World.updatePlan, hres]
    rw [show ({ w.recfg r with taskStatus := { (w.recfg r).taskStatus with result := .failure } } : World U) =
      World.recfg r { w with taskStatus := { w.taskStatus with result := .failure } } from rfl]
    simp only [recfg_logRec, recfg_regionStateId, recfg_stateMethod, recfg_taskStatus]
  | success =>
    by_cases hp : (!(w.planOf w.regionId).isEmpty) = true
    · simp only [World.updatePlan, hres, recfg_planOf, recfg_regionId, hp, ↓reduceIte, World.recfg_runTasks]
      rfl
    · simp only [World.updatePlan, hres, recfg_planOf, recfg_regionId, hp, ↓reduceIte, Bool.false_eq_true]
      rw [show ({ w.recfg r with taskStatus := { (w.recfg r).taskStatus with result := .success } } : World U) =
        World.recfg r { w with taskStatus := { w.taskStatus with result := .success } } from rfl]
      simp only [recfg_logRec, recfg_regionStateId, recfg_stateMethod, recfg_taskStatus]
  | none => simp only [World.updatePlan, hres]

mutual
theorem Node.updatePlans_recfg [UtilArith U] : (n : Node) → (w : World U) →
    n.updatePlans (w.recfg r) = ((n.updatePlans w).1.recfg r, (n.updatePlans w).2)
  | .leaf .., w => by rc Node.updatePlans []
  | .compo _ _ _ _ _ a _ _ _ s, w => by
      cases a <;> rc Node.updatePlans [Subs.updatePlansAt_recfg s, World.recfg_updatePlan]
  | .ortho _ _ _ _ s, w => by rc Node.updatePlans [Subs.updatePlansAll_recfg s, World.recfg_updatePlan]
theorem Subs.updatePlansAt_recfg [UtilArith U] : (s : Subs) → (i : Nat) → (w : World U) →
    s.updatePlansAt i (w.recfg r) = ((s.updatePlansAt i w).1.recfg r, (s.updatePlansAt i w).2)
  | .nil, _, w => by rc Subs.updatePlansAt []
  | .cons _ n _, 0, w => by rc Subs.updatePlansAt [Node.updatePlans_recfg n]
  | .cons _ _ rest, i+1, w => by rc Subs.updatePlansAt [Subs.updatePlansAt_recfg rest]
theorem Subs.updatePlansAll_recfg [UtilArith U] : (s : Subs) → (w : World U) →
    s.updatePlansAll (w.recfg r) = ((s.updatePlansAll w).1.recfg r, (s.updatePlansAll w).2)
  | .nil, w => by rc Subs.updatePlansAll []
  | .cons _ n rest, w => by rc Subs.updatePlansAll [Node.updatePlans_recfg n, Subs.updatePlansAll_recfg rest]
end

end Hfsm
