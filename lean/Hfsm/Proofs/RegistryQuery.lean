/-
The registry queries `isActive` / `activeSubState` (path functions of Model/Tree.lean that model the
registry's upward walks to the nearest composite ancestor) agree with the recursive predicates `Act`
/ `Clean` of Proofs/Wf.lean:

  on a tree with DFS-numbered ids, `pathTo` and `follow` are inverse;
  on an `Act` tree      isActive id = (the tree has a composite region ∧ the path to `id` stays inside
                        the active configuration)                        [`Node.isActive_act`]
  on a `Clean` tree     isActive id = false                              [`Node.isActive_clean`]
  activeSubState of a composite region is its `active` field             [`Node.activeSubState_compo`]
-/
import Hfsm.Proofs.RegistryView
import Hfsm.Model.FlatRegistry

set_option linter.unusedSimpArgs false
set_option linter.unusedVariables false

namespace Hfsm

/-! ### ids -/

mutual
theorem Shape.size_toNode : (s : Shape) → (id rid : Nat) → (s.toNode id rid).size = s.stateCount
  | .leaf _, _, _ => rfl
  | .compo _ _ _ s, id, rid => by simp [Shape.toNode, Node.size, Shape.stateCount, Shapes.size_toSubs s]
  | .ortho _ _ s, id, rid => by simp [Shape.toNode, Node.size, Shape.stateCount, Shapes.size_toSubs s]
theorem Shapes.size_toSubs : (ss : Shapes) → (id rid : Nat) → (ss.toSubs id rid).size = ss.stateCount
  | .nil, _, _ => rfl
  | .cons s r, id, rid => by
      simp [Shapes.toSubs, Subs.size, Shapes.stateCount, Shape.size_toNode s, Shapes.size_toSubs r]
end

mutual
theorem Node.idsFrom_toNode : (s : Shape) → (id rid : Nat) → (s.toNode id rid).IdsFrom id
  | .leaf _, _, _ => rfl
  | .compo _ _ _ s, id, rid => ⟨rfl, Subs.idsFrom_toSubs s (id+1) (rid+1)⟩
  | .ortho _ _ s, id, rid => ⟨rfl, Subs.idsFrom_toSubs s (id+1) (rid+1)⟩
theorem Subs.idsFrom_toSubs : (ss : Shapes) → (id rid : Nat) → (ss.toSubs id rid).IdsFrom id
  | .nil, _, _ => trivial
  | .cons s r, id, rid => by
      refine ⟨Node.idsFrom_toNode s id rid, ?_⟩
      rw [Shape.size_toNode]
      exact Subs.idsFrom_toSubs r _ _
end

mutual
theorem Node.view_idsFrom (a r m : Bool) : (n : Node) → (k : Nat) → ((n.view a r m).IdsFrom k ↔ n.IdsFrom k)
  | .leaf .., _ => Iff.rfl
  | .compo _ _ _ _ _ _ _ _ _ s, k => by simp [Node.view, Node.IdsFrom, Subs.viewAll_idsFrom a r m s]
  | .ortho _ _ _ _ s, k => by simp [Node.view, Node.IdsFrom, Subs.viewAll_idsFrom a r m s]
theorem Subs.viewAll_idsFrom (a r m : Bool) : (s : Subs) → (k : Nat) → ((s.viewAll a r m).IdsFrom k ↔ s.IdsFrom k)
  | .nil, _ => Iff.rfl
  | .cons _ n rest, k => by
      simp [Subs.viewAll, Subs.IdsFrom, Node.view_size, Node.view_idsFrom a r m n, Subs.viewAll_idsFrom a r m rest]
end

theorem Node.idsFrom_congr {n n' : Node} {a r m : Bool} (h : n'.view a r m = n.view a r m) (k : Nat) :
    n'.IdsFrom k ↔ n.IdsFrom k := by
  rw [← Node.view_idsFrom a r m n', ← Node.view_idsFrom a r m n, h]

theorem Node.IdsFrom.id_eq' : {n : Node} → {k : Nat} → n.IdsFrom k → n.id = k
  | .leaf .., _, h => h
  | .compo .., _, h => h.1
  | .ortho .., _, h => h.1

theorem Node.size_pos' : (n : Node) → 0 < n.size
  | .leaf .. => by simp [Node.size]
  | .compo .. => by simp [Node.size]; omega
  | .ortho .. => by simp [Node.size]; omega

/-! ### `pathTo` and `follow` are inverse -/

mutual
theorem Node.pathTo_outside : (n : Node) → (k d : Nat) → n.IdsFrom k → (d < k ∨ k + n.size ≤ d) → n.pathTo d = none
  | .leaf id inj, k, d, h, hd => by
      simp only [Node.IdsFrom] at h; subst h
      simp only [Node.size] at hd
      simp only [Node.pathTo]; rw [if_neg (by omega)]
  | .compo id _ _ _ _ _ _ _ _ s, k, d, h, hd => by
      simp only [Node.IdsFrom] at h; obtain ⟨rfl, hs⟩ := h
      simp only [Node.size] at hd
      simp only [Node.pathTo]; rw [if_neg (by omega)]
      exact Subs.pathIn_outside s (id+1) d 0 hs (by omega)
  | .ortho id _ _ _ s, k, d, h, hd => by
      simp only [Node.IdsFrom] at h; obtain ⟨rfl, hs⟩ := h
      simp only [Node.size] at hd
      simp only [Node.pathTo]; rw [if_neg (by omega)]
      exact Subs.pathIn_outside s (id+1) d 0 hs (by omega)
theorem Subs.pathIn_outside : (s : Subs) → (k d i : Nat) → s.IdsFrom k → (d < k ∨ k + s.size ≤ d) → s.pathIn d i = none
  | .nil, _, _, _, _, _ => rfl
  | .cons _ n r, k, d, i, h, hd => by
      simp only [Subs.IdsFrom] at h
      simp only [Subs.size] at hd
      simp only [Subs.pathIn]
      rw [Node.pathTo_outside n k d h.1 (by omega)]
      exact Subs.pathIn_outside r _ d (i+1) h.2 (by omega)
end

theorem Subs.get?_idsFrom : (s : Subs) → (a i : Nat) → (ch : Node) → s.IdsFrom a → s.get? i = some ch →
    ∃ b, a ≤ b ∧ b + ch.size ≤ a + s.size ∧ ch.IdsFrom b
  | .nil, _, _, _, _, hg => by simp [Subs.get?] at hg
  | .cons _ n r, a, 0, ch, hs, hg => by
      simp only [Subs.IdsFrom] at hs
      simp only [Subs.get?, Option.some.injEq] at hg; subst hg
      exact ⟨a, Nat.le_refl _, by simp [Subs.size], hs.1⟩
  | .cons _ n r, a, i+1, ch, hs, hg => by
      simp only [Subs.IdsFrom] at hs
      simp only [Subs.get?] at hg
      obtain ⟨b', h1, h2, h3⟩ := Subs.get?_idsFrom r _ i ch hs.2 hg
      exact ⟨b', by omega, by simp only [Subs.size]; omega, h3⟩

/-- The node at the end of a path lies inside the id range of the tree and is itself numbered. -/
theorem Node.follow_range : (p : List Nat) → (n : Node) → (k : Nat) → (c : Node) → n.IdsFrom k →
    n.follow p = some c → k ≤ c.id ∧ c.id + c.size ≤ k + n.size ∧ c.IdsFrom c.id ∧ (p ≠ [] → k < c.id)
  | [], n, k, c, h, hf => by
      simp only [Node.follow, Option.some.injEq] at hf; subst hf
      have := Node.IdsFrom.id_eq' h
      exact ⟨by omega, by omega, this ▸ h, fun h => absurd rfl h⟩
  | i :: rest, n, k, c, h, hf => by
      simp only [Node.follow] at hf
      split at hf
      · next ch hch =>
        have hsub : n.subs.IdsFrom (k+1) ∧ n.size = 1 + n.subs.size ∨ n.subs = .nil := by
          cases n with
          | leaf => exact .inr rfl
          | compo => exact .inl ⟨h.2, rfl⟩
          | ortho => exact .inl ⟨h.2, rfl⟩
        rcases hsub with ⟨hs, hsz⟩ | hnil
        · obtain ⟨b, h1, h2, h3⟩ := Subs.get?_idsFrom n.subs (k+1) i ch hs hch
          have ih := Node.follow_range rest ch b c h3 hf
          exact ⟨by omega, by omega, ih.2.2.1, fun _ => by omega⟩
        · rw [hnil] at hch; simp [Subs.get?] at hch
      · simp at hf

theorem Subs.pathIn_of_get? : (s : Subs) → (a k i : Nat) → (ch : Node) → (d : Nat) → (rest : List Nat) →
    s.IdsFrom a → s.get? i = some ch → ch.pathTo d = some rest → (∃ b, ch.IdsFrom b ∧ b ≤ d ∧ d < b + ch.size) →
    s.pathIn d k = some ((k + i) :: rest)
  | .nil, _, _, _, _, _, _, _, hg, _, _ => by simp [Subs.get?] at hg
  | .cons _ n r, a, k, 0, ch, d, rest, hs, hg, hp, _ => by
      simp only [Subs.get?, Option.some.injEq] at hg; subst hg
      simp only [Subs.pathIn, hp, Nat.add_zero]
  | .cons _ n r, a, k, i+1, ch, d, rest, hs, hg, hp, hb => by
      simp only [Subs.IdsFrom] at hs
      simp only [Subs.get?] at hg
      -- `d` lies in the range of `ch`, which lies after the range of `n`
      have hrange : a + n.size ≤ d := by
        obtain ⟨b, hb1, hb2, hb3⟩ := hb
        obtain ⟨b', h1, h2, h3⟩ := Subs.get?_idsFrom r _ i ch hs.2 hg
        have e1 := Node.IdsFrom.id_eq' hb1
        have e2 := Node.IdsFrom.id_eq' h3
        omega
      simp only [Subs.pathIn]
      rw [Node.pathTo_outside n a d hs.1 (by omega)]
      have := Subs.pathIn_of_get? r _ (k+1) i ch d rest hs.2 hg hp hb
      have e : k + 1 + i = k + (i + 1) := by omega
      rw [this, e]

theorem Node.pathTo_of_follow : (p : List Nat) → (n : Node) → (k : Nat) → (c : Node) → n.IdsFrom k →
    n.follow p = some c → n.pathTo c.id = some p
  | [], n, k, c, h, hf => by
      simp only [Node.follow, Option.some.injEq] at hf; subst hf
      cases n <;> simp [Node.pathTo, Node.id]
  | i :: rest, n, k, c, h, hf => by
      have hr := Node.follow_range (i :: rest) n k c h hf
      have hlt : k < c.id := hr.2.2.2 (by simp)
      simp only [Node.follow] at hf
      split at hf
      · next ch hch =>
        -- the child is numbered from some `b`
        have hsub : ∃ s, n.subs = s ∧ s.IdsFrom (k+1) ∧ n.pathTo c.id = s.pathIn c.id 0 := by
          cases n with
          | leaf => simp [Node.subs, Subs.get?] at hch
          | compo id _ _ _ _ _ _ _ _ s =>
            refine ⟨s, rfl, h.2, ?_⟩
            have : id = k := h.1
            simp only [Node.pathTo]; rw [if_neg (by omega)]
          | ortho id _ _ _ s =>
            refine ⟨s, rfl, h.2, ?_⟩
            have : id = k := h.1
            simp only [Node.pathTo]; rw [if_neg (by omega)]
        obtain ⟨s, hs1, hs2, hs3⟩ := hsub
        rw [hs1] at hch
        have hchIds : ∃ b, ch.IdsFrom b := by
          obtain ⟨b, _, _, h3⟩ := Subs.get?_idsFrom s _ i ch hs2 hch
          exact ⟨b, h3⟩
        obtain ⟨b, hb⟩ := hchIds
        have ih := Node.pathTo_of_follow rest ch b c hb hf
        have hr2 := Node.follow_range rest ch b c hb hf
        rw [hs3]
        have := Subs.pathIn_of_get? s (k+1) 0 i ch c.id rest hs2 hch ih
          ⟨b, hb, hr2.1, by have := Node.size_pos' c; omega⟩
        simpa using this
      · simp at hf

mutual
theorem Node.follow_of_pathTo : (n : Node) → (d : Nat) → (p : List Nat) → n.pathTo d = some p →
    ∃ c, n.follow p = some c ∧ c.id = d
  | .leaf id inj, d, p, hp => by
      simp only [Node.pathTo] at hp
      split at hp
      · simp only [Option.some.injEq] at hp; subst hp
        exact ⟨_, rfl, by simpa [Node.id]⟩
      · simp at hp
  | .compo id rid inj hd st a r q m s, d, p, hp => by
      simp only [Node.pathTo] at hp
      split at hp
      · simp only [Option.some.injEq] at hp; subst hp
        exact ⟨_, rfl, by simpa [Node.id]⟩
      · obtain ⟨i, rest, ch, h1, h2, c, h3, h4⟩ := Subs.follow_of_pathIn s d 0 p hp
        refine ⟨c, ?_, h4⟩
        rw [h1]; simp only [Node.follow, Node.subs, Nat.zero_add, h2]; exact h3
  | .ortho id rid inj hd s, d, p, hp => by
      simp only [Node.pathTo] at hp
      split at hp
      · simp only [Option.some.injEq] at hp; subst hp
        exact ⟨_, rfl, by simpa [Node.id]⟩
      · obtain ⟨i, rest, ch, h1, h2, c, h3, h4⟩ := Subs.follow_of_pathIn s d 0 p hp
        refine ⟨c, ?_, h4⟩
        rw [h1]; simp only [Node.follow, Node.subs, Nat.zero_add, h2]; exact h3
theorem Subs.follow_of_pathIn : (s : Subs) → (d k : Nat) → (p : List Nat) → s.pathIn d k = some p →
    ∃ i rest ch, p = (k + i) :: rest ∧ s.get? i = some ch ∧ ∃ c, ch.follow rest = some c ∧ c.id = d
  | .nil, _, _, _, hp => by simp [Subs.pathIn] at hp
  | .cons b n r, d, k, p, hp => by
      simp only [Subs.pathIn] at hp
      split at hp
      · next p' hp' =>
        simp only [Option.some.injEq] at hp; subst hp
        obtain ⟨c, hc1, hc2⟩ := Node.follow_of_pathTo n d p' hp'
        exact ⟨0, p', n, rfl, rfl, c, hc1, hc2⟩
      · obtain ⟨i, rest, ch, h1, h2, h3⟩ := Subs.follow_of_pathIn r d (k+1) p hp
        exact ⟨i+1, rest, ch, by rw [h1]; congr 1; omega, by simpa [Subs.get?] using h2, h3⟩
end

/-! ### the upward walk, read top-down -/

/-- the answer the walk takes from a fork: `compoActive[fork] == prong` -/
abbrev qAct : (a r q : Option Nat) → Nat → Bool := fun a _ _ i => a == some i

/-- one step down the path stays inside the active configuration -/
def Node.stepActive (n : Node) (i : Nat) : Bool :=
  match n.subs.get? i with
  | none => false
  | some _ => match n with
    | .compo _ _ _ _ _ a _ _ _ _ => a == some i
    | _ => true

/-- the whole path stays inside the active configuration -/
def Node.onActive : Node → List Nat → Bool
  | _, [] => true
  | n, i :: rest => match n.subs.get? i with
    | none => false
    | some c => n.stepActive i && c.onActive rest

/-- the path leaves a composite region at some step -/
def Node.passesCompo : Node → List Nat → Bool
  | _, [] => false
  | n, i :: rest => match n.subs.get? i with
    | none => false
    | some c => (match n with | .compo .. => true | _ => false) || c.passesCompo rest

mutual
def Node.anyCompo : Node → Bool
  | .leaf .. => false
  | .compo .. => true
  | .ortho _ _ _ _ s => s.anyCompoIn
def Subs.anyCompoIn : Subs → Bool
  | .nil => false
  | .cons _ n r => n.anyCompo || r.anyCompoIn
end

theorem Subs.get?_act : (s : Subs) → (i k : Nat) → (c : Node) → s.ActAt i → s.get? k = some c →
    (k = i → c.Act) ∧ (k ≠ i → c.Clean)
  | .nil, _, _, _, h, _ => by simp [Subs.ActAt] at h
  | .cons _ n r, 0, 0, c, h, hg => by
      simp only [Subs.ActAt] at h
      simp only [Subs.get?, Option.some.injEq] at hg; subst hg
      exact ⟨fun _ => h.1, fun h => absurd rfl h⟩
  | .cons _ n r, 0, k+1, c, h, hg => by
      simp only [Subs.ActAt] at h
      simp only [Subs.get?] at hg
      refine ⟨fun e => by omega, fun _ => ?_⟩
      exact Subs.get?_cleanAll r k c h.2 hg
  | .cons _ n r, i+1, 0, c, h, hg => by
      simp only [Subs.ActAt] at h
      simp only [Subs.get?, Option.some.injEq] at hg; subst hg
      exact ⟨fun e => by omega, fun _ => h.1⟩
  | .cons _ n r, i+1, k+1, c, h, hg => by
      simp only [Subs.ActAt] at h
      simp only [Subs.get?] at hg
      have := Subs.get?_act r i k c h.2 hg
      exact ⟨fun e => this.1 (by omega), fun e => this.2 (by omega)⟩
where
  Subs.get?_cleanAll : (s : Subs) → (k : Nat) → (c : Node) → s.CleanAll → s.get? k = some c → c.Clean
  | .nil, _, _, _, hg => by simp [Subs.get?] at hg
  | .cons _ n r, 0, c, h, hg => by
      simp only [Subs.CleanAll] at h
      simp only [Subs.get?, Option.some.injEq] at hg; subst hg; exact h.1
  | .cons _ n r, k+1, c, h, hg => by
      simp only [Subs.CleanAll] at h
      simp only [Subs.get?] at hg
      exact Subs.get?_cleanAll r k c h.2 hg

theorem Subs.get?_actAll : (s : Subs) → (k : Nat) → (c : Node) → s.ActAll → s.get? k = some c → c.Act
  | .nil, _, _, _, hg => by simp [Subs.get?] at hg
  | .cons _ n r, 0, c, h, hg => by
      simp only [Subs.ActAll] at h
      simp only [Subs.get?, Option.some.injEq] at hg; subst hg; exact h.1
  | .cons _ n r, k+1, c, h, hg => by
      simp only [Subs.ActAll] at h
      simp only [Subs.get?] at hg
      exact Subs.get?_actAll r k c h.2 hg

theorem Subs.get?_cleanAll' : (s : Subs) → (k : Nat) → (c : Node) → s.CleanAll → s.get? k = some c → c.Clean
  | .nil, _, _, _, hg => by simp [Subs.get?] at hg
  | .cons _ n r, 0, c, h, hg => by
      simp only [Subs.CleanAll] at h
      simp only [Subs.get?, Option.some.injEq] at hg; subst hg; exact h.1
  | .cons _ n r, k+1, c, h, hg => by
      simp only [Subs.CleanAll] at h
      simp only [Subs.get?] at hg
      exact Subs.get?_cleanAll' r k c h.2 hg

/-- On an inactive tree the walk answers `false` as soon as it has met a composite region. -/
theorem Node.nearest_clean : (p : List Nat) → (n : Node) → (acc : Bool) → n.Clean → (n.follow p).isSome →
    Node.nearest qAct n p acc = (acc && !n.passesCompo p)
  | [], n, acc, _, _ => by simp [Node.nearest, Node.passesCompo]
  | i :: rest, n, acc, hc, hv => by
      simp only [Node.follow] at hv
      cases hg : n.subs.get? i with
      | none => simp [hg] at hv
      | some c =>
        simp only [hg] at hv
        cases n with
        | leaf => simp [Node.subs, Subs.get?] at hg
        | compo id rid inj hd st a r q m s =>
          simp only [Node.Clean] at hc
          simp only [Node.subs] at hg
          have hcc := Subs.get?_cleanAll' s i c hc.2 hg
          simp only [Node.nearest, Node.subs, hg, Node.passesCompo, Bool.true_or, Bool.not_true, Bool.and_false]
          rw [Node.nearest_clean rest c _ hcc hv]
          simp [qAct, hc.1]
        | ortho id rid inj hd s =>
          simp only [Node.Clean] at hc
          simp only [Node.subs] at hg
          have hcc := Subs.get?_cleanAll' s i c hc hg
          simp only [Node.nearest, Node.subs, hg, Node.passesCompo, Bool.false_or]
          exact Node.nearest_clean rest c _ hcc hv

/-- On a well-formed active tree the walk answers: "the path stays inside the active configuration"
(and, for a path that met no composite region, the default). -/
theorem Node.nearest_act : (p : List Nat) → (n : Node) → (acc : Bool) → n.Act → (n.follow p).isSome →
    Node.nearest qAct n p acc = (n.onActive p && (acc || n.passesCompo p))
  | [], n, acc, _, _ => by simp [Node.nearest, Node.onActive, Node.passesCompo]
  | i :: rest, n, acc, ha, hv => by
      simp only [Node.follow] at hv
      cases hg : n.subs.get? i with
      | none => simp [hg] at hv
      | some c =>
        simp only [hg] at hv
        cases n with
        | leaf => simp [Node.subs, Subs.get?] at hg
        | compo id rid inj hd st a r q m s =>
          simp only [Node.subs] at hg
          cases a with
          | none => simp [Node.Act] at ha
          | some ai =>
            simp only [Node.Act] at ha
            have hch := Subs.get?_act s ai i c ha hg
            simp only [Node.nearest, Node.subs, hg, Node.onActive, Node.stepActive, Node.passesCompo,
              Bool.true_or, Bool.or_true, Bool.and_true]
            by_cases e : i = ai
            · subst e
              rw [Node.nearest_act rest c _ (hch.1 rfl) hv]
              simp [qAct]
            · rw [Node.nearest_clean rest c _ (hch.2 e) hv]
              have : (some ai == some i) = false := by simp; omega
              simp [qAct, this]
        | ortho id rid inj hd s =>
          simp only [Node.Act] at ha
          simp only [Node.subs] at hg
          have hch := Subs.get?_actAll s i c ha hg
          simp only [Node.nearest, Node.subs, hg, Node.onActive, Node.stepActive, Node.passesCompo,
            Bool.false_or, Bool.true_and]
          exact Node.nearest_act rest c _ hch hv

/-! ### `RegistryT::isActive()` -/

mutual
theorem Node.firstCompo_of_act : (n : Node) → n.Act → n.firstCompoActive = if n.anyCompo then some true else none
  | .leaf .., _ => rfl
  | .compo _ _ _ _ _ a _ _ _ _, h => by
      cases a with
      | none => simp [Node.Act] at h
      | some _ => simp [Node.firstCompoActive, Node.anyCompo]
  | .ortho _ _ _ _ s, h => by
      simp only [Node.Act] at h
      simp only [Node.firstCompoActive, Node.anyCompo]
      exact Subs.firstCompo_of_act s h
theorem Subs.firstCompo_of_act : (s : Subs) → s.ActAll → s.firstCompoActive = if s.anyCompoIn then some true else none
  | .nil, _ => rfl
  | .cons _ n r, h => by
      simp only [Subs.ActAll] at h
      simp only [Subs.firstCompoActive, Subs.anyCompoIn]
      rw [Node.firstCompo_of_act n h.1, Subs.firstCompo_of_act r h.2]
      by_cases e : n.anyCompo = true
      · simp [e]
      · have e' : n.anyCompo = false := by simpa using e
        simp [e']
end

mutual
theorem Node.firstCompo_of_clean : (n : Node) → n.Clean → n.firstCompoActive = if n.anyCompo then some false else none
  | .leaf .., _ => rfl
  | .compo _ _ _ _ _ a _ _ _ _, h => by
      simp only [Node.Clean] at h
      simp [Node.firstCompoActive, Node.anyCompo, h.1]
  | .ortho _ _ _ _ s, h => by
      simp only [Node.Clean] at h
      simp only [Node.firstCompoActive, Node.anyCompo]
      exact Subs.firstCompo_of_clean s h
theorem Subs.firstCompo_of_clean : (s : Subs) → s.CleanAll → s.firstCompoActive = if s.anyCompoIn then some false else none
  | .nil, _ => rfl
  | .cons _ n r, h => by
      simp only [Subs.CleanAll] at h
      simp only [Subs.firstCompoActive, Subs.anyCompoIn]
      rw [Node.firstCompo_of_clean n h.1, Subs.firstCompo_of_clean r h.2]
      by_cases e : n.anyCompo = true
      · simp [e]
      · have e' : n.anyCompo = false := by simpa using e
        simp [e']
end

theorem Node.machineActive_of_act {n : Node} (h : n.Act) : n.machineActive = n.anyCompo := by
  unfold Node.machineActive; rw [Node.firstCompo_of_act n h]; cases n.anyCompo <;> rfl

theorem Node.machineActive_of_clean {n : Node} (h : n.Clean) : n.machineActive = false := by
  unfold Node.machineActive; rw [Node.firstCompo_of_clean n h]; cases n.anyCompo <;> rfl

theorem Subs.anyCompoIn_get? : (s : Subs) → (i : Nat) → (c : Node) → s.get? i = some c → c.anyCompo = true →
    s.anyCompoIn = true
  | .nil, _, _, hg, _ => by simp [Subs.get?] at hg
  | .cons _ n r, 0, c, hg, hc => by
      simp only [Subs.get?, Option.some.injEq] at hg; subst hg
      simp [Subs.anyCompoIn, hc]
  | .cons _ n r, i+1, c, hg, hc => by
      simp only [Subs.get?] at hg
      simp [Subs.anyCompoIn, Subs.anyCompoIn_get? r i c hg hc]

theorem Node.anyCompo_of_passesCompo : (p : List Nat) → (n : Node) → n.passesCompo p = true → n.anyCompo = true
  | [], _, h => by simp [Node.passesCompo] at h
  | i :: rest, n, h => by
      simp only [Node.passesCompo] at h
      cases hg : n.subs.get? i with
      | none => simp [hg] at h
      | some c =>
        simp only [hg] at h
        cases n with
        | leaf => simp [Node.subs, Subs.get?] at hg
        | compo => rfl
        | ortho id rid inj hd s =>
          simp only [Bool.false_or] at h
          simp only [Node.subs] at hg
          simp only [Node.anyCompo]
          exact Subs.anyCompoIn_get? s i c hg (Node.anyCompo_of_passesCompo rest c h)

/-- `isActive(id)` on a well-formed active tree. -/
theorem Node.isActive_act {root : Node} {id : Nat} {p : List Nat} (ha : root.Act) (hp : root.pathTo id = some p) :
    root.isActive id = (root.anyCompo && root.onActive p) := by
  obtain ⟨c, hc, _⟩ := Node.follow_of_pathTo root id p hp
  unfold Node.isActive
  rw [hp]
  show Node.nearest qAct root p root.machineActive = _
  rw [Node.nearest_act p root _ ha (by rw [hc]; rfl), Node.machineActive_of_act ha]
  cases h1 : root.anyCompo
  · have : root.passesCompo p = false := by
      cases h2 : root.passesCompo p
      · rfl
      · rw [Node.anyCompo_of_passesCompo p root h2] at h1; cases h1
    simp [this]
  · simp

/-- `isActive(id)` on an inactive tree. -/
theorem Node.isActive_clean {root : Node} (id : Nat) (hc : root.Clean) : root.isActive id = false := by
  unfold Node.isActive
  cases hp : root.pathTo id with
  | none => rfl
  | some p =>
    obtain ⟨c, hc', _⟩ := Node.follow_of_pathTo root id p hp
    show Node.nearest qAct root p root.machineActive = false
    rw [Node.nearest_clean p root _ hc (by rw [hc']; rfl), Node.machineActive_of_clean hc]
    rfl

/-- the root state is active exactly when the machine is -/
theorem Node.isActive_root (root : Node) : root.isActive root.id = root.machineActive := by
  unfold Node.isActive
  have : root.pathTo root.id = some [] := by cases root <;> simp [Node.pathTo, Node.id]
  rw [this]; rfl

/-! ### paths, one step at a time -/

theorem Node.follow_append : (p : List Nat) → (n c : Node) → (i : Nat) → n.follow p = some c →
    n.follow (p ++ [i]) = c.subs.get? i
  | [], n, c, i, h => by
      simp only [Node.follow, Option.some.injEq] at h; subst h
      simp only [List.nil_append, Node.follow]
      cases n.subs.get? i <;> rfl
  | j :: rest, n, c, i, h => by
      simp only [Node.follow] at h
      cases hg : n.subs.get? j with
      | none => simp [hg] at h
      | some ch =>
        simp only [hg] at h
        simp only [List.cons_append, Node.follow, hg]
        exact Node.follow_append rest ch c i h

theorem Node.onActive_append : (p : List Nat) → (n c : Node) → (i : Nat) → n.follow p = some c →
    n.onActive (p ++ [i]) = (n.onActive p && c.stepActive i)
  | [], n, c, i, h => by
      simp only [Node.follow, Option.some.injEq] at h; subst h
      simp only [List.nil_append, Node.onActive, Bool.true_and]
      cases hg : n.subs.get? i with
      | none => simp [Node.stepActive, hg]
      | some ch => simp [Node.onActive]
  | j :: rest, n, c, i, h => by
      simp only [Node.follow] at h
      cases hg : n.subs.get? j with
      | none => simp [hg] at h
      | some ch =>
        simp only [hg] at h
        simp only [List.cons_append, Node.onActive, hg, Node.onActive_append rest ch c i h, Bool.and_assoc]

/-- a node on an active path of a well-formed tree is itself active and well formed -/
theorem Node.act_of_onActive : (p : List Nat) → (n c : Node) → n.Act → n.follow p = some c → n.onActive p = true → c.Act
  | [], n, c, ha, h, _ => by simp only [Node.follow, Option.some.injEq] at h; subst h; exact ha
  | j :: rest, n, c, ha, h, ho => by
      simp only [Node.follow] at h
      cases hg : n.subs.get? j with
      | none => simp [hg] at h
      | some ch =>
        simp only [hg] at h
        simp only [Node.onActive, hg, Bool.and_eq_true] at ho
        have hch : ch.Act := by
          cases n with
          | leaf => simp [Node.subs, Subs.get?] at hg
          | compo id rid inj hd st a r q m s =>
            cases a with
            | none => simp [Node.Act] at ha
            | some ai =>
              simp only [Node.Act] at ha
              simp only [Node.subs] at hg
              have hs := ho.1
              simp only [Node.stepActive, Node.subs, hg, beq_iff_eq, Option.some.injEq] at hs
              exact (Subs.get?_act s ai j ch ha hg).1 hs.symm
          | ortho id rid inj hd s =>
            simp only [Node.Act] at ha
            simp only [Node.subs] at hg
            exact Subs.get?_actAll s j ch ha hg
        exact Node.act_of_onActive rest ch c hch h ho.2

/-! ### `activeSubState` -/

/-- `activeSubState(region)` of a composite region is the region's `active` field. -/
theorem Node.activeSubState_compo {root : Node} {k : Nat} (hI : root.IdsFrom k) {p : List Nat}
    {id rid inj : Nat} {hd : Bool} {st : Strategy} {a r q : Option Nat} {m : Bool} {s : Subs}
    (hf : root.follow p = some (.compo id rid inj hd st a r q m s)) (hlen : 0 < s.len) :
    root.activeSubState id = a := by
  -- the first sub-state carries the id `id + 1`
  obtain ⟨c0, hc0⟩ : ∃ c0, s.get? 0 = some c0 := by
    cases s with
    | nil => simp [Subs.len] at hlen
    | cons _ n _ => exact ⟨n, rfl⟩
  have hr := Node.follow_range p root k _ hI hf
  have hIds : (Node.compo id rid inj hd st a r q m s).IdsFrom id := by simpa [Node.id] using hr.2.2.1
  have hc0id : c0.id = id + 1 := by
    cases s with
    | nil => simp [Subs.get?] at hc0
    | cons _ n _ =>
      simp only [Subs.get?, Option.some.injEq] at hc0; subst hc0
      exact Node.IdsFrom.id_eq' hIds.2.1
  have hf0 : root.follow (p ++ [0]) = some c0 := by
    rw [Node.follow_append p root _ 0 hf]; simpa [Node.subs] using hc0
  have hp0 := Node.pathTo_of_follow (p ++ [0]) root k c0 hI hf0
  unfold Node.activeSubState
  rw [← hc0id, hp0]
  simp [hf]

end Hfsm
