/-
Capacity bounds and stickiness of the contract-violation flag, for every operation (C11).

`SafeRel w w'`: the configuration is unchanged; if the request queue of `w` respects its capacity
(`COMPO_COUNT`) so does that of `w'`; if the task pool of `w` respects `TASK_CAPACITY` so does that of
`w'`; and an error-free `w'` can only come from an error-free `w`.
-/
import Hfsm.Proofs.WorldPrim
import Hfsm.Proofs.Api

set_option linter.unusedVariables false
set_option linter.unusedSectionVars false

namespace Hfsm
variable {U : Type}

def SafeRel (w w' : World U) : Prop :=
  w'.cfg = w.cfg ∧
  (w.requests.length ≤ w.cfg.queueCap → w'.requests.length ≤ w.cfg.queueCap) ∧
  (w.taskCount ≤ w.cfg.taskCap → w'.taskCount ≤ w.cfg.taskCap) ∧
  (w'.err = none → w.err = none)

/-! ### sums of plan lengths under `List.set` -/

theorem planLen_sum_set_lt (l : List (List Task)) (i : Nat) (x : List Task) (h : i < l.length) :
    ((l.set i x).map List.length).sum + (l.getD i []).length = (l.map List.length).sum + x.length := by
  induction l generalizing i with
  | nil => simp at h
  | cons a t ih =>
    cases i with
    | zero => simp [List.set]; omega
    | succ j =>
      have := ih j (by simpa using h)
      simp [List.set] at this ⊢; omega

theorem planList_set_ge (l : List (List Task)) (i : Nat) (x : List Task) (h : l.length ≤ i) : l.set i x = l := by
  induction l generalizing i with
  | nil => rfl
  | cons a t ih =>
    cases i with
    | zero => simp at h
    | succ j => simp [List.set, ih j (by simpa using h)]

theorem planList_getD_ge (l : List (List Task)) (i : Nat) (h : l.length ≤ i) : l.getD i [] = [] := by
  simp [List.getD, List.getElem?_eq_none h]

theorem taskCount_setPlan_le (w : World U) (r : Nat) (p : List Task) :
    (w.setPlan r p).taskCount + (w.planOf r).length ≤ w.taskCount + p.length := by
  simp only [World.taskCount, World.setPlan, World.planOf]
  by_cases h : r < w.plans.length
  · exact Nat.le_of_eq (planLen_sum_set_lt w.plans r p h)
  · have h' : w.plans.length ≤ r := Nat.le_of_not_lt h
    rw [planList_set_ge _ _ _ h', planList_getD_ge _ _ h']; simp

theorem planLen_sum_replicate_nil (n : Nat) : ((List.replicate n ([] : List Task)).map List.length).sum = 0 := by
  induction n with
  | zero => rfl
  | succ k ih => simp [List.replicate_succ]

/-! ### the instance -/

theorem SafeRel.refl (w : World U) : SafeRel w w := ⟨rfl, id, id, id⟩

theorem SafeRel.trans {a b c : World U} (h1 : SafeRel a b) (h2 : SafeRel b c) : SafeRel a c := by
  obtain ⟨c1, q1, t1, e1⟩ := h1
  obtain ⟨c2, q2, t2, e2⟩ := h2
  refine ⟨c2.trans c1, fun h => ?_, fun h => ?_, fun h => e1 (e2 h)⟩
  · have := q2 (by rw [c1]; exact q1 h); rwa [c1] at this
  · have := t2 (by rw [c1]; exact t1 h); rwa [c1] at this

theorem SafeRel.frame {w w' : World U} (h1 : w'.cfg = w.cfg) (_ : w'.trace = w.trace)
    (h3 : w'.requests = w.requests) (h4 : w'.plans = w.plans) (h5 : w'.err = w.err) : SafeRel w w' :=
  ⟨h1, fun h => by rw [h3]; exact h, fun h => by simp only [World.taskCount] at h ⊢; rw [h4]; exact h,
   fun h => by rw [← h5]; exact h⟩

theorem safeRel_prim : WPrim (SafeRel (U := U)) where
  refl := SafeRel.refl
  trans := SafeRel.trans
  frame := SafeRel.frame
  fail' := fun w msg => by
    unfold World.fail'
    cases h : w.err with
    | some e => exact SafeRel.refl w
    | none => exact ⟨rfl, id, id, fun h' => by simp at h'⟩
  log := fun w r => by
    unfold World.logRec World.emit
    split
    · exact ⟨rfl, id, id, id⟩
    · exact SafeRel.refl w
  cb := fun w sid m slot obs pend curr => ⟨rfl, id, id, id⟩
  enqueue := fun w t => by
    split
    · next h => exact ⟨rfl, fun _ => by simp; omega, id, id⟩
    · exact SafeRel.refl w
  planAppend := fun w r t => by
    unfold World.planAppend
    split
    · next h =>
      refine ⟨rfl, id, fun _ => ?_, id⟩
      have := taskCount_setPlan_le w r (w.planOf r ++ [t])
      simp only [List.length_append, List.length_singleton] at this
      show (World.taskCount { (w.setPlan r (w.planOf r ++ [t])) with planExists := _ }) ≤ _
      have e : World.taskCount { (w.setPlan r (w.planOf r ++ [t])) with
          planExists := World.setBit (w.setPlan r (w.planOf r ++ [t])).planExists r } =
          (w.setPlan r (w.planOf r ++ [t])).taskCount := rfl
      rw [e]; omega
    · exact SafeRel.refl w
  shrinkPlan := fun w r p hp => by
    refine ⟨rfl, id, fun h => ?_, id⟩
    have := taskCount_setPlan_le w r p
    show (w.setPlan r p).taskCount ≤ w.cfg.taskCap
    omega
  clearRequests := fun w => ⟨rfl, fun _ => Nat.zero_le _, id, id⟩
  clearPlans := fun w n => by
    refine ⟨rfl, id, fun _ => ?_, id⟩
    show ((List.replicate n ([] : List Task)).map List.length).sum ≤ _
    rw [planLen_sum_replicate_nil]; exact Nat.zero_le _

theorem safeRel [UtilArith U] : WRel (SafeRel (U := U)) := WRel.ofPrim safeRel_prim


/-! ### bounds of a fresh instance and of every operation -/

/-- The request queue and the task pool respect their capacities. -/
def Mach.Bounded (m : Mach U) : Prop :=
  m.w.requests.length ≤ m.w.cfg.queueCap ∧ m.w.taskCount ≤ m.w.cfg.taskCap

theorem bounded_create (shape : Shape) (cfg : Config) : (Mach.create shape cfg : Mach U).Bounded := by
  have h : ∀ w : World U, w.clearTargets.requests = w.requests ∧ w.clearTargets.plans = w.plans := by
    intro w; unfold World.clearTargets; split <;> exact ⟨rfl, rfl⟩
  unfold Mach.Bounded World.taskCount
  simp only [Mach.create, World.freshControl, (h _).1, (h _).2, World.clearPlanData, World.clearStatuses,
    planLen_sum_replicate_nil]
  exact ⟨Nat.zero_le _, Nat.zero_le _⟩

theorem SafeRel.bounded {m m' : Mach U} (h : SafeRel m.w m'.w) (hb : m.Bounded) : m'.Bounded := by
  obtain ⟨c, q, t, _⟩ := h
  exact ⟨by rw [c]; exact q hb.1, by rw [c]; exact t hb.2⟩

/-! ### the contract-violation flag marks exactly the out-of-range dispatches

`World.fail'` never clears `err`, so a sub-state dispatch (`…At`) that ends with `err = none` addressed an
existing sub-state; together with the stickiness of `err` (`SafeRel`, 4th component) an operation that
ends with `err = none` performed only in-range dispatches. -/

theorem fail'_err_ne_none (w : World U) (msg : String) : (w.fail' msg).err ≠ none := by
  unfold World.fail'
  cases h : w.err with
  | some e => simp [h]
  | none => simp

theorem reportChangeAt_inRange [UtilArith U] : (s : Subs) → (i : Nat) → (w : World U) →
    (s.reportChangeAt i w).2.1.err = none → i < s.len
  | .nil, _, w, h => by simp only [Subs.reportChangeAt] at h; exact absurd h (fail'_err_ne_none w _)
  | .cons _ _ _, 0, _, _ => by simp [Subs.len]
  | .cons _ _ r, i+1, w, h => by
      simp only [Subs.reportChangeAt] at h
      simp only [Subs.len]; exact Nat.succ_lt_succ (reportChangeAt_inRange r i w h)

theorem requestAt_inRange [UtilArith U] (rq : Req) : (s : Subs) → (i : Nat) → (w : World U) →
    (s.requestAt i rq w).2.err = none → i < s.len
  | .nil, _, w, h => by simp only [Subs.requestAt] at h; exact absurd h (fail'_err_ne_none w _)
  | .cons _ _ _, 0, _, _ => by simp [Subs.len]
  | .cons _ _ r, i+1, w, h => by
      simp only [Subs.requestAt] at h
      simp only [Subs.len]; exact Nat.succ_lt_succ (requestAt_inRange rq r i w h)

theorem fwdRequestAt_inRange [UtilArith U] (rq : Req) : (s : Subs) → (i : Nat) → (w : World U) →
    (s.fwdRequestAt i rq w).2.err = none → i < s.len
  | .nil, _, w, h => by simp only [Subs.fwdRequestAt] at h; exact absurd h (fail'_err_ne_none w _)
  | .cons _ _ _, 0, _, _ => by simp [Subs.len]
  | .cons _ _ r, i+1, w, h => by
      simp only [Subs.fwdRequestAt] at h
      simp only [Subs.len]; exact Nat.succ_lt_succ (fwdRequestAt_inRange rq r i w h)

theorem fwdActiveAt_inRange [UtilArith U] (rq : Req) : (s : Subs) → (i : Nat) → (w : World U) →
    (s.fwdActiveAt i rq w).2.err = none → i < s.len
  | .nil, _, w, h => by simp only [Subs.fwdActiveAt] at h; exact absurd h (fail'_err_ne_none w _)
  | .cons _ _ _, 0, _, _ => by simp [Subs.len]
  | .cons _ _ r, i+1, w, h => by
      simp only [Subs.fwdActiveAt] at h
      simp only [Subs.len]; exact Nat.succ_lt_succ (fwdActiveAt_inRange rq r i w h)

theorem entryGuardAt_inRange : (s : Subs) → (i : Nat) → (w : World U) →
    (s.entryGuardAt i w).1.err = none → i < s.len
  | .nil, _, w, h => by simp only [Subs.entryGuardAt] at h; exact absurd h (fail'_err_ne_none w _)
  | .cons _ _ _, 0, _, _ => by simp [Subs.len]
  | .cons _ _ r, i+1, w, h => by
      simp only [Subs.entryGuardAt] at h
      simp only [Subs.len]; exact Nat.succ_lt_succ (entryGuardAt_inRange r i w h)

theorem fwdEntryGuardAt_inRange : (s : Subs) → (i : Nat) → (w : World U) →
    (s.fwdEntryGuardAt i w).1.err = none → i < s.len
  | .nil, _, w, h => by simp only [Subs.fwdEntryGuardAt] at h; exact absurd h (fail'_err_ne_none w _)
  | .cons _ _ _, 0, _, _ => by simp [Subs.len]
  | .cons _ _ r, i+1, w, h => by
      simp only [Subs.fwdEntryGuardAt] at h
      simp only [Subs.len]; exact Nat.succ_lt_succ (fwdEntryGuardAt_inRange r i w h)

theorem exitGuardAt_inRange : (s : Subs) → (i : Nat) → (w : World U) →
    (s.exitGuardAt i w).1.err = none → i < s.len
  | .nil, _, w, h => by simp only [Subs.exitGuardAt] at h; exact absurd h (fail'_err_ne_none w _)
  | .cons _ _ _, 0, _, _ => by simp [Subs.len]
  | .cons _ _ r, i+1, w, h => by
      simp only [Subs.exitGuardAt] at h
      simp only [Subs.len]; exact Nat.succ_lt_succ (exitGuardAt_inRange r i w h)

theorem fwdExitGuardAt_inRange : (s : Subs) → (i : Nat) → (w : World U) →
    (s.fwdExitGuardAt i w).1.err = none → i < s.len
  | .nil, _, w, h => by simp only [Subs.fwdExitGuardAt] at h; exact absurd h (fail'_err_ne_none w _)
  | .cons _ _ _, 0, _, _ => by simp [Subs.len]
  | .cons _ _ r, i+1, w, h => by
      simp only [Subs.fwdExitGuardAt] at h
      simp only [Subs.len]; exact Nat.succ_lt_succ (fwdExitGuardAt_inRange r i w h)

theorem enterAt_inRange : (s : Subs) → (i : Nat) → (w : World U) →
    (s.enterAt i w).2.err = none → i < s.len
  | .nil, _, w, h => by simp only [Subs.enterAt] at h; exact absurd h (fail'_err_ne_none w _)
  | .cons _ _ _, 0, _, _ => by simp [Subs.len]
  | .cons _ _ r, i+1, w, h => by
      simp only [Subs.enterAt] at h
      simp only [Subs.len]; exact Nat.succ_lt_succ (enterAt_inRange r i w h)

theorem exitAt_inRange : (s : Subs) → (i : Nat) → (w : World U) →
    (s.exitAt i w).2.err = none → i < s.len
  | .nil, _, w, h => by simp only [Subs.exitAt] at h; exact absurd h (fail'_err_ne_none w _)
  | .cons _ _ _, 0, _, _ => by simp [Subs.len]
  | .cons _ _ r, i+1, w, h => by
      simp only [Subs.exitAt] at h
      simp only [Subs.len]; exact Nat.succ_lt_succ (exitAt_inRange r i w h)

theorem reenterAt_inRange : (s : Subs) → (i : Nat) → (w : World U) →
    (s.reenterAt i w).2.err = none → i < s.len
  | .nil, _, w, h => by simp only [Subs.reenterAt] at h; exact absurd h (fail'_err_ne_none w _)
  | .cons _ _ _, 0, _, _ => by simp [Subs.len]
  | .cons _ _ r, i+1, w, h => by
      simp only [Subs.reenterAt] at h
      simp only [Subs.len]; exact Nat.succ_lt_succ (reenterAt_inRange r i w h)

theorem commitAt_inRange : (s : Subs) → (i : Nat) → (w : World U) →
    (s.commitAt i w).2.err = none → i < s.len
  | .nil, _, w, h => by simp only [Subs.commitAt] at h; exact absurd h (fail'_err_ne_none w _)
  | .cons _ _ _, 0, _, _ => by simp [Subs.len]
  | .cons _ _ r, i+1, w, h => by
      simp only [Subs.commitAt] at h
      simp only [Subs.len]; exact Nat.succ_lt_succ (commitAt_inRange r i w h)

theorem updatePlansAt_inRange : (s : Subs) → (i : Nat) → (w : World U) →
    (s.updatePlansAt i w).1.err = none → i < s.len
  | .nil, _, w, h => by simp only [Subs.updatePlansAt] at h; exact absurd h (fail'_err_ne_none w _)
  | .cons _ _ _, 0, _, _ => by simp [Subs.len]
  | .cons _ _ r, i+1, w, h => by
      simp only [Subs.updatePlansAt] at h
      simp only [Subs.len]; exact Nat.succ_lt_succ (updatePlansAt_inRange r i w h)

theorem tickAt_inRange (ph : Method) : (s : Subs) → (i : Nat) → (w : World U) →
    (s.tickAt ph i w).1.err = none → i < s.len
  | .nil, _, w, h => by simp only [Subs.tickAt] at h; exact absurd h (fail'_err_ne_none w _)
  | .cons _ _ _, 0, _, _ => by simp [Subs.len]
  | .cons _ _ r, i+1, w, h => by
      simp only [Subs.tickAt] at h
      simp only [Subs.len]; exact Nat.succ_lt_succ (tickAt_inRange ph r i w h)

theorem reactAt_inRange (ph : Method) (hf po : Bool) : (s : Subs) → (i : Nat) → (w : World U) →
    (s.reactAt ph hf po i w).1.err = none → i < s.len
  | .nil, _, w, h => by simp only [Subs.reactAt] at h; exact absurd h (fail'_err_ne_none w _)
  | .cons _ _ _, 0, _, _ => by simp [Subs.len]
  | .cons _ _ r, i+1, w, h => by
      simp only [Subs.reactAt] at h
      simp only [Subs.len]; exact Nat.succ_lt_succ (reactAt_inRange ph hf po r i w h)

theorem queryAt_inRange (hf : Bool) : (s : Subs) → (i : Nat) → (w : World U) →
    (s.queryAt hf i w).err = none → i < s.len
  | .nil, _, w, h => by simp only [Subs.queryAt] at h; exact absurd h (fail'_err_ne_none w _)
  | .cons _ _ _, 0, _, _ => by simp [Subs.len]
  | .cons _ _ r, i+1, w, h => by
      simp only [Subs.queryAt] at h
      simp only [Subs.len]; exact Nat.succ_lt_succ (queryAt_inRange hf r i w h)

/-! ### `currentTransitions` never outgrows `COMPO_COUNT × SUBSTITUTION_LIMIT` -/

theorem clearTargets_safe (w : World U) : SafeRel w w.clearTargets := by
  unfold World.clearTargets; split
  · exact SafeRel.frame rfl rfl rfl rfl rfl
  · exact SafeRel.refl w

theorem rounds_current_le [UtilArith U] (initial : Bool) : (fuel : Nat) → (m : Mach U) → (backup : Node) →
    (cur : List Transition) → m.w.requests.length ≤ m.w.cfg.queueCap →
    (Mach.rounds initial fuel m backup cur).2.length ≤ cur.length + fuel * m.w.cfg.queueCap
  | 0, m, _, cur, _ => by simp [Mach.rounds]
  | fuel+1, m, backup, cur, hq => by
      have hmul : cur.length + fuel * m.w.cfg.queueCap ≤ cur.length + (fuel + 1) * m.w.cfg.queueCap := by
        rw [Nat.succ_mul]; omega
      simp only [Mach.rounds]
      split
      · show cur.length ≤ _; omega
      · have h1 := safeRel.applyAll m.w.requests m 0
        generalize m.applyAll m.w.requests 0 = m1 at h1 ⊢
        have hc1 : m1.w.cfg = m.w.cfg := h1.1
        split
        · -- the marks changed: guards
          let m2 : Mach U := { m1 with w := { m1.w with requests := [] } }
          have h2 : SafeRel m.w m2.w := h1.trans (safeRel.clearRequests m1.w)
          have hb2 : m2.w.requests.length ≤ m2.w.cfg.queueCap := Nat.zero_le _
          split
          · next hinit =>
            -- entry guards only
            have h3 := safeRel.approvedByEntryGuards m2 cur m.w.requests
            generalize m2.approvedByEntryGuards cur m.w.requests = res at h3 ⊢
            obtain ⟨m3, ok⟩ := res
            have h23 : SafeRel m.w m3.w := h2.trans h3
            have hc3 : m3.w.cfg = m.w.cfg := h23.1
            have hb3 : m3.w.requests.length ≤ m3.w.cfg.queueCap := by
              have := h3.2.1 hb2; rw [hc3]; exact (show m2.w.cfg = m.w.cfg from h2.1) ▸ this
            cases ok
            · simp only [Bool.false_eq_true, if_false]
              have ih := rounds_current_le initial fuel
                { m3 with root := m3.root.restoreMarks backup, w := m3.w } backup cur hb3
              simp only [hinit] at ih ⊢
              rw [hc3] at ih; omega
            · simp only [if_true]
              have ih := rounds_current_le initial fuel m3 m3.root (cur ++ m.w.requests) hb3
              rw [hc3, List.length_append] at ih; rw [Nat.succ_mul]; omega
          · next hinit =>
            have h3 := safeRel.approvedByGuards m2 cur m.w.requests
            generalize m2.approvedByGuards cur m.w.requests = res at h3 ⊢
            obtain ⟨m3, ok⟩ := res
            have h23 : SafeRel m.w m3.w := h2.trans h3
            have hc3 : m3.w.cfg = m.w.cfg := h23.1
            have hb3 : m3.w.requests.length ≤ m3.w.cfg.queueCap := by
              have := h3.2.1 hb2; rw [hc3]; exact (show m2.w.cfg = m.w.cfg from h2.1) ▸ this
            cases ok
            · simp only [Bool.false_eq_true, if_false]
              have h4 := clearTargets_safe m3.w
              have hb4 : m3.w.clearTargets.requests.length ≤ m3.w.clearTargets.cfg.queueCap := by
                rw [h4.1]; exact h4.2.1 hb3
              have ih := rounds_current_le initial fuel
                { m3 with root := m3.root.restoreMarks backup, w := m3.w.clearTargets } backup cur hb4
              simp only [hinit] at ih ⊢
              rw [show m3.w.clearTargets.cfg = m.w.cfg from h4.1.trans hc3] at ih
              omega
            · simp only [if_true]
              have ih := rounds_current_le initial fuel m3 m3.root (cur ++ m.w.requests) hb3
              rw [hc3, List.length_append] at ih; rw [Nat.succ_mul]; omega
        · have ih := rounds_current_le initial fuel { m1 with w := { m1.w with requests := [] } } backup cur
            (Nat.zero_le _)
          rw [show ({ m1 with w := { m1.w with requests := [] } } : Mach U).w.cfg = m.w.cfg from hc1] at ih
          dsimp only at ih ⊢
          omega

end Hfsm
