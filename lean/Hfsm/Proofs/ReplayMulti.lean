/-
C09, replay of a multi-round step.  The substitution loop does NOT commit between rounds: an approved round
leaves its request marks in the registry and the next round's requests are applied on top of them; the single
commit pass runs after the loop.  `replayTransitions` applies the concatenated history in one batch on the same
registry — the same sequence of `applyRequest` calls, with other queue indices (which only feed
`pinLastTransition`) and without the guard passes (which never touch the registry).  Hence, on machines that
resolve without callbacks (`Plain`), replay reproduces the authority's registry for steps of ANY number of
rounds, provided what the non-recorded rounds (vetoed, unchanged) did to the registry was undone: true unless
such a round carried a `schedule` request (`registry.restore` does not restore `compoResumable`).
-/
import Hfsm.Proofs.Replay
import Hfsm.Proofs.Witness
import Hfsm.Proofs.Wf

set_option linter.unusedSectionVars false

namespace Hfsm
variable {U : Type} [UtilArith U]

-- (`Node.request_treeK`, `Node.fwdRequest_treeK`, `Node.fwdActive_treeK`, `Mach.applyRequest_treeK`: the tree a request
-- pass returns does not depend on the queue index either — Proofs/Replay.lean)

/-! ### trees that differ in request marks only -/

mutual
/-- same tree up to request marks, and the request marks do not differ: the same tree -/
theorem Node.eq_of_marks_eq : (a b : Node) → a.clearMarks = b.clearMarks → a.marksDiffer b = false → a = b
  | .leaf id inj, .leaf id' inj', h, _ => by
    simp only [Node.clearMarks, Node.leaf.injEq] at h
    rw [h.1, h.2]
  | .leaf .., .compo .., h, _ => by simp only [Node.clearMarks] at h; cases h
  | .leaf .., .ortho .., h, _ => by simp only [Node.clearMarks] at h; cases h
  | .compo .., .leaf .., h, _ => by simp only [Node.clearMarks] at h; cases h
  | .compo .., .ortho .., h, _ => by simp only [Node.clearMarks] at h; cases h
  | .ortho .., .leaf .., h, _ => by simp only [Node.clearMarks] at h; cases h
  | .ortho .., .compo .., h, _ => by simp only [Node.clearMarks] at h; cases h
  | .compo id rid inj hd st a r q m s, .compo id' rid' inj' hd' st' a' r' q' m' s', h, hm => by
    simp only [Node.clearMarks, Node.compo.injEq] at h
    obtain ⟨h1, h2, h3, h4, h5, h6, h7, _, _, h8⟩ := h
    simp only [Node.marksDiffer, Bool.or_eq_false_iff, bne_eq_false_iff_eq] at hm
    obtain ⟨⟨m1, m2⟩, m3⟩ := hm
    rw [h1, h2, h3, h4, h5, h6, h7, m1, m2, Subs.eq_of_marks_eq s s' h8 m3]
  | .ortho id rid inj hd s, .ortho id' rid' inj' hd' s', h, hm => by
    simp only [Node.clearMarks, Node.ortho.injEq] at h
    obtain ⟨h1, h2, h3, h4, h8⟩ := h
    simp only [Node.marksDiffer] at hm
    rw [h1, h2, h3, h4, Subs.eq_of_marks_eq s s' h8 hm]
theorem Subs.eq_of_marks_eq : (a b : Subs) → a.clearMarks = b.clearMarks → a.marksDiffer b = false → a = b
  | .nil, .nil, _, _ => rfl
  | .nil, .cons .., h, _ => by simp only [Subs.clearMarks] at h; cases h
  | .cons .., .nil, h, _ => by simp only [Subs.clearMarks] at h; cases h
  | .cons b n r, .cons b' n' r', h, hm => by
    simp only [Subs.clearMarks, Subs.cons.injEq, true_and] at h
    simp only [Subs.marksDiffer, Bool.or_eq_false_iff, bne_eq_false_iff_eq] at hm
    obtain ⟨⟨m1, m2⟩, m3⟩ := hm
    rw [m1, Node.eq_of_marks_eq n n' h.1 m2, Subs.eq_of_marks_eq r r' h.2 m3]
end

mutual
/-- taking the resumable marks of a tree that differs in request marks only changes nothing -/
theorem Node.withResumableOf_same : (a b : Node) → b.clearMarks = a.clearMarks → a.withResumableOf b = a
  | .leaf .., _, _ => by simp only [Node.withResumableOf]
  | .compo .., .leaf .., _ => by simp only [Node.withResumableOf]
  | .compo .., .ortho .., _ => by simp only [Node.withResumableOf]
  | .ortho .., .leaf .., _ => by simp only [Node.withResumableOf]
  | .ortho .., .compo .., _ => by simp only [Node.withResumableOf]
  | .compo id rid inj hd st a r q m s, .compo id' rid' inj' hd' st' a' r' q' m' s', h => by
    simp only [Node.clearMarks, Node.compo.injEq] at h
    obtain ⟨_, _, _, _, _, _, h7, _, _, h8⟩ := h
    simp only [Node.withResumableOf, h7, Subs.withResumableOf_same s s' h8]
  | .ortho id rid inj hd s, .ortho id' rid' inj' hd' s', h => by
    simp only [Node.clearMarks, Node.ortho.injEq] at h
    simp only [Node.withResumableOf, Subs.withResumableOf_same s s' h.2.2.2.2]
theorem Subs.withResumableOf_same : (a b : Subs) → b.clearMarks = a.clearMarks → a.withResumableOf b = a
  | .nil, _, _ => by simp only [Subs.withResumableOf]
  | .cons .., .nil, _ => by simp only [Subs.withResumableOf]
  | .cons b n r, .cons b' n' r', h => by
    simp only [Subs.clearMarks, Subs.cons.injEq, true_and] at h
    simp only [Subs.withResumableOf, Node.withResumableOf_same n n' h.1, Subs.withResumableOf_same r r' h.2]
end

/-! ### request marks are only ever added -/

mutual
/-- some request mark (`requested`, `remain`, an orthogonal request bit) is set below the node -/
def Node.hasMark : Node → Bool
  | .leaf .. => false
  | .compo _ _ _ _ _ _ _ q m s => q.isSome || m || s.hasMarkAny
  | .ortho _ _ _ _ s => s.hasMarkAny
def Subs.hasMarkAny : Subs → Bool
  | .nil => false
  | .cons b n r => b || n.hasMark || r.hasMarkAny
end

mutual
/-- against a backup without marks `registry != backup` says: some mark is set -/
theorem Node.marksDiffer_noMarks : (x n : Node) → x.frozen = n.frozen → n.NoMarks → x.marksDiffer n = x.hasMark
  | .leaf .., .leaf .., _, _ => by simp only [Node.marksDiffer, Node.hasMark]
  | .leaf .., .compo .., h, _ => by simp only [Node.frozen] at h; cases h
  | .leaf .., .ortho .., h, _ => by simp only [Node.frozen] at h; cases h
  | .compo .., .leaf .., h, _ => by simp only [Node.frozen] at h; cases h
  | .compo .., .ortho .., h, _ => by simp only [Node.frozen] at h; cases h
  | .ortho .., .leaf .., h, _ => by simp only [Node.frozen] at h; cases h
  | .ortho .., .compo .., h, _ => by simp only [Node.frozen] at h; cases h
  | .compo id rid inj hd st a r q m s, .compo id' rid' inj' hd' st' a' r' q' m' s', h, hn => by
    simp only [Node.frozen, Node.compo.injEq] at h
    simp only [Node.NoMarks] at hn
    obtain ⟨hq, hm, hs⟩ := hn
    subst hq; subst hm
    simp only [Node.marksDiffer, Node.hasMark, Subs.marksDiffer_noMarks s s' h.2.2.2.2.2.2.2.2.2 hs]
    cases q <;> cases m <;> rfl
  | .ortho id rid inj hd s, .ortho id' rid' inj' hd' s', h, hn => by
    simp only [Node.frozen, Node.ortho.injEq] at h
    simp only [Node.NoMarks] at hn
    simp only [Node.marksDiffer, Node.hasMark, Subs.marksDiffer_noMarks s s' h.2.2.2.2 hn]
theorem Subs.marksDiffer_noMarks : (x n : Subs) → x.frozen = n.frozen → n.NoMarksAll → x.marksDiffer n = x.hasMarkAny
  | .nil, .nil, _, _ => by simp only [Subs.marksDiffer, Subs.hasMarkAny]
  | .nil, .cons .., h, _ => by simp only [Subs.frozen] at h; cases h
  | .cons .., .nil, h, _ => by simp only [Subs.frozen] at h; cases h
  | .cons b n r, .cons b' n' r', h, hn => by
    simp only [Subs.frozen, Subs.cons.injEq, true_and] at h
    simp only [Subs.NoMarksAll] at hn
    obtain ⟨hb, h1, h2⟩ := hn
    subst hb
    simp only [Subs.marksDiffer, Subs.hasMarkAny, Node.marksDiffer_noMarks n n' h.1 h1,
      Subs.marksDiffer_noMarks r r' h.2 h2]
    cases b <;> rfl
end

mutual
/-- `NoMarks`, decided: no mark is set -/
theorem Node.noMarks_of_hasMark : (n : Node) → n.hasMark = false → n.NoMarks
  | .leaf .., _ => trivial
  | .compo id rid inj hd st a r q m s, h => by
    simp only [Node.hasMark, Bool.or_eq_false_iff] at h
    obtain ⟨⟨hq, hm⟩, hs⟩ := h
    refine ⟨?_, hm, Subs.noMarksAll_of_hasMark s hs⟩
    cases q with
    | none => rfl
    | some _ => cases hq
  | .ortho id rid inj hd s, h => by
    simp only [Node.hasMark] at h
    exact Subs.noMarksAll_of_hasMark s h
theorem Subs.noMarksAll_of_hasMark : (s : Subs) → s.hasMarkAny = false → s.NoMarksAll
  | .nil, _ => trivial
  | .cons b n r, h => by
    simp only [Subs.hasMarkAny, Bool.or_eq_false_iff] at h
    exact ⟨h.1.1, Node.noMarks_of_hasMark n h.1.2, Subs.noMarksAll_of_hasMark r h.2⟩
end

theorem Subs.setBit_hasMark : (s : Subs) → (i : Nat) → s.hasMarkAny = true → (s.setBit i).hasMarkAny = true
  | .nil, _, h => by simp only [Subs.setBit]; exact h
  | .cons b n r, 0, h => by simp only [Subs.setBit, Subs.hasMarkAny, Bool.true_or]
  | .cons b n r, i+1, h => by
    simp only [Subs.hasMarkAny, Bool.or_eq_true] at h
    simp only [Subs.setBit, Subs.hasMarkAny, Bool.or_eq_true]
    rcases h with h | h
    · exact .inl h
    · exact .inr (Subs.setBit_hasMark r i h)

mutual
theorem Node.mark_hasMark : (n : Node) → (p : List Nat) → n.hasMark = true → (n.mark p).1.hasMark = true
  | .leaf id inj, [], h => by simp only [Node.mark]; exact h
  | .leaf id inj, _ :: _, h => by simp only [Node.mark]; exact h
  | .compo id rid inj hd st a r q m s, [], h => by simp only [Node.mark]; exact h
  | .ortho id rid inj hd s, [], h => by simp only [Node.mark]; exact h
  | .compo id rid inj hd st a r q m s, i :: rest, h => by
    simp only [Node.mark]
    split <;> (try split) <;> simp only [Node.hasMark, Option.isSome_some, Bool.true_or, Bool.or_true]
  | .ortho id rid inj hd s, i :: rest, h => by
    simp only [Node.hasMark] at h
    simp only [Node.mark, Node.hasMark]
    exact Subs.setBit_hasMark _ i (Subs.markAt_hasMark s i rest h)
theorem Subs.markAt_hasMark : (s : Subs) → (i : Nat) → (p : List Nat) → s.hasMarkAny = true →
    (s.markAt i p).1.hasMarkAny = true
  | .nil, _, _, h => by simp only [Subs.markAt]; exact h
  | .cons b n r, 0, p, h => by
    simp only [Subs.hasMarkAny, Bool.or_eq_true] at h
    simp only [Subs.markAt, Subs.hasMarkAny, Bool.or_eq_true]
    rcases h with (h | h) | h
    · exact .inl (.inl h)
    · exact .inl (.inr (Node.mark_hasMark n p h))
    · exact .inr h
  | .cons b n r, i+1, p, h => by
    simp only [Subs.hasMarkAny, Bool.or_eq_true] at h
    simp only [Subs.markAt, Subs.hasMarkAny, Bool.or_eq_true]
    rcases h with h | h
    · exact .inl h
    · exact .inr (Subs.markAt_hasMark r i p h)
end

mutual
theorem Node.schedule_hasMark : (n : Node) → (p : List Nat) → (n.schedule p).hasMark = n.hasMark
  | .leaf id inj, [] => by simp only [Node.schedule]
  | .leaf id inj, _ :: _ => by simp only [Node.schedule]
  | .compo id rid inj h st a r q m s, [] => by simp only [Node.schedule]
  | .ortho id rid inj h s, [] => by simp only [Node.schedule]
  | .compo id rid inj h st a r q m s, [i] => by simp only [Node.schedule, Node.hasMark]
  | .compo id rid inj h st a r q m s, i :: j :: rest => by
    simp only [Node.schedule, Node.hasMark, Subs.scheduleAt_hasMark s i (j :: rest)]
  | .ortho id rid inj h s, [_] => by simp only [Node.schedule]
  | .ortho id rid inj h s, i :: j :: rest => by
    simp only [Node.schedule, Node.hasMark, Subs.scheduleAt_hasMark s i (j :: rest)]
theorem Subs.scheduleAt_hasMark : (s : Subs) → (i : Nat) → (p : List Nat) → (s.scheduleAt i p).hasMarkAny = s.hasMarkAny
  | .nil, _, _ => by simp only [Subs.scheduleAt]
  | .cons b n r, 0, p => by simp only [Subs.scheduleAt, Subs.hasMarkAny, Node.schedule_hasMark n p]
  | .cons b n r, i+1, p => by simp only [Subs.scheduleAt, Subs.hasMarkAny, Subs.scheduleAt_hasMark r i p]
end

mutual
theorem Node.request_hasMark : (n : Node) → n.Plain = true → (rq : Req) → rq.kind.plain = true → rq.kind ≠ .schedule →
    (w : World U) → n.hasMark = true → (n.request rq w).1.hasMark = true
  | .leaf id inj, _, rq, _, _, w, h => by simp only [Node.request]; exact h
  | .ortho id rid inj hd s, hp, rq, hk, hn, w, h => by
    simp only [Node.Plain] at hp
    simp only [Node.hasMark] at h
    simp only [Node.request, Node.hasMark]
    exact Subs.requestAll_hasMark s hp rq hk hn _ h
  | .compo id rid inj hd st a r q m s, hp, rq, hk, hn, w, h => by
    simp only [Node.Plain, Bool.and_eq_true] at hp
    simp only [Node.request]
    rcases effectiveKind_plain hp.1 hk hn with he | he <;>
      simp only [he, Node.hasMark, Option.isSome_some, Bool.true_or]
theorem Subs.requestAll_hasMark : (s : Subs) → s.PlainAll = true → (rq : Req) → rq.kind.plain = true →
    rq.kind ≠ .schedule → (w : World U) → s.hasMarkAny = true → (s.requestAll rq w).1.hasMarkAny = true
  | .nil, _, rq, _, _, w, h => by simp only [Subs.requestAll]; exact h
  | .cons b n r, hp, rq, hk, hn, w, h => by
    simp only [Subs.PlainAll, Bool.and_eq_true] at hp
    simp only [Subs.hasMarkAny, Bool.or_eq_true] at h
    simp only [Subs.requestAll, Subs.hasMarkAny, Bool.or_eq_true]
    rcases h with (h | h) | h
    · exact .inl (.inl h)
    · exact .inl (.inr (Node.request_hasMark n hp.1 rq hk hn w h))
    · exact .inr (Subs.requestAll_hasMark r hp.2 rq hk hn _ h)
end

mutual
theorem Node.fwdRequest_hasMark : (n : Node) → n.Plain = true → (rq : Req) → rq.kind.plain = true →
    rq.kind ≠ .schedule → (w : World U) → n.hasMark = true → (n.fwdRequest rq w).1.hasMark = true
  | .leaf id inj, _, rq, _, _, w, h => by simp only [Node.fwdRequest]; exact h
  | .compo id rid inj hd st a r q m s, hp, rq, hk, hn, w, h => by
    cases q with
    | some qi => simp only [Node.fwdRequest, Node.hasMark, Option.isSome_some, Bool.true_or]
    | none =>
      simp only [Node.fwdRequest]
      exact Node.request_hasMark _ hp rq hk hn _ h
  | .ortho id rid inj hd s, hp, rq, hk, hn, w, h => by
    simp only [Node.fwdRequest]
    split
    · simp only [Node.Plain] at hp
      simp only [Node.hasMark] at h
      simp only [Node.hasMark]
      exact Subs.fwdRequestAll_hasMark s hp rq hk hn _ h
    · exact Node.request_hasMark _ hp rq hk hn _ h
theorem Subs.fwdRequestAll_hasMark : (s : Subs) → s.PlainAll = true → (rq : Req) → rq.kind.plain = true →
    rq.kind ≠ .schedule → (w : World U) → s.hasMarkAny = true → (s.fwdRequestAll rq w).1.hasMarkAny = true
  | .nil, _, rq, _, _, w, h => by simp only [Subs.fwdRequestAll]; exact h
  | .cons b n r, hp, rq, hk, hn, w, h => by
    simp only [Subs.PlainAll, Bool.and_eq_true] at hp
    simp only [Subs.hasMarkAny, Bool.or_eq_true] at h
    simp only [Subs.fwdRequestAll, Subs.hasMarkAny, Bool.or_eq_true]
    rcases h with (h | h) | h
    · exact .inl (.inl h)
    · exact .inl (.inr (Node.fwdRequest_hasMark n hp.1 rq hk hn w h))
    · exact .inr (Subs.fwdRequestAll_hasMark r hp.2 rq hk hn _ h)
end

mutual
theorem Node.fwdActive_hasMark : (n : Node) → n.Plain = true → (rq : Req) → rq.kind.plain = true →
    rq.kind ≠ .schedule → (w : World U) → n.hasMark = true → (n.fwdActive rq w).1.hasMark = true
  | .leaf id inj, _, rq, _, _, w, h => by simp only [Node.fwdActive]; exact h
  | .compo id rid inj hd st a r q m s, hp, rq, hk, hn, w, h => by
    simp only [Node.Plain, Bool.and_eq_true] at hp
    cases q with
    | some qi => simp only [Node.fwdActive, Node.hasMark, Option.isSome_some, Bool.true_or]
    | none =>
      cases a with
      | none => simp only [Node.fwdActive]; exact h
      | some ai =>
        simp only [Node.hasMark, Option.isSome_none, Bool.false_or, Bool.or_eq_true] at h
        simp only [Node.fwdActive, Node.hasMark, Option.isSome_none, Bool.false_or, Bool.or_eq_true]
        rcases h with h | h
        · exact .inl h
        · exact .inr (Subs.fwdActiveAt_hasMark s hp.2 ai rq hk hn w h)
  | .ortho id rid inj hd s, hp, rq, hk, hn, w, h => by
    simp only [Node.Plain] at hp
    simp only [Node.hasMark] at h
    simp only [Node.fwdActive, Node.hasMark]
    exact Subs.fwdActiveBits_hasMark s hp rq hk hn w h
theorem Subs.fwdActiveAt_hasMark : (s : Subs) → s.PlainAll = true → (i : Nat) → (rq : Req) → rq.kind.plain = true →
    rq.kind ≠ .schedule → (w : World U) → s.hasMarkAny = true → (s.fwdActiveAt i rq w).1.hasMarkAny = true
  | .nil, _, _, rq, _, _, w, h => by simp only [Subs.fwdActiveAt]; exact h
  | .cons b n r, hp, 0, rq, hk, hn, w, h => by
    simp only [Subs.PlainAll, Bool.and_eq_true] at hp
    simp only [Subs.hasMarkAny, Bool.or_eq_true] at h
    simp only [Subs.fwdActiveAt, Subs.hasMarkAny, Bool.or_eq_true]
    rcases h with (h | h) | h
    · exact .inl (.inl h)
    · exact .inl (.inr (Node.fwdActive_hasMark n hp.1 rq hk hn w h))
    · exact .inr h
  | .cons b n r, hp, i+1, rq, hk, hn, w, h => by
    simp only [Subs.PlainAll, Bool.and_eq_true] at hp
    simp only [Subs.hasMarkAny, Bool.or_eq_true] at h
    simp only [Subs.fwdActiveAt, Subs.hasMarkAny, Bool.or_eq_true]
    rcases h with h | h
    · exact .inl h
    · exact .inr (Subs.fwdActiveAt_hasMark r hp.2 i rq hk hn w h)
theorem Subs.fwdActiveBits_hasMark : (s : Subs) → s.PlainAll = true → (rq : Req) → rq.kind.plain = true →
    rq.kind ≠ .schedule → (w : World U) → s.hasMarkAny = true → (s.fwdActiveBits rq w).1.hasMarkAny = true
  | .nil, _, rq, _, _, w, h => by simp only [Subs.fwdActiveBits]; exact h
  | .cons b n r, hp, rq, hk, hn, w, h => by
    simp only [Subs.PlainAll, Bool.and_eq_true] at hp
    simp only [Subs.fwdActiveBits]
    split
    · next hb => simp only [Subs.hasMarkAny, hb, Bool.true_or]
    · simp only [Subs.hasMarkAny, Bool.or_eq_true] at h
      simp only [Subs.hasMarkAny, Bool.or_eq_true]
      rcases h with h | h
      · exact .inl h
      · exact .inr (Subs.fwdActiveBits_hasMark r hp.2 rq hk hn w h)
end

namespace Mach

theorem applyAll_treeK : (ts : List Transition) → (m1 m2 : Mach U) → (i j : Nat) → m1.root = m2.root →
    m1.w.cfg.stateCount = m2.w.cfg.stateCount → m1.root.Plain = true → (∀ t ∈ ts, t.kind.plain = true) →
    (m1.applyAll ts i).root = (m2.applyAll ts j).root
  | [], m1, m2, i, j, hr, _, _, _ => by simp only [applyAll]; exact hr
  | t :: rest, m1, m2, i, j, hr, hc, hp, hk => by
    simp only [applyAll]
    rw [hc]
    split
    · refine applyAll_treeK rest _ _ (i+1) (j+1) (applyRequest_treeK m1 m2 t i j hr hp (hk t List.mem_cons_self)) ?_ ?_
        (fun t' h' => hk t' (List.mem_cons_of_mem _ h'))
      · rw [applyRequest_cfg, applyRequest_cfg]; exact hc
      · rw [applyRequest_Plain]; exact hp
    · exact applyAll_treeK rest m1 m2 (i+1) (j+1) hr hc hp (fun t' h' => hk t' (List.mem_cons_of_mem _ h'))

theorem applyAll_append : (ts us : List Transition) → (m : Mach U) → (i : Nat) →
    m.applyAll (ts ++ us) i = (m.applyAll ts i).applyAll us (i + ts.length)
  | [], us, m, i => by simp only [List.nil_append, applyAll, List.length_nil, Nat.add_zero]
  | t :: rest, us, m, i => by
    simp only [List.cons_append, applyAll, List.length_cons]
    rw [applyAll_append rest us _ (i+1)]
    congr 1
    omega

theorem applyAll_cfg : (ts : List Transition) → (m : Mach U) → (i : Nat) → (m.applyAll ts i).w.cfg = m.w.cfg
  | [], m, i => by simp only [applyAll]
  | t :: rest, m, i => by
    simp only [applyAll]
    rw [applyAll_cfg rest]
    split
    · exact applyRequest_cfg m t i
    · rfl

theorem applyAll_Plain (ts : List Transition) (m : Mach U) (i : Nat) : (m.applyAll ts i).root.Plain = m.root.Plain :=
  Node.Plain_of_frozen (applyAll_frozen ts m i)

theorem applyRequest_hasMark (m : Mach U) (t : Transition) (i : Nat) (hp : m.root.Plain = true)
    (hk : t.kind.plain = true) (h : m.root.hasMark = true) : (m.applyRequest t i).root.hasMark = true := by
  unfold applyRequest
  dsimp only
  split
  · split
    · show (m.root.schedule _).hasMark = true
      rw [Node.schedule_hasMark]; exact h
    · exact h
  · next k hns =>
    have hn : t.kind ≠ .schedule := fun h => hns h
    split
    · exact Node.request_hasMark m.root hp ⟨t.kind, some i⟩ hk hn _ h
    · split
      · exact h
      · next p _ =>
        have hp' : (m.root.mark p).1.Plain = true := by
          rw [Node.Plain_of_frozen (Node.frozen_of_clearMarks (Node.mark_clearMarks m.root p))]; exact hp
        exact Node.fwdActive_hasMark _ hp' ⟨t.kind, some i⟩ hk hn _ (Node.mark_hasMark m.root p h)

theorem applyAll_hasMark : (ts : List Transition) → (m : Mach U) → (i : Nat) → m.root.Plain = true →
    (∀ t ∈ ts, t.kind.plain = true) → m.root.hasMark = true → (m.applyAll ts i).root.hasMark = true
  | [], m, i, _, _, h => by simp only [applyAll]; exact h
  | t :: rest, m, i, hp, hk, h => by
    simp only [applyAll]
    split
    · exact applyAll_hasMark rest _ (i+1) (by rw [applyRequest_Plain]; exact hp)
        (fun t' h' => hk t' (List.mem_cons_of_mem _ h'))
        (applyRequest_hasMark m t i hp (hk t List.mem_cons_self) h)
    · exact applyAll_hasMark rest m (i+1) hp (fun t' h' => hk t' (List.mem_cons_of_mem _ h')) h

/-- What replay needs of one record of the step's log: the requests of an approved round are of kinds a plain
region resolves by itself and name states of the machine; a round that is NOT recorded (vetoed, or dropped as
unchanged) carries no `schedule` request (`registry.restore` keeps `compoResumable`). -/
def RoundOK (stateCount : Nat) (rd : List Transition × Outcome) : Prop :=
  (rd.2 = .approved → ∀ t ∈ rd.1, t.kind.plain = true ∧ t.dest < stateCount) ∧
  (rd.2 ≠ .approved → ∀ t ∈ rd.1, t.kind ≠ .schedule)

instance (n : Nat) (rd : List Transition × Outcome) : Decidable (RoundOK n rd) := by
  unfold RoundOK; exact inferInstance

/-- the loop never leaves the "no marks at all, nothing approved yet / some mark is set" alternative -/
def MarkedIf (current : List Transition) (n : Node) : Prop := (current = [] ∧ n.NoMarks) ∨ n.hasMark = true

/-- **The substitution loop against a batch.**  `x` is any machine holding the loop's backup tree: after the loop
the registry is the one `x` gets by applying the requests of the approved rounds in ONE batch, numbered from any
index `i`. -/
theorem rounds_replay : (fuel : Nat) → (m : Mach U) → (backup : Node) → (current : List Transition) →
    (x : Mach U) → (i : Nat) → TargetsSized m.w → m.root = backup → x.root = backup →
    x.w.cfg.stateCount = m.w.cfg.stateCount → backup.Plain = true →
    (∀ rd ∈ roundsLog false fuel m backup current, RoundOK m.w.cfg.stateCount rd) → MarkedIf current backup →
    (rounds false fuel m backup current).1.root =
      (x.applyAll (approvedOf (roundsLog false fuel m backup current)) i).root ∧
    MarkedIf (rounds false fuel m backup current).2 (rounds false fuel m backup current).1.root
  | 0, m, backup, current, x, i, _, hm, hx, _, _, _, hJ => by
    rw [rounds_zero]
    simp only [roundsLog, approvedOf, applyAll]
    exact ⟨hm.trans hx.symm, by rw [hm]; exact hJ⟩
  | fuel+1, m, backup, current, x, i, hts, hm, hx, hc, hp, hlog, hJ => by
    rw [rounds_succ]
    simp only [roundsLog] at hlog ⊢
    by_cases he : m.w.requests.isEmpty = true
    · simp only [he, if_true, approvedOf, applyAll]
      exact ⟨hm.trans hx.symm, by rw [hm]; exact hJ⟩
    · simp only [he, Bool.false_eq_true, if_false] at hlog ⊢
      have hne : m.w.requests ≠ [] := fun h => he (by rw [h]; rfl)
      obtain ⟨_, _, _, sp⟩ := roundStep_spec false m backup current hts
      have hsized := roundStep_sized false m backup current hts
      have ht := roundStep_tree false m backup current (by rw [hm])
      dsimp only at ht
      obtain ⟨ta, tv, tu, _, tnd⟩ := ht
      have hchg := roundStep_approved_changed false m backup current
      have hcfg := sp.cfg
      have hcur := sp.current
      have hok := hlog _ List.mem_cons_self
      have hrest := fun rd h => hlog rd (List.mem_cons_of_mem _ h)
      have ih := rounds_replay fuel (roundStep false m backup current).1 (roundStep false m backup current).2.1
        (roundStep false m backup current).2.2.1
      have hfa : (m.applyAll m.w.requests 0).root.frozen = backup.frozen := by rw [applyAll_frozen, hm]
      generalize roundStep false m backup current = rs at *
      obtain ⟨m', b', c', o⟩ := rs
      dsimp only at *
      cases o with
      | approved =>
        obtain ⟨hb', hm'⟩ := ta rfl
        obtain ⟨hk, _⟩ := hok
        have hk' := hk rfl
        simp only [if_true] at hcur
        simp only [approvedOf, if_true]
        rw [applyAll_append]
        have hxr : (x.applyAll m.w.requests i).root = (m.applyAll m.w.requests 0).root :=
          applyAll_treeK _ x m i 0 (hx.trans hm.symm) hc (by rw [hx]; exact hp) (fun t h => (hk' t h).1)
        refine ih (x.applyAll m.w.requests i) (i + m.w.requests.length) hsized (hm'.trans hb'.symm)
          (hxr.trans hb'.symm) (by rw [applyAll_cfg, hcfg]; exact hc)
          (by rw [hb', applyAll_Plain, hm]; exact hp) (by rw [hcfg]; exact hrest) ?_
        right
        rw [hb']
        rcases hJ with ⟨_, hn⟩ | hJ
        · rw [← Node.marksDiffer_noMarks _ backup hfa hn]
          exact hchg rfl
        · exact applyAll_hasMark _ m 0 (by rw [hm]; exact hp) (fun t h => (hk' t h).1) (by rw [hm]; exact hJ)
      | vetoed =>
        obtain ⟨hb', hm'⟩ := tv rfl
        have hns := hok.2 (fun h => by cases h)
        have hcl : (m.applyAll m.w.requests 0).root.clearMarks = backup.clearMarks := by
          rw [applyAll_clearMarks _ _ _ hns, hm]
        rw [Node.withResumableOf_same _ _ hcl] at hm'
        simp only [show (Outcome.vetoed = Outcome.approved) = False from by simp, if_false] at hcur
        simp only [approvedOf, show (Outcome.vetoed = Outcome.approved) = False from by simp, if_false, List.nil_append]
        subst hb'; subst hcur
        exact ih x i hsized hm' hx (by rw [hcfg]; exact hc) hp (by rw [hcfg]; exact hrest) hJ
      | unchanged =>
        obtain ⟨hb', hm'⟩ := tu rfl
        have hns := hok.2 (fun h => by cases h)
        have hcl : (m.applyAll m.w.requests 0).root.clearMarks = backup.clearMarks := by
          rw [applyAll_clearMarks _ _ _ hns, hm]
        rw [hm', hb'] at tnd
        have heq := Node.eq_of_marks_eq _ _ hcl tnd
        simp only [show (Outcome.unchanged = Outcome.approved) = False from by simp, if_false] at hcur
        simp only [approvedOf, show (Outcome.unchanged = Outcome.approved) = False from by simp, if_false, List.nil_append]
        subst hb'; subst hcur
        exact ih x i hsized (hm'.trans heq) hx (by rw [hcfg]; exact hc) hp (by rw [hcfg]; exact hrest) hJ

theorem roundsLog_nil_of_empty (initial : Bool) (fuel : Nat) (m : Mach U) (backup : Node) (current : List Transition)
    (he : m.w.requests.isEmpty = true) : roundsLog initial fuel m backup current = [] := by
  cases fuel with
  | zero => simp only [roundsLog]
  | succ k => simp only [roundsLog, he, if_true]

/-- **Replay reproduces a step of any number of rounds.**  Authority `a` (no request marks pending, `Plain`)
processes its queue; the log of the substitution loop is `a.stepLog`, the recorded history `approvedOf a.stepLog`
(not empty).  Every record is `RoundOK`.  A replica `r` holding the same tree replays the history: it answers
`true` and ends with exactly the authority's tree — active configuration AND resumable marks — whatever number
of rounds were approved, vetoed or dropped in between; its `previousTransitions` are the first `historyCap`
entries of the history (the bounded copy drops the rest). -/
theorem replay_reproduces_multi_round_step (a r : Mach U) (hroot : r.root = a.root)
    (hcfg : r.w.cfg.stateCount = a.w.cfg.stateCount) (hplain : a.root.Plain = true) (hnm : a.root.NoMarks)
    (hlog : ∀ rd ∈ a.stepLog, RoundOK a.w.cfg.stateCount rd) (happ : approvedOf a.stepLog ≠ []) :
    (r.replayTransitions (approvedOf a.stepLog)).2 = true ∧
    (r.replayTransitions (approvedOf a.stepLog)).1.root = a.processRequest.root ∧
    (r.replayTransitions (approvedOf a.stepLog)).1.w.previous =
      (approvedOf a.stepLog).take r.w.cfg.historyCap := by
  have hreq : a.stepStart.w.requests = a.w.requests := by
    unfold stepStart World.freshControl; exact World.clearTargets_requests _
  have hne : a.w.requests.isEmpty = false := by
    cases h : a.w.requests.isEmpty with
    | false => rfl
    | true =>
      exfalso; apply happ
      unfold stepLog
      rw [roundsLog_nil_of_empty _ _ _ _ _ (by rw [hreq]; exact h)]
      rfl
  generalize hts : approvedOf a.stepLog = ts at happ ⊢
  have hcur : a.stepLoop.2 = ts := by
    obtain ⟨_, _, _, _, _, _, hc⟩ := processRequest_trace a hne
    rw [hc, hts]
  have hnil : ts.isEmpty = false := by
    cases ts with
    | nil => exact absurd rfl happ
    | cons _ _ => rfl
  -- the replica, up to its apply phase
  generalize hr0 : ({ r with w := { r.w.clearTargets with previous := [] } } : Mach U) = r0
  have hr0root : r0.root = a.root := by subst hr0; exact hroot
  have hr0cfg : r0.w.cfg.stateCount = a.w.cfg.stateCount := by
    subst hr0; show r.w.clearTargets.cfg.stateCount = _; rw [World.clearTargets_cfg]; exact hcfg
  have hkd : ∀ t ∈ ts, t.kind.plain = true ∧ t.dest < a.w.cfg.stateCount := by
    intro t ht
    rw [← hts] at ht
    have : ∀ l : List (List Transition × Outcome), (∀ rd ∈ l, RoundOK a.w.cfg.stateCount rd) → t ∈ approvedOf l →
        t.kind.plain = true ∧ t.dest < a.w.cfg.stateCount := by
      intro l
      induction l with
      | nil => intro _ h; simp only [approvedOf] at h; cases h
      | cons rd rest ih =>
        intro hl h
        obtain ⟨reqs, o⟩ := rd
        simp only [approvedOf] at h
        rcases List.mem_append.mp h with h | h
        · by_cases ho : o = .approved
          · rw [if_pos ho] at h
            exact (hl _ List.mem_cons_self).1 ho t h
          · rw [if_neg ho] at h; cases h
        · exact ih (fun rd' h' => hl rd' (List.mem_cons_of_mem _ h')) h
    exact this _ hlog ht
  have hd : ∀ t ∈ ts, t.dest < a.w.cfg.stateCount := fun t ht => (hkd t ht).2
  have hk' : ∀ t ∈ ts, t.kind.plain = true := fun t ht => (hkd t ht).1
  have hloop := rounds_replay a.stepStart.w.cfg.substitutionLimit a.stepStart a.stepStart.root []
    ({ r0 with w := r0.w.freshControl } : Mach U) 0 (stepStart_sized a) rfl hr0root
    (by show r0.w.cfg.stateCount = a.stepStart.w.cfg.stateCount; rw [stepStart_cfg]; exact hr0cfg)
    hplain (by intro rd h; rw [stepStart_cfg]; exact hlog rd h) (.inl ⟨rfl, hnm⟩)
  obtain ⟨htree, hmk⟩ := hloop
  have htree' : a.stepLoop.1.root = (({ r0 with w := r0.w.freshControl } : Mach U).applyAll ts 0).root := by
    rw [← hts]; exact htree
  have hmk' : a.stepLoop.1.root.hasMark = true := by
    rcases hmk with ⟨h, _⟩ | h
    · exfalso
      have : a.stepLoop.2 = [] := h
      rw [hcur] at this; exact happ this
    · exact h
  have happl : (r0.applyRequests ts).1.root = a.stepLoop.1.root := by
    rw [applyRequests_root_plain r0 ts (by rw [hr0root]; exact hplain) hk', htree', applyAll_eq_foldl ts ({ r0 with w := r0.w.freshControl } : Mach U) 0
      (fun t ht => by show t.dest < r0.w.cfg.stateCount; rw [hr0cfg]; exact hd t ht)]
  have hfr : a.stepLoop.1.root.frozen = a.root.frozen := by
    unfold stepLoop
    exact rounds_frozen false _ a.stepStart a.stepStart.root [] (stepStart_sized a) rfl
  have hchg : (r0.applyRequests ts).2 = true := by
    have : (r0.applyRequests ts).2 = (r0.applyRequests ts).1.root.marksDiffer r0.root := by
      unfold applyRequests; rfl
    rw [this, happl, hr0root, Node.marksDiffer_noMarks _ _ hfr hnm]; exact hmk'
  -- the authority's final tree
  have hA : a.processRequest.root =
      (a.stepLoop.1.root.commit
        (({ a.stepLoop.1.w.freshControl with current := a.stepLoop.2 }).snapshot a.stepLoop.1.root false false)).1.clearMarks := by
    rw [processRequest_eq a hne]
    dsimp only
    rw [if_neg (by rw [hcur, hnil]; exact Bool.false_ne_true)]
    rfl
  unfold replayTransitions
  rw [if_neg (by rw [hnil]; exact Bool.false_ne_true)]
  dsimp only
  rw [hr0]
  have hcfg1 : (r0.applyRequests ts).1.w.cfg = r.w.cfg := by
    rw [applyRequests_cfg]; subst hr0; exact World.clearTargets_cfg _
  generalize r0.applyRequests ts = res at happl hchg hcfg1
  obtain ⟨r1, chg⟩ := res
  dsimp only at happl hchg hcfg1 ⊢
  rw [hchg]
  simp only [if_true]
  refine ⟨trivial, ?_, ?_⟩
  · rw [updActivity_root, hA]
    dsimp only
    rw [happl]
    congr 1
    exact Node.commit_tree _ _ _
  · rw [updActivity_w, ← hcfg1]
    exact (Node.commit_steps _ _ _ (Steps.refl _)).frame.previous

end Mach
end Hfsm
