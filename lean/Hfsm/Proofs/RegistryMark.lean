/-
One request of a batch: `mark` (= `requestImmediate`) followed by `fwdActive` (= `deepForwardActive`).

  P n    what holds of an ACTIVE tree after `mark` and before the forward pass
         (a composite region with `requested = some _` needs nothing: the forward pass resolves below it)
  PR n   the same for an INACTIVE tree all of whose regions are resolved (first activation, replayEnter)

  mark_P          Act n → COK n → P (mark n p).1            -- any path, any earlier marks
  mark_PR         Clean n → Res n → PR (mark n p).1
  fwdActive_cok   Act n → P n  → err = none → COK (fwdActive n rq w).1
  fwdActive_res   PR n         → err = none → Res (fwdActive n rq w).1

so `COK` (resp. `Res`) is re-established after every request of a batch, with no hypothesis on how
the requests of the batch relate to each other.
-/
import Hfsm.Proofs.RegistryResolve

set_option linter.unusedSimpArgs false
set_option linter.unusedVariables false

namespace Hfsm
variable {U : Type} [UtilArith U]

mutual
def Node.P : Node → Prop
  | .leaf .. => True
  | .compo _ _ _ _ _ a _ q _ s => match q with
    | some _ => True
    | none => (match a with | some ai => s.PAt ai | none => True)
  | .ortho _ _ _ _ s => s.PBits
def Subs.PAt : Subs → Nat → Prop
  | .nil, _ => True
  | .cons _ n _, 0 => n.P
  | .cons _ _ r, i+1 => r.PAt i
def Subs.PBits : Subs → Prop
  | .nil => True
  | .cons b n r => (if b then n.P else n.COK) ∧ r.PBits
end

mutual
def Node.PR : Node → Prop
  | .leaf .. => True
  | .compo _ _ _ _ _ _ _ q _ _ => q.isSome
  | .ortho _ _ _ _ s => s.PRBits
def Subs.PRBits : Subs → Prop
  | .nil => True
  | .cons b n r => (if b then n.PR else n.Res) ∧ r.PRBits
end

mutual
theorem Node.COK_imp_P : (n : Node) → n.COK → n.P
  | .leaf .., _ => trivial
  | .compo _ _ _ _ _ a _ q _ s, h => by
      cases q with
      | some qi => simp [Node.P]
      | none => cases a with
        | none => simp [Node.P]
        | some ai => simp only [Node.COK] at h; simp only [Node.P]; exact Subs.COKAt_imp_PAt s ai h
  | .ortho _ _ _ _ s, h => by
      simp only [Node.COK] at h; simp only [Node.P]; exact Subs.COKAll_imp_PBits s h
theorem Subs.COKAt_imp_PAt : (s : Subs) → (i : Nat) → s.COKAt i → s.PAt i
  | .nil, _, _ => trivial
  | .cons _ n _, 0, h => by simp only [Subs.COKAt] at h; simp only [Subs.PAt]; exact Node.COK_imp_P n h
  | .cons _ _ r, i+1, h => by simp only [Subs.COKAt] at h; simp only [Subs.PAt]; exact Subs.COKAt_imp_PAt r i h
theorem Subs.COKAll_imp_PBits : (s : Subs) → s.COKAll → s.PBits
  | .nil, _ => trivial
  | .cons b n r, h => by
      simp only [Subs.COKAll] at h
      simp only [Subs.PBits]
      refine ⟨?_, Subs.COKAll_imp_PBits r h.2⟩
      cases b
      · simpa using h.1
      · simpa using Node.COK_imp_P n h.1
end

mutual
theorem Node.Res_imp_PR : (n : Node) → n.Res → n.PR
  | .leaf .., _ => trivial
  | .compo _ _ _ _ _ _ _ q _ _, h => by
      cases q with
      | some _ => simp [Node.PR]
      | none => simp [Node.Res] at h
  | .ortho _ _ _ _ s, h => by
      simp only [Node.Res] at h; simp only [Node.PR]; exact Subs.ResAll_imp_PRBits s h
theorem Subs.ResAll_imp_PRBits : (s : Subs) → s.ResAll → s.PRBits
  | .nil, _ => trivial
  | .cons b n r, h => by
      simp only [Subs.ResAll] at h
      simp only [Subs.PRBits]
      refine ⟨?_, Subs.ResAll_imp_PRBits r h.2⟩
      cases b
      · simpa using h.1
      · simpa using Node.Res_imp_PR n h.1
end

mutual
theorem Node.Res_imp_COK : (n : Node) → n.Res → n.COK
  | .leaf .., _ => trivial
  | .compo _ _ _ _ _ _ _ q _ _, h => by
      cases q with
      | some _ => simpa [Node.COK, Node.Res] using h
      | none => simp [Node.Res] at h
  | .ortho _ _ _ _ s, h => by
      simp only [Node.Res] at h; simp only [Node.COK]; exact Subs.ResAll_imp_COKAll s h
theorem Subs.ResAll_imp_COKAll : (s : Subs) → s.ResAll → s.COKAll
  | .nil, _ => trivial
  | .cons _ n r, h => by
      simp only [Subs.ResAll] at h
      simp only [Subs.COKAll]
      exact ⟨Node.Res_imp_COK n h.1, Subs.ResAll_imp_COKAll r h.2⟩
end

mutual
theorem Node.NoMarks_imp_COK : (n : Node) → n.NoMarks → n.COK
  | .leaf .., _ => trivial
  | .compo _ _ _ _ _ a _ q _ s, h => by
      simp only [Node.NoMarks] at h
      obtain ⟨rfl, _, hs⟩ := h
      cases a with
      | none => simp [Node.COK]
      | some ai => simp only [Node.COK]; exact Subs.NoMarksAll_imp_COKAt s ai hs
  | .ortho _ _ _ _ s, h => by
      simp only [Node.NoMarks] at h; simp only [Node.COK]; exact Subs.NoMarksAll_imp_COKAll s h
theorem Subs.NoMarksAll_imp_COKAt : (s : Subs) → (i : Nat) → s.NoMarksAll → s.COKAt i
  | .nil, _, _ => trivial
  | .cons _ n _, 0, h => by simp only [Subs.NoMarksAll] at h; simp only [Subs.COKAt]; exact Node.NoMarks_imp_COK n h.2.1
  | .cons _ _ r, i+1, h => by
      simp only [Subs.NoMarksAll] at h; simp only [Subs.COKAt]; exact Subs.NoMarksAll_imp_COKAt r i h.2.2
theorem Subs.NoMarksAll_imp_COKAll : (s : Subs) → s.NoMarksAll → s.COKAll
  | .nil, _ => trivial
  | .cons _ n r, h => by
      simp only [Subs.NoMarksAll] at h
      simp only [Subs.COKAll]
      exact ⟨Node.NoMarks_imp_COK n h.2.1, Subs.NoMarksAll_imp_COKAll r h.2.2⟩
end

/-! ### phases of the upward walk -/

-- a clean (inactive) sub-tree never sends the walk into phase 3
mutual
theorem Node.mark_clean_phase : (n : Node) → (p : List Nat) → n.Clean → (n.mark p).2 ≠ .p3
  | .leaf .., p, _ => by cases p <;> simp [Node.mark]
  | .compo .., [], _ => by simp [Node.mark]
  | .compo id rid inj hd st a r q m s, i :: rest, h => by
      simp only [Node.Clean] at h
      have ih := Subs.markAt_clean_phase s i rest h.2
      simp only [Node.mark]
      generalize s.markAt i rest = res at ih
      obtain ⟨s', ph⟩ := res
      simp only at ih
      cases ph with
      | p1 => simp
      | p2 => simp [h.1]
      | p3 => exact absurd rfl ih
  | .ortho .., [], _ => by simp [Node.mark]
  | .ortho id rid inj hd s, i :: rest, h => by
      simp only [Node.Clean] at h
      have ih := Subs.markAt_clean_phase s i rest h
      simp only [Node.mark]
      generalize s.markAt i rest = res at ih
      obtain ⟨s', ph⟩ := res
      exact ih
theorem Subs.markAt_clean_phase : (s : Subs) → (i : Nat) → (p : List Nat) → s.CleanAll → (s.markAt i p).2 ≠ .p3
  | .nil, _, _, _ => by simp [Subs.markAt]
  | .cons b n r, 0, p, h => by
      simp only [Subs.CleanAll] at h
      simpa [Subs.markAt] using Node.mark_clean_phase n p h.1
  | .cons b n r, i+1, p, h => by
      simp only [Subs.CleanAll] at h
      simpa [Subs.markAt] using Subs.markAt_clean_phase r i p h.2
end

/-- in an active region, phase 3 can only come back from the active sub-state -/
theorem Subs.markAt_p3_active : (s : Subs) → (ai i : Nat) → (p : List Nat) → s.ActAt ai →
    (s.markAt i p).2 = .p3 → i = ai
  | .nil, _, _, _, h, _ => by simp [Subs.ActAt] at h
  | .cons b n r, 0, 0, _, _, _ => rfl
  | .cons b n r, 0, i+1, p, h, hp => by
      simp only [Subs.ActAt] at h
      have := Subs.markAt_clean_phase r i p h.2
      simp [Subs.markAt] at hp
      exact absurd hp this
  | .cons b n r, ai+1, 0, p, h, hp => by
      simp only [Subs.ActAt] at h
      have := Node.mark_clean_phase n p h.1
      simp [Subs.markAt] at hp
      exact absurd hp this
  | .cons b n r, ai+1, i+1, p, h, hp => by
      simp only [Subs.ActAt] at h
      simp [Subs.markAt] at hp
      have := Subs.markAt_p3_active r ai i p h.2 hp
      omega

/-! ### marking an active tree -/

mutual
theorem Node.mark_P : (n : Node) → (p : List Nat) → n.Act → n.COK → (n.mark p).1.P
  | .leaf .., p, _, _ => by cases p <;> simp [Node.mark, Node.P]
  | .compo id rid inj hd st a r q m s, [], _, hc => by simpa [Node.mark] using Node.COK_imp_P _ hc
  | .compo id rid inj hd st a r q m s, i :: rest, ha, hc => by
      cases a with
      | none => simp [Node.Act] at ha
      | some ai =>
        simp only [Node.Act] at ha
        have hph := Subs.markAt_p3_active s ai i rest ha
        simp only [Node.mark]
        cases q with
        | some qi =>
          generalize s.markAt i rest = res
          obtain ⟨s', ph⟩ := res
          cases ph with
          | p1 => simp [Node.P]
          | p2 => simp only; split <;> simp [Node.P]
          | p3 => simp [Node.P]
        | none =>
          simp only [Node.COK] at hc
          have ihP : i = ai → (s.markAt i rest).1.PAt ai := by
            intro e; subst e; exact Subs.markAt_PAt s i rest ha hc
          generalize hm : s.markAt i rest = res at hph ihP
          obtain ⟨s', ph⟩ := res
          simp only at hph ihP
          cases ph with
          | p1 => simp [Node.P]
          | p2 =>
            simp only
            split
            · simp [Node.P]
            · next hcond =>
              have e : ai = i := by
                cases Nat.decEq ai i with
                | isTrue e => exact e
                | isFalse ne => exact absurd (Or.inr (by simpa using ne)) hcond
              simp only [Node.P]
              exact ihP e.symm
          | p3 =>
            simp only [Node.P]
            exact ihP (hph rfl)
  | .ortho id rid inj hd s, [], _, hc => by simpa [Node.mark] using Node.COK_imp_P _ hc
  | .ortho id rid inj hd s, i :: rest, ha, hc => by
      simp only [Node.Act] at ha
      simp only [Node.COK] at hc
      have ih := Subs.markAt_PBits s i rest ha hc
      simp only [Node.mark]
      generalize s.markAt i rest = res at ih
      obtain ⟨s', ph⟩ := res
      simp only at ih
      simp only [Node.P]
      exact ih
theorem Subs.markAt_PAt : (s : Subs) → (i : Nat) → (p : List Nat) → s.ActAt i → s.COKAt i →
    (s.markAt i p).1.PAt i
  | .nil, _, _, h, _ => by simp [Subs.ActAt] at h
  | .cons b n r, 0, p, ha, hc => by
      simp only [Subs.ActAt] at ha
      simp only [Subs.COKAt] at hc
      simpa [Subs.markAt, Subs.PAt] using Node.mark_P n p ha.1 hc
  | .cons b n r, i+1, p, ha, hc => by
      simp only [Subs.ActAt] at ha
      simp only [Subs.COKAt] at hc
      simpa [Subs.markAt, Subs.PAt] using Subs.markAt_PAt r i p ha.2 hc
theorem Subs.markAt_PBits : (s : Subs) → (i : Nat) → (p : List Nat) → s.ActAll → s.COKAll →
    ((s.markAt i p).1.setBit i).PBits
  | .nil, _, _, _, _ => by simp [Subs.markAt, Subs.setBit, Subs.PBits]
  | .cons b n r, 0, p, ha, hc => by
      simp only [Subs.ActAll] at ha
      simp only [Subs.COKAll] at hc
      have h1 := Node.mark_P n p ha.1 hc.1
      have h2 := Subs.COKAll_imp_PBits r hc.2
      simp only [Subs.markAt, Subs.setBit, Subs.PBits]
      exact ⟨by simpa using h1, h2⟩
  | .cons b n r, i+1, p, ha, hc => by
      simp only [Subs.ActAll] at ha
      simp only [Subs.COKAll] at hc
      have ih := Subs.markAt_PBits r i p ha.2 hc.2
      simp only [Subs.markAt, Subs.setBit, Subs.PBits]
      refine ⟨?_, ih⟩
      cases b
      · simpa using hc.1
      · simpa using Node.COK_imp_P n hc.1
end

/-! ### marking an inactive, resolved tree -/

mutual
theorem Node.mark_PR : (n : Node) → (p : List Nat) → n.Clean → n.Res → (n.mark p).1.PR
  | .leaf .., p, _, _ => by cases p <;> simp [Node.mark, Node.PR]
  | .compo id rid inj hd st a r q m s, [], _, hr => by simpa [Node.mark] using Node.Res_imp_PR _ hr
  | .compo id rid inj hd st a r q m s, i :: rest, hc, hr => by
      simp only [Node.Clean] at hc
      have hph := Subs.markAt_clean_phase s i rest hc.2
      simp only [Node.mark]
      generalize s.markAt i rest = res at hph
      obtain ⟨s', ph⟩ := res
      cases ph with
      | p1 => simp [Node.PR]
      | p2 => simp [Node.PR, hc.1]
      | p3 => exact absurd rfl hph
  | .ortho id rid inj hd s, [], _, hr => by simpa [Node.mark] using Node.Res_imp_PR _ hr
  | .ortho id rid inj hd s, i :: rest, hc, hr => by
      simp only [Node.Clean] at hc
      simp only [Node.Res] at hr
      have ih := Subs.markAt_PRBits s i rest hc hr
      simp only [Node.mark]
      generalize s.markAt i rest = res at ih
      obtain ⟨s', ph⟩ := res
      simp only at ih
      simp only [Node.PR]
      exact ih
theorem Subs.markAt_PRBits : (s : Subs) → (i : Nat) → (p : List Nat) → s.CleanAll → s.ResAll →
    ((s.markAt i p).1.setBit i).PRBits
  | .nil, _, _, _, _ => by simp [Subs.markAt, Subs.setBit, Subs.PRBits]
  | .cons b n r, 0, p, hc, hr => by
      simp only [Subs.CleanAll] at hc
      simp only [Subs.ResAll] at hr
      have h1 := Node.mark_PR n p hc.1 hr.1
      have h2 := Subs.ResAll_imp_PRBits r hr.2
      simp only [Subs.markAt, Subs.setBit, Subs.PRBits]
      exact ⟨by simpa using h1, h2⟩
  | .cons b n r, i+1, p, hc, hr => by
      simp only [Subs.CleanAll] at hc
      simp only [Subs.ResAll] at hr
      have ih := Subs.markAt_PRBits r i p hc.2 hr.2
      simp only [Subs.markAt, Subs.setBit, Subs.PRBits]
      refine ⟨?_, ih⟩
      cases b
      · simpa using hr.1
      · simpa using Node.Res_imp_PR n hr.1
end

/-! ### the forward pass -/

mutual
theorem Node.fwdActive_cok : (n : Node) → (rq : Req) → (w : World U) → n.Act → n.P →
    (n.fwdActive rq w).2.err = none → (n.fwdActive rq w).1.COK
  | .leaf .., _, _, _, _ => by intro _; simp [Node.fwdActive, Node.COK]
  | .compo id rid inj hd st a r q m s, rq, w, ha, hp => by
      cases a with
      | none => simp [Node.Act] at ha
      | some ai =>
        simp only [Node.Act] at ha
        cases q with
        | none =>
          simp only [Node.P] at hp
          simp only [Node.fwdActive, Node.COK]
          exact Subs.fwdActiveAt_cok s ai rq w ha hp
        | some qi =>
          simp only [Node.fwdActive, Node.COK]
          exact Subs.fwdRequestAt_res s qi rq w
  | .ortho id rid inj hd s, rq, w, ha, hp => by
      simp only [Node.Act] at ha
      simp only [Node.P] at hp
      simp only [Node.fwdActive, Node.COK]
      exact Subs.fwdActiveBits_cok s rq w ha hp
theorem Subs.fwdActiveAt_cok : (s : Subs) → (i : Nat) → (rq : Req) → (w : World U) → s.ActAt i → s.PAt i →
    (s.fwdActiveAt i rq w).2.err = none → (s.fwdActiveAt i rq w).1.COKAt i
  | .nil, _, _, _, h, _ => by simp [Subs.ActAt] at h
  | .cons b n r, 0, rq, w, ha, hp => by
      simp only [Subs.ActAt] at ha
      simp only [Subs.PAt] at hp
      simp only [Subs.fwdActiveAt, Subs.COKAt]
      exact Node.fwdActive_cok n rq w ha.1 hp
  | .cons b n r, i+1, rq, w, ha, hp => by
      simp only [Subs.ActAt] at ha
      simp only [Subs.PAt] at hp
      simp only [Subs.fwdActiveAt, Subs.COKAt]
      exact Subs.fwdActiveAt_cok r i rq w ha.2 hp
theorem Subs.fwdActiveBits_cok : (s : Subs) → (rq : Req) → (w : World U) → s.ActAll → s.PBits →
    (s.fwdActiveBits rq w).2.err = none → (s.fwdActiveBits rq w).1.COKAll
  | .nil, _, _, _, _ => by intro _; simp [Subs.fwdActiveBits, Subs.COKAll]
  | .cons b n r, rq, w, ha, hp => by
      simp only [Subs.ActAll] at ha
      simp only [Subs.PBits] at hp
      simp only [Subs.fwdActiveBits]
      split
      · next hb =>
        simp only [Subs.COKAll]
        intro h
        have h1 : (n.fwdActive rq w).2.err = none := by err_back h
        exact ⟨Node.fwdActive_cok n rq w ha.1 (by simpa [hb] using hp.1) h1,
               Subs.fwdActiveBits_cok r rq _ ha.2 hp.2 h⟩
      · next hb =>
        simp only [Subs.COKAll]
        intro h
        exact ⟨by simpa [hb] using hp.1, Subs.fwdActiveBits_cok r rq _ ha.2 hp.2 h⟩
end

mutual
theorem Node.fwdActive_res : (n : Node) → (rq : Req) → (w : World U) → n.PR →
    (n.fwdActive rq w).2.err = none → (n.fwdActive rq w).1.Res
  | .leaf .., _, _, _ => by intro _; simp [Node.fwdActive, Node.Res]
  | .compo id rid inj hd st a r q m s, rq, w, hp => by
      cases q with
      | none => simp [Node.PR] at hp
      | some qi =>
        simp only [Node.fwdActive, Node.Res]
        exact Subs.fwdRequestAt_res s qi rq w
  | .ortho id rid inj hd s, rq, w, hp => by
      simp only [Node.PR] at hp
      simp only [Node.fwdActive, Node.Res]
      exact Subs.fwdActiveBits_res s rq w hp
theorem Subs.fwdActiveBits_res : (s : Subs) → (rq : Req) → (w : World U) → s.PRBits →
    (s.fwdActiveBits rq w).2.err = none → (s.fwdActiveBits rq w).1.ResAll
  | .nil, _, _, _ => by intro _; simp [Subs.fwdActiveBits, Subs.ResAll]
  | .cons b n r, rq, w, hp => by
      simp only [Subs.PRBits] at hp
      simp only [Subs.fwdActiveBits]
      split
      · next hb =>
        simp only [Subs.ResAll]
        intro h
        have h1 : (n.fwdActive rq w).2.err = none := by err_back h
        exact ⟨Node.fwdActive_res n rq w (by simpa [hb] using hp.1) h1, Subs.fwdActiveBits_res r rq _ hp.2 h⟩
      · next hb =>
        simp only [Subs.ResAll]
        intro h
        exact ⟨by simpa [hb] using hp.1, Subs.fwdActiveBits_res r rq _ hp.2 h⟩
end

end Hfsm
