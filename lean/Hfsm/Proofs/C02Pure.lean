/-
C02 — registry-level lemmas: the marks left by `mark` + the forward passes drive the commit pass to
the configuration of the specification.  Everything here is about pure tree functions
(`Proofs/C02Reg.lean`); results are compared after `clearMarks`, which is what `processRequest`
does last (the `remain` bits and orthogonal request bits set on the way are not part of the
configuration).
-/
import Hfsm.Proofs.C02Reg

namespace Hfsm

/-! ### trees without marks -/

mutual
theorem C02.Node.clearMarks_of_noMarks : (n : Node) → n.NoMarks → n.clearMarks = n
  | .leaf .., _ => by simp only [Node.clearMarks]
  | .compo id rid inj h st a r q m s, hn => by
    simp only [Node.NoMarks] at hn
    obtain ⟨hq, hm, hs⟩ := hn
    subst hq; subst hm
    simp only [Node.clearMarks, C02.Subs.clearMarks_of_noMarks s hs]
  | .ortho id rid inj h s, hn => by
    simp only [Node.NoMarks] at hn
    simp only [Node.clearMarks, C02.Subs.clearMarks_of_noMarks s hn]
theorem C02.Subs.clearMarks_of_noMarks : (s : Subs) → s.NoMarksAll → s.clearMarks = s
  | .nil, _ => by simp only [Subs.clearMarks]
  | .cons b n r, hs => by
    simp only [Subs.NoMarksAll] at hs
    obtain ⟨hb, hn, hr⟩ := hs
    subst hb
    simp only [Subs.clearMarks, C02.Node.clearMarks_of_noMarks n hn, C02.Subs.clearMarks_of_noMarks r hr]
end

mutual
theorem C02.Node.clearMarks_isNoMarks : (n : Node) → n.clearMarks.NoMarks
  | .leaf .. => by simp only [Node.clearMarks, Node.NoMarks]
  | .compo id rid inj h st a r q m s => by
    simp only [Node.clearMarks, Node.NoMarks, C02.Subs.clearMarks_isNoMarks s, and_self]
  | .ortho id rid inj h s => by simp only [Node.clearMarks, Node.NoMarks, C02.Subs.clearMarks_isNoMarks s]
theorem C02.Subs.clearMarks_isNoMarks : (s : Subs) → s.clearMarks.NoMarksAll
  | .nil => by simp only [Subs.clearMarks, Subs.NoMarksAll]
  | .cons b n r => by
    simp only [Subs.clearMarks, Subs.NoMarksAll, C02.Node.clearMarks_isNoMarks n,
      C02.Subs.clearMarks_isNoMarks r, and_self]
end

mutual
theorem C02.Node.exited_noMarks : (n : Node) → n.NoMarks → n.exited.NoMarks
  | .leaf .., _ => by simp only [Node.exited, Node.NoMarks]
  | .compo id rid inj h st a r q m s, hn => by
    simp only [Node.NoMarks] at hn
    cases a with
    | none => simpa only [Node.exited, Node.NoMarks] using hn
    | some ai =>
      simp only [Node.exited, Node.NoMarks]
      exact ⟨hn.1, hn.2.1, C02.Subs.exitedAt_noMarks s ai hn.2.2⟩
  | .ortho id rid inj h s, hn => by
    simp only [Node.NoMarks] at hn
    simp only [Node.exited, Node.NoMarks]
    exact C02.Subs.exitedAll_noMarks s hn
theorem C02.Subs.exitedAt_noMarks : (s : Subs) → (i : Nat) → s.NoMarksAll → (s.exitedAt i).NoMarksAll
  | .nil, _, _ => by simp only [Subs.exitedAt, Subs.NoMarksAll]
  | .cons b n r, 0, hs => by
    simp only [Subs.NoMarksAll] at hs
    simp only [Subs.exitedAt, Subs.NoMarksAll]
    exact ⟨hs.1, C02.Node.exited_noMarks n hs.2.1, hs.2.2⟩
  | .cons b n r, i+1, hs => by
    simp only [Subs.NoMarksAll] at hs
    simp only [Subs.exitedAt, Subs.NoMarksAll]
    exact ⟨hs.1, hs.2.1, C02.Subs.exitedAt_noMarks r i hs.2.2⟩
theorem C02.Subs.exitedAll_noMarks : (s : Subs) → s.NoMarksAll → s.exitedAll.NoMarksAll
  | .nil, _ => by simp only [Subs.exitedAll, Subs.NoMarksAll]
  | .cons b n r, hs => by
    simp only [Subs.NoMarksAll] at hs
    simp only [Subs.exitedAll, Subs.NoMarksAll]
    exact ⟨hs.1, C02.Node.exited_noMarks n hs.2.1, C02.Subs.exitedAll_noMarks r hs.2.2⟩
end

section
variable (ans : Nat → Nat) (k : Kind)

/-! ### entering a resolved sub-tree = `choose` -/

mutual
theorem C02.Node.enter_request : (n : Node) → n.NoMarks →
    ((n.requestR ans k).enterR).clearMarks = n.choose ans k
  | .leaf .., _ => by simp only [Node.requestR, Node.enterR, Node.clearMarks, Node.choose]
  | .compo id rid inj h st a r q m s, hn => by
    simp only [Node.NoMarks] at hn
    obtain ⟨hq, hm, hs⟩ := hn
    subst hq; subst hm
    simp only [Node.requestR, Node.enterR, Node.clearMarks, Node.choose]
    rw [C02.Subs.enterAt_requestAt s _ hs]
  | .ortho id rid inj h s, hn => by
    simp only [Node.NoMarks] at hn
    simp only [Node.requestR, Node.enterR, Node.clearMarks, Node.choose]
    rw [C02.Subs.enterAll_requestAll s hn]
theorem C02.Subs.enterAt_requestAt : (s : Subs) → (i : Nat) → s.NoMarksAll →
    ((s.requestAtR ans k i).enterAtR i).clearMarks = s.chooseAt ans k i
  | .nil, _, _ => by simp only [Subs.requestAtR, Subs.enterAtR, Subs.clearMarks, Subs.chooseAt]
  | .cons b n r, 0, hs => by
    simp only [Subs.NoMarksAll] at hs
    obtain ⟨hb, hn, hr⟩ := hs
    subst hb
    simp only [Subs.requestAtR, Subs.enterAtR, Subs.clearMarks, Subs.chooseAt]
    rw [C02.Node.enter_request n hn, C02.Subs.clearMarks_of_noMarks r hr]
  | .cons b n r, i+1, hs => by
    simp only [Subs.NoMarksAll] at hs
    obtain ⟨hb, hn, hr⟩ := hs
    subst hb
    simp only [Subs.requestAtR, Subs.enterAtR, Subs.clearMarks, Subs.chooseAt]
    rw [C02.Subs.enterAt_requestAt r i hr, C02.Node.clearMarks_of_noMarks n hn]
theorem C02.Subs.enterAll_requestAll : (s : Subs) → s.NoMarksAll →
    ((s.requestAllR ans k).enterAllR).clearMarks = s.chooseAll ans k
  | .nil, _ => by simp only [Subs.requestAllR, Subs.enterAllR, Subs.clearMarks, Subs.chooseAll]
  | .cons b n r, hs => by
    simp only [Subs.NoMarksAll] at hs
    obtain ⟨hb, hn, hr⟩ := hs
    subst hb
    simp only [Subs.requestAllR, Subs.enterAllR, Subs.clearMarks, Subs.chooseAll]
    rw [C02.Node.enter_request n hn, C02.Subs.enterAll_requestAll r hr]
end


/-! ### switching a region: leave `ai`, enter `i` -/

theorem C02.Subs.switch_requestAt : (s : Subs) → (i ai : Nat) → ai ≠ i → s.NoMarksAll →
    (((s.requestAtR ans k i).exitedAt ai).enterAtR i).clearMarks = (s.exitedAt ai).chooseAt ans k i
  | .nil, _, _, _, _ => by
    simp only [Subs.requestAtR, Subs.exitedAt, Subs.enterAtR, Subs.clearMarks, Subs.chooseAt]
  | .cons b n r, 0, 0, h, _ => absurd rfl h
  | .cons b n r, 0, ai+1, _, hs => by
    simp only [Subs.NoMarksAll] at hs
    obtain ⟨hb, hn, hr⟩ := hs
    subst hb
    simp only [Subs.requestAtR, Subs.exitedAt, Subs.enterAtR, Subs.clearMarks, Subs.chooseAt]
    rw [C02.Node.enter_request ans k n hn, C02.Subs.clearMarks_of_noMarks _ (C02.Subs.exitedAt_noMarks r ai hr)]
  | .cons b n r, i+1, 0, _, hs => by
    simp only [Subs.NoMarksAll] at hs
    obtain ⟨hb, hn, hr⟩ := hs
    subst hb
    simp only [Subs.requestAtR, Subs.exitedAt, Subs.enterAtR, Subs.clearMarks, Subs.chooseAt]
    rw [C02.Subs.enterAt_requestAt ans k r i hr, C02.Node.clearMarks_of_noMarks _ (C02.Node.exited_noMarks n hn)]
  | .cons b n r, i+1, ai+1, h, hs => by
    simp only [Subs.NoMarksAll] at hs
    obtain ⟨hb, hn, hr⟩ := hs
    subst hb
    simp only [Subs.requestAtR, Subs.exitedAt, Subs.enterAtR, Subs.clearMarks, Subs.chooseAt]
    rw [C02.Subs.switch_requestAt r i ai (by omega) hr, C02.Node.clearMarks_of_noMarks n hn]

/-! ### re-entering a resolved active sub-tree = `retarget` -/

mutual
theorem C02.Node.reenter_request : (n : Node) → n.Act → n.NoMarks →
    ((n.requestR ans k).reenterR).clearMarks = n.retarget ans k
  | .leaf .., _, _ => by simp only [Node.requestR, Node.reenterR, Node.clearMarks, Node.retarget]
  | .compo id rid inj h st a r q m s, ha, hn => by
    simp only [Node.NoMarks] at hn
    obtain ⟨hq, hm, hs⟩ := hn
    subst hq; subst hm
    cases a with
    | none => simp only [Node.Act] at ha
    | some ai =>
      simp only [Node.Act] at ha
      by_cases hi : pickProng ans id st r k = ai
      · simp only [Node.requestR, Node.reenterR, Node.retarget, hi, ↓reduceIte, Node.clearMarks]
        rw [C02.Subs.reenterAt_requestAt s ai ha hs]
      · have hi' : ¬ ai = pickProng ans id st r k := fun e => hi e.symm
        simp only [Node.requestR, Node.reenterR, Node.retarget, hi, hi', ↓reduceIte, Node.clearMarks]
        rw [C02.Subs.switch_requestAt ans k s _ ai hi' hs]
  | .ortho id rid inj h s, ha, hn => by
    simp only [Node.NoMarks] at hn
    simp only [Node.Act] at ha
    simp only [Node.requestR, Node.reenterR, Node.clearMarks, Node.retarget]
    rw [C02.Subs.reenterAll_requestAll s ha hn]
theorem C02.Subs.reenterAt_requestAt : (s : Subs) → (i : Nat) → s.ActAt i → s.NoMarksAll →
    ((s.requestAtR ans k i).reenterAtR i).clearMarks = s.retargetAt ans k i
  | .nil, _, _, _ => by simp only [Subs.requestAtR, Subs.reenterAtR, Subs.clearMarks, Subs.retargetAt]
  | .cons b n r, 0, ha, hs => by
    simp only [Subs.NoMarksAll] at hs
    obtain ⟨hb, hn, hr⟩ := hs
    subst hb
    simp only [Subs.ActAt] at ha
    simp only [Subs.requestAtR, Subs.reenterAtR, Subs.clearMarks, Subs.retargetAt]
    rw [C02.Node.reenter_request n ha.1 hn, C02.Subs.clearMarks_of_noMarks r hr]
  | .cons b n r, i+1, ha, hs => by
    simp only [Subs.NoMarksAll] at hs
    obtain ⟨hb, hn, hr⟩ := hs
    subst hb
    simp only [Subs.ActAt] at ha
    simp only [Subs.requestAtR, Subs.reenterAtR, Subs.clearMarks, Subs.retargetAt]
    rw [C02.Subs.reenterAt_requestAt r i ha.2 hr, C02.Node.clearMarks_of_noMarks n hn]
theorem C02.Subs.reenterAll_requestAll : (s : Subs) → s.ActAll → s.NoMarksAll →
    ((s.requestAllR ans k).reenterAllR).clearMarks = s.retargetAll ans k
  | .nil, _, _ => by simp only [Subs.requestAllR, Subs.reenterAllR, Subs.clearMarks, Subs.retargetAll]
  | .cons b n r, ha, hs => by
    simp only [Subs.NoMarksAll] at hs
    obtain ⟨hb, hn, hr⟩ := hs
    subst hb
    simp only [Subs.ActAll] at ha
    simp only [Subs.requestAllR, Subs.reenterAllR, Subs.clearMarks, Subs.retargetAll]
    rw [C02.Node.reenter_request n ha.1 hn, C02.Subs.reenterAll_requestAll r ha.2 hr]
end

/-! ### on a freshly resolved tree `commit` acts like `reenter` -/

mutual
theorem C02.Node.commit_request : (n : Node) → n.NoMarks →
    (n.requestR ans k).commitR = (n.requestR ans k).reenterR
  | .leaf .., _ => by simp only [Node.requestR, Node.commitR, Node.reenterR]
  | .compo id rid inj h st a r q m s, hn => by
    simp only [Node.NoMarks] at hn
    obtain ⟨hq, hm, hs⟩ := hn
    subst hq; subst hm
    cases a with
    | none => simp only [Node.requestR, Node.commitR, Node.reenterR]
    | some ai =>
      by_cases hi : pickProng ans id st r k = ai
      · simp only [Node.requestR, Node.commitR, Node.reenterR, hi, ne_eq, not_true_eq_false,
          ↓reduceIte, Bool.false_eq_true]
      · have hi' : ¬ ai = pickProng ans id st r k := fun e => hi e.symm
        simp only [Node.requestR, Node.commitR, Node.reenterR, hi, hi', ne_eq, not_false_eq_true,
          ↓reduceIte]
  | .ortho id rid inj h s, hn => by
    simp only [Node.NoMarks] at hn
    simp only [Node.requestR, Node.commitR, Node.reenterR]
    rw [C02.Subs.commitAll_requestAll s hn]
theorem C02.Subs.commitAll_requestAll : (s : Subs) → s.NoMarksAll →
    (s.requestAllR ans k).commitAllR = (s.requestAllR ans k).reenterAllR
  | .nil, _ => by simp only [Subs.requestAllR, Subs.commitAllR, Subs.reenterAllR]
  | .cons b n r, hs => by
    simp only [Subs.NoMarksAll] at hs
    obtain ⟨hb, hn, hr⟩ := hs
    subst hb
    simp only [Subs.requestAllR, Subs.commitAllR, Subs.reenterAllR]
    rw [C02.Node.commit_request n hn, C02.Subs.commitAll_requestAll r hr]
end


/-! ### passes over sub-trees without marks -/

theorem C02.Subs.anyBit_noMarks : (s : Subs) → s.NoMarksAll → s.anyBit = false
  | .nil, _ => by simp only [Subs.anyBit]
  | .cons b n r, hs => by
    simp only [Subs.NoMarksAll] at hs
    simp only [Subs.anyBit, hs.1, C02.Subs.anyBit_noMarks r hs.2.2, Bool.or_self]

theorem C02.Node.fwdRequestR_noMarks : (n : Node) → n.NoMarks → n.fwdRequestR ans k = n.requestR ans k
  | .leaf .., _ => by simp only [Node.fwdRequestR, Node.requestR]
  | .compo id rid inj h st a r q m s, hn => by
    simp only [Node.NoMarks] at hn
    obtain ⟨hq, -, -⟩ := hn
    subst hq
    simp only [Node.fwdRequestR]
  | .ortho id rid inj h s, hn => by
    simp only [Node.NoMarks] at hn
    simp only [Node.fwdRequestR, C02.Subs.anyBit_noMarks s hn, Bool.false_eq_true, ↓reduceIte]

theorem C02.Subs.fwdRequestAllR_noMarks : (s : Subs) → s.NoMarksAll →
    s.fwdRequestAllR ans k = s.requestAllR ans k
  | .nil, _ => by simp only [Subs.fwdRequestAllR, Subs.requestAllR]
  | .cons b n r, hs => by
    simp only [Subs.NoMarksAll] at hs
    simp only [Subs.fwdRequestAllR, Subs.requestAllR, C02.Node.fwdRequestR_noMarks ans k n hs.2.1,
      C02.Subs.fwdRequestAllR_noMarks r hs.2.2]

theorem C02.Subs.fwdActiveBitsR_noMarks : (s : Subs) → s.NoMarksAll → s.fwdActiveBitsR ans k = s
  | .nil, _ => by simp only [Subs.fwdActiveBitsR]
  | .cons b n r, hs => by
    simp only [Subs.NoMarksAll] at hs
    obtain ⟨hb, -, hr⟩ := hs
    subst hb
    simp only [Subs.fwdActiveBitsR, Bool.false_eq_true, ↓reduceIte, C02.Subs.fwdActiveBitsR_noMarks r hr]

end

mutual
theorem C02.Node.commitR_id : (n : Node) → n.Act → n.NoMarks → n.commitR = n
  | .leaf .., _, _ => by simp only [Node.commitR]
  | .compo id rid inj h st a r q m s, ha, hn => by
    simp only [Node.NoMarks] at hn
    obtain ⟨hq, hm, hs⟩ := hn
    subst hq; subst hm
    cases a with
    | none => simp only [Node.Act] at ha
    | some ai =>
      simp only [Node.Act] at ha
      simp only [Node.commitR, C02.Subs.commitAtR_id s ai ha hs]
  | .ortho id rid inj h s, ha, hn => by
    simp only [Node.NoMarks] at hn
    simp only [Node.Act] at ha
    simp only [Node.commitR, C02.Subs.commitAllR_id s ha hn]
theorem C02.Subs.commitAtR_id : (s : Subs) → (i : Nat) → s.ActAt i → s.NoMarksAll → s.commitAtR i = s
  | .nil, _, _, _ => by simp only [Subs.commitAtR]
  | .cons b n r, 0, ha, hs => by
    simp only [Subs.NoMarksAll] at hs
    simp only [Subs.ActAt] at ha
    simp only [Subs.commitAtR, C02.Node.commitR_id n ha.1 hs.2.1]
  | .cons b n r, i+1, ha, hs => by
    simp only [Subs.NoMarksAll] at hs
    simp only [Subs.ActAt] at ha
    simp only [Subs.commitAtR, C02.Subs.commitAtR_id r i ha.2 hs.2.2]
theorem C02.Subs.commitAllR_id : (s : Subs) → s.ActAll → s.NoMarksAll → s.commitAllR = s
  | .nil, _, _ => by simp only [Subs.commitAllR]
  | .cons b n r, ha, hs => by
    simp only [Subs.NoMarksAll] at hs
    simp only [Subs.ActAll] at ha
    simp only [Subs.commitAllR, C02.Node.commitR_id n ha.1 hs.2.1, C02.Subs.commitAllR_id r ha.2 hs.2.2]
end

mutual
theorem C02.Node.reenterR_id : (n : Node) → n.NoMarks → n.reenterR = n
  | .leaf .., _ => by simp only [Node.reenterR]
  | .compo id rid inj h st a r q m s, hn => by
    simp only [Node.NoMarks] at hn
    obtain ⟨hq, -, -⟩ := hn
    subst hq
    cases a <;> simp only [Node.reenterR]
  | .ortho id rid inj h s, hn => by
    simp only [Node.NoMarks] at hn
    simp only [Node.reenterR, C02.Subs.reenterAllR_id s hn]
theorem C02.Subs.reenterAllR_id : (s : Subs) → s.NoMarksAll → s.reenterAllR = s
  | .nil, _ => by simp only [Subs.reenterAllR]
  | .cons b n r, hs => by
    simp only [Subs.NoMarksAll] at hs
    obtain ⟨hb, hn, hr⟩ := hs
    subst hb
    simp only [Subs.reenterAllR, C02.Node.reenterR_id n hn, C02.Subs.reenterAllR_id r hr]
end

section
variable (ans : Nat → Nat) (k : Kind)

mutual
theorem C02.Node.fwdActiveR_id : (n : Node) → n.Act → n.NoMarks → n.fwdActiveR ans k = n
  | .leaf .., _, _ => by simp only [Node.fwdActiveR]
  | .compo id rid inj h st a r q m s, ha, hn => by
    simp only [Node.NoMarks] at hn
    obtain ⟨hq, hm, hs⟩ := hn
    subst hq; subst hm
    cases a with
    | none => simp only [Node.Act] at ha
    | some ai =>
      simp only [Node.Act] at ha
      simp only [Node.fwdActiveR, C02.Subs.fwdActiveAtR_id s ai ha hs]
  | .ortho id rid inj h s, ha, hn => by
    simp only [Node.NoMarks] at hn
    simp only [Node.fwdActiveR, C02.Subs.fwdActiveBitsR_noMarks ans k s hn]
theorem C02.Subs.fwdActiveAtR_id : (s : Subs) → (i : Nat) → s.ActAt i → s.NoMarksAll →
    s.fwdActiveAtR ans k i = s
  | .nil, _, _, _ => by simp only [Subs.fwdActiveAtR]
  | .cons b n r, 0, ha, hs => by
    simp only [Subs.NoMarksAll] at hs
    simp only [Subs.ActAt] at ha
    simp only [Subs.fwdActiveAtR, C02.Node.fwdActiveR_id n ha.1 hs.2.1]
  | .cons b n r, i+1, ha, hs => by
    simp only [Subs.NoMarksAll] at hs
    simp only [Subs.ActAt] at ha
    simp only [Subs.fwdActiveAtR, C02.Subs.fwdActiveAtR_id r i ha.2 hs.2.2]
end

end

/-! ### the phase `mark` returns -/

mutual
theorem C02.Node.mark_phase : (n : Node) → (p : List Nat) → ((n.mark p).2 = .p1 ↔ n.hasCompo p = false)
  | .leaf .., [] => by simp only [Node.mark, Node.hasCompo]
  | .compo .., [] => by simp only [Node.mark, Node.hasCompo]
  | .ortho .., [] => by simp only [Node.mark, Node.hasCompo]
  | .leaf .., _ :: _ => by simp only [Node.mark, Node.hasCompo]
  | .compo id rid inj h st a r q m s, i :: rest => by
    simp only [Node.mark, Node.hasCompo]
    generalize s.markAt i rest = res
    obtain ⟨s', ph⟩ := res
    cases ph <;> simp only [Bool.true_eq_false, iff_false]
    · simp
    · split <;> simp
    · simp
  | .ortho id rid inj h s, i :: rest => by
    simp only [Node.mark, Node.hasCompo]
    exact C02.Subs.markAt_phase s i rest
theorem C02.Subs.markAt_phase : (s : Subs) → (i : Nat) → (p : List Nat) →
    ((s.markAt i p).2 = .p1 ↔ s.hasCompoAt i p = false)
  | .nil, _, _ => by simp only [Subs.markAt, Subs.hasCompoAt]
  | .cons b n r, 0, p => by
    simp only [Subs.markAt, Subs.hasCompoAt]
    exact C02.Node.mark_phase n p
  | .cons b n r, i+1, p => by
    simp only [Subs.markAt, Subs.hasCompoAt]
    exact C02.Subs.markAt_phase r i p
end

theorem C02.Subs.anyBit_setBit : (s : Subs) → (i : Nat) → (p : List Nat) → s.ValidAt i p →
    ((s.markAt i p).1.setBit i).anyBit = true
  | .nil, _, _, hv => by simp only [Subs.ValidAt] at hv
  | .cons b n r, 0, p, _ => by simp only [Subs.markAt, Subs.setBit, Subs.anyBit, Bool.true_or]
  | .cons b n r, i+1, p, hv => by
    simp only [Subs.ValidAt] at hv
    simp only [Subs.markAt, Subs.setBit, Subs.anyBit, C02.Subs.anyBit_setBit r i p hv, Bool.or_true]

end Hfsm
