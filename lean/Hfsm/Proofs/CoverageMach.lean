/-
(c) assembled: an approved guard phase has invoked the guard of every state the commit pass of the same
tree exits / enters / re-enters (under `BitsOK`); the commit pass delivers no other lifecycle callback;
and neither set depends on resumable marks.
-/
import Hfsm.Proofs.GuardVisit

set_option linter.unusedSectionVars false

namespace Hfsm
variable {U : Type} [UtilArith U]

/-! ### the sets do not depend on resumable marks -/

mutual
theorem Node.noRes_reqIds : (n : Node) → n.noResumable.reqIds = n.reqIds
  | .leaf .. => rfl
  | .compo id rid inj h st a r q m s => by
    simp only [Node.noResumable, Node.reqIds]
    cases q with
    | none => rfl
    | some qi => simp only [Subs.noRes_reqIdsAt s qi]
  | .ortho id rid inj h s => by simp only [Node.noResumable, Node.reqIds, Subs.noRes_reqIdsAll s]
theorem Subs.noRes_reqIdsAt : (s : Subs) → (i : Nat) → s.noResumable.reqIdsAt i = s.reqIdsAt i
  | .nil, _ => rfl
  | .cons b n r, 0 => by simp only [Subs.noResumable, Subs.reqIdsAt, Node.noRes_reqIds n]
  | .cons b n r, i+1 => by simp only [Subs.noResumable, Subs.reqIdsAt, Subs.noRes_reqIdsAt r i]
theorem Subs.noRes_reqIdsAll : (s : Subs) → s.noResumable.reqIdsAll = s.reqIdsAll
  | .nil => rfl
  | .cons b n r => by simp only [Subs.noResumable, Subs.reqIdsAll, Node.noRes_reqIds n, Subs.noRes_reqIdsAll r]
end

mutual
theorem Node.noRes_actIds : (n : Node) → n.noResumable.actIds = n.actIds
  | .leaf .. => rfl
  | .compo id rid inj h st a r q m s => by
    simp only [Node.noResumable, Node.actIds]
    cases a with
    | none => rfl
    | some ai => simp only [Subs.noRes_actIdsAt s ai]
  | .ortho id rid inj h s => by simp only [Node.noResumable, Node.actIds, Subs.noRes_actIdsAll s]
theorem Subs.noRes_actIdsAt : (s : Subs) → (i : Nat) → s.noResumable.actIdsAt i = s.actIdsAt i
  | .nil, _ => rfl
  | .cons b n r, 0 => by simp only [Subs.noResumable, Subs.actIdsAt, Node.noRes_actIds n]
  | .cons b n r, i+1 => by simp only [Subs.noResumable, Subs.actIdsAt, Subs.noRes_actIdsAt r i]
theorem Subs.noRes_actIdsAll : (s : Subs) → s.noResumable.actIdsAll = s.actIdsAll
  | .nil => rfl
  | .cons b n r => by simp only [Subs.noResumable, Subs.actIdsAll, Node.noRes_actIds n, Subs.noRes_actIdsAll r]
end

mutual
theorem Node.noRes_reenterActs : (n : Node) → n.noResumable.reenterActs = n.reenterActs
  | .leaf .. => rfl
  | .compo id rid inj h st a r q m s => by
    simp only [Node.noResumable, Node.reenterActs]
    cases a with
    | none => rfl
    | some ai =>
      cases q with
      | none => rfl
      | some qi => simp only [Subs.noRes_reenterActsAt s, Subs.noRes_actIdsAt, Subs.noRes_reqIdsAt]
  | .ortho id rid inj h s => by simp only [Node.noResumable, Node.reenterActs, Subs.noRes_reenterActsAll s]
theorem Subs.noRes_reenterActsAt : (s : Subs) → (i : Nat) → s.noResumable.reenterActsAt i = s.reenterActsAt i
  | .nil, _ => rfl
  | .cons b n r, 0 => by simp only [Subs.noResumable, Subs.reenterActsAt, Node.noRes_reenterActs n]
  | .cons b n r, i+1 => by simp only [Subs.noResumable, Subs.reenterActsAt, Subs.noRes_reenterActsAt r i]
theorem Subs.noRes_reenterActsAll : (s : Subs) → s.noResumable.reenterActsAll = s.reenterActsAll
  | .nil => rfl
  | .cons b n r => by
    simp only [Subs.noResumable, Subs.reenterActsAll, Node.noRes_reenterActs n, Subs.noRes_reenterActsAll r]
end

mutual
theorem Node.noRes_commitActs : (n : Node) → n.noResumable.commitActs = n.commitActs
  | .leaf .. => rfl
  | .compo id rid inj h st a r q m s => by
    simp only [Node.noResumable, Node.commitActs]
    cases a with
    | none => rfl
    | some ai =>
      cases q with
      | none => simp only [Subs.noRes_commitActsAt s ai]
      | some qi => simp only [Subs.noRes_reenterActsAt, Subs.noRes_actIdsAt, Subs.noRes_reqIdsAt]
  | .ortho id rid inj h s => by simp only [Node.noResumable, Node.commitActs, Subs.noRes_commitActsAll s]
theorem Subs.noRes_commitActsAt : (s : Subs) → (i : Nat) → s.noResumable.commitActsAt i = s.commitActsAt i
  | .nil, _ => rfl
  | .cons b n r, 0 => by simp only [Subs.noResumable, Subs.commitActsAt, Node.noRes_commitActs n]
  | .cons b n r, i+1 => by simp only [Subs.noResumable, Subs.commitActsAt, Subs.noRes_commitActsAt r i]
theorem Subs.noRes_commitActsAll : (s : Subs) → s.noResumable.commitActsAll = s.commitActsAll
  | .nil => rfl
  | .cons b n r => by
    simp only [Subs.noResumable, Subs.commitActsAll, Node.noRes_commitActs n, Subs.noRes_commitActsAll r]
end

/-- Trees that agree up to resumable marks commit the same callbacks. -/
theorem Node.commitActs_congr {a b : Node} (h : a.noResumable = b.noResumable) : a.commitActs = b.commitActs := by
  rw [← Node.noRes_commitActs a, h, Node.noRes_commitActs]

namespace Mach

/-- **(c), guards.** An approved guard phase has invoked, in this order, the exit guard of every state the
commit pass of this tree would exit and the entry guard of every state it would enter or re-enter —
provided the scripted decisions did not run out (`err = none`) and `BitsOK` holds. -/
theorem approved_guards_cover_commit (m : Mach U) (curr pend : List Transition) (hb : m.root.BitsOK = true)
    (hok : (m.approvedByGuards curr pend).2 = true) (herr : (m.approvedByGuards curr pend).1.w.err = none) :
    ∃ entryEvs exitEvs, (m.approvedByGuards curr pend).1.w.trace = entryEvs ++ exitEvs ++ m.w.trace ∧
      ∀ p ∈ m.root.commitActs,
        (p.2 = .exit → HasCb exitEvs p.1 .exitGuard) ∧
        (p.2 = .enter ∨ p.2 = .reenter → HasCb entryEvs p.1 .entryGuard) := by
  have hcov := Node.commitActs_covered m.root hb
  unfold approvedByGuards at hok herr ⊢
  dsimp only at hok herr ⊢
  generalize hw0 : ({ m.w.freshControl with pending := pend, current := curr }).snapshot m.root true true = w0 at hok herr ⊢
  have e0 : w0.trace = m.w.trace := by subst hw0; rfl
  have g1 := Node.fwdExitGuard_gv m.root w0
  generalize hr1 : m.root.fwdExitGuard w0 = r1 at hok herr g1
  obtain ⟨w1, ok1⟩ := r1
  cases ok1 with
  | false => simp at hok
  | true =>
    simp only [if_true] at hok herr ⊢
    have g2 := Node.fwdEntryGuard_gv m.root w1
    have herr1 : w1.err = none := (Node.fwdEntryGuard_steps m.root w1 w1 (Steps.refl _)).frame.err_none herr
    generalize hr2 : m.root.fwdEntryGuard w1 = r2 at hok herr g2
    obtain ⟨w2, ok2⟩ := r2
    dsimp only at hok herr g1 g2 ⊢
    obtain ⟨ex, tx, px⟩ := g1 rfl herr1
    obtain ⟨en, tn, pn⟩ := g2 hok herr
    refine ⟨en, ex, by rw [tn, tx, e0, List.append_assoc], ?_⟩
    intro p hp
    obtain ⟨c1, c2, _⟩ := hcov p hp
    exact ⟨fun h => px _ (c1 h), fun h => pn _ (c2 h)⟩

/-- **(c), commit.** Every lifecycle callback the commit pass delivers is one of `commitActs`. -/
theorem commit_delivers_only_commitActs (n : Node) (w : World U) :
    ∃ evs, (n.commit w).2.trace = evs ++ w.trace ∧
      ∀ sid meth slot obs pend cur, Event.cb sid meth slot obs pend cur ∈ evs → (sid, meth) ∈ n.commitActs := by
  have f := (Node.commit_acts n.commitActs n (fun _ h => h) w w (Steps.refl _)).frame
  obtain ⟨evs, t, p⟩ := f.trace
  refine ⟨evs, t, ?_⟩
  intro sid meth slot obs pend cur hmem
  exact (p _ hmem).1

end Mach
end Hfsm
