/-
Plans compiled in but never used (C15), part 2: switching the feature off commutes with every traversal.

`World.po c e H S w` is `w` with `HFSM2_ENABLE_PLANS := c`, the two status arrays of `PlanDataT`
(`headStatuses`, `subStatuses`) replaced by `H`, `S`, and — for `e = some x` — the model's
contract-violation flag overwritten by `x` (so that the flag is ignored; `e = none` keeps it).

While plans are idle (`World.PI`, Proofs/PlansOff.lean):
 * the request / report / forward passes, the guards, `enter / exit / reenter / commit` and `query` commute
   with `po c e H S` for *every* `c`: they neither read the switch (`deepExit`'s `clearTaskStatus` clears bits
   that are not set) nor touch the status arrays;
 * the update and react passes commute with `po false e H S`: with plans compiled out the `|=` into the status
   arrays is absent, and nothing else reads them;
 * `deepUpdatePlans` (which a build without plans does not have) changes nothing but `_taskStatus`, which
   it clears, and the contract-violation flag.
-/
import Hfsm.Proofs.PlansOff
import Hfsm.Proofs.RecfgMach

set_option linter.unusedVariables false
set_option linter.unusedSectionVars false
set_option linter.unusedSimpArgs false

namespace Hfsm
variable {U : Type}

/-- keep (`none`) or overwrite (`some x`) the contract-violation flag -/
def perr (e : Option String) (x : Option String) : Option String :=
  match e with
  | none => x
  | some y => some y

@[reducible] def World.po (c : Bool) (e : Option String) (H S : List TaskStatus) (w : World U) : World U :=
  { w with cfg := { w.cfg with plans := c }, headStatus := H, subStatus := S, err := perr e w.err }

namespace World
variable (c : Bool) (e : Option String) (H S : List TaskStatus) (w : World U)

/-! ### fields the traversals read -/
@[simp] theorem po_requests : (w.po c e H S).requests = w.requests := rfl
@[simp] theorem po_planExists : (w.po c e H S).planExists = w.planExists := rfl
@[simp] theorem po_consumed : (w.po c e H S).consumed = w.consumed := rfl
@[simp] theorem po_cancelled : (w.po c e H S).cancelled = w.cancelled := rfl
@[simp] theorem po_taskStatus : (w.po c e H S).taskStatus = w.taskStatus := rfl
@[simp] theorem po_ds : (w.po c e H S).ds = w.ds := rfl
@[simp] theorem po_rng : (w.po c e H S).rng = w.rng := rfl
@[simp] theorem po_origin : (w.po c e H S).origin = w.origin := rfl
@[simp] theorem po_plans : (w.po c e H S).cfg.plans = c := rfl
@[simp] theorem po_stateCount : (w.po c e H S).cfg.stateCount = w.cfg.stateCount := rfl
@[simp] theorem po_queueCap : (w.po c e H S).cfg.queueCap = w.cfg.queueCap := rfl
@[simp] theorem po_topDown : (w.po c e H S).cfg.topDown = w.cfg.topDown := rfl
@[simp] theorem po_manual : (w.po c e H S).cfg.manual = w.cfg.manual := rfl
@[simp] theorem po_history : (w.po c e H S).cfg.history = w.cfg.history := rfl
@[simp] theorem po_limit : (w.po c e H S).cfg.substitutionLimit = w.cfg.substitutionLimit := rfl

/-! ### primitives -/

theorem po_fail' (msg : String) : (w.po c e H S).fail' msg = (w.fail' msg).po c e H S := by
  unfold World.fail'
  cases e <;> cases he : w.err <;> simp [World.po, perr, he]

theorem po_emit (ev : Event U) : (w.po c e H S).emit ev = (w.emit ev).po c e H S := rfl

theorem po_logRec (r : LogRec U) : (w.po c e H S).logRec r = (w.logRec r).po c e H S := by
  unfold World.logRec
  show (if w.cfg.logging = true then _ else _) = _
  split <;> rfl

theorem po_ctlRequest (k : Kind) (d : Nat) (p : Option Nat) :
    (w.po c e H S).ctlRequest k d p = (w.ctlRequest k d p).po c e H S := by
  by_cases h1 : w.requests.length < w.cfg.queueCap <;>
  by_cases h2 : (k != Kind.schedule && (decide (d < w.regionStateId) || decide (w.regionStateId + w.regionSize ≤ d))) = true <;>
  simp only [World.ctlRequest, po_requests, po_queueCap, po_origin, h1, h2, if_true, if_false,
    Bool.false_eq_true] <;>
  (rw [← po_logRec] <;> rfl)

theorem po_act (cl : CtlClass) (a : Action U) (ha : a.plansFree = true) :
    World.act cl (w.po c e H S) a = (World.act cl w a).po c e H S := by
  cases a <;> simp only [Action.plansFree, Bool.false_eq_true] at ha <;> simp only [World.act, po_origin]
  case request k d p => split; exact po_ctlRequest ..; exact po_fail' ..
  case cancel => split; (rw [← po_logRec] <;> rfl); exact po_fail' ..
  case consume => split; rfl; exact po_fail' ..

theorem po_acts (cl : CtlClass) : (d : Decision U) → (w : World U) → Decision.plansFree d = true →
    d.foldl (World.act cl) (w.po c e H S) = (d.foldl (World.act cl) w).po c e H S
  | [], w, _ => rfl
  | a :: rest, w, hd => by
      simp only [Decision.plansFree, List.all_cons, Bool.and_eq_true] at hd
      simp only [List.foldl_cons, po_act c e H S w cl a hd.1]
      exact po_acts cl rest _ hd.2

variable {w}

theorem po_invoke (h : w.PI) (sid : Nat) (m : Method) (slot : Nat) :
    (w.po c e H S).invoke sid m slot = ((w.invoke sid m slot).1.po c e H S, (w.invoke sid m slot).2) := by
  simp only [World.invoke, po_ds]
  split
  · simp only [po_fail']
  · next d rest hds =>
    have hd : Decision.plansFree d = true := h.ds d (by rw [hds]; exact List.mem_cons_self)
    have h2 := po_acts c e H S m.cls d { w with ds := rest } hd
    show (World.emit (d.foldl (World.act m.cls) (World.po c e H S { w with ds := rest })) _, d) = _
    rw [h2, po_emit]

theorem po_invokeSlots (sid : Nat) (m : Method) : (l : List Nat) → {w : World U} → w.PI →
    (w.po c e H S).invokeSlots sid m l = (w.invokeSlots sid m l).po c e H S
  | [], _, _ => rfl
  | s :: rest, w, h => by
      simp only [World.invokeSlots, po_invoke c e H S h]
      exact po_invokeSlots sid m rest (h.invoke sid m s)

theorem po_stateMethod (h : w.PI) (sid inj : Nat) (headed : Bool) (m : Method) :
    (w.po c e H S).stateMethod sid inj headed m = (w.stateMethod sid inj headed m).po c e H S := by
  cases headed
  · simp only [World.stateMethod, Bool.false_or, Bool.false_eq_true, if_false]
    show (if w.cfg.verbose = true then _ else _) = _
    split
    · exact po_logRec ..
    · rfl
  · rw [stateMethod_headed, stateMethod_headed, po_logRec]
    have h1 : ({ w.logRec (.method sid m) with origin := some sid } : World U).PI :=
      (h.logRec _).of_eq rfl rfl rfl rfl
    have h2 := po_invokeSlots c e H S sid m (slotOrder inj m) h1
    exact congrArg (fun x : World U => { x with origin := (w.logRec (.method sid m)).origin }) h2

variable (w)

theorem po_pushRegion (rid hid size : Nat) :
    (w.po c e H S).pushRegion rid hid size = ((w.pushRegion rid hid size).1.po c e H S, (w.pushRegion rid hid size).2) := rfl

theorem po_popRegion (sv : Nat × Nat × Nat) : (w.po c e H S).popRegion sv = (w.popRegion sv).po c e H S := rfl

theorem po_pin (sid : Nat) (ix : Option Nat) : (w.po c e H S).pin sid ix = (w.pin sid ix).po c e H S := by
  cases ix with
  | none => rfl
  | some i =>
    unfold World.pin World.isActiveSnap
    show (if (w.cfg.history && !World.bit w.activeSnap sid) = true then _ else _) = _
    split <;> rfl

/-- with plans compiled out there is no `|=` into `headStatuses` -/
theorem po_orHead (rid : Nat) (s : TaskStatus) : (w.po false e H S).orHead rid s = (w.orHead rid s).po false e H S := by
  unfold World.orHead; cases w.cfg.plans <;> rfl

theorem po_orSub (rid : Nat) (s : TaskStatus) : (w.po false e H S).orSub rid s = (w.orSub rid s).po false e H S := by
  unfold World.orSub; cases w.cfg.plans <;> rfl

theorem po_setConsumed (b : Bool) :
    ({ w.po c e H S with consumed := b } : World U) = World.po c e H S { w with consumed := b } := rfl

variable {w}

theorem po_guardState (h : w.PI) (sid inj : Nat) (headed : Bool) (m : Method) :
    (w.po c e H S).guardState sid inj headed m =
      ((w.guardState sid inj headed m).1.po c e H S, (w.guardState sid inj headed m).2) := by
  simp only [World.guardState, po_stateMethod c e H S h]

theorem po_runState (h : w.PI) (sid inj : Nat) (headed : Bool) (m : Method) :
    (w.po c e H S).runState sid inj headed m =
      ((w.runState sid inj headed m).1.po c e H S, (w.runState sid inj headed m).2) := by
  simp only [World.runState, po_stateMethod c e H S h]

/-- clearing status bits that are not set -/
theorem clearBits_idle {x : World U} (h : x.PI) (sid : Nat) :
    ({ x with succ := World.clearBit x.succ sid, fail := World.clearBit x.fail sid } : World U) = x := by
  have h1 := h.su
  have h2 := h.fa
  cases x
  simp only at h1 h2
  subst h1 h2
  simp only [World.clearBit_zero]

/-- `S_::deepExit`: the handlers, then `clearTaskStatus` of a state that has none -/
theorem po_exitState (h : w.PI) (sid inj : Nat) (headed : Bool) :
    (w.po c e H S).exitState sid inj headed = (w.exitState sid inj headed).po c e H S := by
  have hx := h.stateMethod sid inj headed .exit
  have e1 : w.exitState sid inj headed = w.stateMethod sid inj headed .exit := by
    simp only [World.exitState]
    split
    · exact clearBits_idle hx sid
    · rfl
  have e2 : (w.po c e H S).exitState sid inj headed = (w.stateMethod sid inj headed .exit).po c e H S := by
    simp only [World.exitState, po_stateMethod c e H S h]
    split
    · have := clearBits_idle hx sid
      exact congrArg (World.po c e H S) this
    · rfl
  rw [e1, e2]

variable [UtilArith U]

theorem po_headUtility (h : w.PI) (sid inj : Nat) (headed : Bool) :
    (w.po c e H S).headUtility sid inj headed =
      ((w.headUtility sid inj headed).1.po c e H S, (w.headUtility sid inj headed).2) := by
  cases headed
  · simp only [World.headUtility, Bool.false_eq_true, if_false]
  · simp only [World.headUtility, if_true, po_logRec, po_invoke c e H S (h.logRec _)]
    split <;> simp only [po_fail']

theorem po_headUtilityWrap (h : w.PI) (sid inj : Nat) (headed : Bool) :
    (w.po c e H S).headUtilityWrap sid inj headed =
      ((w.headUtilityWrap sid inj headed).1.po c e H S, (w.headUtilityWrap sid inj headed).2) := by
  cases headed
  · simp only [World.headUtilityWrap, Bool.false_eq_true, if_false]
    show ((if w.cfg.verbose = true then _ else _), _) = _
    split
    · rw [po_logRec]
    · rfl
  · simp only [World.headUtilityWrap, if_true, po_headUtility c e H S h]

theorem po_headRank (h : w.PI) (sid inj : Nat) (headed : Bool) :
    (w.po c e H S).headRank sid inj headed =
      ((w.headRank sid inj headed).1.po c e H S, (w.headRank sid inj headed).2) := by
  cases headed
  · simp only [World.headRank, Bool.false_or, Bool.false_eq_true, if_false]
    show ((if w.cfg.verbose = true then _ else _), _) = _
    split
    · rw [po_logRec]
    · rfl
  · simp only [World.headRank, Bool.true_or, if_true, po_logRec, po_invoke c e H S (h.logRec _)]
    split <;> simp only [po_fail']

theorem po_headSelect (h : w.PI) (sid inj : Nat) (headed : Bool) :
    (w.po c e H S).headSelect sid inj headed =
      ((w.headSelect sid inj headed).1.po c e H S, (w.headSelect sid inj headed).2) := by
  cases headed
  · simp only [World.headSelect, Bool.false_or, Bool.false_eq_true, if_false]
    show ((if w.cfg.verbose = true then _ else _), _) = _
    split
    · rw [po_logRec]
    · rfl
  · simp only [World.headSelect, Bool.true_or, if_true, po_logRec, po_invoke c e H S (h.logRec _)]
    split <;> simp only [po_fail']

variable (w)

theorem po_resolveRandom (headId : Nat) (us : List U) (sum : U) (rks : List Int) (top : Int) :
    (w.po c e H S).resolveRandom headId us sum rks top =
      ((w.resolveRandom headId us sum rks top).1.po c e H S, (w.resolveRandom headId us sum rks top).2) := by
  simp only [World.resolveRandom, po_rng]
  cases hr : w.rng with
  | nil => simp only [po_fail']
  | cons rnd rest =>
    simp only []
    split
    · rw [← po_logRec] <;> rfl
    · rw [← po_fail'] <;> rfl

end World

/-! ### the tactic -/

/-- closes `World.PI (…)` side goals: the invariant of an intermediate world of a traversal -/
macro "pidisch" : tactic => `(tactic| pis [
  Node.entryGuard_PI _ _, Subs.entryGuardAt_PI _ _ _, Subs.entryGuardAll_PI _ _,
  Node.fwdEntryGuard_PI _ _, Subs.fwdEntryGuardAt_PI _ _ _, Subs.fwdEntryGuardBits_PI _ _, Subs.fwdEntryGuardAll_PI _ _,
  Node.exitGuard_PI _ _, Subs.exitGuardAt_PI _ _ _, Subs.exitGuardAll_PI _ _,
  Node.fwdExitGuard_PI _ _, Subs.fwdExitGuardAt_PI _ _ _, Subs.fwdExitGuardBits_PI _ _, Subs.fwdExitGuardAll_PI _ _,
  Node.enter_PI _ _, Subs.enterAt_PI _ _ _, Subs.enterAll_PI _ _,
  Node.exit_PI _ _, Subs.exitAt_PI _ _ _, Subs.exitAll_PI _ _,
  Node.reenter_PI _ _, Subs.reenterAt_PI _ _ _, Subs.reenterAll_PI _ _,
  Node.commit_PI _ _, Subs.commitAt_PI _ _ _, Subs.commitAll_PI _ _,
  Node.tick_PI _ _ _, Subs.tickAt_PI _ _ _ _, Subs.tickAll_PI _ _ _,
  Node.react_PI _ _ _ _ _, Subs.reactAt_PI _ _ _ _ _ _, Subs.reactAll_PI _ _ _ _ _,
  Node.query_PI _ _ _, Subs.queryAt_PI _ _ _ _, Subs.queryAll_PI _ _ _,
  Node.reportChange_PI _ _, Subs.reportChangeAt_PI _ _ _, Subs.reportChangeAll_PI _ _, Subs.reportChangeTop_PI _ _ _ _,
  Subs.reportRankAll_PI _ _,
  Node.reportUtilize_PI _ _, Subs.reportUtilizeAll_PI _ _,
  Node.reportRandomize_PI _ _, Subs.reportRandomizeAll_PI _ _, Subs.reportRandomizeTop_PI _ _ _ _,
  Node.request_PI _ _ _, Subs.requestAt_PI _ _ _ _, Subs.requestAll_PI _ _ _,
  Node.fwdRequest_PI _ _ _, Subs.fwdRequestAt_PI _ _ _ _, Subs.fwdRequestAll_PI _ _ _,
  Node.fwdActive_PI _ _ _, Subs.fwdActiveAt_PI _ _ _ _, Subs.fwdActiveBits_PI _ _ _,
  Node.updatePlans_PI _ _])

open World in
/-- push `po` outwards through the primitives and the given recursive calls -/
syntax "pocs " " [" Lean.Parser.Tactic.simpLemma,* "]" : tactic
open World in
macro_rules
  | `(tactic| pocs [$ts,*]) =>
    `(tactic| simp (disch := pidisch) only [po_fail', po_stateMethod, po_pushRegion, po_popRegion,
        po_guardState, po_runState, po_orHead, po_orSub, po_pin, po_exitState,
        po_headUtility, po_headUtilityWrap, po_headRank, po_headSelect, po_resolveRandom, po_logRec,
        po_consumed, po_cancelled, po_taskStatus, po_planExists, ↓reduceIte, Bool.false_eq_true, $ts,*])

/-- unfold one equation of traversal `f`, push `po` outwards, case-split the remaining conditionals and
push again -/
syntax "poc " ident " [" Lean.Parser.Tactic.simpLemma,* "]" : tactic
macro_rules
  | `(tactic| poc $f [$ts,*]) =>
    `(tactic| (pocs [$f:ident, $ts,*] <;> ((repeat' split) <;> (try simp only [*]) <;> (try pocs [$ts,*]) <;> (try simp_all))))

section trav
variable (c : Bool) (e : Option String) (H S : List TaskStatus)
open World

mutual
theorem Node.enter_po : (n : Node) → (w : World U) → w.PI →
    n.enter (w.po c e H S) = ((n.enter w).1, (n.enter w).2.po c e H S)
  | .leaf .., w, hI => by poc Node.enter []
  | .compo _ _ _ _ _ _ _ q _ s, w, hI => by cases q <;> poc Node.enter [Subs.enterAt_po s]
  | .ortho _ _ _ _ s, w, hI => by poc Node.enter [Subs.enterAll_po s]
theorem Subs.enterAt_po : (s : Subs) → (i : Nat) → (w : World U) → w.PI →
    s.enterAt i (w.po c e H S) = ((s.enterAt i w).1, (s.enterAt i w).2.po c e H S)
  | .nil, _, w, hI => by poc Subs.enterAt []
  | .cons _ n _, 0, w, hI => by poc Subs.enterAt [Node.enter_po n]
  | .cons _ _ rest, i+1, w, hI => by poc Subs.enterAt [Subs.enterAt_po rest]
theorem Subs.enterAll_po : (s : Subs) → (w : World U) → w.PI →
    s.enterAll (w.po c e H S) = ((s.enterAll w).1, (s.enterAll w).2.po c e H S)
  | .nil, w, hI => by poc Subs.enterAll []
  | .cons _ n rest, w, hI => by poc Subs.enterAll [Node.enter_po n, Subs.enterAll_po rest]
end

mutual
theorem Node.entryGuard_po : (n : Node) → (w : World U) → w.PI →
    n.entryGuard (w.po c e H S) = ((n.entryGuard w).1.po c e H S, (n.entryGuard w).2)
  | .leaf .., w, hI => by poc Node.entryGuard []
  | .compo _ _ _ _ _ _ _ q _ s, w, hI => by cases q <;> poc Node.entryGuard [Subs.entryGuardAt_po s]
  | .ortho _ _ _ _ s, w, hI => by poc Node.entryGuard [Subs.entryGuardAll_po s]
theorem Subs.entryGuardAt_po : (s : Subs) → (i : Nat) → (w : World U) → w.PI →
    s.entryGuardAt i (w.po c e H S) = ((s.entryGuardAt i w).1.po c e H S, (s.entryGuardAt i w).2)
  | .nil, _, w, hI => by poc Subs.entryGuardAt []
  | .cons _ n _, 0, w, hI => by poc Subs.entryGuardAt [Node.entryGuard_po n]
  | .cons _ _ rest, i+1, w, hI => by poc Subs.entryGuardAt [Subs.entryGuardAt_po rest]
theorem Subs.entryGuardAll_po : (s : Subs) → (w : World U) → w.PI →
    s.entryGuardAll (w.po c e H S) = ((s.entryGuardAll w).1.po c e H S, (s.entryGuardAll w).2)
  | .nil, w, hI => by poc Subs.entryGuardAll []
  | .cons _ n rest, w, hI => by poc Subs.entryGuardAll [Node.entryGuard_po n, Subs.entryGuardAll_po rest]
end

mutual
theorem Node.fwdEntryGuard_po : (n : Node) → (w : World U) → w.PI →
    n.fwdEntryGuard (w.po c e H S) = ((n.fwdEntryGuard w).1.po c e H S, (n.fwdEntryGuard w).2)
  | .leaf .., w, hI => by poc Node.fwdEntryGuard []
  | .compo _ _ _ _ _ a _ q _ s, w, hI => by
      cases q <;> cases a <;> poc Node.fwdEntryGuard [Subs.fwdEntryGuardAt_po s, Subs.entryGuardAt_po c e H S s]
  | .ortho _ _ _ _ s, w, hI => by poc Node.fwdEntryGuard [Subs.fwdEntryGuardBits_po s, Subs.fwdEntryGuardAll_po s]
theorem Subs.fwdEntryGuardAt_po : (s : Subs) → (i : Nat) → (w : World U) → w.PI →
    s.fwdEntryGuardAt i (w.po c e H S) = ((s.fwdEntryGuardAt i w).1.po c e H S, (s.fwdEntryGuardAt i w).2)
  | .nil, _, w, hI => by poc Subs.fwdEntryGuardAt []
  | .cons _ n _, 0, w, hI => by poc Subs.fwdEntryGuardAt [Node.fwdEntryGuard_po n]
  | .cons _ _ rest, i+1, w, hI => by poc Subs.fwdEntryGuardAt [Subs.fwdEntryGuardAt_po rest]
theorem Subs.fwdEntryGuardBits_po : (s : Subs) → (w : World U) → w.PI →
    s.fwdEntryGuardBits (w.po c e H S) = ((s.fwdEntryGuardBits w).1.po c e H S, (s.fwdEntryGuardBits w).2)
  | .nil, w, hI => by poc Subs.fwdEntryGuardBits []
  | .cons b n rest, w, hI => by
      cases b <;> poc Subs.fwdEntryGuardBits [Node.fwdEntryGuard_po n, Subs.fwdEntryGuardBits_po rest]
theorem Subs.fwdEntryGuardAll_po : (s : Subs) → (w : World U) → w.PI →
    s.fwdEntryGuardAll (w.po c e H S) = ((s.fwdEntryGuardAll w).1.po c e H S, (s.fwdEntryGuardAll w).2)
  | .nil, w, hI => by poc Subs.fwdEntryGuardAll []
  | .cons _ n rest, w, hI => by poc Subs.fwdEntryGuardAll [Node.fwdEntryGuard_po n, Subs.fwdEntryGuardAll_po rest]
end

mutual
theorem Node.exitGuard_po : (n : Node) → (w : World U) → w.PI →
    n.exitGuard (w.po c e H S) = ((n.exitGuard w).1.po c e H S, (n.exitGuard w).2)
  | .leaf .., w, hI => by poc Node.exitGuard []
  | .compo _ _ _ _ _ a _ _ _ s, w, hI => by cases a <;> poc Node.exitGuard [Subs.exitGuardAt_po s]
  | .ortho _ _ _ _ s, w, hI => by poc Node.exitGuard [Subs.exitGuardAll_po s]
theorem Subs.exitGuardAt_po : (s : Subs) → (i : Nat) → (w : World U) → w.PI →
    s.exitGuardAt i (w.po c e H S) = ((s.exitGuardAt i w).1.po c e H S, (s.exitGuardAt i w).2)
  | .nil, _, w, hI => by poc Subs.exitGuardAt []
  | .cons _ n _, 0, w, hI => by poc Subs.exitGuardAt [Node.exitGuard_po n]
  | .cons _ _ rest, i+1, w, hI => by poc Subs.exitGuardAt [Subs.exitGuardAt_po rest]
theorem Subs.exitGuardAll_po : (s : Subs) → (w : World U) → w.PI →
    s.exitGuardAll (w.po c e H S) = ((s.exitGuardAll w).1.po c e H S, (s.exitGuardAll w).2)
  | .nil, w, hI => by poc Subs.exitGuardAll []
  | .cons _ n rest, w, hI => by poc Subs.exitGuardAll [Node.exitGuard_po n, Subs.exitGuardAll_po rest]
end

mutual
theorem Node.fwdExitGuard_po : (n : Node) → (w : World U) → w.PI →
    n.fwdExitGuard (w.po c e H S) = ((n.fwdExitGuard w).1.po c e H S, (n.fwdExitGuard w).2)
  | .leaf .., w, hI => by poc Node.fwdExitGuard []
  | .compo _ _ _ _ _ a _ q _ s, w, hI => by
      cases q <;> cases a <;> poc Node.fwdExitGuard [Subs.fwdExitGuardAt_po s, Subs.exitGuardAt_po c e H S s]
  | .ortho _ _ _ _ s, w, hI => by poc Node.fwdExitGuard [Subs.fwdExitGuardBits_po s, Subs.fwdExitGuardAll_po s]
theorem Subs.fwdExitGuardAt_po : (s : Subs) → (i : Nat) → (w : World U) → w.PI →
    s.fwdExitGuardAt i (w.po c e H S) = ((s.fwdExitGuardAt i w).1.po c e H S, (s.fwdExitGuardAt i w).2)
  | .nil, _, w, hI => by poc Subs.fwdExitGuardAt []
  | .cons _ n _, 0, w, hI => by poc Subs.fwdExitGuardAt [Node.fwdExitGuard_po n]
  | .cons _ _ rest, i+1, w, hI => by poc Subs.fwdExitGuardAt [Subs.fwdExitGuardAt_po rest]
theorem Subs.fwdExitGuardBits_po : (s : Subs) → (w : World U) → w.PI →
    s.fwdExitGuardBits (w.po c e H S) = ((s.fwdExitGuardBits w).1.po c e H S, (s.fwdExitGuardBits w).2)
  | .nil, w, hI => by poc Subs.fwdExitGuardBits []
  | .cons b n rest, w, hI => by
      cases b <;> poc Subs.fwdExitGuardBits [Node.fwdExitGuard_po n, Subs.fwdExitGuardBits_po rest]
theorem Subs.fwdExitGuardAll_po : (s : Subs) → (w : World U) → w.PI →
    s.fwdExitGuardAll (w.po c e H S) = ((s.fwdExitGuardAll w).1.po c e H S, (s.fwdExitGuardAll w).2)
  | .nil, w, hI => by poc Subs.fwdExitGuardAll []
  | .cons _ n rest, w, hI => by poc Subs.fwdExitGuardAll [Node.fwdExitGuard_po n, Subs.fwdExitGuardAll_po rest]
end

mutual
theorem Node.exit_po : (n : Node) → (w : World U) → w.PI →
    n.exit (w.po c e H S) = ((n.exit w).1, (n.exit w).2.po c e H S)
  | .leaf .., w, hI => by poc Node.exit []
  | .compo _ _ _ _ _ a _ _ _ s, w, hI => by cases a <;> poc Node.exit [Subs.exitAt_po s]
  | .ortho _ _ _ _ s, w, hI => by poc Node.exit [Subs.exitAll_po s]
theorem Subs.exitAt_po : (s : Subs) → (i : Nat) → (w : World U) → w.PI →
    s.exitAt i (w.po c e H S) = ((s.exitAt i w).1, (s.exitAt i w).2.po c e H S)
  | .nil, _, w, hI => by poc Subs.exitAt []
  | .cons _ n _, 0, w, hI => by poc Subs.exitAt [Node.exit_po n]
  | .cons _ _ rest, i+1, w, hI => by poc Subs.exitAt [Subs.exitAt_po rest]
theorem Subs.exitAll_po : (s : Subs) → (w : World U) → w.PI →
    s.exitAll (w.po c e H S) = ((s.exitAll w).1, (s.exitAll w).2.po c e H S)
  | .nil, w, hI => by poc Subs.exitAll []
  | .cons _ n rest, w, hI => by poc Subs.exitAll [Node.exit_po n, Subs.exitAll_po rest]
end

mutual
theorem Node.reenter_po : (n : Node) → (w : World U) → w.PI →
    n.reenter (w.po c e H S) = ((n.reenter w).1, (n.reenter w).2.po c e H S)
  | .leaf .., w, hI => by poc Node.reenter []
  | .compo _ _ _ _ _ a _ q _ s, w, hI => by
      cases q <;> cases a <;> poc Node.reenter [Subs.reenterAt_po s, Subs.enterAt_po c e H S, Subs.exitAt_po c e H S s]
  | .ortho _ _ _ _ s, w, hI => by poc Node.reenter [Subs.reenterAll_po s]
theorem Subs.reenterAt_po : (s : Subs) → (i : Nat) → (w : World U) → w.PI →
    s.reenterAt i (w.po c e H S) = ((s.reenterAt i w).1, (s.reenterAt i w).2.po c e H S)
  | .nil, _, w, hI => by poc Subs.reenterAt []
  | .cons _ n _, 0, w, hI => by poc Subs.reenterAt [Node.reenter_po n]
  | .cons _ _ rest, i+1, w, hI => by poc Subs.reenterAt [Subs.reenterAt_po rest]
theorem Subs.reenterAll_po : (s : Subs) → (w : World U) → w.PI →
    s.reenterAll (w.po c e H S) = ((s.reenterAll w).1, (s.reenterAll w).2.po c e H S)
  | .nil, w, hI => by poc Subs.reenterAll []
  | .cons _ n rest, w, hI => by poc Subs.reenterAll [Node.reenter_po n, Subs.reenterAll_po rest]
end

mutual
theorem Node.commit_po : (n : Node) → (w : World U) → w.PI →
    n.commit (w.po c e H S) = ((n.commit w).1, (n.commit w).2.po c e H S)
  | .leaf .., w, hI => by poc Node.commit []
  | .compo _ _ _ _ _ a _ q _ s, w, hI => by
      cases q <;> cases a <;>
        poc Node.commit [Subs.commitAt_po s, Subs.reenterAt_po c e H S s, Subs.enterAt_po c e H S, Subs.exitAt_po c e H S s]
  | .ortho _ _ _ _ s, w, hI => by poc Node.commit [Subs.commitAll_po s]
theorem Subs.commitAt_po : (s : Subs) → (i : Nat) → (w : World U) → w.PI →
    s.commitAt i (w.po c e H S) = ((s.commitAt i w).1, (s.commitAt i w).2.po c e H S)
  | .nil, _, w, hI => by poc Subs.commitAt []
  | .cons _ n _, 0, w, hI => by poc Subs.commitAt [Node.commit_po n]
  | .cons _ _ rest, i+1, w, hI => by poc Subs.commitAt [Subs.commitAt_po rest]
theorem Subs.commitAll_po : (s : Subs) → (w : World U) → w.PI →
    s.commitAll (w.po c e H S) = ((s.commitAll w).1, (s.commitAll w).2.po c e H S)
  | .nil, w, hI => by poc Subs.commitAll []
  | .cons _ n rest, w, hI => by poc Subs.commitAll [Node.commit_po n, Subs.commitAll_po rest]
end

/-! ### Dispatch.lean -/

mutual
theorem Node.tick_po (ph : Method) : (n : Node) → (w : World U) → w.PI →
    n.tick ph (w.po false e H S) = ((n.tick ph w).1.po false e H S, (n.tick ph w).2)
  | .leaf .., w, hI => by poc Node.tick []
  | .compo _ _ _ _ _ a _ _ _ s, w, hI => by cases a <;> poc Node.tick [Subs.tickAt_po ph s]
  | .ortho _ _ _ _ s, w, hI => by poc Node.tick [Subs.tickAll_po ph s]
theorem Subs.tickAt_po (ph : Method) : (s : Subs) → (i : Nat) → (w : World U) → w.PI →
    s.tickAt ph i (w.po false e H S) = ((s.tickAt ph i w).1.po false e H S, (s.tickAt ph i w).2)
  | .nil, _, w, hI => by poc Subs.tickAt []
  | .cons _ n _, 0, w, hI => by poc Subs.tickAt [Node.tick_po ph n]
  | .cons _ _ rest, i+1, w, hI => by poc Subs.tickAt [Subs.tickAt_po ph rest]
theorem Subs.tickAll_po (ph : Method) : (s : Subs) → (w : World U) → w.PI →
    s.tickAll ph (w.po false e H S) = ((s.tickAll ph w).1.po false e H S, (s.tickAll ph w).2)
  | .nil, w, hI => by poc Subs.tickAll []
  | .cons _ n rest, w, hI => by poc Subs.tickAll [Node.tick_po ph n, Subs.tickAll_po ph rest]
end

mutual
theorem Node.react_po (ph : Method) (hf po : Bool) : (n : Node) → (w : World U) → w.PI →
    n.react ph hf po (w.po false e H S) = ((n.react ph hf po w).1.po false e H S, (n.react ph hf po w).2)
  | .leaf .., w, hI => by poc Node.react []
  | .compo _ _ _ _ _ a _ _ _ s, w, hI => by cases a <;> poc Node.react [Subs.reactAt_po ph hf po s]
  | .ortho _ _ _ _ s, w, hI => by poc Node.react [Subs.reactAll_po ph hf po s]
theorem Subs.reactAt_po (ph : Method) (hf po : Bool) : (s : Subs) → (i : Nat) → (w : World U) → w.PI →
    s.reactAt ph hf po i (w.po false e H S) = ((s.reactAt ph hf po i w).1.po false e H S, (s.reactAt ph hf po i w).2)
  | .nil, _, w, hI => by poc Subs.reactAt []
  | .cons _ n _, 0, w, hI => by poc Subs.reactAt [Node.react_po ph hf po n]
  | .cons _ _ rest, i+1, w, hI => by poc Subs.reactAt [Subs.reactAt_po ph hf po rest]
theorem Subs.reactAll_po (ph : Method) (hf po : Bool) : (s : Subs) → (w : World U) → w.PI →
    s.reactAll ph hf po (w.po false e H S) = ((s.reactAll ph hf po w).1.po false e H S, (s.reactAll ph hf po w).2)
  | .nil, w, hI => by poc Subs.reactAll []
  | .cons _ n rest, w, hI => by poc Subs.reactAll [Node.react_po ph hf po n, Subs.reactAll_po ph hf po rest]
end

mutual
theorem Node.query_po (hf : Bool) : (n : Node) → (w : World U) → w.PI →
    n.query hf (w.po c e H S) = (n.query hf w).po c e H S
  | .leaf .., w, hI => by poc Node.query []
  | .compo _ _ _ _ _ a _ _ _ s, w, hI => by cases hf <;> cases a <;> poc Node.query [Subs.queryAt_po _ s]
  | .ortho _ _ _ _ s, w, hI => by cases hf <;> poc Node.query [Subs.queryAll_po _ s]
theorem Subs.queryAt_po (hf : Bool) : (s : Subs) → (i : Nat) → (w : World U) → w.PI →
    s.queryAt hf i (w.po c e H S) = (s.queryAt hf i w).po c e H S
  | .nil, _, w, hI => by poc Subs.queryAt []
  | .cons _ n _, 0, w, hI => by poc Subs.queryAt [Node.query_po hf n]
  | .cons _ _ rest, i+1, w, hI => by poc Subs.queryAt [Subs.queryAt_po hf rest]
theorem Subs.queryAll_po (hf : Bool) : (s : Subs) → (w : World U) → w.PI →
    s.queryAll hf (w.po c e H S) = (s.queryAll hf w).po c e H S
  | .nil, w, hI => by poc Subs.queryAll []
  | .cons _ n rest, w, hI => by poc Subs.queryAll [Node.query_po hf n, Subs.queryAll_po hf rest]
end


section forward
variable [UtilArith U]

mutual
theorem Node.reportChange_po : (n : Node) → (w : World U) → w.PI →
    n.reportChange (w.po c e H S) = ((n.reportChange w).1, (n.reportChange w).2.1.po c e H S, (n.reportChange w).2.2)
  | .leaf .., w, hI => by poc Node.reportChange []
  | .compo _ _ _ _ st _ _ _ _ s, w, hI => by
      cases st <;> poc Node.reportChange [Subs.reportChangeAt_po s, Subs.reportChangeAll_po s,
        Subs.reportRankAll_po s, Subs.reportChangeTop_po s]
  | .ortho _ _ _ _ s, w, hI => by poc Node.reportChange [Subs.reportChangeAll_po s]
theorem Subs.reportChangeAt_po : (s : Subs) → (i : Nat) → (w : World U) → w.PI →
    s.reportChangeAt i (w.po c e H S) =
      ((s.reportChangeAt i w).1, (s.reportChangeAt i w).2.1.po c e H S, (s.reportChangeAt i w).2.2)
  | .nil, _, w, hI => by poc Subs.reportChangeAt []
  | .cons _ n _, 0, w, hI => by poc Subs.reportChangeAt [Node.reportChange_po n]
  | .cons _ _ rest, i+1, w, hI => by poc Subs.reportChangeAt [Subs.reportChangeAt_po rest]
theorem Subs.reportChangeAll_po : (s : Subs) → (w : World U) → w.PI →
    s.reportChangeAll (w.po c e H S) =
      ((s.reportChangeAll w).1, (s.reportChangeAll w).2.1.po c e H S, (s.reportChangeAll w).2.2)
  | .nil, w, hI => by poc Subs.reportChangeAll []
  | .cons _ n rest, w, hI => by poc Subs.reportChangeAll [Node.reportChange_po n, Subs.reportChangeAll_po rest]
theorem Subs.reportChangeTop_po : (s : Subs) → (rks : List Int) → (top : Int) → (w : World U) → w.PI →
    s.reportChangeTop rks top (w.po c e H S) =
      ((s.reportChangeTop rks top w).1, (s.reportChangeTop rks top w).2.1.po c e H S,
       (s.reportChangeTop rks top w).2.2)
  | .nil, _, _, w, hI => by poc Subs.reportChangeTop []
  | .cons _ n rest, rks, top, w, hI => by
      poc Subs.reportChangeTop [Node.reportChange_po n, Subs.reportChangeTop_po rest]
theorem Subs.reportRankAll_po : (s : Subs) → (w : World U) → w.PI →
    s.reportRankAll (w.po c e H S) = ((s.reportRankAll w).1.po c e H S, (s.reportRankAll w).2)
  | .nil, w, hI => by poc Subs.reportRankAll []
  | .cons _ n rest, w, hI => by cases n <;> poc Subs.reportRankAll [Subs.reportRankAll_po rest]
end

mutual
theorem Node.reportUtilize_po : (n : Node) → (w : World U) → w.PI →
    n.reportUtilize (w.po c e H S) = ((n.reportUtilize w).1, (n.reportUtilize w).2.1.po c e H S, (n.reportUtilize w).2.2)
  | .leaf .., w, hI => by poc Node.reportUtilize []
  | .compo _ _ _ _ _ _ _ _ _ s, w, hI => by poc Node.reportUtilize [Subs.reportUtilizeAll_po s]
  | .ortho _ _ _ _ s, w, hI => by poc Node.reportUtilize [Subs.reportUtilizeAll_po s]
theorem Subs.reportUtilizeAll_po : (s : Subs) → (w : World U) → w.PI →
    s.reportUtilizeAll (w.po c e H S) =
      ((s.reportUtilizeAll w).1, (s.reportUtilizeAll w).2.1.po c e H S, (s.reportUtilizeAll w).2.2)
  | .nil, w, hI => by poc Subs.reportUtilizeAll []
  | .cons _ n rest, w, hI => by poc Subs.reportUtilizeAll [Node.reportUtilize_po n, Subs.reportUtilizeAll_po rest]
end

mutual
theorem Node.reportRandomize_po : (n : Node) → (w : World U) → w.PI →
    n.reportRandomize (w.po c e H S) =
      ((n.reportRandomize w).1, (n.reportRandomize w).2.1.po c e H S, (n.reportRandomize w).2.2)
  | .leaf .., w, hI => by poc Node.reportRandomize []
  | .compo _ _ _ _ _ _ _ _ _ s, w, hI => by
      poc Node.reportRandomize [Subs.reportRankAll_po c e H S s, Subs.reportRandomizeTop_po s]
  | .ortho _ _ _ _ s, w, hI => by poc Node.reportRandomize [Subs.reportRandomizeAll_po s]
theorem Subs.reportRandomizeAll_po : (s : Subs) → (w : World U) → w.PI →
    s.reportRandomizeAll (w.po c e H S) =
      ((s.reportRandomizeAll w).1, (s.reportRandomizeAll w).2.1.po c e H S, (s.reportRandomizeAll w).2.2)
  | .nil, w, hI => by poc Subs.reportRandomizeAll []
  | .cons _ n rest, w, hI => by
      poc Subs.reportRandomizeAll [Node.reportRandomize_po n, Subs.reportRandomizeAll_po rest]
theorem Subs.reportRandomizeTop_po : (s : Subs) → (rks : List Int) → (top : Int) → (w : World U) → w.PI →
    s.reportRandomizeTop rks top (w.po c e H S) =
      ((s.reportRandomizeTop rks top w).1, (s.reportRandomizeTop rks top w).2.1.po c e H S,
       (s.reportRandomizeTop rks top w).2.2)
  | .nil, _, _, w, hI => by poc Subs.reportRandomizeTop []
  | .cons _ n rest, rks, top, w, hI => by
      poc Subs.reportRandomizeTop [Node.reportRandomize_po n, Subs.reportRandomizeTop_po rest]
end

mutual
theorem Node.request_po : (n : Node) → (rq : Req) → (w : World U) → w.PI →
    n.request rq (w.po c e H S) = ((n.request rq w).1, (n.request rq w).2.po c e H S)
  | .leaf .., rq, w, hI => by poc Node.request []
  | .ortho _ _ _ _ s, rq, w, hI => by poc Node.request [Subs.requestAll_po s]
  | .compo _ _ _ _ st _ _ _ _ s, rq, w, hI => by
      cases st <;> cases hk : rq.kind <;> simp only [Node.request, effectiveKind, hk] <;>
        poc Node.request [Subs.requestAt_po s, Subs.reportChangeAll_po c e H S s, Subs.reportUtilizeAll_po c e H S s,
          Subs.reportRankAll_po c e H S s, Subs.reportChangeTop_po c e H S s, Subs.reportRandomizeTop_po c e H S s]
theorem Subs.requestAt_po : (s : Subs) → (i : Nat) → (rq : Req) → (w : World U) → w.PI →
    s.requestAt i rq (w.po c e H S) = ((s.requestAt i rq w).1, (s.requestAt i rq w).2.po c e H S)
  | .nil, _, _, w, hI => by poc Subs.requestAt []
  | .cons _ n _, 0, rq, w, hI => by poc Subs.requestAt [Node.request_po n]
  | .cons _ _ rest, i+1, rq, w, hI => by poc Subs.requestAt [Subs.requestAt_po rest]
theorem Subs.requestAll_po : (s : Subs) → (rq : Req) → (w : World U) → w.PI →
    s.requestAll rq (w.po c e H S) = ((s.requestAll rq w).1, (s.requestAll rq w).2.po c e H S)
  | .nil, _, w, hI => by poc Subs.requestAll []
  | .cons _ n rest, rq, w, hI => by poc Subs.requestAll [Node.request_po n, Subs.requestAll_po rest]
end

mutual
theorem Node.fwdRequest_po : (n : Node) → (rq : Req) → (w : World U) → w.PI →
    n.fwdRequest rq (w.po c e H S) = ((n.fwdRequest rq w).1, (n.fwdRequest rq w).2.po c e H S)
  | .leaf .., rq, w, hI => by poc Node.fwdRequest []
  | .compo id rid inj h st a rs q m s, rq, w, hI => by
      cases q <;> poc Node.fwdRequest [Subs.fwdRequestAt_po s, Node.request_po c e H S]
  | .ortho id rid inj h s, rq, w, hI => by
      poc Node.fwdRequest [Subs.fwdRequestAll_po s, Node.request_po c e H S]
theorem Subs.fwdRequestAt_po : (s : Subs) → (i : Nat) → (rq : Req) → (w : World U) → w.PI →
    s.fwdRequestAt i rq (w.po c e H S) = ((s.fwdRequestAt i rq w).1, (s.fwdRequestAt i rq w).2.po c e H S)
  | .nil, _, _, w, hI => by poc Subs.fwdRequestAt []
  | .cons _ n _, 0, rq, w, hI => by poc Subs.fwdRequestAt [Node.fwdRequest_po n]
  | .cons _ _ rest, i+1, rq, w, hI => by poc Subs.fwdRequestAt [Subs.fwdRequestAt_po rest]
theorem Subs.fwdRequestAll_po : (s : Subs) → (rq : Req) → (w : World U) → w.PI →
    s.fwdRequestAll rq (w.po c e H S) = ((s.fwdRequestAll rq w).1, (s.fwdRequestAll rq w).2.po c e H S)
  | .nil, _, w, hI => by poc Subs.fwdRequestAll []
  | .cons _ n rest, rq, w, hI => by poc Subs.fwdRequestAll [Node.fwdRequest_po n, Subs.fwdRequestAll_po rest]
end

mutual
theorem Node.fwdActive_po : (n : Node) → (rq : Req) → (w : World U) → w.PI →
    n.fwdActive rq (w.po c e H S) = ((n.fwdActive rq w).1, (n.fwdActive rq w).2.po c e H S)
  | .leaf .., rq, w, hI => by poc Node.fwdActive []
  | .compo _ _ _ _ _ a _ q _ s, rq, w, hI => by
      cases q <;> cases a <;> poc Node.fwdActive [Subs.fwdActiveAt_po s, Subs.fwdRequestAt_po c e H S s]
  | .ortho _ _ _ _ s, rq, w, hI => by poc Node.fwdActive [Subs.fwdActiveBits_po s]
theorem Subs.fwdActiveAt_po : (s : Subs) → (i : Nat) → (rq : Req) → (w : World U) → w.PI →
    s.fwdActiveAt i rq (w.po c e H S) = ((s.fwdActiveAt i rq w).1, (s.fwdActiveAt i rq w).2.po c e H S)
  | .nil, _, _, w, hI => by poc Subs.fwdActiveAt []
  | .cons _ n _, 0, rq, w, hI => by poc Subs.fwdActiveAt [Node.fwdActive_po n]
  | .cons _ _ rest, i+1, rq, w, hI => by poc Subs.fwdActiveAt [Subs.fwdActiveAt_po rest]
theorem Subs.fwdActiveBits_po : (s : Subs) → (rq : Req) → (w : World U) → w.PI →
    s.fwdActiveBits rq (w.po c e H S) = ((s.fwdActiveBits rq w).1, (s.fwdActiveBits rq w).2.po c e H S)
  | .nil, _, w, hI => by poc Subs.fwdActiveBits []
  | .cons b n rest, rq, w, hI => by
      cases b <;> poc Subs.fwdActiveBits [Node.fwdActive_po n, Subs.fwdActiveBits_po rest]
end


end forward

end trav

/-! ### `deepUpdatePlans` with no plan -/

section plans
variable [UtilArith U]

/-- restoring the region registers that were just saved, and clearing a clear `_taskStatus` -/
theorem World.pushPop_idle (w : World U) (rid hid size : Nat) (h : w.taskStatus = {}) :
    (w.pushRegion rid hid size).1.popRegion (w.pushRegion rid hid size).2 = w := by
  cases w
  simp only at h
  subst h
  rfl

theorem World.setErr_setErr (w : World U) (a b : Option String) :
    ({ ({ w with err := a } : World U) with err := b } : World U) = { w with err := b } := rfl

mutual
/-- While no plan exists and `_taskStatus` is clear, `deepUpdatePlans` changes nothing but the model's
contract-violation flag (set when it is sent through an inactive region). -/
theorem Node.updatePlans_idle : (n : Node) → (w : World U) → w.planExists = 0 → w.taskStatus = {} →
    (n.updatePlans w).1 = { w with err := (n.updatePlans w).1.err }
  | .leaf .., w, _, _ => by simp only [Node.updatePlans]
  | .compo id rid inj h st a r q m s, w, hp, ht => by
      cases a with
      | none =>
        simp only [Node.updatePlans]
        unfold World.fail'; split <;> rfl
      | some ai =>
        simp only [Node.updatePlans]
        have ih := Subs.updatePlansAt_idle s ai w hp ht
        generalize s.updatePlansAt ai w = res at ih
        obtain ⟨w1, sub⟩ := res
        simp only [] at ih ⊢
        have hp1 : w1.planExists = 0 := by rw [ih]; exact hp
        have ht1 : w1.taskStatus = {} := by rw [ih]; exact ht
        split
        · exact ih
        · split
          · exact ih
          · have hb : World.bit (w1.pushRegion rid id (1 + s.size)).1.planExists rid = false := by
              show World.bit w1.planExists rid = false
              rw [hp1]; exact bit_zero_rp _
            simp only [hb, Bool.and_false, Bool.false_eq_true, ↓reduceIte]
            rw [World.pushPop_idle w1 rid id (1 + s.size) ht1]
            exact ih
  | .ortho id rid inj h s, w, hp, ht => by
      simp only [Node.updatePlans]
      have ih := Subs.updatePlansAll_idle s w hp ht
      generalize s.updatePlansAll w = res at ih
      obtain ⟨w1, sub⟩ := res
      simp only [] at ih ⊢
      have hp1 : w1.planExists = 0 := by rw [ih]; exact hp
      have ht1 : w1.taskStatus = {} := by rw [ih]; exact ht
      split
      · exact ih
      · split
        · exact ih
        · have hb : World.bit (w1.pushRegion rid id (1 + s.size)).1.planExists rid = false := by
            show World.bit w1.planExists rid = false
            rw [hp1]; exact bit_zero_rp _
          simp only [hb, Bool.and_false, Bool.false_eq_true, ↓reduceIte]
          rw [World.pushPop_idle w1 rid id (1 + s.size) ht1]
          exact ih
theorem Subs.updatePlansAt_idle : (s : Subs) → (i : Nat) → (w : World U) → w.planExists = 0 → w.taskStatus = {} →
    (s.updatePlansAt i w).1 = { w with err := (s.updatePlansAt i w).1.err }
  | .nil, _, w, _, _ => by
      simp only [Subs.updatePlansAt]
      unfold World.fail'; split <;> rfl
  | .cons _ n _, 0, w, hp, ht => by simp only [Subs.updatePlansAt]; exact Node.updatePlans_idle n w hp ht
  | .cons _ _ r, i+1, w, hp, ht => by simp only [Subs.updatePlansAt]; exact Subs.updatePlansAt_idle r i w hp ht
theorem Subs.updatePlansAll_idle : (s : Subs) → (w : World U) → w.planExists = 0 → w.taskStatus = {} →
    (s.updatePlansAll w).1 = { w with err := (s.updatePlansAll w).1.err }
  | .nil, w, _, _ => by simp only [Subs.updatePlansAll]
  | .cons _ n r, w, hp, ht => by
      simp only [Subs.updatePlansAll]
      have h1 := Node.updatePlans_idle n w hp ht
      have h2 := Subs.updatePlansAll_idle r (n.updatePlans w).1 (by rw [h1]; exact hp) (by rw [h1]; exact ht)
      generalize (n.updatePlans w).1 = w1 at h1 h2 ⊢
      generalize (r.updatePlansAll w1).1 = w2 at h2 ⊢
      have h3 : ({ w1 with err := w2.err } : World U) = { w with err := w2.err } := by rw [h1]
      exact h2.trans h3
end

/-- a region's update / react pass leaves `_taskStatus` clear (`PlanControlT::Region`'s destructor) -/
theorem Node.tick_taskStatus (ph : Method) (n : Node) (w : World U) (hl : ∀ id inj, n ≠ .leaf id inj)
    (ht : w.taskStatus = {}) : (n.tick ph w).1.taskStatus = {} := by
  cases n with
  | leaf id inj => exact absurd rfl (hl id inj)
  | compo id rid inj h st a r q m s =>
    cases a with
    | none => simp only [Node.tick]; unfold World.fail'; split <;> exact ht
    | some ai => simp only [Node.tick]; split <;> rfl
  | ortho id rid inj h s => simp only [Node.tick]; split <;> rfl

theorem Node.react_taskStatus (ph : Method) (hf po : Bool) (n : Node) (w : World U)
    (hl : ∀ id inj, n ≠ .leaf id inj) (ht : w.taskStatus = {}) : (n.react ph hf po w).1.taskStatus = {} := by
  cases n with
  | leaf id inj => exact absurd rfl (hl id inj)
  | compo id rid inj h st a r q m s =>
    cases a with
    | none => simp only [Node.react]; unfold World.fail'; split <;> exact ht
    | some ai => simp only [Node.react]; (repeat' split) <;> rfl
  | ortho id rid inj h s => simp only [Node.react]; (repeat' split) <;> rfl

end plans

end Hfsm
