/-
The lifecycle passes on the registry (`exit`, `enter`, `reenter`, `commit` = `deepExit`, `deepEnter`,
`deepReenter`, `deepChangeToRequested`), through their pure tree halves of Proofs/CommitTree.lean:

  exit     Act n                 →  Clean (exit n);   request marks untouched
  enter    Clean n ∧ Res n       →  Act (enter n) ∧ COK (enter n)
  reenter  Act n ∧ Res n         →  Act ∧ COK
  commit   Act n ∧ COK n         →  Act ∧ COK
  all four keep the structure (`view false false false`) and `ResumableOK`.

The world never influences the resulting tree (`Node.enter_fst` …), so every statement holds for all
worlds, i.e. whatever the callbacks do.
-/
import Hfsm.Proofs.RegistryView

set_option linter.unusedSimpArgs false

namespace Hfsm
variable {U : Type}

theorem Subs.actAt_lt : (s : Subs) → (i : Nat) → s.ActAt i → i < s.len
  | .nil, _, h => by simp [Subs.ActAt] at h
  | .cons _ _ _, 0, _ => by simp [Subs.len]
  | .cons _ _ r, i+1, h => by
      simp only [Subs.ActAt] at h
      have := Subs.actAt_lt r i h.2
      simp only [Subs.len]; omega

theorem Subs.resAt_lt : (s : Subs) → (i : Nat) → s.ResAt i → i < s.len
  | .nil, _, h => by simp [Subs.ResAt] at h
  | .cons _ _ _, 0, _ => by simp [Subs.len]
  | .cons _ _ r, i+1, h => by
      simp only [Subs.ResAt] at h
      have := Subs.resAt_lt r i h
      simp only [Subs.len]; omega

/-! ### structure -/

theorem Subs.enterAtT_len : (s : Subs) → (i : Nat) → (s.enterAtT i).len = s.len
  | .nil, _ => rfl
  | .cons _ _ _, 0 => rfl
  | .cons _ _ r, i+1 => by simp [Subs.enterAtT, Subs.len, Subs.enterAtT_len r i]
theorem Subs.exitAtT_len : (s : Subs) → (i : Nat) → (s.exitAtT i).len = s.len
  | .nil, _ => rfl
  | .cons _ _ _, 0 => rfl
  | .cons _ _ r, i+1 => by simp [Subs.exitAtT, Subs.len, Subs.exitAtT_len r i]
theorem Subs.reenterAtT_len : (s : Subs) → (i : Nat) → (s.reenterAtT i).len = s.len
  | .nil, _ => rfl
  | .cons _ _ _, 0 => rfl
  | .cons _ _ r, i+1 => by simp [Subs.reenterAtT, Subs.len, Subs.reenterAtT_len r i]
theorem Subs.commitAtT_len : (s : Subs) → (i : Nat) → (s.commitAtT i).len = s.len
  | .nil, _ => rfl
  | .cons _ _ _, 0 => rfl
  | .cons _ _ r, i+1 => by simp [Subs.commitAtT, Subs.len, Subs.commitAtT_len r i]

mutual
theorem Node.exitT_view : (n : Node) → n.exitT.view false false true = n.view false false true
  | .leaf .. => rfl
  | .compo id rid inj h st a r q m s => by
      cases a with
      | none => rfl
      | some ai => simp [Node.exitT, Node.view, Subs.exitAtT_view s ai]
  | .ortho id rid inj h s => by simp [Node.exitT, Node.view, Subs.exitAllT_view s]
theorem Subs.exitAtT_view : (s : Subs) → (i : Nat) → (s.exitAtT i).viewAll false false true = s.viewAll false false true
  | .nil, _ => rfl
  | .cons b n r, 0 => by simp [Subs.exitAtT, Subs.viewAll, Node.exitT_view n]
  | .cons b n r, i+1 => by simp [Subs.exitAtT, Subs.viewAll, Subs.exitAtT_view r i]
theorem Subs.exitAllT_view : (s : Subs) → s.exitAllT.viewAll false false true = s.viewAll false false true
  | .nil => rfl
  | .cons b n r => by simp [Subs.exitAllT, Subs.viewAll, Node.exitT_view n, Subs.exitAllT_view r]
end

theorem Subs.exitAtT_view0 (s : Subs) (i : Nat) : (s.exitAtT i).viewAll false false false = s.viewAll false false false := by
  have := congrArg (Subs.viewAll false false false) (Subs.exitAtT_view s i)
  simpa [Subs.viewAll_viewAll] using this

mutual
theorem Node.enterT_view : (n : Node) → n.enterT.view false false false = n.view false false false
  | .leaf .. => rfl
  | .compo id rid inj h st a r q m s => by
      cases q with
      | none => simp [Node.enterT, Node.view]
      | some qi => simp [Node.enterT, Node.view, Subs.enterAtT_view s qi]
  | .ortho id rid inj h s => by simp [Node.enterT, Node.view, Subs.enterAllT_view s]
theorem Subs.enterAtT_view : (s : Subs) → (i : Nat) → (s.enterAtT i).viewAll false false false = s.viewAll false false false
  | .nil, _ => rfl
  | .cons b n r, 0 => by simp [Subs.enterAtT, Subs.viewAll, Node.enterT_view n]
  | .cons b n r, i+1 => by simp [Subs.enterAtT, Subs.viewAll, Subs.enterAtT_view r i]
theorem Subs.enterAllT_view : (s : Subs) → s.enterAllT.viewAll false false false = s.viewAll false false false
  | .nil => rfl
  | .cons b n r => by simp [Subs.enterAllT, Subs.viewAll, Node.enterT_view n, Subs.enterAllT_view r]
end

mutual
theorem Node.reenterT_view : (n : Node) → n.reenterT.view false false false = n.view false false false
  | .leaf .. => rfl
  | .compo id rid inj h st a r q m s => by
      cases a with
      | none => simp [Node.reenterT, Node.view]
      | some ai =>
        cases q with
        | none => simp [Node.reenterT, Node.view]
        | some qi =>
          simp only [Node.reenterT]
          split
          · simp [Node.view, Subs.reenterAtT_view s ai]
          · simp [Node.view, Subs.enterAtT_view, Subs.exitAtT_view0]
  | .ortho id rid inj h s => by simp [Node.reenterT, Node.view, Subs.reenterAllT_view s]
theorem Subs.reenterAtT_view : (s : Subs) → (i : Nat) → (s.reenterAtT i).viewAll false false false = s.viewAll false false false
  | .nil, _ => rfl
  | .cons b n r, 0 => by simp [Subs.reenterAtT, Subs.viewAll, Node.reenterT_view n]
  | .cons b n r, i+1 => by simp [Subs.reenterAtT, Subs.viewAll, Subs.reenterAtT_view r i]
theorem Subs.reenterAllT_view : (s : Subs) → s.reenterAllT.viewAll false false false = s.viewAll false false false
  | .nil => rfl
  | .cons b n r => by simp [Subs.reenterAllT, Subs.viewAll, Node.reenterT_view n, Subs.reenterAllT_view r]
end

mutual
theorem Node.commitT_view : (n : Node) → n.commitT.view false false false = n.view false false false
  | .leaf .. => rfl
  | .compo id rid inj h st a r q m s => by
      cases a with
      | none => simp [Node.commitT, Node.view]
      | some ai =>
        cases q with
        | none => simp [Node.commitT, Node.view, Subs.commitAtT_view s ai]
        | some qi =>
          simp only [Node.commitT]
          split
          · simp [Node.view, Subs.enterAtT_view, Subs.exitAtT_view0]
          · split
            · simp [Node.view, Subs.enterAtT_view, Subs.exitAtT_view0]
            · simp [Node.view, Subs.reenterAtT_view]
  | .ortho id rid inj h s => by simp [Node.commitT, Node.view, Subs.commitAllT_view s]
theorem Subs.commitAtT_view : (s : Subs) → (i : Nat) → (s.commitAtT i).viewAll false false false = s.viewAll false false false
  | .nil, _ => rfl
  | .cons b n r, 0 => by simp [Subs.commitAtT, Subs.viewAll, Node.commitT_view n]
  | .cons b n r, i+1 => by simp [Subs.commitAtT, Subs.viewAll, Subs.commitAtT_view r i]
theorem Subs.commitAllT_view : (s : Subs) → s.commitAllT.viewAll false false false = s.viewAll false false false
  | .nil => rfl
  | .cons b n r => by simp [Subs.commitAllT, Subs.viewAll, Node.commitT_view n, Subs.commitAllT_view r]
end

/-! ### exit -/

mutual
theorem Node.exitT_clean : (n : Node) → n.Act → n.exitT.Clean
  | .leaf .., _ => trivial
  | .compo id rid inj h st a r q m s, ha => by
      cases a with
      | none => simp [Node.Act] at ha
      | some ai =>
        simp only [Node.Act] at ha
        simp only [Node.exitT, Node.Clean, true_and]
        exact Subs.exitAtT_clean s ai ha
  | .ortho id rid inj h s, ha => by
      simp only [Node.Act] at ha
      simp only [Node.exitT, Node.Clean]
      exact Subs.exitAllT_clean s ha
theorem Subs.exitAtT_clean : (s : Subs) → (i : Nat) → s.ActAt i → (s.exitAtT i).CleanAll
  | .nil, _, h => by simp [Subs.ActAt] at h
  | .cons b n r, 0, h => by
      simp only [Subs.ActAt] at h
      simp only [Subs.exitAtT, Subs.CleanAll]
      exact ⟨Node.exitT_clean n h.1, h.2⟩
  | .cons b n r, i+1, h => by
      simp only [Subs.ActAt] at h
      simp only [Subs.exitAtT, Subs.CleanAll]
      exact ⟨h.1, Subs.exitAtT_clean r i h.2⟩
theorem Subs.exitAllT_clean : (s : Subs) → s.ActAll → s.exitAllT.CleanAll
  | .nil, _ => trivial
  | .cons b n r, h => by
      simp only [Subs.ActAll] at h
      simp only [Subs.exitAllT, Subs.CleanAll]
      exact ⟨Node.exitT_clean n h.1, Subs.exitAllT_clean r h.2⟩
end

theorem Subs.exitAtT_resAt (s : Subs) (i j : Nat) (h : s.ResAt j) : (s.exitAtT i).ResAt j := by
  have := (Subs.viewAll_res false false (s.exitAtT i)).2 j
  rw [Subs.exitAtT_view] at this
  exact this.mp ((Subs.viewAll_res false false s).2 j |>.mpr h)

mutual
theorem Node.exitT_resumableOK : (n : Node) → n.Act → n.ResumableOK → n.exitT.ResumableOK
  | .leaf .., _, _ => trivial
  | .compo id rid inj h st a r q m s, ha, hr => by
      cases a with
      | none => simp [Node.Act] at ha
      | some ai =>
        simp only [Node.Act] at ha
        simp only [Node.ResumableOK] at hr
        simp only [Node.exitT, Node.ResumableOK, Subs.exitAtT_len]
        exact ⟨Subs.actAt_lt s ai ha, Subs.exitAtT_resumableOK s ai ha hr.2⟩
  | .ortho id rid inj h s, ha, hr => by
      simp only [Node.Act] at ha
      simp only [Node.ResumableOK] at hr
      simp only [Node.exitT, Node.ResumableOK]
      exact Subs.exitAllT_resumableOK s ha hr
theorem Subs.exitAtT_resumableOK : (s : Subs) → (i : Nat) → s.ActAt i → s.ResumableOKAll → (s.exitAtT i).ResumableOKAll
  | .nil, _, h, _ => by simp [Subs.ActAt] at h
  | .cons b n r, 0, h, hr => by
      simp only [Subs.ActAt] at h
      simp only [Subs.ResumableOKAll] at hr
      simp only [Subs.exitAtT, Subs.ResumableOKAll]
      exact ⟨Node.exitT_resumableOK n h.1 hr.1, hr.2⟩
  | .cons b n r, i+1, h, hr => by
      simp only [Subs.ActAt] at h
      simp only [Subs.ResumableOKAll] at hr
      simp only [Subs.exitAtT, Subs.ResumableOKAll]
      exact ⟨hr.1, Subs.exitAtT_resumableOK r i h.2 hr.2⟩
theorem Subs.exitAllT_resumableOK : (s : Subs) → s.ActAll → s.ResumableOKAll → s.exitAllT.ResumableOKAll
  | .nil, _, _ => trivial
  | .cons b n r, h, hr => by
      simp only [Subs.ActAll] at h
      simp only [Subs.ResumableOKAll] at hr
      simp only [Subs.exitAllT, Subs.ResumableOKAll]
      exact ⟨Node.exitT_resumableOK n h.1 hr.1, Subs.exitAllT_resumableOK r h.2 hr.2⟩
end

/-! ### enter -/

mutual
theorem Node.enterT_act : (n : Node) → n.Clean → n.Res → n.enterT.Act ∧ n.enterT.COK
  | .leaf .., _, _ => ⟨trivial, trivial⟩
  | .compo id rid inj h st a r q m s, hc, hr => by
      cases q with
      | none => simp [Node.Res] at hr
      | some qi =>
        simp only [Node.Res] at hr
        simp only [Node.Clean] at hc
        simp only [Node.enterT, Node.Act, Node.COK]
        exact Subs.enterAtT_act s qi hc.2 hr
  | .ortho id rid inj h s, hc, hr => by
      simp only [Node.Res] at hr
      simp only [Node.Clean] at hc
      simp only [Node.enterT, Node.Act, Node.COK]
      exact Subs.enterAllT_act s hc hr
theorem Subs.enterAtT_act : (s : Subs) → (i : Nat) → s.CleanAll → s.ResAt i →
    (s.enterAtT i).ActAt i ∧ (s.enterAtT i).COKAt i
  | .nil, _, _, h => by simp [Subs.ResAt] at h
  | .cons b n r, 0, hc, h => by
      simp only [Subs.ResAt] at h
      simp only [Subs.CleanAll] at hc
      have := Node.enterT_act n hc.1 h
      simp only [Subs.enterAtT, Subs.ActAt, Subs.COKAt]
      exact ⟨⟨this.1, hc.2⟩, this.2⟩
  | .cons b n r, i+1, hc, h => by
      simp only [Subs.ResAt] at h
      simp only [Subs.CleanAll] at hc
      have := Subs.enterAtT_act r i hc.2 h
      simp only [Subs.enterAtT, Subs.ActAt, Subs.COKAt]
      exact ⟨⟨hc.1, this.1⟩, this.2⟩
theorem Subs.enterAllT_act : (s : Subs) → s.CleanAll → s.ResAll → s.enterAllT.ActAll ∧ s.enterAllT.COKAll
  | .nil, _, _ => ⟨trivial, trivial⟩
  | .cons b n r, hc, h => by
      simp only [Subs.ResAll] at h
      simp only [Subs.CleanAll] at hc
      have h1 := Node.enterT_act n hc.1 h.1
      have h2 := Subs.enterAllT_act r hc.2 h.2
      simp only [Subs.enterAllT, Subs.ActAll, Subs.COKAll]
      exact ⟨⟨h1.1, h2.1⟩, h1.2, h2.2⟩
end

mutual
theorem Node.enterT_resumableOK : (n : Node) → n.ResumableOK → n.enterT.ResumableOK
  | .leaf .., _ => trivial
  | .compo id rid inj h st a r q m s, hr => by
      simp only [Node.ResumableOK] at hr
      cases q with
      | none => simpa [Node.enterT, Node.ResumableOK] using hr
      | some qi =>
        simp only [Node.enterT, Node.ResumableOK, Subs.enterAtT_len]
        refine ⟨?_, Subs.enterAtT_resumableOK s qi hr.2⟩
        by_cases e : some qi = r
        · simp [e]
        · simpa [e] using hr.1
  | .ortho id rid inj h s, hr => by
      simp only [Node.ResumableOK] at hr
      simp only [Node.enterT, Node.ResumableOK]
      exact Subs.enterAllT_resumableOK s hr
theorem Subs.enterAtT_resumableOK : (s : Subs) → (i : Nat) → s.ResumableOKAll → (s.enterAtT i).ResumableOKAll
  | .nil, _, _ => trivial
  | .cons b n r, 0, hr => by
      simp only [Subs.ResumableOKAll] at hr
      simp only [Subs.enterAtT, Subs.ResumableOKAll]
      exact ⟨Node.enterT_resumableOK n hr.1, hr.2⟩
  | .cons b n r, i+1, hr => by
      simp only [Subs.ResumableOKAll] at hr
      simp only [Subs.enterAtT, Subs.ResumableOKAll]
      exact ⟨hr.1, Subs.enterAtT_resumableOK r i hr.2⟩
theorem Subs.enterAllT_resumableOK : (s : Subs) → s.ResumableOKAll → s.enterAllT.ResumableOKAll
  | .nil, _ => trivial
  | .cons b n r, hr => by
      simp only [Subs.ResumableOKAll] at hr
      simp only [Subs.enterAllT, Subs.ResumableOKAll]
      exact ⟨Node.enterT_resumableOK n hr.1, Subs.enterAllT_resumableOK r hr.2⟩
end

/-- exit the active sub-state, enter another (or the same) one -/
theorem Subs.switchT_act (s : Subs) (i j : Nat) (ha : s.ActAt i) (hr : s.ResAt j) :
    ((s.exitAtT i).enterAtT j).ActAt j ∧ ((s.exitAtT i).enterAtT j).COKAt j :=
  Subs.enterAtT_act _ j (Subs.exitAtT_clean s i ha) (Subs.exitAtT_resAt s i j hr)

theorem Subs.switchT_resumableOK (s : Subs) (i j : Nat) (ha : s.ActAt i) (hr : s.ResumableOKAll) :
    ((s.exitAtT i).enterAtT j).ResumableOKAll :=
  Subs.enterAtT_resumableOK _ j (Subs.exitAtT_resumableOK s i ha hr)

/-! ### reenter -/

mutual
theorem Node.reenterT_act : (n : Node) → n.Act → n.Res → n.reenterT.Act ∧ n.reenterT.COK
  | .leaf .., _, _ => ⟨trivial, trivial⟩
  | .compo id rid inj h st a r q m s, ha, hr => by
      cases a with
      | none => simp [Node.Act] at ha
      | some ai =>
        cases q with
        | none => simp [Node.Res] at hr
        | some qi =>
          simp only [Node.Act] at ha
          simp only [Node.Res] at hr
          simp only [Node.reenterT]
          split
          · next e =>
            subst e
            simp only [Node.Act, Node.COK]
            exact Subs.reenterAtT_act s ai ha hr
          · simp only [Node.Act, Node.COK]
            exact Subs.switchT_act s ai qi ha hr
  | .ortho id rid inj h s, ha, hr => by
      simp only [Node.Act] at ha
      simp only [Node.Res] at hr
      simp only [Node.reenterT, Node.Act, Node.COK]
      exact Subs.reenterAllT_act s ha hr
theorem Subs.reenterAtT_act : (s : Subs) → (i : Nat) → s.ActAt i → s.ResAt i →
    (s.reenterAtT i).ActAt i ∧ (s.reenterAtT i).COKAt i
  | .nil, _, h, _ => by simp [Subs.ActAt] at h
  | .cons b n r, 0, ha, hr => by
      simp only [Subs.ActAt] at ha
      simp only [Subs.ResAt] at hr
      have := Node.reenterT_act n ha.1 hr
      simp only [Subs.reenterAtT, Subs.ActAt, Subs.COKAt]
      exact ⟨⟨this.1, ha.2⟩, this.2⟩
  | .cons b n r, i+1, ha, hr => by
      simp only [Subs.ActAt] at ha
      simp only [Subs.ResAt] at hr
      have := Subs.reenterAtT_act r i ha.2 hr
      simp only [Subs.reenterAtT, Subs.ActAt, Subs.COKAt]
      exact ⟨⟨ha.1, this.1⟩, this.2⟩
theorem Subs.reenterAllT_act : (s : Subs) → s.ActAll → s.ResAll → s.reenterAllT.ActAll ∧ s.reenterAllT.COKAll
  | .nil, _, _ => ⟨trivial, trivial⟩
  | .cons b n r, ha, hr => by
      simp only [Subs.ActAll] at ha
      simp only [Subs.ResAll] at hr
      have h1 := Node.reenterT_act n ha.1 hr.1
      have h2 := Subs.reenterAllT_act r ha.2 hr.2
      simp only [Subs.reenterAllT, Subs.ActAll, Subs.COKAll]
      exact ⟨⟨h1.1, h2.1⟩, h1.2, h2.2⟩
end

mutual
theorem Node.reenterT_resumableOK : (n : Node) → n.Act → n.ResumableOK → n.reenterT.ResumableOK
  | .leaf .., _, _ => trivial
  | .compo id rid inj h st a r q m s, ha, hr => by
      cases a with
      | none => simp [Node.Act] at ha
      | some ai =>
        simp only [Node.Act] at ha
        simp only [Node.ResumableOK] at hr
        cases q with
        | none => simpa [Node.reenterT, Node.ResumableOK] using hr
        | some qi =>
          simp only [Node.reenterT]
          split
          · simp only [Node.ResumableOK, Subs.reenterAtT_len]
            exact ⟨hr.1, Subs.reenterAtT_resumableOK s ai ha hr.2⟩
          · simp only [Node.ResumableOK, Subs.enterAtT_len, Subs.exitAtT_len]
            exact ⟨Subs.actAt_lt s ai ha, Subs.switchT_resumableOK s ai qi ha hr.2⟩
  | .ortho id rid inj h s, ha, hr => by
      simp only [Node.Act] at ha
      simp only [Node.ResumableOK] at hr
      simp only [Node.reenterT, Node.ResumableOK]
      exact Subs.reenterAllT_resumableOK s ha hr
theorem Subs.reenterAtT_resumableOK : (s : Subs) → (i : Nat) → s.ActAt i → s.ResumableOKAll → (s.reenterAtT i).ResumableOKAll
  | .nil, _, h, _ => by simp [Subs.ActAt] at h
  | .cons b n r, 0, h, hr => by
      simp only [Subs.ActAt] at h
      simp only [Subs.ResumableOKAll] at hr
      simp only [Subs.reenterAtT, Subs.ResumableOKAll]
      exact ⟨Node.reenterT_resumableOK n h.1 hr.1, hr.2⟩
  | .cons b n r, i+1, h, hr => by
      simp only [Subs.ActAt] at h
      simp only [Subs.ResumableOKAll] at hr
      simp only [Subs.reenterAtT, Subs.ResumableOKAll]
      exact ⟨hr.1, Subs.reenterAtT_resumableOK r i h.2 hr.2⟩
theorem Subs.reenterAllT_resumableOK : (s : Subs) → s.ActAll → s.ResumableOKAll → s.reenterAllT.ResumableOKAll
  | .nil, _, _ => trivial
  | .cons b n r, h, hr => by
      simp only [Subs.ActAll] at h
      simp only [Subs.ResumableOKAll] at hr
      simp only [Subs.reenterAllT, Subs.ResumableOKAll]
      exact ⟨Node.reenterT_resumableOK n h.1 hr.1, Subs.reenterAllT_resumableOK r h.2 hr.2⟩
end

/-! ### commit -/

mutual
theorem Node.commitT_act : (n : Node) → n.Act → n.COK → n.commitT.Act ∧ n.commitT.COK
  | .leaf .., _, _ => ⟨trivial, trivial⟩
  | .compo id rid inj h st a r q m s, ha, hc => by
      cases a with
      | none => simp [Node.Act] at ha
      | some ai =>
        simp only [Node.Act] at ha
        cases q with
        | none =>
          simp only [Node.COK] at hc
          simp only [Node.commitT, Node.Act, Node.COK]
          exact Subs.commitAtT_act s ai ha hc
        | some qi =>
          simp only [Node.COK] at hc
          simp only [Node.commitT]
          split
          · simp only [Node.Act, Node.COK]
            exact Subs.switchT_act s ai qi ha hc
          · next hne =>
            have e : qi = ai := Decidable.of_not_not hne
            subst e
            split
            · simp only [Node.Act, Node.COK]
              exact Subs.switchT_act s qi qi ha hc
            · simp only [Node.Act, Node.COK]
              exact Subs.reenterAtT_act s qi ha hc
  | .ortho id rid inj h s, ha, hc => by
      simp only [Node.Act] at ha
      simp only [Node.COK] at hc
      simp only [Node.commitT, Node.Act, Node.COK]
      exact Subs.commitAllT_act s ha hc
theorem Subs.commitAtT_act : (s : Subs) → (i : Nat) → s.ActAt i → s.COKAt i →
    (s.commitAtT i).ActAt i ∧ (s.commitAtT i).COKAt i
  | .nil, _, h, _ => by simp [Subs.ActAt] at h
  | .cons b n r, 0, ha, hc => by
      simp only [Subs.ActAt] at ha
      simp only [Subs.COKAt] at hc
      have := Node.commitT_act n ha.1 hc
      simp only [Subs.commitAtT, Subs.ActAt, Subs.COKAt]
      exact ⟨⟨this.1, ha.2⟩, this.2⟩
  | .cons b n r, i+1, ha, hc => by
      simp only [Subs.ActAt] at ha
      simp only [Subs.COKAt] at hc
      have := Subs.commitAtT_act r i ha.2 hc
      simp only [Subs.commitAtT, Subs.ActAt, Subs.COKAt]
      exact ⟨⟨ha.1, this.1⟩, this.2⟩
theorem Subs.commitAllT_act : (s : Subs) → s.ActAll → s.COKAll → s.commitAllT.ActAll ∧ s.commitAllT.COKAll
  | .nil, _, _ => ⟨trivial, trivial⟩
  | .cons b n r, ha, hc => by
      simp only [Subs.ActAll] at ha
      simp only [Subs.COKAll] at hc
      have h1 := Node.commitT_act n ha.1 hc.1
      have h2 := Subs.commitAllT_act r ha.2 hc.2
      simp only [Subs.commitAllT, Subs.ActAll, Subs.COKAll]
      exact ⟨⟨h1.1, h2.1⟩, h1.2, h2.2⟩
end

mutual
theorem Node.commitT_resumableOK : (n : Node) → n.Act → n.ResumableOK → n.commitT.ResumableOK
  | .leaf .., _, _ => trivial
  | .compo id rid inj h st a r q m s, ha, hr => by
      cases a with
      | none => simp [Node.Act] at ha
      | some ai =>
        simp only [Node.Act] at ha
        simp only [Node.ResumableOK] at hr
        cases q with
        | none =>
          simp only [Node.commitT, Node.ResumableOK, Subs.commitAtT_len]
          exact ⟨hr.1, Subs.commitAtT_resumableOK s ai ha hr.2⟩
        | some qi =>
          simp only [Node.commitT]
          split
          · simp only [Node.ResumableOK, Subs.enterAtT_len, Subs.exitAtT_len]
            exact ⟨Subs.actAt_lt s ai ha, Subs.switchT_resumableOK s ai qi ha hr.2⟩
          · split
            · simp only [Node.ResumableOK, Subs.enterAtT_len, Subs.exitAtT_len]
              exact ⟨hr.1, Subs.switchT_resumableOK s ai ai ha hr.2⟩
            · simp only [Node.ResumableOK, Subs.reenterAtT_len]
              exact ⟨hr.1, Subs.reenterAtT_resumableOK s ai ha hr.2⟩
  | .ortho id rid inj h s, ha, hr => by
      simp only [Node.Act] at ha
      simp only [Node.ResumableOK] at hr
      simp only [Node.commitT, Node.ResumableOK]
      exact Subs.commitAllT_resumableOK s ha hr
theorem Subs.commitAtT_resumableOK : (s : Subs) → (i : Nat) → s.ActAt i → s.ResumableOKAll → (s.commitAtT i).ResumableOKAll
  | .nil, _, h, _ => by simp [Subs.ActAt] at h
  | .cons b n r, 0, h, hr => by
      simp only [Subs.ActAt] at h
      simp only [Subs.ResumableOKAll] at hr
      simp only [Subs.commitAtT, Subs.ResumableOKAll]
      exact ⟨Node.commitT_resumableOK n h.1 hr.1, hr.2⟩
  | .cons b n r, i+1, h, hr => by
      simp only [Subs.ActAt] at h
      simp only [Subs.ResumableOKAll] at hr
      simp only [Subs.commitAtT, Subs.ResumableOKAll]
      exact ⟨hr.1, Subs.commitAtT_resumableOK r i h.2 hr.2⟩
theorem Subs.commitAllT_resumableOK : (s : Subs) → s.ActAll → s.ResumableOKAll → s.commitAllT.ResumableOKAll
  | .nil, _, _ => trivial
  | .cons b n r, h, hr => by
      simp only [Subs.ActAll] at h
      simp only [Subs.ResumableOKAll] at hr
      simp only [Subs.commitAllT, Subs.ResumableOKAll]
      exact ⟨Node.commitT_resumableOK n h.1 hr.1, Subs.commitAllT_resumableOK r h.2 hr.2⟩
end

end Hfsm
