/-
`Steps allow w (walk n w).2` for every tree walk of the model (one structural recursion per walk).
-/
import Hfsm.Proofs.Steps

namespace Hfsm
variable {U : Type}

/-- entry-guard walks: only `entryGuard` callbacks, no pin, no plan executor -/
abbrev allowEntryGuard : Perm := ⟨fun _ m => m = .entryGuard, fun _ => False, False⟩
abbrev allowExitGuard : Perm := ⟨fun _ m => m = .exitGuard, fun _ => False, False⟩
/-- forward passes of a request with queue index `idx`: `select / rank / utility`, pins of `idx` -/
abbrev allowFwd (idx : Option Nat) : Perm := ⟨fun _ m => m.cls = .const, fun i => i = idx, False⟩
/-- lifecycle passes: `enter / exit / reenter` -/
abbrev allowPlan : Perm := ⟨fun _ m => m.cls = .plan, fun _ => False, False⟩
/-- update passes and the plan executor -/
abbrev allowFull : Perm := ⟨fun _ m => m.cls = .full, fun _ => False, True⟩
abbrev allowEvent : Perm := ⟨fun _ m => m.cls = .event, fun _ => False, False⟩
abbrev allowQuery : Perm := ⟨fun _ m => m.cls = .query, fun _ => False, False⟩

syntax "walk" "[" ident,* "]" : tactic
macro_rules
  | `(tactic| walk []) => `(tactic| repeat' wstep)
  | `(tactic| walk [$a]) => `(tactic| repeat' (first | with_reducible apply $a | wstep))
  | `(tactic| walk [$a, $b]) =>
    `(tactic| repeat' (first | with_reducible apply $a | with_reducible apply $b | wstep))
  | `(tactic| walk [$a, $b, $c]) =>
    `(tactic| repeat' (first | with_reducible apply $a | with_reducible apply $b | with_reducible apply $c | wstep))
  | `(tactic| walk [$a, $b, $c, $d]) =>
    `(tactic| repeat' (first | with_reducible apply $a | with_reducible apply $b | with_reducible apply $c
                             | with_reducible apply $d | wstep))
  | `(tactic| walk [$a, $b, $c, $d, $e]) =>
    `(tactic| repeat' (first | with_reducible apply $a | with_reducible apply $b | with_reducible apply $c
                             | with_reducible apply $d | with_reducible apply $e | wstep))
  | `(tactic| walk [$a, $b, $c, $d, $e, $f]) =>
    `(tactic| repeat' (first | with_reducible apply $a | with_reducible apply $b | with_reducible apply $c
                             | with_reducible apply $d | with_reducible apply $e | with_reducible apply $f | wstep))

/-! ### guards -/

mutual
theorem Node.entryGuard_steps : (n : Node) → (w0 w : World U) → Steps allowEntryGuard w0 w →
    Steps allowEntryGuard w0 (n.entryGuard w).1
  | .leaf id inj, w0, w, h => by simp only [Node.entryGuard]; walk []
  | .compo id rid inj hd _ _ _ q _ s, w0, w, h => by
    simp only [Node.entryGuard]; walk [Subs.entryGuardAt_steps]
  | .ortho id rid inj hd s, w0, w, h => by
    simp only [Node.entryGuard]; walk [Subs.entryGuardAll_steps]
theorem Subs.entryGuardAt_steps : (s : Subs) → (i : Nat) → (w0 w : World U) → Steps allowEntryGuard w0 w →
    Steps allowEntryGuard w0 (s.entryGuardAt i w).1
  | .nil, _, w0, w, h => by simp only [Subs.entryGuardAt]; walk []
  | .cons _ n _, 0, w0, w, h => by simp only [Subs.entryGuardAt]; walk [Node.entryGuard_steps]
  | .cons _ _ r, i+1, w0, w, h => by simp only [Subs.entryGuardAt]; walk [Subs.entryGuardAt_steps]
theorem Subs.entryGuardAll_steps : (s : Subs) → (w0 w : World U) → Steps allowEntryGuard w0 w →
    Steps allowEntryGuard w0 (s.entryGuardAll w).1
  | .nil, w0, w, h => by simp only [Subs.entryGuardAll]; walk []
  | .cons _ n r, w0, w, h => by
    simp only [Subs.entryGuardAll]; walk [Subs.entryGuardAll_steps, Node.entryGuard_steps]
end

mutual
theorem Node.fwdEntryGuard_steps : (n : Node) → (w0 w : World U) → Steps allowEntryGuard w0 w →
    Steps allowEntryGuard w0 (n.fwdEntryGuard w).1
  | .leaf id inj, w0, w, h => by simp only [Node.fwdEntryGuard]; walk []
  | .compo id rid inj hd _ a _ q _ s, w0, w, h => by
    simp only [Node.fwdEntryGuard]; walk [Subs.fwdEntryGuardAt_steps, Subs.entryGuardAt_steps]
  | .ortho id rid inj hd s, w0, w, h => by
    simp only [Node.fwdEntryGuard]; walk [Subs.fwdEntryGuardBits_steps, Subs.fwdEntryGuardAll_steps]
theorem Subs.fwdEntryGuardAt_steps : (s : Subs) → (i : Nat) → (w0 w : World U) → Steps allowEntryGuard w0 w →
    Steps allowEntryGuard w0 (s.fwdEntryGuardAt i w).1
  | .nil, _, w0, w, h => by simp only [Subs.fwdEntryGuardAt]; walk []
  | .cons _ n _, 0, w0, w, h => by simp only [Subs.fwdEntryGuardAt]; walk [Node.fwdEntryGuard_steps]
  | .cons _ _ r, i+1, w0, w, h => by simp only [Subs.fwdEntryGuardAt]; walk [Subs.fwdEntryGuardAt_steps]
theorem Subs.fwdEntryGuardBits_steps : (s : Subs) → (w0 w : World U) → Steps allowEntryGuard w0 w →
    Steps allowEntryGuard w0 (s.fwdEntryGuardBits w).1
  | .nil, w0, w, h => by simp only [Subs.fwdEntryGuardBits]; walk []
  | .cons b n r, w0, w, h => by
    simp only [Subs.fwdEntryGuardBits]; walk [Subs.fwdEntryGuardBits_steps, Node.fwdEntryGuard_steps]
theorem Subs.fwdEntryGuardAll_steps : (s : Subs) → (w0 w : World U) → Steps allowEntryGuard w0 w →
    Steps allowEntryGuard w0 (s.fwdEntryGuardAll w).1
  | .nil, w0, w, h => by simp only [Subs.fwdEntryGuardAll]; walk []
  | .cons _ n r, w0, w, h => by
    simp only [Subs.fwdEntryGuardAll]; walk [Subs.fwdEntryGuardAll_steps, Node.fwdEntryGuard_steps]
end

mutual
theorem Node.exitGuard_steps : (n : Node) → (w0 w : World U) → Steps allowExitGuard w0 w →
    Steps allowExitGuard w0 (n.exitGuard w).1
  | .leaf id inj, w0, w, h => by simp only [Node.exitGuard]; walk []
  | .compo id rid inj hd _ a _ _ _ s, w0, w, h => by
    simp only [Node.exitGuard]; walk [Subs.exitGuardAt_steps]
  | .ortho id rid inj hd s, w0, w, h => by
    simp only [Node.exitGuard]; walk [Subs.exitGuardAll_steps]
theorem Subs.exitGuardAt_steps : (s : Subs) → (i : Nat) → (w0 w : World U) → Steps allowExitGuard w0 w →
    Steps allowExitGuard w0 (s.exitGuardAt i w).1
  | .nil, _, w0, w, h => by simp only [Subs.exitGuardAt]; walk []
  | .cons _ n _, 0, w0, w, h => by simp only [Subs.exitGuardAt]; walk [Node.exitGuard_steps]
  | .cons _ _ r, i+1, w0, w, h => by simp only [Subs.exitGuardAt]; walk [Subs.exitGuardAt_steps]
theorem Subs.exitGuardAll_steps : (s : Subs) → (w0 w : World U) → Steps allowExitGuard w0 w →
    Steps allowExitGuard w0 (s.exitGuardAll w).1
  | .nil, w0, w, h => by simp only [Subs.exitGuardAll]; walk []
  | .cons _ n r, w0, w, h => by
    simp only [Subs.exitGuardAll]; walk [Subs.exitGuardAll_steps, Node.exitGuard_steps]
end

mutual
theorem Node.fwdExitGuard_steps : (n : Node) → (w0 w : World U) → Steps allowExitGuard w0 w →
    Steps allowExitGuard w0 (n.fwdExitGuard w).1
  | .leaf id inj, w0, w, h => by simp only [Node.fwdExitGuard]; walk []
  | .compo id rid inj hd _ a _ q _ s, w0, w, h => by
    simp only [Node.fwdExitGuard]; walk [Subs.fwdExitGuardAt_steps, Subs.exitGuardAt_steps]
  | .ortho id rid inj hd s, w0, w, h => by
    simp only [Node.fwdExitGuard]; walk [Subs.fwdExitGuardBits_steps, Subs.fwdExitGuardAll_steps]
theorem Subs.fwdExitGuardAt_steps : (s : Subs) → (i : Nat) → (w0 w : World U) → Steps allowExitGuard w0 w →
    Steps allowExitGuard w0 (s.fwdExitGuardAt i w).1
  | .nil, _, w0, w, h => by simp only [Subs.fwdExitGuardAt]; walk []
  | .cons _ n _, 0, w0, w, h => by simp only [Subs.fwdExitGuardAt]; walk [Node.fwdExitGuard_steps]
  | .cons _ _ r, i+1, w0, w, h => by simp only [Subs.fwdExitGuardAt]; walk [Subs.fwdExitGuardAt_steps]
theorem Subs.fwdExitGuardBits_steps : (s : Subs) → (w0 w : World U) → Steps allowExitGuard w0 w →
    Steps allowExitGuard w0 (s.fwdExitGuardBits w).1
  | .nil, w0, w, h => by simp only [Subs.fwdExitGuardBits]; walk []
  | .cons b n r, w0, w, h => by
    simp only [Subs.fwdExitGuardBits]; walk [Subs.fwdExitGuardBits_steps, Node.fwdExitGuard_steps]
theorem Subs.fwdExitGuardAll_steps : (s : Subs) → (w0 w : World U) → Steps allowExitGuard w0 w →
    Steps allowExitGuard w0 (s.fwdExitGuardAll w).1
  | .nil, w0, w, h => by simp only [Subs.fwdExitGuardAll]; walk []
  | .cons _ n r, w0, w, h => by
    simp only [Subs.fwdExitGuardAll]; walk [Subs.fwdExitGuardAll_steps, Node.fwdExitGuard_steps]
end

/-! ### report passes, request passes (only `select / rank / utility` are invoked) -/

section forward
variable [UtilArith U]

theorem Subs.reportRankAll_steps (idx : Option Nat) : (s : Subs) → (w0 w : World U) → Steps (allowFwd idx) w0 w →
    Steps (allowFwd idx) w0 (s.reportRankAll w).1
  | .nil, w0, w, h => by simp only [Subs.reportRankAll]; walk []
  | .cons _ n r, w0, w, h => by
    simp only [Subs.reportRankAll]
    cases n <;> walk [Subs.reportRankAll_steps]

mutual
theorem Node.reportChange_steps (idx : Option Nat) : (n : Node) → (w0 w : World U) → Steps (allowFwd idx) w0 w →
    Steps (allowFwd idx) w0 (n.reportChange w).2.1
  | .leaf id inj, w0, w, h => by simp only [Node.reportChange]; walk []
  | .compo id rid inj hd st a r q m s, w0, w, h => by
    cases st <;> simp only [Node.reportChange] <;>
      walk [Subs.reportChangeAt_steps, Subs.reportChangeAll_steps, Subs.reportChangeTop_steps, Subs.reportRankAll_steps]
  | .ortho id rid inj hd s, w0, w, h => by
    simp only [Node.reportChange]; walk [Subs.reportChangeAll_steps]
theorem Subs.reportChangeAt_steps (idx : Option Nat) : (s : Subs) → (i : Nat) → (w0 w : World U) → Steps (allowFwd idx) w0 w →
    Steps (allowFwd idx) w0 (s.reportChangeAt i w).2.1
  | .nil, _, w0, w, h => by simp only [Subs.reportChangeAt]; walk []
  | .cons _ n _, 0, w0, w, h => by simp only [Subs.reportChangeAt]; walk [Node.reportChange_steps]
  | .cons _ _ r, i+1, w0, w, h => by simp only [Subs.reportChangeAt]; walk [Subs.reportChangeAt_steps]
theorem Subs.reportChangeAll_steps (idx : Option Nat) : (s : Subs) → (w0 w : World U) → Steps (allowFwd idx) w0 w →
    Steps (allowFwd idx) w0 (s.reportChangeAll w).2.1
  | .nil, w0, w, h => by simp only [Subs.reportChangeAll]; walk []
  | .cons _ n r, w0, w, h => by
    simp only [Subs.reportChangeAll]; walk [Subs.reportChangeAll_steps, Node.reportChange_steps]
theorem Subs.reportChangeTop_steps (idx : Option Nat) : (s : Subs) → (rks : List Int) → (top : Int) → (w0 w : World U) →
    Steps (allowFwd idx) w0 w → Steps (allowFwd idx) w0 (s.reportChangeTop rks top w).2.1
  | .nil, _, _, w0, w, h => by simp only [Subs.reportChangeTop]; walk []
  | .cons _ n r, rks, top, w0, w, h => by
    simp only [Subs.reportChangeTop]; walk [Subs.reportChangeTop_steps, Node.reportChange_steps]
end

mutual
theorem Node.reportUtilize_steps (idx : Option Nat) : (n : Node) → (w0 w : World U) → Steps (allowFwd idx) w0 w →
    Steps (allowFwd idx) w0 (n.reportUtilize w).2.1
  | .leaf id inj, w0, w, h => by simp only [Node.reportUtilize]; walk []
  | .compo id rid inj hd st a r q m s, w0, w, h => by
    simp only [Node.reportUtilize]; walk [Subs.reportUtilizeAll_steps]
  | .ortho id rid inj hd s, w0, w, h => by
    simp only [Node.reportUtilize]; walk [Subs.reportUtilizeAll_steps]
theorem Subs.reportUtilizeAll_steps (idx : Option Nat) : (s : Subs) → (w0 w : World U) → Steps (allowFwd idx) w0 w →
    Steps (allowFwd idx) w0 (s.reportUtilizeAll w).2.1
  | .nil, w0, w, h => by simp only [Subs.reportUtilizeAll]; walk []
  | .cons _ n r, w0, w, h => by
    simp only [Subs.reportUtilizeAll]; walk [Subs.reportUtilizeAll_steps, Node.reportUtilize_steps]
end

mutual
theorem Node.reportRandomize_steps (idx : Option Nat) : (n : Node) → (w0 w : World U) → Steps (allowFwd idx) w0 w →
    Steps (allowFwd idx) w0 (n.reportRandomize w).2.1
  | .leaf id inj, w0, w, h => by simp only [Node.reportRandomize]; walk []
  | .compo id rid inj hd st a r q m s, w0, w, h => by
    simp only [Node.reportRandomize]; walk [Subs.reportRandomizeTop_steps, Subs.reportRankAll_steps]
  | .ortho id rid inj hd s, w0, w, h => by
    simp only [Node.reportRandomize]; walk [Subs.reportRandomizeAll_steps]
theorem Subs.reportRandomizeAll_steps (idx : Option Nat) : (s : Subs) → (w0 w : World U) → Steps (allowFwd idx) w0 w →
    Steps (allowFwd idx) w0 (s.reportRandomizeAll w).2.1
  | .nil, w0, w, h => by simp only [Subs.reportRandomizeAll]; walk []
  | .cons _ n r, w0, w, h => by
    simp only [Subs.reportRandomizeAll]; walk [Subs.reportRandomizeAll_steps, Node.reportRandomize_steps]
theorem Subs.reportRandomizeTop_steps (idx : Option Nat) : (s : Subs) → (rks : List Int) → (top : Int) → (w0 w : World U) →
    Steps (allowFwd idx) w0 w → Steps (allowFwd idx) w0 (s.reportRandomizeTop rks top w).2.1
  | .nil, _, _, w0, w, h => by simp only [Subs.reportRandomizeTop]; walk []
  | .cons _ n r, rks, top, w0, w, h => by
    simp only [Subs.reportRandomizeTop]; walk [Subs.reportRandomizeTop_steps, Node.reportRandomize_steps]
end

mutual
theorem Node.request_steps : (n : Node) → (rq : Req) → (w0 w : World U) → Steps (allowFwd rq.index) w0 w →
    Steps (allowFwd rq.index) w0 (n.request rq w).2
  | .leaf id inj, rq, w0, w, h => by simp only [Node.request]; walk []
  | .ortho id rid inj hd s, rq, w0, w, h => by simp only [Node.request]; walk [Subs.requestAll_steps]
  | .compo id rid inj hd st a r q m s, rq, w0, w, h => by
    simp only [Node.request]
    walk [Subs.requestAt_steps, Subs.reportChangeAll_steps, Subs.reportUtilizeAll_steps,
          Subs.reportChangeTop_steps, Subs.reportRandomizeTop_steps, Subs.reportRankAll_steps]
theorem Subs.requestAt_steps : (s : Subs) → (i : Nat) → (rq : Req) → (w0 w : World U) → Steps (allowFwd rq.index) w0 w →
    Steps (allowFwd rq.index) w0 (s.requestAt i rq w).2
  | .nil, _, _, w0, w, h => by simp only [Subs.requestAt]; walk []
  | .cons _ n _, 0, rq, w0, w, h => by simp only [Subs.requestAt]; walk [Node.request_steps]
  | .cons _ _ r, i+1, rq, w0, w, h => by simp only [Subs.requestAt]; walk [Subs.requestAt_steps]
theorem Subs.requestAll_steps : (s : Subs) → (rq : Req) → (w0 w : World U) → Steps (allowFwd rq.index) w0 w →
    Steps (allowFwd rq.index) w0 (s.requestAll rq w).2
  | .nil, _, w0, w, h => by simp only [Subs.requestAll]; walk []
  | .cons _ n r, rq, w0, w, h => by
    simp only [Subs.requestAll]; walk [Subs.requestAll_steps, Node.request_steps]
end

mutual
theorem Node.fwdRequest_steps : (n : Node) → (rq : Req) → (w0 w : World U) → Steps (allowFwd rq.index) w0 w →
    Steps (allowFwd rq.index) w0 (n.fwdRequest rq w).2
  | .leaf id inj, rq, w0, w, h => by simp only [Node.fwdRequest]; walk []
  | .compo id rid inj hd st a r q m s, rq, w0, w, h => by
    simp only [Node.fwdRequest]; walk [Subs.fwdRequestAt_steps, Node.request_steps]
  | .ortho id rid inj hd s, rq, w0, w, h => by
    simp only [Node.fwdRequest]; walk [Subs.fwdRequestAll_steps, Node.request_steps]
theorem Subs.fwdRequestAt_steps : (s : Subs) → (i : Nat) → (rq : Req) → (w0 w : World U) → Steps (allowFwd rq.index) w0 w →
    Steps (allowFwd rq.index) w0 (s.fwdRequestAt i rq w).2
  | .nil, _, _, w0, w, h => by simp only [Subs.fwdRequestAt]; walk []
  | .cons _ n _, 0, rq, w0, w, h => by simp only [Subs.fwdRequestAt]; walk [Node.fwdRequest_steps]
  | .cons _ _ r, i+1, rq, w0, w, h => by simp only [Subs.fwdRequestAt]; walk [Subs.fwdRequestAt_steps]
theorem Subs.fwdRequestAll_steps : (s : Subs) → (rq : Req) → (w0 w : World U) → Steps (allowFwd rq.index) w0 w →
    Steps (allowFwd rq.index) w0 (s.fwdRequestAll rq w).2
  | .nil, _, w0, w, h => by simp only [Subs.fwdRequestAll]; walk []
  | .cons _ n r, rq, w0, w, h => by
    simp only [Subs.fwdRequestAll]; walk [Subs.fwdRequestAll_steps, Node.fwdRequest_steps]
end

mutual
theorem Node.fwdActive_steps : (n : Node) → (rq : Req) → (w0 w : World U) → Steps (allowFwd rq.index) w0 w →
    Steps (allowFwd rq.index) w0 (n.fwdActive rq w).2
  | .leaf id inj, rq, w0, w, h => by simp only [Node.fwdActive]; walk []
  | .compo id rid inj hd st a r q m s, rq, w0, w, h => by
    simp only [Node.fwdActive]; walk [Subs.fwdActiveAt_steps, Subs.fwdRequestAt_steps]
  | .ortho id rid inj hd s, rq, w0, w, h => by
    simp only [Node.fwdActive]; walk [Subs.fwdActiveBits_steps]
theorem Subs.fwdActiveAt_steps : (s : Subs) → (i : Nat) → (rq : Req) → (w0 w : World U) → Steps (allowFwd rq.index) w0 w →
    Steps (allowFwd rq.index) w0 (s.fwdActiveAt i rq w).2
  | .nil, _, _, w0, w, h => by simp only [Subs.fwdActiveAt]; walk []
  | .cons _ n _, 0, rq, w0, w, h => by simp only [Subs.fwdActiveAt]; walk [Node.fwdActive_steps]
  | .cons _ _ r, i+1, rq, w0, w, h => by simp only [Subs.fwdActiveAt]; walk [Subs.fwdActiveAt_steps]
theorem Subs.fwdActiveBits_steps : (s : Subs) → (rq : Req) → (w0 w : World U) → Steps (allowFwd rq.index) w0 w →
    Steps (allowFwd rq.index) w0 (s.fwdActiveBits rq w).2
  | .nil, _, w0, w, h => by simp only [Subs.fwdActiveBits]; walk []
  | .cons b n r, rq, w0, w, h => by
    simp only [Subs.fwdActiveBits]; walk [Subs.fwdActiveBits_steps, Node.fwdActive_steps]
end

end forward

/-! ### lifecycle (only `enter / exit / reenter` are invoked) -/

mutual
theorem Node.enter_steps : (n : Node) → (w0 w : World U) → Steps allowPlan w0 w →
    Steps allowPlan w0 (n.enter w).2
  | .leaf id inj, w0, w, h => by simp only [Node.enter]; walk []
  | .compo id rid inj hd st a r q m s, w0, w, h => by
    simp only [Node.enter]; walk [Subs.enterAt_steps]
  | .ortho id rid inj hd s, w0, w, h => by
    simp only [Node.enter]; walk [Subs.enterAll_steps]
theorem Subs.enterAt_steps : (s : Subs) → (i : Nat) → (w0 w : World U) → Steps allowPlan w0 w →
    Steps allowPlan w0 (s.enterAt i w).2
  | .nil, _, w0, w, h => by simp only [Subs.enterAt]; walk []
  | .cons _ n _, 0, w0, w, h => by simp only [Subs.enterAt]; walk [Node.enter_steps]
  | .cons _ _ r, i+1, w0, w, h => by simp only [Subs.enterAt]; walk [Subs.enterAt_steps]
theorem Subs.enterAll_steps : (s : Subs) → (w0 w : World U) → Steps allowPlan w0 w →
    Steps allowPlan w0 (s.enterAll w).2
  | .nil, w0, w, h => by simp only [Subs.enterAll]; walk []
  | .cons _ n r, w0, w, h => by
    simp only [Subs.enterAll]; walk [Subs.enterAll_steps, Node.enter_steps]
end

mutual
theorem Node.exit_steps : (n : Node) → (w0 w : World U) → Steps allowPlan w0 w →
    Steps allowPlan w0 (n.exit w).2
  | .leaf id inj, w0, w, h => by simp only [Node.exit]; walk []
  | .compo id rid inj hd st a r q m s, w0, w, h => by
    simp only [Node.exit]; walk [Subs.exitAt_steps]
  | .ortho id rid inj hd s, w0, w, h => by
    simp only [Node.exit]; walk [Subs.exitAll_steps]
theorem Subs.exitAt_steps : (s : Subs) → (i : Nat) → (w0 w : World U) → Steps allowPlan w0 w →
    Steps allowPlan w0 (s.exitAt i w).2
  | .nil, _, w0, w, h => by simp only [Subs.exitAt]; walk []
  | .cons _ n _, 0, w0, w, h => by simp only [Subs.exitAt]; walk [Node.exit_steps]
  | .cons _ _ r, i+1, w0, w, h => by simp only [Subs.exitAt]; walk [Subs.exitAt_steps]
theorem Subs.exitAll_steps : (s : Subs) → (w0 w : World U) → Steps allowPlan w0 w →
    Steps allowPlan w0 (s.exitAll w).2
  | .nil, w0, w, h => by simp only [Subs.exitAll]; walk []
  | .cons _ n r, w0, w, h => by
    simp only [Subs.exitAll]; walk [Subs.exitAll_steps, Node.exit_steps]
end

mutual
theorem Node.reenter_steps : (n : Node) → (w0 w : World U) → Steps allowPlan w0 w →
    Steps allowPlan w0 (n.reenter w).2
  | .leaf id inj, w0, w, h => by simp only [Node.reenter]; walk []
  | .compo id rid inj hd st a r q m s, w0, w, h => by
    simp only [Node.reenter]; walk [Subs.reenterAt_steps, Subs.enterAt_steps, Subs.exitAt_steps]
  | .ortho id rid inj hd s, w0, w, h => by
    simp only [Node.reenter]; walk [Subs.reenterAll_steps]
theorem Subs.reenterAt_steps : (s : Subs) → (i : Nat) → (w0 w : World U) → Steps allowPlan w0 w →
    Steps allowPlan w0 (s.reenterAt i w).2
  | .nil, _, w0, w, h => by simp only [Subs.reenterAt]; walk []
  | .cons _ n _, 0, w0, w, h => by simp only [Subs.reenterAt]; walk [Node.reenter_steps]
  | .cons _ _ r, i+1, w0, w, h => by simp only [Subs.reenterAt]; walk [Subs.reenterAt_steps]
theorem Subs.reenterAll_steps : (s : Subs) → (w0 w : World U) → Steps allowPlan w0 w →
    Steps allowPlan w0 (s.reenterAll w).2
  | .nil, w0, w, h => by simp only [Subs.reenterAll]; walk []
  | .cons _ n r, w0, w, h => by
    simp only [Subs.reenterAll]; walk [Subs.reenterAll_steps, Node.reenter_steps]
end

mutual
theorem Node.commit_steps : (n : Node) → (w0 w : World U) → Steps allowPlan w0 w →
    Steps allowPlan w0 (n.commit w).2
  | .leaf id inj, w0, w, h => by simp only [Node.commit]; walk []
  | .compo id rid inj hd st a r q m s, w0, w, h => by
    simp only [Node.commit]; walk [Subs.commitAt_steps, Subs.reenterAt_steps, Subs.enterAt_steps, Subs.exitAt_steps]
  | .ortho id rid inj hd s, w0, w, h => by
    simp only [Node.commit]; walk [Subs.commitAll_steps]
theorem Subs.commitAt_steps : (s : Subs) → (i : Nat) → (w0 w : World U) → Steps allowPlan w0 w →
    Steps allowPlan w0 (s.commitAt i w).2
  | .nil, _, w0, w, h => by simp only [Subs.commitAt]; walk []
  | .cons _ n _, 0, w0, w, h => by simp only [Subs.commitAt]; walk [Node.commit_steps]
  | .cons _ _ r, i+1, w0, w, h => by simp only [Subs.commitAt]; walk [Subs.commitAt_steps]
theorem Subs.commitAll_steps : (s : Subs) → (w0 w : World U) → Steps allowPlan w0 w →
    Steps allowPlan w0 (s.commitAll w).2
  | .nil, w0, w, h => by simp only [Subs.commitAll]; walk []
  | .cons _ n r, w0, w, h => by
    simp only [Subs.commitAll]; walk [Subs.commitAll_steps, Node.commit_steps]
end

/-! ### periodic passes -/

mutual
theorem Node.tick_steps (ph : Method) (hp : ph.cls = .full) : (n : Node) → (w0 w : World U) → Steps allowFull w0 w →
    Steps allowFull w0 (n.tick ph w).1
  | .leaf id inj, w0, w, h => by
    simp only [Node.tick]; exact h.runState _ _ _ _ hp
  | .compo id rid inj hd st a r q m s, w0, w, h => by
    simp only [Node.tick]
    repeat' (first | with_reducible apply Subs.tickAt_steps ph hp | with_reducible refine Steps.runState ?_ _ _ _ _ hp | wstep)
  | .ortho id rid inj hd s, w0, w, h => by
    simp only [Node.tick]
    repeat' (first | with_reducible apply Subs.tickAll_steps ph hp | with_reducible refine Steps.runState ?_ _ _ _ _ hp | wstep)
theorem Subs.tickAt_steps (ph : Method) (hp : ph.cls = .full) : (s : Subs) → (i : Nat) → (w0 w : World U) → Steps allowFull w0 w →
    Steps allowFull w0 (s.tickAt ph i w).1
  | .nil, _, w0, w, h => by simp only [Subs.tickAt]; walk []
  | .cons _ n _, 0, w0, w, h => by simp only [Subs.tickAt]; exact Node.tick_steps ph hp n w0 w h
  | .cons _ _ r, i+1, w0, w, h => by simp only [Subs.tickAt]; exact Subs.tickAt_steps ph hp r i w0 w h
theorem Subs.tickAll_steps (ph : Method) (hp : ph.cls = .full) : (s : Subs) → (w0 w : World U) → Steps allowFull w0 w →
    Steps allowFull w0 (s.tickAll ph w).1
  | .nil, w0, w, h => by simp only [Subs.tickAll]; walk []
  | .cons _ n r, w0, w, h => by
    simp only [Subs.tickAll]
    exact Subs.tickAll_steps ph hp r w0 _ (Node.tick_steps ph hp n w0 w h)
end

mutual
theorem Node.react_steps (ph : Method) (hp : ph.cls = .event) (hf po : Bool) : (n : Node) → (w0 w : World U) →
    Steps allowEvent w0 w → Steps allowEvent w0 (n.react ph hf po w).1
  | .leaf id inj, w0, w, h => by
    simp only [Node.react]; exact h.runState _ _ _ _ hp
  | .compo id rid inj hd st a r q m s, w0, w, h => by
    simp only [Node.react]
    repeat' (first | with_reducible apply Subs.reactAt_steps ph hp hf po | with_reducible refine Steps.runState ?_ _ _ _ _ hp | wstep)
  | .ortho id rid inj hd s, w0, w, h => by
    simp only [Node.react]
    repeat' (first | with_reducible apply Subs.reactAll_steps ph hp hf po | with_reducible refine Steps.runState ?_ _ _ _ _ hp | wstep)
theorem Subs.reactAt_steps (ph : Method) (hp : ph.cls = .event) (hf po : Bool) : (s : Subs) → (i : Nat) → (w0 w : World U) →
    Steps allowEvent w0 w → Steps allowEvent w0 (s.reactAt ph hf po i w).1
  | .nil, _, w0, w, h => by simp only [Subs.reactAt]; walk []
  | .cons _ n _, 0, w0, w, h => by simp only [Subs.reactAt]; exact Node.react_steps ph hp hf po n w0 w h
  | .cons _ _ r, i+1, w0, w, h => by simp only [Subs.reactAt]; exact Subs.reactAt_steps ph hp hf po r i w0 w h
theorem Subs.reactAll_steps (ph : Method) (hp : ph.cls = .event) (hf po : Bool) : (s : Subs) → (w0 w : World U) →
    Steps allowEvent w0 w → Steps allowEvent w0 (s.reactAll ph hf po w).1
  | .nil, w0, w, h => by simp only [Subs.reactAll]; walk []
  | .cons _ n r, w0, w, h => by
    simp only [Subs.reactAll]
    split
    · exact Node.react_steps ph hp hf po n w0 w h
    · exact Subs.reactAll_steps ph hp hf po r w0 _ (Node.react_steps ph hp hf po n w0 w h)
end

mutual
theorem Node.query_steps (hf : Bool) : (n : Node) → (w0 w : World U) →
    Steps allowQuery w0 w → Steps allowQuery w0 (n.query hf w)
  | .leaf id inj, w0, w, h => by simp only [Node.query]; walk []
  | .compo id rid inj hd st a r q m s, w0, w, h => by
    simp only [Node.query]
    repeat' (first | with_reducible apply Subs.queryAt_steps hf | wstep)
  | .ortho id rid inj hd s, w0, w, h => by
    simp only [Node.query]
    repeat' (first | with_reducible apply Subs.queryAll_steps hf | wstep)
theorem Subs.queryAt_steps (hf : Bool) : (s : Subs) → (i : Nat) → (w0 w : World U) →
    Steps allowQuery w0 w → Steps allowQuery w0 (s.queryAt hf i w)
  | .nil, _, w0, w, h => by simp only [Subs.queryAt]; walk []
  | .cons _ n _, 0, w0, w, h => by simp only [Subs.queryAt]; exact Node.query_steps hf n w0 w h
  | .cons _ _ r, i+1, w0, w, h => by simp only [Subs.queryAt]; exact Subs.queryAt_steps hf r i w0 w h
theorem Subs.queryAll_steps (hf : Bool) : (s : Subs) → (w0 w : World U) →
    Steps allowQuery w0 w → Steps allowQuery w0 (s.queryAll hf w)
  | .nil, w0, w, h => by simp only [Subs.queryAll]; walk []
  | .cons _ n r, w0, w, h => by
    simp only [Subs.queryAll]
    split
    · exact Node.query_steps hf n w0 w h
    · exact Subs.queryAll_steps hf r w0 _ (Node.query_steps hf n w0 w h)
end

/-! ### plans -/

theorem World.logRec_plans (w : World U) (r : LogRec U) : (w.logRec r).plans = w.plans := by
  unfold World.logRec World.emit; split <;> rfl

theorem World.ctlRequest_plans (w : World U) (k : Kind) (d : Nat) (p : Option Nat) :
    (w.ctlRequest k d p).plans = w.plans := by
  unfold World.ctlRequest
  simp only [World.logRec_plans]
  split <;> split <;> rfl

theorem World.runTasks_plans (head : Nat) : (ts : List Task) → (w : World U) → (clr : Nat) →
    (World.runTasks head ts w clr).2.1.plans = w.plans
  | [], w, clr => by simp only [World.runTasks]
  | t :: rest, w, clr => by
    simp only [World.runTasks]
    split
    · rfl
    · split
      · split
        · dsimp only; rw [World.runTasks_plans head rest]; dsimp only; rw [World.ctlRequest_plans]
        · dsimp only; rw [World.runTasks_plans head rest]; dsimp only; rw [World.ctlRequest_plans]
      · dsimp only; exact World.runTasks_plans head rest w clr

theorem World.runTasks_sub (head : Nat) : (ts : List Task) → (w : World U) → (clr : Nat) →
    ∀ t ∈ (World.runTasks head ts w clr).1, t ∈ ts
  | [], w, clr => by simp only [World.runTasks]; intro t h; exact h
  | t :: rest, w, clr => by
    simp only [World.runTasks]
    split
    · intro t h; exact h
    · split
      · intro t' h
        exact List.mem_cons_of_mem _ (World.runTasks_sub head rest _ _ t' h)
      · intro t' h
        dsimp only at h
        rcases List.mem_cons.mp h with h | h
        · exact h ▸ List.mem_cons_self
        · exact List.mem_cons_of_mem _ (World.runTasks_sub head rest _ _ t' h)

theorem World.runTasks_steps {allow : Perm} (ha : allow.plan) (head : Nat) : (ts : List Task) → (w0 w : World U) → (clr : Nat) →
    (∀ t ∈ ts, ∃ p ∈ w.plans, t ∈ p) → Steps allow w0 w → Steps allow w0 (World.runTasks head ts w clr).2.1
  | [], w0, w, clr, _, h => by simp only [World.runTasks]; exact h
  | t :: rest, w0, w, clr, hts, h => by
    simp only [World.runTasks]
    have ht := hts t List.mem_cons_self
    have hrest : ∀ t ∈ rest, ∃ p ∈ w.plans, t ∈ p := fun t' h' => hts t' (List.mem_cons_of_mem _ h')
    have h1 : Steps allow w0 (({ w with origin := some head }).ctlRequest .change t.dest t.payload) :=
      .tail h (.planReq _ head t ha ht)
    split
    · exact h
    · split
      · split
        · dsimp only
          refine World.runTasks_steps ha head rest w0 _ _ ?_ ((h1.scr (x' := { (({ w with origin := some head }).ctlRequest .change t.dest t.payload) with origin := w.origin }) (by scratch)).scr (by scratch))
          intro t' h'
          have := hrest t' h'
          simpa only [World.ctlRequest_plans] using this
        · dsimp only
          refine World.runTasks_steps ha head rest w0 _ _ ?_ (h1.scr (by scratch))
          intro t' h'
          have := hrest t' h'
          simpa only [World.ctlRequest_plans] using this
      · dsimp only
        exact World.runTasks_steps ha head rest w0 w clr hrest h

theorem List.mem_getD_nil {α : Type} {l : List (List α)} {i : Nat} {t : α} (h : t ∈ l.getD i []) :
    ∃ p ∈ l, t ∈ p := by
  rw [List.getD_eq_getElem?_getD] at h
  cases hi : l[i]? with
  | none => rw [hi] at h; simp at h
  | some p =>
    rw [hi] at h
    exact ⟨p, List.mem_of_getElem? hi, h⟩

theorem Steps.updatePlan {w0 w : World U} (h : Steps allowFull w0 w) (hid inj : Nat) (hd : Bool) (s : TaskStatus) :
    Steps allowFull w0 (w.updatePlan hid inj hd s).1 := by
  unfold World.updatePlan
  split
  · dsimp only
    refine Steps.stateMethod ?_ _ _ _ _ rfl
    exact (h.scr (x' := { w with taskStatus := { w.taskStatus with result := .failure } }) (by scratch)).logRec _
  · dsimp only
    split
    · have hr := World.runTasks_steps (allow := allowFull) trivial hid (w.planOf w.regionId) w0 w 0
        (fun t ht => List.mem_getD_nil ht) h
      refine Steps.scr (x := (World.runTasks hid (w.planOf w.regionId) w 0).2.1.setPlan
        (World.runTasks hid (w.planOf w.regionId) w 0).2.1.regionId (World.runTasks hid (w.planOf w.regionId) w 0).1) ?_ (by scratch)
      refine .tail hr (.planShrink _ _ trivial (by unfold World.setPlan; scratch) ?_)
      intro p' hp' t ht
      unfold World.setPlan at hp'
      dsimp only at hp'
      rw [World.runTasks_plans] 
      rcases List.mem_or_eq_of_mem_set hp' with hp' | hp'
      · rw [World.runTasks_plans] at hp'; exact ⟨p', hp', ht⟩
      · subst hp'
        exact List.mem_getD_nil (World.runTasks_sub _ _ _ _ t ht)
    · refine Steps.stateMethod ?_ _ _ _ _ rfl
      exact (h.scr (x' := { w with taskStatus := { w.taskStatus with result := .success } }) (by scratch)).logRec _
  · exact h

mutual
theorem Node.updatePlans_steps : (n : Node) → (w0 w : World U) → Steps allowFull w0 w →
    Steps allowFull w0 (n.updatePlans w).1
  | .leaf id inj, w0, w, h => by simp only [Node.updatePlans]; walk []
  | .compo id rid inj hd st a r q m s, w0, w, h => by
    simp only [Node.updatePlans]; walk [Subs.updatePlansAt_steps, Steps.updatePlan]
  | .ortho id rid inj hd s, w0, w, h => by
    simp only [Node.updatePlans]; walk [Subs.updatePlansAll_steps, Steps.updatePlan]
theorem Subs.updatePlansAt_steps : (s : Subs) → (i : Nat) → (w0 w : World U) → Steps allowFull w0 w →
    Steps allowFull w0 (s.updatePlansAt i w).1
  | .nil, _, w0, w, h => by simp only [Subs.updatePlansAt]; walk []
  | .cons _ n _, 0, w0, w, h => by simp only [Subs.updatePlansAt]; walk [Node.updatePlans_steps]
  | .cons _ _ r, i+1, w0, w, h => by simp only [Subs.updatePlansAt]; walk [Subs.updatePlansAt_steps]
theorem Subs.updatePlansAll_steps : (s : Subs) → (w0 w : World U) → Steps allowFull w0 w →
    Steps allowFull w0 (s.updatePlansAll w).1
  | .nil, w0, w, h => by simp only [Subs.updatePlansAll]; walk []
  | .cons _ n r, w0, w, h => by
    simp only [Subs.updatePlansAll]; walk [Subs.updatePlansAll_steps, Node.updatePlans_steps]
end

end Hfsm
