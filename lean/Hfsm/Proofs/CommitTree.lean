/-
The registry half of the lifecycle passes of `Model/Commit.lean` as pure tree functions: the tree
returned by `enter / exit / reenter / commit` does not depend on the world (callbacks cannot touch the
registry), so it can be computed — and reasoned about — without it.
-/
import Hfsm.Model.Commit

namespace Hfsm
variable {U : Type}

mutual
def Node.enterT : Node → Node
  | .leaf id inj => .leaf id inj
  | .compo id rid inj h st _ r q m s =>
    match q with
    | none => .compo id rid inj h st none r q m s
    | some qi => .compo id rid inj h st (some qi) (if q = r then none else r) none m (s.enterAtT qi)
  | .ortho id rid inj h s => .ortho id rid inj h s.enterAllT
def Subs.enterAtT : Subs → Nat → Subs
  | .nil, _ => .nil
  | .cons b n r, 0 => .cons b n.enterT r
  | .cons b n r, i+1 => .cons b n (r.enterAtT i)
def Subs.enterAllT : Subs → Subs
  | .nil => .nil
  | .cons _ n r => .cons false n.enterT r.enterAllT
end

mutual
def Node.exitT : Node → Node
  | .leaf id inj => .leaf id inj
  | .compo id rid inj h st a r q m s =>
    match a with
    | none => .compo id rid inj h st a r q m s
    | some ai => .compo id rid inj h st none (some ai) q m (s.exitAtT ai)
  | .ortho id rid inj h s => .ortho id rid inj h s.exitAllT
def Subs.exitAtT : Subs → Nat → Subs
  | .nil, _ => .nil
  | .cons b n r, 0 => .cons b n.exitT r
  | .cons b n r, i+1 => .cons b n (r.exitAtT i)
def Subs.exitAllT : Subs → Subs
  | .nil => .nil
  | .cons b n r => .cons b n.exitT r.exitAllT
end

mutual
def Node.reenterT : Node → Node
  | .leaf id inj => .leaf id inj
  | .compo id rid inj h st a r q m s =>
    match a, q with
    | some ai, some qi =>
      if ai = qi then .compo id rid inj h st a r none m (s.reenterAtT ai)
      else .compo id rid inj h st (some qi) (some ai) none m ((s.exitAtT ai).enterAtT qi)
    | _, _ => .compo id rid inj h st a r q m s
  | .ortho id rid inj h s => .ortho id rid inj h s.reenterAllT
def Subs.reenterAtT : Subs → Nat → Subs
  | .nil, _ => .nil
  | .cons b n r, 0 => .cons b n.reenterT r
  | .cons b n r, i+1 => .cons b n (r.reenterAtT i)
def Subs.reenterAllT : Subs → Subs
  | .nil => .nil
  | .cons _ n r => .cons false n.reenterT r.reenterAllT
end

mutual
def Node.commitT : Node → Node
  | .leaf id inj => .leaf id inj
  | .compo id rid inj h st a r q m s =>
    match a with
    | none => .compo id rid inj h st a r q m s
    | some ai =>
      match q with
      | none => .compo id rid inj h st a r q m (s.commitAtT ai)
      | some qi =>
        if qi ≠ ai then .compo id rid inj h st (some qi) (some ai) none m ((s.exitAtT ai).enterAtT qi)
        else if m then .compo id rid inj h st a r none m ((s.exitAtT ai).enterAtT ai)
        else .compo id rid inj h st a r none m (s.reenterAtT ai)
  | .ortho id rid inj h s => .ortho id rid inj h s.commitAllT
def Subs.commitAtT : Subs → Nat → Subs
  | .nil, _ => .nil
  | .cons b n r, 0 => .cons b n.commitT r
  | .cons b n r, i+1 => .cons b n (r.commitAtT i)
def Subs.commitAllT : Subs → Subs
  | .nil => .nil
  | .cons b n r => .cons b n.commitT r.commitAllT
end

/-! ### the model's passes compute these trees -/

mutual
theorem Node.enter_fst : (n : Node) → (w : World U) → (n.enter w).1 = n.enterT
  | .leaf .., _ => rfl
  | .compo id rid inj h st a r q m s, w => by
    cases q with
    | none => rfl
    | some qi =>
      simp only [Node.enter, Node.enterT]
      rw [Subs.enterAt_fst s qi]
  | .ortho id rid inj h s, w => by
    simp only [Node.enter, Node.enterT]
    rw [Subs.enterAll_fst s]
theorem Subs.enterAt_fst : (s : Subs) → (i : Nat) → (w : World U) → (s.enterAt i w).1 = s.enterAtT i
  | .nil, _, _ => rfl
  | .cons b n r, 0, w => by simp only [Subs.enterAt, Subs.enterAtT]; rw [Node.enter_fst n]
  | .cons b n r, i+1, w => by simp only [Subs.enterAt, Subs.enterAtT]; rw [Subs.enterAt_fst r i]
theorem Subs.enterAll_fst : (s : Subs) → (w : World U) → (s.enterAll w).1 = s.enterAllT
  | .nil, _ => rfl
  | .cons b n r, w => by
    simp only [Subs.enterAll, Subs.enterAllT]; rw [Node.enter_fst n, Subs.enterAll_fst r]
end

mutual
theorem Node.exit_fst : (n : Node) → (w : World U) → (n.exit w).1 = n.exitT
  | .leaf .., _ => rfl
  | .compo id rid inj h st a r q m s, w => by
    cases a with
    | none => rfl
    | some ai =>
      simp only [Node.exit, Node.exitT]
      rw [Subs.exitAt_fst s ai]
  | .ortho id rid inj h s, w => by
    simp only [Node.exit, Node.exitT]
    rw [Subs.exitAll_fst s]
theorem Subs.exitAt_fst : (s : Subs) → (i : Nat) → (w : World U) → (s.exitAt i w).1 = s.exitAtT i
  | .nil, _, _ => rfl
  | .cons b n r, 0, w => by simp only [Subs.exitAt, Subs.exitAtT]; rw [Node.exit_fst n]
  | .cons b n r, i+1, w => by simp only [Subs.exitAt, Subs.exitAtT]; rw [Subs.exitAt_fst r i]
theorem Subs.exitAll_fst : (s : Subs) → (w : World U) → (s.exitAll w).1 = s.exitAllT
  | .nil, _ => rfl
  | .cons b n r, w => by
    simp only [Subs.exitAll, Subs.exitAllT]; rw [Node.exit_fst n, Subs.exitAll_fst r]
end

mutual
theorem Node.reenter_fst : (n : Node) → (w : World U) → (n.reenter w).1 = n.reenterT
  | .leaf .., _ => rfl
  | .compo id rid inj h st a r q m s, w => by
    cases a with
    | none => rfl
    | some ai =>
      cases q with
      | none => rfl
      | some qi =>
        simp only [Node.reenter, Node.reenterT]
        by_cases e : ai = qi
        · simp only [e, if_true]
          rw [Subs.reenterAt_fst s qi]
        · simp only [e, if_false]
          rw [Subs.enterAt_fst, Subs.exitAt_fst]
  | .ortho id rid inj h s, w => by
    simp only [Node.reenter, Node.reenterT]
    rw [Subs.reenterAll_fst s]
theorem Subs.reenterAt_fst : (s : Subs) → (i : Nat) → (w : World U) → (s.reenterAt i w).1 = s.reenterAtT i
  | .nil, _, _ => rfl
  | .cons b n r, 0, w => by simp only [Subs.reenterAt, Subs.reenterAtT]; rw [Node.reenter_fst n]
  | .cons b n r, i+1, w => by simp only [Subs.reenterAt, Subs.reenterAtT]; rw [Subs.reenterAt_fst r i]
theorem Subs.reenterAll_fst : (s : Subs) → (w : World U) → (s.reenterAll w).1 = s.reenterAllT
  | .nil, _ => rfl
  | .cons b n r, w => by
    simp only [Subs.reenterAll, Subs.reenterAllT]; rw [Node.reenter_fst n, Subs.reenterAll_fst r]
end

mutual
theorem Node.commit_fst : (n : Node) → (w : World U) → (n.commit w).1 = n.commitT
  | .leaf .., _ => rfl
  | .compo id rid inj h st a r q m s, w => by
    cases a with
    | none => rfl
    | some ai =>
      cases q with
      | none =>
        simp only [Node.commit, Node.commitT]
        rw [Subs.commitAt_fst s ai]
      | some qi =>
        simp only [Node.commit, Node.commitT]
        by_cases e : qi = ai
        · cases m with
          | true =>
            simp only [e, ne_eq, not_true_eq_false, if_false, if_true]
            rw [Subs.enterAt_fst, Subs.exitAt_fst]
          | false =>
            simp only [e, ne_eq, not_true_eq_false, if_false, Bool.false_eq_true]
            rw [Subs.reenterAt_fst]
        · simp only [e, ne_eq, not_false_eq_true, if_true]
          rw [Subs.enterAt_fst, Subs.exitAt_fst]
  | .ortho id rid inj h s, w => by
    simp only [Node.commit, Node.commitT]
    rw [Subs.commitAll_fst s]
theorem Subs.commitAt_fst : (s : Subs) → (i : Nat) → (w : World U) → (s.commitAt i w).1 = s.commitAtT i
  | .nil, _, _ => rfl
  | .cons b n r, 0, w => by simp only [Subs.commitAt, Subs.commitAtT]; rw [Node.commit_fst n]
  | .cons b n r, i+1, w => by simp only [Subs.commitAt, Subs.commitAtT]; rw [Subs.commitAt_fst r i]
theorem Subs.commitAll_fst : (s : Subs) → (w : World U) → (s.commitAll w).1 = s.commitAllT
  | .nil, _ => rfl
  | .cons b n r, w => by
    simp only [Subs.commitAll, Subs.commitAllT]; rw [Node.commit_fst n, Subs.commitAll_fst r]
end

end Hfsm
