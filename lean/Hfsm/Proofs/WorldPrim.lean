/-
`WPrim R`: the relation `R` holds across each *elementary* step of the model (one action of a callback,
one trace element, one queue or plan edit).  `WRel.ofPrim` derives from it the coarser interface `WRel`
(state methods as units), hence — through Proofs/WorldRelTrav.lean and Proofs/WorldRelMach.lean — the
statement `R w (op w)` for every traversal and every operation of the model.
-/
import Hfsm.Proofs.WorldRel

namespace Hfsm
variable {U : Type}

structure WPrim (R : World U → World U → Prop) : Prop where
  refl  : ∀ w, R w w
  trans : ∀ {a b c}, R a b → R b c → R a c
  frame : ∀ {w w' : World U}, w'.cfg = w.cfg → w'.trace = w.trace → w'.requests = w.requests →
            w'.plans = w.plans → w'.err = w.err → R w w'
  fail' : ∀ w msg, R w (w.fail' msg)
  /-- any logger record -/
  log : ∀ w (r : LogRec U), R w (w.logRec r)
  /-- the trace element of a callback -/
  cb : ∀ w sid m slot obs pend curr, R w (w.emit (.cb sid m slot obs pend curr))
  /-- queueing a request from a callback (a full queue rejects it) -/
  enqueue : ∀ (w : World U) (t : Transition),
      R w (if w.requests.length < w.cfg.queueCap then { w with requests := w.requests ++ [t] } else w)
  planAppend : ∀ (w : World U) r t, R w (w.planAppend r t)
  shrinkPlan : ∀ (w : World U) r (p : List Task), p.length ≤ (w.planOf r).length → R w (w.setPlan r p)
  clearRequests : ∀ (w : World U), R w { w with requests := [] }
  clearPlans : ∀ (w : World U) n, R w { w with plans := List.replicate n [] }

namespace WPrim
variable {R : World U → World U → Prop} (hP : WPrim R)
include hP

theorem ctlRequest (w : World U) (k : Kind) (d : Nat) (p : Option Nat) : R w (w.ctlRequest k d p) := by
  simp only [World.ctlRequest]
  refine hP.trans ?_ (hP.log _ _)
  have h1 := hP.enqueue w { origin := w.origin, dest := d, kind := k, payload := p }
  generalize (if w.requests.length < w.cfg.queueCap then
      { w with requests := w.requests ++ [{ origin := w.origin, dest := d, kind := k, payload := p }] } else w) = w1 at h1 ⊢
  refine hP.trans h1 ?_
  split
  · exact hP.frame rfl rfl rfl rfl rfl
  · exact hP.refl _

theorem ctlSucceed (w : World U) (sid : Nat) : R w (w.ctlSucceed sid) := by
  simp only [World.ctlSucceed]
  split
  · refine hP.trans ?_ (hP.log _ _); exact hP.frame rfl rfl rfl rfl rfl
  · exact hP.refl _

theorem ctlFail (w : World U) (sid : Nat) : R w (w.ctlFail sid) := by
  simp only [World.ctlFail]
  split
  · refine hP.trans ?_ (hP.log _ _); exact hP.frame rfl rfl rfl rfl rfl
  · exact hP.refl _

theorem planClear (w : World U) (r hid size : Nat) : R w (w.planClear r hid size) :=
  hP.trans (hP.shrinkPlan w r [] (Nat.zero_le _)) (hP.frame rfl rfl rfl rfl rfl)

theorem act (c : CtlClass) (w : World U) (a : Action U) : R w (World.act c w a) := by
  cases a <;> simp only [World.act]
  case request k d p => split; exact hP.ctlRequest ..; exact hP.fail' ..
  case succeed s => split; exact hP.ctlSucceed ..; exact hP.fail' ..
  case fail s => split; exact hP.ctlFail ..; exact hP.fail' ..
  case cancel => split; (refine hP.trans ?_ (hP.log _ _); exact hP.frame rfl rfl rfl rfl rfl); exact hP.fail' ..
  case consume => split; exact hP.frame rfl rfl rfl rfl rfl; exact hP.fail' ..
  case planAppend o d k p => split; exact hP.planAppend ..; exact hP.fail' ..
  case planClear => split; exact hP.planClear ..; exact hP.fail' ..
  all_goals exact hP.refl _

theorem acts (c : CtlClass) : (d : Decision U) → (w : World U) → R w (d.foldl (World.act c) w)
  | [], w => hP.refl _
  | a :: rest, w => hP.trans (hP.act c w a) (acts c rest _)

theorem invoke (w : World U) (sid : Nat) (m : Method) (slot : Nat) : R w (w.invoke sid m slot).1 := by
  simp only [World.invoke]
  split
  · exact hP.fail' ..
  · next d rest _ =>
    refine hP.trans ?_ (hP.cb _ _ _ _ _ _ _)
    exact hP.trans (hP.frame (w' := { w with ds := rest }) rfl rfl rfl rfl rfl) (hP.acts _ d _)

theorem invokeSlots (sid : Nat) (m : Method) : (l : List Nat) → (w : World U) → R w (w.invokeSlots sid m l)
  | [], w => by simp only [World.invokeSlots]; exact hP.refl _
  | s :: rest, w => by
      simp only [World.invokeSlots]
      exact hP.trans (hP.invoke w sid m s) (invokeSlots sid m rest _)

theorem stateMethod (w : World U) (sid inj : Nat) (headed : Bool) (m : Method) :
    R w (w.stateMethod sid inj headed m) := by
  cases headed
  · simp only [World.stateMethod, Bool.false_or, Bool.false_eq_true, if_false]
    split
    · exact hP.log ..
    · exact hP.refl _
  · simp only [World.stateMethod, Bool.true_or, if_true]
    refine hP.trans (hP.log w (.method sid m)) ?_
    refine hP.trans (hP.frame (w' := { w.logRec (.method sid m) with origin := some sid }) rfl rfl rfl rfl rfl) ?_
    exact hP.trans (hP.invokeSlots sid m _ _) (hP.frame rfl rfl rfl rfl rfl)

variable [UtilArith U]

theorem headUtility (w : World U) (sid inj : Nat) (headed : Bool) : R w (w.headUtility sid inj headed).1 := by
  cases headed
  · simp only [World.headUtility, Bool.false_eq_true, if_false]
    exact hP.refl _
  · simp only [World.headUtility, if_true]
    refine hP.trans (hP.log w (.method sid .utility)) ?_
    split
    · exact hP.invoke ..
    · exact hP.trans (hP.invoke ..) (hP.fail' ..)

theorem headUtilityWrap (w : World U) (sid inj : Nat) (headed : Bool) :
    R w (w.headUtilityWrap sid inj headed).1 := by
  cases headed
  · simp only [World.headUtilityWrap, Bool.false_eq_true, if_false]
    split
    · exact hP.log ..
    · exact hP.refl _
  · simp only [World.headUtilityWrap, if_true]
    exact hP.headUtility w sid inj true

theorem headRank (w : World U) (sid inj : Nat) (headed : Bool) : R w (w.headRank sid inj headed).1 := by
  cases headed
  · simp only [World.headRank, Bool.false_or, Bool.false_eq_true, if_false]
    split
    · exact hP.log ..
    · exact hP.refl _
  · simp only [World.headRank, Bool.true_or, if_true]
    refine hP.trans (hP.log w (.method sid .rank)) ?_
    split
    · exact hP.invoke ..
    · exact hP.trans (hP.invoke ..) (hP.fail' ..)

theorem headSelect (w : World U) (sid inj : Nat) (headed : Bool) : R w (w.headSelect sid inj headed).1 := by
  cases headed
  · simp only [World.headSelect, Bool.false_or, Bool.false_eq_true, if_false]
    split
    · exact hP.log ..
    · exact hP.refl _
  · simp only [World.headSelect, Bool.true_or, if_true]
    refine hP.trans (hP.log w (.method sid .select)) ?_
    split
    · exact hP.invoke ..
    · exact hP.trans (hP.invoke ..) (hP.fail' ..)

end WPrim

/-- The elementary interface implies the coarse one. -/
theorem WRel.ofPrim [UtilArith U] {R : World U → World U → Prop} (hP : WPrim R) : WRel R where
  refl := hP.refl
  trans := hP.trans
  frame := hP.frame
  fail' := hP.fail'
  logLoose := fun w r _ => hP.log w r
  stateMethod := hP.stateMethod
  headUtility := hP.headUtility
  headUtilityWrap := hP.headUtilityWrap
  headRank := hP.headRank
  headSelect := hP.headSelect
  taskRequest := fun w headId dest payload =>
    hP.trans (hP.trans (hP.frame (w' := { w with origin := some headId }) rfl rfl rfl rfl rfl)
      (hP.ctlRequest _ _ _ _)) (hP.frame rfl rfl rfl rfl rfl)
  shrinkPlan := hP.shrinkPlan
  clearRequests := hP.clearRequests
  clearPlans := hP.clearPlans
  apiRequest := fun w t => hP.trans (hP.enqueue w t) (hP.log _ _)
  planAppend := hP.planAppend

end Hfsm
