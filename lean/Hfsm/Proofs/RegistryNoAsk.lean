/-
Non-vacuity of the `err = none` hypothesis for resolution: in a tree whose composite regions all use
the strategies that ask the user nothing (`composite`, `resumable`), resolving a `change` / `restart` /
`resume` request can never record a contract violation — whatever the world.
-/
import Hfsm.Proofs.RegistryResolve

set_option linter.unusedSimpArgs false
set_option linter.unusedVariables false
set_option linter.unusedSectionVars false

namespace Hfsm
variable {U : Type} [UtilArith U]

mutual
def Node.NoAsk : Node → Prop
  | .leaf .. => True
  | .compo _ _ _ _ st _ _ _ _ s => (st = .composite ∨ st = .resumable) ∧ s.NoAskAll
  | .ortho _ _ _ _ s => s.NoAskAll
def Subs.NoAskAll : Subs → Prop
  | .nil => True
  | .cons _ n r => n.NoAsk ∧ r.NoAskAll
end

@[simp] theorem World.pin_err (w : World U) (sid : Nat) (i : Option Nat) : (w.pin sid i).err = w.err := by
  unfold World.pin; split
  · rfl
  · split <;> rfl

def Kind.Plain (k : Kind) : Prop := k = .change ∨ k = .restart ∨ k = .resume

mutual
theorem Node.request_err_noAsk : (n : Node) → (k : Kind) → (idx : Option Nat) → (w : World U) →
    n.NoAsk → n.OK → n.ResumableOK → k.Plain → (n.request ⟨k, idx⟩ w).2.err = w.err
  | .leaf id inj, k, idx, w, _, _, _, _ => by simp [Node.request]
  | .ortho id rid inj hd s, k, idx, w, hn, hok, hr, hk => by
      simp only [Node.NoAsk] at hn
      simp only [Node.OK] at hok
      simp only [Node.ResumableOK] at hr
      simp only [Node.request]
      rw [Subs.requestAll_err_noAsk s k idx _ hn hok.2 hr hk]; simp
  | .compo id rid inj hd st a r q m s, k, idx, w, hn, hok, hr, hk => by
      simp only [Node.NoAsk] at hn
      simp only [Node.OK] at hok
      simp only [Node.ResumableOK] at hr
      have hr0 : r.getD 0 < s.len := by
        cases r with
        | none => exact hok.1
        | some ri => exact hr.1
      have hek : effectiveKind st k = .restart ∨ effectiveKind st k = .resume := by
        rcases hk with rfl | rfl | rfl
        · rcases hn.1 with rfl | rfl
          · exact .inl rfl
          · exact .inr rfl
        · exact .inl rfl
        · exact .inr rfl
      simp only [Node.request]
      rcases hek with e | e
      · rw [e]; simp only
        rw [Subs.requestAt_err_noAsk s 0 k idx _ hn.2 hok.2 hr.2 hk hok.1]; simp
      · rw [e]; simp only
        rw [Subs.requestAt_err_noAsk s (r.getD 0) k idx _ hn.2 hok.2 hr.2 hk hr0]; simp
theorem Subs.requestAt_err_noAsk : (s : Subs) → (i : Nat) → (k : Kind) → (idx : Option Nat) → (w : World U) →
    s.NoAskAll → s.OKAll → s.ResumableOKAll → k.Plain → i < s.len → (s.requestAt i ⟨k, idx⟩ w).2.err = w.err
  | .nil, _, _, _, _, _, _, _, _, hi => by simp [Subs.len] at hi
  | .cons b n r, 0, k, idx, w, hn, hok, hr, hk, _ => by
      simp only [Subs.NoAskAll] at hn
      simp only [Subs.OKAll] at hok
      simp only [Subs.ResumableOKAll] at hr
      simp only [Subs.requestAt]
      exact Node.request_err_noAsk n k idx w hn.1 hok.1 hr.1 hk
  | .cons b n r, i+1, k, idx, w, hn, hok, hr, hk, hi => by
      simp only [Subs.NoAskAll] at hn
      simp only [Subs.OKAll] at hok
      simp only [Subs.ResumableOKAll] at hr
      simp only [Subs.len] at hi
      simp only [Subs.requestAt]
      exact Subs.requestAt_err_noAsk r i k idx w hn.2 hok.2 hr.2 hk (by omega)
theorem Subs.requestAll_err_noAsk : (s : Subs) → (k : Kind) → (idx : Option Nat) → (w : World U) →
    s.NoAskAll → s.OKAll → s.ResumableOKAll → k.Plain → (s.requestAll ⟨k, idx⟩ w).2.err = w.err
  | .nil, _, _, _, _, _, _, _ => rfl
  | .cons b n r, k, idx, w, hn, hok, hr, hk => by
      simp only [Subs.NoAskAll] at hn
      simp only [Subs.OKAll] at hok
      simp only [Subs.ResumableOKAll] at hr
      simp only [Subs.requestAll]
      rw [Subs.requestAll_err_noAsk r k idx _ hn.2 hok.2 hr.2 hk, Node.request_err_noAsk n k idx w hn.1 hok.1 hr.1 hk]
end

end Hfsm
