/-
Helper lemmas for property C17 (identifiers and structural metadata).
-/
import Hfsm.Model.ShapeInfo

namespace Hfsm

/-! ### type-list halves -/

theorem lowerT_eq_take {α : Type} (half idx : Nat) (l : List α) :
    lowerT half idx l = l.take (half - idx) := by
  induction l generalizing idx with
  | nil => simp [lowerT]
  | cons x r ih =>
    simp only [lowerT]
    split
    · rename_i h
      have : half - idx = (half - (idx + 1)) + 1 := by omega
      rw [this, List.take_succ_cons, ih]
    · rename_i h
      have : half - idx = 0 := by omega
      rw [this, ih]
      have : half - (idx + 1) = 0 := by omega
      simp [this]

theorem upperT_eq_drop {α : Type} (half idx : Nat) (l : List α) :
    upperT half idx l = l.drop (half - idx) := by
  induction l generalizing idx with
  | nil => simp [upperT]
  | cons x r ih =>
    simp only [upperT]
    split
    · rename_i h
      have : half - idx = (half - (idx + 1)) + 1 := by omega
      rw [this, List.drop_succ_cons, ih]
    · rename_i h
      have : half - idx = 0 := by omega
      simp [this]

theorem lHalf_eq_take {α : Type} (l : List α) : lHalf l = l.take (l.length / 2) := by
  simp [lHalf, lowerT_eq_take]

theorem rHalf_eq_drop {α : Type} (l : List α) : rHalf l = l.drop (l.length / 2) := by
  simp [rHalf, upperT_eq_drop]

theorem lHalf_append_rHalf {α : Type} (l : List α) : lHalf l ++ rHalf l = l := by
  simp [lHalf_eq_take, rHalf_eq_drop]

theorem lHalf_length {α : Type} (l : List α) : (lHalf l).length = l.length / 2 := by
  simp [lHalf_eq_take]; omega

/-! ### CSI_ / OSI_ folds -/

theorem csiFold_cons (i : Info) (r : List Info) :
    csiFold (i :: r) = Info.consC i (csiFold r) := by
  cases r with
  | nil => simp [csiFold, Info.single, Info.consC, Info.zero]
  | cons a t => simp [csiFold]

theorem osiFold_cons (i : Info) (r : List Info) :
    osiFold (i :: r) = Info.consO i (osiFold r) := by
  cases r with
  | nil => simp [osiFold, Info.single, Info.consO, Info.consC, Info.zero]
  | cons a t => simp [osiFold]

@[simp] theorem csiFold_nil : csiFold [] = Info.zero := rfl
@[simp] theorem osiFold_nil : osiFold [] = Info.zero := rfl

@[simp] theorem Idx.skip_zero (ix : Idx) : ix.skip Info.zero = ix := by
  simp [Idx.skip, Info.zero]

theorem Idx.skip_consC (ix : Idx) (i r : Info) :
    ix.skip (Info.consC i r) = (ix.skip i).skip r := by
  simp [Idx.skip, Info.consC, Nat.add_assoc]

theorem Idx.skip_consO (ix : Idx) (i r : Info) :
    ix.skip (Info.consO i r) = (ix.skip i).skip r := by
  simp [Idx.skip, Info.consO, Info.consC, Nat.add_assoc]

theorem Idx.skip_csiFold (ix : Idx) (l : List Info) :
    ix.skip (csiFold l) = l.foldl Idx.skip ix := by
  induction l generalizing ix with
  | nil => simp
  | cons i r ih => rw [csiFold_cons, Idx.skip_consC, ih, List.foldl_cons]

theorem Idx.skip_osiFold (ix : Idx) (l : List Info) :
    ix.skip (osiFold l) = l.foldl Idx.skip ix := by
  induction l generalizing ix with
  | nil => simp
  | cons i r ih => rw [osiFold_cons, Idx.skip_consO, ih, List.foldl_cons]

/-! ### the balanced split assigns the same indices as a left-to-right scan -/

/-- Left-to-right assignment: each listed type starts where the previous one ended, prongs count up. -/
def linAssign (ix : Idx) (np : Nat) : List Info → List (Idx × Nat)
  | [] => []
  | i :: r => (ix, np) :: linAssign (ix.skip i) (np + 1) r

theorem linAssign_append (ix : Idx) (np : Nat) (a b : List Info) :
    linAssign ix np (a ++ b) =
      linAssign ix np a ++ linAssign (a.foldl Idx.skip ix) (np + a.length) b := by
  induction a generalizing ix np with
  | nil => simp [linAssign]
  | cons i r ih =>
    simp only [List.cons_append, linAssign, ih, List.foldl_cons, List.length_cons]
    have : np + 1 + r.length = np + (r.length + 1) := by omega
    rw [this]

theorem csAssign_eq_linAssign (ix : Idx) (np : Nat) (l : List Info) :
    csAssign ix np l = linAssign ix np l := by
  fun_induction csAssign ix np l with
  | case1 => rfl
  | case2 => rfl
  | case3 ix np a b r ih1 ih2 =>
    rw [ih1, ih2, Idx.skip_csiFold]
    conv => rhs; rw [← lHalf_append_rHalf (a :: b :: r)]
    rw [linAssign_append]

theorem linAssign_length (ix : Idx) (np : Nat) (l : List Info) :
    (linAssign ix np l).length = l.length := by
  induction l generalizing ix np with
  | nil => rfl
  | cons i r ih => simp [linAssign, ih]

theorem csAssign_length (ix : Idx) (np : Nat) (l : List Info) :
    (csAssign ix np l).length = l.length := by
  rw [csAssign_eq_linAssign, linAssign_length]

/-- The `Single` leaves of the materialised `CS_` tree. -/
def CsNode.single? : CsNode → Option (Idx × Nat)
  | .single ix p => some (ix, p)
  | .split .. => none

/-- `csAssign` lists exactly the one-type `CS_` nodes of the materialised tree (`csTrace`), left to
right. -/
theorem csTrace_singles (ix : Idx) (np : Nat) (l : List Info) :
    (csTrace ix np l).filterMap CsNode.single? = csAssign ix np l := by
  fun_induction csTrace ix np l with
  | case1 => simp [csAssign]
  | case2 => simp [csAssign, CsNode.single?]
  | case3 ix np a b r ih1 ih2 =>
    rw [csAssign]
    simp [List.filterMap_cons, List.filterMap_append, CsNode.single?, ih1, ih2]

/-! ### the composite walk is the left-to-right walk -/

theorem Shapes.infos_length : (subs : Shapes) → subs.infos.length = subs.length
  | .nil => rfl
  | .cons _ r => by simp [Shapes.infos, Shapes.length, Shapes.infos_length r]

theorem Shapes.walkC_linAssign : (subs : Shapes) → (ix : Idx) → (np : Nat) → (f : Int) →
    (path : Path) →
    subs.walkC (linAssign ix np subs.infos) f path np = subs.walkO ix np f path
  | .nil, _, _, _, _ => by simp [Shapes.walkC, Shapes.walkO]
  | .cons s r, ix, np, f, path => by
    simp only [Shapes.infos, linAssign, Shapes.walkC, Shapes.walkO]
    rw [Shapes.walkC_linAssign r]

/-- `C_`'s sub-states, reached through the balanced `LHalf/RHalf` tree, get exactly the indices and
prongs a left-to-right scan gives them. -/
theorem Shape.walk_compo (h : Bool) (i : Nat) (st : Strategy) (subs : Shapes)
    (ix : Idx) (parent : Parent) (path : Path) :
    (Shape.compo h i st subs).walk ix parent path =
      { path, kind := .compo st, headed := h, idx := ix, parent, width := subs.length,
        size := (Shape.compo h i st subs).info.stateCount } ::
        subs.walkO ix.compoSubs 0 ix.compoId path := by
  simp only [Shape.walk, Shape.info, csAssign_eq_linAssign, Shapes.walkC_linAssign]

theorem Shape.walk_ortho (h : Bool) (i : Nat) (subs : Shapes)
    (ix : Idx) (parent : Parent) (path : Path) :
    (Shape.ortho h i subs).walk ix parent path =
      { path, kind := .ortho, headed := h, idx := ix, parent, width := subs.length,
        size := (Shape.ortho h i subs).info.stateCount } ::
        subs.walkO (ix.orthoSubs subs.length) 0 ix.orthoId path := by
  simp only [Shape.walk, Shape.info]

theorem Shape.walk_leaf (i : Nat) (ix : Idx) (parent : Parent) (path : Path) :
    (Shape.leaf i).walk ix parent path =
      [{ path, kind := .leaf, headed := true, idx := ix, parent, width := 1, size := 1 }] := by
  simp only [Shape.walk]

/-! ### running counters -/

/-- Advance the running counters past one visited node: every node takes a state id, a composite
region a composite index, an orthogonal region an orthogonal index and `⌈width/8⌉` units. -/
def Idx.step (ix : Idx) (r : NodeRec) : Idx :=
  match r.kind with
  | .leaf => ⟨ix.stateId + 1, ix.compoIndex, ix.orthoIndex, ix.orthoUnit⟩
  | .compo _ => ⟨ix.stateId + 1, ix.compoIndex + 1, ix.orthoIndex, ix.orthoUnit⟩
  | .ortho => ⟨ix.stateId + 1, ix.compoIndex, ix.orthoIndex + 1, ix.orthoUnit + contain r.width 8⟩

theorem Idx.step_leaf (ix : Idx) (r : NodeRec) (h : r.kind = .leaf) :
    ix.step r = ⟨ix.stateId + 1, ix.compoIndex, ix.orthoIndex, ix.orthoUnit⟩ := by
  simp [Idx.step, h]

theorem Idx.step_compo (ix : Idx) (r : NodeRec) (st : Strategy) (h : r.kind = .compo st) :
    ix.step r = ix.compoSubs := by
  simp [Idx.step, h, Idx.compoSubs]

theorem Idx.step_ortho (ix : Idx) (r : NodeRec) (h : r.kind = .ortho) :
    ix.step r = ix.orthoSubs r.width := by
  simp [Idx.step, h, Idx.orthoSubs]

/-- Every node of the list carries exactly the value of the running counters at the moment it is
visited (depth-first numbering with running counters starting at `ix`). -/
def Numbered : Idx → List NodeRec → Prop
  | _, [] => True
  | ix, r :: t => r.idx = ix ∧ Numbered (ix.step r) t

theorem numbered_append (ix : Idx) (a b : List NodeRec) :
    Numbered ix (a ++ b) ↔ Numbered ix a ∧ Numbered (a.foldl Idx.step ix) b := by
  induction a generalizing ix with
  | nil => simp [Numbered]
  | cons r t ih => simp [Numbered, ih, and_assoc]

theorem Shapes.foldl_skip_infos_cons (s : Shape) (r : Shapes) (ix : Idx) :
    (Shapes.cons s r).infos.foldl Idx.skip ix = r.infos.foldl Idx.skip (ix.skip s.info) := by
  simp [Shapes.infos]

mutual
theorem Shape.walk_numbered : (s : Shape) → (ix : Idx) → (parent : Parent) → (path : Path) →
    Numbered ix (s.walk ix parent path) ∧
      (s.walk ix parent path).foldl Idx.step ix = ix.skip s.info
  | .leaf i, ix, parent, path => by
    simp [Shape.walk_leaf, Numbered, Idx.step, Idx.skip, Shape.info, Info.state]
  | .compo h i st subs, ix, parent, path => by
    have ih := Shapes.walkO_numbered subs ix.compoSubs 0 ix.compoId path
    rw [Shape.walk_compo]
    refine ⟨⟨rfl, ?_⟩, ?_⟩
    · simpa [Idx.step, Idx.compoSubs] using ih.1
    · simp only [List.foldl_cons]
      rw [Idx.step_compo _ _ st rfl, ih.2, ← Idx.skip_csiFold]
      simp [Idx.skip, Idx.compoSubs, Shape.info, Info.compo]
      omega
  | .ortho h i subs, ix, parent, path => by
    have ih := Shapes.walkO_numbered subs (ix.orthoSubs subs.length) 0 ix.orthoId path
    rw [Shape.walk_ortho]
    refine ⟨⟨rfl, ?_⟩, ?_⟩
    · simpa [Idx.step, Idx.orthoSubs] using ih.1
    · simp only [List.foldl_cons]
      rw [Idx.step_ortho _ _ rfl, ih.2, ← Idx.skip_osiFold]
      simp [Idx.skip, Idx.orthoSubs, Shape.info, Info.ortho]
      omega
theorem Shapes.walkO_numbered : (subs : Shapes) → (ix : Idx) → (np : Nat) → (f : Int) →
    (path : Path) →
    Numbered ix (subs.walkO ix np f path) ∧
      (subs.walkO ix np f path).foldl Idx.step ix = subs.infos.foldl Idx.skip ix
  | .nil, ix, np, f, path => by simp [Shapes.walkO, Numbered, Shapes.infos]
  | .cons s r, ix, np, f, path => by
    have ih1 := Shape.walk_numbered s ix ⟨f, np⟩ (path ++ [np])
    have ih2 := Shapes.walkO_numbered r (ix.skip s.info) (np + 1) f path
    simp only [Shapes.walkO, numbered_append, List.foldl_append, ih1.2, Shapes.infos,
      List.foldl_cons]
    exact ⟨⟨ih1.1, ih2.1⟩, ih2.2⟩
end

/-! ### closed form of the running counters -/

/-- Units (bytes of the `orthoRequested` bit array) of an orthogonal region: `contain(WIDTH, 8)`. -/
def Decl.units (d : Decl) : Nat := contain d.width 8

/-- The counters after visiting the nodes `a`: one state id per node, one composite index per
composite region, one orthogonal index and `⌈width/8⌉` units per orthogonal region. -/
def Idx.after (ix : Idx) (a : List NodeRec) : Idx :=
  ⟨ix.stateId + a.length,
   ix.compoIndex + (a.filter (·.isCompo)).length,
   ix.orthoIndex + (a.filter (·.isOrtho)).length,
   ix.orthoUnit + ((a.filter (·.isOrtho)).map (·.units)).sum⟩

theorem foldl_step_eq_after (ix : Idx) (a : List NodeRec) :
    a.foldl Idx.step ix = ix.after a := by
  induction a generalizing ix with
  | nil => simp [Idx.after]
  | cons r t ih =>
    rw [List.foldl_cons, ih]
    cases hk : r.kind with
    | leaf =>
      simp [Idx.after, Idx.step, hk, Decl.isCompo, Decl.isOrtho]; omega
    | compo st =>
      simp [Idx.after, Idx.step, hk, Decl.isCompo, Decl.isOrtho]; omega
    | ortho =>
      simp [Idx.after, Idx.step, hk, Decl.isCompo, Decl.isOrtho, Decl.units]; omega

/-- In a numbered list every node carries the counters of what was visited before it. -/
theorem numbered_prefix (ix : Idx) (a : List NodeRec) (r : NodeRec) (b : List NodeRec)
    (h : Numbered ix (a ++ r :: b)) : r.idx = ix.after a := by
  rw [numbered_append] at h
  rw [← foldl_step_eq_after]
  exact h.2.1

theorem numbered_stateIds (ix : Idx) (l : List NodeRec) (h : Numbered ix l) :
    l.map (·.idx.stateId) = List.range' ix.stateId l.length := by
  induction l generalizing ix with
  | nil => rfl
  | cons r t ih =>
    obtain ⟨h1, h2⟩ := h
    have hs : (ix.step r).stateId = ix.stateId + 1 := by
      cases hk : r.kind <;> simp [Idx.step, hk]
    simp only [List.map_cons, List.length_cons, List.range'_succ, ih _ h2, hs, h1]

theorem numbered_filter_range (p : NodeRec → Bool) (g : Idx → Nat)
    (hstep : ∀ ix r, g (ix.step r) = g ix + (if p r then 1 else 0))
    (ix : Idx) (l : List NodeRec) (h : Numbered ix l) :
    (l.filter p).map (fun r => g r.idx) = List.range' (g ix) (l.filter p).length := by
  induction l generalizing ix with
  | nil => rfl
  | cons r t ih =>
    obtain ⟨h1, h2⟩ := h
    have ih' := ih _ h2
    rw [hstep] at ih'
    by_cases hp : p r = true
    · simp only [hp, if_true] at ih'
      simp only [List.filter_cons, hp, if_true, List.map_cons, List.length_cons,
        List.range'_succ, ih', h1]
    · simp only [hp, Bool.false_eq_true, if_false, Nat.add_zero] at ih'
      simp only [List.filter_cons, hp, Bool.false_eq_true, if_false, ih']

theorem numbered_compoIndex (ix : Idx) (l : List NodeRec) (h : Numbered ix l) :
    (l.filter (·.isCompo)).map (·.idx.compoIndex) =
      List.range' ix.compoIndex (l.filter (·.isCompo)).length := by
  refine numbered_filter_range (·.isCompo) (·.compoIndex) ?_ ix l h
  intro ix r
  cases hk : r.kind <;> simp [Idx.step, hk, Decl.isCompo]

theorem numbered_orthoIndex (ix : Idx) (l : List NodeRec) (h : Numbered ix l) :
    (l.filter (·.isOrtho)).map (·.idx.orthoIndex) =
      List.range' ix.orthoIndex (l.filter (·.isOrtho)).length := by
  refine numbered_filter_range (·.isOrtho) (·.orthoIndex) ?_ ix l h
  intro ix r
  cases hk : r.kind <;> simp [Idx.step, hk, Decl.isOrtho]

theorem numbered_regionId (ix : Idx) (l : List NodeRec) (h : Numbered ix l) :
    (l.filter (·.isRegion)).map (·.idx.regionId) =
      List.range' ix.regionId (l.filter (·.isRegion)).length := by
  refine numbered_filter_range (·.isRegion) (·.regionId) ?_ ix l h
  intro ix r
  cases hk : r.kind <;> simp [Idx.step, hk, Decl.isRegion, Idx.regionId] <;> omega

/-! ### counts as sums over the visited nodes -/

theorem sum_map_ite {α : Type} (p : α → Bool) (g : α → Nat) (l : List α) :
    (l.map (fun x => if p x = true then g x else 0)).sum = ((l.filter p).map g).sum := by
  induction l with
  | nil => rfl
  | cons x t ih =>
    by_cases h : p x = true
    · simp only [List.map_cons, List.sum_cons, h, if_true, List.filter_cons, ih]
    · simp only [List.map_cons, List.sum_cons, h, List.filter_cons, ih, Bool.false_eq_true,
        if_false, Nat.zero_add]

theorem Shape.skip_info_eq_after (s : Shape) (ix : Idx) (parent : Parent) (path : Path) :
    ix.skip s.info = ix.after (s.walk ix parent path) := by
  rw [← foldl_step_eq_after, (Shape.walk_numbered s ix parent path).2]

/-- Per-node contributions to the additive members not covered by `Idx`. -/
def Decl.regionOne (d : Decl) : Nat := if d.isRegion then 1 else 0
def Decl.prongs (d : Decl) : Nat := if d.isCompo then d.width else 0
def Decl.resumable (d : Decl) : Nat := if d.isCompo then bitContain d.width + 1 else 0

/-- The three additive members of a list of infos. -/
def sumRegion (l : List Info) : Nat := (l.map (·.regionCount)).sum
def sumProngs (l : List Info) : Nat := (l.map (·.compoProngs)).sum
def sumResum (l : List Info) : Nat := (l.map (·.resumableBits)).sum

theorem csiFold_additive (l : List Info) :
    (csiFold l).regionCount = sumRegion l ∧ (csiFold l).compoProngs = sumProngs l ∧
      (csiFold l).resumableBits = sumResum l := by
  induction l with
  | nil => simp [Info.zero, sumRegion, sumProngs, sumResum]
  | cons i r ih =>
    rw [csiFold_cons]
    simp [Info.consC, ih, sumRegion, sumProngs, sumResum]

theorem osiFold_additive (l : List Info) :
    (osiFold l).regionCount = sumRegion l ∧ (osiFold l).compoProngs = sumProngs l ∧
      (osiFold l).resumableBits = sumResum l := by
  induction l with
  | nil => simp [Info.zero, sumRegion, sumProngs, sumResum]
  | cons i r ih =>
    rw [osiFold_cons]
    simp [Info.consO, Info.consC, ih, sumRegion, sumProngs, sumResum]

mutual
theorem Shape.info_additive : (s : Shape) → (ix : Idx) → (parent : Parent) → (path : Path) →
    s.info.regionCount = ((s.walk ix parent path).map (·.regionOne)).sum ∧
    s.info.compoProngs = ((s.walk ix parent path).map (·.prongs)).sum ∧
    s.info.resumableBits = ((s.walk ix parent path).map (·.resumable)).sum
  | .leaf i, ix, parent, path => by
    simp [Shape.walk_leaf, Shape.info, Info.state, Decl.regionOne, Decl.prongs, Decl.resumable,
      Decl.isRegion, Decl.isCompo]
  | .compo h i st subs, ix, parent, path => by
    have ih := Shapes.infos_additive subs ix.compoSubs 0 ix.compoId path
    have hc := csiFold_additive subs.infos
    rw [Shape.walk_compo]
    simp only [Shape.info, Info.compo, hc.1, hc.2.1, hc.2.2, ih.1, ih.2.1, ih.2.2, List.map_cons,
      List.sum_cons, Decl.regionOne, Decl.prongs, Decl.resumable, Decl.isRegion, Decl.isCompo]
    simp; omega
  | .ortho h i subs, ix, parent, path => by
    have ih := Shapes.infos_additive subs (ix.orthoSubs subs.length) 0 ix.orthoId path
    have hc := osiFold_additive subs.infos
    rw [Shape.walk_ortho]
    simp only [Shape.info, Info.ortho, hc.1, hc.2.1, hc.2.2, ih.1, ih.2.1, ih.2.2, List.map_cons,
      List.sum_cons, Decl.regionOne, Decl.prongs, Decl.resumable, Decl.isRegion, Decl.isCompo]
    simp
theorem Shapes.infos_additive : (subs : Shapes) → (ix : Idx) → (np : Nat) → (f : Int) →
    (path : Path) →
    sumRegion subs.infos = ((subs.walkO ix np f path).map (·.regionOne)).sum ∧
    sumProngs subs.infos = ((subs.walkO ix np f path).map (·.prongs)).sum ∧
    sumResum subs.infos = ((subs.walkO ix np f path).map (·.resumable)).sum
  | .nil, ix, np, f, path => by simp [Shapes.walkO, Shapes.infos, sumRegion, sumProngs, sumResum]
  | .cons s r, ix, np, f, path => by
    have ih1 := Shape.info_additive s ix ⟨f, np⟩ (path ++ [np])
    have ih2 := Shapes.infos_additive r (ix.skip s.info) (np + 1) f path
    simp only [sumRegion, sumProngs, sumResum] at ih2 ⊢
    simp only [Shapes.walkO, Shapes.infos, List.map_cons, List.sum_cons, List.map_append,
      List.sum_append, ih1.1, ih1.2.1, ih1.2.2, ih2.1, ih2.2.1, ih2.2.2, and_self]
end

/-! ### the declaration: plain depth-first pre-order enumeration -/

mutual
/-- Depth-first pre-order enumeration of the declared nodes: the node (= the head state of a
region) first, then its sub-states in declaration order.  No identifier arithmetic. -/
def Shape.decls (path : Path) : Shape → List Decl
  | .leaf _ => [{ path, kind := .leaf, headed := true, width := 1 }]
  | .compo h _ st subs => { path, kind := .compo st, headed := h, width := subs.length } ::
      subs.declsFrom path 0
  | .ortho h _ subs => { path, kind := .ortho, headed := h, width := subs.length } ::
      subs.declsFrom path 0
/-- The sub-states of a region at `path`, the first one being at declaration position `k`. -/
def Shapes.declsFrom (path : Path) (k : Nat) : Shapes → List Decl
  | .nil => []
  | .cons s r => s.decls (path ++ [k]) ++ r.declsFrom path (k + 1)
end

mutual
theorem Shape.walk_decls : (s : Shape) → (ix : Idx) → (parent : Parent) → (path : Path) →
    (s.walk ix parent path).map (·.toDecl) = s.decls path
  | .leaf i, ix, parent, path => by simp [Shape.walk_leaf, Shape.decls]
  | .compo h i st subs, ix, parent, path => by
    simp [Shape.walk_compo, Shape.decls, Shapes.walkO_decls subs]
  | .ortho h i subs, ix, parent, path => by
    simp [Shape.walk_ortho, Shape.decls, Shapes.walkO_decls subs]
theorem Shapes.walkO_decls : (subs : Shapes) → (ix : Idx) → (np : Nat) → (f : Int) →
    (path : Path) → (subs.walkO ix np f path).map (·.toDecl) = subs.declsFrom path np
  | .nil, ix, np, f, path => by simp [Shapes.walkO, Shapes.declsFrom]
  | .cons s r, ix, np, f, path => by
    simp [Shapes.walkO, Shapes.declsFrom, Shape.walk_decls s, Shapes.walkO_decls r]
end

mutual
theorem Shape.decls_paths : (s : Shape) → (path : Path) →
    (s.decls path).map (·.path) = s.stateList.map (path ++ ·)
  | .leaf i, path => by simp [Shape.decls, Shape.stateList]
  | .compo h i st subs, path => by
    simp [Shape.decls, Shape.stateList, Shapes.declsFrom_paths subs]
  | .ortho h i subs, path => by
    simp [Shape.decls, Shape.stateList, Shapes.declsFrom_paths subs]
theorem Shapes.declsFrom_paths : (subs : Shapes) → (path : Path) → (k : Nat) →
    (subs.declsFrom path k).map (·.path) = (subs.stateLists k).map (path ++ ·)
  | .nil, path, k => by simp [Shapes.declsFrom, Shapes.stateLists]
  | .cons s r, path, k => by
    simp [Shapes.declsFrom, Shapes.stateLists, Shape.decls_paths s, Shapes.declsFrom_paths r,
      Function.comp_def]
end

@[simp] theorem Decl.isRegion_leaf (p : Path) (h : Bool) (w : Nat) :
    Decl.isRegion ⟨p, .leaf, h, w⟩ = false := rfl
@[simp] theorem Decl.isRegion_compo (p : Path) (st : Strategy) (h : Bool) (w : Nat) :
    Decl.isRegion ⟨p, .compo st, h, w⟩ = true := rfl
@[simp] theorem Decl.isRegion_ortho (p : Path) (h : Bool) (w : Nat) :
    Decl.isRegion ⟨p, .ortho, h, w⟩ = true := rfl

mutual
theorem Shape.decls_regionPaths : (s : Shape) → (path : Path) →
    ((s.decls path).filter (·.isRegion)).map (·.path) = s.regionList.map (path ++ ·)
  | .leaf i, path => by simp [Shape.decls, Shape.regionList]
  | .compo h i st subs, path => by
    simp [Shape.decls, Shape.regionList, List.filter_cons, Shapes.declsFrom_regionPaths subs]
  | .ortho h i subs, path => by
    simp [Shape.decls, Shape.regionList, List.filter_cons, Shapes.declsFrom_regionPaths subs]
theorem Shapes.declsFrom_regionPaths : (subs : Shapes) → (path : Path) → (k : Nat) →
    ((subs.declsFrom path k).filter (·.isRegion)).map (·.path) =
      (subs.regionLists k).map (path ++ ·)
  | .nil, path, k => by simp [Shapes.declsFrom, Shapes.regionLists]
  | .cons s r, path, k => by
    simp [Shapes.declsFrom, Shapes.regionLists, Shape.decls_regionPaths s,
      Shapes.declsFrom_regionPaths r, Function.comp_def]
end

/-! ### no type occurs twice in `StateList` -/

mutual
theorem Shape.stateList_nodup : (s : Shape) → s.stateList.Nodup
  | .leaf i => by simp [Shape.stateList]
  | .compo h i st subs => by
    have ih := Shapes.stateLists_nodup subs 0
    simp only [Shape.stateList, List.nodup_cons]
    refine ⟨?_, ih.1⟩
    intro hm
    obtain ⟨j, q, hq, _⟩ := ih.2 _ hm
    cases hq
  | .ortho h i subs => by
    have ih := Shapes.stateLists_nodup subs 0
    simp only [Shape.stateList, List.nodup_cons]
    refine ⟨?_, ih.1⟩
    intro hm
    obtain ⟨j, q, hq, _⟩ := ih.2 _ hm
    cases hq
theorem Shapes.stateLists_nodup : (subs : Shapes) → (k : Nat) →
    (subs.stateLists k).Nodup ∧ ∀ p ∈ subs.stateLists k, ∃ j q, p = j :: q ∧ k ≤ j
  | .nil, k => by simp [Shapes.stateLists]
  | .cons s r, k => by
    have ih1 := Shape.stateList_nodup s
    have ih2 := Shapes.stateLists_nodup r (k + 1)
    simp only [Shapes.stateLists, List.nodup_append]
    refine ⟨⟨?_, ih2.1, ?_⟩, ?_⟩
    · rw [List.Nodup, List.pairwise_map]
      exact List.Pairwise.imp (fun h => by simpa using h) ih1
    · intro a ha b hb hab
      obtain ⟨j, q, hq, hj⟩ := ih2.2 b hb
      simp only [List.mem_map] at ha
      obtain ⟨q', _, rfl⟩ := ha
      rw [hq] at hab
      cases hab
      omega
    · intro p hp
      simp only [List.mem_append, List.mem_map] at hp
      rcases hp with ⟨q, _, rfl⟩ | hp
      · exact ⟨k, q, rfl, Nat.le_refl k⟩
      · obtain ⟨j, q, hq, hj⟩ := ih2.2 p hp
        exact ⟨j, q, hq, by omega⟩
end

theorem idxOf?_of_nodup {l : List Path} (hn : l.Nodup) (k : Nat) (a : Path)
    (h : l[k]? = some a) : l.idxOf? a = some k := by
  induction l generalizing k with
  | nil => simp at h
  | cons x t ih =>
    rw [List.nodup_cons] at hn
    rw [List.idxOf?_cons]
    cases k with
    | zero =>
      simp at h
      simp [h]
    | succ k =>
      simp at h
      have hne : (x == a) = false := by
        have hmem : a ∈ t := List.mem_of_getElem? h
        simp only [beq_eq_false_iff_ne, ne_eq]
        rintro rfl
        exact hn.1 hmem
      simp [hne, ih hn.2 k h]

/-! ### ACTIVE_BITS and REVERSE_DEPTH -/

/-- Maximum of a list of naturals (0 for the empty list). -/
def lmax (l : List Nat) : Nat := l.foldr max 0

@[simp] theorem lmax_nil : lmax [] = 0 := rfl
@[simp] theorem lmax_cons (a : Nat) (l : List Nat) : lmax (a :: l) = max a (lmax l) := rfl

theorem lmax_append (a b : List Nat) : lmax (a ++ b) = max (lmax a) (lmax b) := by
  induction a with
  | nil => simp
  | cons x t ih => simp [ih, Nat.max_assoc]

theorem lmax_map_succ (l : List Nat) (h : l ≠ []) : lmax (l.map (· + 1)) = lmax l + 1 := by
  induction l with
  | nil => exact absurd rfl h
  | cons x t ih =>
    cases t with
    | nil => simp
    | cons y u =>
      have := ih (by simp)
      simp only [List.map_cons, lmax_cons] at this ⊢
      omega

theorem csiFold_active (l : List Info) :
    (csiFold l).activeBits = lmax (l.map (·.activeBits)) := by
  induction l with
  | nil => simp [Info.zero]
  | cons i r ih => rw [csiFold_cons]; simp [Info.consC, ih]

theorem osiFold_active (l : List Info) :
    (osiFold l).activeBits = (l.map (·.activeBits)).sum := by
  induction l with
  | nil => simp [Info.zero]
  | cons i r ih => rw [osiFold_cons]; simp [Info.consO, ih]

theorem csiFold_depth (l : List Info) :
    (csiFold l).reverseDepth = lmax (l.map (·.reverseDepth)) := by
  induction l with
  | nil => simp [Info.zero]
  | cons i r ih => rw [csiFold_cons]; simp [Info.consC, ih]

theorem osiFold_depth (l : List Info) :
    (osiFold l).reverseDepth = lmax (l.map (·.reverseDepth)) := by
  induction l with
  | nil => simp [Info.zero]
  | cons i r ih => rw [osiFold_cons]; simp [Info.consO, Info.consC, ih]

theorem Shapes.infos_eq_map : (subs : Shapes) → subs.infos = subs.toList.map Shape.info
  | .nil => rfl
  | .cons s r => by simp [Shapes.infos, Shapes.toList, Shapes.infos_eq_map r]

theorem Shape.stateList_ne_nil (s : Shape) : s.stateList ≠ [] := by
  cases s <;> simp [Shape.stateList]

mutual
theorem Shape.reverseDepth_eq : (s : Shape) →
    s.info.reverseDepth = lmax (s.stateList.map List.length) + 1
  | .leaf i => by simp [Shape.info, Info.state, Shape.stateList]
  | .compo h i st subs => by
    simp [Shape.info, Info.compo, Shape.stateList, csiFold_depth, Shapes.depth_eq subs 0]
  | .ortho h i subs => by
    simp [Shape.info, Info.ortho, Shape.stateList, osiFold_depth, Shapes.depth_eq subs 0]
theorem Shapes.depth_eq : (subs : Shapes) → (k : Nat) →
    lmax (subs.infos.map (·.reverseDepth)) = lmax ((subs.stateLists k).map List.length)
  | .nil, k => by simp [Shapes.infos, Shapes.stateLists]
  | .cons s r, k => by
    have h1 := Shape.reverseDepth_eq s
    have h2 := Shapes.depth_eq r (k + 1)
    have h3 := lmax_map_succ (s.stateList.map List.length)
      (by simpa using Shape.stateList_ne_nil s)
    simp only [Shapes.infos, Shapes.stateLists, List.map_cons, lmax_cons, List.map_append,
      lmax_append, List.map_map, h1, h2]
    simp only [List.map_map] at h3
    have : (List.length ∘ fun x => k :: x) = ((fun x => x + 1) ∘ List.length) := by
      funext q; simp
    rw [this, h3]
end

/-! ### parents: containing fork and declaration position -/

/-- `r` is registered as the `k`-th sub-state of a region `pr` visited in `l`: its path is the
region's path extended by `k`, and its `Parent` is `{pr's fork id, k}`. -/
def ChildOf (l : List NodeRec) (r : NodeRec) : Prop :=
  ∃ q k, r.path = q ++ [k] ∧ ∃ pr ∈ l, pr.path = q ∧ pr.isRegion = true ∧
    r.parent = ⟨pr.forkId, k⟩

theorem ChildOf.mono {l l' : List NodeRec} {r : NodeRec} (h : ∀ x ∈ l, x ∈ l') :
    ChildOf l r → ChildOf l' r := by
  rintro ⟨q, k, hp, pr, hm, h1, h2, h3⟩
  exact ⟨q, k, hp, pr, h _ hm, h1, h2, h3⟩

mutual
theorem Shape.walk_parents : (s : Shape) → (ix : Idx) → (parent : Parent) → (path : Path) →
    ∃ r0 t, s.walk ix parent path = r0 :: t ∧ r0.path = path ∧ r0.parent = parent ∧ r0.idx = ix ∧
      ∀ r ∈ t, ChildOf (r0 :: t) r
  | .leaf i, ix, parent, path => by
    refine ⟨_, [], Shape.walk_leaf i ix parent path, rfl, rfl, rfl, ?_⟩
    simp
  | .compo h i st subs, ix, parent, path => by
    have ih := Shapes.walkO_parents subs ix.compoSubs 0 ix.compoId path
    refine ⟨_, _, Shape.walk_compo h i st subs ix parent path, rfl, rfl, rfl, ?_⟩
    intro r hr
    rcases ih r hr with ⟨k, hp, hpar⟩ | hc
    · exact ⟨path, k, hp, _, List.mem_cons_self, rfl, rfl, hpar⟩
    · exact hc.mono (fun x hx => List.mem_cons_of_mem _ hx)
  | .ortho h i subs, ix, parent, path => by
    have ih := Shapes.walkO_parents subs (ix.orthoSubs subs.length) 0 ix.orthoId path
    refine ⟨_, _, Shape.walk_ortho h i subs ix parent path, rfl, rfl, rfl, ?_⟩
    intro r hr
    rcases ih r hr with ⟨k, hp, hpar⟩ | hc
    · exact ⟨path, k, hp, _, List.mem_cons_self, rfl, rfl, hpar⟩
    · exact hc.mono (fun x hx => List.mem_cons_of_mem _ hx)
theorem Shapes.walkO_parents : (subs : Shapes) → (ix : Idx) → (np : Nat) → (f : Int) →
    (path : Path) → ∀ r ∈ subs.walkO ix np f path,
      (∃ k, r.path = path ++ [k] ∧ r.parent = ⟨f, k⟩) ∨ ChildOf (subs.walkO ix np f path) r
  | .nil, ix, np, f, path => by simp [Shapes.walkO]
  | .cons s rest, ix, np, f, path => by
    obtain ⟨r0, t, hw, hp, hpar, _, ht⟩ := Shape.walk_parents s ix ⟨f, np⟩ (path ++ [np])
    have ih := Shapes.walkO_parents rest (ix.skip s.info) (np + 1) f path
    intro r hr
    simp only [Shapes.walkO, List.mem_append] at hr ⊢
    rcases hr with hr | hr
    · rw [hw] at hr
      rcases List.mem_cons.mp hr with rfl | hr'
      · exact Or.inl ⟨np, hp, hpar⟩
      · refine Or.inr ((ht r hr').mono ?_)
        intro x hx
        exact List.mem_append_left _ (hw ▸ hx)
    · rcases ih r hr with hl | hc
      · exact Or.inl hl
      · exact Or.inr (hc.mono (fun x hx => List.mem_append_right _ hx))
end

/-! ### sub-tree id ranges: contiguous, nested, disjoint between siblings -/

def sumStates (l : List Info) : Nat := (l.map (·.stateCount)).sum

theorem csiFold_stateCount (l : List Info) : (csiFold l).stateCount = sumStates l := by
  induction l with
  | nil => simp [Info.zero, sumStates]
  | cons i r ih => rw [csiFold_cons]; simp [Info.consC, ih, sumStates]

theorem osiFold_stateCount (l : List Info) : (osiFold l).stateCount = sumStates l := by
  induction l with
  | nil => simp [Info.zero, sumStates]
  | cons i r ih => rw [osiFold_cons]; simp [Info.consO, Info.consC, ih, sumStates]

/-- Two different declaration positions under the same region never lead to comparable paths. -/
theorem path_branch_ne {path a b : Path} {j k : Nat} (hjk : j ≠ k)
    (ha : (path ++ [j]) <+: a) (hb : (path ++ [k]) <+: b) : ¬ a <+: b := by
  intro hab
  have h1 : (path ++ [j]) <+: b := ha.trans hab
  have h2 : (path ++ [j]) <+: (path ++ [k]) :=
    List.prefix_of_prefix_length_le h1 hb (by simp)
  have h3 := h2.eq_of_length (by simp)
  have h4 := List.append_cancel_left h3
  simp at h4
  exact hjk h4

/-- `InRange lo n l`: every node of `l` has its whole id range `[id, id + size)` inside
`[lo, lo + n)`. -/
def InRange (lo n : Nat) (l : List NodeRec) : Prop :=
  ∀ r ∈ l, lo ≤ r.idx.stateId ∧ r.idx.stateId + r.size ≤ lo + n

/-- Sub-tree characterisation: `r'` lies in the sub-tree of `r` (its path extends `r`'s) iff its
id lies in `[r.id, r.id + r.size)`. -/
def SubtreeRanges (l : List NodeRec) : Prop :=
  ∀ r ∈ l, ∀ r' ∈ l, r.path <+: r'.path ↔
    (r.idx.stateId ≤ r'.idx.stateId ∧ r'.idx.stateId < r.idx.stateId + r.size)

mutual
theorem Shape.walk_ranges : (s : Shape) → (ix : Idx) → (parent : Parent) → (path : Path) →
    (∀ r ∈ s.walk ix parent path, path <+: r.path ∧ 1 ≤ r.size) ∧
    InRange ix.stateId s.info.stateCount (s.walk ix parent path) ∧
    SubtreeRanges (s.walk ix parent path)
  | .leaf i, ix, parent, path => by
    simp [Shape.walk_leaf, InRange, SubtreeRanges, Shape.info, Info.state]
  | .compo h i st subs, ix, parent, path => by
    obtain ⟨ih1, ih2, ih3⟩ := Shapes.walkO_ranges subs ix.compoSubs 0 ix.compoId path
    have hsc : (Shape.compo h i st subs).info.stateCount = 1 + sumStates subs.infos := by
      simp [Shape.info, Info.compo, csiFold_stateCount]
    have hs : ix.compoSubs.stateId = ix.stateId + 1 := rfl
    rw [Shape.walk_compo]
    refine ⟨?_, ?_, ?_⟩
    · intro r hr
      rcases List.mem_cons.mp hr with rfl | hr
      · exact ⟨List.prefix_refl _, by simp [hsc]⟩
      · obtain ⟨k, _, hk, hsz⟩ := ih1 r hr
        exact ⟨(List.prefix_append _ _).trans hk, hsz⟩
    · intro r hr
      rcases List.mem_cons.mp hr with rfl | hr
      · simp
      · have := ih2 r hr
        rw [hs] at this
        rw [hsc]; omega
    · intro r hr r' hr'
      rcases List.mem_cons.mp hr with rfl | hr <;> rcases List.mem_cons.mp hr' with rfl | hr'
      · simp [hsc]; omega
      · obtain ⟨k, _, hk, _⟩ := ih1 r' hr'
        have := ih2 r' hr'
        rw [hs] at this
        simp only [hsc]
        constructor
        · intro _; omega
        · intro _; exact (List.prefix_append _ _).trans hk
      · obtain ⟨k, _, hk, _⟩ := ih1 r hr
        have := ih2 r hr
        rw [hs] at this
        simp only
        constructor
        · intro hp
          have := (hk.trans hp).length_le
          simp at this
          omega
        · intro hc; omega
      · exact ih3 r hr r' hr'
  | .ortho h i subs, ix, parent, path => by
    obtain ⟨ih1, ih2, ih3⟩ :=
      Shapes.walkO_ranges subs (ix.orthoSubs subs.length) 0 ix.orthoId path
    have hsc : (Shape.ortho h i subs).info.stateCount = 1 + sumStates subs.infos := by
      simp [Shape.info, Info.ortho, osiFold_stateCount]
    have hs : (ix.orthoSubs subs.length).stateId = ix.stateId + 1 := rfl
    rw [Shape.walk_ortho]
    refine ⟨?_, ?_, ?_⟩
    · intro r hr
      rcases List.mem_cons.mp hr with rfl | hr
      · exact ⟨List.prefix_refl _, by simp [hsc]⟩
      · obtain ⟨k, _, hk, hsz⟩ := ih1 r hr
        exact ⟨(List.prefix_append _ _).trans hk, hsz⟩
    · intro r hr
      rcases List.mem_cons.mp hr with rfl | hr
      · simp
      · have := ih2 r hr
        rw [hs] at this
        rw [hsc]; omega
    · intro r hr r' hr'
      rcases List.mem_cons.mp hr with rfl | hr <;> rcases List.mem_cons.mp hr' with rfl | hr'
      · simp [hsc]; omega
      · obtain ⟨k, _, hk, _⟩ := ih1 r' hr'
        have := ih2 r' hr'
        rw [hs] at this
        simp only [hsc]
        constructor
        · intro _; omega
        · intro _; exact (List.prefix_append _ _).trans hk
      · obtain ⟨k, _, hk, _⟩ := ih1 r hr
        have := ih2 r hr
        rw [hs] at this
        simp only
        constructor
        · intro hp
          have := (hk.trans hp).length_le
          simp at this
          omega
        · intro hc; omega
      · exact ih3 r hr r' hr'
theorem Shapes.walkO_ranges : (subs : Shapes) → (ix : Idx) → (np : Nat) → (f : Int) →
    (path : Path) →
    (∀ r ∈ subs.walkO ix np f path, ∃ k, np ≤ k ∧ (path ++ [k]) <+: r.path ∧ 1 ≤ r.size) ∧
    InRange ix.stateId (sumStates subs.infos) (subs.walkO ix np f path) ∧
    SubtreeRanges (subs.walkO ix np f path)
  | .nil, ix, np, f, path => by simp [Shapes.walkO, InRange, SubtreeRanges]
  | .cons s rest, ix, np, f, path => by
    obtain ⟨a1, a2, a3⟩ := Shape.walk_ranges s ix ⟨f, np⟩ (path ++ [np])
    obtain ⟨b1, b2, b3⟩ := Shapes.walkO_ranges rest (ix.skip s.info) (np + 1) f path
    have hsum : sumStates (Shapes.cons s rest).infos = s.info.stateCount + sumStates rest.infos := by
      simp [Shapes.infos, sumStates]
    have hsk : (ix.skip s.info).stateId = ix.stateId + s.info.stateCount := rfl
    simp only [Shapes.walkO]
    refine ⟨?_, ?_, ?_⟩
    · intro r hr
      rcases List.mem_append.mp hr with hr | hr
      · exact ⟨np, Nat.le_refl _, (a1 r hr).1, (a1 r hr).2⟩
      · obtain ⟨k, hk, hp, hsz⟩ := b1 r hr
        exact ⟨k, by omega, hp, hsz⟩
    · intro r hr
      rcases List.mem_append.mp hr with hr | hr
      · have := a2 r hr; rw [hsum]; omega
      · have := b2 r hr; rw [hsk] at this; rw [hsum]; omega
    · intro r hr r' hr'
      rcases List.mem_append.mp hr with hr | hr <;> rcases List.mem_append.mp hr' with hr' | hr'
      · exact a3 r hr r' hr'
      · obtain ⟨k, hk, hp, _⟩ := b1 r' hr'
        have h1 := a2 r hr
        have h2 := b2 r' hr'
        rw [hsk] at h2
        constructor
        · intro hpre
          exact absurd hpre (path_branch_ne (by omega) (a1 r hr).1 hp)
        · intro hc; omega
      · obtain ⟨k, hk, hp, hsz⟩ := b1 r hr
        have h1 := a2 r' hr'
        have h2 := b2 r hr
        have h3 := (a1 r' hr').2
        rw [hsk] at h2
        constructor
        · intro hpre
          exact absurd hpre (path_branch_ne (by omega) hp (a1 r' hr').1)
        · intro hc; omega
      · exact b3 r hr r' hr'
end

/-! ### well-formed shapes: regions are non-empty -/

mutual
theorem Shape.walk_width_pos : (s : Shape) → s.wf = true → (ix : Idx) → (parent : Parent) →
    (path : Path) → ∀ r ∈ s.walk ix parent path, 1 ≤ r.width
  | .leaf i, _, ix, parent, path => by simp [Shape.walk_leaf]
  | .compo h i st subs, hw, ix, parent, path => by
    simp only [Shape.wf, Bool.and_eq_true, decide_eq_true_eq] at hw
    rw [Shape.walk_compo]
    intro r hr
    rcases List.mem_cons.mp hr with rfl | hr
    · exact hw.1
    · exact Shapes.walkO_width_pos subs hw.2 _ _ _ _ r hr
  | .ortho h i subs, hw, ix, parent, path => by
    simp only [Shape.wf, Bool.and_eq_true, decide_eq_true_eq] at hw
    rw [Shape.walk_ortho]
    intro r hr
    rcases List.mem_cons.mp hr with rfl | hr
    · exact hw.1
    · exact Shapes.walkO_width_pos subs hw.2 _ _ _ _ r hr
theorem Shapes.walkO_width_pos : (subs : Shapes) → subs.allWf = true → (ix : Idx) → (np : Nat) →
    (f : Int) → (path : Path) → ∀ r ∈ subs.walkO ix np f path, 1 ≤ r.width
  | .nil, _, ix, np, f, path => by simp [Shapes.walkO]
  | .cons s rest, hw, ix, np, f, path => by
    simp only [Shapes.allWf, Bool.and_eq_true] at hw
    intro r hr
    simp only [Shapes.walkO, List.mem_append] at hr
    rcases hr with hr | hr
    · exact Shape.walk_width_pos s hw.1 _ _ _ r hr
    · exact Shapes.walkO_width_pos rest hw.2 _ _ _ _ r hr
end

theorem units_ge_count (l : List NodeRec) (h : ∀ r ∈ l, 1 ≤ r.width) :
    (l.filter (·.isOrtho)).length ≤ ((l.filter (·.isOrtho)).map (·.units)).sum := by
  induction l with
  | nil => simp
  | cons r t ih =>
    have iht := ih (fun x hx => h x (List.mem_cons_of_mem _ hx))
    have hr := h r List.mem_cons_self
    by_cases ho : r.isOrtho = true
    · have hu : 1 ≤ r.units := by
        simp only [Decl.units, contain]; omega
      simp only [List.filter_cons, ho, if_true, List.length_cons, List.map_cons, List.sum_cons]
      omega
    · simpa [List.filter_cons, ho] using iht

/-! ### the registry tables after `deepRegister` -/

theorem setAt_fill {α : Type} (A : List (Option α)) (n : Nat) (v : α) (i : Nat)
    (hi : A.length = i) :
    setAt (A ++ List.replicate (n + 1) none) i v = some ((A ++ [some v]) ++ List.replicate n none) := by
  subst hi
  simp [setAt, List.replicate_succ]

/-- Tables whose first entries are filled in visiting order and whose remaining entries are
untouched. -/
def Registry.partial (sp cp op : List (Option Parent)) (ou : List (Option (Nat × Nat)))
    (rh rs : List (Option Nat)) (rest : List NodeRec) (slack : Nat) : Registry :=
  { stateParents := sp ++ List.replicate rest.length none
    compoParents := cp ++ List.replicate (rest.filter (·.isCompo)).length none
    orthoParents := op ++ List.replicate (rest.filter (·.isOrtho)).length none
    orthoUnits   := ou ++ List.replicate ((rest.filter (·.isOrtho)).length + slack) none
    regionHeads  := rh ++ List.replicate (rest.filter (·.isRegion)).length none
    regionSizes  := rs ++ List.replicate (rest.filter (·.isRegion)).length none }

theorem Registry.addNodes_fill (rest : List NodeRec) :
    ∀ (ix : Idx), Numbered ix rest →
    ∀ (sp cp op : List (Option Parent)) (ou : List (Option (Nat × Nat)))
      (rh rs : List (Option Nat)) (slack : Nat),
    sp.length = ix.stateId → cp.length = ix.compoIndex → op.length = ix.orthoIndex →
    ou.length = ix.orthoIndex → rh.length = ix.regionId → rs.length = ix.regionId →
    (Registry.partial sp cp op ou rh rs rest slack).addNodes rest =
      some { stateParents := sp ++ rest.map (fun r => some r.parent)
             compoParents := cp ++ (rest.filter (·.isCompo)).map (fun r => some r.parent)
             orthoParents := op ++ (rest.filter (·.isOrtho)).map (fun r => some r.parent)
             orthoUnits   := ou ++ (rest.filter (·.isOrtho)).map
                               (fun r => some (r.idx.orthoUnit, r.width)) ++
                               List.replicate slack none
             regionHeads  := rh ++ (rest.filter (·.isRegion)).map (fun r => some r.idx.stateId)
             regionSizes  := rs ++ (rest.filter (·.isRegion)).map (fun r => some r.size) } := by
  induction rest with
  | nil =>
    intro ix _ sp cp op ou rh rs slack _ _ _ _ _ _
    simp [Registry.partial, Registry.addNodes]
  | cons r t ih =>
    intro ix hn sp cp op ou rh rs slack hsp hcp hop hou hrh hrs
    obtain ⟨hix, hn'⟩ := hn
    cases hk : r.kind with
    | leaf =>
      have hc : r.isCompo = false := by simp [Decl.isCompo, hk]
      have ho : r.isOrtho = false := by simp [Decl.isOrtho, hk]
      have hr : r.isRegion = false := by simp [Decl.isRegion, hk]
      have hstep : ix.step r = ⟨ix.stateId + 1, ix.compoIndex, ix.orthoIndex, ix.orthoUnit⟩ :=
        Idx.step_leaf ix r hk
      have h1 : (Registry.partial sp cp op ou rh rs (r :: t) slack).addNode r =
          some (Registry.partial (sp ++ [some r.parent]) cp op ou rh rs t slack) := by
        simp only [Registry.addNode, hk, Registry.partial, List.filter_cons, hc, ho, hr,
          List.length_cons, Bool.false_eq_true, if_false]
        rw [setAt_fill _ _ _ _ (by rw [hix]; exact hsp)]
        rfl
      rw [Registry.addNodes, h1, Option.bind_some,
        ih (ix.step r) hn' _ cp op ou rh rs slack (by simp [hstep, hsp]) (by simp [hstep, hcp])
          (by simp [hstep, hop]) (by simp [hstep, hou]) (by simp [hstep, hrh, Idx.regionId])
          (by simp [hstep, hrs, Idx.regionId])]
      simp [hc, ho, hr]
    | compo st =>
      have hc : r.isCompo = true := by simp [Decl.isCompo, hk]
      have ho : r.isOrtho = false := by simp [Decl.isOrtho, hk]
      have hr : r.isRegion = true := by simp [Decl.isRegion, hk]
      have hstep : ix.step r = ix.compoSubs := Idx.step_compo ix r st hk
      have h1 : (Registry.partial sp cp op ou rh rs (r :: t) slack).addNode r =
          some (Registry.partial (sp ++ [some r.parent]) (cp ++ [some r.parent]) op ou
            (rh ++ [some r.idx.stateId]) (rs ++ [some r.size]) t slack) := by
        simp only [Registry.addNode, hk, Registry.partial, List.filter_cons, hc, ho, hr,
          List.length_cons, Bool.false_eq_true, if_false, if_true]
        rw [setAt_fill _ _ _ _ (by rw [hix]; exact hcp),
          setAt_fill _ _ _ _ (by rw [hix]; exact hrh),
          setAt_fill _ _ _ _ (by rw [hix]; exact hrs),
          setAt_fill _ _ _ _ (by rw [hix]; exact hsp)]
        rfl
      rw [Registry.addNodes, h1, Option.bind_some,
        ih (ix.step r) hn' _ _ op ou _ _ slack (by simp [hstep, hsp, Idx.compoSubs])
          (by simp [hstep, hcp, Idx.compoSubs]) (by simp [hstep, hop, Idx.compoSubs])
          (by simp [hstep, hou, Idx.compoSubs])
          (by simp [hstep, hrh, Idx.regionId, Idx.compoSubs]; omega)
          (by simp [hstep, hrs, Idx.regionId, Idx.compoSubs]; omega)]
      simp [hc, ho, hr]
    | ortho =>
      have hc : r.isCompo = false := by simp [Decl.isCompo, hk]
      have ho : r.isOrtho = true := by simp [Decl.isOrtho, hk]
      have hr : r.isRegion = true := by simp [Decl.isRegion, hk]
      have hstep : ix.step r = ix.orthoSubs r.width := Idx.step_ortho ix r hk
      have h1 : (Registry.partial sp cp op ou rh rs (r :: t) slack).addNode r =
          some (Registry.partial (sp ++ [some r.parent]) cp (op ++ [some r.parent])
            (ou ++ [some (r.idx.orthoUnit, r.width)])
            (rh ++ [some r.idx.stateId]) (rs ++ [some r.size]) t slack) := by
        simp only [Registry.addNode, hk, Registry.partial, List.filter_cons, hc, ho, hr,
          List.length_cons, Bool.false_eq_true, if_false, if_true]
        have e : (List.filter (fun x => x.isOrtho) t).length + 1 + slack =
            ((List.filter (fun x => x.isOrtho) t).length + slack) + 1 := by omega
        rw [e, setAt_fill _ _ _ _ (by rw [hix]; exact hop),
          setAt_fill _ _ _ _ (by rw [hix]; exact hou),
          setAt_fill _ _ _ _ (by rw [hix]; exact hrh),
          setAt_fill _ _ _ _ (by rw [hix]; exact hrs),
          setAt_fill _ _ _ _ (by rw [hix]; exact hsp)]
        rfl
      rw [Registry.addNodes, h1, Option.bind_some,
        ih (ix.step r) hn' _ cp _ _ _ _ slack (by simp [hstep, hsp, Idx.orthoSubs])
          (by simp [hstep, hcp, Idx.orthoSubs]) (by simp [hstep, hop, Idx.orthoSubs])
          (by simp [hstep, hou, Idx.orthoSubs])
          (by simp [hstep, hrh, Idx.regionId, Idx.orthoSubs]; omega)
          (by simp [hstep, hrs, Idx.regionId, Idx.orthoSubs]; omega)]
      simp [hc, ho, hr]

/-! ### counting the ids of a sub-tree -/

theorem filter_range'_interval (n a m : Nat) (h : a + m ≤ n) :
    ((List.range' 0 n).filter (fun k => decide (a ≤ k ∧ k < a + m))).length = m := by
  have e : List.range' 0 n = List.range' 0 a ++ (List.range' a m ++ List.range' (a + m) (n - (a + m))) := by
    have hn : n = a + (m + (n - (a + m))) := by omega
    conv => lhs; rw [hn]
    rw [← List.range'_append_1, ← List.range'_append_1]
    simp
  have h1 : (List.range' 0 a).filter (fun k => decide (a ≤ k ∧ k < a + m)) = [] := by
    rw [List.filter_eq_nil_iff]
    intro k hk
    simp only [List.mem_range'_1] at hk
    simp; omega
  have h2 : (List.range' a m).filter (fun k => decide (a ≤ k ∧ k < a + m)) = List.range' a m := by
    rw [List.filter_eq_self]
    intro k hk
    simp only [List.mem_range'_1] at hk
    simp; omega
  have h3 : (List.range' (a + m) (n - (a + m))).filter (fun k => decide (a ≤ k ∧ k < a + m)) = [] := by
    rw [List.filter_eq_nil_iff]
    intro k hk
    simp only [List.mem_range'_1] at hk
    simp; omega
  rw [e, List.filter_append, List.filter_append, h1, h2, h3]
  simp

/-! ### identifiers depend on the tree structure only -/

mutual
/-- Forget everything but the tree structure and the composite/orthogonal distinction: head
presence, injections and strategy are erased. -/
def Shape.skeleton : Shape → Shape
  | .leaf _ => .leaf 0
  | .compo _ _ _ subs => .compo true 0 .composite subs.skeletons
  | .ortho _ _ subs => .ortho true 0 subs.skeletons
def Shapes.skeletons : Shapes → Shapes
  | .nil => .nil
  | .cons s r => .cons s.skeleton r.skeletons
end

/-- The same erasure on a visited node. -/
def NodeRec.erase (r : NodeRec) : NodeRec :=
  { r with headed := true
           kind := match r.kind with | .compo _ => .compo .composite | k => k }

theorem Shapes.skeletons_length : (subs : Shapes) → subs.skeletons.length = subs.length
  | .nil => rfl
  | .cons _ r => by simp [Shapes.skeletons, Shapes.length, Shapes.skeletons_length r]

mutual
theorem Shape.skeleton_info : (s : Shape) → s.skeleton.info = s.info
  | .leaf i => rfl
  | .compo h i st subs => by
    simp [Shape.skeleton, Shape.info, Shapes.skeletons_infos subs, Shapes.skeletons_length]
  | .ortho h i subs => by
    simp [Shape.skeleton, Shape.info, Shapes.skeletons_infos subs, Shapes.skeletons_length]
theorem Shapes.skeletons_infos : (subs : Shapes) → subs.skeletons.infos = subs.infos
  | .nil => rfl
  | .cons s r => by
    simp [Shapes.skeletons, Shapes.infos, Shape.skeleton_info s, Shapes.skeletons_infos r]
end

mutual
theorem Shape.skeleton_walk : (s : Shape) → (ix : Idx) → (parent : Parent) → (path : Path) →
    s.skeleton.walk ix parent path = (s.walk ix parent path).map NodeRec.erase
  | .leaf i, ix, parent, path => by
    simp [Shape.skeleton, Shape.walk_leaf, NodeRec.erase]
  | .compo h i st subs, ix, parent, path => by
    have e := Shape.skeleton_info (.compo h i st subs)
    simp only [Shape.skeleton] at e
    simp only [Shape.skeleton, Shape.walk_compo, e, Shapes.skeletons_length,
      Shapes.skeletons_walkO subs, List.map_cons, NodeRec.erase]
  | .ortho h i subs, ix, parent, path => by
    have e := Shape.skeleton_info (.ortho h i subs)
    simp only [Shape.skeleton] at e
    simp only [Shape.skeleton, Shape.walk_ortho, e, Shapes.skeletons_length,
      Shapes.skeletons_walkO subs, List.map_cons, NodeRec.erase]
theorem Shapes.skeletons_walkO : (subs : Shapes) → (ix : Idx) → (np : Nat) → (f : Int) →
    (path : Path) →
    subs.skeletons.walkO ix np f path = (subs.walkO ix np f path).map NodeRec.erase
  | .nil, ix, np, f, path => by simp [Shapes.skeletons, Shapes.walkO]
  | .cons s r, ix, np, f, path => by
    simp [Shapes.skeletons, Shapes.walkO, Shape.skeleton_walk s, Shapes.skeletons_walkO r,
      Shape.skeleton_info s]
end

theorem Registry.addNode_erase (reg : Registry) (r : NodeRec) :
    reg.addNode r.erase = reg.addNode r := by
  cases hk : r.kind <;> simp [Registry.addNode, NodeRec.erase, hk]

theorem Registry.addNodes_erase (l : List NodeRec) (reg : Registry) :
    reg.addNodes (l.map NodeRec.erase) = reg.addNodes l := by
  induction l generalizing reg with
  | nil => rfl
  | cons r t ih =>
    simp only [List.map_cons, Registry.addNodes, Registry.addNode_erase]
    cases reg.addNode r with
    | none => rfl
    | some reg' => simp [ih]

/-! ### fixed-width arithmetic -/

theorem Info.wrap_of_fits (i : Info) (h : i.Fits) : i.wrap = i := by
  obtain ⟨h1, h2, h3, h4, h5, h6, h7, h8, h9, h10⟩ := h
  cases i
  simp only [Info.wrap] at *
  simp [Nat.mod_eq_of_lt, *]

theorem Info.fits_of_consC (i r : Info) (h : (Info.consC i r).Fits) (hw : r.width = 0) : r.Fits := by
  obtain ⟨h1, h2, h3, h4, h5, h6, h7, h8, h9, h10⟩ := h
  simp only [Info.consC] at *
  constructor <;> omega

theorem Info.fits_of_consO (i r : Info) (h : (Info.consO i r).Fits) (hw : r.width = 0) : r.Fits := by
  obtain ⟨h1, h2, h3, h4, h5, h6, h7, h8, h9, h10⟩ := h
  simp only [Info.consO, Info.consC] at *
  constructor <;> omega

theorem csiFold_width (l : List Info) : (csiFold l).width = 0 := by
  cases l with
  | nil => rfl
  | cons i r => rw [csiFold_cons]; rfl

theorem osiFold_width (l : List Info) : (osiFold l).width = 0 := by
  cases l with
  | nil => rfl
  | cons i r => rw [osiFold_cons]; rfl

theorem csiFoldFW_eq (l : List Info) (h : (csiFold l).Fits) : csiFoldFW l = csiFold l := by
  induction l with
  | nil => rfl
  | cons i r ih =>
    cases r with
    | nil => rfl
    | cons a t =>
      have h' := h
      rw [csiFold_cons] at h'
      have hr := Info.fits_of_consC _ _ h' (csiFold_width _)
      show (Info.consC i (csiFoldFW (a :: t))).wrap = csiFold (i :: a :: t)
      rw [ih hr, csiFold_cons i (a :: t)]
      exact Info.wrap_of_fits _ h'

theorem osiFoldFW_eq (l : List Info) (h : (osiFold l).Fits) : osiFoldFW l = osiFold l := by
  induction l with
  | nil => rfl
  | cons i r ih =>
    cases r with
    | nil => rfl
    | cons a t =>
      have h' := h
      rw [osiFold_cons] at h'
      have hr := Info.fits_of_consO _ _ h' (osiFold_width _)
      show (Info.consO i (osiFoldFW (a :: t))).wrap = osiFold (i :: a :: t)
      rw [ih hr, osiFold_cons i (a :: t)]
      exact Info.wrap_of_fits _ h'

mutual
/-- No `static constexpr` member of any instantiated info template wraps: the node's own info
fits and so does every sub-state's. -/
def Shape.FitsIds : Shape → Prop
  | .leaf _ => True
  | .compo h i st subs => (Shape.compo h i st subs).info.Fits ∧ subs.AllFitIds
  | .ortho h i subs => (Shape.ortho h i subs).info.Fits ∧ subs.AllFitIds
def Shapes.AllFitIds : Shapes → Prop
  | .nil => True
  | .cons s r => s.FitsIds ∧ r.AllFitIds
end

mutual
def Shape.decFitsIds : (s : Shape) → Decidable s.FitsIds
  | .leaf _ => isTrue (by simp [Shape.FitsIds])
  | .compo h i st subs =>
    have := Shapes.decAllFitIds subs
    decidable_of_iff ((Shape.compo h i st subs).info.Fits ∧ subs.AllFitIds) (by simp [Shape.FitsIds])
  | .ortho h i subs =>
    have := Shapes.decAllFitIds subs
    decidable_of_iff ((Shape.ortho h i subs).info.Fits ∧ subs.AllFitIds) (by simp [Shape.FitsIds])
def Shapes.decAllFitIds : (subs : Shapes) → Decidable subs.AllFitIds
  | .nil => isTrue (by simp [Shapes.AllFitIds])
  | .cons s r =>
    have := Shape.decFitsIds s
    have := Shapes.decAllFitIds r
    decidable_of_iff (s.FitsIds ∧ r.AllFitIds) (by simp [Shapes.AllFitIds])
end

instance (s : Shape) : Decidable s.FitsIds := Shape.decFitsIds s

theorem Info.compo_sub_fits (w : Nat) (s : Info) (h : (Info.compo w s).Fits) (hw : s.width = 0) :
    s.Fits := by
  obtain ⟨h1, h2, h3, h4, h5, h6, h7, h8, h9, h10⟩ := h
  simp only [Info.compo] at *
  constructor <;> omega

theorem Info.ortho_sub_fits (w : Nat) (s : Info) (h : (Info.ortho w s).Fits) (hw : s.width = 0) :
    s.Fits := by
  obtain ⟨h1, h2, h3, h4, h5, h6, h7, h8, h9, h10⟩ := h
  simp only [Info.ortho] at *
  constructor <;> omega

mutual
theorem Shape.infoFW_eq : (s : Shape) → s.FitsIds → s.infoFW = s.info
  | .leaf i, _ => rfl
  | .compo h i st subs, hf => by
    simp only [Shape.FitsIds] at hf
    have hfit := hf.1
    simp only [Shape.info] at hfit
    have hw : subs.length % 256 = subs.length := Nat.mod_eq_of_lt hfit.width
    simp only [Shape.infoFW, Shape.info, Shapes.infosFW_eq subs hf.2, hw]
    rw [csiFoldFW_eq _ (Info.compo_sub_fits _ _ hfit (csiFold_width _))]
    exact Info.wrap_of_fits _ hfit
  | .ortho h i subs, hf => by
    simp only [Shape.FitsIds] at hf
    have hfit := hf.1
    simp only [Shape.info] at hfit
    have hw : subs.length % 256 = subs.length := Nat.mod_eq_of_lt hfit.width
    simp only [Shape.infoFW, Shape.info, Shapes.infosFW_eq subs hf.2, hw]
    rw [osiFoldFW_eq _ (Info.ortho_sub_fits _ _ hfit (osiFold_width _))]
    exact Info.wrap_of_fits _ hfit
theorem Shapes.infosFW_eq : (subs : Shapes) → subs.AllFitIds → subs.infosFW = subs.infos
  | .nil, _ => rfl
  | .cons s r, hf => by
    simp only [Shapes.AllFitIds] at hf
    simp [Shapes.infosFW, Shapes.infos, Shape.infoFW_eq s hf.1, Shapes.infosFW_eq r hf.2]
end

end Hfsm
