/-
Helper lemmas for property C20: injectivity of the splitmix mixing function and termination of the
retry-until-nonzero loop.  Core Lean only.
-/
import Hfsm.Model.Rng

namespace Hfsm.Proofs.Rng

open Hfsm.Model.Rng

/-! ## `z ↦ z ^ (z >> k)` is injective for every width and every `k > 0` -/

/-- Bit-level core: if `a ⊕ (a ≫ k)` and `b ⊕ (b ≫ k)` agree then `a` and `b` agree on every bit,
by induction from the top bit down (`m` = distance to the width). -/
theorem xorShift_bits_eq {n : Nat} (k : Nat) (hk : 0 < k) (a b : BitVec n)
    (h : a ^^^ (a >>> k) = b ^^^ (b >>> k)) :
    ∀ (m i : Nat), n ≤ i + m → a.getLsbD i = b.getLsbD i := by
  intro m
  induction m with
  | zero =>
    intro i hi
    rw [BitVec.getLsbD_of_ge a i (by omega), BitVec.getLsbD_of_ge b i (by omega)]
  | succ m ih =>
    intro i hi
    have hbit : (a ^^^ (a >>> k)).getLsbD i = (b ^^^ (b >>> k)).getLsbD i := by rw [h]
    simp only [BitVec.getLsbD_xor, BitVec.getLsbD_ushiftRight] at hbit
    have hup : a.getLsbD (k + i) = b.getLsbD (k + i) := ih (k + i) (by omega)
    rw [hup] at hbit
    cases ha : a.getLsbD i <;> cases hb : b.getLsbD i <;> simp_all

/-- One xor-shift step `z ^ (z >> k)` (C++ on an unsigned type) is injective when `k > 0`. -/
theorem xorShift_injective {n : Nat} (k : Nat) (hk : 0 < k) :
    Function.Injective (fun z : BitVec n => z ^^^ (z >>> k)) := by
  intro a b h
  apply BitVec.eq_of_getLsbD_eq
  intro i _
  exact xorShift_bits_eq k hk a b h n i (by omega)

/-- Multiplication by a constant that has a multiplicative inverse modulo `2^n` (i.e. an odd
constant) is injective. -/
theorem mul_injective_of_inverse {n : Nat} (c cinv : BitVec n) (hinv : c * cinv = 1#n) :
    Function.Injective (fun z : BitVec n => z * c) := by
  intro a b h
  have h' : a * c * cinv = b * c * cinv := by
    have : a * c = b * c := h
    rw [this]
  rwa [BitVec.mul_assoc, BitVec.mul_assoc, hinv, BitVec.mul_one, BitVec.mul_one] at h'

/-! ## The splitmix output function is a bijection fixing 0 -/

/-- What the argument needs from the constants of a `SimpleRandomT<N>::rawNN()`:
positive shift amounts, invertible (odd) multipliers — inverses exhibited — and a non-zero increment. -/
structure Good {w : Nat} (p : SmParams w) where
  k1pos : 0 < p.k1
  k2pos : 0 < p.k2
  k3pos : 0 < p.k3
  m1inv : BitVec w
  m1ok  : p.m1 * m1inv = 1#w
  m2inv : BitVec w
  m2ok  : p.m2 * m2inv = 1#w
  incNe : p.inc ≠ 0#w

/-- The constants of the current source's `SimpleRandomT<8>::raw64()` are good
(inverses of the two multipliers modulo 2^64 exhibited). -/
def good64 : Good sm64 where
  k1pos := by decide
  k2pos := by decide
  k3pos := by decide
  m1inv := 0x96de1b173f119089#64
  m1ok  := by decide
  m2inv := 0x319642b2d24d8ec3#64
  m2ok  := by decide
  incNe := by decide

/-- The constants of the current source's `SimpleRandomT<4>::raw32()` are good
(inverses of the two multipliers modulo 2^32 exhibited). -/
def good32 : Good sm32 where
  k1pos := by decide
  k2pos := by decide
  k3pos := by decide
  m1inv := 0xa5cb9243#32
  m1ok  := by decide
  m2inv := 0x7ed1b41d#32
  m2ok  := by decide
  incNe := by decide

theorem mix_injective {w : Nat} (p : SmParams w) (g : Good p) : Function.Injective (mix p) := by
  intro a b h
  unfold mix at h
  have h3 := xorShift_injective p.k3 g.k3pos h
  have h2m := mul_injective_of_inverse p.m2 g.m2inv g.m2ok h3
  have h2 := xorShift_injective p.k2 g.k2pos h2m
  have h1m := mul_injective_of_inverse p.m1 g.m1inv g.m1ok h2
  exact xorShift_injective p.k1 g.k1pos h1m

theorem mix_zero {w : Nat} (p : SmParams w) : mix p 0#w = 0#w := by
  simp [mix]

theorem mix_eq_zero_iff {w : Nat} (p : SmParams w) (g : Good p) (z : BitVec w) :
    mix p z = 0#w ↔ z = 0#w := by
  constructor
  · intro h
    exact mix_injective p g (h.trans (mix_zero p).symm)
  · intro h
    rw [h, mix_zero]

/-- Non-zero counter values give non-zero raw outputs. -/
theorem mix_ne_zero {w : Nat} (p : SmParams w) (g : Good p) (z : BitVec w) (hz : z ≠ 0#w) :
    mix p z ≠ 0#w :=
  fun h => hz ((mix_eq_zero_iff p g z).mp h)

/-! ## The retry loop -/

/-- Of two consecutive counter values at most one is mapped to 0 by `raw`. -/
theorem raw_second_nonzero {w : Nat} (p : SmParams w) (g : Good p) (st : BitVec w)
    (h : (raw p st).2 = 0#w) : (raw p (raw p st).1).2 ≠ 0#w := by
  simp only [raw] at h ⊢
  have hz : st + p.inc = 0#w := (mix_eq_zero_iff p g _).mp h
  rw [hz, BitVec.zero_add]
  exact mix_ne_zero p g _ g.incNe

/-- `SimpleRandomT<N>::uintNN()` terminates within two raw draws, returns a non-zero number, and
leaves the counter advanced by one or two increments. -/
theorem drawFuel_two {w : Nat} (p : SmParams w) (g : Good p) (st : BitVec w) :
    ∃ st' v, drawFuel p 2 st = some (st', v) ∧ v ≠ 0#w ∧
      ((st' = st + p.inc ∧ v = mix p (st + p.inc)) ∨
       (mix p (st + p.inc) = 0#w ∧ st' = st + p.inc + p.inc ∧ v = mix p (st + p.inc + p.inc))) := by
  by_cases h1 : (raw p st).2 = 0#w
  · have h2 := raw_second_nonzero p g st h1
    refine ⟨(raw p (raw p st).1).1, (raw p (raw p st).1).2, ?_, h2, ?_⟩
    · simp [drawFuel, h1, h2]
    · right
      simp only [raw] at h1
      simp [raw, h1]
  · refine ⟨(raw p st).1, (raw p st).2, ?_, h1, ?_⟩
    · simp [drawFuel, h1]
    · left
      simp [raw]

/-- More fuel never changes the answer: the fuel-2 model *is* the unbounded `for (;;)` loop. -/
theorem drawFuel_stable {w : Nat} (p : SmParams w) (g : Good p) (st : BitVec w) (fuel : Nat)
    (hf : 2 ≤ fuel) : drawFuel p fuel st = drawFuel p 2 st := by
  obtain ⟨f, rfl⟩ : ∃ f, fuel = f + 2 := ⟨fuel - 2, by omega⟩
  by_cases h1 : (raw p st).2 = 0#w
  · have h2 := raw_second_nonzero p g st h1
    simp [drawFuel, h1, h2]
  · simp [drawFuel, h1]

/-! ## Seeding -/

theorem seedFill_four {w : Nat} (p : SmParams w) (g : Good p) (sd : BitVec w) :
    ∃ s, seedFill p [0, 1, 2, 3] sd S4.zero = some s ∧
      s.s0 ≠ 0#w ∧ s.s1 ≠ 0#w ∧ s.s2 ≠ 0#w ∧ s.s3 ≠ 0#w := by
  obtain ⟨c1, v1, e1, n1, _⟩ := drawFuel_two p g sd
  obtain ⟨c2, v2, e2, n2, _⟩ := drawFuel_two p g c1
  obtain ⟨c3, v3, e3, n3, _⟩ := drawFuel_two p g c2
  obtain ⟨c4, v4, e4, n4, _⟩ := drawFuel_two p g c3
  refine ⟨⟨v1, v2, v3, v4⟩, ?_, n1, n2, n3, n4⟩
  simp [seedFill, draw, drawBudget, e1, e2, e3, e4, S4.set, S4.zero]

end Hfsm.Proofs.Rng
