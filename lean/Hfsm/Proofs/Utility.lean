/-
Helper lemmas for C12 (utility and weighted-random selection).

  §1  `treeFold` of an associative operation is the sequential left fold; `argMax` is the leftmost
      index of maximal value for every total preorder (`UtilOrder`).
  §2  `resolveRandom.go`: never `none` when a top-rank positive utility exists (no law needed), the
      chosen index has top rank and positive utility (`UtilNonneg` laws).
  §3  streams: which fields of the `World` the report passes read and write (`ds`, `rng`).
-/
import Hfsm.Model.Forward

namespace Hfsm
open UtilArith

/-- `le` is a total preorder: what `argMax` (leftmost maximum) needs. -/
class UtilOrder (U : Type) [UtilArith U] : Prop where
  le_refl  : ∀ a : U, le a a = true
  le_trans : ∀ a b c : U, le a b = true → le b c = true → le a c = true
  le_total : ∀ a b : U, le a b = true ∨ le b a = true

/-- The sign laws `resolveRandom` needs (and nothing else): they hold for exact arithmetic and for
finite IEEE-754 binary32 values under round-to-nearest (trusted base, DESIGN §11). -/
class UtilNonneg (U : Type) [UtilArith U] : Prop where
  le_trans    : ∀ a b c : U, le a b = true → le b c = true → le a c = true
  zero_le_zero : le (zero : U) zero = true
  add_nonneg  : ∀ a b : U, le zero a = true → le zero b = true → le zero (add a b) = true
  mul_nonneg  : ∀ a b : U, le zero a = true → le zero b = true → le zero (mul a b) = true
  sub_nonneg  : ∀ a b : U, le zero b = true → le b a = true → le zero (sub a b) = true

/-! ### §1 balanced fold -/

section Fold
variable {α : Type}

theorem foldl_assoc (f : α → α → α) (hassoc : ∀ a b c, f (f a b) c = f a (f b c)) :
    ∀ (ys : List α) (a y : α), f a (ys.foldl f y) = ys.foldl f (f a y)
  | [], _, _ => rfl
  | z :: ys, a, y => by
    simp only [List.foldl_cons]
    rw [foldl_assoc f hassoc ys a (f y z), hassoc]

theorem foldl_append_assoc (f : α → α → α) (hassoc : ∀ a b c, f (f a b) c = f a (f b c))
    (xs : List α) (a y : α) (ys : List α) :
    (xs ++ y :: ys).foldl f a = f (xs.foldl f a) (ys.foldl f y) := by
  rw [List.foldl_append, List.foldl_cons, foldl_assoc f hassoc]

/-- The balanced recursion of `CS_` computes the plain left-to-right fold whenever the operation is
associative (fuel at least the length minus one suffices; the model passes the length). -/
theorem treeFold_eq_foldl (f : α → α → α) (hassoc : ∀ a b c, f (f a b) c = f a (f b c)) (d : α) :
    ∀ (fuel : Nat) (a : α) (l : List α), l.length ≤ fuel → treeFold f d fuel (a :: l) = l.foldl f a
  | _, a, [], _ => by cases ‹Nat› <;> simp [treeFold]
  | 0, _, _ :: _, h => by simp at h
  | fuel+1, a, b :: l, h => by
    have hlen : (a :: b :: l).length = l.length + 2 := by simp
    unfold treeFold
    simp only [hlen]
    generalize hk : (l.length + 2) / 2 = k
    have hk1 : 1 ≤ k := by omega
    have hk2 : k ≤ l.length + 1 := by omega
    obtain ⟨k', rfl⟩ : ∃ k', k = k' + 1 := ⟨k - 1, by omega⟩
    -- left half `a :: take k' (b :: l)`, right half `drop k' (b :: l)`, which is non-empty
    have hdrop : ∃ y ys, (b :: l).drop k' = y :: ys ∧ (b :: l) = (b :: l).take k' ++ y :: ys := by
      cases hd : (b :: l).drop k' with
      | nil =>
        have := congrArg List.length hd
        simp at this; omega
      | cons y ys => exact ⟨y, ys, rfl, by rw [← hd, List.take_append_drop]⟩
    obtain ⟨y, ys, hd, hsplit⟩ := hdrop
    have hys : ys.length + 1 = l.length + 1 - k' := by
      have := congrArg List.length hd
      simp at this; omega
    simp only [List.take_succ_cons, List.drop_succ_cons, hd]
    have hb : l.length + 1 ≤ fuel + 1 := by simpa using h
    have h1 : ((b :: l).take k').length ≤ fuel := by
      rw [List.length_take]; simp only [List.length_cons]; omega
    have h2 : ys.length ≤ fuel := by omega
    rw [treeFold_eq_foldl f hassoc d fuel a _ h1, treeFold_eq_foldl f hassoc d fuel y ys h2]
    conv => rhs; rw [hsplit]
    exact (foldl_append_assoc f hassoc _ a y ys).symm

end Fold

/-! ### `argMax` -/

section ArgMax
variable {U : Type} [UtilArith U]

/-- The combining step of `wideReportUtilize`: keep the left operand unless the right is strictly greater. -/
def pick (l r : Nat × U) : Nat × U := if le r.2 l.2 then l else r

theorem pick_assoc [UtilOrder U] (a b c : Nat × U) : pick (pick a b) c = pick a (pick b c) := by
  unfold pick
  by_cases hba : le b.2 a.2 = true <;> by_cases hcb : le c.2 b.2 = true <;> simp only [hba, hcb, if_true]
  · have hca : le c.2 a.2 = true := UtilOrder.le_trans _ _ _ hcb hba
    simp [hca]
  · simp
  · simp [hcb]
  · have hab : le a.2 b.2 = true := (UtilOrder.le_total a.2 b.2).resolve_right hba
    have hca : ¬ le c.2 a.2 = true := fun h => hcb (UtilOrder.le_trans _ _ _ h hab)
    simp [hcb, hca]

/-- Sequential characterisation of the left-biased fold over the indexed utilities `us[k…]`. -/
theorem foldl_pick_spec [UtilOrder U] :
    ∀ (us : List U) (k : Nat) (acc : Nat × U), acc.1 < k →
      let r := ((us.zipIdx k).map (fun x => (x.2, x.1))).foldl pick acc
      (r = acc ∨ (k ≤ r.1 ∧ us[r.1 - k]? = some r.2)) ∧
      (le acc.2 r.2 = true ∧ ∀ (j : Nat) (v : U), us[j]? = some v → le v r.2 = true) ∧
      ((r = acc ∨ le r.2 acc.2 = false) ∧ ∀ (j : Nat) (v : U), us[j]? = some v → k + j < r.1 → le r.2 v = false)
  | [], k, acc, _ => by simp [UtilOrder.le_refl]
  | u :: us, k, acc, hk => by
    intro r
    have hr : r = ((us.zipIdx (k+1)).map (fun x => (x.2, x.1))).foldl pick (pick acc (k, u)) := by
      simp [r, List.zipIdx_cons]
    by_cases hu : le u acc.2 = true
    · have hp : pick acc (k, u) = acc := by simp [pick, hu]
      rw [hp] at hr
      obtain ⟨ha, ⟨hb1, hb2⟩, hc1, hc2⟩ := foldl_pick_spec us (k+1) acc (by omega)
      rw [← hr] at ha hb1 hb2 hc1 hc2
      refine ⟨?_, ⟨hb1, ?_⟩, hc1, ?_⟩
      · rcases ha with ha | ⟨ha1, ha2⟩
        · exact Or.inl ha
        · refine Or.inr ⟨by omega, ?_⟩
          have : r.1 - k = (r.1 - (k+1)) + 1 := by omega
          rw [this, List.getElem?_cons_succ]; exact ha2
      · intro j v hj
        cases j with
        | zero => simp at hj; subst hj; exact UtilOrder.le_trans _ _ _ hu hb1
        | succ j => exact hb2 j v (by simpa using hj)
      · intro j v hj hlt
        cases j with
        | zero =>
          simp at hj; subst hj
          have hne : r ≠ acc := fun h => by rw [h] at hlt; omega
          have hf : le r.2 acc.2 = false := hc1.resolve_left hne
          cases hru : le r.2 u with
          | false => rfl
          | true => rw [UtilOrder.le_trans _ _ _ hru hu] at hf; exact absurd hf (by simp)
        | succ j => exact hc2 j v (by simpa using hj) (by omega)
    · have hp : pick acc (k, u) = (k, u) := by simp [pick, hu]
      rw [hp] at hr
      obtain ⟨ha, ⟨hb1, hb2⟩, hc1, hc2⟩ := foldl_pick_spec us (k+1) (k, u) (by simp)
      rw [← hr] at ha hb1 hb2 hc1 hc2
      have hau : le acc.2 u = true := (UtilOrder.le_total acc.2 u).resolve_right hu
      simp only at hb1 hc1
      refine ⟨?_, ⟨UtilOrder.le_trans _ _ _ hau hb1, ?_⟩, ?_, ?_⟩
      · rcases ha with ha | ⟨ha1, ha2⟩
        · refine Or.inr ?_
          rw [ha]; simp
        · refine Or.inr ⟨by omega, ?_⟩
          have : r.1 - k = (r.1 - (k+1)) + 1 := by omega
          rw [this, List.getElem?_cons_succ]; exact ha2
      · intro j v hj
        cases j with
        | zero => simp at hj; subst hj; exact hb1
        | succ j => exact hb2 j v (by simpa using hj)
      · refine Or.inr ?_
        cases hra : le r.2 acc.2 with
        | false => rfl
        | true => exact absurd (UtilOrder.le_trans _ _ _ hb1 hra) hu
      · intro j v hj hlt
        cases j with
        | zero =>
          simp at hj; subst hj
          have hne : r ≠ (k, u) := fun h => by rw [h] at hlt; simp at hlt
          exact hc1.resolve_left hne
        | succ j => exact hc2 j v (by simpa using hj) (by omega)

/-- `argMax` through the balanced split is the sequential left-biased fold. -/
theorem argMax_eq_foldl [UtilOrder U] (u : U) (us : List U) :
    argMax (u :: us) = some (((us.zipIdx 1).map (fun x => (x.2, x.1))).foldl pick (0, u)) := by
  unfold argMax
  simp only [List.zipIdx_cons, List.map_cons, List.length_cons, List.length_map, List.length_zipIdx]
  have := treeFold_eq_foldl (pick (U := U)) pick_assoc (0, u) (us.length + 1) (0, u)
    ((us.zipIdx (0+1)).map (fun x => (x.2, x.1))) (by simp)
  exact congrArg some this

/-- **Leftmost maximum.**  For every total preorder, `argMax us = some (i, u)` where `u = us[i]`, no
element exceeds `u`, and every element before `i` is strictly smaller. -/
theorem argMax_spec [UtilOrder U] (us : List U) (hne : us ≠ []) :
    ∃ i u, argMax us = some (i, u) ∧ us[i]? = some u ∧
      (∀ (j : Nat) (v : U), us[j]? = some v → le v u = true) ∧
      (∀ (j : Nat) (v : U), us[j]? = some v → j < i → le u v = false) := by
  cases us with
  | nil => exact absurd rfl hne
  | cons u0 us =>
    obtain ⟨ha, ⟨hb1, hb2⟩, hc1, hc2⟩ := foldl_pick_spec us 1 (0, u0) (by simp)
    generalize hr : ((us.zipIdx 1).map (fun x => (x.2, x.1))).foldl pick (0, u0) = r at ha hb1 hb2 hc1 hc2
    refine ⟨r.1, r.2, by rw [argMax_eq_foldl, hr], ?_, ?_, ?_⟩
    · rcases ha with ha | ⟨ha1, ha2⟩
      · rw [ha]; simp
      · have : r.1 = (r.1 - 1) + 1 := by omega
        rw [this, List.getElem?_cons_succ]; exact ha2
    · intro j v hj
      cases j with
      | zero => simp at hj; subst hj; exact hb1
      | succ j => exact hb2 j v (by simpa using hj)
    · intro j v hj hlt
      cases j with
      | zero =>
        simp at hj; subst hj
        have hne : r ≠ (0, u0) := fun h => by rw [h] at hlt; simp at hlt
        exact hc1.resolve_left hne
      | succ j => exact hc2 j v (by simpa using hj) (by omega)

theorem argMax_none (us : List U) : argMax us = none ↔ us = [] := by
  cases us <;> simp [argMax]

end ArgMax

/-! ### §2 `resolveRandom` -/

section Random
variable {U : Type} [UtilArith U]

theorem treeFold_pred {α : Type} (P : α → Prop) (f : α → α → α) (hf : ∀ a b, P a → P b → P (f a b))
    (d : α) (hd : P d) : ∀ (fuel : Nat) (l : List α), (∀ x ∈ l, P x) → P (treeFold f d fuel l)
  | _, [], _ => by cases ‹Nat› <;> simpa [treeFold] using hd
  | 0, [a], h => by simpa [treeFold] using h
  | _+1, [a], h => by simpa [treeFold] using h
  | 0, a :: b :: _, h => by simp [treeFold]; exact h a (by simp)
  | fuel+1, a :: b :: l, h => by
    unfold treeFold
    exact hf _ _ (treeFold_pred P f hf d hd fuel _ (fun x hx => h x (List.mem_of_mem_take hx)))
      (treeFold_pred P f hf d hd fuel _ (fun x hx => h x (List.mem_of_mem_drop hx)))

theorem treeSum_nonneg [UtilNonneg U] (us : List U) (h : ∀ u ∈ us, le zero u = true) :
    le zero (treeSum us) = true :=
  treeFold_pred (fun u => le zero u = true) add UtilNonneg.add_nonneg zero UtilNonneg.zero_le_zero _ us h

/-- **Never none**: if some top-rank sub-state has positive utility (or a fallback is already recorded)
the cumulative walk returns a prong, whatever the arithmetic does. -/
theorem go_isSome (top : Int) :
    ∀ (us : List U) (rks : List Int) (i : Nat) (cursor : U) (last : Option Nat),
      (last.isSome = true ∨ ∃ (j : Nat) (u : U), us[j]? = some u ∧ rks[j]? = some top ∧ le u zero = false) →
      (World.resolveRandom.go top us rks i cursor last).isSome = true
  | [], rks, i, cursor, last, h => by
    rcases h with h | ⟨j, u, h, _⟩
    · simpa [World.resolveRandom.go] using h
    · simp at h
  | u :: us, [], i, cursor, last, h => by
    rcases h with h | ⟨j, v, _, h, _⟩
    · simpa [World.resolveRandom.go] using h
    · simp at h
  | u :: us, rk :: rks, i, cursor, last, h => by
    unfold World.resolveRandom.go
    by_cases hrk : rk = top
    · simp only [hrk, if_true]
      by_cases hc : le u cursor = true
      · simp only [hc, if_true]
        apply go_isSome
        rcases h with h | ⟨j, v, h1, h2, h3⟩
        · left; split <;> simp [h]
        · cases j with
          | zero =>
            simp at h1; subst h1
            left; simp [h3]
          | succ j => right; exact ⟨j, v, by simpa using h1, by simpa using h2, h3⟩
      · simp [hc]
    · simp only [hrk, if_false]
      apply go_isSome
      rcases h with h | ⟨j, v, h1, h2, h3⟩
      · left; exact h
      · cases j with
        | zero => simp at h2; exact absurd h2 hrk
        | succ j => right; exact ⟨j, v, by simpa using h1, by simpa using h2, h3⟩

/-- **Never zero utility, never lower rank**: under the sign laws the walk returns either the recorded
fallback or an index of top rank whose utility is positive. -/
theorem go_sound [UtilNonneg U] (top : Int) :
    ∀ (us : List U) (rks : List Int) (i : Nat) (cursor : U) (last : Option Nat) (r : Nat),
      le zero cursor = true → (∀ u ∈ us, le zero u = true) →
      World.resolveRandom.go top us rks i cursor last = some r →
      last = some r ∨ (i ≤ r ∧ rks[r - i]? = some top ∧ ∃ u, us[r - i]? = some u ∧ le u zero = false)
  | [], rks, i, cursor, last, r, _, _, h => by left; simpa [World.resolveRandom.go] using h
  | u :: us, [], i, cursor, last, r, _, _, h => by left; simpa [World.resolveRandom.go] using h
  | u :: us, rk :: rks, i, cursor, last, r, hc0, hnn, h => by
    unfold World.resolveRandom.go at h
    have hu0 : le zero u = true := hnn u (by simp)
    have hnn' : ∀ v ∈ us, le zero v = true := fun v hv => hnn v (by simp [hv])
    have shift : ∀ {r : Nat}, i + 1 ≤ r → r - i = (r - (i+1)) + 1 := by intro r h; omega
    by_cases hrk : rk = top
    · simp only [hrk, if_true] at h
      by_cases hc : le u cursor = true
      · simp only [hc, if_true] at h
        have hsub : le zero (sub cursor u) = true := UtilNonneg.sub_nonneg _ _ hu0 hc
        rcases go_sound top us rks (i+1) _ _ r hsub hnn' h with hl | ⟨h1, h2, v, h3, h4⟩
        · by_cases hp : le u zero = true
          · left; simpa [hp] using hl
          · right
            simp only [hp, Bool.not_false, if_true] at hl
            simp at hl; subst hl
            exact ⟨Nat.le_refl _, by simp [hrk], u, by simp, by simpa using hp⟩
        · right
          refine ⟨by omega, ?_, v, ?_, h4⟩
          · rw [shift h1]; simpa using h2
          · rw [shift h1]; simpa using h3
      · simp only [hc] at h
        simp at h; subst h
        right
        refine ⟨Nat.le_refl _, by simp [hrk], u, by simp, ?_⟩
        cases hz : le u zero with
        | false => rfl
        | true => exact absurd (UtilNonneg.le_trans _ _ _ hz hc0) hc
    · simp only [hrk, if_false] at h
      rcases go_sound top us rks (i+1) _ _ r hc0 hnn' h with hl | ⟨h1, h2, v, h3, h4⟩
      · left; exact hl
      · right
        refine ⟨by omega, ?_, v, ?_, h4⟩
        · rw [shift h1]; simpa using h2
        · rw [shift h1]; simpa using h3

end Random

/-! ### §3 which parts of the world the report passes touch -/

section Streams
variable {U : Type}
namespace World

@[simp] theorem fail'_ds_u (w : World U) (m : String) : (w.fail' m).ds = w.ds := by
  unfold fail'; split <;> rfl
@[simp] theorem fail'_rng_u (w : World U) (m : String) : (w.fail' m).rng = w.rng := by
  unfold fail'; split <;> rfl
@[simp] theorem emit_ds_u (w : World U) (e : Event U) : (w.emit e).ds = w.ds := rfl
@[simp] theorem emit_rng_u (w : World U) (e : Event U) : (w.emit e).rng = w.rng := rfl
@[simp] theorem logRec_ds_u (w : World U) (r : LogRec U) : (w.logRec r).ds = w.ds := by
  unfold logRec; split <;> rfl
@[simp] theorem logRec_rng_u (w : World U) (r : LogRec U) : (w.logRec r).rng = w.rng := by
  unfold logRec; split <;> rfl
@[simp] theorem logRec_err_u (w : World U) (r : LogRec U) : (w.logRec r).err = w.err := by
  unfold logRec; split <;> rfl
@[simp] theorem pin_ds_u (w : World U) (sid : Nat) (i : Option Nat) : (w.pin sid i).ds = w.ds := by
  unfold pin; split; rfl; split <;> rfl
@[simp] theorem pin_rng_u (w : World U) (sid : Nat) (i : Option Nat) : (w.pin sid i).rng = w.rng := by
  unfold pin; split; rfl; split <;> rfl

theorem act_ds_rng_u (c : CtlClass) (w : World U) (a : Action U) :
    (act c w a).ds = w.ds ∧ (act c w a).rng = w.rng := by
  cases a <;> simp only [act] <;> (try split) <;>
    simp [ctlRequest, ctlSucceed, ctlFail, planAppend, planClear, setPlan] <;>
    (repeat' split) <;> simp

theorem foldl_act_ds_rng_u (c : CtlClass) : ∀ (d : Decision U) (w : World U),
    (d.foldl (act c) w).ds = w.ds ∧ (d.foldl (act c) w).rng = w.rng
  | [], _ => ⟨rfl, rfl⟩
  | a :: d, w => by
    simp only [List.foldl_cons]
    have h1 := foldl_act_ds_rng_u c d (act c w a)
    have h2 := act_ds_rng_u c w a
    exact ⟨h1.1.trans h2.1, h1.2.trans h2.2⟩

/-- One callback consumes exactly one decision and no random number. -/
theorem invoke_streams_u (w : World U) (sid : Nat) (m : Method) (slot : Nat) :
    (w.invoke sid m slot).2 = w.ds.headD [] ∧ (w.invoke sid m slot).1.ds = w.ds.tail ∧
    (w.invoke sid m slot).1.rng = w.rng := by
  unfold invoke
  split
  · next h => simp [h]
  · next d rest h =>
    simp only [h, List.headD_cons, List.tail_cons, emit_ds_u, emit_rng_u]
    have := foldl_act_ds_rng_u m.cls d { w with ds := rest }
    exact ⟨trivial, this.1, this.2⟩

/-- `resolveRandom` takes exactly one number from the generator stream (none if it is exhausted). -/
theorem resolveRandom_rng_u [UtilArith U] (w : World U) (hid : Nat) (us : List U) (sum : U) (rks : List Int) (top : Int) :
    (w.resolveRandom hid us sum rks top).1.rng = w.rng.tail := by
  unfold resolveRandom
  split
  · next h => simp [h]
  · next rnd rest h => simp only [h, List.tail_cons]; split <;> simp

/-- **Never none, never zero utility, never lower rank** — for every arithmetic satisfying the sign laws,
every generator output `rnd ≥ 0` and all non-negative utilities of which one top-rank one is positive. -/
theorem resolveRandom_sound [UtilArith U] [UtilNonneg U] (w : World U) (hid : Nat) (us : List U) (rks : List Int)
    (top : Int) (rnd : U) (rest : List U) (hr : w.rng = rnd :: rest)
    (h0 : UtilArith.le UtilArith.zero rnd = true) (hnn : ∀ u ∈ us, UtilArith.le UtilArith.zero u = true)
    (hex : ∃ (j : Nat) (u : U), us[j]? = some u ∧ rks[j]? = some top ∧ UtilArith.le u UtilArith.zero = false) :
    ∃ (i : Nat) (u : U), (w.resolveRandom hid us (treeSum us) rks top).2 = some i ∧ rks[i]? = some top ∧
      us[i]? = some u ∧ UtilArith.le u UtilArith.zero = false ∧
      (w.resolveRandom hid us (treeSum us) rks top).1.rng = rest ∧
      (w.resolveRandom hid us (treeSum us) rks top).1.err = w.err := by
  have hsome := go_isSome top us rks 0 (UtilArith.mul rnd (treeSum us)) none (Or.inr hex)
  have hc0 : UtilArith.le UtilArith.zero (UtilArith.mul rnd (treeSum us)) = true :=
    UtilNonneg.mul_nonneg _ _ h0 (treeSum_nonneg us hnn)
  cases hg : World.resolveRandom.go top us rks 0 (UtilArith.mul rnd (treeSum us)) none with
  | none => rw [hg] at hsome; simp at hsome
  | some i =>
    rcases go_sound top us rks 0 _ none i hc0 hnn hg with hl | ⟨_, h2, u, h3, h4⟩
    · simp at hl
    · refine ⟨i, u, ?_, by simpa using h2, by simpa using h3, h4, ?_, ?_⟩ <;>
        (unfold resolveRandom; simp only [hr, hg]; try simp)

end World
end Streams

end Hfsm
