/-
Request marks after `load` and after a replay that changes nothing.

`deepLoadRequested` lays down request marks (`requested := loaded prong`) along the loaded configuration and
nowhere else; the pass that follows (`deepChangeToRequested` for an activated instance, `deepEnter` for one
that is not) consumes EVERY one of them, although neither `R_::load` nor `RV_::loadEnter` ends with
`registry.clearRequests()`:

  `Loaded n`         the marks `loadRequested` makes of an unmarked tree: every composite region on the loaded
                     configuration has `requested = some _`, `remain = false`; no orthogonal bit; nothing else
  `loadRequested`    `NoMarks n` → `Loaded n'`                                   (`Node.loadRequested_loaded`)
  `enter`            `Loaded n` → `NoMarks (enter n)`                            (`Node.enterT_noMarks`)
  `reenter`          `Loaded n ∧ Act n` → `NoMarks (reenter n)`                  (`Node.reenterT_noMarks`)
  `commit`           `Loaded n ∧ Act n` → `NoMarks (commit n)`                   (`Node.commitT_noMarks`)

and `registry != backup` is exact on trees of the same structure: `marksDiffer = false` means the request
marks ARE equal (`Node.marksDiffer_false`), so a replay that answers `false` leaves the marks it found.
-/
import Hfsm.Proofs.MachInv

set_option linter.unusedSimpArgs false
set_option linter.unusedVariables false

namespace Hfsm

/-! ### the marks `loadRequested` lays down -/

mutual
/-- request marks exactly along one resolved configuration: what `deepLoadRequested` makes of an unmarked tree -/
def Node.Loaded : Node → Prop
  | .leaf .. => True
  | .compo _ _ _ _ _ _ _ q m s => m = false ∧ (match q with | some qi => s.LoadedAt qi | none => False)
  | .ortho _ _ _ _ s => s.LoadedAll
/-- sub-state `i` is `Loaded`, the others carry no mark, no orthogonal bit is set -/
def Subs.LoadedAt : Subs → Nat → Prop
  | .nil, _ => True
  | .cons b n r, 0 => b = false ∧ n.Loaded ∧ r.NoMarksAll
  | .cons b n r, i+1 => b = false ∧ n.NoMarks ∧ r.LoadedAt i
def Subs.LoadedAll : Subs → Prop
  | .nil => True
  | .cons b n r => b = false ∧ n.Loaded ∧ r.LoadedAll
end

mutual
theorem Node.view_loaded (a r : Bool) : (n : Node) → ((n.view a r true).Loaded ↔ n.Loaded)
  | .leaf .. => Iff.rfl
  | .compo _ _ _ _ _ _ _ q m s => by
      have h := Subs.viewAll_loaded a r s
      simp only [Node.view, Node.Loaded, if_true, Bool.true_and]
      cases q with
      | none => exact Iff.rfl
      | some qi => simp only [h.2 qi]
  | .ortho _ _ _ _ s => by
      simp only [Node.view, Node.Loaded]; exact (Subs.viewAll_loaded a r s).1
theorem Subs.viewAll_loaded (a r : Bool) : (s : Subs) →
    ((s.viewAll a r true).LoadedAll ↔ s.LoadedAll) ∧ (∀ j, (s.viewAll a r true).LoadedAt j ↔ s.LoadedAt j)
  | .nil => ⟨Iff.rfl, fun _ => Iff.rfl⟩
  | .cons b n rest => by
      have h1 := Node.view_loaded a r n
      have h2 := Subs.viewAll_loaded a r rest
      have h3 := Node.view_noMarks a r n
      have h4 := Subs.viewAll_noMarks a r rest
      refine ⟨by simp only [Subs.viewAll, Subs.LoadedAll, Bool.true_and, h1, h2.1], ?_⟩
      intro j
      cases j with
      | zero => simp only [Subs.viewAll, Subs.LoadedAt, Bool.true_and, h1, h4]
      | succ j => simp only [Subs.viewAll, Subs.LoadedAt, Bool.true_and, h3, h2.2 j]
end

theorem Node.loaded_congr {n n' : Node} {a r : Bool} (h : n'.view a r true = n.view a r true) :
    n'.Loaded ↔ n.Loaded := by
  rw [← Node.view_loaded a r n', ← Node.view_loaded a r n, h]

/-! ### `loadResumable`, `loadRequested` -/

theorem Node.loadResumable_noMarks (n : Node) (st : List Bool) (n' : Node) (st' : List Bool)
    (h : n.loadResumable st = some (n', st')) (hn : n.NoMarks) : n'.NoMarks :=
  (Node.noMarks_congr (Node.loadResumable_spec n st n' st' h).1).mpr hn

set_option hygiene false in
local macro "fin_loaded" : tactic => `(tactic| (
  split at h
  · next s' st2 hs =>
    simp only [Option.some.injEq, Prod.mk.injEq] at h
    obtain ⟨rfl, _⟩ := h
    have ih := (Subs.loadRequestedAt_loaded s qv 0 st1 s' st2 hs hn.2.2).1 (Nat.zero_le _)
    simp only [Node.Loaded]
    exact ⟨hn.2.1, by simpa using ih⟩
  · simp at h))

mutual
theorem Node.loadRequested_loaded : (n : Node) → (st : List Bool) → (n' : Node) → (st' : List Bool) →
    n.loadRequested st = some (n', st') → n.NoMarks → n'.Loaded
  | .leaf id inj, st, n', st', h, _ => by
      simp only [Node.loadRequested, Option.some.injEq, Prod.mk.injEq] at h
      obtain ⟨rfl, _⟩ := h
      trivial
  | .compo id rid inj hd sg a r q m s, st, n', st', h, hn => by
      simp only [Node.NoMarks] at hn
      simp only [Node.loadRequested] at h
      split at h
      · simp at h
      · next qv st0 hq =>
        split at h
        · simp at h
        · next hqr =>
          split at h
          · simp at h
          · next rr st1 hrd =>
            cases rr with
            | none =>
              simp only [Bool.false_eq_true, if_false] at h
              fin_loaded
            | some ri =>
              by_cases hge : ri ≥ s.len
              · simp [hge] at h
              · simp only [hge, decide_false, Bool.false_eq_true, if_false] at h
                fin_loaded
  | .ortho id rid inj hd s, st, n', st', h, hn => by
      simp only [Node.NoMarks] at hn
      simp only [Node.loadRequested] at h
      split at h
      · next s' st2 hs =>
        simp only [Option.some.injEq, Prod.mk.injEq] at h
        obtain ⟨rfl, _⟩ := h
        simp only [Node.Loaded]
        exact Subs.loadRequestedAll_loaded s st s' st2 hs hn
      · simp at h
/-- `k` is the index of the head of `s` in the region -/
theorem Subs.loadRequestedAt_loaded : (s : Subs) → (q k : Nat) → (st : List Bool) → (s' : Subs) → (st' : List Bool) →
    s.loadRequestedAt q k st = some (s', st') → s.NoMarksAll →
    (k ≤ q → s'.LoadedAt (q - k)) ∧ (q < k → s'.NoMarksAll)
  | .nil, q, k, st, s', st', h, _ => by
      simp only [Subs.loadRequestedAt, Option.some.injEq, Prod.mk.injEq] at h
      obtain ⟨rfl, _⟩ := h
      exact ⟨fun _ => trivial, fun _ => trivial⟩
  | .cons b n r, q, k, st, s', st', h, hn => by
      simp only [Subs.NoMarksAll] at hn
      simp only [Subs.loadRequestedAt] at h
      split at h
      · simp at h
      · next n' st1 hn' =>
        split at h
        · next r' st2 hr =>
          simp only [Option.some.injEq, Prod.mk.injEq] at h
          obtain ⟨rfl, _⟩ := h
          have h2 := Subs.loadRequestedAt_loaded r q (k+1) st1 r' st2 hr hn.2.2
          by_cases e : q = k
          · simp only [e, if_true] at hn'
            have h1 := Node.loadRequested_loaded n st n' st1 hn' hn.2.1
            refine ⟨fun _ => ?_, fun hlt => by omega⟩
            have : q - k = 0 := by omega
            rw [this]; simp only [Subs.LoadedAt]
            exact ⟨hn.1, h1, h2.2 (by omega)⟩
          · simp only [e, if_false] at hn'
            have h1 := Node.loadResumable_noMarks n st n' st1 hn' hn.2.1
            refine ⟨fun hle => ?_, fun hlt => ?_⟩
            · have : q - k = (q - (k+1)) + 1 := by omega
              rw [this]; simp only [Subs.LoadedAt]
              exact ⟨hn.1, h1, h2.1 (by omega)⟩
            · simp only [Subs.NoMarksAll]
              exact ⟨hn.1, h1, h2.2 (by omega)⟩
        · simp at h
theorem Subs.loadRequestedAll_loaded : (s : Subs) → (st : List Bool) → (s' : Subs) → (st' : List Bool) →
    s.loadRequestedAll st = some (s', st') → s.NoMarksAll → s'.LoadedAll
  | .nil, st, s', st', h, _ => by
      simp only [Subs.loadRequestedAll, Option.some.injEq, Prod.mk.injEq] at h
      obtain ⟨rfl, _⟩ := h
      trivial
  | .cons b n r, st, s', st', h, hn => by
      simp only [Subs.NoMarksAll] at hn
      simp only [Subs.loadRequestedAll] at h
      split at h
      · simp at h
      · next n' st1 hn' =>
        split at h
        · next r' st2 hr =>
          simp only [Option.some.injEq, Prod.mk.injEq] at h
          obtain ⟨rfl, _⟩ := h
          simp only [Subs.LoadedAll]
          exact ⟨hn.1, Node.loadRequested_loaded n st n' st1 hn' hn.2.1,
            Subs.loadRequestedAll_loaded r st1 r' st2 hr hn.2.2⟩
        · simp at h
end

/-! ### `exit` leaves the marks alone -/

theorem Node.exitT_noMarks (n : Node) (h : n.NoMarks) : n.exitT.NoMarks :=
  (Node.noMarks_congr (Node.exitT_view n)).mpr h

theorem Subs.exitAtT_loadedAt (s : Subs) (i j : Nat) (h : s.LoadedAt j) : (s.exitAtT i).LoadedAt j := by
  have := (Subs.viewAll_loaded false false (s.exitAtT i)).2 j
  rw [Subs.exitAtT_view] at this
  exact this.mp (((Subs.viewAll_loaded false false s).2 j).mpr h)

/-! ### `enter` consumes them -/

mutual
theorem Node.enterT_noMarks : (n : Node) → n.Loaded → n.enterT.NoMarks
  | .leaf .., _ => trivial
  | .compo id rid inj h st a r q m s, hl => by
      simp only [Node.Loaded] at hl
      cases q with
      | none => exact absurd hl.2 (by simp)
      | some qi =>
        simp only [Node.enterT, Node.NoMarks, true_and]
        exact ⟨hl.1, Subs.enterAtT_noMarks s qi hl.2⟩
  | .ortho id rid inj h s, hl => by
      simp only [Node.Loaded] at hl
      simp only [Node.enterT, Node.NoMarks]
      exact Subs.enterAllT_noMarks s hl
theorem Subs.enterAtT_noMarks : (s : Subs) → (i : Nat) → s.LoadedAt i → (s.enterAtT i).NoMarksAll
  | .nil, _, _ => trivial
  | .cons b n r, 0, hl => by
      simp only [Subs.LoadedAt] at hl
      simp only [Subs.enterAtT, Subs.NoMarksAll]
      exact ⟨hl.1, Node.enterT_noMarks n hl.2.1, hl.2.2⟩
  | .cons b n r, i+1, hl => by
      simp only [Subs.LoadedAt] at hl
      simp only [Subs.enterAtT, Subs.NoMarksAll]
      exact ⟨hl.1, hl.2.1, Subs.enterAtT_noMarks r i hl.2.2⟩
theorem Subs.enterAllT_noMarks : (s : Subs) → s.LoadedAll → s.enterAllT.NoMarksAll
  | .nil, _ => trivial
  | .cons b n r, hl => by
      simp only [Subs.LoadedAll] at hl
      simp only [Subs.enterAllT, Subs.NoMarksAll, true_and]
      exact ⟨Node.enterT_noMarks n hl.2.1, Subs.enterAllT_noMarks r hl.2.2⟩
end

/-! ### `reenter` (a loaded prong equal to the active one) -/

mutual
theorem Node.reenterT_noMarks : (n : Node) → n.Loaded → n.Act → n.reenterT.NoMarks
  | .leaf .., _, _ => trivial
  | .compo id rid inj h st a r q m s, hl, ha => by
      simp only [Node.Loaded] at hl
      cases a with
      | none => simp [Node.Act] at ha
      | some ai =>
        simp only [Node.Act] at ha
        cases q with
        | none => exact absurd hl.2 (by simp)
        | some qi =>
          simp only [Node.reenterT]
          split
          · next e =>
            simp only [Node.NoMarks, true_and]
            exact ⟨hl.1, Subs.reenterAtT_noMarks s ai (by rw [e]; exact hl.2) ha⟩
          · simp only [Node.NoMarks, true_and]
            exact ⟨hl.1, Subs.enterAtT_noMarks _ qi (Subs.exitAtT_loadedAt s ai qi hl.2)⟩
  | .ortho id rid inj h s, hl, ha => by
      simp only [Node.Loaded] at hl
      simp only [Node.Act] at ha
      simp only [Node.reenterT, Node.NoMarks]
      exact Subs.reenterAllT_noMarks s hl ha
theorem Subs.reenterAtT_noMarks : (s : Subs) → (i : Nat) → s.LoadedAt i → s.ActAt i → (s.reenterAtT i).NoMarksAll
  | .nil, _, _, _ => trivial
  | .cons b n r, 0, hl, ha => by
      simp only [Subs.LoadedAt] at hl
      simp only [Subs.ActAt] at ha
      simp only [Subs.reenterAtT, Subs.NoMarksAll]
      exact ⟨hl.1, Node.reenterT_noMarks n hl.2.1 ha.1, hl.2.2⟩
  | .cons b n r, i+1, hl, ha => by
      simp only [Subs.LoadedAt] at hl
      simp only [Subs.ActAt] at ha
      simp only [Subs.reenterAtT, Subs.NoMarksAll]
      exact ⟨hl.1, hl.2.1, Subs.reenterAtT_noMarks r i hl.2.2 ha.2⟩
theorem Subs.reenterAllT_noMarks : (s : Subs) → s.LoadedAll → s.ActAll → s.reenterAllT.NoMarksAll
  | .nil, _, _ => trivial
  | .cons b n r, hl, ha => by
      simp only [Subs.LoadedAll] at hl
      simp only [Subs.ActAll] at ha
      simp only [Subs.reenterAllT, Subs.NoMarksAll, true_and]
      exact ⟨Node.reenterT_noMarks n hl.2.1 ha.1, Subs.reenterAllT_noMarks r hl.2.2 ha.2⟩
end

/-! ### `commit` -/

mutual
theorem Node.commitT_noMarks : (n : Node) → n.Loaded → n.Act → n.commitT.NoMarks
  | .leaf .., _, _ => trivial
  | .compo id rid inj h st a r q m s, hl, ha => by
      simp only [Node.Loaded] at hl
      obtain ⟨rfl, hl⟩ := hl
      cases a with
      | none => simp [Node.Act] at ha
      | some ai =>
        simp only [Node.Act] at ha
        cases q with
        | none => exact absurd hl (by simp)
        | some qi =>
          simp only [Node.commitT, Bool.false_eq_true, if_false]
          split
          · simp only [Node.NoMarks, true_and]
            exact Subs.enterAtT_noMarks _ qi (Subs.exitAtT_loadedAt s ai qi hl)
          · next e =>
            have e' : qi = ai := by simpa using e
            simp only [Node.NoMarks, true_and]
            exact Subs.reenterAtT_noMarks s ai (by rw [← e']; exact hl) ha
  | .ortho id rid inj h s, hl, ha => by
      simp only [Node.Loaded] at hl
      simp only [Node.Act] at ha
      simp only [Node.commitT, Node.NoMarks]
      exact Subs.commitAllT_noMarks s hl ha
theorem Subs.commitAllT_noMarks : (s : Subs) → s.LoadedAll → s.ActAll → s.commitAllT.NoMarksAll
  | .nil, _, _ => trivial
  | .cons b n r, hl, ha => by
      simp only [Subs.LoadedAll] at hl
      simp only [Subs.ActAll] at ha
      simp only [Subs.commitAllT, Subs.NoMarksAll]
      exact ⟨hl.1, Node.commitT_noMarks n hl.2.1 ha.1, Subs.commitAllT_noMarks r hl.2.2 ha.2⟩
end

/-! ### restoring the loaded resumable marks does not touch request marks -/

theorem Node.withResumableOf_noMarks (n d : Node) (h : n.NoMarks) : (n.withResumableOf d).NoMarks :=
  (Node.noMarks_congr (Node.withResumableOf_view false n d)).mpr h

theorem Node.noResumable_noMarks (n : Node) (h : n.NoMarks) : n.noResumable.NoMarks :=
  (Node.noMarks_congr (Node.noResumable_view false n)).mpr h

/-- the tree `R_::load` reads into carries no mark, whatever the instance carried -/
theorem Node.clearMarks_noResumable_noMarks (n : Node) : n.clearMarks.noResumable.NoMarks :=
  Node.noResumable_noMarks _ (Node.clearMarks_noMarks n)

/-! ### `registry != backup` is exact -/

mutual
theorem Node.marksDiffer_false : (n b : Node) → n.view false false false = b.view false false false →
    n.marksDiffer b = false → n.view false false true = b.view false false true
  | .leaf .., .leaf .., h, _ => by simpa [Node.view] using h
  | .leaf .., .compo .., h, _ => by simp [Node.view] at h
  | .leaf .., .ortho .., h, _ => by simp [Node.view] at h
  | .compo _ _ _ _ _ _ _ q m s, .compo _ _ _ _ _ _ _ q' m' s', h, hd => by
      simp only [Node.view, Node.compo.injEq] at h
      obtain ⟨h1, h2, h3, h4, h5, _, _, _, _, h7⟩ := h
      simp only [Node.marksDiffer, Bool.or_eq_false_iff, bne_eq_false_iff_eq] at hd
      obtain ⟨⟨hq, hm⟩, hs⟩ := hd
      simp [Node.view, Subs.marksDiffer_false s s' h7 hs, h1, h2, h3, h4, h5, hq, hm]
  | .compo .., .leaf .., h, _ => by simp [Node.view] at h
  | .compo .., .ortho .., h, _ => by simp [Node.view] at h
  | .ortho _ _ _ _ s, .ortho _ _ _ _ s', h, hd => by
      simp only [Node.view, Node.ortho.injEq] at h
      obtain ⟨h1, h2, h3, h4, h7⟩ := h
      simp only [Node.marksDiffer] at hd
      simp [Node.view, Subs.marksDiffer_false s s' h7 hd, h1, h2, h3, h4]
  | .ortho .., .leaf .., h, _ => by simp [Node.view] at h
  | .ortho .., .compo .., h, _ => by simp [Node.view] at h
theorem Subs.marksDiffer_false : (s b : Subs) → s.viewAll false false false = b.viewAll false false false →
    s.marksDiffer b = false → s.viewAll false false true = b.viewAll false false true
  | .nil, .nil, _, _ => rfl
  | .nil, .cons .., h, _ => by simp [Subs.viewAll] at h
  | .cons .., .nil, h, _ => by simp [Subs.viewAll] at h
  | .cons c n rest, .cons c' n' rest', h, hd => by
      simp only [Subs.viewAll, Subs.cons.injEq] at h
      simp only [Subs.marksDiffer, Bool.or_eq_false_iff, bne_eq_false_iff_eq] at hd
      obtain ⟨⟨hb, hn⟩, hr⟩ := hd
      simp [Subs.viewAll, Node.marksDiffer_false n n' h.2.1 hn, Subs.marksDiffer_false rest rest' h.2.2 hr, hb]
end

/-- a pass after which `registry != backup` is false left the request marks of the backup -/
theorem Node.noMarks_of_marksDiffer_false {n b : Node} (hs : n.SameShape b) (hd : n.marksDiffer b = false)
    (hb : b.NoMarks) : n.NoMarks :=
  (Node.noMarks_congr (Node.marksDiffer_false n b hs hd)).mpr hb

end Hfsm
