/-
Bit-level lemmas for the serialization model (`Model/Serial.lean`): `bitsOf / readBits` round trip,
`bitContain` field fitting, `readResumable`.
-/
import Hfsm.Model.Serial

namespace Hfsm

theorem bitsOf_length : ∀ (w v : Nat), (bitsOf w v).length = w
  | 0, _ => rfl
  | w+1, v => by simp [bitsOf, bitsOf_length w]

/-- `read<w>` after `write<w>(v)` returns the `w` low bits of `v` and the rest of the stream. -/
theorem readBits_bitsOf : ∀ (w v : Nat) (rest : List Bool),
    readBits w (bitsOf w v ++ rest) = some (v % 2 ^ w, rest)
  | 0, v, rest => by simp [bitsOf, readBits, Nat.mod_one]
  | w+1, v, rest => by
    simp only [bitsOf, List.cons_append, readBits, readBits_bitsOf w (v / 2) rest]
    have h : (if (v % 2 == 1) = true then 1 else 0) = v % 2 := by
      rcases Nat.mod_two_eq_zero_or_one v with h | h <;> simp [h]
    rw [h, Nat.pow_succ', Nat.mod_mul]

/-- in contract (`v < 2^w`) the value itself comes back -/
theorem readBits_bitsOf_fit (w v : Nat) (rest : List Bool) (h : v < 2 ^ w) :
    readBits w (bitsOf w v ++ rest) = some (v, rest) := by
  rw [readBits_bitsOf, Nat.mod_eq_of_lt h]

/-- bit `j` of the field is bit `j` of the value (least significant first) -/
theorem bitsOf_getElem : ∀ (w v j : Nat) (h : j < (bitsOf w v).length), (bitsOf w v)[j] = v.testBit j
  | 0, _, _, h => by simp [bitsOf] at h
  | w+1, v, 0, _ => by
    simp only [bitsOf, List.getElem_cons_zero, Nat.testBit_zero]
    rcases Nat.mod_two_eq_zero_or_one v with h | h <;> simp [h]
  | w+1, v, j+1, h => by
    simp only [bitsOf, List.getElem_cons_succ]
    rw [bitsOf_getElem w (v / 2) j (by simpa [bitsOf] using h), Nat.testBit_succ]

/-- **Field fitting**: every prong of a region of width `w ≤ 256` fits the `bitContain w` bits the
serializer reserves for it (`Short` prongs: widths above 256 are not expressible). -/
theorem lt_two_pow_bitContain (w i : Nat) (hw : w ≤ 256) (hi : i < w) : i < 2 ^ bitContain w := by
  unfold bitContain
  repeat' split
  all_goals omega

/-- for wider regions the field is too small: the bound `256` is sharp -/
theorem not_fit_257 : ¬ (256 < 2 ^ bitContain 257) := by decide

theorem bitContain_le_8 (w : Nat) : bitContain w ≤ 8 := by
  unfold bitContain
  repeat' split
  all_goals omega

theorem bitContain_pos (w : Nat) (h : 2 ≤ w) : 1 ≤ bitContain w := by
  unfold bitContain
  repeat' split
  all_goals omega

theorem resumableBits_length_le (wb : Nat) (r : Option Nat) : (resumableBits wb r).length ≤ wb + 1 := by
  cases r <;> simp [resumableBits, bitsOf_length]

theorem prongBits_length (wb : Nat) (a : Option Nat) : (prongBits wb a).length = wb := by
  simp [prongBits, bitsOf_length]

/-- the `resumable` record round trip -/
theorem readResumable_resumableBits (wb : Nat) (r : Option Nat) (rest : List Bool)
    (h : match r with | some ri => ri < 2 ^ wb | none => True) :
    readResumable wb (resumableBits wb r ++ rest) = some (r, rest) := by
  cases r with
  | none => simp [resumableBits, readResumable]
  | some ri =>
    simp only [resumableBits, List.cons_append, readResumable]
    rw [readBits_bitsOf_fit wb ri rest h]

end Hfsm
