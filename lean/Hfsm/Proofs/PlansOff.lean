/-
Plans compiled in but never used (C15), part 1: the invariant.

`World.PI w` ("plans idle"): no plan exists (`planExists = 0`), no task-status bit is set
(`tasksSuccesses = tasksFailures = 0`) and no callback still to come touches plans or task status
(every decision of `w.ds` is free of `succeed / fail / plan.append / plan.clear`).

Every traversal of the model (Forward / Commit / Dispatch) and every operation of the instance other
than `succeed / fail / plan(…).append / plan(…).clear` preserves it, whatever `HFSM2_ENABLE_PLANS` is.
-/
import Hfsm.Proofs.Api
import Hfsm.Proofs.PlansUnused
import Lean

set_option linter.unusedVariables false
set_option linter.unusedSectionVars false
set_option linter.unusedSimpArgs false

namespace Hfsm
variable {U : Type}

/-! ### programs and callbacks that do not use plans -/

/-- the action is neither `succeed()`, `fail()` nor an edit of a plan -/
def Action.plansFree : Action U → Bool
  | .succeed _ | .fail _ | .planAppend .. | .planClear => false
  | _ => true

/-- a callback invocation that does not touch plans or task status -/
def Decision.plansFree (d : Decision U) : Bool := List.all d Action.plansFree

/-- an API call other than `succeed / fail / plan(…).append… / plan(…).clear` -/
def Api.Op.plansFree : Api.Op → Bool
  | .setTask .. | .planAppend .. | .planClear _ => false
  | _ => true

/-- Plans are idle: no plan, no status bit, and no callback to come will create one. -/
structure World.PI (w : World U) : Prop where
  pe : w.planExists = 0
  su : w.succ = 0
  fa : w.fail = 0
  ds : ∀ d ∈ w.ds, Decision.plansFree d = true

namespace World.PI
variable {w w' : World U}

theorem of_eq (h : w.PI) (h1 : w'.planExists = w.planExists) (h2 : w'.succ = w.succ) (h3 : w'.fail = w.fail)
    (h4 : w'.ds = w.ds) : w'.PI :=
  ⟨h1.trans h.pe, h2.trans h.su, h3.trans h.fa, fun d hd => h.ds d (h4 ▸ hd)⟩

theorem fail' (h : w.PI) (msg : String) : (w.fail' msg).PI := by
  unfold World.fail'; split <;> exact h.of_eq rfl rfl rfl rfl

theorem emit (h : w.PI) (e : Event U) : (w.emit e).PI := h.of_eq rfl rfl rfl rfl

theorem logRec (h : w.PI) (r : LogRec U) : (w.logRec r).PI := by
  unfold World.logRec; split
  · exact h.emit _
  · exact h

theorem pin (h : w.PI) (sid : Nat) (ix : Option Nat) : (w.pin sid ix).PI := by
  unfold World.pin; split
  · exact h
  · split
    · exact h.of_eq rfl rfl rfl rfl
    · exact h

theorem pushRegion (h : w.PI) (rid hid size : Nat) : (w.pushRegion rid hid size).1.PI := h.of_eq rfl rfl rfl rfl
theorem popRegion (h : w.PI) (sv : Nat × Nat × Nat) : (w.popRegion sv).PI := h.of_eq rfl rfl rfl rfl

theorem orHead (h : w.PI) (rid : Nat) (s : TaskStatus) : (w.orHead rid s).PI := by
  unfold World.orHead; split
  · exact h.of_eq rfl rfl rfl rfl
  · exact h

theorem orSub (h : w.PI) (rid : Nat) (s : TaskStatus) : (w.orSub rid s).PI := by
  unfold World.orSub; split
  · exact h.of_eq rfl rfl rfl rfl
  · exact h

theorem setConsumed (h : w.PI) (b : Bool) : ({ w with consumed := b } : World U).PI := h.of_eq rfl rfl rfl rfl

theorem ctlRequest (h : w.PI) (k : Kind) (d : Nat) (p : Option Nat) : (w.ctlRequest k d p).PI := by
  simp only [World.ctlRequest]
  refine World.PI.logRec ?_ _
  split <;> split <;> exact h.of_eq rfl rfl rfl rfl

theorem act (h : w.PI) (c : CtlClass) (a : Action U) (ha : a.plansFree = true) : (World.act c w a).PI := by
  cases a <;> simp only [Action.plansFree, Bool.false_eq_true] at ha <;> simp only [World.act]
  case request k d p => split; exact h.ctlRequest ..; exact h.fail' _
  case cancel => split; (refine World.PI.logRec ?_ _; exact h.of_eq rfl rfl rfl rfl); exact h.fail' _
  case consume => split; exact h.of_eq rfl rfl rfl rfl; exact h.fail' _
  all_goals exact h

theorem acts (c : CtlClass) : (d : Decision U) → {w : World U} → w.PI → Decision.plansFree d = true →
    (d.foldl (World.act c) w).PI
  | [], _, h, _ => h
  | a :: rest, w, h, hd => by
      simp only [Decision.plansFree, List.all_cons, Bool.and_eq_true] at hd
      exact acts c rest (h.act c a hd.1) hd.2

theorem invoke (h : w.PI) (sid : Nat) (m : Method) (slot : Nat) : (w.invoke sid m slot).1.PI := by
  unfold World.invoke
  split
  · exact h.fail' _
  · next d rest hds =>
    have h1 : ({ w with ds := rest } : World U).PI :=
      ⟨h.pe, h.su, h.fa, fun d' hd' => h.ds d' (by rw [hds]; exact List.mem_cons_of_mem _ hd')⟩
    exact World.PI.emit (acts m.cls d h1 (h.ds d (by rw [hds]; exact List.mem_cons_self))) _

theorem invokeSlots (sid : Nat) (m : Method) : (l : List Nat) → {w : World U} → w.PI → (w.invokeSlots sid m l).PI
  | [], _, h => h
  | s :: rest, _, h => by
      simp only [World.invokeSlots]
      exact invokeSlots sid m rest (h.invoke sid m s)

theorem stateMethod (h : w.PI) (sid inj : Nat) (headed : Bool) (m : Method) :
    (w.stateMethod sid inj headed m).PI := by
  have h1 : (if (headed || w.cfg.verbose) = true then w.logRec (.method sid m) else w).PI := by
    split
    · exact h.logRec _
    · exact h
  unfold World.stateMethod
  dsimp only
  split
  · exact World.PI.of_eq (invokeSlots sid m _ (h1.of_eq (w' := { (if (headed || w.cfg.verbose) = true then
      w.logRec (.method sid m) else w) with origin := some sid }) rfl rfl rfl rfl)) rfl rfl rfl rfl
  · exact h1

theorem guardState (h : w.PI) (sid inj : Nat) (headed : Bool) (m : Method) :
    (w.guardState sid inj headed m).1.PI := h.stateMethod ..

theorem runState (h : w.PI) (sid inj : Nat) (headed : Bool) (m : Method) :
    (w.runState sid inj headed m).1.PI := h.stateMethod ..

theorem _root_.Hfsm.World.clearBit_zero (i : Nat) : World.clearBit 0 i = 0 := by
  simp [World.clearBit]

theorem exitState (h : w.PI) (sid inj : Nat) (headed : Bool) : (w.exitState sid inj headed).PI := by
  have h1 := h.stateMethod sid inj headed .exit
  unfold World.exitState
  dsimp only
  split
  · exact ⟨h1.pe, by show World.clearBit _ sid = 0; rw [h1.su]; exact World.clearBit_zero _,
      by show World.clearBit _ sid = 0; rw [h1.fa]; exact World.clearBit_zero _, h1.ds⟩
  · exact h1

variable [UtilArith U]

theorem headUtility (h : w.PI) (sid inj : Nat) (headed : Bool) : (w.headUtility sid inj headed).1.PI := by
  cases headed
  · simp only [World.headUtility, Bool.false_eq_true, if_false]; exact h
  · simp only [World.headUtility, if_true]
    split
    · exact (h.logRec _).invoke ..
    · exact ((h.logRec _).invoke ..).fail' _

theorem headUtilityWrap (h : w.PI) (sid inj : Nat) (headed : Bool) : (w.headUtilityWrap sid inj headed).1.PI := by
  cases headed
  · simp only [World.headUtilityWrap, Bool.false_eq_true, if_false]
    split
    · exact h.logRec _
    · exact h
  · simp only [World.headUtilityWrap, if_true]; exact h.headUtility sid inj true

theorem headRank (h : w.PI) (sid inj : Nat) (headed : Bool) : (w.headRank sid inj headed).1.PI := by
  cases headed
  · simp only [World.headRank, Bool.false_or, Bool.false_eq_true, if_false]
    split
    · exact h.logRec _
    · exact h
  · simp only [World.headRank, Bool.true_or, if_true]
    split
    · exact (h.logRec _).invoke ..
    · exact ((h.logRec _).invoke ..).fail' _

theorem headSelect (h : w.PI) (sid inj : Nat) (headed : Bool) : (w.headSelect sid inj headed).1.PI := by
  cases headed
  · simp only [World.headSelect, Bool.false_or, Bool.false_eq_true, if_false]
    split
    · exact h.logRec _
    · exact h
  · simp only [World.headSelect, Bool.true_or, if_true]
    split
    · exact (h.logRec _).invoke ..
    · exact ((h.logRec _).invoke ..).fail' _

theorem resolveRandom (h : w.PI) (headId : Nat) (us : List U) (sum : U) (rks : List Int) (top : Int) :
    (w.resolveRandom headId us sum rks top).1.PI := by
  simp only [World.resolveRandom]
  split
  · exact h.fail' _
  · split
    · refine World.PI.logRec ?_ _; exact h.of_eq rfl rfl rfl rfl
    · refine World.PI.fail' ?_ _; exact h.of_eq rfl rfl rfl rfl

theorem freshControl (h : w.PI) : w.freshControl.PI := h.of_eq rfl rfl rfl rfl
theorem snapshot (h : w.PI) (root : Node) (o g : Bool) : (w.snapshot root o g).PI := h.of_eq rfl rfl rfl rfl
theorem clearTargets (h : w.PI) : w.clearTargets.PI := by
  unfold World.clearTargets; split
  · exact h.of_eq rfl rfl rfl rfl
  · exact h
theorem clearStatuses (h : w.PI) : w.clearStatuses.PI := ⟨h.pe, rfl, rfl, h.ds⟩
theorem clearPlanData (h : w.PI) : w.clearPlanData.PI := ⟨rfl, rfl, rfl, h.ds⟩

end World.PI

/-! ### peeling tactic -/

open Lean Elab Tactic Meta in
/-- `piupd`: the goal is `World.PI { b with … }` where the update leaves `cfg`, `planExists`, `succ`, `fail`
and `ds` alone: reduce it to `World.PI b`. -/
elab "piupd" : tactic => withMainContext do
  let g ← instantiateMVars (← getMainTarget)
  let c := g.appArg!.consumeMData
  unless c.isAppOf ``Hfsm.World.mk do throwError "not a structure literal"
  let args := c.getAppArgs
  let cfg := args[1]!.consumeMData
  let b ← match cfg with
    | .proj _ _ x => pure x
    | _ => if cfg.isAppOfArity ``Hfsm.World.cfg 2 then pure cfg.appArg! else throwError "cfg is not a projection"
  let bStx ← Term.exprToSyntax b
  evalTactic (← `(tactic| refine World.PI.of_eq (w := $bStx) ?_ rfl rfl rfl rfl))

/-- one peeling step of a `World.PI (…)` goal -/
macro "pistep" : tactic => `(tactic| first
  | assumption
  | with_reducible refine World.PI.fail' ?_ _
  | with_reducible refine World.PI.popRegion ?_ _
  | with_reducible refine World.PI.pushRegion ?_ _ _ _
  | with_reducible refine World.PI.stateMethod ?_ _ _ _ _
  | with_reducible refine World.PI.guardState ?_ _ _ _ _
  | with_reducible refine World.PI.runState ?_ _ _ _ _
  | with_reducible refine World.PI.exitState ?_ _ _ _
  | with_reducible refine World.PI.orHead ?_ _ _
  | with_reducible refine World.PI.orSub ?_ _ _
  | with_reducible refine World.PI.logRec ?_ _
  | with_reducible refine World.PI.pin ?_ _ _
  | with_reducible refine World.PI.headUtility ?_ _ _ _
  | with_reducible refine World.PI.headUtilityWrap ?_ _ _ _
  | with_reducible refine World.PI.headRank ?_ _ _ _
  | with_reducible refine World.PI.headSelect ?_ _ _ _
  | with_reducible refine World.PI.resolveRandom ?_ _ _ _ _ _
  | with_reducible refine World.PI.freshControl ?_
  | with_reducible refine World.PI.snapshot ?_ _ _ _
  | with_reducible refine World.PI.clearTargets ?_
  | with_reducible refine World.PI.clearStatuses ?_
  | with_reducible refine World.PI.clearPlanData ?_
  | piupd
  | split
  | dsimp only)

/-- `pis [ih₁ _ _, …]`: peel a `World.PI (… nested traversal …)` goal outside-in; the `ihₖ` are the lemmas for
the recursive calls, given without their last argument (the invariant of the input world). -/
syntax "pis " "[" term,* "]" : tactic
macro_rules
  | `(tactic| pis [$ts,*]) => do
    let ih ← ts.getElems.mapM fun t => `(tactic| with_reducible refine $t ?_)
    `(tactic| repeat' (first $[| $ih:tactic]* | pistep))

/-- unfold one equation of traversal `f`, then peel -/
syntax "pit " ident " [" term,* "]" : tactic
macro_rules
  | `(tactic| pit $f [$ts,*]) => `(tactic| (simp only [$f:ident]; pis [$ts,*]))

/-! ### the invariant through every traversal -/

section trav

mutual
theorem Node.entryGuard_PI : (n : Node) → (w : World U) → w.PI → (n.entryGuard w).1.PI
  | .leaf .., w, hI => by pit Node.entryGuard []
  | .compo _ _ _ _ _ _ _ q _ s, w, hI => by cases q <;> pit Node.entryGuard [Subs.entryGuardAt_PI s _ _]
  | .ortho _ _ _ _ s, w, hI => by pit Node.entryGuard [Subs.entryGuardAll_PI s _]
theorem Subs.entryGuardAt_PI : (s : Subs) → (i : Nat) → (w : World U) → w.PI → (s.entryGuardAt i w).1.PI
  | .nil, _, w, hI => by pit Subs.entryGuardAt []
  | .cons _ n _, 0, w, hI => by pit Subs.entryGuardAt [Node.entryGuard_PI n _]
  | .cons _ _ r, i+1, w, hI => by pit Subs.entryGuardAt [Subs.entryGuardAt_PI r _ _]
theorem Subs.entryGuardAll_PI : (s : Subs) → (w : World U) → w.PI → (s.entryGuardAll w).1.PI
  | .nil, w, hI => by pit Subs.entryGuardAll []
  | .cons _ n r, w, hI => by pit Subs.entryGuardAll [Node.entryGuard_PI n _, Subs.entryGuardAll_PI r _]
end

mutual
theorem Node.fwdEntryGuard_PI : (n : Node) → (w : World U) → w.PI → (n.fwdEntryGuard w).1.PI
  | .leaf .., w, hI => by pit Node.fwdEntryGuard []
  | .compo _ _ _ _ _ a _ q _ s, w, hI => by
      cases q <;> cases a <;> pit Node.fwdEntryGuard [Subs.fwdEntryGuardAt_PI s _ _, Subs.entryGuardAt_PI s _ _]
  | .ortho _ _ _ _ s, w, hI => by pit Node.fwdEntryGuard [Subs.fwdEntryGuardBits_PI s _, Subs.fwdEntryGuardAll_PI s _]
theorem Subs.fwdEntryGuardAt_PI : (s : Subs) → (i : Nat) → (w : World U) → w.PI → (s.fwdEntryGuardAt i w).1.PI
  | .nil, _, w, hI => by pit Subs.fwdEntryGuardAt []
  | .cons _ n _, 0, w, hI => by pit Subs.fwdEntryGuardAt [Node.fwdEntryGuard_PI n _]
  | .cons _ _ r, i+1, w, hI => by pit Subs.fwdEntryGuardAt [Subs.fwdEntryGuardAt_PI r _ _]
theorem Subs.fwdEntryGuardBits_PI : (s : Subs) → (w : World U) → w.PI → (s.fwdEntryGuardBits w).1.PI
  | .nil, w, hI => by pit Subs.fwdEntryGuardBits []
  | .cons b n r, w, hI => by cases b <;> pit Subs.fwdEntryGuardBits [Node.fwdEntryGuard_PI n _, Subs.fwdEntryGuardBits_PI r _]
theorem Subs.fwdEntryGuardAll_PI : (s : Subs) → (w : World U) → w.PI → (s.fwdEntryGuardAll w).1.PI
  | .nil, w, hI => by pit Subs.fwdEntryGuardAll []
  | .cons _ n r, w, hI => by pit Subs.fwdEntryGuardAll [Node.fwdEntryGuard_PI n _, Subs.fwdEntryGuardAll_PI r _]
end

mutual
theorem Node.exitGuard_PI : (n : Node) → (w : World U) → w.PI → (n.exitGuard w).1.PI
  | .leaf .., w, hI => by pit Node.exitGuard []
  | .compo _ _ _ _ _ a _ _ _ s, w, hI => by cases a <;> pit Node.exitGuard [Subs.exitGuardAt_PI s _ _]
  | .ortho _ _ _ _ s, w, hI => by pit Node.exitGuard [Subs.exitGuardAll_PI s _]
theorem Subs.exitGuardAt_PI : (s : Subs) → (i : Nat) → (w : World U) → w.PI → (s.exitGuardAt i w).1.PI
  | .nil, _, w, hI => by pit Subs.exitGuardAt []
  | .cons _ n _, 0, w, hI => by pit Subs.exitGuardAt [Node.exitGuard_PI n _]
  | .cons _ _ r, i+1, w, hI => by pit Subs.exitGuardAt [Subs.exitGuardAt_PI r _ _]
theorem Subs.exitGuardAll_PI : (s : Subs) → (w : World U) → w.PI → (s.exitGuardAll w).1.PI
  | .nil, w, hI => by pit Subs.exitGuardAll []
  | .cons _ n r, w, hI => by pit Subs.exitGuardAll [Node.exitGuard_PI n _, Subs.exitGuardAll_PI r _]
end

mutual
theorem Node.fwdExitGuard_PI : (n : Node) → (w : World U) → w.PI → (n.fwdExitGuard w).1.PI
  | .leaf .., w, hI => by pit Node.fwdExitGuard []
  | .compo _ _ _ _ _ a _ q _ s, w, hI => by
      cases q <;> cases a <;> pit Node.fwdExitGuard [Subs.fwdExitGuardAt_PI s _ _, Subs.exitGuardAt_PI s _ _]
  | .ortho _ _ _ _ s, w, hI => by pit Node.fwdExitGuard [Subs.fwdExitGuardBits_PI s _, Subs.fwdExitGuardAll_PI s _]
theorem Subs.fwdExitGuardAt_PI : (s : Subs) → (i : Nat) → (w : World U) → w.PI → (s.fwdExitGuardAt i w).1.PI
  | .nil, _, w, hI => by pit Subs.fwdExitGuardAt []
  | .cons _ n _, 0, w, hI => by pit Subs.fwdExitGuardAt [Node.fwdExitGuard_PI n _]
  | .cons _ _ r, i+1, w, hI => by pit Subs.fwdExitGuardAt [Subs.fwdExitGuardAt_PI r _ _]
theorem Subs.fwdExitGuardBits_PI : (s : Subs) → (w : World U) → w.PI → (s.fwdExitGuardBits w).1.PI
  | .nil, w, hI => by pit Subs.fwdExitGuardBits []
  | .cons b n r, w, hI => by cases b <;> pit Subs.fwdExitGuardBits [Node.fwdExitGuard_PI n _, Subs.fwdExitGuardBits_PI r _]
theorem Subs.fwdExitGuardAll_PI : (s : Subs) → (w : World U) → w.PI → (s.fwdExitGuardAll w).1.PI
  | .nil, w, hI => by pit Subs.fwdExitGuardAll []
  | .cons _ n r, w, hI => by pit Subs.fwdExitGuardAll [Node.fwdExitGuard_PI n _, Subs.fwdExitGuardAll_PI r _]
end

mutual
theorem Node.enter_PI : (n : Node) → (w : World U) → w.PI → (n.enter w).2.PI
  | .leaf .., w, hI => by pit Node.enter []
  | .compo _ _ _ _ _ _ _ q _ s, w, hI => by cases q <;> pit Node.enter [Subs.enterAt_PI s _ _]
  | .ortho _ _ _ _ s, w, hI => by pit Node.enter [Subs.enterAll_PI s _]
theorem Subs.enterAt_PI : (s : Subs) → (i : Nat) → (w : World U) → w.PI → (s.enterAt i w).2.PI
  | .nil, _, w, hI => by pit Subs.enterAt []
  | .cons _ n _, 0, w, hI => by pit Subs.enterAt [Node.enter_PI n _]
  | .cons _ _ r, i+1, w, hI => by pit Subs.enterAt [Subs.enterAt_PI r _ _]
theorem Subs.enterAll_PI : (s : Subs) → (w : World U) → w.PI → (s.enterAll w).2.PI
  | .nil, w, hI => by pit Subs.enterAll []
  | .cons _ n r, w, hI => by pit Subs.enterAll [Node.enter_PI n _, Subs.enterAll_PI r _]
end

mutual
theorem Node.exit_PI : (n : Node) → (w : World U) → w.PI → (n.exit w).2.PI
  | .leaf .., w, hI => by pit Node.exit []
  | .compo _ _ _ _ _ a _ _ _ s, w, hI => by cases a <;> pit Node.exit [Subs.exitAt_PI s _ _]
  | .ortho _ _ _ _ s, w, hI => by pit Node.exit [Subs.exitAll_PI s _]
theorem Subs.exitAt_PI : (s : Subs) → (i : Nat) → (w : World U) → w.PI → (s.exitAt i w).2.PI
  | .nil, _, w, hI => by pit Subs.exitAt []
  | .cons _ n _, 0, w, hI => by pit Subs.exitAt [Node.exit_PI n _]
  | .cons _ _ r, i+1, w, hI => by pit Subs.exitAt [Subs.exitAt_PI r _ _]
theorem Subs.exitAll_PI : (s : Subs) → (w : World U) → w.PI → (s.exitAll w).2.PI
  | .nil, w, hI => by pit Subs.exitAll []
  | .cons _ n r, w, hI => by pit Subs.exitAll [Node.exit_PI n _, Subs.exitAll_PI r _]
end

mutual
theorem Node.reenter_PI : (n : Node) → (w : World U) → w.PI → (n.reenter w).2.PI
  | .leaf .., w, hI => by pit Node.reenter []
  | .compo _ _ _ _ _ a _ q _ s, w, hI => by
      cases q <;> cases a <;> pit Node.reenter [Subs.reenterAt_PI s _ _, Subs.enterAt_PI _ _ _, Subs.exitAt_PI s _ _]
  | .ortho _ _ _ _ s, w, hI => by pit Node.reenter [Subs.reenterAll_PI s _]
theorem Subs.reenterAt_PI : (s : Subs) → (i : Nat) → (w : World U) → w.PI → (s.reenterAt i w).2.PI
  | .nil, _, w, hI => by pit Subs.reenterAt []
  | .cons _ n _, 0, w, hI => by pit Subs.reenterAt [Node.reenter_PI n _]
  | .cons _ _ r, i+1, w, hI => by pit Subs.reenterAt [Subs.reenterAt_PI r _ _]
theorem Subs.reenterAll_PI : (s : Subs) → (w : World U) → w.PI → (s.reenterAll w).2.PI
  | .nil, w, hI => by pit Subs.reenterAll []
  | .cons _ n r, w, hI => by pit Subs.reenterAll [Node.reenter_PI n _, Subs.reenterAll_PI r _]
end

mutual
theorem Node.commit_PI : (n : Node) → (w : World U) → w.PI → (n.commit w).2.PI
  | .leaf .., w, hI => by pit Node.commit []
  | .compo _ _ _ _ _ a _ q _ s, w, hI => by
      cases q <;> cases a <;>
        pit Node.commit [Subs.commitAt_PI s _ _, Subs.reenterAt_PI s _ _, Subs.enterAt_PI _ _ _, Subs.exitAt_PI s _ _]
  | .ortho _ _ _ _ s, w, hI => by pit Node.commit [Subs.commitAll_PI s _]
theorem Subs.commitAt_PI : (s : Subs) → (i : Nat) → (w : World U) → w.PI → (s.commitAt i w).2.PI
  | .nil, _, w, hI => by pit Subs.commitAt []
  | .cons _ n _, 0, w, hI => by pit Subs.commitAt [Node.commit_PI n _]
  | .cons _ _ r, i+1, w, hI => by pit Subs.commitAt [Subs.commitAt_PI r _ _]
theorem Subs.commitAll_PI : (s : Subs) → (w : World U) → w.PI → (s.commitAll w).2.PI
  | .nil, w, hI => by pit Subs.commitAll []
  | .cons _ n r, w, hI => by pit Subs.commitAll [Node.commit_PI n _, Subs.commitAll_PI r _]
end

/-! ### Dispatch.lean -/

mutual
theorem Node.tick_PI (ph : Method) : (n : Node) → (w : World U) → w.PI → (n.tick ph w).1.PI
  | .leaf .., w, hI => by pit Node.tick []
  | .compo _ _ _ _ _ a _ _ _ s, w, hI => by cases a <;> pit Node.tick [Subs.tickAt_PI ph s _ _]
  | .ortho _ _ _ _ s, w, hI => by pit Node.tick [Subs.tickAll_PI ph s _]
theorem Subs.tickAt_PI (ph : Method) : (s : Subs) → (i : Nat) → (w : World U) → w.PI → (s.tickAt ph i w).1.PI
  | .nil, _, w, hI => by pit Subs.tickAt []
  | .cons _ n _, 0, w, hI => by pit Subs.tickAt [Node.tick_PI ph n _]
  | .cons _ _ r, i+1, w, hI => by pit Subs.tickAt [Subs.tickAt_PI ph r _ _]
theorem Subs.tickAll_PI (ph : Method) : (s : Subs) → (w : World U) → w.PI → (s.tickAll ph w).1.PI
  | .nil, w, hI => by pit Subs.tickAll []
  | .cons _ n r, w, hI => by pit Subs.tickAll [Node.tick_PI ph n _, Subs.tickAll_PI ph r _]
end

mutual
theorem Node.react_PI (ph : Method) (hf po : Bool) : (n : Node) → (w : World U) → w.PI → (n.react ph hf po w).1.PI
  | .leaf .., w, hI => by pit Node.react []
  | .compo _ _ _ _ _ a _ _ _ s, w, hI => by cases a <;> pit Node.react [Subs.reactAt_PI ph hf po s _ _]
  | .ortho _ _ _ _ s, w, hI => by pit Node.react [Subs.reactAll_PI ph hf po s _]
theorem Subs.reactAt_PI (ph : Method) (hf po : Bool) : (s : Subs) → (i : Nat) → (w : World U) → w.PI → (s.reactAt ph hf po i w).1.PI
  | .nil, _, w, hI => by pit Subs.reactAt []
  | .cons _ n _, 0, w, hI => by pit Subs.reactAt [Node.react_PI ph hf po n _]
  | .cons _ _ r, i+1, w, hI => by pit Subs.reactAt [Subs.reactAt_PI ph hf po r _ _]
theorem Subs.reactAll_PI (ph : Method) (hf po : Bool) : (s : Subs) → (w : World U) → w.PI → (s.reactAll ph hf po w).1.PI
  | .nil, w, hI => by pit Subs.reactAll []
  | .cons _ n r, w, hI => by pit Subs.reactAll [Node.react_PI ph hf po n _, Subs.reactAll_PI ph hf po r _]
end

mutual
theorem Node.query_PI (hf : Bool) : (n : Node) → (w : World U) → w.PI → (n.query hf w).PI
  | .leaf .., w, hI => by pit Node.query []
  | .compo _ _ _ _ _ a _ _ _ s, w, hI => by cases a <;> pit Node.query [Subs.queryAt_PI hf s _ _]
  | .ortho _ _ _ _ s, w, hI => by pit Node.query [Subs.queryAll_PI hf s _]
theorem Subs.queryAt_PI (hf : Bool) : (s : Subs) → (i : Nat) → (w : World U) → w.PI → (s.queryAt hf i w).PI
  | .nil, _, w, hI => by pit Subs.queryAt []
  | .cons _ n _, 0, w, hI => by pit Subs.queryAt [Node.query_PI hf n _]
  | .cons _ _ r, i+1, w, hI => by pit Subs.queryAt [Subs.queryAt_PI hf r _ _]
theorem Subs.queryAll_PI (hf : Bool) : (s : Subs) → (w : World U) → w.PI → (s.queryAll hf w).PI
  | .nil, w, hI => by pit Subs.queryAll []
  | .cons _ n r, w, hI => by pit Subs.queryAll [Node.query_PI hf n _, Subs.queryAll_PI hf r _]
end

/-! ### Forward.lean -/

variable [UtilArith U]

mutual
theorem Node.reportChange_PI : (n : Node) → (w : World U) → w.PI → (n.reportChange w).2.1.PI
  | .leaf .., w, hI => by pit Node.reportChange []
  | .compo _ _ _ _ st _ _ _ _ s, w, hI => by
      cases st <;> pit Node.reportChange [Subs.reportChangeAt_PI s _ _, Subs.reportChangeAll_PI s _, Subs.reportRankAll_PI s _,
        Subs.reportChangeTop_PI s _ _ _]
  | .ortho _ _ _ _ s, w, hI => by pit Node.reportChange [Subs.reportChangeAll_PI s _]
theorem Subs.reportChangeAt_PI : (s : Subs) → (i : Nat) → (w : World U) → w.PI → (s.reportChangeAt i w).2.1.PI
  | .nil, _, w, hI => by pit Subs.reportChangeAt []
  | .cons _ n _, 0, w, hI => by pit Subs.reportChangeAt [Node.reportChange_PI n _]
  | .cons _ _ r, i+1, w, hI => by pit Subs.reportChangeAt [Subs.reportChangeAt_PI r _ _]
theorem Subs.reportChangeAll_PI : (s : Subs) → (w : World U) → w.PI → (s.reportChangeAll w).2.1.PI
  | .nil, w, hI => by pit Subs.reportChangeAll []
  | .cons _ n r, w, hI => by pit Subs.reportChangeAll [Node.reportChange_PI n _, Subs.reportChangeAll_PI r _]
theorem Subs.reportChangeTop_PI : (s : Subs) → (rks : List Int) → (top : Int) → (w : World U) →
    w.PI → (s.reportChangeTop rks top w).2.1.PI
  | .nil, _, _, w, hI => by pit Subs.reportChangeTop []
  | .cons _ n r, rks, top, w, hI => by pit Subs.reportChangeTop [Node.reportChange_PI n _, Subs.reportChangeTop_PI r _ _ _]
theorem Subs.reportRankAll_PI : (s : Subs) → (w : World U) → w.PI → (s.reportRankAll w).1.PI
  | .nil, w, hI => by pit Subs.reportRankAll []
  | .cons _ n r, w, hI => by cases n <;> pit Subs.reportRankAll [Subs.reportRankAll_PI r _]
end

mutual
theorem Node.reportUtilize_PI : (n : Node) → (w : World U) → w.PI → (n.reportUtilize w).2.1.PI
  | .leaf .., w, hI => by pit Node.reportUtilize []
  | .compo _ _ _ _ _ _ _ _ _ s, w, hI => by pit Node.reportUtilize [Subs.reportUtilizeAll_PI s _]
  | .ortho _ _ _ _ s, w, hI => by pit Node.reportUtilize [Subs.reportUtilizeAll_PI s _]
theorem Subs.reportUtilizeAll_PI : (s : Subs) → (w : World U) → w.PI → (s.reportUtilizeAll w).2.1.PI
  | .nil, w, hI => by pit Subs.reportUtilizeAll []
  | .cons _ n r, w, hI => by pit Subs.reportUtilizeAll [Node.reportUtilize_PI n _, Subs.reportUtilizeAll_PI r _]
end

mutual
theorem Node.reportRandomize_PI : (n : Node) → (w : World U) → w.PI → (n.reportRandomize w).2.1.PI
  | .leaf .., w, hI => by pit Node.reportRandomize []
  | .compo _ _ _ _ _ _ _ _ _ s, w, hI => by
      pit Node.reportRandomize [Subs.reportRankAll_PI s _, Subs.reportRandomizeTop_PI s _ _ _]
  | .ortho _ _ _ _ s, w, hI => by pit Node.reportRandomize [Subs.reportRandomizeAll_PI s _]
theorem Subs.reportRandomizeAll_PI : (s : Subs) → (w : World U) → w.PI → (s.reportRandomizeAll w).2.1.PI
  | .nil, w, hI => by pit Subs.reportRandomizeAll []
  | .cons _ n r, w, hI => by pit Subs.reportRandomizeAll [Node.reportRandomize_PI n _, Subs.reportRandomizeAll_PI r _]
theorem Subs.reportRandomizeTop_PI : (s : Subs) → (rks : List Int) → (top : Int) → (w : World U) →
    w.PI → (s.reportRandomizeTop rks top w).2.1.PI
  | .nil, _, _, w, hI => by pit Subs.reportRandomizeTop []
  | .cons _ n r, rks, top, w, hI => by pit Subs.reportRandomizeTop [Node.reportRandomize_PI n _, Subs.reportRandomizeTop_PI r _ _ _]
end

mutual
theorem Node.request_PI : (n : Node) → (rq : Req) → (w : World U) → w.PI → (n.request rq w).2.PI
  | .leaf .., rq, w, hI => by pit Node.request []
  | .ortho _ _ _ _ s, rq, w, hI => by pit Node.request [Subs.requestAll_PI s _ _]
  | .compo _ _ _ _ st _ _ _ _ s, rq, w, hI => by
      cases st <;> cases hk : rq.kind <;> simp only [Node.request, effectiveKind, hk] <;>
        pis [Subs.requestAt_PI s _ _ _, Subs.reportChangeAll_PI s _, Subs.reportUtilizeAll_PI s _, Subs.reportRankAll_PI s _,
          Subs.reportChangeTop_PI s _ _ _, Subs.reportRandomizeTop_PI s _ _ _]
theorem Subs.requestAt_PI : (s : Subs) → (i : Nat) → (rq : Req) → (w : World U) → w.PI → (s.requestAt i rq w).2.PI
  | .nil, _, _, w, hI => by pit Subs.requestAt []
  | .cons _ n _, 0, rq, w, hI => by pit Subs.requestAt [Node.request_PI n _ _]
  | .cons _ _ r, i+1, rq, w, hI => by pit Subs.requestAt [Subs.requestAt_PI r _ _ _]
theorem Subs.requestAll_PI : (s : Subs) → (rq : Req) → (w : World U) → w.PI → (s.requestAll rq w).2.PI
  | .nil, _, w, hI => by pit Subs.requestAll []
  | .cons _ n r, rq, w, hI => by pit Subs.requestAll [Node.request_PI n _ _, Subs.requestAll_PI r _ _]
end

mutual
theorem Node.fwdRequest_PI : (n : Node) → (rq : Req) → (w : World U) → w.PI → (n.fwdRequest rq w).2.PI
  | .leaf .., rq, w, hI => by pit Node.fwdRequest []
  | .compo id rid inj h st a r q m s, rq, w, hI => by
      cases q <;> pit Node.fwdRequest [Subs.fwdRequestAt_PI s _ _ _, Node.request_PI (.compo id rid inj h st a r none m s) _ _]
  | .ortho id rid inj h s, rq, w, hI => by
      pit Node.fwdRequest [Subs.fwdRequestAll_PI s _ _, Node.request_PI (.ortho id rid inj h s) _ _]
theorem Subs.fwdRequestAt_PI : (s : Subs) → (i : Nat) → (rq : Req) → (w : World U) → w.PI → (s.fwdRequestAt i rq w).2.PI
  | .nil, _, _, w, hI => by pit Subs.fwdRequestAt []
  | .cons _ n _, 0, rq, w, hI => by pit Subs.fwdRequestAt [Node.fwdRequest_PI n _ _]
  | .cons _ _ r, i+1, rq, w, hI => by pit Subs.fwdRequestAt [Subs.fwdRequestAt_PI r _ _ _]
theorem Subs.fwdRequestAll_PI : (s : Subs) → (rq : Req) → (w : World U) → w.PI → (s.fwdRequestAll rq w).2.PI
  | .nil, _, w, hI => by pit Subs.fwdRequestAll []
  | .cons _ n r, rq, w, hI => by pit Subs.fwdRequestAll [Node.fwdRequest_PI n _ _, Subs.fwdRequestAll_PI r _ _]
end

mutual
theorem Node.fwdActive_PI : (n : Node) → (rq : Req) → (w : World U) → w.PI → (n.fwdActive rq w).2.PI
  | .leaf .., rq, w, hI => by pit Node.fwdActive []
  | .compo _ _ _ _ _ a _ q _ s, rq, w, hI => by
      cases q <;> cases a <;> pit Node.fwdActive [Subs.fwdActiveAt_PI s _ _ _, Subs.fwdRequestAt_PI s _ _ _]
  | .ortho _ _ _ _ s, rq, w, hI => by pit Node.fwdActive [Subs.fwdActiveBits_PI s _ _]
theorem Subs.fwdActiveAt_PI : (s : Subs) → (i : Nat) → (rq : Req) → (w : World U) → w.PI → (s.fwdActiveAt i rq w).2.PI
  | .nil, _, _, w, hI => by pit Subs.fwdActiveAt []
  | .cons _ n _, 0, rq, w, hI => by pit Subs.fwdActiveAt [Node.fwdActive_PI n _ _]
  | .cons _ _ r, i+1, rq, w, hI => by pit Subs.fwdActiveAt [Subs.fwdActiveAt_PI r _ _ _]
theorem Subs.fwdActiveBits_PI : (s : Subs) → (rq : Req) → (w : World U) → w.PI → (s.fwdActiveBits rq w).2.PI
  | .nil, _, w, hI => by pit Subs.fwdActiveBits []
  | .cons b n r, rq, w, hI => by cases b <;> pit Subs.fwdActiveBits [Node.fwdActive_PI n _ _, Subs.fwdActiveBits_PI r _ _]
end


/-- `deepUpdatePlans` with no plan: nothing the invariant looks at changes (Proofs/PlansUnused.lean). -/
theorem Node.updatePlans_PI (n : Node) (w : World U) (h : w.PI) : (n.updatePlans w).1.PI := by
  obtain ⟨_, _, _, h4, h5, h6, _, _, _, _, _, _, _, _, _, _, _, h18, _, _⟩ := Node.updatePlans_noPlans n w h.pe
  exact h.of_eq h4 h5 h6 h18

end trav

/-! ### the invariant through every operation of the instance -/

namespace Mach
variable [UtilArith U]

theorem applyRequest_PI (m : Mach U) (t : Transition) (i : Nat) (h : m.w.PI) : (m.applyRequest t i).w.PI := by
  simp only [Mach.applyRequest]
  pis [Node.request_PI _ _ _, Node.fwdActive_PI _ _ _]

theorem applyRequestNoPin_PI (m : Mach U) (t : Transition) (h : m.w.PI) : (m.applyRequestNoPin t).w.PI := by
  simp only [Mach.applyRequestNoPin]
  pis [Node.request_PI _ _ _, Node.fwdActive_PI _ _ _]

theorem applyAll_PI : (ts : List Transition) → (m : Mach U) → (i : Nat) → m.w.PI → (m.applyAll ts i).w.PI
  | [], m, i, h => by simp only [Mach.applyAll]; exact h
  | t :: rest, m, i, h => by
      simp only [Mach.applyAll]
      refine applyAll_PI rest _ _ ?_
      split
      · exact applyRequest_PI m t i h
      · exact h

theorem approvedByGuards_PI (m : Mach U) (cur pend : List Transition) (h : m.w.PI) :
    (m.approvedByGuards cur pend).1.w.PI := by
  simp only [Mach.approvedByGuards]
  pis [Node.fwdEntryGuard_PI _ _, Node.fwdExitGuard_PI _ _]

theorem approvedByEntryGuards_PI (m : Mach U) (cur pend : List Transition) (h : m.w.PI) :
    (m.approvedByEntryGuards cur pend).1.w.PI := by
  simp only [Mach.approvedByEntryGuards]
  pis [Node.entryGuard_PI _ _]

theorem rounds_PI (initial : Bool) : (fuel : Nat) → (m : Mach U) → (backup : Node) → (cur : List Transition) →
    m.w.PI → (Mach.rounds initial fuel m backup cur).1.w.PI
  | 0, m, _, cur, h => by simp only [Mach.rounds]; exact h
  | fuel+1, m, backup, cur, h => by
      simp only [Mach.rounds]
      pis [rounds_PI initial fuel _ _ _, approvedByGuards_PI _ _ _, approvedByEntryGuards_PI _ _ _, applyAll_PI _ _ _]

theorem processRequest_PI (m : Mach U) (h : m.w.PI) : m.processRequest.w.PI := by
  simp only [Mach.processRequest, Mach.updateActivity]
  pis [rounds_PI _ _ _ _ _, Node.commit_PI _ _]

theorem initialEnter_PI (m : Mach U) (h : m.w.PI) : m.initialEnter.w.PI := by
  simp only [Mach.initialEnter, Mach.updateActivity]
  pis [rounds_PI _ _ _ _ _, Node.enter_PI _ _, approvedByEntryGuards_PI _ _ _, Node.request_PI _ _ _]

theorem finalExit_PI (m : Mach U) (h : m.w.PI) : m.finalExit.w.PI := by
  simp only [Mach.finalExit, Mach.updateActivity]
  pis [Node.exit_PI _ _]

theorem update_PI (m : Mach U) (h : m.w.PI) : m.update.w.PI := by
  simp only [Mach.update]
  pis [processRequest_PI _, Node.tick_PI _ _ _, Node.updatePlans_PI _ _]

theorem react_PI (m : Mach U) (h : m.w.PI) : m.react.w.PI := by
  simp only [Mach.react]
  pis [processRequest_PI _, Node.react_PI _ _ _ _ _, Node.updatePlans_PI _ _]

theorem query_PI (m : Mach U) (h : m.w.PI) : m.query.w.PI := by
  simp only [Mach.query]
  pis [Node.query_PI _ _ _]

theorem request_PI (m : Mach U) (k : Kind) (d : Nat) (p : Option Nat) (h : m.w.PI) : (m.request k d p).w.PI := by
  simp only [Mach.request]
  pis []

theorem immediate_PI (m : Mach U) (k : Kind) (d : Nat) (p : Option Nat) (h : m.w.PI) : (m.immediate k d p).w.PI :=
  processRequest_PI _ (request_PI m k d p h)

theorem reset_PI (m : Mach U) (h : m.w.PI) : m.reset.w.PI := by
  simp only [Mach.reset, Mach.updateActivity]
  pis [Node.exit_PI _ _, Node.enter_PI _ _, Node.request_PI _ _ _]

theorem loadActive_PI (m : Mach U) (st : List Bool) (h : m.w.PI) : (m.loadActive st).w.PI := by
  simp only [Mach.loadActive, Mach.updateActivity]
  pis [Node.commit_PI _ _]

theorem loadEnter_PI (m : Mach U) (st : List Bool) (h : m.w.PI) : (m.loadEnter st).w.PI := by
  simp only [Mach.loadEnter, Mach.updateActivity]
  pis [Node.enter_PI _ _]

theorem load_PI (m : Mach U) (st : List Bool) (h : m.w.PI) : (m.load st).w.PI := by
  simp only [Mach.load]
  pis [loadActive_PI _ _, loadEnter_PI _ _, finalExit_PI _]

theorem foldl_PI {α : Type} (f : Mach U → α → Mach U) (hf : ∀ m x, m.w.PI → (f m x).w.PI) :
    (l : List α) → (m : Mach U) → m.w.PI → (l.foldl f m).w.PI
  | [], _, h => h
  | x :: rest, m', h => foldl_PI f hf rest _ (hf m' x h)

theorem applyRequests_PI (m : Mach U) (ts : List Transition) (h : m.w.PI) : (m.applyRequests ts).1.w.PI := by
  exact applyRequests_inv (P := fun m' => m'.w.PI) (fun m' t i hm => applyRequest_PI m' t i hm)
    (fun m' t hm => applyRequestNoPin_PI m' t hm) m ts h.freshControl

theorem replayTransitions_PI (m : Mach U) (ts : List Transition) (h : m.w.PI) : (m.replayTransitions ts).1.w.PI := by
  simp only [Mach.replayTransitions, Mach.updateActivity]
  pis [applyRequests_PI _ _, Node.commit_PI _ _]

theorem replayEnter_PI (m : Mach U) (ts : List Transition) (h : m.w.PI) : (m.replayEnter ts).1.w.PI := by
  simp only [Mach.replayEnter, Mach.updateActivity]
  pis [applyRequests_PI _ _, Node.enter_PI _ _, Node.request_PI _ _ _]

theorem create_PI (shape : Shape) (cfg : Config) : (Mach.create shape cfg : Mach U).w.PI := by
  simp only [Mach.create]
  refine World.PI.freshControl (World.PI.clearTargets (World.PI.clearPlanData ?_))
  exact ⟨rfl, rfl, rfl, fun d hd => nomatch hd⟩

end Mach

namespace Api
variable [UtilArith U]

theorem step_PI (m : Mach U) (o : Op) (ho : o.plansFree = true) (h : m.w.PI) : (step m o).w.PI := by
  cases o <;> simp only [Op.plansFree, Bool.false_eq_true] at ho <;> simp only [step]
  · exact Mach.initialEnter_PI m h
  · exact Mach.finalExit_PI m h
  · exact Mach.update_PI m h
  · exact Mach.react_PI m h
  · exact Mach.query_PI m h
  · exact Mach.reset_PI m h
  · exact Mach.request_PI m _ _ _ h
  · exact Mach.immediate_PI m _ _ _ h
  · exact Mach.load_PI m _ h
  · exact Mach.replayTransitions_PI m _ h
  · exact Mach.replayEnter_PI m _ h

theorem run_PI : (ops : List Op) → (m : Mach U) → (∀ o ∈ ops, o.plansFree = true) → m.w.PI → (run m ops).w.PI
  | [], m, _, h => h
  | o :: os, m, ho, h =>
      run_PI os _ (fun o' ho' => ho o' (List.mem_cons_of_mem _ ho')) (step_PI m o (ho o List.mem_cons_self) h)

theorem boot_PI (shape : Shape) (cfg : Config) (ds : List (Decision U)) (rng : List U)
    (hds : ∀ d ∈ ds, Decision.plansFree d = true) : (boot shape cfg ds rng).w.PI := by
  have h0 : ({ (Mach.create shape cfg : Mach U) with
      w := { (Mach.create shape cfg : Mach U).w with ds := ds, rng := rng } } : Mach U).w.PI :=
    ⟨(Mach.create_PI shape cfg).pe, (Mach.create_PI shape cfg).su, (Mach.create_PI shape cfg).fa, hds⟩
  unfold boot
  dsimp only
  split
  · exact h0
  · exact Mach.initialEnter_PI _ h0

end Api

end Hfsm
