/-
`WRel` lifted to the instance level: every operation of Model/Machine.lean relates the world before
to the world after.
-/
import Hfsm.Proofs.WorldRelTrav
import Hfsm.Proofs.ApplyStep

namespace Hfsm
variable {U : Type} [UtilArith U]

namespace WRel
variable {R : World U → World U → Prop} (hR : WRel R)
include hR

local macro "trav " f:ident " [" ts:term,* "]" : tactic => `(tactic| (simp only [$f:ident]; wr hR [$ts,*]))

theorem updateActivity (m : Mach U) : R m.w m.updateActivity.w := hR.refl _

theorem applyRequest (m : Mach U) (t : Transition) (i : Nat) : R m.w (m.applyRequest t i).w := by
  trav Mach.applyRequest [hR.request _ _ _, hR.fwdActive _ _ _]

theorem applyRequestNoPin (m : Mach U) (t : Transition) : R m.w (m.applyRequestNoPin t).w := by
  trav Mach.applyRequestNoPin [hR.request _ _ _, hR.fwdActive _ _ _]

theorem applyStep (m : Mach U) (x : Transition × Nat) : R m.w (Mach.applyStep m x).w := by
  unfold Mach.applyStep; split
  · exact hR.applyRequest m x.1 x.2
  · exact hR.applyRequestNoPin m x.1

theorem applyAll : (ts : List Transition) → (m : Mach U) → (i : Nat) → R m.w (m.applyAll ts i).w
  | [], m, i => by simp only [Mach.applyAll]; exact hR.refl _
  | t :: rest, m, i => by
      simp only [Mach.applyAll]
      refine hR.trans ?_ (applyAll rest _ _)
      split
      · exact hR.applyRequest ..
      · exact hR.refl _

theorem approvedByGuards (m : Mach U) (cur pend : List Transition) :
    R m.w (m.approvedByGuards cur pend).1.w := by
  simp only [Mach.approvedByGuards]
  wr hR [hR.fwdEntryGuard _ _, hR.fwdExitGuard _ _]

theorem approvedByEntryGuards (m : Mach U) (cur pend : List Transition) :
    R m.w (m.approvedByEntryGuards cur pend).1.w := by
  simp only [Mach.approvedByEntryGuards]
  wr hR [hR.entryGuard _ _]

theorem rounds (initial : Bool) : (fuel : Nat) → (m : Mach U) → (backup : Node) → (cur : List Transition) →
    R m.w (Mach.rounds initial fuel m backup cur).1.w
  | 0, m, _, cur => by simp only [Mach.rounds]; exact hR.refl _
  | fuel+1, m, backup, cur => by
      simp only [Mach.rounds]
      wr hR [rounds initial fuel _ _ _, hR.approvedByGuards _ _ _, hR.approvedByEntryGuards _ _ _, hR.applyAll _ _ _]

theorem mach_processRequest (m : Mach U) : R m.w m.processRequest.w := by
  simp only [Mach.processRequest, Mach.updateActivity]
  wr hR [hR.rounds _ _ _ _ _, hR.commit _ _]

theorem mach_initialEnter (m : Mach U) : R m.w m.initialEnter.w := by
  simp only [Mach.initialEnter, Mach.updateActivity]
  wr hR [hR.rounds _ _ _ _ _, hR.enter _ _, hR.approvedByEntryGuards _ _ _, hR.request _ _ _]

theorem mach_finalExit (m : Mach U) : R m.w m.finalExit.w := by
  simp only [Mach.finalExit, Mach.updateActivity]
  wr hR [hR.exit _ _]

theorem mach_update (m : Mach U) : R m.w m.update.w := by
  simp only [Mach.update]
  wr hR [hR.mach_processRequest _, hR.tick _ _ _, hR.updatePlans _ _]

theorem mach_react (m : Mach U) : R m.w m.react.w := by
  simp only [Mach.react]
  wr hR [hR.mach_processRequest _, hR.react _ _ _ _ _, hR.updatePlans _ _]

theorem mach_query (m : Mach U) : R m.w m.query.w := by
  simp only [Mach.query]
  wr hR [hR.query _ _ _]

theorem mach_request (m : Mach U) (k : Kind) (d : Nat) (p : Option Nat) : R m.w (m.request k d p).w := by
  simp only [Mach.request]
  exact hR.apiRequest m.w { origin := none, dest := d, kind := k, payload := p }

theorem mach_immediate (m : Mach U) (k : Kind) (d : Nat) (p : Option Nat) : R m.w (m.immediate k d p).w :=
  hR.trans (hR.mach_request m k d p) (hR.mach_processRequest _)

theorem mach_setTask (m : Mach U) (sid : Nat) (ok : Bool) : R m.w (m.setTask sid ok).w := by
  simp only [Mach.setTask]
  wr hR []

theorem mach_reset (m : Mach U) : R m.w m.reset.w := by
  simp only [Mach.reset, Mach.updateActivity]
  wr hR [hR.exit _ _, hR.enter _ _, hR.request _ _ _]

theorem mach_loadActive (m : Mach U) (st : List Bool) : R m.w (m.loadActive st).w := by
  simp only [Mach.loadActive, Mach.updateActivity]
  wr hR [hR.commit _ _]

theorem mach_loadEnter (m : Mach U) (st : List Bool) : R m.w (m.loadEnter st).w := by
  simp only [Mach.loadEnter, Mach.updateActivity]
  wr hR [hR.enter _ _]

theorem mach_load (m : Mach U) (st : List Bool) : R m.w (m.load st).w := by
  simp only [Mach.load]
  wr hR [hR.mach_loadActive _ _, hR.mach_loadEnter _ _, hR.mach_finalExit _]

omit hR in
theorem foldl_rel {α : Type} (hR : WRel R) (f : Mach U → α → Mach U) (hf : ∀ m x, R m.w (f m x).w) :
    (l : List α) → (m : Mach U) → R m.w (l.foldl f m).w
  | [], _ => hR.refl _
  | x :: rest, m' => hR.trans (hf m' x) (foldl_rel hR f hf rest _)

theorem applyRequests (m : Mach U) (ts : List Transition) : R m.w (m.applyRequests ts).1.w := by
  rw [Mach.applyRequests_fst]
  refine hR.trans (hR.freshControl m.w) ?_
  exact foldl_rel hR Mach.applyStep (fun m x => hR.applyStep m x) _
    { root := m.root, w := m.w.freshControl, structActive := m.structActive, activity := m.activity }

theorem mach_replayTransitions (m : Mach U) (ts : List Transition) : R m.w (m.replayTransitions ts).1.w := by
  simp only [Mach.replayTransitions, Mach.updateActivity]
  wr hR [hR.applyRequests _ _, hR.commit _ _]

theorem mach_replayEnter (m : Mach U) (ts : List Transition) : R m.w (m.replayEnter ts).1.w := by
  simp only [Mach.replayEnter, Mach.updateActivity]
  wr hR [hR.applyRequests _ _, hR.enter _ _, hR.request _ _ _]

theorem mach_planAppend (m : Mach U) (rid : Nat) (t : Task) : R m.w (m.planAppend rid t).w := hR.planAppend ..

theorem mach_planClear (m : Mach U) (rid : Nat) : R m.w (m.planClear rid).w := by
  simp only [Mach.planClear]
  wr hR []

end WRel
end Hfsm
