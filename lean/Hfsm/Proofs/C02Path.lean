/-
C02 — along the path: what `mark` followed by the forward pass and the commit pass do to a tree
without marks, for a destination at path `p`.
-/
import Hfsm.Proofs.C02Pure

namespace Hfsm

section
variable (ans : Nat → Nat) (k : Kind)

/-! ### an inactive sub-tree on the path: marked, resolved, entered = `enterPath` -/

mutual
theorem C02.Node.enter_mark : (n : Node) → (p : List Nat) → n.Clean → n.NoMarks → n.ValidPath p →
    (n.mark p).2 ≠ .p3 ∧
    (((n.mark p).1.fwdRequestR ans k).enterR).clearMarks = n.enterPath ans k p
  | .leaf id inj, [], _, hn, _ => by
    simp only [Node.mark, Node.enterPath, ne_eq, reduceCtorEq, not_false_eq_true, true_and]
    rw [C02.Node.fwdRequestR_noMarks ans k _ hn, C02.Node.enter_request ans k _ hn]
  | .compo id rid inj h st a r q m s, [], _, hn, _ => by
    simp only [Node.mark, Node.enterPath, ne_eq, reduceCtorEq, not_false_eq_true, true_and]
    rw [C02.Node.fwdRequestR_noMarks ans k _ hn, C02.Node.enter_request ans k _ hn]
  | .ortho id rid inj h s, [], _, hn, _ => by
    simp only [Node.mark, Node.enterPath, ne_eq, reduceCtorEq, not_false_eq_true, true_and]
    rw [C02.Node.fwdRequestR_noMarks ans k _ hn, C02.Node.enter_request ans k _ hn]
  | .leaf id inj, _ :: _, _, _, hv => by simp only [Node.ValidPath] at hv
  | .compo id rid inj h st a r q m s, i :: rest, hc, hn, hv => by
    simp only [Node.Clean] at hc
    obtain ⟨ha, hcs⟩ := hc
    subst ha
    simp only [Node.NoMarks] at hn
    obtain ⟨hq, hm, hs⟩ := hn
    subst hq; subst hm
    simp only [Node.ValidPath] at hv
    have ih := C02.Subs.enter_markAt s i rest hcs hs hv
    simp only [Node.mark]
    generalize s.markAt i rest = res at ih
    obtain ⟨s', ph⟩ := res
    obtain ⟨hph, heq⟩ := ih
    simp only at hph heq
    cases ph with
    | p3 => exact absurd rfl hph
    | p1 =>
      simp only [ne_eq, reduceCtorEq, not_false_eq_true, true_and, Node.fwdRequestR, Node.enterR,
        Node.clearMarks, Node.enterPath, heq]
    | p2 =>
      simp only [ne_eq, reduceCtorEq, not_false_eq_true, not_true_eq_false, and_false, or_true,
        ↓reduceIte, true_and, Node.fwdRequestR, Node.enterR, Node.clearMarks, Node.enterPath, heq]
  | .ortho id rid inj h s, i :: rest, hc, hn, hv => by
    simp only [Node.Clean] at hc
    simp only [Node.NoMarks] at hn
    simp only [Node.ValidPath] at hv
    have ih := C02.Subs.enter_markAll s i rest hc hn hv
    have hb := C02.Subs.anyBit_setBit s i rest hv
    simp only [Node.mark]
    generalize s.markAt i rest = res at ih hb
    obtain ⟨s', ph⟩ := res
    obtain ⟨hph, heq⟩ := ih
    simp only at hph heq hb
    refine ⟨hph, ?_⟩
    simp only [Node.fwdRequestR, hb, ↓reduceIte, Node.enterR, Node.clearMarks, Node.enterPath, heq]
theorem C02.Subs.enter_markAt : (s : Subs) → (i : Nat) → (p : List Nat) → s.CleanAll → s.NoMarksAll →
    s.ValidAt i p →
    (s.markAt i p).2 ≠ .p3 ∧
    (((s.markAt i p).1.fwdRequestAtR ans k i).enterAtR i).clearMarks = s.enterPathAt ans k i p
  | .nil, _, _, _, _, hv => by simp only [Subs.ValidAt] at hv
  | .cons b n r, 0, p, hc, hs, hv => by
    simp only [Subs.CleanAll] at hc
    simp only [Subs.NoMarksAll] at hs
    obtain ⟨hb, hn, hr⟩ := hs
    subst hb
    simp only [Subs.ValidAt] at hv
    have ih := C02.Node.enter_mark n p hc.1 hn hv
    simp only [Subs.markAt]
    generalize n.mark p = res at ih
    obtain ⟨n', ph⟩ := res
    obtain ⟨hph, heq⟩ := ih
    simp only at hph heq
    refine ⟨hph, ?_⟩
    simp only [Subs.fwdRequestAtR, Subs.enterAtR, Subs.clearMarks, Subs.enterPathAt, heq,
      C02.Subs.clearMarks_of_noMarks r hr]
  | .cons b n r, i+1, p, hc, hs, hv => by
    simp only [Subs.CleanAll] at hc
    simp only [Subs.NoMarksAll] at hs
    obtain ⟨hb, hn, hr⟩ := hs
    subst hb
    simp only [Subs.ValidAt] at hv
    have ih := C02.Subs.enter_markAt r i p hc.2 hr hv
    simp only [Subs.markAt]
    generalize r.markAt i p = res at ih
    obtain ⟨r', ph⟩ := res
    obtain ⟨hph, heq⟩ := ih
    simp only at hph heq
    refine ⟨hph, ?_⟩
    simp only [Subs.fwdRequestAtR, Subs.enterAtR, Subs.clearMarks, Subs.enterPathAt, heq,
      C02.Node.clearMarks_of_noMarks n hn]
theorem C02.Subs.enter_markAll : (s : Subs) → (i : Nat) → (p : List Nat) → s.CleanAll → s.NoMarksAll →
    s.ValidAt i p →
    (s.markAt i p).2 ≠ .p3 ∧
    ((((s.markAt i p).1.setBit i).fwdRequestAllR ans k).enterAllR).clearMarks
      = s.enterPathAll ans k i p
  | .nil, _, _, _, _, hv => by simp only [Subs.ValidAt] at hv
  | .cons b n r, 0, p, hc, hs, hv => by
    simp only [Subs.CleanAll] at hc
    simp only [Subs.NoMarksAll] at hs
    obtain ⟨hb, hn, hr⟩ := hs
    subst hb
    simp only [Subs.ValidAt] at hv
    have ih := C02.Node.enter_mark n p hc.1 hn hv
    simp only [Subs.markAt]
    generalize n.mark p = res at ih
    obtain ⟨n', ph⟩ := res
    obtain ⟨hph, heq⟩ := ih
    simp only at hph heq
    refine ⟨hph, ?_⟩
    simp only [Subs.setBit, Subs.fwdRequestAllR, Subs.enterAllR, Subs.clearMarks, Subs.enterPathAll,
      heq, C02.Subs.fwdRequestAllR_noMarks ans k r hr, C02.Subs.enterAll_requestAll ans k r hr]
  | .cons b n r, i+1, p, hc, hs, hv => by
    simp only [Subs.CleanAll] at hc
    simp only [Subs.NoMarksAll] at hs
    obtain ⟨hb, hn, hr⟩ := hs
    subst hb
    simp only [Subs.ValidAt] at hv
    have ih := C02.Subs.enter_markAll r i p hc.2 hr hv
    simp only [Subs.markAt]
    generalize r.markAt i p = res at ih
    obtain ⟨r', ph⟩ := res
    obtain ⟨hph, heq⟩ := ih
    simp only at hph heq
    refine ⟨hph, ?_⟩
    simp only [Subs.setBit, Subs.fwdRequestAllR, Subs.enterAllR, Subs.clearMarks, Subs.enterPathAll,
      heq, C02.Node.fwdRequestR_noMarks ans k n hn, C02.Node.enter_request ans k n hn]
end


/-! ### a composite region on the path whose active prong differs: switch -/

theorem C02.Subs.switch_markAt : (s : Subs) → (i ai : Nat) → (p : List Nat) → ai ≠ i → s.ActAt ai →
    s.NoMarksAll → s.ValidAt i p →
    (s.markAt i p).2 ≠ .p3 ∧
    ((((s.markAt i p).1.fwdRequestAtR ans k i).exitedAt ai).enterAtR i).clearMarks
      = (s.exitedAt ai).enterPathAt ans k i p
  | .nil, _, _, _, _, _, _, hv => by simp only [Subs.ValidAt] at hv
  | .cons b n r, 0, 0, _, h, _, _, _ => absurd rfl h
  | .cons b n r, 0, ai+1, p, _, ha, hs, hv => by
    simp only [Subs.ActAt] at ha
    simp only [Subs.NoMarksAll] at hs
    obtain ⟨hb, hn, hr⟩ := hs
    subst hb
    simp only [Subs.ValidAt] at hv
    have ih := C02.Node.enter_mark ans k n p ha.1 hn hv
    simp only [Subs.markAt]
    generalize n.mark p = res at ih
    obtain ⟨n', ph⟩ := res
    obtain ⟨hph, heq⟩ := ih
    simp only at hph heq
    refine ⟨hph, ?_⟩
    simp only [Subs.fwdRequestAtR, Subs.exitedAt, Subs.enterAtR, Subs.clearMarks, Subs.enterPathAt,
      heq, C02.Subs.clearMarks_of_noMarks _ (C02.Subs.exitedAt_noMarks r ai hr)]
  | .cons b n r, i+1, 0, p, _, ha, hs, hv => by
    simp only [Subs.ActAt] at ha
    simp only [Subs.NoMarksAll] at hs
    obtain ⟨hb, hn, hr⟩ := hs
    subst hb
    simp only [Subs.ValidAt] at hv
    have ih := C02.Subs.enter_markAt ans k r i p ha.2 hr hv
    simp only [Subs.markAt]
    generalize r.markAt i p = res at ih
    obtain ⟨r', ph⟩ := res
    obtain ⟨hph, heq⟩ := ih
    simp only at hph heq
    refine ⟨hph, ?_⟩
    simp only [Subs.fwdRequestAtR, Subs.exitedAt, Subs.enterAtR, Subs.clearMarks, Subs.enterPathAt,
      heq, C02.Node.clearMarks_of_noMarks _ (C02.Node.exited_noMarks n hn)]
  | .cons b n r, i+1, ai+1, p, h, ha, hs, hv => by
    simp only [Subs.ActAt] at ha
    simp only [Subs.NoMarksAll] at hs
    obtain ⟨hb, hn, hr⟩ := hs
    subst hb
    simp only [Subs.ValidAt] at hv
    have ih := C02.Subs.switch_markAt r i ai p (by omega) ha.2 hr hv
    simp only [Subs.markAt]
    generalize r.markAt i p = res at ih
    obtain ⟨r', ph⟩ := res
    obtain ⟨hph, heq⟩ := ih
    simp only at hph heq
    refine ⟨hph, ?_⟩
    simp only [Subs.fwdRequestAtR, Subs.exitedAt, Subs.enterAtR, Subs.clearMarks, Subs.enterPathAt,
      heq, C02.Node.clearMarks_of_noMarks n hn]

/-! ### the active prong of the lowest composite ancestor: re-targeted as a whole -/

mutual
theorem C02.Node.reenter_mark : (n : Node) → (p : List Nat) → n.Act → n.NoMarks → n.ValidPath p →
    n.hasCompo p = false →
    (((n.mark p).1.fwdRequestR ans k).reenterR).clearMarks = n.retarget ans k
  | .leaf id inj, [], ha, hn, _, _ => by
    simp only [Node.mark]
    rw [C02.Node.fwdRequestR_noMarks ans k _ hn, C02.Node.reenter_request ans k _ ha hn]
  | .compo id rid inj h st a r q m s, [], ha, hn, _, _ => by
    simp only [Node.mark]
    rw [C02.Node.fwdRequestR_noMarks ans k _ hn, C02.Node.reenter_request ans k _ ha hn]
  | .ortho id rid inj h s, [], ha, hn, _, _ => by
    simp only [Node.mark]
    rw [C02.Node.fwdRequestR_noMarks ans k _ hn, C02.Node.reenter_request ans k _ ha hn]
  | .leaf id inj, _ :: _, _, _, hv, _ => by simp only [Node.ValidPath] at hv
  | .compo id rid inj h st a r q m s, i :: rest, _, _, _, hc => by
    simp only [Node.hasCompo, Bool.true_eq_false] at hc
  | .ortho id rid inj h s, i :: rest, ha, hn, hv, hc => by
    simp only [Node.Act] at ha
    simp only [Node.NoMarks] at hn
    simp only [Node.ValidPath] at hv
    simp only [Node.hasCompo] at hc
    have ih := C02.Subs.reenter_markAll s i rest ha hn hv hc
    have hb := C02.Subs.anyBit_setBit s i rest hv
    simp only [Node.mark]
    generalize s.markAt i rest = res at ih hb
    obtain ⟨s', ph⟩ := res
    simp only at ih hb
    simp only [Node.fwdRequestR, hb, ↓reduceIte, Node.reenterR, Node.clearMarks, Node.retarget, ih]
theorem C02.Subs.reenter_markAll : (s : Subs) → (i : Nat) → (p : List Nat) → s.ActAll → s.NoMarksAll →
    s.ValidAt i p → s.hasCompoAt i p = false →
    ((((s.markAt i p).1.setBit i).fwdRequestAllR ans k).reenterAllR).clearMarks = s.retargetAll ans k
  | .nil, _, _, _, _, hv, _ => by simp only [Subs.ValidAt] at hv
  | .cons b n r, 0, p, ha, hs, hv, hc => by
    simp only [Subs.ActAll] at ha
    simp only [Subs.NoMarksAll] at hs
    obtain ⟨hb, hn, hr⟩ := hs
    subst hb
    simp only [Subs.ValidAt] at hv
    simp only [Subs.hasCompoAt] at hc
    have ih := C02.Node.reenter_mark n p ha.1 hn hv hc
    simp only [Subs.markAt]
    generalize n.mark p = res at ih
    obtain ⟨n', ph⟩ := res
    simp only at ih
    simp only [Subs.setBit, Subs.fwdRequestAllR, Subs.reenterAllR, Subs.clearMarks, Subs.retargetAll,
      ih, C02.Subs.fwdRequestAllR_noMarks ans k r hr, C02.Subs.reenterAll_requestAll ans k r ha.2 hr]
  | .cons b n r, i+1, p, ha, hs, hv, hc => by
    simp only [Subs.ActAll] at ha
    simp only [Subs.NoMarksAll] at hs
    obtain ⟨hb, hn, hr⟩ := hs
    subst hb
    simp only [Subs.ValidAt] at hv
    simp only [Subs.hasCompoAt] at hc
    have ih := C02.Subs.reenter_markAll r i p ha.2 hr hv hc
    simp only [Subs.markAt]
    generalize r.markAt i p = res at ih
    obtain ⟨r', ph⟩ := res
    simp only at ih
    simp only [Subs.setBit, Subs.fwdRequestAllR, Subs.reenterAllR, Subs.clearMarks, Subs.retargetAll,
      ih, C02.Node.fwdRequestR_noMarks ans k n hn, C02.Node.reenter_request ans k n ha.1 hn]
end

theorem C02.Subs.reenter_markAt : (s : Subs) → (i : Nat) → (p : List Nat) → s.ActAt i → s.NoMarksAll →
    s.ValidAt i p → s.hasCompoAt i p = false →
    (((s.markAt i p).1.fwdRequestAtR ans k i).reenterAtR i).clearMarks = s.specAt ans k i p
  | .nil, _, _, _, _, hv, _ => by simp only [Subs.ValidAt] at hv
  | .cons b n r, 0, p, ha, hs, hv, hc => by
    simp only [Subs.ActAt] at ha
    simp only [Subs.NoMarksAll] at hs
    obtain ⟨hb, hn, hr⟩ := hs
    subst hb
    simp only [Subs.ValidAt] at hv
    simp only [Subs.hasCompoAt] at hc
    have ih := C02.Node.reenter_mark ans k n p ha.1 hn hv hc
    simp only [Subs.markAt]
    generalize n.mark p = res at ih
    obtain ⟨n', ph⟩ := res
    simp only at ih
    simp only [Subs.fwdRequestAtR, Subs.reenterAtR, Subs.clearMarks, Subs.specAt, ih, hc,
      Bool.false_eq_true, ↓reduceIte, C02.Subs.clearMarks_of_noMarks r hr]
  | .cons b n r, i+1, p, ha, hs, hv, hc => by
    simp only [Subs.ActAt] at ha
    simp only [Subs.NoMarksAll] at hs
    obtain ⟨hb, hn, hr⟩ := hs
    subst hb
    simp only [Subs.ValidAt] at hv
    simp only [Subs.hasCompoAt] at hc
    have ih := C02.Subs.reenter_markAt r i p ha.2 hr hv hc
    simp only [Subs.markAt]
    generalize r.markAt i p = res at ih
    obtain ⟨r', ph⟩ := res
    simp only at ih
    simp only [Subs.fwdRequestAtR, Subs.reenterAtR, Subs.clearMarks, Subs.specAt, ih,
      C02.Node.clearMarks_of_noMarks n hn]


/-! ### the active tree: `mark`, forward pass, commit pass = `spec` -/

mutual
theorem C02.Node.commit_mark : (n : Node) → (p : List Nat) → n.Act → n.NoMarks → n.ValidPath p →
    n.hasCompo p = true →
    (((n.mark p).1.fwdActiveR ans k).commitR).clearMarks = n.spec ans k p
  | .leaf .., [], _, _, _, hc => by simp only [Node.hasCompo, Bool.false_eq_true] at hc
  | .compo .., [], _, _, _, hc => by simp only [Node.hasCompo, Bool.false_eq_true] at hc
  | .ortho .., [], _, _, _, hc => by simp only [Node.hasCompo, Bool.false_eq_true] at hc
  | .leaf id inj, _ :: _, _, _, hv, _ => by simp only [Node.ValidPath] at hv
  | .compo id rid inj h st a r q m s, i :: rest, ha, hn, hv, _ => by
    simp only [Node.NoMarks] at hn
    obtain ⟨hq, hm, hs⟩ := hn
    subst hq; subst hm
    simp only [Node.ValidPath] at hv
    cases a with
    | none => simp only [Node.Act] at ha
    | some ai =>
      simp only [Node.Act] at ha
      by_cases hai : ai = i
      · subst hai
        cases hc : s.hasCompoAt ai rest with
        | true =>
          have ih := C02.Subs.commit_markAt s ai rest ha hs hv hc
          have hph : (s.markAt ai rest).2 ≠ .p1 := by
            intro e
            have := (C02.Subs.markAt_phase s ai rest).1 e
            rw [hc] at this
            exact absurd this (by decide)
          simp only [Node.mark]
          generalize s.markAt ai rest = res at ih hph
          obtain ⟨s', ph⟩ := res
          simp only at ih hph
          cases ph with
          | p1 => exact absurd rfl hph
          | p2 =>
            simp only [ne_eq, reduceCtorEq, not_false_eq_true, not_true_eq_false, and_false, or_self,
              ↓reduceIte, Node.fwdActiveR, Node.commitR, Node.clearMarks, Node.spec, ih]
          | p3 =>
            simp only [Node.fwdActiveR, Node.commitR, Node.clearMarks, Node.spec, ↓reduceIte, ih]
        | false =>
          have ih := C02.Subs.reenter_markAt ans k s ai rest ha hs hv hc
          have hph : (s.markAt ai rest).2 = .p1 := (C02.Subs.markAt_phase s ai rest).2 hc
          simp only [Node.mark]
          generalize s.markAt ai rest = res at ih hph
          obtain ⟨s', ph⟩ := res
          simp only at ih hph
          subst hph
          simp only [Node.fwdActiveR, Node.commitR, ne_eq, not_true_eq_false, ↓reduceIte,
            Bool.false_eq_true, Node.clearMarks, Node.spec, ih]
      · have ih := C02.Subs.switch_markAt ans k s i ai rest hai ha hs hv
        have hia : ¬ i = ai := fun e => hai e.symm
        simp only [Node.mark]
        generalize s.markAt i rest = res at ih
        obtain ⟨s', ph⟩ := res
        obtain ⟨hph, heq⟩ := ih
        simp only at hph heq
        cases ph with
        | p3 => exact absurd rfl hph
        | p1 =>
          simp only [Node.fwdActiveR, Node.commitR, ne_eq, hia, hai, not_false_eq_true, ↓reduceIte,
            Node.clearMarks, Node.spec, heq]
        | p2 =>
          have hne : ¬ (some ai : Option Nat) = some i := fun e => hai (Option.some.inj e)
          simp only [ne_eq, reduceCtorEq, not_false_eq_true, not_true_eq_false, and_false, hne,
            or_true, ↓reduceIte, Node.fwdActiveR, Node.commitR, hia, hai, Node.clearMarks,
            Node.spec, heq]
  | .ortho id rid inj h s, i :: rest, ha, hn, hv, hc => by
    simp only [Node.Act] at ha
    simp only [Node.NoMarks] at hn
    simp only [Node.ValidPath] at hv
    simp only [Node.hasCompo] at hc
    have ih := C02.Subs.commit_markBits s i rest ha hn hv hc
    simp only [Node.mark]
    generalize s.markAt i rest = res at ih
    obtain ⟨s', ph⟩ := res
    simp only at ih
    simp only [Node.fwdActiveR, Node.commitR, Node.clearMarks, Node.spec, ih]
theorem C02.Subs.commit_markAt : (s : Subs) → (i : Nat) → (p : List Nat) → s.ActAt i → s.NoMarksAll →
    s.ValidAt i p → s.hasCompoAt i p = true →
    (((s.markAt i p).1.fwdActiveAtR ans k i).commitAtR i).clearMarks = s.specAt ans k i p
  | .nil, _, _, _, _, hv, _ => by simp only [Subs.ValidAt] at hv
  | .cons b n r, 0, p, ha, hs, hv, hc => by
    simp only [Subs.ActAt] at ha
    simp only [Subs.NoMarksAll] at hs
    obtain ⟨hb, hn, hr⟩ := hs
    subst hb
    simp only [Subs.ValidAt] at hv
    simp only [Subs.hasCompoAt] at hc
    have ih := C02.Node.commit_mark n p ha.1 hn hv hc
    simp only [Subs.markAt]
    generalize n.mark p = res at ih
    obtain ⟨n', ph⟩ := res
    simp only at ih
    simp only [Subs.fwdActiveAtR, Subs.commitAtR, Subs.clearMarks, Subs.specAt, ih, hc, ↓reduceIte,
      C02.Subs.clearMarks_of_noMarks r hr]
  | .cons b n r, i+1, p, ha, hs, hv, hc => by
    simp only [Subs.ActAt] at ha
    simp only [Subs.NoMarksAll] at hs
    obtain ⟨hb, hn, hr⟩ := hs
    subst hb
    simp only [Subs.ValidAt] at hv
    simp only [Subs.hasCompoAt] at hc
    have ih := C02.Subs.commit_markAt r i p ha.2 hr hv hc
    simp only [Subs.markAt]
    generalize r.markAt i p = res at ih
    obtain ⟨r', ph⟩ := res
    simp only at ih
    simp only [Subs.fwdActiveAtR, Subs.commitAtR, Subs.clearMarks, Subs.specAt, ih,
      C02.Node.clearMarks_of_noMarks n hn]
theorem C02.Subs.commit_markBits : (s : Subs) → (i : Nat) → (p : List Nat) → s.ActAll → s.NoMarksAll →
    s.ValidAt i p → s.hasCompoAt i p = true →
    ((((s.markAt i p).1.setBit i).fwdActiveBitsR ans k).commitAllR).clearMarks
      = s.specThrough ans k i p
  | .nil, _, _, _, _, hv, _ => by simp only [Subs.ValidAt] at hv
  | .cons b n r, 0, p, ha, hs, hv, hc => by
    simp only [Subs.ActAll] at ha
    simp only [Subs.NoMarksAll] at hs
    obtain ⟨hb, hn, hr⟩ := hs
    subst hb
    simp only [Subs.ValidAt] at hv
    simp only [Subs.hasCompoAt] at hc
    have ih := C02.Node.commit_mark n p ha.1 hn hv hc
    simp only [Subs.markAt]
    generalize n.mark p = res at ih
    obtain ⟨n', ph⟩ := res
    simp only at ih
    simp only [Subs.setBit, Subs.fwdActiveBitsR, ↓reduceIte, Subs.commitAllR, Subs.clearMarks,
      Subs.specThrough, ih, C02.Subs.fwdActiveBitsR_noMarks ans k r hr, C02.Subs.commitAllR_id r ha.2 hr,
      C02.Subs.clearMarks_of_noMarks r hr]
  | .cons b n r, i+1, p, ha, hs, hv, hc => by
    simp only [Subs.ActAll] at ha
    simp only [Subs.NoMarksAll] at hs
    obtain ⟨hb, hn, hr⟩ := hs
    subst hb
    simp only [Subs.ValidAt] at hv
    simp only [Subs.hasCompoAt] at hc
    have ih := C02.Subs.commit_markBits r i p ha.2 hr hv hc
    simp only [Subs.markAt]
    generalize r.markAt i p = res at ih
    obtain ⟨r', ph⟩ := res
    simp only at ih
    simp only [Subs.setBit, Subs.fwdActiveBitsR, Bool.false_eq_true, ↓reduceIte, Subs.commitAllR,
      Subs.clearMarks, Subs.specThrough, ih, C02.Node.commitR_id n ha.1 hn, C02.Node.clearMarks_of_noMarks n hn]
end


theorem C02.Node.spec_nil (n : Node) : n.spec ans k [] = n.retarget ans k := by
  cases n <;> simp only [Node.spec]

/-! ### no composite region above the destination: the passes find nothing to do -/

mutual
theorem C02.Node.commit_mark_orthoOnly : (n : Node) → (p : List Nat) → n.Act → n.NoMarks →
    n.ValidPath p → n.hasCompo p = false →
    (((n.mark p).1.fwdActiveR ans k).commitR).clearMarks = n
  | .leaf id inj, [], ha, hn, _, _ => by
    simp only [Node.mark]
    rw [C02.Node.fwdActiveR_id ans k _ ha hn, C02.Node.commitR_id _ ha hn, C02.Node.clearMarks_of_noMarks _ hn]
  | .compo id rid inj h st a r q m s, [], ha, hn, _, _ => by
    simp only [Node.mark]
    rw [C02.Node.fwdActiveR_id ans k _ ha hn, C02.Node.commitR_id _ ha hn, C02.Node.clearMarks_of_noMarks _ hn]
  | .ortho id rid inj h s, [], ha, hn, _, _ => by
    simp only [Node.mark]
    rw [C02.Node.fwdActiveR_id ans k _ ha hn, C02.Node.commitR_id _ ha hn, C02.Node.clearMarks_of_noMarks _ hn]
  | .leaf id inj, _ :: _, _, _, hv, _ => by simp only [Node.ValidPath] at hv
  | .compo id rid inj h st a r q m s, i :: rest, _, _, _, hc => by
    simp only [Node.hasCompo, Bool.true_eq_false] at hc
  | .ortho id rid inj h s, i :: rest, ha, hn, hv, hc => by
    simp only [Node.Act] at ha
    simp only [Node.NoMarks] at hn
    simp only [Node.ValidPath] at hv
    simp only [Node.hasCompo] at hc
    have ih := C02.Subs.commit_markBits_orthoOnly s i rest ha hn hv hc
    simp only [Node.mark]
    generalize s.markAt i rest = res at ih
    obtain ⟨s', ph⟩ := res
    simp only at ih
    simp only [Node.fwdActiveR, Node.commitR, Node.clearMarks, ih]
theorem C02.Subs.commit_markBits_orthoOnly : (s : Subs) → (i : Nat) → (p : List Nat) → s.ActAll →
    s.NoMarksAll → s.ValidAt i p → s.hasCompoAt i p = false →
    ((((s.markAt i p).1.setBit i).fwdActiveBitsR ans k).commitAllR).clearMarks = s
  | .nil, _, _, _, _, hv, _ => by simp only [Subs.ValidAt] at hv
  | .cons b n r, 0, p, ha, hs, hv, hc => by
    simp only [Subs.ActAll] at ha
    simp only [Subs.NoMarksAll] at hs
    obtain ⟨hb, hn, hr⟩ := hs
    subst hb
    simp only [Subs.ValidAt] at hv
    simp only [Subs.hasCompoAt] at hc
    have ih := C02.Node.commit_mark_orthoOnly n p ha.1 hn hv hc
    simp only [Subs.markAt]
    generalize n.mark p = res at ih
    obtain ⟨n', ph⟩ := res
    simp only at ih
    simp only [Subs.setBit, Subs.fwdActiveBitsR, ↓reduceIte, Subs.commitAllR, Subs.clearMarks,
      ih, C02.Subs.fwdActiveBitsR_noMarks ans k r hr, C02.Subs.commitAllR_id r ha.2 hr,
      C02.Subs.clearMarks_of_noMarks r hr]
  | .cons b n r, i+1, p, ha, hs, hv, hc => by
    simp only [Subs.ActAll] at ha
    simp only [Subs.NoMarksAll] at hs
    obtain ⟨hb, hn, hr⟩ := hs
    subst hb
    simp only [Subs.ValidAt] at hv
    simp only [Subs.hasCompoAt] at hc
    have ih := C02.Subs.commit_markBits_orthoOnly r i p ha.2 hr hv hc
    simp only [Subs.markAt]
    generalize r.markAt i p = res at ih
    obtain ⟨r', ph⟩ := res
    simp only at ih
    simp only [Subs.setBit, Subs.fwdActiveBitsR, Bool.false_eq_true, ↓reduceIte, Subs.commitAllR,
      Subs.clearMarks, ih, C02.Node.commitR_id n ha.1 hn, C02.Node.clearMarks_of_noMarks n hn]
end

end

/-! ### the literal reading coincides with `spec` when the destination's parent is composite -/

mutual
theorem C02.Node.parentCompo_false : (n : Node) → (p : List Nat) → p ≠ [] → n.hasCompo p = false →
    n.parentCompo p = false
  | _, [], hp, _ => absurd rfl hp
  | .leaf .., _ :: _, _, _ => by simp only [Node.parentCompo]
  | .compo .., _ :: _, _, hc => by simp only [Node.hasCompo, Bool.true_eq_false] at hc
  | .ortho id rid inj h s, [i], _, _ => by simp only [Node.parentCompo]
  | .ortho id rid inj h s, i :: j :: rest, _, hc => by
    simp only [Node.hasCompo] at hc
    simp only [Node.parentCompo]
    exact C02.Subs.parentCompoAt_false s i (j :: rest) (List.cons_ne_nil _ _) hc
theorem C02.Subs.parentCompoAt_false : (s : Subs) → (i : Nat) → (p : List Nat) → p ≠ [] →
    s.hasCompoAt i p = false → s.parentCompoAt i p = false
  | .nil, _, _, _, _ => by simp only [Subs.parentCompoAt]
  | .cons b n r, 0, p, hp, hc => by
    simp only [Subs.hasCompoAt] at hc
    simp only [Subs.parentCompoAt]
    exact C02.Node.parentCompo_false n p hp hc
  | .cons b n r, i+1, p, hp, hc => by
    simp only [Subs.hasCompoAt] at hc
    simp only [Subs.parentCompoAt]
    exact C02.Subs.parentCompoAt_false r i p hp hc
end

section
variable (ans : Nat → Nat) (k : Kind)

theorem C02.Node.specLit_nil (n : Node) : n.specLit ans k [] = n.retarget ans k := by
  cases n <;> simp only [Node.specLit]

mutual
theorem C02.Node.spec_eq_specLit : (n : Node) → (p : List Nat) → n.parentCompo p = true →
    n.spec ans k p = n.specLit ans k p
  | n, [], _ => by rw [C02.Node.spec_nil, C02.Node.specLit_nil]
  | .leaf .., _ :: _, _ => by simp only [Node.spec, Node.specLit]
  | .compo id rid inj h st a r q m s, [i], _ => by
    cases a with
    | none => simp only [Node.spec, Node.specLit]
    | some ai => simp only [Node.spec, Node.specLit, C02.Subs.specAt_eq_specLitAt s i [] (.inl rfl)]
  | .compo id rid inj h st a r q m s, i :: j :: rest, hp => by
    simp only [Node.parentCompo] at hp
    cases a with
    | none => simp only [Node.spec, Node.specLit]
    | some ai =>
      simp only [Node.spec, Node.specLit, C02.Subs.specAt_eq_specLitAt s i (j :: rest) (.inr hp)]
  | .ortho id rid inj h s, [i], hp => by simp only [Node.parentCompo, Bool.false_eq_true] at hp
  | .ortho id rid inj h s, i :: j :: rest, hp => by
    simp only [Node.parentCompo] at hp
    simp only [Node.spec, Node.specLit, C02.Subs.specThrough_eq_specLitAt s i (j :: rest) hp]
theorem C02.Subs.specAt_eq_specLitAt : (s : Subs) → (i : Nat) → (p : List Nat) →
    (p = [] ∨ s.parentCompoAt i p = true) → s.specAt ans k i p = s.specLitAt ans k i p
  | .nil, _, _, _ => by simp only [Subs.specAt, Subs.specLitAt]
  | .cons b n r, 0, p, hp => by
    simp only [Subs.specAt, Subs.specLitAt]
    rcases hp with hp | hp
    · subst hp
      simp only [Node.hasCompo, Bool.false_eq_true, ↓reduceIte, C02.Node.specLit_nil]
    · simp only [Subs.parentCompoAt] at hp
      cases hc : n.hasCompo p with
      | true => simp only [↓reduceIte, C02.Node.spec_eq_specLit n p hp]
      | false =>
        by_cases hpn : p = []
        · subst hpn
          simp only [Bool.false_eq_true, ↓reduceIte, C02.Node.specLit_nil]
        · have := C02.Node.parentCompo_false n p hpn hc
          rw [hp] at this
          cases this
  | .cons b n r, i+1, p, hp => by
    simp only [Subs.specAt, Subs.specLitAt]
    rw [C02.Subs.specAt_eq_specLitAt r i p (by
      rcases hp with hp | hp
      · exact .inl hp
      · exact .inr (by simpa only [Subs.parentCompoAt] using hp))]
theorem C02.Subs.specThrough_eq_specLitAt : (s : Subs) → (i : Nat) → (p : List Nat) →
    s.parentCompoAt i p = true → s.specThrough ans k i p = s.specLitAt ans k i p
  | .nil, _, _, _ => by simp only [Subs.specThrough, Subs.specLitAt]
  | .cons b n r, 0, p, hp => by
    simp only [Subs.parentCompoAt] at hp
    simp only [Subs.specThrough, Subs.specLitAt, C02.Node.spec_eq_specLit n p hp]
  | .cons b n r, i+1, p, hp => by
    simp only [Subs.parentCompoAt] at hp
    simp only [Subs.specThrough, Subs.specLitAt, C02.Subs.specThrough_eq_specLitAt r i p hp]
end

end
end Hfsm
