/-
Every API operation of Model/Machine.lean preserves the machine invariant of Proofs/MachInv.lean
(under `err = none` for the result), and `err` is sticky across each of them.
-/
import Hfsm.Proofs.MachInv
import Hfsm.Proofs.LoadMarks

set_option linter.unusedSimpArgs false
set_option linter.unusedVariables false
set_option linter.unusedSectionVars false

namespace Hfsm
variable {U : Type} [UtilArith U]

namespace World

/-- `W` is `w` with fresh control registers and a snapshot of `root` (or none): what every operation
starts a pass with. -/
structure Prep (root : Node) (w W : World U) : Prop where
  err : W.err = w.err
  cfg : W.cfg = w.cfg
  trace : W.trace = w.trace
  obs : W.obs = none ∨ ∃ g, W.obs = some (root.observe w.cfg.stateCount g)

theorem Prep.good {root base : Node} {w W : World U} (hp : Prep root w W) (hg : w.Good base)
    (hs : root.SameShape base) (hr : root.Act ∨ root.Clean) : W.Good base := by
  refine ⟨fun o ho => ?_, fun sid m slot o p c he => ?_⟩
  · rw [hp.cfg]
    rcases hp.obs with h | ⟨g, h⟩
    · rw [h] at ho; cases ho
    · rw [h] at ho; cases ho; exact ⟨root, g, rfl, hs, hr⟩
  · rw [hp.cfg]; exact hg.trace _ _ _ _ _ _ (hp.trace ▸ he)

/-- any record update of `w` that leaves `err`, `cfg`, `trace` alone, then `freshControl`-like updates, then a snapshot -/
theorem Prep.snapshot {root : Node} {w w' : World U} (a b : Bool) (h1 : w'.err = w.err) (h2 : w'.cfg = w.cfg)
    (h3 : w'.trace = w.trace) : Prep root w (w'.snapshot root a b) := by
  refine ⟨h1, h2, h3, ?_⟩
  simp only [World.snapshot]
  cases a
  · exact .inl rfl
  · exact .inr ⟨b, by simp [h2]⟩

theorem clearStatuses_ext (w : World U) : Ext w w.clearStatuses := Ext.of_eq rfl rfl rfl rfl rfl

end World

namespace Mach

/-! ### `create` -/

theorem create_root (shape : Shape) (cfg : Config) : (create shape cfg : Mach U).root = shape.toNode 0 0 := rfl

/-! ### `initialEnter` -/

/-- the world `initialEnter` hands to `deepEnter` (before the snapshot) -/
def enterPrep (w : World U) (cur : List Transition) : World U :=
  let w0 := w.freshControl
  { w0 with current := cur, previous := (if w0.cfg.history then cur else w0.previous) }

theorem initialEnter_spec (m : Mach U) :
    ∃ (r1 : Node × World U) (m2 : Mach U) (rr : Mach U × List Transition) (e : Node × World U),
      r1 = m.root.request { kind := .change, index := none } ((m.w.clearTargets.freshControl).snapshot m.root true false) ∧
      m2 = (({ m with root := r1.1, w := r1.2 } : Mach U).approvedByEntryGuards [] []).1 ∧
      rr = rounds true m2.w.cfg.substitutionLimit m2 m2.root [] ∧
      e = rr.1.root.enter ((enterPrep rr.1.w rr.2).snapshot rr.1.root false false) ∧
      m.initialEnter = ({ rr.1 with root := e.1.clearMarks, w := e.2 } : Mach U).updateActivity :=
  ⟨_, _, _, _, rfl, rfl, rfl, rfl, rfl⟩

theorem initialEnter_errLe (m : Mach U) : World.ErrLe m.w m.initialEnter.w := by
  obtain ⟨r1, m2, rr, e, h1, h2, h3, h4, heq⟩ := initialEnter_spec m
  have hW0 : World.Prep m.root m.w ((m.w.clearTargets.freshControl).snapshot m.root true false) :=
    World.Prep.snapshot true false (by simp) (by simp) (by simp)
  have hW3 : World.Prep rr.1.root rr.1.w ((enterPrep rr.1.w rr.2).snapshot rr.1.root false false) :=
    World.Prep.snapshot false false rfl rfl rfl
  generalize (m.w.clearTargets.freshControl).snapshot m.root true false = W0 at h1 hW0
  generalize (enterPrep rr.1.w rr.2).snapshot rr.1.root false false = W3 at h4 hW3
  rw [heq]
  intro h
  simp only [w_updateActivity] at h
  have a1 : W3.err = none := by rw [h4] at h; exact (Node.enter_ext _ _).err h
  have a2 : rr.1.w.err = none := hW3.err ▸ a1
  have a3 : m2.w.err = none := by rw [h3] at a2; exact rounds_errLe true _ _ _ _ a2
  have a4 : r1.2.err = none := by rw [h2] at a3; exact approvedByEntryGuards_errLe _ _ _ a3
  have a5 : W0.err = none := by rw [h1] at a4; exact (Node.request_ext _ _ _).err a4
  exact hW0.err ▸ a5

theorem initialEnter_inv {base : Node} {m : Mach U} (hi : DormInv base m) (he : m.initialEnter.w.err = none) :
    LiveInv base m.initialEnter ∧ m.initialEnter.root.NoMarks := by
  obtain ⟨r1, m2, rr, e, h1, h2, h3, h4, heq⟩ := initialEnter_spec m
  have hW0 : World.Prep m.root m.w ((m.w.clearTargets.freshControl).snapshot m.root true false) :=
    World.Prep.snapshot true false (by simp) (by simp) (by simp)
  have hW3 : World.Prep rr.1.root rr.1.w ((enterPrep rr.1.w rr.2).snapshot rr.1.root false false) :=
    World.Prep.snapshot false false rfl rfl rfl
  generalize (m.w.clearTargets.freshControl).snapshot m.root true false = W0 at h1 hW0
  generalize (enterPrep rr.1.w rr.2).snapshot rr.1.root false false = W3 at h4 hW3
  rw [heq] at he ⊢
  simp only [w_updateActivity] at he
  have a1 : W3.err = none := by rw [h4] at he; exact (Node.enter_ext _ _).err he
  have a2 : rr.1.w.err = none := hW3.err ▸ a1
  have a3 : m2.w.err = none := by rw [h3] at a2; exact rounds_errLe true _ _ _ _ a2
  have a4 : r1.2.err = none := by rw [h2] at a3; exact approvedByEntryGuards_errLe _ _ _ a3
  -- stage 1: resolve the whole tree
  have g0 : W0.Good base := hW0.good hi.good hi.shape (.inr hi.dorm.clean)
  have v1 : r1.1.view true true false = m.root.view true true false := by rw [h1]; exact Node.request_view _ _ _ _ _
  have res1 : r1.1.Res := by rw [h1] at a4 ⊢; exact Node.request_res _ _ _ a4
  have d1 : r1.1.DRes :=
    ⟨(Node.clean_congr v1).mpr hi.dorm.clean, res1, (Node.resumableOK_congr v1).mpr hi.dorm.rok⟩
  have s1 : r1.1.SameShape base := (Node.SameShape.of_view v1).trans hi.shape
  have g1 : r1.2.Good base := by rw [h1]; exact g0.ext (Node.request_ext _ _ _)
  -- stage 2: entry guards of the first activation
  have i2 : DResInv base m2 := by
    rw [h2]
    exact ⟨by simpa using s1, by simpa using d1,
      approvedByEntryGuards_good _ _ _ g1 s1 (.inr d1.clean)⟩
  -- stage 3: substitutions
  have i3 : DResInv base rr.1 := by rw [h3] at a2 ⊢; exact rounds_dres _ m2 m2.root [] i2 i2.dres.res rfl a2
  -- stage 4: enter
  have g3 : W3.Good base := hW3.good i3.good i3.shape (.inr i3.dres.clean)
  obtain ⟨l4, s4⟩ : e.1.Live ∧ e.1.SameShape rr.1.root := by rw [h4]; exact Node.enter_live _ i3.dres
  obtain ⟨l5, n5, s5⟩ := Node.clearMarks_live l4
  refine ⟨⟨?_, ?_, ?_⟩, ?_⟩
  · simpa using s5.trans (s4.trans i3.shape)
  · simpa using l5
  · simp only [w_updateActivity]; rw [h4]; exact g3.ext (Node.enter_ext _ _)
  · simpa using n5

end Mach

mutual
theorem Node.cleared_idle : (n : Node) → n.cleared.Clean ∧ n.cleared.NoMarks ∧ n.cleared.ResumableOK
  | .leaf .. => ⟨trivial, trivial, trivial⟩
  | .compo _ _ _ _ _ _ _ _ _ s => by
      have := Subs.cleared_idle s
      simp [Node.cleared, Node.Clean, Node.NoMarks, Node.ResumableOK, this]
  | .ortho _ _ _ _ s => by
      have := Subs.cleared_idle s
      simp [Node.cleared, Node.Clean, Node.NoMarks, Node.ResumableOK, this]
theorem Subs.cleared_idle : (s : Subs) → s.cleared.CleanAll ∧ s.cleared.NoMarksAll ∧ s.cleared.ResumableOKAll
  | .nil => ⟨trivial, trivial, trivial⟩
  | .cons _ n r => by
      have h1 := Node.cleared_idle n
      have h2 := Subs.cleared_idle r
      simp [Subs.cleared, Subs.CleanAll, Subs.NoMarksAll, Subs.ResumableOKAll, h1, h2]
end

theorem Node.cleared_sameShape (n : Node) : n.cleared.SameShape n := by
  unfold Node.SameShape
  rw [Node.cleared_eq_view, Node.view_view]; rfl

def World.withPrevious (w : World U) (p : List Transition) : World U := { w with previous := p }

namespace Mach

/-! ### `finalExit` -/

theorem finalExit_errLe (m : Mach U) : World.ErrLe m.w m.finalExit.w := by
  unfold finalExit
  intro h
  have h' : (m.root.exit ((m.w.freshControl).snapshot m.root false false)).2.err = none := by simpa using h
  have := (Node.exit_ext m.root ((m.w.freshControl).snapshot m.root false false)).err h'
  simpa using this

theorem finalExit_inv {base : Node} {m : Mach U} (hs : m.root.SameShape base) (hg : m.w.Good base)
    (hr : m.root.Act ∨ m.root.Clean) :
    DormInv base m.finalExit ∧ m.finalExit.root.NoMarks := by
  unfold finalExit
  dsimp only
  have hW : World.Prep m.root m.w ((m.w.freshControl).snapshot m.root false false) :=
    World.Prep.snapshot false false rfl rfl rfl
  have g1 := (hW.good hg hs hr).ext (Node.exit_ext m.root _)
  have hc := Node.cleared_idle (m.root.exit ((m.w.freshControl).snapshot m.root false false)).1
  have hsh : (m.root.exit ((m.w.freshControl).snapshot m.root false false)).1.cleared.SameShape base := by
    refine (Node.cleared_sameShape _).trans (Node.SameShape.trans ?_ hs)
    rw [Node.exit_fst]; exact Node.SameShape.of_view (Node.exitT_view m.root)
  exact ⟨⟨hsh, ⟨hc.1, hc.2.2⟩, g1.of_eq (by simp) (by simp) (by simp)⟩, hc.2.1⟩


/-! ### `update`, `react`, `query` -/

theorem update_spec (m : Mach U) :
    ∃ w4, World.Ext ((m.w.freshControl).snapshot m.root true false) w4 ∧
      m.update = ({ m with w := w4 } : Mach U).processRequest := by
  refine ⟨_, ?_, rfl⟩
  ext_tac

theorem react_spec (m : Mach U) :
    ∃ w4, World.Ext ((m.w.freshControl).snapshot m.root true false) w4 ∧
      m.react = ({ m with w := w4 } : Mach U).processRequest := by
  refine ⟨_, ?_, rfl⟩
  generalize (m.w.freshControl).snapshot m.root true false = W0
  have h1 := Node.react_ext .preReact m.w.cfg.topDown false m.root W0
  generalize (m.root.react .preReact m.w.cfg.topDown false W0).1 = w1 at h1 ⊢
  have h2 := Node.react_ext .react m.w.cfg.topDown false m.root { w1 with consumed := false }
  generalize (m.root.react .react m.w.cfg.topDown false { w1 with consumed := false }).1 = w2 at h2 ⊢
  have h3 := Node.react_ext .postReact (!m.w.cfg.topDown) true m.root { w2 with consumed := false }
  generalize (m.root.react .postReact (!m.w.cfg.topDown) true { w2 with consumed := false }).1 = w3 at h3 ⊢
  have h13 : World.Ext W0 w3 :=
    (h1.trans (World.Ext.transR h2 (World.Ext.of_eq rfl rfl rfl rfl rfl))).trans
      (World.Ext.transR h3 (World.Ext.of_eq rfl rfl rfl rfl rfl))
  refine World.Ext.trans h13 ?_
  ext_tac

/-- a pass over the tree followed by `processRequest` -/
theorem pass_inv {base : Node} {m : Mach U} (w4 : World U)
    (hext : World.Ext ((m.w.freshControl).snapshot m.root true false) w4)
    (hi : LiveInv base m) (he : ({ m with w := w4 } : Mach U).processRequest.w.err = none) :
    LiveInv base ({ m with w := w4 } : Mach U).processRequest ∧
    (({ m with w := w4 } : Mach U).processRequest.root.NoMarks ∨ ({ m with w := w4 } : Mach U).processRequest.root = m.root) := by
  have hW : World.Prep m.root m.w ((m.w.freshControl).snapshot m.root true false) :=
    World.Prep.snapshot true false rfl rfl rfl
  have g4 : w4.Good base := (hW.good hi.good hi.shape (.inl hi.live.act)).ext hext
  have := processRequest_live (m := ({ m with w := w4 } : Mach U)) ⟨hi.shape, hi.live, g4⟩ he
  refine ⟨this.1, ?_⟩
  cases hq : w4.requests.isEmpty
  · exact .inl (this.2.2 hq)
  · exact .inr (this.2.1 hq)

theorem pass_errLe {m : Mach U} (w4 : World U)
    (hext : World.Ext ((m.w.freshControl).snapshot m.root true false) w4) :
    World.ErrLe m.w ({ m with w := w4 } : Mach U).processRequest.w := by
  intro h
  have := hext.err (processRequest_errLe _ h)
  simpa using this

theorem update_errLe (m : Mach U) : World.ErrLe m.w m.update.w := by
  obtain ⟨w4, hext, heq⟩ := update_spec m
  rw [heq]; exact pass_errLe w4 hext

theorem update_inv {base : Node} {m : Mach U} (hi : LiveInv base m) (he : m.update.w.err = none) :
    LiveInv base m.update ∧ (m.update.root.NoMarks ∨ m.update.root = m.root) := by
  obtain ⟨w4, hext, heq⟩ := update_spec m
  rw [heq] at he ⊢; exact pass_inv w4 hext hi he

theorem react_errLe (m : Mach U) : World.ErrLe m.w m.react.w := by
  obtain ⟨w4, hext, heq⟩ := react_spec m
  rw [heq]; exact pass_errLe w4 hext

theorem react_inv {base : Node} {m : Mach U} (hi : LiveInv base m) (he : m.react.w.err = none) :
    LiveInv base m.react ∧ (m.react.root.NoMarks ∨ m.react.root = m.root) := by
  obtain ⟨w4, hext, heq⟩ := react_spec m
  rw [heq] at he ⊢; exact pass_inv w4 hext hi he

theorem query_ext (m : Mach U) : World.Ext ((m.w.freshControl).snapshot m.root true false) m.query.w := by
  unfold query; dsimp only; ext_tac

@[simp] theorem query_root (m : Mach U) : m.query.root = m.root := rfl

theorem query_errLe (m : Mach U) : World.ErrLe m.w m.query.w := by
  intro h; have := (query_ext m).err h; simpa using this

theorem query_good {base : Node} {m : Mach U} (hs : m.root.SameShape base) (hg : m.w.Good base)
    (hr : m.root.Act ∨ m.root.Clean) : m.query.w.Good base :=
  ((World.Prep.snapshot (w := m.w) (w' := m.w.freshControl) true false rfl rfl rfl).good hg hs hr).ext (query_ext m)

/-! ### queueing a request, task status, plan edits: the registry is not touched -/

@[simp] theorem request_root (m : Mach U) (k : Kind) (d : Nat) (p : Option Nat) : (m.request k d p).root = m.root := rfl
@[simp] theorem setTask_root (m : Mach U) (sid : Nat) (b : Bool) : (m.setTask sid b).root = m.root := by
  unfold setTask; split <;> rfl
@[simp] theorem planAppend_root (m : Mach U) (r : Nat) (t : Task) : (m.planAppend r t).root = m.root := rfl
@[simp] theorem planClear_root (m : Mach U) (r : Nat) : (m.planClear r).root = m.root := by
  unfold planClear; split <;> rfl

theorem request_ext (m : Mach U) (k : Kind) (d : Nat) (p : Option Nat) : World.Ext m.w (m.request k d p).w := by
  unfold request
  dsimp only
  refine World.Ext.transR (World.logRec_ext _ _) ?_
  split
  · exact World.Ext.of_eq rfl rfl rfl rfl rfl
  · exact World.Ext.refl _

theorem setTask_ext (m : Mach U) (sid : Nat) (b : Bool) : World.Ext m.w (m.setTask sid b).w := by
  unfold setTask
  split
  · dsimp only
    refine World.Ext.transR (World.logRec_ext _ _) ?_
    split <;> exact World.Ext.of_eq rfl rfl rfl rfl rfl
  · exact World.Ext.refl _

theorem planAppend_ext (m : Mach U) (r : Nat) (t : Task) : World.Ext m.w (m.planAppend r t).w :=
  World.planAppend_ext _ _ _

theorem planClear_ext (m : Mach U) (r : Nat) : World.Ext m.w (m.planClear r).w := by
  unfold planClear
  split
  · exact World.planClear_ext _ _ _ _
  · exact World.fail'_ext _ _

theorem immediate_errLe (m : Mach U) (k : Kind) (d : Nat) (p : Option Nat) : World.ErrLe m.w (m.immediate k d p).w :=
  fun h => (request_ext m k d p).err (processRequest_errLe _ h)

theorem immediate_inv {base : Node} {m : Mach U} (k : Kind) (d : Nat) (p : Option Nat) (hi : LiveInv base m)
    (he : (m.immediate k d p).w.err = none) :
    LiveInv base (m.immediate k d p) ∧ ((m.immediate k d p).root.NoMarks ∨ (m.immediate k d p).root = m.root) := by
  unfold immediate at he ⊢
  have := processRequest_live (m := m.request k d p)
    ⟨hi.shape, hi.live, hi.good.ext (request_ext m k d p)⟩ he
  refine ⟨this.1, ?_⟩
  cases hq : (m.request k d p).w.requests.isEmpty
  · exact .inl (this.2.2 hq)
  · exact .inr (this.2.1 hq)


/-! ### `reset` -/

theorem reset_spec (m : Mach U) :
    ∃ (e1 : Node × World U) (r2 : Node × World U) (e3 : Node × World U),
      e1 = m.root.exit ((m.w.freshControl).snapshot m.root false false) ∧
      r2 = e1.1.cleared.request { kind := .change, index := none }
            ((World.withPrevious e1.2.clearTargets []).snapshot e1.1.cleared true false) ∧
      e3 = r2.1.enter (r2.2.snapshot r2.1 false false) ∧
      m.reset = ({ m with root := e3.1.clearMarks, w := e3.2 } : Mach U).updateActivity :=
  ⟨_, _, _, rfl, rfl, rfl, rfl⟩

theorem reset_errLe (m : Mach U) : World.ErrLe m.w m.reset.w := by
  obtain ⟨e1, r2, e3, h1, h2, h3, heq⟩ := reset_spec m
  rw [heq]
  intro h
  simp only [w_updateActivity] at h
  have a3 : r2.2.err = none := by
    rw [h3] at h; have := (Node.enter_ext _ _).err h; simpa using this
  have a2 : e1.2.err = none := by
    rw [h2] at a3; have := (Node.request_ext _ _ _).err a3
    simpa [World.withPrevious] using this
  rw [h1] at a2
  have := (Node.exit_ext _ _).err a2
  simpa using this

theorem reset_inv {base : Node} {m : Mach U} (hs : m.root.SameShape base) (hg : m.w.Good base)
    (hr : m.root.Act ∨ m.root.Clean) (hrok : True) (he : m.reset.w.err = none) :
    LiveInv base m.reset ∧ m.reset.root.NoMarks := by
  obtain ⟨e1, r2, e3, h1, h2, h3, heq⟩ := reset_spec m
  rw [heq] at he ⊢
  simp only [w_updateActivity] at he
  have a3 : r2.2.err = none := by
    rw [h3] at he; have := (Node.enter_ext _ _).err he; simpa using this
  -- exit, then `registry.clear()`
  have g1 : e1.2.Good base := by
    rw [h1]
    exact ((World.Prep.snapshot (w := m.w) (w' := m.w.freshControl) false false rfl rfl rfl).good hg hs hr).ext
      (Node.exit_ext _ _)
  have s1 : e1.1.cleared.SameShape base := by
    refine (Node.cleared_sameShape _).trans (Node.SameShape.trans ?_ hs)
    rw [h1, Node.exit_fst]; exact Node.SameShape.of_view (Node.exitT_view m.root)
  have c1 := Node.cleared_idle e1.1
  -- resolve from scratch
  have g1' : ((World.withPrevious e1.2.clearTargets []).snapshot e1.1.cleared true false).Good base :=
    (World.Prep.snapshot (w := e1.2) (w' := World.withPrevious e1.2.clearTargets []) true false
      (by simp [World.withPrevious]) (by simp [World.withPrevious]) (by simp [World.withPrevious])).good g1 s1 (.inr c1.1)
  have v2 : r2.1.view true true false = e1.1.cleared.view true true false := by rw [h2]; exact Node.request_view _ _ _ _ _
  have res2 : r2.1.Res := by rw [h2] at a3 ⊢; exact Node.request_res _ _ _ a3
  have d2 : r2.1.DRes := ⟨(Node.clean_congr v2).mpr c1.1, res2, (Node.resumableOK_congr v2).mpr c1.2.2⟩
  have s2 : r2.1.SameShape base := (Node.SameShape.of_view v2).trans s1
  have g2 : r2.2.Good base := by rw [h2]; exact g1'.ext (Node.request_ext _ _ _)
  -- enter
  obtain ⟨l3, s3⟩ : e3.1.Live ∧ e3.1.SameShape r2.1 := by rw [h3]; exact Node.enter_live _ d2
  have g3 : e3.2.Good base := by
    rw [h3]; exact (g2.snapshot _ _ _ s2 (.inr d2.clean)).ext (Node.enter_ext _ _)
  obtain ⟨l4, n4, s4⟩ := Node.clearMarks_live l3
  exact ⟨⟨by simpa using s4.trans (s3.trans s2), by simpa using l4, by simpa using g3⟩, by simpa using n4⟩

/-! ### serialization loads -/

theorem withResumableOf_live {n d : Node} (hl : n.Live) (hd : d.ResumableOK) (hs : n.SameShape d) :
    (n.withResumableOf d).Live ∧ (n.withResumableOf d).SameShape n := by
  have hv := Node.withResumableOf_view true n d
  have hr := Node.withResumableOf_resumable n d hs
  exact ⟨⟨(Node.act_congr hv).mpr hl.act, (Node.cok_congr hv).mpr hl.cok, (Node.resumableOK_congr hr).mpr hd⟩,
    Node.SameShape.of_view hv⟩

theorem loadActive_errLe (m : Mach U) (st : List Bool) : World.ErrLe m.w (m.loadActive st).w := by
  unfold loadActive
  split
  · intro h; exact absurd h (World.fail'_errX _ _)
  · intro h
    simp only [w_updateActivity] at h
    have := (Node.commit_ext _ _).err h
    simpa using this

theorem loadActive_inv {base : Node} {m : Mach U} (st : List Bool) (hi : LiveInv base m)
    (he : (m.loadActive st).w.err = none) : LiveInv base (m.loadActive st) := by
  revert he
  unfold loadActive
  split
  · intro h; exact absurd h (World.fail'_errX _ _)
  · next root st' hload =>
    intro he
    dsimp only at he ⊢
    simp only [w_updateActivity] at he
    obtain ⟨hv, hrok, hres⟩ := Node.loadRequested_spec _ st root st' hload
    have hv0 : root.view true false false = m.root.view true false false := by
      rw [hv, Node.view_tff_of_tft (Node.noResumable_view true _), Node.view_tff_of_ttf (Node.clearMarks_view true true _)]
    have l1 : root.Live := ⟨(Node.act_congr hv0).mpr hi.live.act, Node.Res_imp_COK _ hres, hrok⟩
    have s1 : root.SameShape base := (Node.SameShape.of_view hv0).trans hi.shape
    have hc := Node.commitT_act root l1.act l1.cok
    have l2 : root.commitT.Live := ⟨hc.1, hc.2, Node.commitT_resumableOK root l1.act l1.rok⟩
    have s2 : root.commitT.SameShape root := Node.commitT_view root
    obtain ⟨l3, s3⟩ := withResumableOf_live l2 hrok s2
    refine ⟨?_, ?_, ?_⟩
    · simp only [root_updateActivity, Node.commit_fst]; exact s3.trans (s2.trans s1)
    · simp only [root_updateActivity, Node.commit_fst]; exact l3
    · simp only [w_updateActivity]
      refine World.Good.ext (World.Prep.good (w := m.w) ⟨?_, ?_, ?_, .inl rfl⟩ hi.good s1 (.inl l1.act)) (Node.commit_ext _ _)
      all_goals simp

theorem loadEnter_errLe (m : Mach U) (st : List Bool) : World.ErrLe m.w (m.loadEnter st).w := by
  unfold loadEnter
  split
  · intro h; exact absurd h (World.fail'_errX _ _)
  · intro h
    simp only [w_updateActivity] at h
    have := (Node.enter_ext _ _).err h
    simpa using this

theorem loadEnter_inv {base : Node} {m : Mach U} (st : List Bool) (hi : DormInv base m)
    (he : (m.loadEnter st).w.err = none) : LiveInv base (m.loadEnter st) := by
  revert he
  unfold loadEnter
  split
  · intro h; exact absurd h (World.fail'_errX _ _)
  · next root st' hload =>
    intro he
    dsimp only at he ⊢
    simp only [w_updateActivity] at he
    obtain ⟨hv, hrok, hres⟩ := Node.loadRequested_spec _ st root st' hload
    have d1 : root.DRes := ⟨(Node.clean_congr hv).mpr hi.dorm.clean, hres, hrok⟩
    have s1 : root.SameShape base := (Node.SameShape.of_view hv).trans hi.shape
    have gW : ((m.w.freshControl).snapshot root false false).Good base :=
      (World.Prep.snapshot (w := m.w) (w' := m.w.freshControl) false false rfl rfl rfl).good hi.good s1 (.inr d1.clean)
    obtain ⟨l2, s2⟩ := Node.enter_live ((m.w.freshControl).snapshot root false false) d1
    obtain ⟨l3, s3⟩ := withResumableOf_live l2 hrok s2
    exact ⟨by simpa using s3.trans (s2.trans s1), by simpa using l3,
      by simpa using gW.ext (Node.enter_ext _ _)⟩


/-! #### no request mark survives a load

Neither `R_::load` nor `RV_::loadEnter` ends with `registry.clearRequests()`; the marks `deepLoadRequested` lays
down are all consumed by the pass that follows (Proofs/LoadMarks.lean).  `R_::load` clears the registry's
requests BEFORE reading, so whatever marks the activated instance carried are gone too; `loadEnter` reads into
the registry as it is, so marks that were there before (outside the loaded configuration) stay. -/

/-- `load` into an ACTIVATED instance leaves no request mark, whatever marks the instance carried before -/
theorem loadActive_noMarks {m : Mach U} (st : List Bool) (ha : m.root.Act)
    (he : (m.loadActive st).w.err = none) : (m.loadActive st).root.NoMarks := by
  revert he
  unfold loadActive
  split
  · intro h; exact absurd h (World.fail'_errX _ _)
  · next root st' hload =>
    intro _
    dsimp only
    obtain ⟨hv, _, _⟩ := Node.loadRequested_spec _ st root st' hload
    have hv0 : root.view true false false = m.root.view true false false := by
      rw [hv, Node.view_tff_of_tft (Node.noResumable_view true _), Node.view_tff_of_ttf (Node.clearMarks_view true true _)]
    have hl : root.Loaded :=
      Node.loadRequested_loaded _ st root st' hload (Node.clearMarks_noResumable_noMarks m.root)
    simp only [root_updateActivity, Node.commit_fst]
    exact Node.withResumableOf_noMarks _ _ (Node.commitT_noMarks root hl ((Node.act_congr hv0).mpr ha))

/-- `loadEnter` (load into a manual instance that is not activated) leaves no request mark PROVIDED the
instance carried none -/
theorem loadEnter_noMarks {m : Mach U} (st : List Bool) (hn : m.root.NoMarks)
    (he : (m.loadEnter st).w.err = none) : (m.loadEnter st).root.NoMarks := by
  revert he
  unfold loadEnter
  split
  · intro h; exact absurd h (World.fail'_errX _ _)
  · next root st' hload =>
    intro _
    dsimp only
    have hl : root.Loaded := Node.loadRequested_loaded _ st root st' hload hn
    simp only [root_updateActivity, Node.enter_fst]
    exact Node.withResumableOf_noMarks _ _ (Node.enterT_noMarks root hl)


/-! ### replays -/

theorem foldl_applyStep_errLe : (l : List (Transition × Nat)) → (m : Mach U) →
    World.ErrLe m.w (l.foldl applyStep m).w
  | [], m => World.ErrLe.refl _
  | x :: rest, m => World.ErrLe.trans (applyStep_errLe m x) (foldl_applyStep_errLe rest _)

theorem foldl_applyStep_live {base : Node} : (l : List (Transition × Nat)) → (m : Mach U) → LiveInv base m →
    (l.foldl applyStep m).w.err = none → LiveInv base (l.foldl applyStep m)
  | [], m, hi, _ => hi
  | x :: rest, m, hi, he => by
      simp only [List.foldl] at he ⊢
      exact foldl_applyStep_live rest _ (applyStep_live x hi (foldl_applyStep_errLe rest _ he)).1 he

theorem foldl_applyStep_dres {base : Node} : (l : List (Transition × Nat)) → (m : Mach U) → DResInv base m →
    (l.foldl applyStep m).w.err = none → DResInv base (l.foldl applyStep m)
  | [], m, hi, _ => hi
  | x :: rest, m, hi, he => by
      simp only [List.foldl] at he ⊢
      exact foldl_applyStep_dres rest _ (applyStep_dres x hi (foldl_applyStep_errLe rest _ he)).1 he

theorem applyRequests_errLe (m : Mach U) (ts : List Transition) : World.ErrLe m.w (m.applyRequests ts).1.w := by
  rw [applyRequests_fst]
  intro h; have := foldl_applyStep_errLe _ _ h; simpa using this

theorem applyRequests_live {base : Node} {m : Mach U} (ts : List Transition) (hi : LiveInv base m)
    (he : (m.applyRequests ts).1.w.err = none) : LiveInv base (m.applyRequests ts).1 := by
  rw [applyRequests_fst] at he ⊢
  exact foldl_applyStep_live _ _ ⟨hi.shape, hi.live, hi.good.of_eq rfl rfl rfl⟩ he

theorem applyRequests_dres {base : Node} {m : Mach U} (ts : List Transition) (hi : DResInv base m)
    (he : (m.applyRequests ts).1.w.err = none) : DResInv base (m.applyRequests ts).1 := by
  rw [applyRequests_fst] at he ⊢
  exact foldl_applyStep_dres _ _ ⟨hi.shape, hi.dres, hi.good.of_eq rfl rfl rfl⟩ he

theorem replayTransitions_spec (m : Mach U) (ts : List Transition) :
    ∃ (m0 : Mach U) (ar : Mach U × Bool) (c : Node × World U),
      m0 = ({ m with w := World.withPrevious m.w.clearTargets [] } : Mach U) ∧
      ar = m0.applyRequests ts ∧
      c = ar.1.root.commit ((World.withPrevious ar.1.w.freshControl (ts.take ar.1.w.cfg.historyCap)).snapshot ar.1.root false false) ∧
      m.replayTransitions ts =
        if ts.isEmpty then (m0, false)
        else if ar.2 then (({ ar.1 with root := c.1.clearMarks, w := c.2 } : Mach U).updateActivity, true)
        else (ar.1, false) :=
  ⟨_, _, _, rfl, rfl, rfl, rfl⟩

theorem replayTransitions_errLe (m : Mach U) (ts : List Transition) : World.ErrLe m.w (m.replayTransitions ts).1.w := by
  obtain ⟨m0, ar, c, h0, h1, h2, heq⟩ := replayTransitions_spec m ts
  rw [heq]
  have e0 : World.ErrLe m.w m0.w := by rw [h0]; intro h; simpa [World.withPrevious] using h
  have e1 : World.ErrLe m0.w ar.1.w := by rw [h1]; exact applyRequests_errLe _ _
  split
  · exact e0
  · split
    · refine e0.trans (e1.trans ?_)
      intro h
      simp only [w_updateActivity] at h
      rw [h2] at h
      have := (Node.commit_ext _ _).err h
      simpa [World.withPrevious] using this
    · exact e0.trans e1

theorem replayTransitions_inv {base : Node} {m : Mach U} (ts : List Transition) (hi : LiveInv base m)
    (he : (m.replayTransitions ts).1.w.err = none) : LiveInv base (m.replayTransitions ts).1 := by
  obtain ⟨m0, ar, c, h0, h1, h2, heq⟩ := replayTransitions_spec m ts
  rw [heq] at he ⊢
  have i0 : LiveInv base m0 := by
    rw [h0]
    exact ⟨hi.shape, hi.live, hi.good.of_eq (by simp [World.withPrevious]) (by simp [World.withPrevious])
      (by simp [World.withPrevious])⟩
  have e1 : World.ErrLe m0.w ar.1.w := by rw [h1]; exact applyRequests_errLe _ _
  split at he
  · next hts => rw [if_pos hts]; exact i0
  · next hts =>
    rw [if_neg hts]
    split at he
    · next hch =>
      rw [if_pos hch]
      simp only [w_updateActivity] at he
      have a1 : ar.1.w.err = none := by
        rw [h2] at he
        have := (Node.commit_ext _ _).err he
        simpa [World.withPrevious] using this
      have i1 : LiveInv base ar.1 := by rw [h1] at a1 ⊢; exact applyRequests_live ts i0 a1
      obtain ⟨l2, s2⟩ : c.1.Live ∧ c.1.SameShape ar.1.root := by rw [h2]; exact Node.commit_live _ i1.live
      obtain ⟨l3, n3, s3⟩ := Node.clearMarks_live l2
      refine ⟨by simpa using s3.trans (s2.trans i1.shape), by simpa using l3, ?_⟩
      simp only [w_updateActivity]
      rw [h2]
      refine World.Good.ext (World.Prep.good (w := ar.1.w) ⟨?_, ?_, ?_, .inl rfl⟩ i1.good i1.shape (.inl i1.live.act))
        (Node.commit_ext _ _)
      all_goals simp [World.withPrevious]
    · next hch =>
      rw [if_neg hch]
      rw [h1] at he ⊢
      exact applyRequests_live ts i0 he

/-- `replayTransitions`: answering `true` it ends with `registry.clearRequests()`; answering `false` (empty
history, or `applyRequests` found `registry == backup`) it leaves exactly the request marks it found. -/
theorem replayTransitions_noMarks {base : Node} {m : Mach U} (ts : List Transition) (hi : LiveInv base m)
    (he : (m.replayTransitions ts).1.w.err = none) :
    ((m.replayTransitions ts).2 = true → (m.replayTransitions ts).1.root.NoMarks) ∧
    ((m.replayTransitions ts).2 = false → m.root.NoMarks → (m.replayTransitions ts).1.root.NoMarks) := by
  obtain ⟨m0, ar, c, h0, h1, h2, heq⟩ := replayTransitions_spec m ts
  rw [heq] at he ⊢
  have i0 : LiveInv base m0 := by
    rw [h0]
    exact ⟨hi.shape, hi.live, hi.good.of_eq (by simp [World.withPrevious]) (by simp [World.withPrevious])
      (by simp [World.withPrevious])⟩
  have r0 : m0.root = m.root := by rw [h0]
  split at he
  · next hts => rw [if_pos hts]; exact ⟨(fun h => by simp at h), fun _ hn => r0 ▸ hn⟩
  · next hts =>
    rw [if_neg hts]
    split at he
    · next hch =>
      rw [if_pos hch]
      refine ⟨fun _ => ?_, (fun h => by simp at h)⟩
      simp only [root_updateActivity]
      exact Node.clearMarks_noMarks _
    · next hch =>
      rw [if_neg hch]
      refine ⟨(fun h => by simp at h), fun _ hn => ?_⟩
      have i1 : LiveInv base ar.1 := by rw [h1] at he ⊢; exact applyRequests_live ts i0 he
      have hd : ar.1.root.marksDiffer m0.root = false := by
        have : ar.2 = ar.1.root.marksDiffer m0.root := by rw [h1]; rfl
        rw [← this]; simpa using hch
      exact Node.noMarks_of_marksDiffer_false (i1.shape.trans i0.shape.symm) hd (r0 ▸ hn)

theorem replayEnter_spec (m : Mach U) (ts : List Transition) :
    ∃ (m0 : Mach U) (r1 : Node × World U) (ar : Mach U × Bool) (e : Node × World U),
      m0 = ({ m with w := m.w.clearTargets } : Mach U) ∧
      r1 = m0.root.request { kind := .change, index := none } ((m0.w.freshControl).snapshot m0.root true false) ∧
      ar = ({ m0 with root := r1.1, w := r1.2 } : Mach U).applyRequests ts ∧
      e = ar.1.root.enter ((World.withPrevious ar.1.w.freshControl (ts.take ar.1.w.cfg.historyCap)).snapshot ar.1.root false false) ∧
      m.replayEnter ts =
        if ts.isEmpty then (m0, false)
        else if ar.2 then (({ ar.1 with root := e.1.clearMarks, w := e.2 } : Mach U).updateActivity, true)
        else (ar.1, false) :=
  ⟨_, _, _, _, rfl, rfl, rfl, rfl, rfl⟩

theorem replayEnter_errLe (m : Mach U) (ts : List Transition) : World.ErrLe m.w (m.replayEnter ts).1.w := by
  obtain ⟨m0, r1, ar, e, h0, h1, h2, h3, heq⟩ := replayEnter_spec m ts
  rw [heq]
  have e0 : World.ErrLe m.w m0.w := by rw [h0]; intro h; simpa using h
  have e1 : World.ErrLe m0.w r1.2 := by
    rw [h1]; intro h; have := (Node.request_ext _ _ _).err h; simpa using this
  have e2 : World.ErrLe r1.2 ar.1.w := by rw [h2]; exact applyRequests_errLe _ _
  split
  · exact e0
  · split
    · refine e0.trans (e1.trans (e2.trans ?_))
      intro h
      simp only [w_updateActivity] at h
      rw [h3] at h
      have := (Node.enter_ext _ _).err h
      simpa [World.withPrevious] using this
    · exact e0.trans (e1.trans e2)

/-- `replayEnter` on an instance that is not activated: activated and settled when it returns `true`;
still not activated when it returns `false` (the marks of its initial resolution then stay behind). -/
theorem replayEnter_inv {base : Node} {m : Mach U} (ts : List Transition) (hi : DormInv base m)
    (he : (m.replayEnter ts).1.w.err = none) :
    ((m.replayEnter ts).2 = true → LiveInv base (m.replayEnter ts).1 ∧ (m.replayEnter ts).1.root.NoMarks) ∧
    ((m.replayEnter ts).2 = false → DormInv base (m.replayEnter ts).1) := by
  obtain ⟨m0, r1, ar, e, h0, h1, h2, h3, heq⟩ := replayEnter_spec m ts
  rw [heq] at he ⊢
  have i0 : DormInv base m0 := by
    rw [h0]
    exact ⟨hi.shape, hi.dorm, hi.good.of_eq (by simp) (by simp) (by simp)⟩
  split at he
  · next hts => rw [if_pos hts]; exact ⟨(fun h => by simp at h), fun _ => i0⟩
  · next hts =>
    rw [if_neg hts]
    have a2 : ar.1.w.err = none := by
      split at he
      · simp only [w_updateActivity] at he
        rw [h3] at he
        have := (Node.enter_ext _ _).err he
        simpa [World.withPrevious] using this
      · exact he
    have a1 : r1.2.err = none := by rw [h2] at a2; exact applyRequests_errLe _ _ a2
    have g0 : ((m0.w.freshControl).snapshot m0.root true false).Good base :=
      (World.Prep.snapshot (w := m0.w) (w' := m0.w.freshControl) true false rfl rfl rfl).good i0.good i0.shape (.inr i0.dorm.clean)
    have v1 : r1.1.view true true false = m0.root.view true true false := by rw [h1]; exact Node.request_view _ _ _ _ _
    have res1 : r1.1.Res := by rw [h1] at a1 ⊢; exact Node.request_res _ _ _ a1
    have d1 : r1.1.DRes := ⟨(Node.clean_congr v1).mpr i0.dorm.clean, res1, (Node.resumableOK_congr v1).mpr i0.dorm.rok⟩
    have s1 : r1.1.SameShape base := (Node.SameShape.of_view v1).trans i0.shape
    have g1 : r1.2.Good base := by rw [h1]; exact g0.ext (Node.request_ext _ _ _)
    have i2 : DResInv base ar.1 := by
      rw [h2] at a2 ⊢
      exact applyRequests_dres ts ⟨s1, d1, g1⟩ a2
    split
    · refine ⟨fun _ => ?_, (fun h => by simp at h)⟩
      obtain ⟨l3, s3⟩ : e.1.Live ∧ e.1.SameShape ar.1.root := by rw [h3]; exact Node.enter_live _ i2.dres
      obtain ⟨l4, n4, s4⟩ := Node.clearMarks_live l3
      refine ⟨⟨by simpa using s4.trans (s3.trans i2.shape), by simpa using l4, ?_⟩, by simpa using n4⟩
      simp only [w_updateActivity]
      rw [h3]
      refine World.Good.ext (World.Prep.good (w := ar.1.w) ⟨?_, ?_, ?_, .inl rfl⟩ i2.good i2.shape (.inr i2.dres.clean))
        (Node.enter_ext _ _)
      all_goals simp [World.withPrevious]
    · exact ⟨(fun h => by simp at h), fun _ => ⟨i2.shape, ⟨i2.dres.clean, i2.dres.rok⟩, i2.good⟩⟩

end Mach
end Hfsm
