/-
C13 (b): what the pending queries answer versus what the commit pass does, one fork at a time.

`Node.lastFork` walks down a path and returns, for the state at its end, the nearest composite ancestor
`C` (its `active / resumable / requested / remain`), the prong `k` of the branch the state lies in, and the
mode `μC` in which the commit pass traverses `C` (`none`: it does not get there).  Then

  * the three queries are `qEnter / qExit / qChange` of `C`'s fields and `k`  (`pending_table`),
  * the state is traversed in mode `μC >>= stepMode · a q rem k`               (`pending_table`),

so "query = outcome" is a finite case analysis over `(μC, a, q, rem, k)`: `PendHyp` is the exact list of
the cases in which all three queries are right (`pending_agree`), everything else is a finding.
-/
import Hfsm.Proofs.QueryOutcome

namespace Hfsm

abbrev Fork := Option Mode × (Option Nat × Option Nat × Option Nat × Bool) × Nat

/-- mode below a fork -/
def Fork.res : Fork → Option Mode
  | (μC, (a, _, q, rem), k) => μC.bind (fun m => stepMode m a q rem k)

/-- `arrive` started in an optional mode -/
def Node.arriveO (cm : Option Mode) (n : Node) (p : List Nat) : Option Mode := cm.bind (fun m => n.arrive m p)

/-- Nearest composite ancestor of the state at path `p`, with the mode in which it is traversed. -/
def Node.lastFork : Option Mode → Node → List Nat → Option Fork → Option Fork
  | _, _, [], acc => acc
  | cm, n, k :: rest, acc =>
    match n.subs.get? k with
    | none => acc
    | some c =>
      match n with
      | .compo _ _ _ _ _ a r q rem _ =>
        Node.lastFork (cm.bind (fun m => stepMode m a q rem k)) c rest (some (cm, (a, r, q, rem), k))
      | _ => Node.lastFork cm c rest acc

theorem Node.lastFork_isSome : ∀ (p : List Nat) (cm : Option Mode) (n : Node) (x : Fork),
    ∃ y, Node.lastFork cm n p (some x) = some y
  | [], _, _, x => ⟨x, rfl⟩
  | k :: rest, cm, n, x => by
    simp only [Node.lastFork]
    cases n.subs.get? k with
    | none => exact ⟨x, rfl⟩
    | some c =>
      cases n with
      | leaf id inj => exact Node.lastFork_isSome rest cm c x
      | compo id rid inj h st a r q rem s => exact Node.lastFork_isSome rest _ c _
      | ortho id rid inj h s => exact Node.lastFork_isSome rest cm c x

/-- The mode in which the state at a valid path is traversed is determined by its nearest composite
ancestor alone: `(mode of the ancestor) >>= stepMode`. -/
theorem Node.arriveO_eq_lastFork : ∀ (p : List Nat) (cm : Option Mode) (n : Node) (acc : Option Fork),
    n.Valid p → (∀ x, acc = some x → cm = x.res) →
    n.arriveO cm p = match Node.lastFork cm n p acc with
      | some x => x.res
      | none => cm
  | [], cm, n, acc, _, hacc => by
    simp only [Node.lastFork]
    cases acc with
    | none => cases cm <;> rfl
    | some x =>
      show n.arriveO cm [] = x.res
      rw [← hacc x rfl]; cases cm <;> rfl
  | k :: rest, cm, n, acc, hv, hacc => by
    obtain ⟨c, hc, hvc⟩ := Node.valid_cons.mp hv
    cases n with
    | leaf id inj => simp [Node.subs, Subs.get?] at hc
    | compo id rid inj h st a r q rem s =>
      simp only [Node.lastFork, hc]
      have ih := Node.arriveO_eq_lastFork rest (cm.bind (fun m => stepMode m a q rem k)) c
        (some (cm, (a, r, q, rem), k)) hvc (by intro x hx; cases hx; rfl)
      obtain ⟨y, hy⟩ := Node.lastFork_isSome rest (cm.bind (fun m => stepMode m a q rem k)) c (cm, (a, r, q, rem), k)
      rw [hy] at ih ⊢
      simp only at ih ⊢
      rw [← ih]
      cases cm with
      | none => rfl
      | some m =>
        simp only [Node.arriveO, Option.bind_some, Node.arrive, hc]
        cases stepMode m a q rem k <;> rfl
    | ortho id rid inj h s =>
      simp only [Node.lastFork, hc]
      have ih := Node.arriveO_eq_lastFork rest cm c acc hvc hacc
      rw [← ih]
      cases cm with
      | none => rfl
      | some m => simp only [Node.arriveO, Option.bind_some, Node.arrive, hc]

/-- `lastFork` forgets the modes to `lastCompo`. -/
theorem Node.lastFork_lastCompo : ∀ (p : List Nat) (cm : Option Mode) (n : Node) (acc : Option Fork),
    (Node.lastFork cm n p acc).map (fun x => (x.2.1, x.2.2)) = Node.lastCompo n p (acc.map (fun x => (x.2.1, x.2.2)))
  | [], _, _, _ => rfl
  | k :: rest, cm, n, acc => by
    simp only [Node.lastFork, Node.lastCompo]
    cases n.subs.get? k with
    | none => rfl
    | some c =>
      cases n with
      | leaf id inj => exact Node.lastFork_lastCompo rest cm c acc
      | compo id rid inj h st a r q rem s => exact Node.lastFork_lastCompo rest _ c _
      | ortho id rid inj h s => exact Node.lastFork_lastCompo rest cm c acc

/-- The queries along a path (the registry functions with the state id resolved to its path). -/
def Node.pendEnterP (n : Node) (p : List Nat) : Bool := Node.nearest qEnter n p false
def Node.pendExitP (n : Node) (p : List Nat) : Bool := Node.nearest qExit n p false
def Node.pendChangeP (n : Node) (p : List Nat) : Bool := Node.nearest qChange n p false
def Node.resumableP (n : Node) (p : List Nat) : Bool := Node.nearest qResumable n p false

/-- **What the code answers and what the pass does, from the same fork.**  For the state at a valid path:
with `(μC, (a, r, q, rem), k)` its nearest composite ancestor — traversal mode, fields, prong —
the three pending queries are the fork tests on `(a, q, k)` and the state is traversed in mode
`μC >>= stepMode · a q rem k`; without a composite ancestor all queries answer `false` and the state is
traversed in the root's mode. -/
theorem Node.pending_table (root : Node) (p : List Nat) (hv : root.Valid p) (m : Mode) :
    match Node.lastFork (some m) root p none with
    | some (μC, (a, r, q, rem), k) =>
        root.pendEnterP p = qEnter a r q k ∧ root.pendExitP p = qExit a r q k ∧
        root.pendChangeP p = qChange a r q k ∧ root.resumableP p = qResumable a r q k ∧
        root.arrive m p = μC.bind (fun mc => stepMode mc a q rem k)
    | none =>
        root.pendEnterP p = false ∧ root.pendExitP p = false ∧ root.pendChangeP p = false ∧
        root.resumableP p = false ∧ root.arrive m p = some m := by
  have harr := Node.arriveO_eq_lastFork p (some m) root none hv (by intro x hx; cases hx)
  have hlc := Node.lastFork_lastCompo p (some m) root none
  have hn := fun f => Node.nearest_eq_lastCompo f p root false none
  simp only [Option.map_none] at hlc
  cases hF : Node.lastFork (some m) root p none with
  | none =>
    rw [hF] at harr hlc
    simp only [Option.map_none] at hlc
    simp only [Node.pendEnterP, Node.pendExitP, Node.pendChangeP, Node.resumableP]
    have h1 := hn qEnter; have h2 := hn qExit; have h3 := hn qChange; have h4 := hn qResumable
    rw [← hlc] at h1 h2 h3 h4
    exact ⟨h1, h2, h3, h4, harr⟩
  | some x =>
    obtain ⟨μC, ⟨a, r, q, rem⟩, k⟩ := x
    rw [hF] at harr hlc
    simp only [Option.map_some] at hlc
    simp only [Node.pendEnterP, Node.pendExitP, Node.pendChangeP, Node.resumableP]
    have h1 := hn qEnter; have h2 := hn qExit; have h3 := hn qChange; have h4 := hn qResumable
    rw [← hlc] at h1 h2 h3 h4
    exact ⟨h1, h2, h3, h4, harr⟩

/-! ### query = outcome, fork by fork -/

/-- All three queries are right for a sub-state `k` of a fork `(a, q, rem)` traversed in mode `μC`. -/
def agree (μC : Option Mode) (a q : Option Nat) (rem : Bool) (k : Nat) : Bool :=
  let μ := μC.bind (fun m => stepMode m a q rem k)
  (qEnter a none q k == entered μ) && (qExit a none q k == exited μ) &&
    (qChange a none q k == (entered μ || exited μ))

/-- The structural situations in which they are — EXACTLY these (`pendHyp_iff_agree`):
* the fork is not reached by the pass: it carries no mark different from its active prong;
* it is reached by forwarding (all its ancestors forward): it carries a request, which is either a switch
  and `k` is the sub-state left or the sub-state entered, or a re-entry (`requested = active`) that is not
  a restart in place of `k`;
* it is being entered: `k` is not its (stale) active prong and is its requested sub-state, or nothing is marked;
* it is being exited: `k` is its active sub-state and not its requested one, or nothing is marked;
* it is restarted / re-entered by an ancestor: `k` is the sub-state left or entered of a switch. -/
def PendHyp (μC : Option Mode) (a q : Option Nat) (rem : Bool) (k : Nat) : Bool :=
  match μC with
  | none => q == a
  | some .commit =>
    match a, q with
    | none, none => true
    | some ai, some qi => if qi = ai then !(rem && k == ai) else (k == ai || k == qi)
    | _, _ => false
  | some .enter => a != some k && (q == some k || q == a)
  | some .exit => if a == some k then q != some k else q == a
  | some .restart => if a == some k then q != some k else (q == some k || q == a)
  | some .reenter =>
    match a, q with
    | some ai, some qi => if ai = qi then true else (k == ai || k == qi)
    | _, _ => q == a

section
local macro "evalq" : tactic =>
  `(tactic| simp (config := { decide := true }) [PendHyp, agree, stepMode, qEnter, qExit, qChange, entered, exited, bne, *])

theorem pendHyp_iff_agree (μC : Option Mode) (a q : Option Nat) (rem : Bool) (k : Nat) :
    PendHyp μC a q rem k = agree μC a q rem k := by
  cases a with
  | none =>
    cases q with
    | none => cases μC with
      | none => evalq
      | some m => cases m <;> evalq
    | some qi =>
      by_cases h2 : k = qi
      · subst h2
        cases μC with
        | none => evalq
        | some m => cases m <;> evalq
      · have h2' : ¬ qi = k := fun h => h2 h.symm
        have b1 : (k == qi) = false := by simpa using h2
        have b2 : (qi == k) = false := by simpa using h2'
        cases μC with
        | none => evalq
        | some m => cases m <;> evalq
  | some ai =>
    cases q with
    | none =>
      by_cases h1 : k = ai
      · subst h1
        cases μC with
        | none => evalq
        | some m => cases m <;> evalq
      · have h1' : ¬ ai = k := fun h => h1 h.symm
        have b1 : (k == ai) = false := by simpa using h1
        have b2 : (ai == k) = false := by simpa using h1'
        cases μC with
        | none => evalq
        | some m => cases m <;> evalq
    | some qi =>
      by_cases h1 : k = ai
      · subst h1
        by_cases h2 : k = qi
        · subst h2
          cases μC with
          | none => evalq
          | some m => cases m <;> cases rem <;> evalq
        · have h2' : ¬ qi = k := fun h => h2 h.symm
          have b1 : (k == qi) = false := by simpa using h2
          have b2 : (qi == k) = false := by simpa using h2'
          cases μC with
          | none => evalq
          | some m => cases m <;> cases rem <;> evalq
      · have h1' : ¬ ai = k := fun h => h1 h.symm
        have b1 : (k == ai) = false := by simpa using h1
        have b2 : (ai == k) = false := by simpa using h1'
        by_cases h2 : k = qi
        · subst h2
          cases μC with
          | none => evalq
          | some m => cases m <;> cases rem <;> evalq
        · have h2' : ¬ qi = k := fun h => h2 h.symm
          have b3 : (k == qi) = false := by simpa using h2
          have b4 : (qi == k) = false := by simpa using h2'
          by_cases h3 : ai = qi
          · subst h3
            cases μC with
            | none => evalq
            | some m => cases m <;> cases rem <;> evalq
          · have h3' : ¬ qi = ai := fun h => h3 h.symm
            have b5 : (ai == qi) = false := by simpa using h3
            have b6 : (qi == ai) = false := by simpa using h3'
            cases μC with
            | none => evalq
            | some m => cases m <;> cases rem <;> evalq
end

end Hfsm
