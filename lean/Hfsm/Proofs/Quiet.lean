/-
Quiet updates: when no callback does anything (every decision is the empty list) and no plan exists,
the update passes and the plan pass leave the request queue as it was.  Used by Props/C05.lean for
"`update()` with an empty queue and idle callbacks leaves the registry unchanged".
-/
import Hfsm.Proofs.DispatchMach

namespace Hfsm
variable {U : Type}

/-- no callback still to come does anything -/
def World.Quiet (w : World U) : Prop := ∀ d ∈ w.ds, d = []

/-- request queue, plan-existence mask, configuration -/
def World.rq (w : World U) : List Transition × Nat × Config := (w.requests, w.planExists, w.cfg)

namespace World

theorem rq_fail' (w : World U) (msg : String) : (w.fail' msg).rq = w.rq ∧ (w.fail' msg).ds = w.ds := by
  unfold World.fail'; split <;> exact ⟨rfl, rfl⟩

theorem rq_logRec (w : World U) (r : LogRec U) : (w.logRec r).rq = w.rq ∧ (w.logRec r).ds = w.ds := by
  unfold World.logRec; split <;> exact ⟨rfl, rfl⟩

theorem quiet_invoke (w : World U) (sid : Nat) (m : Method) (slot : Nat) (hq : w.Quiet) :
    (w.invoke sid m slot).1.rq = w.rq ∧ (w.invoke sid m slot).1.Quiet := by
  unfold World.invoke
  cases hds : w.ds with
  | nil =>
    simp only
    refine ⟨(rq_fail' w _).1, ?_⟩
    unfold Quiet; rw [(rq_fail' w _).2, hds]; simp
  | cons d rest =>
    have hd : d = [] := hq d (by rw [hds]; simp)
    subst hd
    simp only [List.foldl_nil]
    refine ⟨rfl, ?_⟩
    intro d' hd'
    exact hq d' (by rw [hds]; exact List.mem_cons_of_mem _ hd')

theorem quiet_invokeSlots (sid : Nat) (m : Method) : (l : List Nat) → (w : World U) → w.Quiet →
    (w.invokeSlots sid m l).rq = w.rq ∧ (w.invokeSlots sid m l).Quiet
  | [], w, hq => ⟨rfl, hq⟩
  | s :: rest, w, hq => by
    rw [World.invokeSlots]
    have h1 := quiet_invoke w sid m s hq
    have h2 := quiet_invokeSlots sid m rest _ h1.2
    exact ⟨h2.1.trans h1.1, h2.2⟩

theorem quiet_stateMethod (w : World U) (sid inj : Nat) (h : Bool) (m : Method) (hq : w.Quiet) :
    (w.stateMethod sid inj h m).rq = w.rq ∧ (w.stateMethod sid inj h m).Quiet := by
  unfold World.stateMethod
  dsimp only
  have h0 : (if (h || w.cfg.verbose) = true then w.logRec (.method sid m) else w).rq = w.rq ∧
      (if (h || w.cfg.verbose) = true then w.logRec (.method sid m) else w).Quiet := by
    split
    · refine ⟨(rq_logRec w _).1, ?_⟩
      unfold Quiet; rw [(rq_logRec w _).2]; exact hq
    · exact ⟨rfl, hq⟩
  split
  · have h1 := quiet_invokeSlots sid m (slotOrder inj m)
      { (if (h || w.cfg.verbose) = true then w.logRec (.method sid m) else w) with origin := some sid } h0.2
    exact ⟨h1.1.trans h0.1, h1.2⟩
  · exact h0

theorem quiet_runState (w : World U) (sid inj : Nat) (h : Bool) (m : Method) (hq : w.Quiet) :
    (w.runState sid inj h m).1.rq = w.rq ∧ (w.runState sid inj h m).1.Quiet :=
  quiet_stateMethod w sid inj h m hq

theorem quiet_orHead (w : World U) (r : Nat) (s : TaskStatus) (hq : w.Quiet) :
    (w.orHead r s).rq = w.rq ∧ (w.orHead r s).Quiet := by
  unfold World.orHead; split <;> exact ⟨rfl, hq⟩

theorem quiet_orSub (w : World U) (r : Nat) (s : TaskStatus) (hq : w.Quiet) :
    (w.orSub r s).rq = w.rq ∧ (w.orSub r s).Quiet := by
  unfold World.orSub; split <;> exact ⟨rfl, hq⟩

end World

mutual
theorem Node.quiet_tick (ph : Method) : (n : Node) → (w : World U) → w.Quiet →
    (n.tick ph w).1.rq = w.rq ∧ (n.tick ph w).1.Quiet
  | .leaf id inj, w, hq => by simp only [Node.tick]; exact World.quiet_runState w id inj true ph hq
  | .compo id rid inj h st a r q m s, w, hq => by
    cases a with
    | none =>
      simp only [Node.tick]
      refine ⟨(World.rq_fail' w _).1, ?_⟩
      unfold World.Quiet; rw [(World.rq_fail' w _).2]; exact hq
    | some ai =>
      have h0 : (w.pushRegion rid id (1 + s.size)).1.Quiet := hq
      by_cases hp : ph = .postUpdate
      · simp only [Node.tick, hp, if_true]
        have h1 := Subs.quiet_tickAt .postUpdate s ai _ h0
        have h2 := World.quiet_orSub _ rid (s.tickAt .postUpdate ai (w.pushRegion rid id (1 + s.size)).1).2 h1.2
        have h3 := World.quiet_runState _ id inj h .postUpdate h2.2
        have h4 := World.quiet_orHead _ rid
          (((s.tickAt .postUpdate ai (w.pushRegion rid id (1 + s.size)).1).1.orSub rid
            (s.tickAt .postUpdate ai (w.pushRegion rid id (1 + s.size)).1).2).runState id inj h .postUpdate).2 h3.2
        exact ⟨h4.1.trans (h3.1.trans (h2.1.trans h1.1)), h4.2⟩
      · simp only [Node.tick, hp, if_false]
        have h1 := World.quiet_runState _ id inj h ph h0
        have h2 := World.quiet_orHead _ rid ((w.pushRegion rid id (1 + s.size)).1.runState id inj h ph).2 h1.2
        have h3 := Subs.quiet_tickAt ph s ai _ h2.2
        have h4 := World.quiet_orSub _ rid
          (s.tickAt ph ai (((w.pushRegion rid id (1 + s.size)).1.runState id inj h ph).1.orHead rid
            ((w.pushRegion rid id (1 + s.size)).1.runState id inj h ph).2)).2 h3.2
        exact ⟨h4.1.trans (h3.1.trans (h2.1.trans h1.1)), h4.2⟩
  | .ortho id rid inj h s, w, hq => by
    have h0 : (w.pushRegion rid id (1 + s.size)).1.Quiet := hq
    by_cases hp : ph = .postUpdate
    · simp only [Node.tick, hp, if_true]
      have h1 := Subs.quiet_tickAll .postUpdate s _ h0
      have h2 := World.quiet_orSub _ rid (s.tickAll .postUpdate (w.pushRegion rid id (1 + s.size)).1).2 h1.2
      have h3 := World.quiet_runState _ id inj h .postUpdate h2.2
      have h4 := World.quiet_orHead _ rid
        (((s.tickAll .postUpdate (w.pushRegion rid id (1 + s.size)).1).1.orSub rid
          (s.tickAll .postUpdate (w.pushRegion rid id (1 + s.size)).1).2).runState id inj h .postUpdate).2 h3.2
      exact ⟨h4.1.trans (h3.1.trans (h2.1.trans h1.1)), h4.2⟩
    · simp only [Node.tick, hp, if_false]
      have h1 := World.quiet_runState _ id inj h ph h0
      have h2 := World.quiet_orHead _ rid ((w.pushRegion rid id (1 + s.size)).1.runState id inj h ph).2 h1.2
      have h3 := Subs.quiet_tickAll ph s _ h2.2
      have h4 := World.quiet_orSub _ rid
        (s.tickAll ph (((w.pushRegion rid id (1 + s.size)).1.runState id inj h ph).1.orHead rid
          ((w.pushRegion rid id (1 + s.size)).1.runState id inj h ph).2)).2 h3.2
      exact ⟨h4.1.trans (h3.1.trans (h2.1.trans h1.1)), h4.2⟩
theorem Subs.quiet_tickAt (ph : Method) : (s : Subs) → (i : Nat) → (w : World U) → w.Quiet →
    (s.tickAt ph i w).1.rq = w.rq ∧ (s.tickAt ph i w).1.Quiet
  | .nil, _, w, hq => by
    simp only [Subs.tickAt]
    refine ⟨(World.rq_fail' w _).1, ?_⟩
    unfold World.Quiet; rw [(World.rq_fail' w _).2]; exact hq
  | .cons _ n _, 0, w, hq => by simp only [Subs.tickAt]; exact Node.quiet_tick ph n w hq
  | .cons _ _ r, i+1, w, hq => by simp only [Subs.tickAt]; exact Subs.quiet_tickAt ph r i w hq
theorem Subs.quiet_tickAll (ph : Method) : (s : Subs) → (w : World U) → w.Quiet →
    (s.tickAll ph w).1.rq = w.rq ∧ (s.tickAll ph w).1.Quiet
  | .nil, w, hq => ⟨rfl, hq⟩
  | .cons _ n r, w, hq => by
    simp only [Subs.tickAll]
    have h1 := Node.quiet_tick ph n w hq
    have h2 := Subs.quiet_tickAll ph r _ h1.2
    exact ⟨h2.1.trans h1.1, h2.2⟩
end

/-! ### the plan pass without plans -/

mutual
theorem Node.updatePlans_noPlan : (n : Node) → (w : World U) → w.planExists = 0 →
    (n.updatePlans w).1.rq = w.rq
  | .leaf id inj, w, _ => rfl
  | .compo id rid inj h st a r q m s, w, hp => by
    cases a with
    | none => simp only [Node.updatePlans]; exact (World.rq_fail' w _).1
    | some ai =>
      have h1 := Subs.updatePlansAt_noPlan s ai w hp
      have hb : World.bit (s.updatePlansAt ai w).1.planExists rid = false := by
        have : (s.updatePlansAt ai w).1.planExists = 0 := by
          have := congrArg (fun x => x.2.1) h1; simpa [World.rq, hp] using this
        rw [this]; simp [World.bit]
      simp only [Node.updatePlans]
      repeat' split
      all_goals first
        | exact h1
        | (simp only [World.pushRegion] at *; simp_all [World.rq])
  | .ortho id rid inj h s, w, hp => by
    have h1 := Subs.updatePlansAll_noPlan s w hp
    have hb : World.bit (s.updatePlansAll w).1.planExists rid = false := by
      have : (s.updatePlansAll w).1.planExists = 0 := by
        have := congrArg (fun x => x.2.1) h1; simpa [World.rq, hp] using this
      rw [this]; simp [World.bit]
    simp only [Node.updatePlans]
    repeat' split
    all_goals first
      | exact h1
      | (simp only [World.pushRegion] at *; simp_all [World.rq])
theorem Subs.updatePlansAt_noPlan : (s : Subs) → (i : Nat) → (w : World U) → w.planExists = 0 →
    (s.updatePlansAt i w).1.rq = w.rq
  | .nil, _, w, _ => by simp only [Subs.updatePlansAt]; exact (World.rq_fail' w _).1
  | .cons _ n _, 0, w, hp => by simp only [Subs.updatePlansAt]; exact Node.updatePlans_noPlan n w hp
  | .cons _ _ r, i+1, w, hp => by simp only [Subs.updatePlansAt]; exact Subs.updatePlansAt_noPlan r i w hp
theorem Subs.updatePlansAll_noPlan : (s : Subs) → (w : World U) → w.planExists = 0 →
    (s.updatePlansAll w).1.rq = w.rq
  | .nil, w, _ => rfl
  | .cons _ n r, w, hp => by
    simp only [Subs.updatePlansAll]
    have h1 := Node.updatePlans_noPlan n w hp
    have hp1 : (n.updatePlans w).1.planExists = 0 := by
      have := congrArg (fun x => x.2.1) h1; simpa [World.rq, hp] using this
    exact (Subs.updatePlansAll_noPlan r _ hp1).trans h1
end

/-! ### the instance -/

theorem Mach.processRequest_root_of_empty [UtilArith U] (m : Mach U) (h : m.w.requests = []) :
    m.processRequest.root = m.root := by
  unfold Mach.processRequest
  have : m.w.clearTargets.requests = [] := by
    unfold World.clearTargets; split <;> exact h
  simp [this]

theorem Mach.tickPasses_quiet (m : Mach U) (hq : m.w.Quiet) :
    m.tickPasses.rq = m.w.rq ∧ m.tickPasses.Quiet := by
  unfold Mach.tickPasses
  have h0 : m.passStart.Quiet := hq
  have h1 := Node.quiet_tick .preUpdate m.root _ h0
  have h2 := Node.quiet_tick .update m.root _ h1.2
  have h3 := Node.quiet_tick .postUpdate m.root _ h2.2
  exact ⟨h3.1.trans (h2.1.trans h1.1), h3.2⟩

theorem Mach.update_quiet_root [UtilArith U] (m : Mach U) (hr : m.w.requests = []) (hq : m.w.Quiet)
    (hp : m.w.cfg.plans = false ∨ m.w.planExists = 0) : m.update.root = m.root := by
  rw [Mach.update_eq_finish]
  unfold Mach.finishStep
  dsimp only
  have h1 := (Mach.tickPasses_quiet m hq).1
  have e1 : m.tickPasses.requests = [] := by
    have := congrArg (fun x => x.1) h1; simpa [World.rq, hr] using this
  have e2 : m.tickPasses.planExists = m.w.planExists := congrArg (fun x => x.2.1) h1
  have e3 : m.tickPasses.cfg = m.w.cfg := congrArg (fun x => x.2.2) h1
  rw [Mach.processRequest_root_of_empty]
  split
  · rename_i hpl
    rw [e3] at hpl
    rcases hp with hp | hp
    · rw [hp] at hpl; exact absurd hpl (by simp)
    · have := Node.updatePlans_noPlan m.root m.tickPasses (by rw [e2, hp])
      have := congrArg (fun x => x.1) this
      simpa [World.rq, World.clearStatuses, e1] using this
  · exact e1

end Hfsm
