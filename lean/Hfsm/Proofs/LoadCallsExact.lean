/-
Exactness of the call lists of `load`, for trees whose state ids are pairwise distinct (true of every
instance: `Shape.toNode` numbers the states in pre-order): a state that `load` exits is NOT active
afterwards and a state it enters was NOT active before.  Together with `CallsSpec` (Proofs/LoadCalls.lean):
the set of exited states is exactly (visible) `active dst \ active src`, the set of entered ones exactly
`active src \ active dst`.
-/
import Hfsm.Proofs.LoadCalls

namespace Hfsm

mutual
/-- all state ids of a sub-tree, pre-order -/
def Node.allIds : Node → List Nat
  | .leaf id _ => [id]
  | .compo id _ _ _ _ _ _ _ _ s => id :: s.allIds
  | .ortho id _ _ _ s => id :: s.allIds
def Subs.allIds : Subs → List Nat
  | .nil => []
  | .cons _ n r => n.allIds ++ r.allIds
end

/-- ids of the `i`-th sub-state's sub-tree -/
def Subs.allIdsAt : Subs → Nat → List Nat
  | .nil, _ => []
  | .cons _ n _, 0 => n.allIds
  | .cons _ _ r, i+1 => r.allIdsAt i

mutual
theorem Node.allIds_cleared : (n : Node) → n.cleared.allIds = n.allIds
  | .leaf .. => rfl
  | .compo _ _ _ _ _ _ _ _ _ s => by simp only [Node.cleared, Node.allIds]; rw [Subs.allIds_cleared s]
  | .ortho _ _ _ _ s => by simp only [Node.cleared, Node.allIds]; rw [Subs.allIds_cleared s]
theorem Subs.allIds_cleared : (s : Subs) → s.cleared.allIds = s.allIds
  | .nil => rfl
  | .cons _ n r => by simp only [Subs.cleared, Subs.allIds]; rw [Node.allIds_cleared n, Subs.allIds_cleared r]
end

theorem Node.allIds_sameShape {a b : Node} (h : a.sameShape b) : a.allIds = b.allIds := by
  rw [← Node.allIds_cleared a, ← Node.allIds_cleared b]; exact congrArg Node.allIds h

theorem Subs.allIds_sameShape {a b : Subs} (h : a.sameShape b) : a.allIds = b.allIds := by
  rw [← Subs.allIds_cleared a, ← Subs.allIds_cleared b]; exact congrArg Subs.allIds h

theorem Subs.allIdsAt_sameShape : (a b : Subs) → a.sameShape b → (i : Nat) → a.allIdsAt i = b.allIdsAt i
  | .nil, .nil, _, _ => rfl
  | .nil, .cons .., h, _ => by simp [Subs.sameShape, Subs.cleared] at h
  | .cons .., .nil, h, _ => by simp [Subs.sameShape, Subs.cleared] at h
  | .cons _ n r, .cons _ n' r', h, 0 => Node.allIds_sameShape (Subs.sameShape_cons h).1
  | .cons _ n r, .cons _ n' r', h, i+1 => Subs.allIdsAt_sameShape r r' (Subs.sameShape_cons h).2 i

theorem Subs.allIdsAt_sub : (s : Subs) → (i x : Nat) → x ∈ s.allIdsAt i → x ∈ s.allIds
  | .nil, _, _, h => by simp [Subs.allIdsAt] at h
  | .cons _ n r, 0, x, h => List.mem_append.mpr (Or.inl h)
  | .cons _ n r, i+1, x, h => List.mem_append.mpr (Or.inr (Subs.allIdsAt_sub r i x h))

/-- distinct sub-states have disjoint id sets -/
theorem Subs.allIdsAt_disjoint : (s : Subs) → s.allIds.Nodup → (i j x : Nat) → i ≠ j →
    x ∈ s.allIdsAt i → x ∉ s.allIdsAt j
  | .nil, _, _, _, _, _, h => by simp [Subs.allIdsAt] at h
  | .cons _ n r, _, 0, 0, _, hne, _ => absurd rfl hne
  | .cons _ n r, hnd, 0, j+1, x, _, h => by
    simp only [Subs.allIds] at hnd
    intro h'
    exact (List.nodup_append.mp hnd).2.2 x h x (Subs.allIdsAt_sub r j x h') rfl
  | .cons _ n r, hnd, i+1, 0, x, _, h => by
    simp only [Subs.allIds] at hnd
    intro h'
    exact (List.nodup_append.mp hnd).2.2 x h' x (Subs.allIdsAt_sub r i x h) rfl
  | .cons _ n r, hnd, i+1, j+1, x, hne, h => by
    simp only [Subs.allIds] at hnd
    exact Subs.allIdsAt_disjoint r (List.nodup_append.mp hnd).2.1 i j x (by omega) h

mutual
theorem Node.activeVis_sub (v : Bool → Bool) : (n : Node) → (x : Nat) → x ∈ n.activeVis v → x ∈ n.allIds
  | .leaf id _, x, h => by
    simp only [Node.activeVis, mem_idIf] at h
    simp [Node.allIds, h.2]
  | .compo id _ _ hd _ a _ _ _ s, x, h => by
    cases a with
    | none => simp [Node.activeVis] at h
    | some ai =>
      simp only [Node.activeVis, List.mem_append, mem_idIf] at h
      simp only [Node.allIds, List.mem_cons]
      rcases h with h | h
      · exact Or.inl h.2
      · exact Or.inr (Subs.allIdsAt_sub s ai x (Subs.activeVisAt_sub v s ai x h))
  | .ortho id _ _ hd s, x, h => by
    simp only [Node.activeVis, List.mem_append, mem_idIf] at h
    simp only [Node.allIds, List.mem_cons]
    rcases h with h | h
    · exact Or.inl h.2
    · exact Or.inr (Subs.activeVisAll_sub v s x h)
theorem Subs.activeVisAt_sub (v : Bool → Bool) : (s : Subs) → (i x : Nat) → x ∈ s.activeVisAt v i → x ∈ s.allIdsAt i
  | .nil, _, _, h => by simp [Subs.activeVisAt] at h
  | .cons _ n r, 0, x, h => Node.activeVis_sub v n x h
  | .cons _ n r, i+1, x, h => Subs.activeVisAt_sub v r i x h
theorem Subs.activeVisAll_sub (v : Bool → Bool) : (s : Subs) → (x : Nat) → x ∈ s.activeVisAll v → x ∈ s.allIds
  | .nil, _, h => by simp [Subs.activeVisAll] at h
  | .cons _ n r, x, h => by
    simp only [Subs.activeVisAll, List.mem_append] at h
    simp only [Subs.allIds, List.mem_append]
    rcases h with h | h
    · exact Or.inl (Node.activeVis_sub v n x h)
    · exact Or.inr (Subs.activeVisAll_sub v r x h)
end

/-! ### the exactness half of the specification

`U` = ids of the sub-tree(s) the calls come from, `ad` / `az` = states active before / afterwards. -/

def CallsExact (cs : List LifeCall) (U ad az : List Nat) : Prop :=
  ∀ c ∈ cs, c.1 ∈ U ∧ (c.2 = .exit → c.1 ∉ az) ∧ (c.2 = .enter → c.1 ∉ ad)

theorem CallsExact.nil (U ad az : List Nat) : CallsExact [] U ad az := by intro c h; cases h

theorem CallsExact.mono {cs : List LifeCall} {U U' ad az : List Nat} (h : CallsExact cs U ad az)
    (hU : ∀ x ∈ U, x ∈ U') : CallsExact cs U' ad az :=
  fun c hc => ⟨hU _ (h c hc).1, (h c hc).2⟩

theorem CallsExact.head {cs : List LifeCall} {U ad az : List Nat} (id : Nat) (pre : List LifeCall)
    (hpre : ∀ c ∈ pre, c = (id, Method.reenter)) (hid : id ∉ U) (h : CallsExact cs U ad az) :
    CallsExact (pre ++ cs) (id :: U) (idIf true id ++ ad) (idIf true id ++ az) := by
  intro c hc
  rcases List.mem_append.mp hc with hp | hc
  · rw [hpre c hp]
    exact ⟨List.mem_cons_self, (fun e => by cases e), (fun e => by cases e)⟩
  · obtain ⟨h1, h2, h3⟩ := h c hc
    have hne : c.1 ≠ id := fun e => hid (e ▸ h1)
    refine ⟨List.mem_cons_of_mem _ h1, ?_, ?_⟩
    · intro e hm
      rcases List.mem_append.mp hm with hm | hm
      · exact hne (mem_idIf.mp hm).2
      · exact h2 e hm
    · intro e hm
      rcases List.mem_append.mp hm with hm | hm
      · exact hne (mem_idIf.mp hm).2
      · exact h3 e hm

theorem CallsExact.union {c1 c2 : List LifeCall} {U1 a1 z1 U2 a2 z2 : List Nat}
    (h1 : CallsExact c1 U1 a1 z1) (h2 : CallsExact c2 U2 a2 z2)
    (ha1 : ∀ x ∈ a1, x ∈ U1) (hz1 : ∀ x ∈ z1, x ∈ U1) (ha2 : ∀ x ∈ a2, x ∈ U2) (hz2 : ∀ x ∈ z2, x ∈ U2)
    (hdis : ∀ x ∈ U1, x ∉ U2) :
    CallsExact (c1 ++ c2) (U1 ++ U2) (a1 ++ a2) (z1 ++ z2) := by
  intro c hc
  rcases List.mem_append.mp hc with hc | hc
  · obtain ⟨hu, he, hn⟩ := h1 c hc
    refine ⟨List.mem_append.mpr (Or.inl hu), ?_, ?_⟩
    · intro e hm
      rcases List.mem_append.mp hm with hm | hm
      · exact he e hm
      · exact hdis _ hu (hz2 _ hm)
    · intro e hm
      rcases List.mem_append.mp hm with hm | hm
      · exact hn e hm
      · exact hdis _ hu (ha2 _ hm)
  · obtain ⟨hu, he, hn⟩ := h2 c hc
    refine ⟨List.mem_append.mpr (Or.inr hu), ?_, ?_⟩
    · intro e hm
      rcases List.mem_append.mp hm with hm | hm
      · exact hdis _ (hz1 _ hm) hu
      · exact he e hm
    · intro e hm
      rcases List.mem_append.mp hm with hm | hm
      · exact hdis _ (ha1 _ hm) hu
      · exact hn e hm

/-- the switch: what is exited lies below the old prong, what is entered below the new one -/
theorem Subs.switch_exact (v : Bool → Bool) (ds ss : Subs) (ai si : Nat) (hne : ai ≠ si) (hss : ds.sameShape ss)
    (hsa : ss.ActAt si) (hnd : ds.allIds.Nodup) :
    CallsExact ((ds.mergeReqAt ss si).exitCallsAt v ai ++ ((ds.mergeReqAt ss si).exitAtT ai).enterCallsAt v si)
      ds.allIds (ds.activeIdsAt ai) (ss.activeIdsAt si) := by
  intro c hc
  rcases List.mem_append.mp hc with hc | hc
  · rw [Subs.mem_exitCallsAt, Subs.activeVisAt_mergeReqAt] at hc
    have hx := Subs.activeVisAt_sub v ds ai c.1 hc.2
    refine ⟨Subs.allIdsAt_sub ds ai _ hx, ?_, ?_⟩
    · intro _ hm
      have hy := Subs.activeVisAt_sub _ ss si c.1 hm
      rw [← Subs.allIdsAt_sameShape ds ss hss si] at hy
      exact Subs.allIdsAt_disjoint ds hnd ai si c.1 hne hx hy
    · intro e; rw [hc.1] at e; cases e
  · rw [Subs.enterCallsAt_exitAtT, Subs.mem_enterCallsAt_mergeReqAt v ds ss si hss hsa c] at hc
    have hy := Subs.activeVisAt_sub v ss si c.1 hc.2
    rw [← Subs.allIdsAt_sameShape ds ss hss si] at hy
    refine ⟨Subs.allIdsAt_sub ds si _ hy, ?_, ?_⟩
    · intro e; rw [hc.1] at e; cases e
    · intro _ hm
      have hx := Subs.activeVisAt_sub _ ds ai c.1 hm
      exact Subs.allIdsAt_disjoint ds hnd ai si c.1 hne hx hy

theorem Node.nodup_compo {id : Nat} {s : Subs} (h : (id :: s.allIds).Nodup) : id ∉ s.allIds ∧ s.allIds.Nodup :=
  List.nodup_cons.mp h

mutual
theorem Node.reenter_exact (v : Bool → Bool) : (d s : Node) → d.sameShape s → d.Act → s.Act → d.allIds.Nodup →
    CallsExact ((d.mergeReq s).reenterCalls v) d.allIds d.activeIds s.activeIds
  | .leaf id _, .leaf _ _, h, _, _, _ => by
    simp only [Node.sameShape, Node.cleared, Node.leaf.injEq] at h
    obtain ⟨rfl, rfl⟩ := h
    intro c hc
    simp only [Node.mergeReq, Node.reenterCalls, mem_callIf] at hc
    rw [hc.2]
    exact ⟨by simp [Node.allIds], (fun e => by cases e), (fun e => by cases e)⟩
  | .leaf .., .compo .., h, _, _, _ => by simp [Node.sameShape, Node.cleared] at h
  | .leaf .., .ortho .., h, _, _, _ => by simp [Node.sameShape, Node.cleared] at h
  | .compo .., .leaf .., h, _, _, _ => by simp [Node.sameShape, Node.cleared] at h
  | .compo .., .ortho .., h, _, _, _ => by simp [Node.sameShape, Node.cleared] at h
  | .ortho .., .leaf .., h, _, _, _ => by simp [Node.sameShape, Node.cleared] at h
  | .ortho .., .compo .., h, _, _, _ => by simp [Node.sameShape, Node.cleared] at h
  | .compo id _ _ hd _ a _ _ _ ds, .compo _ _ _ _ _ a' _ _ _ ss, h, hda, hsa, hnd => by
    obtain ⟨rfl, rfl, rfl, rfl, rfl, hss⟩ := Node.sameShape_compo h
    simp only [Node.allIds] at hnd
    obtain ⟨hid, hnds⟩ := Node.nodup_compo hnd
    cases a' with
    | none => simp [Node.Act] at hsa
    | some si =>
      cases a with
      | none => simp [Node.Act] at hda
      | some ai =>
        simp only [Node.Act] at hsa hda
        simp only [Node.mergeReq, Node.reenterCalls, Node.activeVis, Node.activeIds, Node.allIds, Option.getD_some]
        apply CallsExact.head id _ (fun c hc => (mem_callIf.mp hc).2) hid
        by_cases e : ai = si
        · subst e
          simp only [if_true]
          exact (Subs.reenterAt_exact v ds ss ai hss hda hsa hnds).mono (Subs.allIdsAt_sub ds ai)
        · simp only [e, if_false]
          exact Subs.switch_exact v ds ss ai si e hss hsa hnds
  | .ortho id _ _ hd ds, .ortho _ _ _ _ ss, h, hda, hsa, hnd => by
    obtain ⟨rfl, rfl, rfl, rfl, hss⟩ := Node.sameShape_ortho h
    simp only [Node.allIds] at hnd
    obtain ⟨hid, hnds⟩ := Node.nodup_compo hnd
    simp only [Node.Act] at hsa hda
    simp only [Node.mergeReq, Node.reenterCalls, Node.activeVis, Node.activeIds, Node.allIds]
    apply CallsExact.head id _ (fun c hc => (mem_callIf.mp hc).2) hid
    exact Subs.reenterAll_exact v ds ss hss hda hsa hnds
theorem Subs.reenterAt_exact (v : Bool → Bool) : (d s : Subs) → (i : Nat) → d.sameShape s → d.ActAt i → s.ActAt i →
    d.allIds.Nodup →
    CallsExact ((d.mergeReqAt s i).reenterCallsAt v i) (d.allIdsAt i) (d.activeIdsAt i) (s.activeIdsAt i)
  | .nil, .nil, _, _, ha, _, _ => by simp [Subs.ActAt] at ha
  | .nil, .cons .., _, h, _, _, _ => by simp [Subs.sameShape, Subs.cleared] at h
  | .cons .., .nil, _, h, _, _, _ => by simp [Subs.sameShape, Subs.cleared] at h
  | .cons _ n r, .cons _ n' r', 0, h, hda, hsa, hnd => by
    obtain ⟨hn, _⟩ := Subs.sameShape_cons h
    simp only [Subs.ActAt] at hda hsa
    simp only [Subs.allIds] at hnd
    simp only [Subs.mergeReqAt, Subs.reenterCallsAt, Subs.allIdsAt, Subs.activeIdsAt, Subs.activeVisAt]
    exact Node.reenter_exact v n n' hn hda.1 hsa.1 (List.nodup_append.mp hnd).1
  | .cons _ n r, .cons _ n' r', i+1, h, hda, hsa, hnd => by
    obtain ⟨_, hrr⟩ := Subs.sameShape_cons h
    simp only [Subs.ActAt] at hda hsa
    simp only [Subs.allIds] at hnd
    simp only [Subs.mergeReqAt, Subs.reenterCallsAt, Subs.allIdsAt, Subs.activeIdsAt, Subs.activeVisAt]
    exact Subs.reenterAt_exact v r r' i hrr hda.2 hsa.2 (List.nodup_append.mp hnd).2.1
theorem Subs.reenterAll_exact (v : Bool → Bool) : (d s : Subs) → d.sameShape s → d.ActAll → s.ActAll →
    d.allIds.Nodup →
    CallsExact ((d.mergeReqAll s).reenterCallsAll v) d.allIds d.activeIdsAll s.activeIdsAll
  | .nil, .nil, _, _, _, _ => CallsExact.nil _ _ _
  | .nil, .cons .., h, _, _, _ => by simp [Subs.sameShape, Subs.cleared] at h
  | .cons .., .nil, h, _, _, _ => by simp [Subs.sameShape, Subs.cleared] at h
  | .cons _ n r, .cons _ n' r', h, hda, hsa, hnd => by
    obtain ⟨hn, hrr⟩ := Subs.sameShape_cons h
    simp only [Subs.ActAll] at hda hsa
    simp only [Subs.allIds] at hnd
    obtain ⟨hnd1, hnd2, hdis⟩ := List.nodup_append.mp hnd
    simp only [Subs.mergeReqAll, Subs.reenterCallsAll, Subs.allIds, Subs.activeIdsAll, Subs.activeVisAll]
    apply CallsExact.union (Node.reenter_exact v n n' hn hda.1 hsa.1 hnd1)
      (Subs.reenterAll_exact v r r' hrr hda.2 hsa.2 hnd2)
    · exact fun x hx => Node.activeVis_sub _ n x hx
    · intro x hx; rw [Node.allIds_sameShape hn]; exact Node.activeVis_sub _ n' x hx
    · exact fun x hx => Subs.activeVisAll_sub _ r x hx
    · intro x hx; rw [Subs.allIds_sameShape hrr]; exact Subs.activeVisAll_sub _ r' x hx
    · intro x hx hx'; exact hdis x hx x hx' rfl
end

mutual
theorem Node.commit_exact (v : Bool → Bool) : (d s : Node) → d.sameShape s → d.Act → d.NoMarks → s.Act →
    d.allIds.Nodup →
    CallsExact ((d.mergeReq s).commitCalls v) d.allIds d.activeIds s.activeIds
  | .leaf id _, .leaf _ _, _, _, _, _, _ => by
    simp only [Node.mergeReq, Node.commitCalls]; exact CallsExact.nil _ _ _
  | .leaf .., .compo .., h, _, _, _, _ => by simp [Node.sameShape, Node.cleared] at h
  | .leaf .., .ortho .., h, _, _, _, _ => by simp [Node.sameShape, Node.cleared] at h
  | .compo .., .leaf .., h, _, _, _, _ => by simp [Node.sameShape, Node.cleared] at h
  | .compo .., .ortho .., h, _, _, _, _ => by simp [Node.sameShape, Node.cleared] at h
  | .ortho .., .leaf .., h, _, _, _, _ => by simp [Node.sameShape, Node.cleared] at h
  | .ortho .., .compo .., h, _, _, _, _ => by simp [Node.sameShape, Node.cleared] at h
  | .compo id _ _ hd _ a _ _ m ds, .compo _ _ _ _ _ a' _ _ _ ss, h, hda, hdm, hsa, hnd => by
    obtain ⟨rfl, rfl, rfl, rfl, rfl, hss⟩ := Node.sameShape_compo h
    simp only [Node.NoMarks] at hdm
    obtain ⟨_, rfl, _⟩ := hdm
    simp only [Node.allIds] at hnd
    obtain ⟨hid, hnds⟩ := Node.nodup_compo hnd
    cases a' with
    | none => simp [Node.Act] at hsa
    | some si =>
      cases a with
      | none => simp [Node.Act] at hda
      | some ai =>
        simp only [Node.Act] at hsa hda
        simp only [Node.mergeReq, Node.commitCalls, Node.activeVis, Node.activeIds, Node.allIds, Option.getD_some]
        have key : CallsExact
            (if si ≠ ai then (ds.mergeReqAt ss si).exitCallsAt v ai ++ ((ds.mergeReqAt ss si).exitAtT ai).enterCallsAt v si
             else if false = true then (ds.mergeReqAt ss si).exitCallsAt v ai ++ ((ds.mergeReqAt ss si).exitAtT ai).enterCallsAt v ai
             else (ds.mergeReqAt ss si).reenterCallsAt v ai)
            ds.allIds (ds.activeIdsAt ai) (ss.activeIdsAt si) := by
          by_cases e : si = ai
          · subst e
            simp only [ne_eq, not_true_eq_false, if_false, Bool.false_eq_true]
            exact (Subs.reenterAt_exact v ds ss si hss hda hsa hnds).mono (Subs.allIdsAt_sub ds si)
          · simp only [ne_eq, e, not_false_eq_true, if_true]
            exact Subs.switch_exact v ds ss ai si (fun x => e x.symm) hss hsa hnds
        exact CallsExact.head id [] (fun c hc => nomatch hc) hid key
  | .ortho id _ _ hd ds, .ortho _ _ _ _ ss, h, hda, hdm, hsa, hnd => by
    obtain ⟨rfl, rfl, rfl, rfl, hss⟩ := Node.sameShape_ortho h
    simp only [Node.allIds] at hnd
    obtain ⟨hid, hnds⟩ := Node.nodup_compo hnd
    simp only [Node.Act] at hsa hda
    simp only [Node.NoMarks] at hdm
    simp only [Node.mergeReq, Node.commitCalls, Node.activeVis, Node.activeIds, Node.allIds]
    exact CallsExact.head id [] (fun c hc => nomatch hc) hid (Subs.commitAll_exact v ds ss hss hda hdm hsa hnds)
theorem Subs.commitAll_exact (v : Bool → Bool) : (d s : Subs) → d.sameShape s → d.ActAll → d.NoMarksAll → s.ActAll →
    d.allIds.Nodup →
    CallsExact ((d.mergeReqAll s).commitCallsAll v) d.allIds d.activeIdsAll s.activeIdsAll
  | .nil, .nil, _, _, _, _, _ => CallsExact.nil _ _ _
  | .nil, .cons .., h, _, _, _, _ => by simp [Subs.sameShape, Subs.cleared] at h
  | .cons .., .nil, h, _, _, _, _ => by simp [Subs.sameShape, Subs.cleared] at h
  | .cons _ n r, .cons _ n' r', h, hda, hdm, hsa, hnd => by
    obtain ⟨hn, hrr⟩ := Subs.sameShape_cons h
    simp only [Subs.ActAll] at hda hsa
    simp only [Subs.NoMarksAll] at hdm
    simp only [Subs.allIds] at hnd
    obtain ⟨hnd1, hnd2, hdis⟩ := List.nodup_append.mp hnd
    simp only [Subs.mergeReqAll, Subs.commitCallsAll, Subs.allIds, Subs.activeIdsAll, Subs.activeVisAll]
    apply CallsExact.union (Node.commit_exact v n n' hn hda.1 hdm.2.1 hsa.1 hnd1)
      (Subs.commitAll_exact v r r' hrr hda.2 hdm.2.2 hsa.2 hnd2)
    · exact fun x hx => Node.activeVis_sub _ n x hx
    · intro x hx; rw [Node.allIds_sameShape hn]; exact Node.activeVis_sub _ n' x hx
    · exact fun x hx => Subs.activeVisAll_sub _ r x hx
    · intro x hx; rw [Subs.allIds_sameShape hrr]; exact Subs.activeVisAll_sub _ r' x hx
    · intro x hx hx'; exact hdis x hx x hx' rfl
end

/-! ### instances have distinct state ids -/

theorem Shapes.stateCount_toSubs_allIds_aux (n : Nat) (a b : Nat) :
    List.range' n a ++ List.range' (n + a) b = List.range' n (a + b) := by
  rw [List.range'_append_1]

mutual
theorem Shape.toNode_allIds : (s : Shape) → (id rid : Nat) → (s.toNode id rid).allIds = List.range' id s.stateCount
  | .leaf _, id, _ => by simp [Shape.toNode, Node.allIds, Shape.stateCount]
  | .compo _ _ _ subs, id, rid => by
    simp only [Shape.toNode, Node.allIds, Shape.stateCount]
    rw [Shapes.toSubs_allIds subs (id+1) (rid+1), Nat.add_comm 1, List.range'_succ]
  | .ortho _ _ subs, id, rid => by
    simp only [Shape.toNode, Node.allIds, Shape.stateCount]
    rw [Shapes.toSubs_allIds subs (id+1) (rid+1), Nat.add_comm 1, List.range'_succ]
theorem Shapes.toSubs_allIds : (s : Shapes) → (id rid : Nat) → (s.toSubs id rid).allIds = List.range' id s.stateCount
  | .nil, _, _ => by simp [Shapes.toSubs, Subs.allIds, Shapes.stateCount]
  | .cons s r, id, rid => by
    simp only [Shapes.toSubs, Subs.allIds, Shapes.stateCount]
    rw [Shape.toNode_allIds s, Shapes.toSubs_allIds r, Shapes.stateCount_toSubs_allIds_aux]
end

theorem Shape.toNode_nodup (s : Shape) (id rid : Nat) : (s.toNode id rid).allIds.Nodup := by
  rw [Shape.toNode_allIds]; exact List.nodup_range'

end Hfsm
