/-
A small concrete machine used by the `example`s beside hypothesis-carrying theorems of C10/C11/C15/C16
(non-vacuity witnesses, evaluated by the kernel).
-/
import Hfsm.Proofs.Api

namespace Hfsm.Demo
open Hfsm

/-- utilities for the demonstration machine: naturals (a private wrapper, so no global instance on `Nat`) -/
structure DU where
  v : Nat
  deriving DecidableEq, Repr

instance : UtilArith DU where
  zero := ⟨0⟩
  one := ⟨1⟩
  add := fun a b => ⟨a.v + b.v⟩
  sub := fun a b => ⟨a.v - b.v⟩
  mul := fun a b => ⟨a.v * b.v⟩
  divNat := fun x n => ⟨x.v / n⟩
  le := fun a b => decide (a.v ≤ b.v)

/-- root composite region (state 0) with two leaf states 1 and 2 -/
def shape : Shape := .compo true 0 .composite (.cons (.leaf 0) (.cons (.leaf 1) .nil))

def cfg : Config := { queueCap := 1, taskCap := 2 }

/-- callbacks: everything idle except the 7th invocation (`update` of the root during the first
`update()`), which requests a change to state 2 -/
def ds : List (Decision DU) :=
  [[], [], [], [], [], [], [.request .change 2 none]] ++ List.replicate 60 []

/-- the constructed (automatically activated) instance -/
def mach : Mach DU := Api.boot shape cfg ds []

/-- a short program: one step that performs a transition, an idle step, a request through the API, a step -/
def prog : List Api.Op := [.update, .update, .request .change 1 none, .update]

end Hfsm.Demo
