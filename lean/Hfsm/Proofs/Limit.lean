/-
The substitution limit only matters when more rounds are needed (C15): once the substitution loop
ends with an empty queue, extra fuel changes nothing.
-/
import Hfsm.Proofs.RecfgMach

set_option linter.unusedVariables false
set_option linter.unusedSectionVars false
set_option linter.unusedSimpArgs false

namespace Hfsm
variable {U : Type} [UtilArith U]

namespace Mach

theorem rounds_more_fuel (initial : Bool) : (k j : Nat) → (m : Mach U) → (backup : Node) → (cur : List Transition) →
    (rounds initial k m backup cur).1.w.requests = [] →
    rounds initial (k + j) m backup cur = rounds initial k m backup cur
  | 0, 0, m, backup, cur, _ => rfl
  | 0, j+1, m, backup, cur, h => by
      simp only [rounds] at h
      simp only [Nat.zero_add, rounds, h, List.isEmpty_nil, ↓reduceIte]
  | k+1, j, m, backup, cur, h => by
      rw [show k + 1 + j = (k + j) + 1 by omega]
      simp only [rounds] at h ⊢
      split
      · rfl
      · next hne =>
        simp only [hne, Bool.false_eq_true, ↓reduceIte] at h
        split
        · next hd =>
          simp only [hd, ↓reduceIte] at h
          cases initial
          · simp only [Bool.false_eq_true, ↓reduceIte] at h ⊢
            split
            · next hok => simp only [hok, ↓reduceIte] at h; exact rounds_more_fuel false k j _ _ _ h
            · next hok => simp only [hok, ↓reduceIte] at h; exact rounds_more_fuel false k j _ _ _ h
          · simp only [↓reduceIte] at h ⊢
            split
            · next hok => simp only [hok, ↓reduceIte] at h; exact rounds_more_fuel true k j _ _ _ h
            · next hok => simp only [hok, ↓reduceIte] at h; exact rounds_more_fuel true k j _ _ _ h
        · next hd =>
          simp only [hd, Bool.false_eq_true, ↓reduceIte] at h
          exact rounds_more_fuel initial k j _ _ _ h

/-- The substitution loop of `processRequest`, run with the configured limit, ends with an empty queue
(no request is left over for the next step). -/
def settles (m : Mach U) : Prop :=
  (rounds false m.w.clearTargets.cfg.substitutionLimit
    { m with w := m.w.clearTargets.freshControl } m.root []).1.w.requests = []

theorem recfg_processTail_limit (r : Recfg) (L : Nat) (hr : r.limit = some L) (m1 : Mach U)
    (hL : m1.w.cfg.substitutionLimit ≤ L)
    (hs : (rounds false m1.w.cfg.substitutionLimit { m1 with w := m1.w.freshControl } m1.root []).1.w.requests = []) :
    processTailRc (m1.recfg r) = (processTailRc m1).recfg r := by
  unfold processTailRc
  have hlim : (m1.recfg r).w.cfg.substitutionLimit = m1.w.cfg.substitutionLimit + (L - m1.w.cfg.substitutionLimit) := by
    simp [World.recfg, Config.recfg, hr]; omega
  rw [hlim, show (m1.recfg r).w.requests = m1.w.requests from rfl, show (m1.recfg r).root = m1.root from rfl]
  split
  · exact congrArg (fun x => ({ m1 with w := x } : Mach U)) (recfg_setPrevious r m1.w [])
  · rw [show ({ m1.recfg r with w := (m1.recfg r).w.freshControl } : Mach U) =
        Mach.recfg r { m1 with w := m1.w.freshControl } from rfl, recfg_rounds,
      rounds_more_fuel false _ _ _ _ _ hs]
    exact recfg_finishStep r _ _

/-- Raising the substitution limit does not change a processing step that settles within the old one. -/
theorem recfg_processRequest_limit (r : Recfg) (L : Nat) (hr : r.limit = some L) (m : Mach U)
    (hL : m.w.cfg.substitutionLimit ≤ L) (hs : m.settles) :
    (m.recfg r).processRequest = m.processRequest.recfg r := by
  have hc : m.w.clearTargets.cfg = m.w.cfg := by
    unfold World.clearTargets; split <;> rfl
  rw [processRequest_staged, processRequest_staged,
    ← recfg_processTail_limit r L hr { m with w := m.w.clearTargets } (by show m.w.clearTargets.cfg.substitutionLimit ≤ L; rw [hc]; exact hL) hs]
  show processTailRc { m with w := (m.w.recfg r).clearTargets } = _
  rw [World.recfg_clearTargets]

end Mach
end Hfsm
