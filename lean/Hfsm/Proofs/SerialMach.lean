/-
`Mach.save / load / loadActive / loadEnter / finalExit` (Model/Machine.lean) in terms of the tree-level
round trip (Proofs/SerialLoad.lean) and the call lists (Proofs/LifeLog.lean).
-/
import Hfsm.Model.Machine
import Hfsm.Proofs.SerialLoad
import Hfsm.Proofs.LifeLog

namespace Hfsm
variable {U : Type}

mutual
theorem Node.cleared_exitT : (n : Node) → n.exitT.cleared = n.cleared
  | .leaf .. => rfl
  | .compo _ _ _ _ _ a _ _ _ s => by
    cases a with
    | none => rfl
    | some ai => simp only [Node.exitT, Node.cleared]; rw [Subs.cleared_exitAtT s ai]
  | .ortho _ _ _ _ s => by simp only [Node.exitT, Node.cleared]; rw [Subs.cleared_exitAllT s]
theorem Subs.cleared_exitAtT : (s : Subs) → (i : Nat) → (s.exitAtT i).cleared = s.cleared
  | .nil, _ => rfl
  | .cons _ n r, 0 => by simp only [Subs.exitAtT, Subs.cleared]; rw [Node.cleared_exitT n]
  | .cons _ n r, i+1 => by simp only [Subs.exitAtT, Subs.cleared]; rw [Subs.cleared_exitAtT r i]
theorem Subs.cleared_exitAllT : (s : Subs) → s.exitAllT.cleared = s.cleared
  | .nil => rfl
  | .cons _ n r => by simp only [Subs.exitAllT, Subs.cleared]; rw [Node.cleared_exitT n, Subs.cleared_exitAllT r]
end

mutual
theorem Node.clean_cleared : (n : Node) → n.cleared.Clean
  | .leaf .. => trivial
  | .compo _ _ _ _ _ _ _ _ _ s => by simp only [Node.cleared, Node.Clean, true_and]; exact Subs.clean_cleared s
  | .ortho _ _ _ _ s => by simp only [Node.cleared, Node.Clean]; exact Subs.clean_cleared s
theorem Subs.clean_cleared : (s : Subs) → s.cleared.CleanAll
  | .nil => trivial
  | .cons _ n r => by simp only [Subs.cleared, Subs.CleanAll]; exact ⟨Node.clean_cleared n, Subs.clean_cleared r⟩
end

mutual
theorem Node.noMarks_cleared : (n : Node) → n.cleared.NoMarks
  | .leaf .. => trivial
  | .compo _ _ _ _ _ _ _ _ _ s => by simp only [Node.cleared, Node.NoMarks, true_and]; exact Subs.noMarks_cleared s
  | .ortho _ _ _ _ s => by simp only [Node.cleared, Node.NoMarks]; exact Subs.noMarks_cleared s
theorem Subs.noMarks_cleared : (s : Subs) → s.cleared.NoMarksAll
  | .nil => trivial
  | .cons _ n r => by
    simp only [Subs.cleared, Subs.NoMarksAll, true_and]; exact ⟨Node.noMarks_cleared n, Subs.noMarks_cleared r⟩
end

-- an unmarked tree is a fixed point of `clearMarks`
mutual
theorem Node.clearMarks_of_noMarks : (n : Node) → n.NoMarks → n.clearMarks = n
  | .leaf .., _ => rfl
  | .compo _ _ _ _ _ _ _ q m s, h => by
    simp only [Node.NoMarks] at h
    obtain ⟨rfl, rfl, h⟩ := h
    simp only [Node.clearMarks]; rw [Subs.clearMarks_of_noMarks s h]
  | .ortho _ _ _ _ s, h => by
    simp only [Node.NoMarks] at h
    simp only [Node.clearMarks]; rw [Subs.clearMarks_of_noMarks s h]
theorem Subs.clearMarks_of_noMarks : (s : Subs) → s.NoMarksAll → s.clearMarks = s
  | .nil, _ => rfl
  | .cons b n r, h => by
    simp only [Subs.NoMarksAll] at h
    obtain ⟨rfl, hn, hr⟩ := h
    simp only [Subs.clearMarks]; rw [Node.clearMarks_of_noMarks n hn, Subs.clearMarks_of_noMarks r hr]
end

mutual
theorem Node.firstCompoActive_clean : (n : Node) → n.Clean → n.firstCompoActive.getD false = false
  | .leaf .., _ => rfl
  | .compo _ _ _ _ _ a _ _ _ _, h => by
    simp only [Node.Clean] at h
    simp [Node.firstCompoActive, h.1]
  | .ortho _ _ _ _ s, h => by
    simp only [Node.Clean] at h
    simp only [Node.firstCompoActive]; exact Subs.firstCompoActive_clean s h
theorem Subs.firstCompoActive_clean : (s : Subs) → s.CleanAll → s.firstCompoActive.getD false = false
  | .nil, _ => rfl
  | .cons _ n r, h => by
    simp only [Subs.CleanAll] at h
    have h1 := Node.firstCompoActive_clean n h.1
    have h2 := Subs.firstCompoActive_clean r h.2
    simp only [Subs.firstCompoActive]
    cases hn : n.firstCompoActive with
    | none => simpa using h2
    | some b => rw [hn] at h1; simpa using h1
end

/-- nothing active ⇒ `RegistryT::isActive()` is false -/
theorem Node.machineActive_clean (n : Node) (h : n.Clean) : n.machineActive = false :=
  Node.firstCompoActive_clean n h

/-- An activated instance between API calls (`Settled` of Proofs/Wf.lean, the `RegistryT::isActive()`
flag, and region widths that fit a `Short`). -/
structure Mach.ActiveOK (m : Mach U) : Prop where
  act : m.root.Act
  noMarks : m.root.NoMarks
  resOK : m.root.ResumableOK
  widthOK : m.root.WidthOK
  flag : m.root.machineActive = true

/-- An instance under manual activation that is not activated: nothing active, nothing marked. -/
structure Mach.InactiveOK (m : Mach U) : Prop where
  manual : m.w.cfg.manual = true
  clean : m.root.Clean
  noMarks : m.root.NoMarks
  flag : m.root.machineActive = false

namespace Mach

theorem updateActivity_root (m : Mach U) : m.updateActivity.root = m.root := rfl
theorem updateActivity_w (m : Mach U) : m.updateActivity.w = m.w := rfl

theorem save_active (m : Mach U) (h : m.root.machineActive = true) : m.save = true :: m.root.saveActive := by
  simp [save, h]

theorem save_inactive (m : Mach U) (h : m.InactiveOK) : m.save = [false] := by
  simp [save, h.manual, h.flag]

/-- the world handed to the commit pass of `loadActive` -/
def loadWorld (m : Mach U) (root : Node) : World U :=
  (({ m.w.clearPlanData.clearTargets with requests := [], previous := [] } : World U).freshControl).snapshot root false false

theorem loadWorld_cfg (m : Mach U) (root : Node) : (m.loadWorld root).cfg = m.w.cfg := by
  simp only [loadWorld, World.snapshot, World.freshControl, World.clearTargets, World.clearPlanData, World.clearStatuses]
  by_cases h : m.w.cfg.history = true <;> simp [h]

theorem loadWorld_trace (m : Mach U) (root : Node) : (m.loadWorld root).trace = m.w.trace := by
  simp only [loadWorld, World.snapshot, World.freshControl, World.clearTargets, World.clearPlanData, World.clearStatuses]
  by_cases h : m.w.cfg.history = true <;> simp [h]

theorem loadWorld_requests (m : Mach U) (root : Node) : (m.loadWorld root).requests = [] := by
  simp only [loadWorld, World.snapshot, World.freshControl]

theorem loadWorld_previous (m : Mach U) (root : Node) : (m.loadWorld root).previous = [] := by
  simp only [loadWorld, World.snapshot, World.freshControl]

theorem loadWorld_plans (m : Mach U) (root : Node) :
    (m.loadWorld root).plans = List.replicate m.w.cfg.regionCount [] ∧ (m.loadWorld root).planExists = 0 := by
  simp only [loadWorld, World.snapshot, World.freshControl, World.clearTargets, World.clearPlanData, World.clearStatuses]
  by_cases h : m.w.cfg.history = true <;> simp [h]

/-- what `loadActive` computes when the image is the image of `s` -/
theorem loadActive_eq (d : Mach U) (s : Node) (hs : d.root.sameShape s) (hsa : s.Act) (hsr : s.ResumableOK)
    (hsw : s.WidthOK) :
    d.loadActive s.saveActive =
      ({ d with root := ((d.root.loadBase.mergeReq s).commitT).withResumableOf (d.root.loadBase.mergeReq s)
                w := ((d.root.loadBase.mergeReq s).commit (d.loadWorld (d.root.loadBase.mergeReq s))).2 }).updateActivity := by
  have hl := Node.loadRequested_save d.root.loadBase s [] ((Node.loadBase_sameShape d.root).trans hs) hsa hsr hsw
  rw [List.append_nil] at hl
  simp only [Node.loadBase] at hl
  simp only [loadActive, hl, Node.loadBase, loadWorld]
  rw [← Node.commit_fst]

/-- **Active destination.** -/
theorem loadActive_root (d : Mach U) (s : Node) (hs : d.root.sameShape s) (hda : d.root.Act)
    (hsa : s.Act) (hsm : s.NoMarks) (hsr : s.ResumableOK) (hsw : s.WidthOK) :
    (d.loadActive s.saveActive).root = s := by
  rw [loadActive_eq d s hs hsa hsr hsw, updateActivity_root]
  exact Node.load_commit_eq d.root.loadBase s ((Node.loadBase_sameShape d.root).trans hs)
    (Node.loadBase_act d.root hda) (Node.loadBase_noMarks d.root) hsa hsm

theorem loadActive_step (d : Mach U) (s : Node) (hs : d.root.sameShape s) (hsa : s.Act) (hsr : s.ResumableOK)
    (hsw : s.WidthOK) :
    Step (d.loadWorld (d.root.loadBase.mergeReq s)) (d.loadActive s.saveActive).w
      ((d.root.loadBase.mergeReq s).commitCalls d.w.cfg.vis) := by
  rw [loadActive_eq d s hs hsa hsr hsw, updateActivity_w]
  exact Node.step_commit _ _ _ (by rw [loadWorld_cfg])

/-- the world handed to `deepEnter` by `loadEnter` -/
def enterWorld (m : Mach U) (root : Node) : World U := (m.w.freshControl).snapshot root false false

theorem enterWorld_cfg (m : Mach U) (root : Node) : (m.enterWorld root).cfg = m.w.cfg := rfl
theorem enterWorld_trace (m : Mach U) (root : Node) : (m.enterWorld root).trace = m.w.trace := rfl
theorem enterWorld_requests (m : Mach U) (root : Node) : (m.enterWorld root).requests = m.w.requests := rfl
theorem enterWorld_previous (m : Mach U) (root : Node) : (m.enterWorld root).previous = m.w.previous := rfl

theorem loadEnter_eq (d : Mach U) (s : Node) (hs : d.root.sameShape s) (hsa : s.Act) (hsr : s.ResumableOK)
    (hsw : s.WidthOK) :
    d.loadEnter s.saveActive =
      ({ d with root := ((d.root.mergeReq s).enterT).withResumableOf (d.root.mergeReq s)
                w := ((d.root.mergeReq s).enter (d.enterWorld (d.root.mergeReq s))).2 }).updateActivity := by
  have hl := Node.loadRequested_save d.root s [] hs hsa hsr hsw
  rw [List.append_nil] at hl
  simp only [loadEnter, hl, enterWorld]
  rw [← Node.enter_fst]

/-- **Inactive destination** (manual activation). -/
theorem loadEnter_root (d : Mach U) (s : Node) (hs : d.root.sameShape s) (hdc : d.root.Clean)
    (hdm : d.root.NoMarks) (hsa : s.Act) (hsm : s.NoMarks) (hsr : s.ResumableOK) (hsw : s.WidthOK) :
    (d.loadEnter s.saveActive).root = s := by
  rw [loadEnter_eq d s hs hsa hsr hsw, updateActivity_root]
  exact Node.load_enter_eq d.root s hs hdc hdm hsa hsm

theorem loadEnter_step (d : Mach U) (s : Node) (hs : d.root.sameShape s) (hsa : s.Act) (hsr : s.ResumableOK)
    (hsw : s.WidthOK) :
    Step (d.enterWorld (d.root.mergeReq s)) (d.loadEnter s.saveActive).w
      ((d.root.mergeReq s).enterCalls d.w.cfg.vis) := by
  rw [loadEnter_eq d s hs hsa hsr hsw, updateActivity_w]
  exact Node.step_enter _ _ _ rfl

/-- the world handed to `deepExit` by `finalExit` -/
def exitWorld (m : Mach U) : World U := (m.w.freshControl).snapshot m.root false false

theorem finalExit_root (m : Mach U) : m.finalExit.root = m.root.cleared := by
  simp only [finalExit, updateActivity_root]
  rw [Node.exit_fst, Node.cleared_exitT]

theorem finalExit_step (m : Mach U) :
    ∃ w', Step m.exitWorld w' (m.root.exitCalls m.w.cfg.vis) ∧
      m.finalExit.w.trace = w'.trace ∧ m.finalExit.w.cfg = w'.cfg ∧
      m.finalExit.w.requests = [] ∧ m.finalExit.w.previous = [] := by
  have key : ∀ w' : World U,
      ({ w'.clearPlanData.clearTargets with requests := [], previous := [] } : World U).trace = w'.trace ∧
      ({ w'.clearPlanData.clearTargets with requests := [], previous := [] } : World U).cfg = w'.cfg ∧
      ({ w'.clearPlanData.clearTargets with requests := [], previous := [] } : World U).requests = [] ∧
      ({ w'.clearPlanData.clearTargets with requests := [], previous := [] } : World U).previous = [] := by
    intro w'
    simp only [World.clearTargets, World.clearPlanData, World.clearStatuses]
    by_cases h : w'.cfg.history = true <;> simp [h]
  exact ⟨(m.root.exit m.exitWorld).2, Node.step_exit _ _ _ rfl, key _⟩

end Mach
end Hfsm
