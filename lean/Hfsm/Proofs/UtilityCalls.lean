/-
C12: how many random numbers the utility passes consume.

`Sig.calls` counts the `resolveRandom` calls of the spec functions of Proofs/UtilitySpec.lean (one per
random region *resolved*: `Sig.resolve` is the only place that increments it).  `Adv σ σ'` says that
between two stream states the generator stream lost exactly as many numbers as calls were counted.
-/
import Hfsm.Proofs.UtilitySpec

namespace Hfsm
open UtilArith
variable {U : Type} [UtilArith U]
set_option linter.unusedSectionVars false

/-- `σ'` is `σ` after `σ'.calls - σ.calls` resolutions, each of which took one number. -/
def Adv (σ σ' : Sig U) : Prop := σ.calls ≤ σ'.calls ∧ σ'.rng = σ.rng.drop (σ'.calls - σ.calls)

theorem Adv.refl (σ : Sig U) : Adv σ σ := ⟨Nat.le_refl _, by simp⟩

theorem Adv.trans {a b c : Sig U} (h1 : Adv a b) (h2 : Adv b c) : Adv a c := by
  refine ⟨Nat.le_trans h1.1 h2.1, ?_⟩
  rw [h2.2, h1.2, List.drop_drop]
  congr 1
  have := h1.1; have := h2.1; omega

theorem Adv.of_eq {σ σ' : Sig U} (h1 : σ'.rng = σ.rng) (h2 : σ'.calls = σ.calls) : Adv σ σ' :=
  ⟨by omega, by rw [h1, h2]; simp⟩

theorem Adv_headVal (σ : Sig U) (h : Bool) : Adv σ (σ.headVal h).2 := by
  unfold Sig.headVal; split <;> exact Adv.of_eq rfl rfl
theorem Adv_headRk (σ : Sig U) (h : Bool) : Adv σ (σ.headRk h).2 := by
  unfold Sig.headRk; split <;> exact Adv.of_eq rfl rfl
theorem Adv_headSel (σ : Sig U) (h : Bool) : Adv σ (σ.headSel h).2 := by
  unfold Sig.headSel; split <;> exact Adv.of_eq rfl rfl

/-- One resolution: one call, one number (none when the stream is already empty). -/
theorem Adv_resolve (σ : Sig U) (us : List U) (sum : U) (rks : List Int) (top : Int) :
    Adv σ (σ.resolve us sum rks top).2 ∧ (σ.resolve us sum rks top).2.calls = σ.calls + 1 := by
  unfold Sig.resolve
  split
  · next h => exact ⟨⟨by simp, by simp [h]⟩, rfl⟩
  · next rnd rest h => exact ⟨⟨by simp, by simp [h]⟩, rfl⟩

theorem Adv_rankSpecAll : (s : Subs) → (σ : Sig U) → Adv σ (s.rankSpecAll σ).2
  | .nil, σ => Adv.refl σ
  | .cons _ n r, σ => by
    simp only [Subs.rankSpecAll]
    exact (Adv_headRk σ n.headed).trans (Adv_rankSpecAll r _)

theorem rankSpecAll_calls : (s : Subs) → (σ : Sig U) → (s.rankSpecAll σ).2.calls = σ.calls
  | .nil, σ => rfl
  | .cons _ n r, σ => by
    simp only [Subs.rankSpecAll]
    rw [rankSpecAll_calls r]
    unfold Sig.headRk; split <;> rfl

/-! `utilize` never draws a random number, not even below nested random regions. -/
mutual
theorem Node.utilizeSpec_same : (n : Node) → (σ : Sig U) →
    (n.utilizeSpec σ).2.rng = σ.rng ∧ (n.utilizeSpec σ).2.calls = σ.calls
  | .leaf _ _, σ => by simp only [Node.utilizeSpec]; unfold Sig.headVal; simp
  | .compo _ _ _ h _ _ _ _ _ s, σ => by
    simp only [Node.utilizeSpec]
    have h1 : (σ.headVal h).2.rng = σ.rng ∧ (σ.headVal h).2.calls = σ.calls := by
      unfold Sig.headVal; split <;> simp
    have h2 := Subs.utilizeSpecAll_same s (σ.headVal h).2
    generalize σ.headVal h = r1 at h1 h2 ⊢
    obtain ⟨hu, σ1⟩ := r1
    generalize s.utilizeSpecAll σ1 = r2 at h2 ⊢
    obtain ⟨us, σ2⟩ := r2
    simp only at h1 h2 ⊢
    cases argMax us with
    | none => exact ⟨h2.1.trans h1.1, h2.2.trans h1.2⟩
    | some iu => exact ⟨h2.1.trans h1.1, h2.2.trans h1.2⟩
  | .ortho _ _ _ h s, σ => by
    simp only [Node.utilizeSpec]
    have h1 : (σ.headVal h).2.rng = σ.rng ∧ (σ.headVal h).2.calls = σ.calls := by
      unfold Sig.headVal; split <;> simp
    have h2 := Subs.utilizeSpecAll_same s (σ.headVal h).2
    exact ⟨h2.1.trans h1.1, h2.2.trans h1.2⟩
theorem Subs.utilizeSpecAll_same : (s : Subs) → (σ : Sig U) →
    (s.utilizeSpecAll σ).2.rng = σ.rng ∧ (s.utilizeSpecAll σ).2.calls = σ.calls
  | .nil, σ => ⟨rfl, rfl⟩
  | .cons _ n r, σ => by
    simp only [Subs.utilizeSpecAll]
    have h1 := Node.utilizeSpec_same n σ
    have h2 := Subs.utilizeSpecAll_same r (n.utilizeSpec σ).2
    exact ⟨h2.1.trans h1.1, h2.2.trans h1.2⟩
end

mutual
theorem Node.randomizeSpec_adv : (n : Node) → (σ : Sig U) → Adv σ (n.randomizeSpec σ).2
  | .leaf _ _, σ => by simp only [Node.randomizeSpec]; exact Adv_headVal σ true
  | .compo _ _ _ h _ _ _ _ _ s, σ => by
    simp only [Node.randomizeSpec]
    refine (Adv_headVal σ h).trans ((Adv_rankSpecAll s _).trans ?_)
    exact Adv.trans (Subs.randomizeSpecTop_adv s _ _ _) (Adv_resolve _ _ _ _ _).1
  | .ortho _ _ _ h s, σ => by
    simp only [Node.randomizeSpec]
    exact (Adv_headVal σ h).trans (Subs.randomizeSpecAll_adv s _)
theorem Subs.randomizeSpecAll_adv : (s : Subs) → (σ : Sig U) → Adv σ (s.randomizeSpecAll σ).2
  | .nil, σ => Adv.refl σ
  | .cons _ n r, σ => by
    simp only [Subs.randomizeSpecAll]
    exact (Node.randomizeSpec_adv n σ).trans (Subs.randomizeSpecAll_adv r _)
theorem Subs.randomizeSpecTop_adv : (s : Subs) → (rks : List Int) → (top : Int) → (σ : Sig U) →
    Adv σ (s.randomizeSpecTop rks top σ).2
  | .nil, _, _, σ => Adv.refl σ
  | .cons _ n r, rks, top, σ => by
    simp only [Subs.randomizeSpecTop]
    split
    · exact (Node.randomizeSpec_adv n σ).trans (Subs.randomizeSpecTop_adv r _ _ _)
    · exact Subs.randomizeSpecTop_adv r _ _ _
end

mutual
theorem Node.changeSpec_adv : (n : Node) → (σ : Sig U) → Adv σ (n.changeSpec σ).2
  | .leaf _ _, σ => by simp only [Node.changeSpec]; exact Adv_headVal σ true
  | .compo _ _ _ h .composite _ r _ _ s, σ => by
    simp only [Node.changeSpec]
    exact (Adv_headVal σ h).trans (Subs.changeSpecAt_adv s _ _)
  | .compo _ _ _ h .resumable _ r _ _ s, σ => by
    simp only [Node.changeSpec]
    exact (Adv_headVal σ h).trans (Subs.changeSpecAt_adv s _ _)
  | .compo _ _ _ h .selectable _ r _ _ s, σ => by
    simp only [Node.changeSpec]
    exact (Adv_headVal σ h).trans (Subs.changeSpecAt_adv s _ _)
  | .compo _ _ _ h .utilitarian _ r _ _ s, σ => by
    simp only [Node.changeSpec]
    have h2 := (Adv_headVal σ h).trans (Subs.changeSpecAll_adv s (σ.headVal h).2)
    generalize s.changeSpecAll (σ.headVal h).2 = r2 at h2 ⊢
    obtain ⟨us, σ2⟩ := r2
    cases argMax us with
    | none => exact h2
    | some iu => exact h2
  | .compo _ _ _ h .random _ r _ _ s, σ => by
    simp only [Node.changeSpec]
    refine (Adv_headVal σ h).trans ((Adv_rankSpecAll s _).trans ?_)
    exact Adv.trans (Subs.changeSpecTop_adv s _ _ _) (Adv_resolve _ _ _ _ _).1
  | .ortho _ _ _ h s, σ => by
    simp only [Node.changeSpec]
    exact (Adv_headVal σ h).trans (Subs.changeSpecAll_adv s _)
theorem Subs.changeSpecAt_adv : (s : Subs) → (i : Nat) → (σ : Sig U) → Adv σ (s.changeSpecAt i σ).2
  | .nil, _, σ => Adv.refl σ
  | .cons _ n _, 0, σ => by simp only [Subs.changeSpecAt]; exact Node.changeSpec_adv n σ
  | .cons _ _ r, i+1, σ => by simp only [Subs.changeSpecAt]; exact Subs.changeSpecAt_adv r i σ
theorem Subs.changeSpecAll_adv : (s : Subs) → (σ : Sig U) → Adv σ (s.changeSpecAll σ).2
  | .nil, σ => Adv.refl σ
  | .cons _ n r, σ => by
    simp only [Subs.changeSpecAll]
    exact (Node.changeSpec_adv n σ).trans (Subs.changeSpecAll_adv r _)
theorem Subs.changeSpecTop_adv : (s : Subs) → (rks : List Int) → (top : Int) → (σ : Sig U) →
    Adv σ (s.changeSpecTop rks top σ).2
  | .nil, _, _, σ => Adv.refl σ
  | .cons _ n r, rks, top, σ => by
    simp only [Subs.changeSpecTop]
    split
    · exact (Node.changeSpec_adv n σ).trans (Subs.changeSpecTop_adv r _ _ _)
    · exact Subs.changeSpecTop_adv r _ _ _
end

mutual
theorem Node.requestSpec_adv : (n : Node) → (k : Kind) → (σ : Sig U) → Adv σ (n.requestSpec k σ)
  | .leaf .., _, σ => Adv.refl σ
  | .ortho _ _ _ _ s, k, σ => by simp only [Node.requestSpec]; exact Subs.requestSpecAll_adv s k σ
  | .compo _ _ _ h st _ r _ _ s, k, σ => by
    simp only [Node.requestSpec]
    cases effectiveKind st k with
    | restart => exact Subs.requestSpecAt_adv s 0 k σ
    | resume => exact Subs.requestSpecAt_adv s _ k σ
    | select =>
      simp only
      have h1 := Adv_headSel σ h
      generalize σ.headSel h = r1 at h1 ⊢
      obtain ⟨sel, σ1⟩ := r1
      cases sel with
      | none => exact h1
      | some i =>
        simp only
        split
        · exact h1.trans (Subs.requestSpecAt_adv s i k σ1)
        · exact h1
    | utilize =>
      simp only
      split
      · exact Subs.changeSpecAll_adv s σ
      · exact Adv.of_eq (Subs.utilizeSpecAll_same s σ).1 (Subs.utilizeSpecAll_same s σ).2
    | randomize =>
      simp only
      refine (Adv_rankSpecAll s σ).trans ?_
      split
      · exact (Subs.changeSpecTop_adv s _ _ _).trans (Adv_resolve _ _ _ _ _).1
      · exact (Subs.randomizeSpecTop_adv s _ _ _).trans (Adv_resolve _ _ _ _ _).1
    | change => exact Adv.refl σ
    | schedule => exact Adv.refl σ
theorem Subs.requestSpecAt_adv : (s : Subs) → (i : Nat) → (k : Kind) → (σ : Sig U) → Adv σ (s.requestSpecAt i k σ)
  | .nil, _, _, σ => Adv.refl σ
  | .cons _ n _, 0, k, σ => by simp only [Subs.requestSpecAt]; exact Node.requestSpec_adv n k σ
  | .cons _ _ r, i+1, k, σ => by simp only [Subs.requestSpecAt]; exact Subs.requestSpecAt_adv r i k σ
theorem Subs.requestSpecAll_adv : (s : Subs) → (k : Kind) → (σ : Sig U) → Adv σ (s.requestSpecAll k σ)
  | .nil, _, σ => Adv.refl σ
  | .cons _ n r, k, σ => by
    simp only [Subs.requestSpecAll]
    exact (Node.requestSpec_adv n k σ).trans (Subs.requestSpecAll_adv r k _)
end

end Hfsm
