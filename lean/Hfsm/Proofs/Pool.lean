/-
Specification vocabulary and helper lemmas for the task pool (`Hfsm.Model.Pool`).

Two layers sit above the concrete model:

* `G` — the *reference machine*: the pool's state with all pointer plumbing removed: the vacant
  chain as a list (`vac`), `_last`, and the ideal contents map `live : slot → Option Item`.
* `IdealStep` — the *ideal pool*: a nondeterministic finite map from slots to contents.

`Rep cap p g` is the representation invariant tying a concrete `Pool` to a `G` state.
-/
import Hfsm.Model.Pool

namespace Hfsm.Model

/-! ### Array read/write -/

theorem rd_wr (a : Array Item) (i j : Nat) (v : Item) :
    rd (wr a i v) j = if i = j ∧ i < a.size then some v else rd a j := by
  simp only [rd, wr, Array.getElem?_setIfInBounds]
  split <;> simp_all

theorem rd_wr_ne (a : Array Item) {i j : Nat} (v : Item) (h : i ≠ j) :
    rd (wr a i v) j = rd a j := by
  rw [rd_wr]; simp [h]

theorem rd_wr_same (a : Array Item) {i : Nat} (v : Item) (h : i < a.size) :
    rd (wr a i v) i = some v := by
  rw [rd_wr]; simp [h]

@[simp] theorem size_wr (a : Array Item) (i : Nat) (v : Item) : (wr a i v).size = a.size := by
  simp [wr]

theorem rd_some_of_lt (a : Array Item) {i : Nat} (h : i < a.size) : ∃ x, rd a i = some x :=
  ⟨a[i], by simp [rd, h]⟩

theorem lt_of_rd_some {a : Array Item} {i : Nat} {x : Item} (h : rd a i = some x) : i < a.size := by
  simp only [rd] at h
  exact (Array.getElem?_eq_some_iff.mp h).1

/-! ### Ideal contents map -/

/-- The ideal pool's state: which slots are live and what they hold. -/
abbrev Live := Nat → Option Item

/-- Point update of the contents map. -/
def Live.set (l : Live) (i : Nat) (v : Option Item) : Live := fun j => if j = i then v else l j

/-- No live slot. -/
def Live.empty : Live := fun _ => none

@[simp] theorem Live.set_same (l : Live) (i : Nat) (v : Option Item) : l.set i v i = v := by
  simp [Live.set]

theorem Live.set_ne (l : Live) {i j : Nat} (v : Option Item) (h : j ≠ i) : l.set i v j = l j := by
  simp [Live.set, h]

/-- Number of live slots below `cap`. -/
def liveCount (cap : Nat) (l : Live) : Nat := (List.range cap).countP (fun i => (l i).isSome)

@[simp] theorem liveCount_empty (cap : Nat) : liveCount cap Live.empty = 0 := by
  simp [liveCount, Live.empty]

theorem liveCount_succ (n : Nat) (l : Live) :
    liveCount (n + 1) l = liveCount n l + (if (l n).isSome then 1 else 0) := by
  simp [liveCount, List.range_succ, List.countP_append, List.countP_singleton]

theorem liveCount_le (cap : Nat) (l : Live) : liveCount cap l ≤ cap := by
  induction cap with
  | zero => simp [liveCount]
  | succ n ih => rw [liveCount_succ]; split <;> omega

theorem liveCount_set_ge (n : Nat) (l : Live) {i : Nat} (v : Option Item) (h : n ≤ i) :
    liveCount n (l.set i v) = liveCount n l := by
  induction n with
  | zero => simp [liveCount]
  | succ m ih =>
    rw [liveCount_succ, liveCount_succ, ih (by omega), Live.set_ne l v (by omega : m ≠ i)]

/-- Effect of a point update on the live count. -/
theorem liveCount_set (cap : Nat) (l : Live) {i : Nat} (v : Option Item) (h : i < cap) :
    liveCount cap (l.set i v) + (if (l i).isSome then 1 else 0)
      = liveCount cap l + (if v.isSome then 1 else 0) := by
  induction cap with
  | zero => omega
  | succ m ih =>
    rw [liveCount_succ, liveCount_succ]
    by_cases hm : i = m
    · subst hm
      rw [liveCount_set_ge i l v (Nat.le_refl _), Live.set_same]
      omega
    · have := ih (by omega)
      rw [Live.set_ne l v (by omega : m ≠ i)]
      omega

theorem liveCount_set_some (cap : Nat) (l : Live) {i : Nat} (x : Item) (h : i < cap)
    (hn : l i = none) : liveCount cap (l.set i (some x)) = liveCount cap l + 1 := by
  have := liveCount_set cap l (some x) h
  simp [hn] at this
  exact this

theorem liveCount_set_none (cap : Nat) (l : Live) {i : Nat} {y : Item} (h : i < cap)
    (hs : l i = some y) : liveCount cap (l.set i none) + 1 = liveCount cap l := by
  have := liveCount_set cap l none h
  simp [hs] at this
  exact this

/-! ### Reference machine -/

/-- Reference machine state: vacant chain (head first), `_last`, ideal contents. -/
structure G where
  vac  : List Nat
  last : Nat
  live : Live

/-- Reference state of a fresh (or cleared) pool: slot 0 is the one-element vacant chain. -/
def G.new : G := { vac := [0], last := 0, live := Live.empty }

/-- Reference `emplace`: pop the chain head; when the chain had a single element either extend it
with the never-used slot `last+1` (grow) or become full (`last := cap`). -/
def G.emplace (cap : Nat) (g : G) (x : Item) : G × Nat :=
  match g.vac with
  | [] => (g, INVALID)
  | [h] =>
    if g.last + 1 < cap then
      ({ vac := [g.last + 1], last := g.last + 1, live := g.live.set h (some x) }, h)
    else
      ({ vac := [], last := cap, live := g.live.set h (some x) }, h)
  | h :: t => ({ vac := t, last := g.last, live := g.live.set h (some x) }, h)

/-- Reference `remove`: push the slot on the chain's head. -/
def G.remove (g : G) (i : Nat) : G :=
  { vac := i :: g.vac, last := g.last, live := g.live.set i none }

/-- Reference step, with the observation the caller gets. -/
def G.step (cap : Nat) (g : G) : PoolOp → G × PoolObs
  | .emplace x => ((g.emplace cap x).1, .index (g.emplace cap x).2)
  | .remove i  => (g.remove i, .unit)
  | .clear     => (G.new, .unit)
  | .count     => (g, .num (liveCount cap g.live))
  | .get i     => (g, .item ((g.live i).getD Item.dflt))

/-- The contract of the public interface, relative to the ideal contents: `remove` and
`operator[]` only on live slots (`HFSM2_ASSERT`ed or implied in the source). -/
def InContract (live : Live) : PoolOp → Prop
  | .remove i => (live i).isSome
  | .get i    => (live i).isSome
  | _         => True

/-- Adjacent chain elements point at each other through `next` / `prev`.  Nothing is required of
the head's `prev` or the last element's `next` (stale after `clear()`, never read by the code). -/
def Linked (a : Array Item) : List Nat → Prop
  | x :: y :: t =>
      (∃ ix iy, rd a x = some ix ∧ rd a y = some iy ∧ ix.next = y ∧ iy.prev = x) ∧ Linked a (y :: t)
  | _ => True

/-- Representation invariant (`PoolInv`): concrete pool `p` of capacity `cap` represents `g`. -/
structure Rep (cap : Nat) (p : Pool) (g : G) : Prop where
  pos      : 0 < cap
  capLe    : cap ≤ INVALID
  size     : p.items.size = cap
  last     : p.last = g.last
  lastLe   : g.last ≤ cap
  count    : p.count = liveCount cap g.live
  nodup    : g.vac.Nodup
  /-- the chain goes through exactly the non-live slots at or below `_last` -/
  mem      : ∀ i, i ∈ g.vac ↔ (i < cap ∧ i ≤ g.last ∧ g.live i = none)
  /-- slots above `_last` were never used -/
  bound    : ∀ i x, g.live i = some x → i < cap ∧ i ≤ g.last
  num      : p.count + g.vac.length = min (g.last + 1) cap
  head     : p.vacantHead = g.vac.head?.getD INVALID
  tail     : p.vacantTail = g.vac.getLast?.getD INVALID
  tailLast : g.last < cap → g.vac.getLast? = some g.last
  linked   : Linked p.items g.vac
  cont     : ∀ i x, g.live i = some x → rd p.items i = some x

/-! ### Chain lemmas -/

theorem Linked.wr_notin {a : Array Item} {j : Nat} (v : Item) :
    ∀ {l : List Nat}, j ∉ l → Linked a l → Linked (wr a j v) l
  | [], _, _ => trivial
  | [_], _, _ => trivial
  | x :: y :: t, hj, h => by
    obtain ⟨⟨ix, iy, hx, hy, h1, h2⟩, hr⟩ := h
    have hjx : j ≠ x := fun e => hj (by simp [e])
    have hjy : j ≠ y := fun e => hj (by simp [e])
    refine ⟨⟨ix, iy, ?_, ?_, h1, h2⟩, Linked.wr_notin v (fun hm => hj (List.mem_cons_of_mem _ hm)) hr⟩
    · rw [rd_wr_ne a v hjx]; exact hx
    · rw [rd_wr_ne a v hjy]; exact hy

theorem Linked.wr_head_prev {a : Array Item} {h : Nat} {t : List Nat} {ih : Item} (v : Nat)
    (hl : Linked a (h :: t)) (hn : h ∉ t) (hr : rd a h = some ih) :
    Linked (wr a h { ih with prev := v }) (h :: t) := by
  cases t with
  | nil => trivial
  | cons y t' =>
    obtain ⟨⟨ix, iy, hx, hy, h1, h2⟩, hrest⟩ := hl
    have hxy : h ≠ y := fun e => hn (by simp [e])
    rw [hr] at hx; cases hx
    refine ⟨⟨{ ih with prev := v }, iy, ?_, ?_, h1, h2⟩, Linked.wr_notin _ hn hrest⟩
    · exact rd_wr_same a _ (lt_of_rd_some hr)
    · rw [rd_wr_ne a _ hxy]; exact hy

theorem Linked.tail {a : Array Item} {h : Nat} {t : List Nat} (hl : Linked a (h :: t)) :
    Linked a t := by
  cases t with
  | nil => trivial
  | cons y t' => exact hl.2

/-! ### Consequences of the invariant -/

namespace Rep

variable {cap : Nat} {p : Pool} {g : G}

theorem vac_nil_last (r : Rep cap p g) (h : g.vac = []) : g.last = cap := by
  have := r.tailLast
  have hle := r.lastLe
  rw [h] at this
  by_cases hl : g.last < cap
  · simpa using this hl
  · omega

theorem vac_nil_count (r : Rep cap p g) (h : g.vac = []) : p.count = cap := by
  have hn := r.num
  rw [h, r.vac_nil_last h] at hn
  simp at hn
  omega

theorem count_lt_of_vac (r : Rep cap p g) (h : g.vac ≠ []) : p.count < cap := by
  have hn := r.num
  have : 0 < g.vac.length := List.length_pos_iff.mpr h
  omega

theorem count_le (r : Rep cap p g) : p.count ≤ cap := by
  rw [r.count]; exact liveCount_le _ _

theorem vac_nil_iff (r : Rep cap p g) : g.vac = [] ↔ p.count = cap :=
  ⟨r.vac_nil_count, fun h => by
    by_cases hv : g.vac = []
    · exact hv
    · have := r.count_lt_of_vac hv; omega⟩

theorem live_not_vac (r : Rep cap p g) {i : Nat} {x : Item} (h : g.live i = some x) : i ∉ g.vac := by
  intro hm
  have := ((r.mem i).mp hm).2.2
  rw [h] at this; cases this

theorem count_pos (r : Rep cap p g) {i : Nat} {x : Item} (h : g.live i = some x) : 0 < p.count := by
  have hb := (r.bound i x h).1
  have := liveCount_set_none cap g.live hb h
  rw [r.count]; omega

end Rep

end Hfsm.Model
