/-
C02 — request marks the commit pass never looks at.

A report pass of a utilitarian / random region (`deepReportUtilize`, `deepReportRandomize`,
`deepReportChange`) writes `compoRequested` in the sub-trees of ALL candidates (finding O2 of C12), so
after an answer-dependent request the registry carries marks below the candidates that lost.  `Node.Sim
x y` says that `x` and `y` are the same tree up to marks in such places: wherever the passes that
consume marks (`enter`, `reenter`, `commit`) walk, the two trees agree; next to that walk they agree
after `clearMarks`.  The lemmas of this file show that those passes cannot tell `x` from `y` once the
marks are cleared, which is what `processRequest` does last.

Pure tree functions only (the `…R` projections of `Proofs/C02Reg.lean`).
-/
import Hfsm.Proofs.C02Path
import Hfsm.Proofs.C02Remember

namespace Hfsm

mutual
/-- `x` and `y` carry the same marks wherever `enter / reenter / commit` follow them (the requested
prong of a marked composite region, the active prong of an unmarked one, every prong of an orthogonal
region) and are equal up to marks elsewhere. -/
def Node.Sim : Node → Node → Prop
  | .leaf id inj, y => y = .leaf id inj
  | .compo id rid inj h st a r (some qi) m s, y =>
    ∃ s', y = .compo id rid inj h st a r (some qi) m s' ∧ s.SimAt s' qi
  | .compo id rid inj h st (some ai) r none m s, y =>
    ∃ s', y = .compo id rid inj h st (some ai) r none m s' ∧ s.SimAt s' ai
  | .compo id rid inj h st none r none m s, y =>
    ∃ s', y = .compo id rid inj h st none r none m s' ∧ s.clearMarks = s'.clearMarks
  | .ortho id rid inj h s, y => ∃ s', y = .ortho id rid inj h s' ∧ s.SimAll s'
/-- prong `i` is followed, the others are equal up to marks (orthogonal request bits are marks) -/
def Subs.SimAt : Subs → Subs → Nat → Prop
  | .nil, y, _ => y = .nil
  | .cons _ n r, y, 0 => ∃ b' n' r', y = .cons b' n' r' ∧ n.Sim n' ∧ r.clearMarks = r'.clearMarks
  | .cons _ n r, y, i+1 => ∃ b' n' r', y = .cons b' n' r' ∧ n.clearMarks = n'.clearMarks ∧ r.SimAt r' i
def Subs.SimAll : Subs → Subs → Prop
  | .nil, y => y = .nil
  | .cons _ n r, y => ∃ b' n' r', y = .cons b' n' r' ∧ n.Sim n' ∧ r.SimAll r'
end

/-! ### `Sim` is reflexive and implies equality up to marks -/

mutual
theorem C02.Node.sim_refl : (x : Node) → x.Sim x
  | .leaf .. => by simp only [Node.Sim]
  | .compo id rid inj h st a r (some qi) m s => by
    simp only [Node.Sim]; exact ⟨s, rfl, C02.Subs.simAt_refl s qi⟩
  | .compo id rid inj h st (some ai) r none m s => by
    simp only [Node.Sim]; exact ⟨s, rfl, C02.Subs.simAt_refl s ai⟩
  | .compo id rid inj h st none r none m s => by
    simp only [Node.Sim]; exact ⟨s, rfl, rfl⟩
  | .ortho id rid inj h s => by
    simp only [Node.Sim]; exact ⟨s, rfl, C02.Subs.simAll_refl s⟩
theorem C02.Subs.simAt_refl : (s : Subs) → (i : Nat) → s.SimAt s i
  | .nil, _ => by simp only [Subs.SimAt]
  | .cons b n r, 0 => by simp only [Subs.SimAt]; exact ⟨b, n, r, rfl, C02.Node.sim_refl n, rfl⟩
  | .cons b n r, i+1 => by simp only [Subs.SimAt]; exact ⟨b, n, r, rfl, rfl, C02.Subs.simAt_refl r i⟩
theorem C02.Subs.simAll_refl : (s : Subs) → s.SimAll s
  | .nil => by simp only [Subs.SimAll]
  | .cons b n r => by
    simp only [Subs.SimAll]; exact ⟨b, n, r, rfl, C02.Node.sim_refl n, C02.Subs.simAll_refl r⟩
end

mutual
theorem C02.Node.sim_clearMarks : (x y : Node) → x.Sim y → x.clearMarks = y.clearMarks
  | .leaf .., y, h => by simp only [Node.Sim] at h; subst h; rfl
  | .compo id rid inj hh st a r (some qi) m s, y, h => by
    simp only [Node.Sim] at h
    obtain ⟨s', rfl, hs⟩ := h
    simp only [Node.clearMarks, C02.Subs.simAt_clearMarks s s' qi hs]
  | .compo id rid inj hh st (some ai) r none m s, y, h => by
    simp only [Node.Sim] at h
    obtain ⟨s', rfl, hs⟩ := h
    simp only [Node.clearMarks, C02.Subs.simAt_clearMarks s s' ai hs]
  | .compo id rid inj hh st none r none m s, y, h => by
    simp only [Node.Sim] at h
    obtain ⟨s', rfl, hs⟩ := h
    simp only [Node.clearMarks, hs]
  | .ortho id rid inj hh s, y, h => by
    simp only [Node.Sim] at h
    obtain ⟨s', rfl, hs⟩ := h
    simp only [Node.clearMarks, C02.Subs.simAll_clearMarks s s' hs]
theorem C02.Subs.simAt_clearMarks : (s y : Subs) → (i : Nat) → s.SimAt y i → s.clearMarks = y.clearMarks
  | .nil, y, _, h => by simp only [Subs.SimAt] at h; subst h; rfl
  | .cons b n r, y, 0, h => by
    simp only [Subs.SimAt] at h
    obtain ⟨b', n', r', rfl, hn, hr⟩ := h
    simp only [Subs.clearMarks, C02.Node.sim_clearMarks n n' hn, hr]
  | .cons b n r, y, i+1, h => by
    simp only [Subs.SimAt] at h
    obtain ⟨b', n', r', rfl, hn, hr⟩ := h
    simp only [Subs.clearMarks, hn, C02.Subs.simAt_clearMarks r r' i hr]
theorem C02.Subs.simAll_clearMarks : (s y : Subs) → s.SimAll y → s.clearMarks = y.clearMarks
  | .nil, y, h => by simp only [Subs.SimAll] at h; subst h; rfl
  | .cons b n r, y, h => by
    simp only [Subs.SimAll] at h
    obtain ⟨b', n', r', rfl, hn, hr⟩ := h
    simp only [Subs.clearMarks, C02.Node.sim_clearMarks n n' hn, C02.Subs.simAll_clearMarks r r' hr]
end

/-! ### `exited` does not read marks -/

mutual
theorem C02.Node.clearMarks_exited : (n : Node) → n.exited.clearMarks = n.clearMarks.exited
  | .leaf .. => rfl
  | .compo id rid inj h st a r q m s => by
    cases a with
    | none => simp only [Node.exited, Node.clearMarks]
    | some ai => simp only [Node.exited, Node.clearMarks, C02.Subs.clearMarks_exitedAt s ai]
  | .ortho id rid inj h s => by simp only [Node.exited, Node.clearMarks, C02.Subs.clearMarks_exitedAll s]
theorem C02.Subs.clearMarks_exitedAt : (s : Subs) → (i : Nat) →
    (s.exitedAt i).clearMarks = s.clearMarks.exitedAt i
  | .nil, _ => rfl
  | .cons b n r, 0 => by simp only [Subs.exitedAt, Subs.clearMarks, C02.Node.clearMarks_exited n]
  | .cons b n r, i+1 => by simp only [Subs.exitedAt, Subs.clearMarks, C02.Subs.clearMarks_exitedAt r i]
theorem C02.Subs.clearMarks_exitedAll : (s : Subs) → s.exitedAll.clearMarks = s.clearMarks.exitedAll
  | .nil => rfl
  | .cons b n r => by
    simp only [Subs.exitedAll, Subs.clearMarks, C02.Node.clearMarks_exited n, C02.Subs.clearMarks_exitedAll r]
end

theorem C02.Node.exited_congr {x y : Node} (h : x.clearMarks = y.clearMarks) :
    x.exited.clearMarks = y.exited.clearMarks := by
  rw [C02.Node.clearMarks_exited, C02.Node.clearMarks_exited, h]
theorem C02.Subs.exitedAt_congr {x y : Subs} (h : x.clearMarks = y.clearMarks) (i : Nat) :
    (x.exitedAt i).clearMarks = (y.exitedAt i).clearMarks := by
  rw [C02.Subs.clearMarks_exitedAt, C02.Subs.clearMarks_exitedAt, h]
theorem C02.Subs.exitedAll_congr {x y : Subs} (h : x.clearMarks = y.clearMarks) :
    x.exitedAll.clearMarks = y.exitedAll.clearMarks := by
  rw [C02.Subs.clearMarks_exitedAll, C02.Subs.clearMarks_exitedAll, h]

mutual
theorem C02.Node.sim_exited : (x y : Node) → x.Sim y → x.exited.Sim y.exited
  | .leaf .., y, h => by simp only [Node.Sim] at h; subst h; simp only [Node.exited, Node.Sim]
  | .compo id rid inj hh st a r (some qi) m s, y, h => by
    simp only [Node.Sim] at h
    obtain ⟨s', rfl, hs⟩ := h
    cases a with
    | none => simp only [Node.exited, Node.Sim]; exact ⟨s', rfl, hs⟩
    | some ai =>
      simp only [Node.exited, Node.Sim]
      exact ⟨_, rfl, C02.Subs.simAt_exitedAt s s' qi ai hs⟩
  | .compo id rid inj hh st (some ai) r none m s, y, h => by
    simp only [Node.Sim] at h
    obtain ⟨s', rfl, hs⟩ := h
    simp only [Node.exited, Node.Sim]
    exact ⟨_, rfl, C02.Subs.exitedAt_congr (C02.Subs.simAt_clearMarks s s' ai hs) ai⟩
  | .compo id rid inj hh st none r none m s, y, h => by
    simp only [Node.Sim] at h
    obtain ⟨s', rfl, hs⟩ := h
    simp only [Node.exited, Node.Sim]
    exact ⟨s', rfl, hs⟩
  | .ortho id rid inj hh s, y, h => by
    simp only [Node.Sim] at h
    obtain ⟨s', rfl, hs⟩ := h
    simp only [Node.exited, Node.Sim]
    exact ⟨_, rfl, C02.Subs.simAll_exitedAll s s' hs⟩
theorem C02.Subs.simAt_exitedAt : (s y : Subs) → (i j : Nat) → s.SimAt y i →
    (s.exitedAt j).SimAt (y.exitedAt j) i
  | .nil, y, _, _, h => by simp only [Subs.SimAt] at h; subst h; simp only [Subs.exitedAt, Subs.SimAt]
  | .cons b n r, y, 0, 0, h => by
    simp only [Subs.SimAt] at h
    obtain ⟨b', n', r', rfl, hn, hr⟩ := h
    simp only [Subs.exitedAt, Subs.SimAt]
    exact ⟨_, _, _, rfl, C02.Node.sim_exited n n' hn, hr⟩
  | .cons b n r, y, 0, j+1, h => by
    simp only [Subs.SimAt] at h
    obtain ⟨b', n', r', rfl, hn, hr⟩ := h
    simp only [Subs.exitedAt, Subs.SimAt]
    exact ⟨_, _, _, rfl, hn, C02.Subs.exitedAt_congr hr j⟩
  | .cons b n r, y, i+1, 0, h => by
    simp only [Subs.SimAt] at h
    obtain ⟨b', n', r', rfl, hn, hr⟩ := h
    simp only [Subs.exitedAt, Subs.SimAt]
    exact ⟨_, _, _, rfl, C02.Node.exited_congr hn, hr⟩
  | .cons b n r, y, i+1, j+1, h => by
    simp only [Subs.SimAt] at h
    obtain ⟨b', n', r', rfl, hn, hr⟩ := h
    simp only [Subs.exitedAt, Subs.SimAt]
    exact ⟨_, _, _, rfl, hn, C02.Subs.simAt_exitedAt r r' i j hr⟩
theorem C02.Subs.simAll_exitedAll : (s y : Subs) → s.SimAll y → s.exitedAll.SimAll y.exitedAll
  | .nil, y, h => by simp only [Subs.SimAll] at h; subst h; simp only [Subs.exitedAll, Subs.SimAll]
  | .cons b n r, y, h => by
    simp only [Subs.SimAll] at h
    obtain ⟨b', n', r', rfl, hn, hr⟩ := h
    simp only [Subs.exitedAll, Subs.SimAll]
    exact ⟨_, _, _, rfl, C02.Node.sim_exited n n' hn, C02.Subs.simAll_exitedAll r r' hr⟩
end

/-! ### `enter`, `reenter`, `commit` cannot tell `x` from `y` -/

mutual
theorem C02.Node.sim_enterR : (x y : Node) → x.Sim y → x.enterR.clearMarks = y.enterR.clearMarks
  | .leaf .., y, h => by simp only [Node.Sim] at h; subst h; rfl
  | .compo id rid inj hh st a r (some qi) m s, y, h => by
    simp only [Node.Sim] at h
    obtain ⟨s', rfl, hs⟩ := h
    simp only [Node.enterR, Node.clearMarks, C02.Subs.simAt_enterAtR s s' qi hs]
  | .compo id rid inj hh st (some ai) r none m s, y, h => by
    simp only [Node.Sim] at h
    obtain ⟨s', rfl, hs⟩ := h
    simp only [Node.enterR, Node.clearMarks, C02.Subs.simAt_clearMarks s s' ai hs]
  | .compo id rid inj hh st none r none m s, y, h => by
    simp only [Node.Sim] at h
    obtain ⟨s', rfl, hs⟩ := h
    simp only [Node.enterR, Node.clearMarks, hs]
  | .ortho id rid inj hh s, y, h => by
    simp only [Node.Sim] at h
    obtain ⟨s', rfl, hs⟩ := h
    simp only [Node.enterR, Node.clearMarks, C02.Subs.simAll_enterAllR s s' hs]
theorem C02.Subs.simAt_enterAtR : (s y : Subs) → (i : Nat) → s.SimAt y i →
    (s.enterAtR i).clearMarks = (y.enterAtR i).clearMarks
  | .nil, y, _, h => by simp only [Subs.SimAt] at h; subst h; rfl
  | .cons b n r, y, 0, h => by
    simp only [Subs.SimAt] at h
    obtain ⟨b', n', r', rfl, hn, hr⟩ := h
    simp only [Subs.enterAtR, Subs.clearMarks, C02.Node.sim_enterR n n' hn, hr]
  | .cons b n r, y, i+1, h => by
    simp only [Subs.SimAt] at h
    obtain ⟨b', n', r', rfl, hn, hr⟩ := h
    simp only [Subs.enterAtR, Subs.clearMarks, hn, C02.Subs.simAt_enterAtR r r' i hr]
theorem C02.Subs.simAll_enterAllR : (s y : Subs) → s.SimAll y →
    s.enterAllR.clearMarks = y.enterAllR.clearMarks
  | .nil, y, h => by simp only [Subs.SimAll] at h; subst h; rfl
  | .cons b n r, y, h => by
    simp only [Subs.SimAll] at h
    obtain ⟨b', n', r', rfl, hn, hr⟩ := h
    simp only [Subs.enterAllR, Subs.clearMarks, C02.Node.sim_enterR n n' hn, C02.Subs.simAll_enterAllR r r' hr]
end

/-- leave prong `ai`, enter prong `qi` along the marks -/
theorem C02.Subs.simAt_switch (s y : Subs) (qi ai : Nat) (h : s.SimAt y qi) :
    ((s.exitedAt ai).enterAtR qi).clearMarks = ((y.exitedAt ai).enterAtR qi).clearMarks :=
  C02.Subs.simAt_enterAtR _ _ qi (C02.Subs.simAt_exitedAt s y qi ai h)

mutual
theorem C02.Node.sim_reenterR : (x y : Node) → x.Sim y → x.reenterR.clearMarks = y.reenterR.clearMarks
  | .leaf .., y, h => by simp only [Node.Sim] at h; subst h; rfl
  | .compo id rid inj hh st a r (some qi) m s, y, h => by
    simp only [Node.Sim] at h
    obtain ⟨s', rfl, hs⟩ := h
    cases a with
    | none => simp only [Node.reenterR, Node.clearMarks, C02.Subs.simAt_clearMarks s s' qi hs]
    | some ai =>
      by_cases e : ai = qi
      · subst e
        simp only [Node.reenterR, ↓reduceIte, Node.clearMarks, C02.Subs.simAt_reenterAtR s s' ai hs]
      · simp only [Node.reenterR, e, ↓reduceIte, Node.clearMarks, C02.Subs.simAt_switch s s' qi ai hs]
  | .compo id rid inj hh st (some ai) r none m s, y, h => by
    simp only [Node.Sim] at h
    obtain ⟨s', rfl, hs⟩ := h
    simp only [Node.reenterR, Node.clearMarks, C02.Subs.simAt_clearMarks s s' ai hs]
  | .compo id rid inj hh st none r none m s, y, h => by
    simp only [Node.Sim] at h
    obtain ⟨s', rfl, hs⟩ := h
    simp only [Node.reenterR, Node.clearMarks, hs]
  | .ortho id rid inj hh s, y, h => by
    simp only [Node.Sim] at h
    obtain ⟨s', rfl, hs⟩ := h
    simp only [Node.reenterR, Node.clearMarks, C02.Subs.simAll_reenterAllR s s' hs]
theorem C02.Subs.simAt_reenterAtR : (s y : Subs) → (i : Nat) → s.SimAt y i →
    (s.reenterAtR i).clearMarks = (y.reenterAtR i).clearMarks
  | .nil, y, _, h => by simp only [Subs.SimAt] at h; subst h; rfl
  | .cons b n r, y, 0, h => by
    simp only [Subs.SimAt] at h
    obtain ⟨b', n', r', rfl, hn, hr⟩ := h
    simp only [Subs.reenterAtR, Subs.clearMarks, C02.Node.sim_reenterR n n' hn, hr]
  | .cons b n r, y, i+1, h => by
    simp only [Subs.SimAt] at h
    obtain ⟨b', n', r', rfl, hn, hr⟩ := h
    simp only [Subs.reenterAtR, Subs.clearMarks, hn, C02.Subs.simAt_reenterAtR r r' i hr]
theorem C02.Subs.simAll_reenterAllR : (s y : Subs) → s.SimAll y →
    s.reenterAllR.clearMarks = y.reenterAllR.clearMarks
  | .nil, y, h => by simp only [Subs.SimAll] at h; subst h; rfl
  | .cons b n r, y, h => by
    simp only [Subs.SimAll] at h
    obtain ⟨b', n', r', rfl, hn, hr⟩ := h
    simp only [Subs.reenterAllR, Subs.clearMarks, C02.Node.sim_reenterR n n' hn,
      C02.Subs.simAll_reenterAllR r r' hr]
end

mutual
/-- The commit pass, then `clearRequests`: marks next to the walk do not matter. -/
theorem C02.Node.sim_commitR : (x y : Node) → x.Sim y → x.commitR.clearMarks = y.commitR.clearMarks
  | .leaf .., y, h => by simp only [Node.Sim] at h; subst h; rfl
  | .compo id rid inj hh st a r (some qi) m s, y, h => by
    simp only [Node.Sim] at h
    obtain ⟨s', rfl, hs⟩ := h
    cases a with
    | none => simp only [Node.commitR, Node.clearMarks, C02.Subs.simAt_clearMarks s s' qi hs]
    | some ai =>
      by_cases e : qi = ai
      · subst e
        cases m with
        | true =>
          simp only [Node.commitR, ne_eq, not_true_eq_false, ↓reduceIte, Node.clearMarks,
            C02.Subs.simAt_switch s s' qi qi hs]
        | false =>
          simp only [Node.commitR, ne_eq, not_true_eq_false, ↓reduceIte, Bool.false_eq_true,
            Node.clearMarks, C02.Subs.simAt_reenterAtR s s' qi hs]
      · simp only [Node.commitR, ne_eq, e, not_false_eq_true, ↓reduceIte, Node.clearMarks,
          C02.Subs.simAt_switch s s' qi ai hs]
  | .compo id rid inj hh st (some ai) r none m s, y, h => by
    simp only [Node.Sim] at h
    obtain ⟨s', rfl, hs⟩ := h
    simp only [Node.commitR, Node.clearMarks, C02.Subs.simAt_commitAtR s s' ai hs]
  | .compo id rid inj hh st none r none m s, y, h => by
    simp only [Node.Sim] at h
    obtain ⟨s', rfl, hs⟩ := h
    simp only [Node.commitR, Node.clearMarks, hs]
  | .ortho id rid inj hh s, y, h => by
    simp only [Node.Sim] at h
    obtain ⟨s', rfl, hs⟩ := h
    simp only [Node.commitR, Node.clearMarks, C02.Subs.simAll_commitAllR s s' hs]
theorem C02.Subs.simAt_commitAtR : (s y : Subs) → (i : Nat) → s.SimAt y i →
    (s.commitAtR i).clearMarks = (y.commitAtR i).clearMarks
  | .nil, y, _, h => by simp only [Subs.SimAt] at h; subst h; rfl
  | .cons b n r, y, 0, h => by
    simp only [Subs.SimAt] at h
    obtain ⟨b', n', r', rfl, hn, hr⟩ := h
    simp only [Subs.commitAtR, Subs.clearMarks, C02.Node.sim_commitR n n' hn, hr]
  | .cons b n r, y, i+1, h => by
    simp only [Subs.SimAt] at h
    obtain ⟨b', n', r', rfl, hn, hr⟩ := h
    simp only [Subs.commitAtR, Subs.clearMarks, hn, C02.Subs.simAt_commitAtR r r' i hr]
theorem C02.Subs.simAll_commitAllR : (s y : Subs) → s.SimAll y →
    s.commitAllR.clearMarks = y.commitAllR.clearMarks
  | .nil, y, h => by simp only [Subs.SimAll] at h; subst h; rfl
  | .cons b n r, y, h => by
    simp only [Subs.SimAll] at h
    obtain ⟨b', n', r', rfl, hn, hr⟩ := h
    simp only [Subs.commitAllR, Subs.clearMarks, C02.Node.sim_commitR n n' hn,
      C02.Subs.simAll_commitAllR r r' hr]
end

/-! ### from "every prong resolved" to "the chosen prong resolved" -/

section
variable (ans : Nat → Nat) (k : Kind)

theorem C02.Subs.simAt_of_simAll : (x s : Subs) → (i : Nat) → x.SimAll (s.requestAllR ans k) →
    x.SimAt (s.requestAtR ans k i) i
  | .nil, s, i, h => by
    simp only [Subs.SimAll] at h
    cases s with
    | nil => simp only [Subs.requestAtR, Subs.SimAt]
    | cons b n r => simp only [Subs.requestAllR] at h; cases h
  | .cons bx nx rx, s, i, h => by
    simp only [Subs.SimAll] at h
    obtain ⟨b', n', r', he, hn, hr⟩ := h
    cases s with
    | nil => simp only [Subs.requestAllR] at he; cases he
    | cons b n r =>
      simp only [Subs.requestAllR, Subs.cons.injEq] at he
      obtain ⟨rfl, rfl, rfl⟩ := he
      cases i with
      | zero =>
        simp only [Subs.requestAtR, Subs.SimAt]
        refine ⟨_, _, _, rfl, hn, ?_⟩
        rw [C02.Subs.simAll_clearMarks rx _ hr, C02.Subs.clearMarks_requestAllR]
      | succ i =>
        simp only [Subs.requestAtR, Subs.SimAt]
        refine ⟨_, _, _, rfl, ?_, C02.Subs.simAt_of_simAll rx r i hr⟩
        rw [C02.Node.sim_clearMarks nx _ hn, C02.Node.clearMarks_requestR]

/-- a sub-state list that is equal to `s` up to marks is `SimAt` the list resolved at prong `i` as soon
as its prong `i` is `Sim` the resolved one -/
theorem C02.Subs.simAt_requestAtR_of : (x s : Subs) → (i : Nat) → x.clearMarks = s.clearMarks →
    (∀ nx n, x.get? i = some nx → s.get? i = some n → nx.Sim (n.requestR ans k)) →
    x.SimAt (s.requestAtR ans k i) i
  | .nil, s, i, hc, _ => by
    cases s with
    | nil => simp only [Subs.requestAtR, Subs.SimAt]
    | cons b n r => simp only [Subs.clearMarks] at hc; cases hc
  | .cons bx nx rx, s, i, hc, hi => by
    cases s with
    | nil => simp only [Subs.clearMarks] at hc; cases hc
    | cons b n r =>
      simp only [Subs.clearMarks, Subs.cons.injEq, true_and] at hc
      cases i with
      | zero =>
        simp only [Subs.requestAtR, Subs.SimAt]
        exact ⟨_, _, _, rfl, hi nx n rfl rfl, hc.2⟩
      | succ i =>
        simp only [Subs.requestAtR, Subs.SimAt]
        refine ⟨_, _, _, rfl, hc.1, C02.Subs.simAt_requestAtR_of rx r i hc.2 ?_⟩
        · intro nx' n' h1 h2
          exact hi nx' n' (by simpa only [Subs.get?] using h1) (by simpa only [Subs.get?] using h2)

end

end Hfsm
