/-
A guard walk that answers `true` has not seen a cancellation: started with `_cancelled = false`, it
ends with `_cancelled = false`.  (Contrapositive: once a guard has called
`cancelPendingTransitions()` the round is vetoed.)
-/
import Hfsm.Proofs.StepsFacts

namespace Hfsm
variable {U : Type}

/-- the walk result `r`, obtained from `w`, is `true` only if nothing cancelled -/
def GOK (w : World U) (r : World U × Bool) : Prop :=
  w.cancelled = false → r.2 = true → r.1.cancelled = false

theorem GOK.guardState (w : World U) (sid inj : Nat) (hd : Bool) (m : Method) :
    GOK w (w.guardState sid inj hd m) := by
  intro hc hr
  unfold World.guardState at hr ⊢
  dsimp only at hr ⊢
  rw [hc] at hr
  simpa using hr

theorem GOK.fail (w : World U) (x : World U) : GOK w (x, false) := fun _ h => nomatch h

/-- `let (w1, b) := r1; if b then g w1 else (w1, false)` -/
theorem GOK.andThen {w : World U} {r1 : World U × Bool} (h1 : GOK w r1) (g : World U → World U × Bool)
    (h2 : ∀ w1, GOK w1 (g w1)) : GOK w (if r1.2 = true then g r1.1 else (r1.1, false)) := by
  intro hc hr
  split at hr
  · next hb =>
    rw [if_pos hb]
    exact h2 _ (h1 hc hb) hr
  · cases hr

/-- `let (w1, i) := r1; let (w2, rr) := g w1; (w2, i && rr)` -/
theorem GOK.both {w : World U} {r1 : World U × Bool} (h1 : GOK w r1) (g : World U → World U × Bool)
    (h2 : ∀ w1, GOK w1 (g w1)) : GOK w ((g r1.1).1, r1.2 && (g r1.1).2) := by
  intro hc hr
  simp only [Bool.and_eq_true] at hr
  exact h2 _ (h1 hc hr.1) hr.2

theorem GOK.region {w : World U} (rid hid size : Nat) {r : World U × Bool}
    (h : GOK (w.pushRegion rid hid size).1 r) (sv : Nat × Nat × Nat) : GOK w (r.1.popRegion sv, r.2) := by
  intro hc hr
  exact h hc hr

mutual
theorem Node.entryGuard_gok : (n : Node) → (w : World U) → GOK w (n.entryGuard w)
  | .leaf id inj, w => by simp only [Node.entryGuard]; exact GOK.guardState _ _ _ _ _
  | .compo id rid inj hd _ _ _ q _ s, w => by
    simp only [Node.entryGuard]
    split
    · exact GOK.fail _ _
    · next qi =>
      exact GOK.region rid id (1 + s.size) (GOK.andThen (GOK.guardState _ _ _ _ _) _ (Subs.entryGuardAt_gok s qi)) _
  | .ortho id rid inj hd s, w => by
    simp only [Node.entryGuard]
    exact GOK.region rid id (1 + s.size) (GOK.andThen (GOK.guardState _ _ _ _ _) _ (Subs.entryGuardAll_gok s)) _
theorem Subs.entryGuardAt_gok : (s : Subs) → (i : Nat) → (w : World U) → GOK w (s.entryGuardAt i w)
  | .nil, _, w => by simp only [Subs.entryGuardAt]; exact GOK.fail _ _
  | .cons _ n _, 0, w => by simp only [Subs.entryGuardAt]; exact Node.entryGuard_gok n w
  | .cons _ _ r, i+1, w => by simp only [Subs.entryGuardAt]; exact Subs.entryGuardAt_gok r i w
theorem Subs.entryGuardAll_gok : (s : Subs) → (w : World U) → GOK w (s.entryGuardAll w)
  | .nil, w => by simp only [Subs.entryGuardAll]; exact fun h _ => h
  | .cons _ n r, w => by
    simp only [Subs.entryGuardAll]
    exact GOK.both (Node.entryGuard_gok n w) _ (Subs.entryGuardAll_gok r)
end

/-- `let (w1, i) := (if b then f w else (w, true)); let (w2, rr) := g w1; (w2, i && rr)` -/
theorem GOK.skipOr {w : World U} (b : Bool) (f : World U → World U × Bool) (hf : GOK w (f w)) :
    GOK w (if b = true then f w else (w, true)) := by
  split
  · exact hf
  · exact fun h _ => h

mutual
theorem Node.fwdEntryGuard_gok : (n : Node) → (w : World U) → GOK w (n.fwdEntryGuard w)
  | .leaf id inj, w => by simp only [Node.fwdEntryGuard]; exact fun h _ => h
  | .compo id rid inj hd _ a _ q _ s, w => by
    simp only [Node.fwdEntryGuard]
    refine GOK.region rid id (1 + s.size) ?_ _
    split
    · split
      · exact Subs.fwdEntryGuardAt_gok s _ _
      · exact GOK.fail _ _
    · exact Subs.entryGuardAt_gok s _ _
  | .ortho id rid inj hd s, w => by
    simp only [Node.fwdEntryGuard]
    refine GOK.region rid id (1 + s.size) ?_ _
    split
    · exact Subs.fwdEntryGuardBits_gok s _
    · exact Subs.fwdEntryGuardAll_gok s _
theorem Subs.fwdEntryGuardAt_gok : (s : Subs) → (i : Nat) → (w : World U) → GOK w (s.fwdEntryGuardAt i w)
  | .nil, _, w => by simp only [Subs.fwdEntryGuardAt]; exact GOK.fail _ _
  | .cons _ n _, 0, w => by simp only [Subs.fwdEntryGuardAt]; exact Node.fwdEntryGuard_gok n w
  | .cons _ _ r, i+1, w => by simp only [Subs.fwdEntryGuardAt]; exact Subs.fwdEntryGuardAt_gok r i w
theorem Subs.fwdEntryGuardBits_gok : (s : Subs) → (w : World U) → GOK w (s.fwdEntryGuardBits w)
  | .nil, w => by simp only [Subs.fwdEntryGuardBits]; exact fun h _ => h
  | .cons b n r, w => by
    simp only [Subs.fwdEntryGuardBits]
    exact GOK.both (GOK.skipOr b _ (Node.fwdEntryGuard_gok n w)) _ (Subs.fwdEntryGuardBits_gok r)
theorem Subs.fwdEntryGuardAll_gok : (s : Subs) → (w : World U) → GOK w (s.fwdEntryGuardAll w)
  | .nil, w => by simp only [Subs.fwdEntryGuardAll]; exact fun h _ => h
  | .cons _ n r, w => by
    simp only [Subs.fwdEntryGuardAll]
    exact GOK.both (Node.fwdEntryGuard_gok n w) _ (Subs.fwdEntryGuardAll_gok r)
end

mutual
theorem Node.exitGuard_gok : (n : Node) → (w : World U) → GOK w (n.exitGuard w)
  | .leaf id inj, w => by simp only [Node.exitGuard]; exact GOK.guardState _ _ _ _ _
  | .compo id rid inj hd _ a _ _ _ s, w => by
    simp only [Node.exitGuard]
    split
    · exact GOK.fail _ _
    · next ai =>
      exact GOK.region rid id (1 + s.size)
        (GOK.andThen (Subs.exitGuardAt_gok s ai _) _ (fun w1 => GOK.guardState w1 _ _ _ _)) _
  | .ortho id rid inj hd s, w => by
    simp only [Node.exitGuard]
    exact GOK.region rid id (1 + s.size)
      (GOK.andThen (Subs.exitGuardAll_gok s _) _ (fun w1 => GOK.guardState w1 _ _ _ _)) _
theorem Subs.exitGuardAt_gok : (s : Subs) → (i : Nat) → (w : World U) → GOK w (s.exitGuardAt i w)
  | .nil, _, w => by simp only [Subs.exitGuardAt]; exact GOK.fail _ _
  | .cons _ n _, 0, w => by simp only [Subs.exitGuardAt]; exact Node.exitGuard_gok n w
  | .cons _ _ r, i+1, w => by simp only [Subs.exitGuardAt]; exact Subs.exitGuardAt_gok r i w
theorem Subs.exitGuardAll_gok : (s : Subs) → (w : World U) → GOK w (s.exitGuardAll w)
  | .nil, w => by simp only [Subs.exitGuardAll]; exact fun h _ => h
  | .cons _ n r, w => by
    simp only [Subs.exitGuardAll]
    exact GOK.both (Node.exitGuard_gok n w) _ (Subs.exitGuardAll_gok r)
end

mutual
theorem Node.fwdExitGuard_gok : (n : Node) → (w : World U) → GOK w (n.fwdExitGuard w)
  | .leaf id inj, w => by simp only [Node.fwdExitGuard]; exact GOK.fail _ _
  | .compo id rid inj hd _ a _ q _ s, w => by
    simp only [Node.fwdExitGuard]
    split
    · exact GOK.fail _ _
    · next ai =>
      refine GOK.region rid id (1 + s.size) ?_ _
      split
      · exact Subs.fwdExitGuardAt_gok s _ _
      · exact Subs.exitGuardAt_gok s _ _
  | .ortho id rid inj hd s, w => by
    simp only [Node.fwdExitGuard]
    refine GOK.region rid id (1 + s.size) ?_ _
    split
    · exact Subs.fwdExitGuardBits_gok s _
    · exact Subs.fwdExitGuardAll_gok s _
theorem Subs.fwdExitGuardAt_gok : (s : Subs) → (i : Nat) → (w : World U) → GOK w (s.fwdExitGuardAt i w)
  | .nil, _, w => by simp only [Subs.fwdExitGuardAt]; exact GOK.fail _ _
  | .cons _ n _, 0, w => by simp only [Subs.fwdExitGuardAt]; exact Node.fwdExitGuard_gok n w
  | .cons _ _ r, i+1, w => by simp only [Subs.fwdExitGuardAt]; exact Subs.fwdExitGuardAt_gok r i w
theorem Subs.fwdExitGuardBits_gok : (s : Subs) → (w : World U) → GOK w (s.fwdExitGuardBits w)
  | .nil, w => by simp only [Subs.fwdExitGuardBits]; exact fun h _ => h
  | .cons b n r, w => by
    simp only [Subs.fwdExitGuardBits]
    exact GOK.both (GOK.skipOr b _ (Node.fwdExitGuard_gok n w)) _ (Subs.fwdExitGuardBits_gok r)
theorem Subs.fwdExitGuardAll_gok : (s : Subs) → (w : World U) → GOK w (s.fwdExitGuardAll w)
  | .nil, w => by simp only [Subs.fwdExitGuardAll]; exact fun h _ => h
  | .cons _ n r, w => by
    simp only [Subs.fwdExitGuardAll]
    exact GOK.both (Node.fwdExitGuard_gok n w) _ (Subs.fwdExitGuardAll_gok r)
end

end Hfsm
