/-
The image written by `save` fits the buffer the library reserves for it:
`SERIAL_BITS = 1 + ACTIVE_BITS + RESUMABLE_BITS` of the structure (`Info.serialBits`, Model/ShapeInfo.lean;
closed forms in Props/C17.lean).
-/
import Hfsm.Proofs.SerialTree

namespace Hfsm

mutual
/-- `WrapInfo<T>` of the structure a tree instantiates (cf. `Shape.info`) -/
def Node.info : Node → Info
  | .leaf .. => Info.state
  | .compo _ _ _ _ _ _ _ _ _ s => Info.compo s.len (csiFold s.infos)
  | .ortho _ _ _ _ s => Info.ortho s.len (osiFold s.infos)
def Subs.infos : Subs → List Info
  | .nil => []
  | .cons _ n r => n.info :: r.infos
end

theorem Shapes.toSubs_len : (s : Shapes) → (id rid : Nat) → (s.toSubs id rid).len = s.length
  | .nil, _, _ => rfl
  | .cons _ r, id, rid => by simp [Shapes.toSubs, Subs.len, Shapes.length, Shapes.toSubs_len r]

mutual
theorem Shape.toNode_info : (s : Shape) → (id rid : Nat) → (s.toNode id rid).info = s.info
  | .leaf _, _, _ => rfl
  | .compo _ _ _ subs, id, rid => by
    simp only [Shape.toNode, Node.info, Shape.info]
    rw [Shapes.toSubs_len, Shapes.toSubs_infos subs]
  | .ortho _ _ subs, id, rid => by
    simp only [Shape.toNode, Node.info, Shape.info]
    rw [Shapes.toSubs_len, Shapes.toSubs_infos subs]
theorem Shapes.toSubs_infos : (s : Shapes) → (id rid : Nat) → (s.toSubs id rid).infos = s.infos
  | .nil, _, _ => rfl
  | .cons s r, id, rid => by
    simp only [Shapes.toSubs, Subs.infos, Shapes.infos]
    rw [Shape.toNode_info s, Shapes.toSubs_infos r]
end

mutual
theorem Node.info_cleared : (n : Node) → n.cleared.info = n.info
  | .leaf .. => rfl
  | .compo _ _ _ _ _ _ _ _ _ s => by
    simp only [Node.cleared, Node.info]; rw [Subs.len_cleared, Subs.infos_cleared s]
  | .ortho _ _ _ _ s => by
    simp only [Node.cleared, Node.info]; rw [Subs.len_cleared, Subs.infos_cleared s]
theorem Subs.infos_cleared : (s : Subs) → s.cleared.infos = s.infos
  | .nil => rfl
  | .cons _ n r => by simp only [Subs.cleared, Subs.infos]; rw [Node.info_cleared n, Subs.infos_cleared r]
end

/-- the metadata depends on the structure only -/
theorem Node.info_sameShape {a b : Node} (h : a.sameShape b) : a.info = b.info := by
  rw [← Node.info_cleared a, ← Node.info_cleared b]; exact congrArg Node.info h

theorem csiFold_res (i : Info) (l : List Info) :
    (csiFold (i :: l)).resumableBits = i.resumableBits + (csiFold l).resumableBits := by
  cases l <;> simp [csiFold, Info.single, Info.consC, Info.zero]

theorem csiFold_act (i : Info) (l : List Info) :
    (csiFold (i :: l)).activeBits = max i.activeBits (csiFold l).activeBits := by
  cases l <;> simp [csiFold, Info.single, Info.consC, Info.zero]

theorem osiFold_res (i : Info) (l : List Info) :
    (osiFold (i :: l)).resumableBits = i.resumableBits + (osiFold l).resumableBits := by
  cases l <;> simp [osiFold, Info.single, Info.consO, Info.consC, Info.zero]

theorem osiFold_act (i : Info) (l : List Info) :
    (osiFold (i :: l)).activeBits = i.activeBits + (osiFold l).activeBits := by
  cases l <;> simp [osiFold, Info.single, Info.consO, Info.consC, Info.zero]

theorem osiFold_res_eq_csiFold_res : (l : List Info) → (osiFold l).resumableBits = (csiFold l).resumableBits
  | [] => rfl
  | i :: l => by rw [osiFold_res, csiFold_res, osiFold_res_eq_csiFold_res l]

mutual
theorem Node.saveResumable_length : (n : Node) → n.saveResumable.length ≤ n.info.resumableBits
  | .leaf .. => by simp [Node.saveResumable]
  | .compo _ _ _ _ _ _ r _ _ s => by
    have h1 := resumableBits_length_le (bitContain s.len) r
    have h2 := Subs.saveResumableAll_length s
    simp only [Node.saveResumable, Node.info, Info.compo, List.length_append]
    omega
  | .ortho _ _ _ _ s => by
    have h2 := Subs.saveResumableAll_length s
    simp only [Node.saveResumable, Node.info, Info.ortho]
    rw [osiFold_res_eq_csiFold_res]; exact h2
theorem Subs.saveResumableAll_length : (s : Subs) → s.saveResumableAll.length ≤ (csiFold s.infos).resumableBits
  | .nil => by simp [Subs.saveResumableAll]
  | .cons _ n r => by
    have h1 := Node.saveResumable_length n
    have h2 := Subs.saveResumableAll_length r
    simp only [Subs.saveResumableAll, Subs.infos, List.length_append]
    rw [csiFold_res]; omega
end

/-- once the active prong has been passed the remaining siblings save resumable marks only -/
theorem Subs.saveActiveAt_passed : (s : Subs) → (a : Option Nat) → (i : Nat) → (∀ j, a = some j → j < i) →
    s.saveActiveAt a i = s.saveResumableAll
  | .nil, _, _, _ => rfl
  | .cons _ n r, a, i, h => by
    have hne : ¬ (a = some i) := fun e => Nat.lt_irrefl i (h i e)
    simp only [Subs.saveActiveAt, Subs.saveResumableAll, hne, if_false]
    rw [Subs.saveActiveAt_passed r a (i+1) (fun j e => Nat.lt_succ_of_lt (h j e))]

mutual
theorem Node.saveActive_length : (n : Node) → n.saveActive.length ≤ n.info.activeBits + n.info.resumableBits
  | .leaf .. => by simp [Node.saveActive]
  | .compo _ _ _ _ _ a r _ _ s => by
    have h0 := prongBits_length (bitContain s.len) a
    have h1 := resumableBits_length_le (bitContain s.len) r
    have h2 := Subs.saveActiveAt_length s a 0
    simp only [Node.saveActive, Node.info, Info.compo, List.length_append]
    omega
  | .ortho _ _ _ _ s => by
    have h2 := Subs.saveActiveAll_length s
    simp only [Node.saveActive, Node.info, Info.ortho]
    exact h2
theorem Subs.saveActiveAt_length : (s : Subs) → (a : Option Nat) → (i : Nat) →
    (s.saveActiveAt a i).length ≤ (csiFold s.infos).activeBits + (csiFold s.infos).resumableBits
  | .nil, _, _ => by simp [Subs.saveActiveAt]
  | .cons _ n r, a, i => by
    simp only [Subs.saveActiveAt, Subs.infos, List.length_append]
    rw [csiFold_res, csiFold_act]
    by_cases e : a = some i
    · simp only [e, if_true]
      have h1 := Node.saveActive_length n
      have h2 := Subs.saveResumableAll_length r
      rw [Subs.saveActiveAt_passed r (some i) (i+1) (fun j ej => by cases ej; exact Nat.lt_succ_self _)]
      omega
    · simp only [e, if_false]
      have h1 := Node.saveResumable_length n
      have h2 := Subs.saveActiveAt_length r a (i+1)
      omega
theorem Subs.saveActiveAll_length : (s : Subs) →
    s.saveActiveAll.length ≤ (osiFold s.infos).activeBits + (osiFold s.infos).resumableBits
  | .nil => by simp [Subs.saveActiveAll]
  | .cons _ n r => by
    have h1 := Node.saveActive_length n
    have h2 := Subs.saveActiveAll_length r
    simp only [Subs.saveActiveAll, Subs.infos, List.length_append]
    rw [osiFold_res, osiFold_act]; omega
end

end Hfsm
