import Hfsm.Proofs.WorldRel

namespace Hfsm
variable {U : Type} [UtilArith U]

namespace WRel
variable {R : World U → World U → Prop} (hR : WRel R)
include hR

-- every case: unfold one equation, then peel
local macro "trav " f:ident " [" ts:term,* "]" : tactic => `(tactic| (simp only [$f:ident]; wr hR [$ts,*]))

/-! ### Commit.lean -/

mutual
theorem entryGuard : (n : Node) → (w : World U) → R w (n.entryGuard w).1
  | .leaf .., w => by trav Node.entryGuard []
  | .compo _ _ _ _ _ _ _ q _ s, w => by cases q <;> trav Node.entryGuard [entryGuardAt s _ _]
  | .ortho _ _ _ _ s, w => by trav Node.entryGuard [entryGuardAll s _]
theorem entryGuardAt : (s : Subs) → (i : Nat) → (w : World U) → R w (s.entryGuardAt i w).1
  | .nil, _, w => by trav Subs.entryGuardAt []
  | .cons _ n _, 0, w => by trav Subs.entryGuardAt [entryGuard n _]
  | .cons _ _ r, i+1, w => by trav Subs.entryGuardAt [entryGuardAt r _ _]
theorem entryGuardAll : (s : Subs) → (w : World U) → R w (s.entryGuardAll w).1
  | .nil, w => by trav Subs.entryGuardAll []
  | .cons _ n r, w => by trav Subs.entryGuardAll [entryGuard n _, entryGuardAll r _]
end

mutual
theorem fwdEntryGuard : (n : Node) → (w : World U) → R w (n.fwdEntryGuard w).1
  | .leaf .., w => by trav Node.fwdEntryGuard []
  | .compo _ _ _ _ _ a _ q _ s, w => by
      cases q <;> cases a <;> trav Node.fwdEntryGuard [fwdEntryGuardAt s _ _, hR.entryGuardAt s _ _]
  | .ortho _ _ _ _ s, w => by trav Node.fwdEntryGuard [fwdEntryGuardBits s _, fwdEntryGuardAll s _]
theorem fwdEntryGuardAt : (s : Subs) → (i : Nat) → (w : World U) → R w (s.fwdEntryGuardAt i w).1
  | .nil, _, w => by trav Subs.fwdEntryGuardAt []
  | .cons _ n _, 0, w => by trav Subs.fwdEntryGuardAt [fwdEntryGuard n _]
  | .cons _ _ r, i+1, w => by trav Subs.fwdEntryGuardAt [fwdEntryGuardAt r _ _]
theorem fwdEntryGuardBits : (s : Subs) → (w : World U) → R w (s.fwdEntryGuardBits w).1
  | .nil, w => by trav Subs.fwdEntryGuardBits []
  | .cons b n r, w => by cases b <;> trav Subs.fwdEntryGuardBits [fwdEntryGuard n _, fwdEntryGuardBits r _]
theorem fwdEntryGuardAll : (s : Subs) → (w : World U) → R w (s.fwdEntryGuardAll w).1
  | .nil, w => by trav Subs.fwdEntryGuardAll []
  | .cons _ n r, w => by trav Subs.fwdEntryGuardAll [fwdEntryGuard n _, fwdEntryGuardAll r _]
end

mutual
theorem exitGuard : (n : Node) → (w : World U) → R w (n.exitGuard w).1
  | .leaf .., w => by trav Node.exitGuard []
  | .compo _ _ _ _ _ a _ _ _ s, w => by cases a <;> trav Node.exitGuard [exitGuardAt s _ _]
  | .ortho _ _ _ _ s, w => by trav Node.exitGuard [exitGuardAll s _]
theorem exitGuardAt : (s : Subs) → (i : Nat) → (w : World U) → R w (s.exitGuardAt i w).1
  | .nil, _, w => by trav Subs.exitGuardAt []
  | .cons _ n _, 0, w => by trav Subs.exitGuardAt [exitGuard n _]
  | .cons _ _ r, i+1, w => by trav Subs.exitGuardAt [exitGuardAt r _ _]
theorem exitGuardAll : (s : Subs) → (w : World U) → R w (s.exitGuardAll w).1
  | .nil, w => by trav Subs.exitGuardAll []
  | .cons _ n r, w => by trav Subs.exitGuardAll [exitGuard n _, exitGuardAll r _]
end

mutual
theorem fwdExitGuard : (n : Node) → (w : World U) → R w (n.fwdExitGuard w).1
  | .leaf .., w => by trav Node.fwdExitGuard []
  | .compo _ _ _ _ _ a _ q _ s, w => by
      cases q <;> cases a <;> trav Node.fwdExitGuard [fwdExitGuardAt s _ _, hR.exitGuardAt s _ _]
  | .ortho _ _ _ _ s, w => by trav Node.fwdExitGuard [fwdExitGuardBits s _, fwdExitGuardAll s _]
theorem fwdExitGuardAt : (s : Subs) → (i : Nat) → (w : World U) → R w (s.fwdExitGuardAt i w).1
  | .nil, _, w => by trav Subs.fwdExitGuardAt []
  | .cons _ n _, 0, w => by trav Subs.fwdExitGuardAt [fwdExitGuard n _]
  | .cons _ _ r, i+1, w => by trav Subs.fwdExitGuardAt [fwdExitGuardAt r _ _]
theorem fwdExitGuardBits : (s : Subs) → (w : World U) → R w (s.fwdExitGuardBits w).1
  | .nil, w => by trav Subs.fwdExitGuardBits []
  | .cons b n r, w => by cases b <;> trav Subs.fwdExitGuardBits [fwdExitGuard n _, fwdExitGuardBits r _]
theorem fwdExitGuardAll : (s : Subs) → (w : World U) → R w (s.fwdExitGuardAll w).1
  | .nil, w => by trav Subs.fwdExitGuardAll []
  | .cons _ n r, w => by trav Subs.fwdExitGuardAll [fwdExitGuard n _, fwdExitGuardAll r _]
end

mutual
theorem enter : (n : Node) → (w : World U) → R w (n.enter w).2
  | .leaf .., w => by trav Node.enter []
  | .compo _ _ _ _ _ _ _ q _ s, w => by cases q <;> trav Node.enter [enterAt s _ _]
  | .ortho _ _ _ _ s, w => by trav Node.enter [enterAll s _]
theorem enterAt : (s : Subs) → (i : Nat) → (w : World U) → R w (s.enterAt i w).2
  | .nil, _, w => by trav Subs.enterAt []
  | .cons _ n _, 0, w => by trav Subs.enterAt [enter n _]
  | .cons _ _ r, i+1, w => by trav Subs.enterAt [enterAt r _ _]
theorem enterAll : (s : Subs) → (w : World U) → R w (s.enterAll w).2
  | .nil, w => by trav Subs.enterAll []
  | .cons _ n r, w => by trav Subs.enterAll [enter n _, enterAll r _]
end

mutual
theorem exit : (n : Node) → (w : World U) → R w (n.exit w).2
  | .leaf .., w => by trav Node.exit []
  | .compo _ _ _ _ _ a _ _ _ s, w => by cases a <;> trav Node.exit [exitAt s _ _]
  | .ortho _ _ _ _ s, w => by trav Node.exit [exitAll s _]
theorem exitAt : (s : Subs) → (i : Nat) → (w : World U) → R w (s.exitAt i w).2
  | .nil, _, w => by trav Subs.exitAt []
  | .cons _ n _, 0, w => by trav Subs.exitAt [exit n _]
  | .cons _ _ r, i+1, w => by trav Subs.exitAt [exitAt r _ _]
theorem exitAll : (s : Subs) → (w : World U) → R w (s.exitAll w).2
  | .nil, w => by trav Subs.exitAll []
  | .cons _ n r, w => by trav Subs.exitAll [exit n _, exitAll r _]
end

mutual
theorem reenter : (n : Node) → (w : World U) → R w (n.reenter w).2
  | .leaf .., w => by trav Node.reenter []
  | .compo _ _ _ _ _ a _ q _ s, w => by
      cases q <;> cases a <;> trav Node.reenter [reenterAt s _ _, hR.enterAt _ _ _, hR.exitAt s _ _]
  | .ortho _ _ _ _ s, w => by trav Node.reenter [reenterAll s _]
theorem reenterAt : (s : Subs) → (i : Nat) → (w : World U) → R w (s.reenterAt i w).2
  | .nil, _, w => by trav Subs.reenterAt []
  | .cons _ n _, 0, w => by trav Subs.reenterAt [reenter n _]
  | .cons _ _ r, i+1, w => by trav Subs.reenterAt [reenterAt r _ _]
theorem reenterAll : (s : Subs) → (w : World U) → R w (s.reenterAll w).2
  | .nil, w => by trav Subs.reenterAll []
  | .cons _ n r, w => by trav Subs.reenterAll [reenter n _, reenterAll r _]
end

mutual
theorem commit : (n : Node) → (w : World U) → R w (n.commit w).2
  | .leaf .., w => by trav Node.commit []
  | .compo _ _ _ _ _ a _ q _ s, w => by
      cases q <;> cases a <;>
        trav Node.commit [commitAt s _ _, hR.reenterAt s _ _, hR.enterAt _ _ _, hR.exitAt s _ _]
  | .ortho _ _ _ _ s, w => by trav Node.commit [commitAll s _]
theorem commitAt : (s : Subs) → (i : Nat) → (w : World U) → R w (s.commitAt i w).2
  | .nil, _, w => by trav Subs.commitAt []
  | .cons _ n _, 0, w => by trav Subs.commitAt [commit n _]
  | .cons _ _ r, i+1, w => by trav Subs.commitAt [commitAt r _ _]
theorem commitAll : (s : Subs) → (w : World U) → R w (s.commitAll w).2
  | .nil, w => by trav Subs.commitAll []
  | .cons _ n r, w => by trav Subs.commitAll [commit n _, commitAll r _]
end

/-! ### Dispatch.lean -/

mutual
theorem tick (ph : Method) : (n : Node) → (w : World U) → R w (n.tick ph w).1
  | .leaf .., w => by trav Node.tick []
  | .compo _ _ _ _ _ a _ _ _ s, w => by cases a <;> trav Node.tick [tickAt ph s _ _]
  | .ortho _ _ _ _ s, w => by trav Node.tick [tickAll ph s _]
theorem tickAt (ph : Method) : (s : Subs) → (i : Nat) → (w : World U) → R w (s.tickAt ph i w).1
  | .nil, _, w => by trav Subs.tickAt []
  | .cons _ n _, 0, w => by trav Subs.tickAt [tick ph n _]
  | .cons _ _ r, i+1, w => by trav Subs.tickAt [tickAt ph r _ _]
theorem tickAll (ph : Method) : (s : Subs) → (w : World U) → R w (s.tickAll ph w).1
  | .nil, w => by trav Subs.tickAll []
  | .cons _ n r, w => by trav Subs.tickAll [tick ph n _, tickAll ph r _]
end

mutual
theorem react (ph : Method) (hf po : Bool) : (n : Node) → (w : World U) → R w (n.react ph hf po w).1
  | .leaf .., w => by trav Node.react []
  | .compo _ _ _ _ _ a _ _ _ s, w => by cases a <;> trav Node.react [reactAt ph hf po s _ _]
  | .ortho _ _ _ _ s, w => by trav Node.react [reactAll ph hf po s _]
theorem reactAt (ph : Method) (hf po : Bool) : (s : Subs) → (i : Nat) → (w : World U) → R w (s.reactAt ph hf po i w).1
  | .nil, _, w => by trav Subs.reactAt []
  | .cons _ n _, 0, w => by trav Subs.reactAt [react ph hf po n _]
  | .cons _ _ r, i+1, w => by trav Subs.reactAt [reactAt ph hf po r _ _]
theorem reactAll (ph : Method) (hf po : Bool) : (s : Subs) → (w : World U) → R w (s.reactAll ph hf po w).1
  | .nil, w => by trav Subs.reactAll []
  | .cons _ n r, w => by trav Subs.reactAll [react ph hf po n _, reactAll ph hf po r _]
end

mutual
theorem query (hf : Bool) : (n : Node) → (w : World U) → R w (n.query hf w)
  | .leaf .., w => by trav Node.query []
  | .compo _ _ _ _ _ a _ _ _ s, w => by cases a <;> trav Node.query [queryAt hf s _ _]
  | .ortho _ _ _ _ s, w => by trav Node.query [queryAll hf s _]
theorem queryAt (hf : Bool) : (s : Subs) → (i : Nat) → (w : World U) → R w (s.queryAt hf i w)
  | .nil, _, w => by trav Subs.queryAt []
  | .cons _ n _, 0, w => by trav Subs.queryAt [query hf n _]
  | .cons _ _ r, i+1, w => by trav Subs.queryAt [queryAt hf r _ _]
theorem queryAll (hf : Bool) : (s : Subs) → (w : World U) → R w (s.queryAll hf w)
  | .nil, w => by trav Subs.queryAll []
  | .cons _ n r, w => by trav Subs.queryAll [query hf n _, queryAll hf r _]
end

/-! ### plans -/

omit hR [UtilArith U] in
theorem runTasks_length (headId : Nat) : (p : List Task) → (w : World U) → (clr : Nat) →
    (World.runTasks headId p w clr).1.length ≤ p.length
  | [], w, clr => by simp [World.runTasks]
  | t :: rest, w, clr => by
      simp only [World.runTasks]
      split
      · exact Nat.le_refl _
      · split
        · split
          · exact Nat.le_trans (runTasks_length headId rest _ _) (Nat.le_succ _)
          · exact Nat.le_trans (runTasks_length headId rest _ _) (Nat.le_succ _)
        · simp only [List.length_cons]
          exact Nat.succ_le_succ (runTasks_length headId rest _ _)

theorem runTasks (headId : Nat) : (p : List Task) → (w : World U) → (clr : Nat) →
    R w (World.runTasks headId p w clr).2.1
  | [], w, clr => by simp only [World.runTasks]; exact hR.refl _
  | t :: rest, w, clr => by
      simp only [World.runTasks]
      split
      · exact hR.refl _
      · split
        · split
          · refine hR.trans ?_ (runTasks headId rest _ _)
            exact hR.frame' (hR.taskRequest w headId t.dest t.payload) rfl rfl rfl rfl rfl
          · refine hR.trans ?_ (runTasks headId rest _ _)
            exact hR.taskRequest w headId t.dest t.payload
        · exact runTasks headId rest w clr

omit hR [UtilArith U] in
theorem logRec_plans (w : World U) (r : LogRec U) :
    (w.logRec r).plans = w.plans ∧ (w.logRec r).regionId = w.regionId := by
  unfold World.logRec World.emit; split <;> exact ⟨rfl, rfl⟩

omit hR [UtilArith U] in
theorem ctlRequest_plans (w : World U) (k : Kind) (d : Nat) (p : Option Nat) :
    (w.ctlRequest k d p).plans = w.plans ∧ (w.ctlRequest k d p).regionId = w.regionId := by
  simp only [World.ctlRequest]
  refine ⟨(logRec_plans _ _).1.trans ?_, (logRec_plans _ _).2.trans ?_⟩ <;>
    (split <;> split <;> rfl)

omit hR [UtilArith U] in
theorem runTasks_plans (headId : Nat) : (p : List Task) → (w : World U) → (clr : Nat) →
    (World.runTasks headId p w clr).2.1.plans = w.plans ∧
    (World.runTasks headId p w clr).2.1.regionId = w.regionId
  | [], w, clr => by simp [World.runTasks]
  | t :: rest, w, clr => by
      simp only [World.runTasks]
      split
      · exact ⟨rfl, rfl⟩
      · split
        · have h := ctlRequest_plans ({ w with origin := some headId }) .change t.dest t.payload
          split
          · have ih := runTasks_plans headId rest
              { ({ ({ w with origin := some headId }).ctlRequest .change t.dest t.payload with origin := w.origin }) with
                succ := World.clearBit ({ ({ w with origin := some headId }).ctlRequest .change t.dest t.payload with origin := w.origin }).succ t.origin } clr
            exact ⟨ih.1.trans h.1, ih.2.trans h.2⟩
          · have ih := runTasks_plans headId rest
              { ({ w with origin := some headId }).ctlRequest .change t.dest t.payload with origin := w.origin }
              (World.setBit clr t.origin)
            exact ⟨ih.1.trans h.1, ih.2.trans h.2⟩
        · exact runTasks_plans headId rest w clr

theorem updatePlan (w : World U) (headId inj : Nat) (headed : Bool) (st : TaskStatus) :
    R w (w.updatePlan headId inj headed st).1 := by
  simp only [World.updatePlan]
  split
  · refine hR.trans ?_ (hR.stateMethod _ _ _ _ _)
    refine hR.trans ?_ (hR.logLoose _ _ rfl)
    exact hR.frame rfl rfl rfl rfl rfl
  · split
    · generalize hres : World.runTasks headId (w.planOf w.regionId) w 0 = res
      have h1 := hR.runTasks headId (w.planOf w.regionId) w 0
      have h2 := runTasks_length headId (w.planOf w.regionId) w 0
      have h3 := runTasks_plans headId (w.planOf w.regionId) w 0
      rw [hres] at h1 h2 h3
      obtain ⟨p', w', clr⟩ := res
      refine hR.frame' (b := w'.setPlan w'.regionId p') (hR.trans h1 (hR.shrinkPlan _ _ _ ?_)) rfl rfl rfl rfl rfl
      simp only [World.planOf] at h2 ⊢
      rw [h3.1, h3.2]; exact h2
    · refine hR.trans ?_ (hR.stateMethod _ _ _ _ _)
      refine hR.trans ?_ (hR.logLoose _ _ rfl)
      exact hR.frame rfl rfl rfl rfl rfl
  · exact hR.refl _

mutual
theorem updatePlans : (n : Node) → (w : World U) → R w (n.updatePlans w).1
  | .leaf .., w => by trav Node.updatePlans []
  | .compo _ _ _ _ _ a _ _ _ s, w => by
      cases a <;> trav Node.updatePlans [updatePlansAt s _ _, hR.updatePlan _ _ _ _ _]
  | .ortho _ _ _ _ s, w => by trav Node.updatePlans [updatePlansAll s _, hR.updatePlan _ _ _ _ _]
theorem updatePlansAt : (s : Subs) → (i : Nat) → (w : World U) → R w (s.updatePlansAt i w).1
  | .nil, _, w => by trav Subs.updatePlansAt []
  | .cons _ n _, 0, w => by trav Subs.updatePlansAt [updatePlans n _]
  | .cons _ _ r, i+1, w => by trav Subs.updatePlansAt [updatePlansAt r _ _]
theorem updatePlansAll : (s : Subs) → (w : World U) → R w (s.updatePlansAll w).1
  | .nil, w => by trav Subs.updatePlansAll []
  | .cons _ n r, w => by trav Subs.updatePlansAll [updatePlans n _, updatePlansAll r _]
end

/-! ### Forward.lean -/

theorem resolveRandom (w : World U) (headId : Nat) (us : List U) (sum : U) (rks : List Int) (top : Int) :
    R w (w.resolveRandom headId us sum rks top).1 := by
  simp only [World.resolveRandom]
  split
  · exact hR.fail' ..
  · split
    · refine hR.trans ?_ (hR.logLoose _ _ rfl)
      exact hR.frame rfl rfl rfl rfl rfl
    · refine hR.trans ?_ (hR.fail' _ _)
      exact hR.frame rfl rfl rfl rfl rfl

mutual
theorem reportChange : (n : Node) → (w : World U) → R w (n.reportChange w).2.1
  | .leaf .., w => by trav Node.reportChange []
  | .compo _ _ _ _ st _ _ _ _ s, w => by
      cases st <;> trav Node.reportChange [reportChangeAt s _ _, reportChangeAll s _, reportRankAll s _,
        reportChangeTop s _ _ _, hR.resolveRandom _ _ _ _ _ _]
  | .ortho _ _ _ _ s, w => by trav Node.reportChange [reportChangeAll s _]
theorem reportChangeAt : (s : Subs) → (i : Nat) → (w : World U) → R w (s.reportChangeAt i w).2.1
  | .nil, _, w => by trav Subs.reportChangeAt []
  | .cons _ n _, 0, w => by trav Subs.reportChangeAt [reportChange n _]
  | .cons _ _ r, i+1, w => by trav Subs.reportChangeAt [reportChangeAt r _ _]
theorem reportChangeAll : (s : Subs) → (w : World U) → R w (s.reportChangeAll w).2.1
  | .nil, w => by trav Subs.reportChangeAll []
  | .cons _ n r, w => by trav Subs.reportChangeAll [reportChange n _, reportChangeAll r _]
theorem reportChangeTop : (s : Subs) → (rks : List Int) → (top : Int) → (w : World U) →
    R w (s.reportChangeTop rks top w).2.1
  | .nil, _, _, w => by trav Subs.reportChangeTop []
  | .cons _ n r, rks, top, w => by trav Subs.reportChangeTop [reportChange n _, reportChangeTop r _ _ _]
theorem reportRankAll : (s : Subs) → (w : World U) → R w (s.reportRankAll w).1
  | .nil, w => by trav Subs.reportRankAll []
  | .cons _ n r, w => by cases n <;> trav Subs.reportRankAll [reportRankAll r _]
end

mutual
theorem reportUtilize : (n : Node) → (w : World U) → R w (n.reportUtilize w).2.1
  | .leaf .., w => by trav Node.reportUtilize []
  | .compo _ _ _ _ _ _ _ _ _ s, w => by trav Node.reportUtilize [reportUtilizeAll s _]
  | .ortho _ _ _ _ s, w => by trav Node.reportUtilize [reportUtilizeAll s _]
theorem reportUtilizeAll : (s : Subs) → (w : World U) → R w (s.reportUtilizeAll w).2.1
  | .nil, w => by trav Subs.reportUtilizeAll []
  | .cons _ n r, w => by trav Subs.reportUtilizeAll [reportUtilize n _, reportUtilizeAll r _]
end

mutual
theorem reportRandomize : (n : Node) → (w : World U) → R w (n.reportRandomize w).2.1
  | .leaf .., w => by trav Node.reportRandomize []
  | .compo _ _ _ _ _ _ _ _ _ s, w => by
      trav Node.reportRandomize [hR.reportRankAll s _, reportRandomizeTop s _ _ _, hR.resolveRandom _ _ _ _ _ _]
  | .ortho _ _ _ _ s, w => by trav Node.reportRandomize [reportRandomizeAll s _]
theorem reportRandomizeAll : (s : Subs) → (w : World U) → R w (s.reportRandomizeAll w).2.1
  | .nil, w => by trav Subs.reportRandomizeAll []
  | .cons _ n r, w => by trav Subs.reportRandomizeAll [reportRandomize n _, reportRandomizeAll r _]
theorem reportRandomizeTop : (s : Subs) → (rks : List Int) → (top : Int) → (w : World U) →
    R w (s.reportRandomizeTop rks top w).2.1
  | .nil, _, _, w => by trav Subs.reportRandomizeTop []
  | .cons _ n r, rks, top, w => by trav Subs.reportRandomizeTop [reportRandomize n _, reportRandomizeTop r _ _ _]
end

mutual
theorem request : (n : Node) → (rq : Req) → (w : World U) → R w (n.request rq w).2
  | .leaf .., rq, w => by trav Node.request []
  | .ortho _ _ _ _ s, rq, w => by trav Node.request [requestAll s _ _]
  | .compo _ _ _ _ st _ _ _ _ s, rq, w => by
      cases st <;> cases hk : rq.kind <;> simp only [Node.request, effectiveKind, hk] <;>
        wr hR [requestAt s _ _ _, hR.reportChangeAll s _, hR.reportUtilizeAll s _, hR.reportRankAll s _,
          hR.reportChangeTop s _ _ _, hR.reportRandomizeTop s _ _ _, hR.resolveRandom _ _ _ _ _ _]
theorem requestAt : (s : Subs) → (i : Nat) → (rq : Req) → (w : World U) → R w (s.requestAt i rq w).2
  | .nil, _, _, w => by trav Subs.requestAt []
  | .cons _ n _, 0, rq, w => by trav Subs.requestAt [request n _ _]
  | .cons _ _ r, i+1, rq, w => by trav Subs.requestAt [requestAt r _ _ _]
theorem requestAll : (s : Subs) → (rq : Req) → (w : World U) → R w (s.requestAll rq w).2
  | .nil, _, w => by trav Subs.requestAll []
  | .cons _ n r, rq, w => by trav Subs.requestAll [request n _ _, requestAll r _ _]
end

mutual
theorem fwdRequest : (n : Node) → (rq : Req) → (w : World U) → R w (n.fwdRequest rq w).2
  | .leaf .., rq, w => by trav Node.fwdRequest []
  | .compo id rid inj h st a r q m s, rq, w => by
      cases q <;> trav Node.fwdRequest [fwdRequestAt s _ _ _, hR.request (.compo id rid inj h st a r none m s) _ _]
  | .ortho id rid inj h s, rq, w => by
      trav Node.fwdRequest [fwdRequestAll s _ _, hR.request (.ortho id rid inj h s) _ _]
theorem fwdRequestAt : (s : Subs) → (i : Nat) → (rq : Req) → (w : World U) → R w (s.fwdRequestAt i rq w).2
  | .nil, _, _, w => by trav Subs.fwdRequestAt []
  | .cons _ n _, 0, rq, w => by trav Subs.fwdRequestAt [fwdRequest n _ _]
  | .cons _ _ r, i+1, rq, w => by trav Subs.fwdRequestAt [fwdRequestAt r _ _ _]
theorem fwdRequestAll : (s : Subs) → (rq : Req) → (w : World U) → R w (s.fwdRequestAll rq w).2
  | .nil, _, w => by trav Subs.fwdRequestAll []
  | .cons _ n r, rq, w => by trav Subs.fwdRequestAll [fwdRequest n _ _, fwdRequestAll r _ _]
end

mutual
theorem fwdActive : (n : Node) → (rq : Req) → (w : World U) → R w (n.fwdActive rq w).2
  | .leaf .., rq, w => by trav Node.fwdActive []
  | .compo _ _ _ _ _ a _ q _ s, rq, w => by
      cases q <;> cases a <;> trav Node.fwdActive [fwdActiveAt s _ _ _, hR.fwdRequestAt s _ _ _]
  | .ortho _ _ _ _ s, rq, w => by trav Node.fwdActive [fwdActiveBits s _ _]
theorem fwdActiveAt : (s : Subs) → (i : Nat) → (rq : Req) → (w : World U) → R w (s.fwdActiveAt i rq w).2
  | .nil, _, _, w => by trav Subs.fwdActiveAt []
  | .cons _ n _, 0, rq, w => by trav Subs.fwdActiveAt [fwdActive n _ _]
  | .cons _ _ r, i+1, rq, w => by trav Subs.fwdActiveAt [fwdActiveAt r _ _ _]
theorem fwdActiveBits : (s : Subs) → (rq : Req) → (w : World U) → R w (s.fwdActiveBits rq w).2
  | .nil, _, w => by trav Subs.fwdActiveBits []
  | .cons b n r, rq, w => by cases b <;> trav Subs.fwdActiveBits [fwdActive n _ _, fwdActiveBits r _ _]
end

end WRel
end Hfsm
