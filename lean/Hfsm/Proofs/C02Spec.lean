/-
C02 — the declarative specification of "what configuration results from a request".

Nothing in this file mentions the operational passes (`mark`, `request`, `fwdRequest`, `fwdActive`,
`commit`, `enter`, `exit`, `reenter`): the functions below compute the prescribed `active` /
`resumable` fields of every composite region directly from the configuration before the request,
the destination path and the request kind.  The only model definition used is `effectiveKind`
(`change` resolves by the region's declared strategy).

  pickProng    the sub-state a composite region takes when it is entered or re-targeted by kind
  Node.choose  a sub-tree that is entered fresh: every region picks by kind, recursively; an
               orthogonal region enters all its sub-states; entering the resumable sub-state clears
               the resumable mark (documented `deepEnter` behaviour)
  Node.exited  a sub-tree that is left: every active region records the sub-state it leaves
  Node.retarget an active sub-tree that is re-targeted in place: a region whose pick equals its
               active sub-state keeps it and re-targets below; otherwise it switches (leaves the old
               sub-state, records it as resumable, enters the new one by kind)
  Node.enterPath an inactive sub-tree entered along the path to the destination: composite regions
               on the path take the path's prong, everything else entered on the way picks by kind
  Node.spec    the whole tree: walk the active configuration along the path; the first composite
               region whose active prong differs from the path switches; if the path stays inside
               the active configuration, the *active prong of the lowest composite ancestor of the
               destination* is the unit that is re-targeted (for a destination directly below that
               ancestor this is the destination itself; when orthogonal regions lie between, it is
               the outermost of them — see `Props/C02.lean`, reading note R2)

Answers of `select()` / utility / random resolution are an oracle `ans : region head id → prong`;
the theorems of `Props/C02.lean` that are fully declarative are those for answer-free requests
(`AnswerFree`), for which `ans` is never consulted.
-/
import Hfsm.Model.Forward
import Hfsm.Proofs.Wf

namespace Hfsm

/-- The sub-state a composite region takes when a request of kind `k` enters or re-targets it:
restart → the first; resume → the resumable one, else the first; change → whichever of these the
region was declared with; select / utilize / randomize → the answer `ans id` of the region's head. -/
def pickProng (ans : Nat → Nat) (id : Nat) (st : Strategy) (r : Option Nat) (k : Kind) : Nat :=
  match effectiveKind st k with
  | .restart => 0
  | .resume => r.getD 0
  | _ => ans id

/-- A composite/resumable strategy needs no answer from user code under `change`. -/
def Strategy.plain : Strategy → Bool
  | .composite | .resumable => true
  | _ => false

mutual
/-- every composite region of the sub-tree is declared `composite` or `resumable` -/
def Node.plain : Node → Bool
  | .leaf .. => true
  | .compo _ _ _ _ st _ _ _ _ s => st.plain && s.plainAll
  | .ortho _ _ _ _ s => s.plainAll
def Subs.plainAll : Subs → Bool
  | .nil => true
  | .cons _ n r => n.plain && r.plainAll
end

/-- Requests whose outcome does not depend on `select()` / `utility()` / `rank()` / the generator. -/
def AnswerFree (k : Kind) (n : Node) : Prop :=
  k = .restart ∨ k = .resume ∨ (k = .change ∧ n.plain = true)

instance (k : Kind) (n : Node) : Decidable (AnswerFree k n) := by unfold AnswerFree; infer_instance

section
variable (ans : Nat → Nat) (k : Kind)

mutual
/-- A sub-tree entered fresh by a request of kind `k`. -/
def Node.choose : Node → Node
  | .leaf id inj => .leaf id inj
  | .compo id rid inj h st _ r q m s =>
    let i := pickProng ans id st r k
    .compo id rid inj h st (some i) (if some i = r then none else r) q m (s.chooseAt i)
  | .ortho id rid inj h s => .ortho id rid inj h s.chooseAll
def Subs.chooseAt : Subs → Nat → Subs
  | .nil, _ => .nil
  | .cons b n r, 0 => .cons b n.choose r
  | .cons b n r, i+1 => .cons b n (r.chooseAt i)
def Subs.chooseAll : Subs → Subs
  | .nil => .nil
  | .cons b n r => .cons b n.choose r.chooseAll
end

end

mutual
/-- A sub-tree that is left: each active composite region becomes inactive and remembers the
sub-state it leaves. -/
def Node.exited : Node → Node
  | .leaf id inj => .leaf id inj
  | .compo id rid inj h st a r q m s =>
    match a with
    | some ai => .compo id rid inj h st none (some ai) q m (s.exitedAt ai)
    | none => .compo id rid inj h st a r q m s
  | .ortho id rid inj h s => .ortho id rid inj h s.exitedAll
def Subs.exitedAt : Subs → Nat → Subs
  | .nil, _ => .nil
  | .cons b n r, 0 => .cons b n.exited r
  | .cons b n r, i+1 => .cons b n (r.exitedAt i)
def Subs.exitedAll : Subs → Subs
  | .nil => .nil
  | .cons b n r => .cons b n.exited r.exitedAll
end

section
variable (ans : Nat → Nat) (k : Kind)

mutual
/-- An active sub-tree re-targeted in place by a request of kind `k`. -/
def Node.retarget : Node → Node
  | .leaf id inj => .leaf id inj
  | .compo id rid inj h st a r q m s =>
    match a with
    | none => .compo id rid inj h st a r q m s
    | some ai =>
      let i := pickProng ans id st r k
      if i = ai then .compo id rid inj h st a r q m (s.retargetAt ai)
      else .compo id rid inj h st (some i) (some ai) q m ((s.exitedAt ai).chooseAt ans k i)
  | .ortho id rid inj h s => .ortho id rid inj h s.retargetAll
def Subs.retargetAt : Subs → Nat → Subs
  | .nil, _ => .nil
  | .cons b n r, 0 => .cons b n.retarget r
  | .cons b n r, i+1 => .cons b n (r.retargetAt i)
def Subs.retargetAll : Subs → Subs
  | .nil => .nil
  | .cons b n r => .cons b n.retarget r.retargetAll
end

mutual
/-- An inactive sub-tree entered along the path `p` to the destination. -/
def Node.enterPath : Node → List Nat → Node
  | n, [] => n.choose ans k
  | .leaf id inj, _ :: _ => .leaf id inj
  | .compo id rid inj h st _ r q m s, i :: rest =>
    .compo id rid inj h st (some i) (if some i = r then none else r) q m (s.enterPathAt i rest)
  | .ortho id rid inj h s, i :: rest => .ortho id rid inj h (s.enterPathAll i rest)
def Subs.enterPathAt : Subs → Nat → List Nat → Subs
  | .nil, _, _ => .nil
  | .cons b n r, 0, p => .cons b (n.enterPath p) r
  | .cons b n r, i+1, p => .cons b n (r.enterPathAt i p)
/-- orthogonal region: the sub-state on the path is entered along the path, every other one by kind -/
def Subs.enterPathAll : Subs → Nat → List Nat → Subs
  | .nil, _, _ => .nil
  | .cons b n r, 0, p => .cons b (n.enterPath p) (r.chooseAll ans k)
  | .cons b n r, i+1, p => .cons b (n.choose ans k) (r.enterPathAll i p)
end

end

mutual
/-- Does the path from `n` to the destination pass through a composite region above the destination
(`n` itself included when the path is not empty)? -/
def Node.hasCompo : Node → List Nat → Bool
  | _, [] => false
  | .leaf .., _ :: _ => false
  | .compo .., _ :: _ => true
  | .ortho _ _ _ _ s, i :: rest => s.hasCompoAt i rest
def Subs.hasCompoAt : Subs → Nat → List Nat → Bool
  | .nil, _, _ => false
  | .cons _ n _, 0, p => n.hasCompo p
  | .cons _ _ r, i+1, p => r.hasCompoAt i p
end

section
variable (ans : Nat → Nat) (k : Kind)

mutual
/-- The configuration prescribed for an active tree `n` by one request of kind `k` whose destination
lies at path `p`. -/
def Node.spec : Node → List Nat → Node
  | n, [] => n.retarget ans k
  | .leaf id inj, _ :: _ => .leaf id inj
  | .compo id rid inj h st a r q m s, i :: rest =>
    match a with
    | none => .compo id rid inj h st a r q m s
    | some ai =>
      if ai = i then .compo id rid inj h st a r q m (s.specAt i rest)
      else .compo id rid inj h st (some i) (some ai) q m ((s.exitedAt ai).enterPathAt ans k i rest)
  | .ortho id rid inj h s, i :: rest => .ortho id rid inj h (s.specThrough i rest)
/-- the active prong of a composite region on the path: when no composite region lies between it and
the destination it is re-targeted as a whole -/
def Subs.specAt : Subs → Nat → List Nat → Subs
  | .nil, _, _ => .nil
  | .cons b n r, 0, p => .cons b (if n.hasCompo p then n.spec p else n.retarget ans k) r
  | .cons b n r, i+1, p => .cons b n (r.specAt i p)
/-- an orthogonal region on the path only passes the request down -/
def Subs.specThrough : Subs → Nat → List Nat → Subs
  | .nil, _, _ => .nil
  | .cons b n r, 0, p => .cons b (n.spec p) r
  | .cons b n r, i+1, p => .cons b n (r.specThrough i p)
end

/-- `spec root dest kind`: the prescribed configuration after one request `(kind, dest)`. -/
def Node.specTo (root : Node) (dest : Nat) : Node :=
  match root.pathTo dest with
  | some p => root.spec ans k p
  | none => root

end

section
variable (ans : Nat → Nat) (k : Kind)

-- The literal reading of the property text ("regions no request touches keep their sub-state"): only
-- the destination itself is re-targeted when it is already active.  It differs from `Node.spec` exactly
-- when orthogonal regions lie between the destination and its lowest composite ancestor (reading note
-- R2 of Props/C02.lean); the library does NOT behave like this then.
mutual
def Node.specLit : Node → List Nat → Node
  | n, [] => n.retarget ans k
  | .leaf id inj, _ :: _ => .leaf id inj
  | .compo id rid inj h st a r q m s, i :: rest =>
    match a with
    | none => .compo id rid inj h st a r q m s
    | some ai =>
      if ai = i then .compo id rid inj h st a r q m (s.specLitAt i rest)
      else .compo id rid inj h st (some i) (some ai) q m ((s.exitedAt ai).enterPathAt ans k i rest)
  | .ortho id rid inj h s, i :: rest => .ortho id rid inj h (s.specLitAt i rest)
def Subs.specLitAt : Subs → Nat → List Nat → Subs
  | .nil, _, _ => .nil
  | .cons b n r, 0, p => .cons b (n.specLit p) r
  | .cons b n r, i+1, p => .cons b n (r.specLitAt i p)
end

end

mutual
/-- the direct parent of the destination is a composite region (or the destination is `n` itself) -/
def Node.parentCompo : Node → List Nat → Bool
  | _, [] => true
  | .leaf .., _ :: _ => false
  | .compo .., [_] => true
  | .ortho .., [_] => false
  | .compo _ _ _ _ _ _ _ _ _ s, i :: j :: rest => s.parentCompoAt i (j :: rest)
  | .ortho _ _ _ _ s, i :: j :: rest => s.parentCompoAt i (j :: rest)
def Subs.parentCompoAt : Subs → Nat → List Nat → Bool
  | .nil, _, _ => false
  | .cons _ n _, 0, p => n.parentCompo p
  | .cons _ _ r, i+1, p => r.parentCompoAt i p
end

mutual
/-- `p` is the path of an existing state below `n`. -/
def Node.ValidPath : Node → List Nat → Prop
  | _, [] => True
  | .leaf .., _ :: _ => False
  | .compo _ _ _ _ _ _ _ _ _ s, i :: rest => s.ValidAt i rest
  | .ortho _ _ _ _ s, i :: rest => s.ValidAt i rest
def Subs.ValidAt : Subs → Nat → List Nat → Prop
  | .nil, _, _ => False
  | .cons _ n _, 0, p => n.ValidPath p
  | .cons _ _ r, i+1, p => r.ValidAt i p
end

mutual
/-- The configuration: `(head state id, active, resumable)` of every composite region in pre-order
(what `activeSubState` / `isActive` / `isResumable` expose). -/
def Node.config : Node → List (Nat × Option Nat × Option Nat)
  | .leaf .. => []
  | .compo id _ _ _ _ a r _ _ s => (id, a, r) :: s.configAll
  | .ortho _ _ _ _ s => s.configAll
def Subs.configAll : Subs → List (Nat × Option Nat × Option Nat)
  | .nil => []
  | .cons _ n r => n.config ++ r.configAll
end

end Hfsm
