/-
`Mach.processRequest` as a whole: the substitution loop, then one commit pass.
-/
import Hfsm.Proofs.Rounds

set_option linter.unusedSectionVars false

namespace Hfsm
variable {U : Type} [UtilArith U]

namespace Mach

/-- the machine the substitution loop of `processRequest` starts from -/
def stepStart (m : Mach U) : Mach U := { m with w := m.w.clearTargets.freshControl }

/-- result of the substitution loop of `processRequest` -/
def stepLoop (m : Mach U) : Mach U × List Transition :=
  rounds false m.stepStart.w.cfg.substitutionLimit m.stepStart m.stepStart.root []

/-- ghost log of the substitution loop of `processRequest` -/
def stepLog (m : Mach U) : List (List Transition × Outcome) :=
  roundsLog false m.stepStart.w.cfg.substitutionLimit m.stepStart m.stepStart.root []

theorem stepStart_sized (m : Mach U) : TargetsSized m.stepStart.w := by
  unfold TargetsSized stepStart World.clearTargets World.freshControl
  dsimp only
  by_cases h : m.w.cfg.history = true
  · left; simp only [h, if_true, List.length_replicate]
  · right; simp only [h]; simpa using h

theorem World.clearTargets_cfg (w : World U) : w.clearTargets.cfg = w.cfg := by
  unfold World.clearTargets; split <;> rfl

theorem World.clearTargets_requests (w : World U) : w.clearTargets.requests = w.requests := by
  unfold World.clearTargets; split <;> rfl

theorem stepStart_cfg (m : Mach U) : m.stepStart.w.cfg = m.w.cfg := by
  unfold stepStart World.freshControl; exact World.clearTargets_cfg _

/-- `processRequest` with a non-empty queue, spelled out with the named pieces. -/
theorem processRequest_eq (m : Mach U) (hne : m.w.requests.isEmpty = false) :
    m.processRequest =
      let m1 := m.stepLoop.1
      let current := m.stepLoop.2
      let m2 : Mach U := if current.isEmpty then m1 else
        { m1 with root := (m1.root.commit (({ m1.w.freshControl with current := current }).snapshot m1.root false false)).1,
                  w := (m1.root.commit (({ m1.w.freshControl with current := current }).snapshot m1.root false false)).2 }
      let m3 := ({ m2 with root := m2.root.clearMarks }).updateActivity
      { m3 with w := { m3.w with previous := if m3.w.cfg.history then current else m3.w.previous } } := by
  unfold processRequest
  have h1 : ({ m with w := m.w.clearTargets } : Mach U).w.requests.isEmpty = false := by
    show m.w.clearTargets.requests.isEmpty = false
    rw [World.clearTargets_requests]; exact hne
  rw [if_neg (by rw [h1]; exact Bool.false_ne_true)]
  rfl

theorem stepStart_trace (m : Mach U) : m.stepStart.w.trace = m.w.trace := by
  unfold stepStart World.freshControl World.clearTargets; dsimp only; split <;> rfl

theorem updActivity_w (m : Mach U) : m.updateActivity.w = m.w := rfl
theorem updActivity_root (m : Mach U) : m.updateActivity.root = m.root := rfl

/-- The trace of a processing step: the events of the substitution loop (`LoopRun`), then — only if some
round was approved — the lifecycle events of the single commit pass, all showing the approved
transitions as `currentTransitions`. -/
theorem processRequest_trace (m : Mach U) (hne : m.w.requests.isEmpty = false) :
    ∃ life evs, m.processRequest.w.trace = life ++ evs ++ m.w.trace ∧
      LoopRun m.w.cfg.substitutionLimit [] evs m.stepLog ∧
      (∀ e ∈ life, LifeEv m.stepLoop.2 e) ∧ (m.stepLoop.2 = [] → life = []) ∧
      m.stepLoop.2 = approvedOf m.stepLog := by
  obtain ⟨evs, ht, hl, hc⟩ := rounds_run false m.stepStart.w.cfg.substitutionLimit m.stepStart m.stepStart.root []
    (stepStart_sized m)
  rw [stepStart_cfg] at hl
  have hc' : m.stepLoop.2 = approvedOf m.stepLog := by
    unfold stepLoop stepLog; rw [hc]; rfl
  rw [processRequest_eq m hne]
  dsimp only
  by_cases hcur : m.stepLoop.2.isEmpty = true
  · refine ⟨[], evs, ?_, ?_, (fun _ h => nomatch h), fun _ => rfl, hc'⟩
    · rw [if_pos hcur]
      show m.stepLoop.1.w.trace = _
      unfold stepLoop; rw [ht, stepStart_trace]; rfl
    · unfold stepLog; rw [stepStart_cfg]; exact hl
  · rw [if_neg hcur]
    have s := Node.commit_steps m.stepLoop.1.root
      (({ m.stepLoop.1.w.freshControl with current := m.stepLoop.2 }).snapshot m.stepLoop.1.root false false) _ (Steps.refl _)
    obtain ⟨life, hlt, hlp⟩ := s.frame.trace
    refine ⟨life, evs, ?_, ?_, ?_, ?_, hc'⟩
    · show (m.stepLoop.1.root.commit _).2.trace = _
      rw [hlt]
      show life ++ m.stepLoop.1.w.trace = _
      unfold stepLoop; rw [ht, stepStart_trace, List.append_assoc]
    · unfold stepLog; rw [stepStart_cfg]; exact hl
    · intro e he; exact (hlp e he).life
    · intro h; rw [h] at hcur; exact absurd rfl hcur

/-- `previousTransitions` after a step: the requests of the approved rounds, in order; empty when the
queue was empty. (`history = false`: the feature is compiled out, the field is dead.) -/
theorem processRequest_previous (m : Mach U) (hh : m.w.cfg.history = true) :
    m.processRequest.w.previous = if m.w.requests.isEmpty then [] else approvedOf m.stepLog := by
  by_cases hne : m.w.requests.isEmpty = true
  · rw [if_pos hne]
    unfold processRequest
    have h1 : ({ m with w := m.w.clearTargets } : Mach U).w.requests.isEmpty = true := by
      show m.w.clearTargets.requests.isEmpty = true
      rw [World.clearTargets_requests]; exact hne
    rw [if_pos h1]
    show (if m.w.clearTargets.cfg.history = true then [] else _) = _
    rw [World.clearTargets_cfg, if_pos hh]
  · have hne' : m.w.requests.isEmpty = false := by simpa using hne
    rw [if_neg hne]
    obtain ⟨_, _, _, _, _, _, hc⟩ := processRequest_trace m hne'
    rw [processRequest_eq m hne']
    dsimp only
    have hcfg1 : m.stepLoop.1.w.cfg = m.w.cfg := by
      unfold stepLoop; rw [rounds_cfg _ _ _ _ _ (stepStart_sized m), stepStart_cfg]
    have hcfg : (if m.stepLoop.2.isEmpty = true then m.stepLoop.1 else
        { m.stepLoop.1 with
          root := (m.stepLoop.1.root.commit (({ m.stepLoop.1.w.freshControl with current := m.stepLoop.2 }).snapshot m.stepLoop.1.root false false)).1,
          w := (m.stepLoop.1.root.commit (({ m.stepLoop.1.w.freshControl with current := m.stepLoop.2 }).snapshot m.stepLoop.1.root false false)).2 }).w.cfg = m.w.cfg := by
      split
      · exact hcfg1
      · exact (Node.commit_steps _ _ _ (Steps.refl _)).frame.cfg.trans hcfg1
    rw [updActivity_w]
    dsimp only
    rw [hcfg, if_pos hh, hc]

/-- A step in which no round was approved changes nothing but resumable marks (scheduling) and request
marks (cleared): structure and active prongs are those before the step. -/
theorem processRequest_frozen_of_none_approved (m : Mach U) (hne : m.w.requests.isEmpty = false)
    (hnone : approvedOf m.stepLog = []) : m.processRequest.root.noResumable = m.root.frozen := by
  obtain ⟨_, _, _, _, _, _, hc⟩ := processRequest_trace m hne
  rw [processRequest_eq m hne]
  dsimp only
  rw [hc, hnone]
  show (m.stepLoop.1.root.clearMarks).noResumable = _
  rw [Node.clearMarks_noMarks_frozen]
  unfold stepLoop
  rw [rounds_frozen _ _ _ _ _ (stepStart_sized m) rfl]
  rfl

/-- the commit pass and the bookkeeping after it do not touch `transitionTargets` -/
theorem processRequest_targets (m : Mach U) (hne : m.w.requests.isEmpty = false) :
    m.processRequest.w.targets = m.stepLoop.1.w.targets := by
  rw [processRequest_eq m hne]
  dsimp only
  rw [updActivity_w]
  dsimp only
  split
  · rfl
  · exact (Node.commit_steps _ _ _ (Steps.refl _)).targets_of_no_pin (fun _ h => h)

/-- `transitionTargets` after a step (history feature on): every entry is empty or an index into the
request list of one of the rounds of the step. -/
theorem processRequest_targets_bound (m : Mach U) (hne : m.w.requests.isEmpty = false)
    (hh : m.w.cfg.history = true) (s : Nat) :
    m.processRequest.w.targets.getD s none = none ∨
    ∃ i, m.processRequest.w.targets.getD s none = some i ∧ ∃ r ∈ m.stepLog, i < r.1.length := by
  rw [processRequest_targets m hne]
  have h0 : m.stepStart.w.targets.getD s none = none := by
    unfold stepStart World.freshControl
    exact World.clearTargets_getD m.w s hh
  have := rounds_targets false m.stepStart.w.cfg.substitutionLimit m.stepStart m.stepStart.root []
    (stepStart_sized m) s
  rw [h0] at this
  unfold stepLoop stepLog
  rcases this with h | h | h
  · exact .inl h
  · exact .inl h
  · exact .inr h

theorem rounds_of_log_nil (initial : Bool) : (fuel : Nat) → (m : Mach U) → (backup : Node) → (current : List Transition) →
    roundsLog initial fuel m backup current = [] → rounds initial fuel m backup current = (m, current)
  | 0, m, backup, current, _ => rounds_zero _ _ _ _
  | fuel+1, m, backup, current, h => by
    rw [rounds_succ]
    simp only [roundsLog] at h
    split at h
    · next he => rw [if_pos he]
    · cases h

/-- A step whose loop ran exactly one round ends where that round ended. -/
theorem single_round_step (m : Mach U) (reqs : List Transition) (o : Outcome) (h : m.stepLog = [(reqs, o)]) :
    m.stepLoop = ((roundStep false m.stepStart m.stepStart.root []).1,
      (roundStep false m.stepStart m.stepStart.root []).2.2.1) ∧
    reqs = m.stepStart.w.requests ∧ o = (roundStep false m.stepStart m.stepStart.root []).2.2.2 := by
  unfold stepLog at h
  unfold stepLoop
  cases hl : m.stepStart.w.cfg.substitutionLimit with
  | zero => rw [hl] at h; simp only [roundsLog] at h; cases h
  | succ k =>
    rw [hl] at h
    rw [rounds_succ]
    simp only [roundsLog] at h
    split at h
    · cases h
    · next he =>
      rw [if_neg he]
      simp only [List.cons.injEq, Prod.mk.injEq] at h
      obtain ⟨⟨h1, h2⟩, h3⟩ := h
      exact ⟨rounds_of_log_nil false k _ _ _ h3, h1.symm, h2.symm⟩

/-- N4: `replayEnter` with an empty history does nothing and answers `false`. -/
theorem replayEnter_nil (m : Mach U) : m.replayEnter [] = ({ m with w := m.w.clearTargets }, false) := by
  unfold replayEnter
  simp only [List.isEmpty_nil, if_true]

theorem replayTransitions_nil (m : Mach U) :
    m.replayTransitions [] = ({ m with w := { m.w.clearTargets with previous := [] } }, false) := by
  unfold replayTransitions
  simp only [List.isEmpty_nil, if_true]

end Mach
end Hfsm
