/-
Helper lemmas for `Props.C18` (bit stream part): what the chunk loops of `write<W>` / `read<W>` do to the
bits of the buffer (`bitAt`) and to the buffer read as one little-endian number (`toNat`).
-/
import Hfsm.Model.Stream
import Hfsm.Proofs.Bits
namespace Hfsm.Model.Stream
open Hfsm.Model.Bits

/-! ### arithmetic of the cursor -/

theorem shr3 (c : Nat) : c >>> 3 = c / 8 := by
  rw [Nat.shiftRight_eq_div_pow]

theorem and7 (c : Nat) : c &&& 7 = c % 8 := by
  have := Nat.and_two_pow_sub_one_eq_mod c 3
  simpa using this

/-- End of the bit range a `write` of `w` bits at cursor `c` can affect: the end of the last byte touched
(`c` itself when nothing is written). -/
def lim (c w : Nat) : Nat := if w = 0 then c else 8 * ((c + w + 7) / 8)

theorem itemTypeBits_ge8 (w : Nat) : 8 ≤ itemTypeBits w := by
  unfold itemTypeBits
  split
  · omega
  · split <;> omega

theorem itemTypeBits_ge (w : Nat) (h : w ≤ 32) : w ≤ itemTypeBits w := by
  unfold itemTypeBits
  split
  · omega
  · split <;> omega

/-! ### the buffer as a number -/

theorem testBit_toNat : ∀ (s : Storage) (i : Nat), (toNat s).testBit i = bitAt s i
  | [], i => by simp [toNat, bitAt]
  | b :: bs, i => by
    unfold toNat
    have hb : b.toNat < 2 ^ 8 := b.isLt
    have := Nat.testBit_two_pow_mul_add (toNat bs) hb i
    rw [show (256 : Nat) = 2 ^ 8 from rfl, Nat.add_comm, this]
    by_cases hi : i < 8
    · rw [if_pos hi, bitAt_cons_lt _ _ _ hi, BitVec.testBit_toNat]
    · rw [if_neg hi, bitAt_cons_ge _ _ _ (by omega), testBit_toNat bs]

theorem toNat_lt : ∀ (s : Storage), toNat s < 2 ^ (8 * s.length)
  | [] => by simp [toNat]
  | b :: bs => by
    unfold toNat
    have hb : b.toNat < 256 := b.isLt
    have ih := toNat_lt bs
    have : 2 ^ (8 * (b :: bs).length) = 256 * 2 ^ (8 * bs.length) := by
      rw [List.length_cons, Nat.mul_add, Nat.pow_add, Nat.mul_comm]
    rw [this]
    omega

theorem toNat_inj (a b : Storage) (hl : a.length = b.length) (h : toNat a = toNat b) : a = b := by
  apply storage_ext a b hl
  intro i
  rw [← testBit_toNat, ← testBit_toNat, h]

/-! ### buffer comparison -/

theorem bufEq_eq_decide : ∀ (a b : Storage), a.length = b.length → bufEq a b = decide (a = b)
  | [], [], _ => by simp [bufEq]
  | [], _ :: _, h => by simp at h
  | _ :: _, [], h => by simp at h
  | x :: xs, y :: ys, hl => by
    have ih := bufEq_eq_decide xs ys (by simpa using hl)
    unfold bufEq
    by_cases hxy : x = y
    · subst hxy; simp [ih]
    · simp [hxy]

theorem bufNe_eq_not_bufEq : ∀ (a b : Storage), bufNe a b = !bufEq a b
  | [], [] => by simp [bufEq, bufNe]
  | [], _ :: _ => by simp [bufEq, bufNe]
  | _ :: _, [] => by simp [bufEq, bufNe]
  | x :: xs, y :: ys => by
    unfold bufEq bufNe
    by_cases hxy : x = y
    · subst hxy; simp [bufNe_eq_not_bufEq xs ys]
    · simp [hxy]

/-! ### one iteration of the write loop -/

/-- Bits of `byte |= (Item)(itemBits << start)` for an `Item` of at least 8 bits. -/
theorem getLsbD_orChunk (T : Nat) (hT : 8 ≤ T) (byte : Byte) (item st k : Nat) (hk : k < 8) :
    (byte ||| BitVec.ofNat 8 ((item <<< st) % 2 ^ T)).getLsbD k
      = (byte.getLsbD k || (decide (st ≤ k) && item.testBit (k - st))) := by
  rw [BitVec.getLsbD_or, BitVec.getLsbD_ofNat, Nat.testBit_mod_two_pow, Nat.testBit_shiftLeft]
  have h1 : k < T := by omega
  simp [hk, h1]

/-- Effect of one iteration of the write loop on the bits of the buffer. -/
theorem bitAt_writeStep (T : Nat) (hT : 8 ≤ T) (buf : Storage) (item c i : Nat)
    (hc : c / 8 < buf.length) :
    bitAt (buf.set (c / 8) (buf.getD (c / 8) 0#8 ||| BitVec.ofNat 8 ((item <<< (c % 8)) % 2 ^ T))) i
      = (bitAt buf i || (decide (c ≤ i) && decide (i < 8 * (c / 8 + 1)) && item.testBit (i - c))) := by
  rw [bitAt_setByte]
  by_cases h : i / 8 = c / 8
  · rw [if_pos ⟨h, hc⟩, getLsbD_orChunk T hT _ _ _ _ (Nat.mod_lt _ (by decide))]
    unfold bitAt
    rw [h]
    have h3 : i < 8 * (c / 8 + 1) := by omega
    by_cases h2 : c ≤ i
    · have h1 : c % 8 ≤ i % 8 := by omega
      have h4 : i % 8 - c % 8 = i - c := by omega
      simp [h1, h2, h3, h4]
    · have h1 : ¬ c % 8 ≤ i % 8 := by omega
      simp [h1, h2]
  · have : ¬ (i / 8 = c / 8 ∧ c / 8 < buf.length) := fun hh => h hh.1
    rw [if_neg this]
    have : ¬ (c ≤ i ∧ i < 8 * (c / 8 + 1)) := by omega
    by_cases h2 : c ≤ i
    · have h3 : ¬ i < 8 * (c / 8 + 1) := by omega
      simp [h3]
    · simp [h2]

/-! ### the write loop -/

theorem writeLoop_zero (T fuel item : Nat) (buf : Storage) (c : Nat) :
    writeLoop T fuel item 0 buf c = ⟨buf, c, []⟩ := by
  cases fuel <;> simp [writeLoop]

theorem writeLoop_cursor (T : Nat) : ∀ (fuel item w : Nat) (buf : Storage) (c : Nat), w ≤ fuel →
    (writeLoop T fuel item w buf c).cursor = c + w
  | 0, item, w, buf, c, h => by
    have : w = 0 := by omega
    subst this; simp [writeLoop]
  | fuel + 1, item, w, buf, c, h => by
    unfold writeLoop
    by_cases hw : w = 0
    · subst hw; simp
    · simp only [hw, if_false]
      rw [writeLoop_cursor T fuel _ _ _ _ (by rw [and7]; omega), and7]
      omega

theorem writeLoop_length (T : Nat) : ∀ (fuel item w : Nat) (buf : Storage) (c : Nat),
    (writeLoop T fuel item w buf c).buf.length = buf.length
  | 0, item, w, buf, c => by simp [writeLoop]
  | fuel + 1, item, w, buf, c => by
    unfold writeLoop
    by_cases hw : w = 0
    · subst hw; simp
    · simp only [hw, if_false]
      rw [writeLoop_length T fuel]; simp

/-- Every byte index the write loop dereferences holds at least one bit of `[c, c + w)`. -/
theorem writeLoop_touched (T : Nat) : ∀ (fuel item w : Nat) (buf : Storage) (c : Nat), w ≤ fuel →
    ∀ k ∈ (writeLoop T fuel item w buf c).touched, c / 8 ≤ k ∧ 8 * k < c + w
  | 0, item, w, buf, c, h => by simp [writeLoop]
  | fuel + 1, item, w, buf, c, h => by
    unfold writeLoop
    by_cases hw : w = 0
    · subst hw; simp
    · simp only [hw, if_false]
      intro k hk
      simp only [List.mem_cons] at hk
      rcases hk with hk | hk
      · rw [hk, shr3]; omega
      · have := writeLoop_touched T fuel _ _ _ _ (by rw [and7]; omega) k hk
        rw [and7] at this
        omega

/-- Bits of the buffer after the write loop, for an arbitrary `itemBits` (also out of contract):
inside the bytes touched, bits from the cursor on are OR-ed with the bits of `itemBits`. -/
theorem writeLoop_bits (T : Nat) (hT : 8 ≤ T) : ∀ (fuel item w : Nat) (buf : Storage) (c : Nat),
    w ≤ fuel → c + w ≤ 8 * buf.length → ∀ i,
    bitAt (writeLoop T fuel item w buf c).buf i
      = (bitAt buf i || (decide (c ≤ i) && decide (i < lim c w) && item.testBit (i - c)))
  | 0, item, w, buf, c, h, _, i => by
    have : w = 0 := by omega
    subst this
    have : ¬ (c ≤ i ∧ i < c) := by omega
    simp only [writeLoop, lim, if_true]
    by_cases h2 : c ≤ i
    · have : ¬ i < c := by omega
      simp [this]
    · simp [h2]
  | fuel + 1, item, w, buf, c, h, hfit, i => by
    unfold writeLoop
    by_cases hw : w = 0
    · subst hw
      simp only [if_true, lim]
      by_cases h2 : c ≤ i
      · have : ¬ i < c := by omega
        simp [this]
      · simp [h2]
    · simp only [hw, if_false]
      rw [shr3, and7]
      have hc : c / 8 < buf.length := by omega
      have hcw1 : 1 ≤ min (8 - c % 8) w := by omega
      rw [writeLoop_bits T hT fuel _ _ _ _ (by omega) (by rw [List.length_set]; omega) i,
        bitAt_writeStep T hT buf item c i hc, Nat.testBit_shiftRight]
      by_cases h2 : c + min (8 - c % 8) w ≤ i
      · have e : min (8 - c % 8) w + (i - (c + min (8 - c % 8) w)) = i - c := by omega
        rw [e]
        have hc1 : c ≤ i := by omega
        cases hA : bitAt buf i <;> cases htb : item.testBit (i - c) <;>
          simp only [lim, hw, if_false, Bool.or_false, Bool.and_false, Bool.false_or,
            Bool.true_or, Bool.and_true, h2, hc1, decide_true, Bool.true_and]
        -- remaining: the two ranges together are the range up to `lim`
        by_cases h3 : w - min (8 - c % 8) w = 0
        · simp only [h3, if_true]
          have : ¬ i < c + min (8 - c % 8) w := by omega
          simp only [this, decide_false, Bool.or_false]
          congr 1
          apply propext
          omega
        · simp only [h3, if_false]
          have e2 : c + min (8 - c % 8) w + (w - min (8 - c % 8) w) = c + w := by omega
          rw [e2]
          have : ¬ i < 8 * (c / 8 + 1) := by omega
          simp [this]
      · have h2' : decide (c + min (8 - c % 8) w ≤ i) = false := by simpa using h2
        simp only [h2', Bool.false_and, Bool.or_false]
        congr 2
        by_cases hc1 : c ≤ i
        · simp only [hc1, decide_true, Bool.true_and, lim, hw, if_false]
          congr 1
          apply propext
          omega
        · simp [hc1]

/-! ### the read loop -/

theorem readLoop_cursor (T : Nat) (buf : Storage) : ∀ (fuel item ic w c : Nat), w ≤ fuel →
    (readLoop T buf fuel item ic w c).cursor = c + w
  | 0, item, ic, w, c, h => by
    have : w = 0 := by omega
    subst this; simp [readLoop]
  | fuel + 1, item, ic, w, c, h => by
    unfold readLoop
    by_cases hw : w = 0
    · subst hw; simp
    · simp only [hw, if_false]
      rw [readLoop_cursor T buf fuel _ _ _ _ (by rw [and7]; omega), and7]
      omega

/-- Every byte index the read loop dereferences holds at least one bit of `[c, c + w)`. -/
theorem readLoop_touched (T : Nat) (buf : Storage) : ∀ (fuel item ic w c : Nat), w ≤ fuel →
    ∀ k ∈ (readLoop T buf fuel item ic w c).touched, c / 8 ≤ k ∧ 8 * k < c + w
  | 0, item, ic, w, c, h => by simp [readLoop]
  | fuel + 1, item, ic, w, c, h => by
    unfold readLoop
    by_cases hw : w = 0
    · subst hw; simp
    · simp only [hw, if_false]
      intro k hk
      simp only [List.mem_cons] at hk
      rcases hk with hk | hk
      · rw [hk, shr3]; omega
      · have := readLoop_touched T buf fuel _ _ _ _ (by rw [and7]; omega) k hk
        rw [and7] at this
        omega

/-- Bits of one chunk as extracted by the read loop. -/
theorem testBit_readChunk (T : Nat) (buf : Storage) (c cw ic j : Nat) (hcw : cw ≤ 8 - c % 8)
    (hT : ic + cw ≤ T) :
    ((((buf.getD (c / 8) 0#8).toNat >>> (c % 8) &&& ((1 <<< cw) - 1)) <<< ic) % 2 ^ T).testBit j
      = (decide (ic ≤ j) && decide (j < ic + cw) && bitAt buf (c + (j - ic))) := by
  rw [Nat.testBit_mod_two_pow, Nat.testBit_shiftLeft, Nat.testBit_and, Nat.testBit_shiftRight,
    Nat.one_shiftLeft, Nat.testBit_two_pow_sub_one, BitVec.testBit_toNat]
  by_cases h1 : ic ≤ j
  · by_cases h2 : j < ic + cw
    · have h3 : j < T := by omega
      have h4 : j - ic < cw := by omega
      have h5 : (c + (j - ic)) / 8 = c / 8 := by omega
      have h6 : (c + (j - ic)) % 8 = c % 8 + (j - ic) := by omega
      unfold bitAt
      rw [h5, h6]
      simp [h1, h2, h3, h4]
    · have h4 : ¬ j - ic < cw := by omega
      simp [h2, h4]
  · simp [h1]

/-- Bits of the item assembled by the read loop. -/
theorem readLoop_bits (T : Nat) (buf : Storage) : ∀ (fuel item ic w c : Nat), w ≤ fuel → ic + w ≤ T →
    ∀ j, (readLoop T buf fuel item ic w c).item.testBit j
      = (item.testBit j || (decide (ic ≤ j) && decide (j < ic + w) && bitAt buf (c + (j - ic))))
  | 0, item, ic, w, c, h, _, j => by
    have : w = 0 := by omega
    subst this
    simp only [readLoop]
    by_cases h1 : ic ≤ j
    · have : ¬ j < ic := by omega
      simp [this]
    · simp [h1]
  | fuel + 1, item, ic, w, c, h, hT, j => by
    unfold readLoop
    by_cases hw : w = 0
    · subst hw
      simp only [if_true]
      by_cases h1 : ic ≤ j
      · have : ¬ j < ic := by omega
        simp [this]
      · simp [h1]
    · simp only [hw, if_false]
      rw [shr3, and7]
      rw [readLoop_bits T buf fuel _ _ _ _ (by omega) (by omega) j, Nat.testBit_or,
        testBit_readChunk T buf c _ ic j (Nat.min_le_left _ _) (by omega)]
      cases hI : item.testBit j
      · simp only [Bool.false_or]
        by_cases h1 : ic ≤ j
        · by_cases h2 : j < ic + min (8 - c % 8) w
          · have h3 : j < ic + w := by omega
            have h4 : ¬ ic + min (8 - c % 8) w ≤ j := by omega
            simp [h1, h2, h3, h4]
          · have h4 : ic + min (8 - c % 8) w ≤ j := by omega
            have e1 : ic + min (8 - c % 8) w + (w - min (8 - c % 8) w) = ic + w := by omega
            have e2 : c + min (8 - c % 8) w + (j - (ic + min (8 - c % 8) w)) = c + (j - ic) := by omega
            rw [e1, e2]
            simp [h1, h2, h4]
        · have h4 : ¬ ic + min (8 - c % 8) w ≤ j := by omega
          simp [h1, h4]
      · simp

end Hfsm.Model.Stream
