/-
Which states the guard walks visit and which states the commit pass touches, as functions of the tree,
and how the two relate (C04 (c)): under `BitsOK` every state the commit pass exits / enters / re-enters
is visited by the forward exit- / entry-guard walk of the same tree.
-/
import Hfsm.Proofs.LoopFacts

set_option linter.unusedSectionVars false

namespace Hfsm
variable {U : Type}

/-! ### static sets -/

mutual
/-- headed states below `n` that `enter` / `entryGuard` visit: follow the `requested` prongs -/
def Node.reqIds : Node → List Nat
  | .leaf id _ => [id]
  | .compo id _ _ h _ _ _ q _ s => match q with
    | none => []
    | some qi => (if h then [id] else []) ++ s.reqIdsAt qi
  | .ortho id _ _ h s => (if h then [id] else []) ++ s.reqIdsAll
def Subs.reqIdsAt : Subs → Nat → List Nat
  | .nil, _ => []
  | .cons _ n _, 0 => n.reqIds
  | .cons _ _ r, i+1 => r.reqIdsAt i
def Subs.reqIdsAll : Subs → List Nat
  | .nil => []
  | .cons _ n r => n.reqIds ++ r.reqIdsAll
end

mutual
/-- headed states below `n` that `exit` / `exitGuard` visit: follow the `active` prongs -/
def Node.actIds : Node → List Nat
  | .leaf id _ => [id]
  | .compo id _ _ h _ a _ _ _ s => match a with
    | none => []
    | some ai => (if h then [id] else []) ++ s.actIdsAt ai
  | .ortho id _ _ h s => (if h then [id] else []) ++ s.actIdsAll
def Subs.actIdsAt : Subs → Nat → List Nat
  | .nil, _ => []
  | .cons _ n _, 0 => n.actIds
  | .cons _ _ r, i+1 => r.actIdsAt i
def Subs.actIdsAll : Subs → List Nat
  | .nil => []
  | .cons _ n r => n.actIds ++ r.actIdsAll
end

def exits (l : List Nat) : List (Nat × Method) := l.map (·, Method.exit)
def enters (l : List Nat) : List (Nat × Method) := l.map (·, Method.enter)

mutual
/-- lifecycle callbacks `reenter` delivers below `n` -/
def Node.reenterActs : Node → List (Nat × Method)
  | .leaf id _ => [(id, .reenter)]
  | .compo id _ _ h _ a _ q _ s => match a, q with
    | some ai, some qi =>
      (if h then [(id, .reenter)] else []) ++
        (if ai = qi then s.reenterActsAt ai else exits (s.actIdsAt ai) ++ enters (s.reqIdsAt qi))
    | _, _ => []
  | .ortho id _ _ h s => (if h then [(id, .reenter)] else []) ++ s.reenterActsAll
def Subs.reenterActsAt : Subs → Nat → List (Nat × Method)
  | .nil, _ => []
  | .cons _ n _, 0 => n.reenterActs
  | .cons _ _ r, i+1 => r.reenterActsAt i
def Subs.reenterActsAll : Subs → List (Nat × Method)
  | .nil => []
  | .cons _ n r => n.reenterActs ++ r.reenterActsAll
end

mutual
/-- lifecycle callbacks the commit pass (`deepChangeToRequested`) delivers below `n` -/
def Node.commitActs : Node → List (Nat × Method)
  | .leaf .. => []
  | .compo _ _ _ _ _ a _ q m s => match a with
    | none => []
    | some ai => match q with
      | none => s.commitActsAt ai
      | some qi =>
        if qi ≠ ai then exits (s.actIdsAt ai) ++ enters (s.reqIdsAt qi)
        else if m then exits (s.actIdsAt ai) ++ enters (s.reqIdsAt ai)
        else s.reenterActsAt ai
  | .ortho _ _ _ _ s => s.commitActsAll
def Subs.commitActsAt : Subs → Nat → List (Nat × Method)
  | .nil, _ => []
  | .cons _ n _, 0 => n.commitActs
  | .cons _ _ r, i+1 => r.commitActsAt i
def Subs.commitActsAll : Subs → List (Nat × Method)
  | .nil => []
  | .cons _ n r => n.commitActs ++ r.commitActsAll
end

mutual
/-- headed states whose `exitGuard` the forward exit-guard walk invokes when nothing cancels -/
def Node.fwdExitIds : Node → List Nat
  | .leaf .. => []
  | .compo _ _ _ _ _ a _ q _ s => match a with
    | none => []
    | some ai => match q with
      | none => s.fwdExitIdsAt ai
      | some _ => s.actIdsAt ai
  | .ortho _ _ _ _ s => if s.anyBit then s.fwdExitIdsBits else s.fwdExitIdsAll
def Subs.fwdExitIdsAt : Subs → Nat → List Nat
  | .nil, _ => []
  | .cons _ n _, 0 => n.fwdExitIds
  | .cons _ _ r, i+1 => r.fwdExitIdsAt i
def Subs.fwdExitIdsBits : Subs → List Nat
  | .nil => []
  | .cons b n r => (if b then n.fwdExitIds else []) ++ r.fwdExitIdsBits
def Subs.fwdExitIdsAll : Subs → List Nat
  | .nil => []
  | .cons _ n r => n.fwdExitIds ++ r.fwdExitIdsAll
end

mutual
/-- headed states whose `entryGuard` the forward entry-guard walk invokes when nothing cancels -/
def Node.fwdEntryIds : Node → List Nat
  | .leaf .. => []
  | .compo _ _ _ _ _ a _ q _ s => match q with
    | none => (match a with
      | some ai => s.fwdEntryIdsAt ai
      | none => [])
    | some qi => s.reqIdsAt qi
  | .ortho _ _ _ _ s => if s.anyBit then s.fwdEntryIdsBits else s.fwdEntryIdsAll
def Subs.fwdEntryIdsAt : Subs → Nat → List Nat
  | .nil, _ => []
  | .cons _ n _, 0 => n.fwdEntryIds
  | .cons _ _ r, i+1 => r.fwdEntryIdsAt i
def Subs.fwdEntryIdsBits : Subs → List Nat
  | .nil => []
  | .cons b n r => (if b then n.fwdEntryIds else []) ++ r.fwdEntryIdsBits
def Subs.fwdEntryIdsAll : Subs → List Nat
  | .nil => []
  | .cons _ n r => n.fwdEntryIds ++ r.fwdEntryIdsAll
end

mutual
/-- Inside an active orthogonal region with request bits, every sub-state without a bit has nothing to
commit (the guard walks skip it, the commit pass does not). -/
def Node.BitsOK : Node → Bool
  | .leaf .. => true
  | .compo _ _ _ _ _ a _ q _ s => match q, a with
    | none, some ai => s.BitsOKAt ai
    | _, _ => true
  | .ortho _ _ _ _ s => if s.anyBit then s.BitsOKBits else s.BitsOKAll
def Subs.BitsOKAt : Subs → Nat → Bool
  | .nil, _ => true
  | .cons _ n _, 0 => n.BitsOK
  | .cons _ _ r, i+1 => r.BitsOKAt i
def Subs.BitsOKBits : Subs → Bool
  | .nil => true
  | .cons b n r => (if b then n.BitsOK else n.commitActs.isEmpty) && r.BitsOKBits
def Subs.BitsOKAll : Subs → Bool
  | .nil => true
  | .cons _ n r => n.BitsOK && r.BitsOKAll
end

/-! ### the static inclusion -/

/-- every exit in `acts` is of a state in `xs`, every enter / reenter of a state in `es` -/
def Covered (acts : List (Nat × Method)) (xs es : List Nat) : Prop :=
  ∀ p ∈ acts, (p.2 = .exit → p.1 ∈ xs) ∧ (p.2 = .enter ∨ p.2 = .reenter → p.1 ∈ es) ∧
    (p.2 = .exit ∨ p.2 = .enter ∨ p.2 = .reenter)

theorem Covered.nil (xs es : List Nat) : Covered [] xs es := fun _ h => nomatch h

theorem Covered.append {a b : List (Nat × Method)} {xs es : List Nat} (ha : Covered a xs es) (hb : Covered b xs es) :
    Covered (a ++ b) xs es := by
  intro p hp
  rcases List.mem_append.mp hp with h | h
  · exact ha p h
  · exact hb p h

theorem Covered.mono {a : List (Nat × Method)} {xs es xs' es' : List Nat} (h : Covered a xs es)
    (hx : ∀ i ∈ xs, i ∈ xs') (he : ∀ i ∈ es, i ∈ es') : Covered a xs' es' := by
  intro p hp
  obtain ⟨h1, h2, h3⟩ := h p hp
  exact ⟨fun e => hx _ (h1 e), fun e => he _ (h2 e), h3⟩

theorem Covered.exits (l xs es : List Nat) (h : ∀ i ∈ l, i ∈ xs) : Covered (exits l) xs es := by
  intro p hp
  obtain ⟨i, hi, rfl⟩ := List.mem_map.mp hp
  refine ⟨fun _ => h i hi, ?_, .inl rfl⟩
  intro e
  rcases e with e | e <;> cases e

theorem Covered.enters (l xs es : List Nat) (h : ∀ i ∈ l, i ∈ es) : Covered (enters l) xs es := by
  intro p hp
  obtain ⟨i, hi, rfl⟩ := List.mem_map.mp hp
  refine ⟨?_, fun _ => h i hi, .inr (.inl rfl)⟩
  intro e; cases e

theorem Covered.single_reenter (id : Nat) (xs es : List Nat) (h : id ∈ es) : Covered [(id, .reenter)] xs es := by
  intro p hp
  rw [List.mem_singleton.mp hp]
  refine ⟨?_, fun _ => h, .inr (.inr rfl)⟩
  intro e; cases e

mutual
theorem Node.reenterActs_covered : (n : Node) → Covered n.reenterActs n.actIds n.reqIds
  | .leaf id inj => by
    simp only [Node.reenterActs, Node.actIds, Node.reqIds]
    exact Covered.single_reenter id _ _ List.mem_cons_self
  | .compo id rid inj h st a r q m s => by
    simp only [Node.reenterActs, Node.actIds, Node.reqIds]
    split
    · next ai qi =>
      dsimp only
      refine Covered.append ?_ ?_
      · split
        · exact Covered.single_reenter id _ _ (List.mem_append_left _ List.mem_cons_self)
        · exact Covered.nil _ _
      · split
        · next heq =>
          subst heq
          exact (Subs.reenterActsAt_covered s ai).mono (fun i hi => List.mem_append_right _ hi)
            (fun i hi => List.mem_append_right _ hi)
        · exact Covered.append (Covered.exits _ _ _ (fun i hi => List.mem_append_right _ hi))
            (Covered.enters _ _ _ (fun i hi => List.mem_append_right _ hi))
    · exact Covered.nil _ _
  | .ortho id rid inj h s => by
    simp only [Node.reenterActs, Node.actIds, Node.reqIds]
    refine Covered.append ?_ ?_
    · split
      · exact Covered.single_reenter id _ _ (List.mem_append_left _ List.mem_cons_self)
      · exact Covered.nil _ _
    · exact (Subs.reenterActsAll_covered s).mono (fun i hi => List.mem_append_right _ hi)
        (fun i hi => List.mem_append_right _ hi)
theorem Subs.reenterActsAt_covered : (s : Subs) → (i : Nat) → Covered (s.reenterActsAt i) (s.actIdsAt i) (s.reqIdsAt i)
  | .nil, _ => by simp only [Subs.reenterActsAt]; exact Covered.nil _ _
  | .cons _ n _, 0 => by simp only [Subs.reenterActsAt, Subs.actIdsAt, Subs.reqIdsAt]; exact Node.reenterActs_covered n
  | .cons _ _ r, i+1 => by
    simp only [Subs.reenterActsAt, Subs.actIdsAt, Subs.reqIdsAt]; exact Subs.reenterActsAt_covered r i
theorem Subs.reenterActsAll_covered : (s : Subs) → Covered s.reenterActsAll s.actIdsAll s.reqIdsAll
  | .nil => by simp only [Subs.reenterActsAll]; exact Covered.nil _ _
  | .cons _ n r => by
    simp only [Subs.reenterActsAll, Subs.actIdsAll, Subs.reqIdsAll]
    exact Covered.append ((Node.reenterActs_covered n).mono (fun i hi => List.mem_append_left _ hi)
        (fun i hi => List.mem_append_left _ hi))
      ((Subs.reenterActsAll_covered r).mono (fun i hi => List.mem_append_right _ hi)
        (fun i hi => List.mem_append_right _ hi))
end

mutual
/-- (c), static half: what the commit pass will exit / enter / re-enter is visited by the guard walks. -/
theorem Node.commitActs_covered : (n : Node) → n.BitsOK = true → Covered n.commitActs n.fwdExitIds n.fwdEntryIds
  | .leaf id inj, _ => by simp only [Node.commitActs]; exact Covered.nil _ _
  | .compo id rid inj h st a r q m s, hb => by
    cases a with
    | none => simp only [Node.commitActs]; exact Covered.nil _ _
    | some ai =>
      cases q with
      | none =>
        simp only [Node.commitActs, Node.fwdExitIds, Node.fwdEntryIds]
        simp only [Node.BitsOK] at hb
        exact Subs.commitActsAt_covered s ai hb
      | some qi =>
        simp only [Node.commitActs, Node.fwdExitIds, Node.fwdEntryIds]
        split
        · exact Covered.append (Covered.exits _ _ _ (fun _ h => h)) (Covered.enters _ _ _ (fun _ h => h))
        · next hne =>
          have heq : qi = ai := by simpa using hne
          subst heq
          split
          · exact Covered.append (Covered.exits _ _ _ (fun _ h => h)) (Covered.enters _ _ _ (fun _ h => h))
          · exact Subs.reenterActsAt_covered s qi
  | .ortho id rid inj h s, hb => by
    simp only [Node.commitActs, Node.fwdExitIds, Node.fwdEntryIds]
    simp only [Node.BitsOK] at hb
    split
    · next hany =>
      rw [if_pos hany] at hb
      exact Subs.commitActsAll_covered_bits s hb
    · next hany =>
      rw [if_neg hany] at hb
      exact Subs.commitActsAll_covered_all s hb
theorem Subs.commitActsAt_covered : (s : Subs) → (i : Nat) → s.BitsOKAt i = true →
    Covered (s.commitActsAt i) (s.fwdExitIdsAt i) (s.fwdEntryIdsAt i)
  | .nil, _, _ => by simp only [Subs.commitActsAt]; exact Covered.nil _ _
  | .cons _ n _, 0, hb => by
    simp only [Subs.commitActsAt, Subs.fwdExitIdsAt, Subs.fwdEntryIdsAt]
    simp only [Subs.BitsOKAt] at hb
    exact Node.commitActs_covered n hb
  | .cons _ _ r, i+1, hb => by
    simp only [Subs.commitActsAt, Subs.fwdExitIdsAt, Subs.fwdEntryIdsAt]
    simp only [Subs.BitsOKAt] at hb
    exact Subs.commitActsAt_covered r i hb
theorem Subs.commitActsAll_covered_all : (s : Subs) → s.BitsOKAll = true →
    Covered s.commitActsAll s.fwdExitIdsAll s.fwdEntryIdsAll
  | .nil, _ => by simp only [Subs.commitActsAll]; exact Covered.nil _ _
  | .cons _ n r, hb => by
    simp only [Subs.commitActsAll, Subs.fwdExitIdsAll, Subs.fwdEntryIdsAll]
    simp only [Subs.BitsOKAll, Bool.and_eq_true] at hb
    exact Covered.append ((Node.commitActs_covered n hb.1).mono (fun i hi => List.mem_append_left _ hi)
        (fun i hi => List.mem_append_left _ hi))
      ((Subs.commitActsAll_covered_all r hb.2).mono (fun i hi => List.mem_append_right _ hi)
        (fun i hi => List.mem_append_right _ hi))
theorem Subs.commitActsAll_covered_bits : (s : Subs) → s.BitsOKBits = true →
    Covered s.commitActsAll s.fwdExitIdsBits s.fwdEntryIdsBits
  | .nil, _ => by simp only [Subs.commitActsAll]; exact Covered.nil _ _
  | .cons b n r, hb => by
    simp only [Subs.commitActsAll, Subs.fwdExitIdsBits, Subs.fwdEntryIdsBits]
    simp only [Subs.BitsOKBits, Bool.and_eq_true] at hb
    refine Covered.append ?_ ((Subs.commitActsAll_covered_bits r hb.2).mono (fun i hi => List.mem_append_right _ hi)
        (fun i hi => List.mem_append_right _ hi))
    cases b with
    | true =>
      simp only [if_true] at hb ⊢
      exact (Node.commitActs_covered n hb.1).mono (fun i hi => List.mem_append_left _ hi)
        (fun i hi => List.mem_append_left _ hi)
    | false =>
      simp only [Bool.false_eq_true, if_false] at hb
      rw [List.isEmpty_iff.mp hb.1]
      exact Covered.nil _ _
end

/-! ### the lifecycle walks deliver exactly these callbacks -/

/-- permission to invoke the (state, method) pairs of `A` only -/
abbrev permActs (A : List (Nat × Method)) : Perm := ⟨fun sid m => (sid, m) ∈ A, fun _ => False, False⟩

mutual
theorem Node.exit_reqIds : (n : Node) → (w : World U) → (n.exit w).1.reqIds = n.reqIds
  | .leaf id inj, w => by simp only [Node.exit]
  | .compo id rid inj h st a r q m s, w => by
    simp only [Node.exit]
    split
    · rfl
    · next ai => simp only [Node.reqIds, Subs.exitAt_reqIdsAt s ai]
  | .ortho id rid inj h s, w => by simp only [Node.exit, Node.reqIds, Subs.exitAll_reqIdsAll s]
theorem Subs.exitAt_reqIdsAt : (s : Subs) → (i : Nat) → (w : World U) → (j : Nat) →
    (s.exitAt i w).1.reqIdsAt j = s.reqIdsAt j
  | .nil, _, w, j => by simp only [Subs.exitAt]
  | .cons b n r, 0, w, 0 => by simp only [Subs.exitAt, Subs.reqIdsAt, Node.exit_reqIds n]
  | .cons b n r, 0, w, j+1 => by simp only [Subs.exitAt, Subs.reqIdsAt]
  | .cons b n r, i+1, w, 0 => by simp only [Subs.exitAt, Subs.reqIdsAt]
  | .cons b n r, i+1, w, j+1 => by simp only [Subs.exitAt, Subs.reqIdsAt, Subs.exitAt_reqIdsAt r i w j]
theorem Subs.exitAll_reqIdsAll : (s : Subs) → (w : World U) → (s.exitAll w).1.reqIdsAll = s.reqIdsAll
  | .nil, w => by simp only [Subs.exitAll]
  | .cons b n r, w => by simp only [Subs.exitAll, Subs.reqIdsAll, Node.exit_reqIds n, Subs.exitAll_reqIdsAll r]
end

mutual
theorem Node.enter_acts (A : List (Nat × Method)) : (n : Node) → (∀ id ∈ n.reqIds, (id, Method.enter) ∈ A) →
    (w0 w : World U) → Steps (permActs A) w0 w → Steps (permActs A) w0 (n.enter w).2
  | .leaf id inj, hA, w0, w, h => by
    simp only [Node.enter]
    exact h.stateMethod _ _ _ _ (hA id (by simp only [Node.reqIds, List.mem_singleton]))
  | .compo id rid inj hd st a r q m s, hA, w0, w, h => by
    simp only [Node.enter]
    split
    · exact h.fail' _
    · next qi =>
      dsimp only
      apply Steps.popRegion
      apply Subs.enterAt_acts A s qi (fun i hi => hA i (by simp only [Node.reqIds]; exact List.mem_append_right _ hi))
      refine Steps.stateMethod' ?_ _ _ _ _ (fun hh => hA id (by simp only [Node.reqIds, hh, if_true]; exact List.mem_append_left _ List.mem_cons_self))
      exact h.pushRegion _ _ _
  | .ortho id rid inj hd s, hA, w0, w, h => by
    simp only [Node.enter]
    apply Steps.popRegion
    apply Subs.enterAll_acts A s (fun i hi => hA i (by simp only [Node.reqIds]; exact List.mem_append_right _ hi))
    refine Steps.stateMethod' ?_ _ _ _ _ (fun hh => hA id (by simp only [Node.reqIds, hh, if_true]; exact List.mem_append_left _ List.mem_cons_self))
    exact h.pushRegion _ _ _
theorem Subs.enterAt_acts (A : List (Nat × Method)) : (s : Subs) → (i : Nat) →
    (∀ id ∈ s.reqIdsAt i, (id, Method.enter) ∈ A) →
    (w0 w : World U) → Steps (permActs A) w0 w → Steps (permActs A) w0 (s.enterAt i w).2
  | .nil, _, _, w0, w, h => by simp only [Subs.enterAt]; exact h.fail' _
  | .cons _ n _, 0, hA, w0, w, h => by simp only [Subs.enterAt]; exact Node.enter_acts A n hA w0 w h
  | .cons _ _ r, i+1, hA, w0, w, h => by simp only [Subs.enterAt]; exact Subs.enterAt_acts A r i hA w0 w h
theorem Subs.enterAll_acts (A : List (Nat × Method)) : (s : Subs) → (∀ id ∈ s.reqIdsAll, (id, Method.enter) ∈ A) →
    (w0 w : World U) → Steps (permActs A) w0 w → Steps (permActs A) w0 (s.enterAll w).2
  | .nil, _, w0, w, h => by simp only [Subs.enterAll]; exact h
  | .cons _ n r, hA, w0, w, h => by
    simp only [Subs.enterAll]
    exact Subs.enterAll_acts A r (fun i hi => hA i (by simp only [Subs.reqIdsAll]; exact List.mem_append_right _ hi)) w0 _
      (Node.enter_acts A n (fun i hi => hA i (by simp only [Subs.reqIdsAll]; exact List.mem_append_left _ hi)) w0 w h)
end

mutual
theorem Node.exit_acts (A : List (Nat × Method)) : (n : Node) → (∀ id ∈ n.actIds, (id, Method.exit) ∈ A) →
    (w0 w : World U) → Steps (permActs A) w0 w → Steps (permActs A) w0 (n.exit w).2
  | .leaf id inj, hA, w0, w, h => by
    simp only [Node.exit]
    exact h.exitState _ _ _ (hA id (by simp only [Node.actIds, List.mem_singleton]))
  | .compo id rid inj hd st a r q m s, hA, w0, w, h => by
    simp only [Node.exit]
    split
    · exact h.fail' _
    · next ai =>
      dsimp only
      refine Steps.exitState' ?_ _ _ _ (fun hh => hA id (by simp only [Node.actIds, hh, if_true]; exact List.mem_append_left _ List.mem_cons_self))
      exact Subs.exitAt_acts A s ai (fun i hi => hA i (by simp only [Node.actIds]; exact List.mem_append_right _ hi)) w0 w h
  | .ortho id rid inj hd s, hA, w0, w, h => by
    simp only [Node.exit]
    refine Steps.exitState' ?_ _ _ _ (fun hh => hA id (by simp only [Node.actIds, hh, if_true]; exact List.mem_append_left _ List.mem_cons_self))
    exact Subs.exitAll_acts A s (fun i hi => hA i (by simp only [Node.actIds]; exact List.mem_append_right _ hi)) w0 w h
theorem Subs.exitAt_acts (A : List (Nat × Method)) : (s : Subs) → (i : Nat) →
    (∀ id ∈ s.actIdsAt i, (id, Method.exit) ∈ A) →
    (w0 w : World U) → Steps (permActs A) w0 w → Steps (permActs A) w0 (s.exitAt i w).2
  | .nil, _, _, w0, w, h => by simp only [Subs.exitAt]; exact h.fail' _
  | .cons _ n _, 0, hA, w0, w, h => by simp only [Subs.exitAt]; exact Node.exit_acts A n hA w0 w h
  | .cons _ _ r, i+1, hA, w0, w, h => by simp only [Subs.exitAt]; exact Subs.exitAt_acts A r i hA w0 w h
theorem Subs.exitAll_acts (A : List (Nat × Method)) : (s : Subs) → (∀ id ∈ s.actIdsAll, (id, Method.exit) ∈ A) →
    (w0 w : World U) → Steps (permActs A) w0 w → Steps (permActs A) w0 (s.exitAll w).2
  | .nil, _, w0, w, h => by simp only [Subs.exitAll]; exact h
  | .cons _ n r, hA, w0, w, h => by
    simp only [Subs.exitAll]
    exact Subs.exitAll_acts A r (fun i hi => hA i (by simp only [Subs.actIdsAll]; exact List.mem_append_right _ hi)) w0 _
      (Node.exit_acts A n (fun i hi => hA i (by simp only [Subs.actIdsAll]; exact List.mem_append_left _ hi)) w0 w h)
end

theorem mem_exits {l : List Nat} {i : Nat} (h : i ∈ l) : (i, Method.exit) ∈ exits l := List.mem_map.mpr ⟨i, h, rfl⟩
theorem mem_enters {l : List Nat} {i : Nat} (h : i ∈ l) : (i, Method.enter) ∈ enters l := List.mem_map.mpr ⟨i, h, rfl⟩

/-- `exitAt ai` then `enterAt qi` on the result, as both `reenter` and `commit` do when switching -/
theorem Subs.switch_acts (A : List (Nat × Method)) (s : Subs) (ai qi : Nat)
    (hx : ∀ id ∈ s.actIdsAt ai, (id, Method.exit) ∈ A) (he : ∀ id ∈ s.reqIdsAt qi, (id, Method.enter) ∈ A)
    (w0 w : World U) (h : Steps (permActs A) w0 w) :
    Steps (permActs A) w0 (Subs.enterAt (Subs.exitAt s ai w).1 qi (Subs.exitAt s ai w).2).2 := by
  apply Subs.enterAt_acts A _ qi
  · rw [Subs.exitAt_reqIdsAt]; exact he
  · exact Subs.exitAt_acts A s ai hx w0 w h

mutual
theorem Node.reenter_acts (A : List (Nat × Method)) : (n : Node) → (∀ p ∈ n.reenterActs, p ∈ A) →
    (w0 w : World U) → Steps (permActs A) w0 w → Steps (permActs A) w0 (n.reenter w).2
  | .leaf id inj, hA, w0, w, h => by
    simp only [Node.reenter]
    exact h.stateMethod _ _ _ _ (hA _ (by simp only [Node.reenterActs, List.mem_singleton]))
  | .compo id rid inj hd st a r q m s, hA, w0, w, h => by
    simp only [Node.reenter]
    split
    · next ai qi =>
      have hhead : hd = true → (id, Method.reenter) ∈ A := fun hh =>
        hA _ (by simp only [Node.reenterActs, hh, if_true]; exact List.mem_append_left _ List.mem_cons_self)
      have hrest : ∀ p ∈ (if ai = qi then s.reenterActsAt ai else exits (s.actIdsAt ai) ++ enters (s.reqIdsAt qi)), p ∈ A :=
        fun p hp => hA p (by simp only [Node.reenterActs]; exact List.mem_append_right _ hp)
      try dsimp only
      split
      · next heq =>
        dsimp only
        apply Steps.popRegion
        rw [if_pos heq] at hrest
        apply Subs.reenterAt_acts A s ai hrest
        exact (h.pushRegion _ _ _).stateMethod' _ _ _ _ hhead
      · next hne =>
        dsimp only
        apply Steps.popRegion
        rw [if_neg hne] at hrest
        apply Subs.switch_acts A s ai qi (fun i hi => hrest _ (List.mem_append_left _ (mem_exits hi)))
          (fun i hi => hrest _ (List.mem_append_right _ (mem_enters hi)))
        exact (h.pushRegion _ _ _).stateMethod' _ _ _ _ hhead
    · exact h.fail' _
  | .ortho id rid inj hd s, hA, w0, w, h => by
    simp only [Node.reenter]
    apply Steps.popRegion
    apply Subs.reenterAll_acts A s (fun p hp => hA p (by simp only [Node.reenterActs]; exact List.mem_append_right _ hp))
    refine Steps.stateMethod' ?_ _ _ _ _ (fun hh => hA _ (by simp only [Node.reenterActs, hh, if_true]; exact List.mem_append_left _ List.mem_cons_self))
    exact h.pushRegion _ _ _
theorem Subs.reenterAt_acts (A : List (Nat × Method)) : (s : Subs) → (i : Nat) → (∀ p ∈ s.reenterActsAt i, p ∈ A) →
    (w0 w : World U) → Steps (permActs A) w0 w → Steps (permActs A) w0 (s.reenterAt i w).2
  | .nil, _, _, w0, w, h => by simp only [Subs.reenterAt]; exact h.fail' _
  | .cons _ n _, 0, hA, w0, w, h => by simp only [Subs.reenterAt]; exact Node.reenter_acts A n hA w0 w h
  | .cons _ _ r, i+1, hA, w0, w, h => by simp only [Subs.reenterAt]; exact Subs.reenterAt_acts A r i hA w0 w h
theorem Subs.reenterAll_acts (A : List (Nat × Method)) : (s : Subs) → (∀ p ∈ s.reenterActsAll, p ∈ A) →
    (w0 w : World U) → Steps (permActs A) w0 w → Steps (permActs A) w0 (s.reenterAll w).2
  | .nil, _, w0, w, h => by simp only [Subs.reenterAll]; exact h
  | .cons _ n r, hA, w0, w, h => by
    simp only [Subs.reenterAll]
    exact Subs.reenterAll_acts A r (fun p hp => hA p (by simp only [Subs.reenterActsAll]; exact List.mem_append_right _ hp)) w0 _
      (Node.reenter_acts A n (fun p hp => hA p (by simp only [Subs.reenterActsAll]; exact List.mem_append_left _ hp)) w0 w h)
end

mutual
theorem Node.commit_acts (A : List (Nat × Method)) : (n : Node) → (∀ p ∈ n.commitActs, p ∈ A) →
    (w0 w : World U) → Steps (permActs A) w0 w → Steps (permActs A) w0 (n.commit w).2
  | .leaf id inj, hA, w0, w, h => by simp only [Node.commit]; exact h
  | .compo id rid inj hd st a r q m s, hA, w0, w, h => by
    simp only [Node.commit]
    split
    · exact h.fail' _
    · next ai =>
      try dsimp only
      split
      · dsimp only
        apply Steps.popRegion
        exact Subs.commitAt_acts A s ai (fun p hp => hA p (by simp only [Node.commitActs]; exact hp)) w0 _ (h.pushRegion _ _ _)
      · next qi =>
        simp only [Node.commitActs] at hA
        split
        · next hne =>
          rw [if_pos hne] at hA
          dsimp only
          apply Steps.popRegion
          exact Subs.switch_acts A s ai qi (fun i hi => hA _ (List.mem_append_left _ (mem_exits hi)))
            (fun i hi => hA _ (List.mem_append_right _ (mem_enters hi))) w0 _ (h.pushRegion _ _ _)
        · next hne =>
          rw [if_neg hne] at hA
          split
          · next hm =>
            rw [if_pos hm] at hA
            dsimp only
            apply Steps.popRegion
            exact Subs.switch_acts A s ai ai (fun i hi => hA _ (List.mem_append_left _ (mem_exits hi)))
              (fun i hi => hA _ (List.mem_append_right _ (mem_enters hi))) w0 _ (h.pushRegion _ _ _)
          · next hm =>
            rw [if_neg hm] at hA
            dsimp only
            apply Steps.popRegion
            exact Subs.reenterAt_acts A s ai hA w0 _ (h.pushRegion _ _ _)
  | .ortho id rid inj hd s, hA, w0, w, h => by
    simp only [Node.commit]
    exact Subs.commitAll_acts A s (fun p hp => hA p (by simp only [Node.commitActs]; exact hp)) w0 w h
theorem Subs.commitAt_acts (A : List (Nat × Method)) : (s : Subs) → (i : Nat) → (∀ p ∈ s.commitActsAt i, p ∈ A) →
    (w0 w : World U) → Steps (permActs A) w0 w → Steps (permActs A) w0 (s.commitAt i w).2
  | .nil, _, _, w0, w, h => by simp only [Subs.commitAt]; exact h.fail' _
  | .cons _ n _, 0, hA, w0, w, h => by simp only [Subs.commitAt]; exact Node.commit_acts A n hA w0 w h
  | .cons _ _ r, i+1, hA, w0, w, h => by simp only [Subs.commitAt]; exact Subs.commitAt_acts A r i hA w0 w h
theorem Subs.commitAll_acts (A : List (Nat × Method)) : (s : Subs) → (∀ p ∈ s.commitActsAll, p ∈ A) →
    (w0 w : World U) → Steps (permActs A) w0 w → Steps (permActs A) w0 (s.commitAll w).2
  | .nil, _, w0, w, h => by simp only [Subs.commitAll]; exact h
  | .cons _ n r, hA, w0, w, h => by
    simp only [Subs.commitAll]
    exact Subs.commitAll_acts A r (fun p hp => hA p (by simp only [Subs.commitActsAll]; exact List.mem_append_right _ hp)) w0 _
      (Node.commit_acts A n (fun p hp => hA p (by simp only [Subs.commitActsAll]; exact List.mem_append_left _ hp)) w0 w h)
end

end Hfsm
